(* Sketch-level proofs.
   Part I  (Layer A, Spec/ASketch.v, axiom-free): coherence (C12), mergeability (C02),
           reweighting (C16) of the abstract sketch.
   Part II (Layer B, Sketch/Sketch.v, Flocq floats): the rejection tables (C13). *)
From SK Require Import Spec.Bins Spec.BinsProofs Spec.ASketch.
From Coq Require Import Lqa Permutation.

(* linear arithmetic with opposites *)
Ltac qlra :=
  unfold W, w0, w1, wadd, wmul, wsub in *;
  repeat match goal with
  | H : @eq Qc _ _ |- _ => apply Qc_eq_iff in H
  | H : ~ @eq Qc _ _ |- _ => rewrite Qc_eq_iff in H
  | |- @eq Qc _ _ => apply Qc_is_canon
  | |- ~ @eq Qc _ _ => rewrite Qc_eq_iff
  end;
  unfold Qcle, Qclt in *;
  repeat match goal with
  | |- context [this (?a + ?b)%Qc] => rewrite (this_plus a b)
  | |- context [this (?a * ?b)%Qc] => rewrite (this_mult a b)
  | |- context [this (?a - ?b)%Qc] => rewrite (this_minus a b)
  | |- context [this (- ?a)%Qc] => rewrite (this_opp a)
  | H : context [this (?a + ?b)%Qc] |- _ => rewrite (this_plus a b) in H
  | H : context [this (?a - ?b)%Qc] |- _ => rewrite (this_minus a b) in H
  | H : context [this (?a * ?b)%Qc] |- _ => rewrite (this_mult a b) in H
  | H : context [this (- ?a)%Qc] |- _ => rewrite (this_opp a) in H
  end;
  change (this (Q2Qc 0)) with 0%Q in *; change (this (Q2Qc 1)) with 1%Q in *;
  lra.

(* [ring] looks at the declared type of atoms: hide those of type [W] behind variables *)
Ltac wring2 :=
  repeat match goal with
  | |- context [total ?b] => generalize (total b); intro
  | |- context [a_zero ?s] => generalize (a_zero s); intro
  end;
  unfold W, w0, w1, wadd, wmul, wsub in *; ring.

(* ================================================================== *)
(** * Part I. Layer A                                                  *)
(* ================================================================== *)

(* canonical, positive sketch *)
Definition awf (s : asketch) : Prop :=
  wf (a_pos s) = true /\ wf (a_neg s) = true /\ pos (a_pos s) /\ pos (a_neg s) /\ (w0 <= a_zero s)%Qc.

Lemma awf_new : awf a_new.
Proof.
  unfold awf, a_new; cbn [a_pos a_neg a_zero].
  split; [reflexivity|]. split; [reflexivity|]. split; [constructor|]. split; [constructor|]. wlra.
Qed.

Lemma asketch_ext s t :
  a_pos s = a_pos t -> a_neg s = a_neg t -> a_zero s = a_zero t -> s = t.
Proof.
  destruct s as [p n z], t as [p' n' z']; cbn [a_pos a_neg a_zero].
  intros Hp Hn Hz. subst. reflexivity.
Qed.

Lemma a_count_new : a_count a_new = w0.
Proof. unfold a_count, a_new; cbn [a_pos a_neg a_zero]. rewrite total_nil. wlra. Qed.

(* ------------------------------------------------------------------ *)
(** ** 1. a_add                                                        *)
(* ------------------------------------------------------------------ *)

Lemma wf_sadd l b i c : wf b = true -> pos b -> (w0 <= c)%Qc -> wf (sadd l b i c) = true.
Proof.
  intros Hwf Hp Hc. unfold sadd. apply wf_norm; [apply wf_badd0|apply pos_badd0]; assumption.
Qed.
Lemma pos_sadd l b i c : pos b -> (w0 <= c)%Qc -> pos (sadd l b i c).
Proof. intros Hp Hc. unfold sadd. apply pos_norm. apply pos_badd0; assumption. Qed.
Lemma total_sadd l b i c : total (sadd l b i c) = wadd (total b) c.
Proof. unfold sadd. rewrite total_norm. apply total_badd0. Qed.

(* the three-way case analysis of a_add *)
Ltac a_add_cases m v :=
  destruct (wltb (am_min m) v);
  [destruct (wltb (am_max m) v)
  |destruct (wltb v (Qcopp (am_min m))); [destruct (wltb v (Qcopp (am_max m)))|]].

Theorem a_add_awf m lp ln s v c s' :
  awf s -> (w0 <= c)%Qc -> a_add m lp ln s v c = AAdded s' -> awf s'.
Proof.
  intros (Hp & Hn & Pp & Pn & Hz) Hc. unfold a_add. a_add_cases m v; intros H; try discriminate;
    injection H as H; subst s'; unfold awf; cbn [a_pos a_neg a_zero].
  - split; [apply wf_sadd; assumption|]. split; [exact Hn|].
    split; [apply pos_sadd; assumption|]. split; [exact Pn|exact Hz].
  - split; [exact Hp|]. split; [apply wf_sadd; assumption|].
    split; [exact Pp|]. split; [apply pos_sadd; assumption|exact Hz].
  - split; [exact Hp|]. split; [exact Hn|]. split; [exact Pp|]. split; [exact Pn|].
    apply wnonneg_add; assumption.
Qed.

(* no weight is lost, also through collapsing *)
Theorem a_add_count m lp ln s v c s' :
  a_add m lp ln s v c = AAdded s' -> a_count s' = wadd (a_count s) c.
Proof.
  unfold a_add. a_add_cases m v; intros H; try discriminate;
    injection H as H; subst s'; unfold a_count; cbn [a_pos a_neg a_zero];
    rewrite ?total_sadd; wring2.
Qed.

(* the value is accepted exactly when it lies in [-max, max] *)
Definition am_ok (m : amapping) : Prop := (w0 <= am_min m)%Qc /\ (am_min m <= am_max m)%Qc.
Theorem a_add_accepted_iff m lp ln s v c :
  am_ok m ->
  ((exists s', a_add m lp ln s v c = AAdded s') <-> (Qcopp (am_max m) <= v <= am_max m)%Qc).
Proof.
  intros [Hm0 Hmm]. unfold a_add.
  destruct (wltb_spec (am_min m) v) as [H1|H1].
  - destruct (wltb_spec (am_max m) v) as [H2|H2]; split.
    + intros [s' H]. discriminate.
    + intros [_ H]. exfalso. apply (Qclt_not_le _ _ H2 H).
    + intros _. apply Qcnot_lt_le in H2. split; qlra.
    + intros _. eexists. reflexivity.
  - apply Qcnot_lt_le in H1. destruct (wltb_spec v (Qcopp (am_min m))) as [H3|H3].
    + destruct (wltb_spec v (Qcopp (am_max m))) as [H4|H4]; split.
      * intros [s' H]. discriminate.
      * intros [H _]. exfalso. apply (Qclt_not_le _ _ H4 H).
      * intros _. apply Qcnot_lt_le in H4. split; qlra.
      * intros _. eexists. reflexivity.
    + apply Qcnot_lt_le in H3. split.
      * intros _. split; qlra.
      * intros _. eexists. reflexivity.
Qed.

(* the total version: a refused value leaves the sketch unchanged (what the code does) *)
Definition a_addx (m : amapping) (lp ln : limit) (s : asketch) (v : Qc) (c : W) : asketch :=
  match a_add m lp ln s v c with AAdded s' => s' | _ => s end.

Lemma a_addx_awf m lp ln s v c : awf s -> (w0 <= c)%Qc -> awf (a_addx m lp ln s v c).
Proof.
  intros Hs Hc. unfold a_addx. destruct (a_add m lp ln s v c) as [s'| |] eqn:E; try exact Hs.
  eapply a_add_awf; eassumption.
Qed.
Lemma a_addx_count m lp ln s v c :
  a_count (a_addx m lp ln s v c) = a_count s \/ a_count (a_addx m lp ln s v c) = wadd (a_count s) c.
Proof.
  unfold a_addx. destruct (a_add m lp ln s v c) as [s'| |] eqn:E; try (left; reflexivity).
  right. eapply a_add_count; eassumption.
Qed.

(* ------------------------------------------------------------------ *)
(** ** 2. emptiness                                                    *)
(* ------------------------------------------------------------------ *)

Theorem a_is_empty_iff s : awf s -> (a_is_empty s = true <-> a_count s = w0).
Proof.
  intros (Hp & Hn & Pp & Pn & Hz). unfold a_is_empty, a_count.
  rewrite !andb_true_iff, weqb_eq, !is_emptyb_iff. split.
  - intros [[H1 H2] H3]. rewrite H1, H2, H3, total_nil. wring2.
  - intros H.
    pose proof (total_nonneg _ (pos_nonneg _ Pp)) as Tp.
    pose proof (total_nonneg _ (pos_nonneg _ Pn)) as Tn.
    assert (E1 : a_zero s = w0) by wlra.
    assert (E2 : total (a_pos s) = w0) by wlra.
    assert (E3 : total (a_neg s) = w0) by wlra.
    split; [split|]; [exact E1|apply total_eq0_iff; assumption|apply total_eq0_iff; assumption].
Qed.
Theorem a_is_empty_new : a_is_empty a_new = true.
Proof. apply a_is_empty_iff; [exact awf_new|exact a_count_new]. Qed.
Lemma a_count_nonneg s : awf s -> (w0 <= a_count s)%Qc.
Proof.
  intros (Hp & Hn & Pp & Pn & Hz). unfold a_count.
  pose proof (total_nonneg _ (pos_nonneg _ Pp)) as Tp.
  pose proof (total_nonneg _ (pos_nonneg _ Pn)) as Tn. wlra.
Qed.

(* ------------------------------------------------------------------ *)
(** ** 6. a_merge                                                      *)
(* ------------------------------------------------------------------ *)

Lemma smerge_list_exact a xs : smerge_list Exact a xs = bmerge a xs.
Proof. reflexivity. Qed.
Lemma smerge_list_nil l a : smerge_list l a [] = a.
Proof. reflexivity. Qed.
Lemma smerge_list_cons l a k c xs : smerge_list l a ((k, c) :: xs) = smerge_list l (sadd l a k c) xs.
Proof. reflexivity. Qed.

Lemma total_smerge_list l a xs : total (smerge_list l a xs) = wadd (total a) (total xs).
Proof.
  revert a. induction xs as [|[k c] xs IH]; intros a.
  - rewrite smerge_list_nil, total_nil. wring2.
  - rewrite smerge_list_cons, IH, total_sadd, total_cons. wring2.
Qed.
Lemma wf_pos_smerge_list l a xs :
  wf a = true -> pos a -> nonneg xs ->
  wf (smerge_list l a xs) = true /\ pos (smerge_list l a xs).
Proof.
  revert a. induction xs as [|[k c] xs IH]; intros a Hwf Hp Hn.
  - rewrite smerge_list_nil. split; assumption.
  - apply nonneg_cons in Hn. destruct Hn as [Hc Hn]. rewrite smerge_list_cons.
    apply IH; [apply wf_sadd|apply pos_sadd|]; assumption.
Qed.

(* any limits *)
Theorem a_merge_awf_gen lp ln s o : awf s -> awf o -> awf (a_merge lp ln s o).
Proof.
  intros (Hp & Hn & Pp & Pn & Hz) (Hp' & Hn' & Pp' & Pn' & Hz').
  unfold awf, a_merge; cbn [a_pos a_neg a_zero].
  destruct (wf_pos_smerge_list lp (a_pos s) (a_pos o) Hp Pp (pos_nonneg _ Pp')) as [A1 A2].
  destruct (wf_pos_smerge_list ln (a_neg s) (a_neg o) Hn Pn (pos_nonneg _ Pn')) as [B1 B2].
  split; [exact A1|]. split; [exact B1|]. split; [exact A2|]. split; [exact B2|].
  apply wnonneg_add; assumption.
Qed.
Theorem a_merge_awf s o : awf s -> awf o -> awf (a_merge Exact Exact s o).
Proof. apply a_merge_awf_gen. Qed.

Theorem a_merge_count lp ln s o : a_count (a_merge lp ln s o) = wadd (a_count s) (a_count o).
Proof.
  unfold a_count, a_merge; cbn [a_pos a_neg a_zero]. rewrite !total_smerge_list. wring2.
Qed.

Theorem a_merge_comm s o :
  awf s -> awf o -> a_merge Exact Exact s o = a_merge Exact Exact o s.
Proof.
  intros (Hp & Hn & Pp & Pn & Hz) (Hp' & Hn' & Pp' & Pn' & Hz').
  apply asketch_ext; unfold a_merge; cbn [a_pos a_neg a_zero]; rewrite ?smerge_list_exact.
  - apply bmerge_comm; assumption.
  - apply bmerge_comm; assumption.
  - apply wadd_comm.
Qed.
Theorem a_merge_assoc a b c :
  awf a -> awf b -> awf c ->
  a_merge Exact Exact (a_merge Exact Exact a b) c = a_merge Exact Exact a (a_merge Exact Exact b c).
Proof.
  intros (Hp & Hn & Pp & Pn & Hz) (Hp' & Hn' & Pp' & Pn' & Hz') (Hp'' & Hn'' & Pp'' & Pn'' & Hz'').
  apply asketch_ext; unfold a_merge; cbn [a_pos a_neg a_zero]; rewrite ?smerge_list_exact.
  - apply bmerge_assoc; assumption.
  - apply bmerge_assoc; assumption.
  - apply eq_sym, wadd_assoc.
Qed.
Theorem a_merge_new_r s : a_merge Exact Exact s a_new = s.
Proof.
  apply asketch_ext; unfold a_merge, a_new; cbn [a_pos a_neg a_zero]; rewrite ?smerge_list_exact.
  - apply bmerge_nil_r.
  - apply bmerge_nil_r.
  - apply wadd_0_r.
Qed.
Theorem a_merge_new_l s : awf s -> a_merge Exact Exact a_new s = s.
Proof.
  intros (Hp & Hn & Pp & Pn & Hz).
  apply asketch_ext; unfold a_merge, a_new; cbn [a_pos a_neg a_zero]; rewrite ?smerge_list_exact.
  - apply bmerge_nil_l_gen; assumption.
  - apply bmerge_nil_l_gen; assumption.
  - apply wadd_0_l.
Qed.
(* merging an empty sketch under any limits changes nothing *)
Theorem a_merge_new_r_gen lp ln s : a_merge lp ln s a_new = s.
Proof. apply asketch_ext; reflexivity || (unfold a_merge, a_new; cbn [a_pos a_neg a_zero]; apply wadd_0_r). Qed.

(* ------------------------------------------------------------------ *)
(** ** 7. adds commute with merges; the merge tree                     *)
(* ------------------------------------------------------------------ *)

Lemma badd0_bmerge a b i c :
  wf a = true -> pos a -> wf b = true -> pos b -> (w0 <= c)%Qc ->
  badd0 (bmerge a b) i c = bmerge (badd0 a i c) b.
Proof.
  intros Ha Pa Hb Pb Hc.
  pose proof (wf_bmerge a b Ha Pa Pb) as Hab. pose proof (pos_bmerge a b Ha Pa Pb) as Pab.
  pose proof (wf_badd0 a i c Ha Pa Hc) as Ha'. pose proof (pos_badd0 a i c Pa Hc) as Pa'.
  apply bins_ext.
  - apply wf_badd0; assumption.
  - apply wf_bmerge; assumption.
  - intros j. rewrite get_badd0 by assumption. rewrite !get_bmerge by assumption.
    rewrite get_badd0 by assumption. destruct (j =? i); wring2.
Qed.

Theorem a_add_merge m s o v c :
  awf s -> awf o -> (w0 <= c)%Qc ->
  a_add m Exact Exact (a_merge Exact Exact s o) v c =
  match a_add m Exact Exact s v c with
  | AAdded s' => AAdded (a_merge Exact Exact s' o)
  | r => r
  end.
Proof.
  intros (Hp & Hn & Pp & Pn & Hz) (Hp' & Hn' & Pp' & Pn' & Hz') Hc.
  unfold a_add. a_add_cases m v; try reflexivity; f_equal;
    apply asketch_ext; unfold a_merge, sadd; cbn [a_pos a_neg a_zero norm];
    rewrite ?smerge_list_exact; try reflexivity.
  - apply badd0_bmerge; assumption.
  - apply badd0_bmerge; assumption.
  - wring2.
Qed.
Corollary a_add_merge_accepted m s o v c s' :
  awf s -> awf o -> (w0 <= c)%Qc -> a_add m Exact Exact s v c = AAdded s' ->
  a_add m Exact Exact (a_merge Exact Exact s o) v c = AAdded (a_merge Exact Exact s' o).
Proof. intros Hs Ho Hc H. rewrite a_add_merge by assumption. rewrite H. reflexivity. Qed.
Lemma a_addx_merge m s o v c :
  awf s -> awf o -> (w0 <= c)%Qc ->
  a_addx m Exact Exact (a_merge Exact Exact s o) v c = a_merge Exact Exact (a_addx m Exact Exact s v c) o.
Proof.
  intros Hs Ho Hc. unfold a_addx. rewrite a_add_merge by assumption.
  destruct (a_add m Exact Exact s v c); reflexivity.
Qed.

(* building a sketch from a list of (value, weight) *)
Definition a_build (m : amapping) (lp ln : limit) (s : asketch) (l : list (Qc * W)) : asketch :=
  fold_left (fun acc vc => a_addx m lp ln acc (fst vc) (snd vc)) l s.
(* the strict version: None as soon as one value is refused *)
Definition a_build_strict (m : amapping) (lp ln : limit) (s : asketch) (l : list (Qc * W)) : option asketch :=
  fold_left (fun acc vc => match acc with
                           | Some s0 => match a_add m lp ln s0 (fst vc) (snd vc) with AAdded s' => Some s' | _ => None end
                           | None => None end) l (Some s).
Definition wnonneg (l : list (Qc * W)) : Prop := Forall (fun vc => (w0 <= snd vc)%Qc) l.
Definition accepted (m : amapping) (l : list (Qc * W)) : Prop :=
  Forall (fun vc => (Qcopp (am_max m) <= fst vc <= am_max m)%Qc) l.

Lemma a_build_nil m lp ln s : a_build m lp ln s [] = s.
Proof. reflexivity. Qed.
Lemma a_build_cons m lp ln s v c l :
  a_build m lp ln s ((v, c) :: l) = a_build m lp ln (a_addx m lp ln s v c) l.
Proof. reflexivity. Qed.
Lemma a_build_app m lp ln s l1 l2 :
  a_build m lp ln s (l1 ++ l2) = a_build m lp ln (a_build m lp ln s l1) l2.
Proof. unfold a_build. apply fold_left_app. Qed.
Lemma a_build_awf m lp ln s l : awf s -> wnonneg l -> awf (a_build m lp ln s l).
Proof.
  revert s. induction l as [|[v c] l IH]; intros s Hs Hl; [exact Hs|].
  inversion Hl as [|x y Hc Hl']; subst. rewrite a_build_cons. apply IH; [|exact Hl'].
  apply a_addx_awf; assumption.
Qed.
Lemma a_build_merge m s o l :
  awf s -> awf o -> wnonneg l ->
  a_build m Exact Exact (a_merge Exact Exact s o) l = a_merge Exact Exact (a_build m Exact Exact s l) o.
Proof.
  revert s. induction l as [|[v c] l IH]; intros s Hs Ho Hl; [reflexivity|].
  inversion Hl as [|x y Hc Hl']; subst. cbn [fst snd] in Hc. rewrite !a_build_cons.
  rewrite a_addx_merge by assumption. apply IH; [|exact Ho|exact Hl'].
  apply a_addx_awf; assumption.
Qed.

Lemma a_build_strict_none m lp ln l :
  fold_left (fun acc vc => match acc with
                           | Some s0 => match a_add m lp ln s0 (fst vc) (snd vc) with AAdded s' => Some s' | _ => None end
                           | None => None end) l None = None.
Proof. induction l as [|vc l IH]; [reflexivity|exact IH]. Qed.
Lemma a_build_strict_accepted m lp ln s l :
  am_ok m -> accepted m l ->
  a_build_strict m lp ln s l = Some (a_build m lp ln s l).
Proof.
  intros Hmm. revert s. induction l as [|[v c] l IH]; intros s Hl; [reflexivity|].
  inversion Hl as [|x y Hv Hl']; subst. cbn [fst] in Hv.
  destruct (proj2 (a_add_accepted_iff m lp ln s v c Hmm) Hv) as [s' Hs'].
  rewrite a_build_cons. unfold a_addx. rewrite Hs'.
  unfold a_build_strict. cbn [fold_left fst snd]. rewrite Hs'. apply IH. exact Hl'.
Qed.
(* and conversely: a strict build succeeds only if every value was accepted *)
Lemma a_build_strict_some m lp ln s l r :
  a_build_strict m lp ln s l = Some r -> r = a_build m lp ln s l.
Proof.
  revert s. induction l as [|[v c] l IH]; intros s H.
  - injection H as H. symmetry. exact H.
  - unfold a_build_strict in H. cbn [fold_left fst snd] in H. rewrite a_build_cons. unfold a_addx.
    destruct (a_add m lp ln s v c) as [s'| |].
    + apply IH. exact H.
    + rewrite a_build_strict_none in H. discriminate.
    + rewrite a_build_strict_none in H. discriminate.
Qed.

Inductive mtree := Leaf (l : list (Qc * W)) | Node (t1 t2 : mtree).
Fixpoint flatten (t : mtree) : list (Qc * W) :=
  match t with Leaf l => l | Node t1 t2 => flatten t1 ++ flatten t2 end.
Fixpoint eval (m : amapping) (t : mtree) : asketch :=
  match t with
  | Leaf l => a_build m Exact Exact a_new l
  | Node t1 t2 => a_merge Exact Exact (eval m t1) (eval m t2)
  end.
Fixpoint eval_strict (m : amapping) (t : mtree) : option asketch :=
  match t with
  | Leaf l => a_build_strict m Exact Exact a_new l
  | Node t1 t2 =>
    match eval_strict m t1, eval_strict m t2 with
    | Some a, Some b => Some (a_merge Exact Exact a b)
    | _, _ => None
    end
  end.

(* any split of the input over any number of sketches, merged in any shape, is the single sketch *)
Theorem merge_tree m t :
  wnonneg (flatten t) ->
  eval m t = a_build m Exact Exact a_new (flatten t) /\ awf (eval m t).
Proof.
  induction t as [l|t1 IH1 t2 IH2]; intros Hl; cbn [eval flatten] in *.
  - split; [reflexivity|]. apply a_build_awf; [exact awf_new|exact Hl].
  - unfold wnonneg in Hl. apply Forall_app in Hl. destruct Hl as [Hl1 Hl2].
    destruct (IH1 Hl1) as [E1 W1]. destruct (IH2 Hl2) as [E2 W2].
    assert (E : a_merge Exact Exact (eval m t1) (eval m t2)
                = a_build m Exact Exact a_new (flatten t1 ++ flatten t2)).
    { rewrite a_build_app, <- E1. rewrite (a_merge_comm _ _ W1 W2). rewrite E2.
      rewrite <- a_build_merge by (try assumption; exact awf_new).
      rewrite a_merge_new_l by assumption. reflexivity. }
    split; [exact E|]. apply a_merge_awf; assumption.
Qed.
Theorem merge_tree_strict m t :
  am_ok m -> accepted m (flatten t) -> wnonneg (flatten t) ->
  eval_strict m t = a_build_strict m Exact Exact a_new (flatten t) /\ eval_strict m t = Some (eval m t).
Proof.
  intros Hmm Ha Hl.
  assert (Hs : eval_strict m t = Some (eval m t)).
  { clear Hl. induction t as [l|t1 IH1 t2 IH2]; cbn [eval eval_strict flatten] in *.
    - apply a_build_strict_accepted; assumption.
    - unfold accepted in Ha. apply Forall_app in Ha. destruct Ha as [Ha1 Ha2].
      rewrite (IH1 Ha1), (IH2 Ha2). reflexivity. }
  split; [|exact Hs]. rewrite Hs, (a_build_strict_accepted m Exact Exact a_new _ Hmm Ha).
  f_equal. apply merge_tree. exact Hl.
Qed.
(* two trees with the same leaves in the same order compute the same sketch, whatever their shape *)
Corollary merge_tree_shape m t t' :
  wnonneg (flatten t) -> flatten t = flatten t' -> eval m t = eval m t'.
Proof.
  intros Hl E. destruct (merge_tree m t Hl) as [E1 _].
  rewrite E in Hl. destruct (merge_tree m t' Hl) as [E2 _]. rewrite E1, E2, E. reflexivity.
Qed.

(* ------------------------------------------------------------------ *)
(** ** 8. merging with collapsing limits                               *)
(* ------------------------------------------------------------------ *)

Definition a_norm (lp ln : limit) (s : asketch) : asketch :=
  {| a_pos := norm lp (a_pos s); a_neg := norm ln (a_neg s); a_zero := a_zero s |}.

Theorem a_merge_norm lp ln s o :
  limit_ok lp -> limit_ok ln -> awf s -> awf o ->
  a_merge lp ln (a_norm lp ln s) o =
  a_norm lp ln (a_merge Exact Exact s o).
Proof.
  intros Lp Ln (Hp & Hn & Pp & Pn & Hz) (Hp' & Hn' & Pp' & Pn' & Hz').
  apply asketch_ext; unfold a_merge, a_norm; cbn [a_pos a_neg a_zero]; rewrite ?smerge_list_exact.
  - apply smerge_list_norm; try assumption. apply pos_nonneg; assumption.
  - apply smerge_list_norm; try assumption. apply pos_nonneg; assumption.
  - reflexivity.
Qed.
Corollary a_merge_norm_pos lp ln s o :
  limit_ok lp -> limit_ok ln -> awf s -> awf o ->
  a_pos (a_merge lp ln (a_norm lp ln s) o) = norm lp (bmerge (a_pos s) (a_pos o)).
Proof. intros Lp Ln Hs Ho. rewrite a_merge_norm by assumption. reflexivity. Qed.
Corollary a_merge_norm_neg lp ln s o :
  limit_ok lp -> limit_ok ln -> awf s -> awf o ->
  a_neg (a_merge lp ln (a_norm lp ln s) o) = norm ln (bmerge (a_neg s) (a_neg o)).
Proof. intros Lp Ln Hs Ho. rewrite a_merge_norm by assumption. reflexivity. Qed.
Lemma a_norm_awf lp ln s : awf s -> awf (a_norm lp ln s).
Proof.
  intros (Hp & Hn & Pp & Pn & Hz). unfold awf, a_norm; cbn [a_pos a_neg a_zero].
  split; [apply wf_norm; assumption|]. split; [apply wf_norm; assumption|].
  split; [apply pos_norm; assumption|]. split; [apply pos_norm; assumption|exact Hz].
Qed.
(* adding to a normalised sketch = normalising the exact add *)
Theorem a_addx_norm m lp ln s v c :
  limit_ok lp -> limit_ok ln -> awf s -> (w0 <= c)%Qc ->
  a_addx m lp ln (a_norm lp ln s) v c = a_norm lp ln (a_addx m Exact Exact s v c).
Proof.
  intros Lp Ln (Hp & Hn & Pp & Pn & Hz) Hc. unfold a_addx, a_add.
  a_add_cases m v; try reflexivity; apply asketch_ext; unfold a_norm; cbn [a_pos a_neg a_zero];
    try reflexivity.
  - rewrite sadd_norm by assumption. reflexivity.
  - rewrite sadd_norm by assumption. reflexivity.
Qed.
(* a collapsing sketch built from a list is the normal form of the exact sketch built from it *)
Theorem a_build_norm m lp ln s l :
  limit_ok lp -> limit_ok ln -> awf s -> wnonneg l ->
  a_build m lp ln (a_norm lp ln s) l = a_norm lp ln (a_build m Exact Exact s l).
Proof.
  intros Lp Ln. revert s. induction l as [|[v c] l IH]; intros s Hs Hl; [reflexivity|].
  inversion Hl as [|x y Hc Hl']; subst. cbn [snd] in Hc. rewrite !a_build_cons.
  rewrite a_addx_norm by assumption. apply IH; [|exact Hl']. apply a_addx_awf; assumption.
Qed.

(* ------------------------------------------------------------------ *)
(** ** 9. a_reweight                                                   *)
(* ------------------------------------------------------------------ *)

Theorem a_reweight_awf f s : (w0 < f)%Qc -> awf s -> awf (a_reweight f s).
Proof.
  intros Hf (Hp & Hn & Pp & Pn & Hz). unfold awf, a_reweight; cbn [a_pos a_neg a_zero].
  split; [apply wf_bscale; assumption|]. split; [apply wf_bscale; assumption|].
  split; [apply pos_bscale; assumption|]. split; [apply pos_bscale; assumption|].
  apply wnonneg_mul; [apply wpos_nonneg|]; assumption.
Qed.
Theorem a_reweight_count f s : a_count (a_reweight f s) = wmul f (a_count s).
Proof.
  unfold a_count, a_reweight; cbn [a_pos a_neg a_zero]. rewrite !total_bscale. wring2.
Qed.
Theorem a_reweight_1 s : a_reweight w1 s = s.
Proof.
  apply asketch_ext; unfold a_reweight; cbn [a_pos a_neg a_zero];
    [apply bscale_1|apply bscale_1|apply wmul_1_l].
Qed.
Theorem a_reweight_reweight f g s : a_reweight f (a_reweight g s) = a_reweight (wmul f g) s.
Proof.
  apply asketch_ext; unfold a_reweight; cbn [a_pos a_neg a_zero];
    [apply bscale_bscale|apply bscale_bscale|apply wmul_assoc].
Qed.
Lemma a_reweight_new f : a_reweight f a_new = a_new.
Proof.
  apply asketch_ext; unfold a_reweight, a_new; cbn [a_pos a_neg a_zero];
    [reflexivity|reflexivity|apply wmul_0_r].
Qed.

Lemma bscale_sadd l f b i c :
  (w0 < f)%Qc -> bscale f (sadd l b i c) = sadd l (bscale f b) i (wmul f c).
Proof.
  intros Hf. unfold sadd. rewrite <- norm_bscale by exact Hf.
  rewrite bscale_badd0 by (apply wpos_neq; exact Hf). reflexivity.
Qed.
Theorem a_reweight_add m lp ln f s v c :
  (w0 < f)%Qc ->
  a_add m lp ln (a_reweight f s) v (wmul f c) =
  match a_add m lp ln s v c with
  | AAdded s' => AAdded (a_reweight f s')
  | r => r
  end.
Proof.
  intros Hf. unfold a_add. a_add_cases m v; try reflexivity; f_equal;
    apply asketch_ext; unfold a_reweight; cbn [a_pos a_neg a_zero]; try reflexivity.
  - symmetry. apply bscale_sadd. exact Hf.
  - symmetry. apply bscale_sadd. exact Hf.
  - wring2.
Qed.
Lemma a_reweight_addx m lp ln f s v c :
  (w0 < f)%Qc ->
  a_reweight f (a_addx m lp ln s v c) = a_addx m lp ln (a_reweight f s) v (wmul f c).
Proof.
  intros Hf. unfold a_addx. rewrite a_reweight_add by exact Hf.
  destruct (a_add m lp ln s v c); reflexivity.
Qed.
Lemma bscale_smerge_list l f a xs :
  (w0 < f)%Qc -> bscale f (smerge_list l a xs) = smerge_list l (bscale f a) (bscale f xs).
Proof.
  intros Hf. revert a. induction xs as [|[k c] xs IH]; intros a; [reflexivity|].
  rewrite bscale_cons, !smerge_list_cons, IH, bscale_sadd by exact Hf. reflexivity.
Qed.
Theorem a_reweight_merge lp ln f s o :
  (w0 < f)%Qc ->
  a_reweight f (a_merge lp ln s o) = a_merge lp ln (a_reweight f s) (a_reweight f o).
Proof.
  intros Hf. apply asketch_ext; unfold a_reweight, a_merge; cbn [a_pos a_neg a_zero].
  - apply bscale_smerge_list. exact Hf.
  - apply bscale_smerge_list. exact Hf.
  - wring2.
Qed.

Definition scale_weights (f : W) (l : list (Qc * W)) : list (Qc * W) :=
  map (fun vc => (fst vc, wmul f (snd vc))) l.
Lemma a_reweight_build m lp ln f s l :
  (w0 < f)%Qc ->
  a_reweight f (a_build m lp ln s l) = a_build m lp ln (a_reweight f s) (scale_weights f l).
Proof.
  intros Hf. revert s. induction l as [|[v c] l IH]; intros s; [reflexivity|].
  unfold scale_weights in *. cbn [map fst snd]. rewrite !a_build_cons, IH, a_reweight_addx by exact Hf.
  reflexivity.
Qed.
Theorem reweight_equals_scaled_adds m lp ln f l :
  (w0 < f)%Qc ->
  a_reweight f (a_build m lp ln a_new l) = a_build m lp ln a_new (scale_weights f l).
Proof. intros Hf. rewrite a_reweight_build by exact Hf. rewrite a_reweight_new. reflexivity. Qed.

Lemma wltb_0_mul f z : (w0 < f)%Qc -> wltb w0 (wmul f z) = wltb w0 z.
Proof. intros Hf. rewrite <- (wltb_mul f w0 z Hf). rewrite wmul_0_r. reflexivity. Qed.
Theorem a_max_reweight m f s : (w0 < f)%Qc -> a_max m (a_reweight f s) = a_max m s.
Proof.
  intros Hf. unfold a_max, a_reweight; cbn [a_pos a_neg a_zero].
  rewrite max_key_bscale, min_key_bscale, wltb_0_mul by exact Hf. reflexivity.
Qed.
Theorem a_min_reweight m f s : (w0 < f)%Qc -> a_min m (a_reweight f s) = a_min m s.
Proof.
  intros Hf. unfold a_min, a_reweight; cbn [a_pos a_neg a_zero].
  rewrite max_key_bscale, min_key_bscale, wltb_0_mul by exact Hf. reflexivity.
Qed.
Theorem a_is_empty_reweight f s : (w0 < f)%Qc -> a_is_empty (a_reweight f s) = a_is_empty s.
Proof.
  intros Hf. unfold a_is_empty, a_reweight; cbn [a_pos a_neg a_zero].
  rewrite weqb_mul0 by (apply wpos_neq; exact Hf).
  destruct (a_pos s), (a_neg s); reflexivity.
Qed.

(* ------------------------------------------------------------------ *)
(** ** 3. a_items, a_sum                                               *)
(* ------------------------------------------------------------------ *)

Definition wsum (l : list (Qc * W)) : W := fold_right (fun vw acc => wadd (snd vw) acc) w0 l.
Lemma wsum_app a b : wsum (a ++ b) = wadd (wsum a) (wsum b).
Proof.
  induction a as [|[v w] a IH]; cbn [app wsum fold_right snd].
  - fold (wsum b). generalize (wsum b). intros x. wlra.
  - fold (wsum (a ++ b)). fold (wsum a). rewrite IH. generalize (wsum a) (wsum b). intros x y. wlra.
Qed.
Lemma wsum_map_total (g : Z -> Qc) b : wsum (map (fun kw => (g (fst kw), snd kw)) b) = total b.
Proof.
  induction b as [|[k w] b IH]; [reflexivity|].
  cbn [map wsum fold_right fst snd]. fold (wsum (map (fun kw => (g (fst kw), snd kw)) b)).
  rewrite IH, total_cons. reflexivity.
Qed.

Theorem a_items_total m s : wsum (a_items m s) = a_count s.
Proof.
  unfold a_items, a_count. rewrite !wsum_app, (wsum_map_total (am_value m)).
  rewrite (wsum_map_total (fun k => Qcopp (am_value m k))).
  destruct (weqb_spec (a_zero s) w0) as [E|E].
  - rewrite E. cbn [wsum fold_right]. wlra.
  - cbn [wsum fold_right snd]. wlra.
Qed.
Lemma Forall_map_snd (g : Z -> Qc) (P : W -> Prop) b :
  Forall (fun kw => P (snd kw)) b -> Forall (fun vw => P (snd vw)) (map (fun kw => (g (fst kw), snd kw)) b).
Proof.
  induction b as [|[k w] b IH]; intros H; [constructor|].
  inversion H as [|x y H1 H2]; subst. cbn [map fst snd]. constructor; [exact H1|apply IH; exact H2].
Qed.
Theorem a_items_weights_pos m s : awf s -> Forall (fun vw => (w0 < snd vw)%Qc) (a_items m s).
Proof.
  intros (Hp & Hn & Pp & Pn & Hz). unfold a_items. apply Forall_app. split; [|apply Forall_app; split].
  - destruct (weqb_spec (a_zero s) w0) as [E|E]; [constructor|].
    constructor; [|constructor]. cbn [snd]. apply wnonneg_neq_pos; assumption.
  - apply (Forall_map_snd (am_value m) (fun w => (w0 < w)%Qc)). exact Pp.
  - apply (Forall_map_snd (fun k => Qcopp (am_value m k)) (fun w => (w0 < w)%Qc)). exact Pn.
Qed.
Lemma not_in_map_zero (g : Z -> Qc) (b : bins) (w : W) :
  (forall k, g k <> w0) -> ~ In (w0, w) (map (fun kw : Z * W => (g (fst kw), snd kw)) b).
Proof.
  intros Hg Hin. apply in_map_iff in Hin. destruct Hin as [[k c] [E _]].
  cbn [fst snd] in E. injection E as E _. exact (Hg k E).
Qed.
Lemma not_in_bins_zero m s w :
  (forall i, (w0 < am_value m i)%Qc) ->
  ~ In (w0, w) (map (fun kw => (am_value m (fst kw), snd kw)) (a_pos s)
                ++ map (fun kw => (Qcopp (am_value m (fst kw)), snd kw)) (a_neg s)).
Proof.
  intros Hv Hin. apply in_app_or in Hin. destruct Hin as [Hin|Hin].
  - revert Hin. apply (not_in_map_zero (am_value m)). intros k E. pose proof (Hv k) as Hk. qlra.
  - revert Hin. apply (not_in_map_zero (fun k => Qcopp (am_value m k))).
    intros k E. pose proof (Hv k) as Hk. qlra.
Qed.
(* the zero bucket is reported iff it has weight, and then with that weight *)
Theorem a_items_zero m s :
  (forall i, (w0 < am_value m i)%Qc) ->
  ((exists w, In (w0, w) (a_items m s)) <-> a_zero s <> w0).
Proof.
  intros Hv. unfold a_items. split.
  - intros [w Hin]. apply in_app_or in Hin. destruct Hin as [Hin|Hin].
    + destruct (weqb_spec (a_zero s) w0) as [E|E]; [contradiction|exact E].
    + exfalso. exact (not_in_bins_zero m s w Hv Hin).
  - intros Hz. exists (a_zero s). apply in_or_app. left.
    destruct (weqb_spec (a_zero s) w0) as [E|E]; [contradiction|left; reflexivity].
Qed.
Theorem a_items_zero_weight m s w :
  (forall i, (w0 < am_value m i)%Qc) -> In (w0, w) (a_items m s) -> w = a_zero s.
Proof.
  intros Hv Hin. unfold a_items in Hin. apply in_app_or in Hin. destruct Hin as [Hin|Hin].
  - destruct (weqb_spec (a_zero s) w0) as [E|E]; [contradiction|].
    destruct Hin as [Hin|[]]. injection Hin as Hin. symmetry. exact Hin.
  - exfalso. exact (not_in_bins_zero m s w Hv Hin).
Qed.

(* GetSum is the sum of value * weight over the reported bins, by definition *)
Theorem a_sum_def m s :
  a_sum m s = fold_left (fun acc vw => Qcplus acc (Qcmult (fst vw) (snd vw))) (a_items m s) w0.
Proof. reflexivity. Qed.
Lemma fold_sum_nonneg (l : list (Qc * W)) acc :
  (w0 <= acc)%Qc -> Forall (fun vw => (w0 <= fst vw)%Qc /\ (w0 <= snd vw)%Qc) l ->
  (w0 <= fold_left (fun acc vw => Qcplus acc (Qcmult (fst vw) (snd vw))) l acc)%Qc.
Proof.
  revert acc. induction l as [|[v w] l IH]; intros acc Ha Hl; [exact Ha|].
  inversion Hl as [|x y [H1 H2] Hl']; subst. cbn [fold_left fst snd] in *. apply IH; [|exact Hl'].
  pose proof (wnonneg_mul v w H1 H2) as Hm. wlra.
Qed.
Lemma fold_sum_nonpos (l : list (Qc * W)) acc :
  (acc <= w0)%Qc -> Forall (fun vw => (fst vw <= w0)%Qc /\ (w0 <= snd vw)%Qc) l ->
  (fold_left (fun acc vw => Qcplus acc (Qcmult (fst vw) (snd vw))) l acc <= w0)%Qc.
Proof.
  revert acc. induction l as [|[v w] l IH]; intros acc Ha Hl; [exact Ha|].
  inversion Hl as [|x y [H1 H2] Hl']; subst. cbn [fold_left fst snd] in *. apply IH; [|exact Hl'].
  assert (H1' : (w0 <= Qcopp v)%Qc) by qlra.
  pose proof (wnonneg_mul (Qcopp v) w H1' H2) as Hm.
  assert (E : wmul (Qcopp v) w = Qcopp (wmul v w)) by (unfold W, wmul in *; ring).
  rewrite E in Hm. qlra.
Qed.
(* if every reported value has the same sign, so has the sum *)
Theorem a_sum_nonneg m s :
  (forall i, (w0 < am_value m i)%Qc) -> awf s -> a_neg s = [] -> (w0 <= a_sum m s)%Qc.
Proof.
  intros Hv Hs Hn. unfold a_sum. apply fold_sum_nonneg; [wlra|].
  pose proof (a_items_weights_pos m s Hs) as Hw. unfold a_items in *. rewrite Hn in *.
  cbn [map] in *. rewrite app_nil_r in *.
  apply Forall_app in Hw. destruct Hw as [Hw1 Hw2]. apply Forall_app. split.
  - destruct (weqb (a_zero s) w0); [constructor|]. inversion Hw1 as [|x y H1 H2]; subst.
    constructor; [|constructor]. cbn [fst snd] in *. split; wlra.
  - clear Hw1. induction (a_pos s) as [|[k w] b IH]; [constructor|].
    cbn [map fst snd] in *. inversion Hw2 as [|x y H1 H2]; subst. constructor; [|apply IH; exact H2].
    cbn [fst snd] in *. pose proof (Hv k) as Hk. split; wlra.
Qed.
Theorem a_sum_nonpos m s :
  (forall i, (w0 < am_value m i)%Qc) -> awf s -> a_pos s = [] -> (a_sum m s <= w0)%Qc.
Proof.
  intros Hv Hs Hn. unfold a_sum. apply fold_sum_nonpos; [wlra|].
  pose proof (a_items_weights_pos m s Hs) as Hw. unfold a_items in *. rewrite Hn in *.
  cbn [map app] in *.
  apply Forall_app in Hw. destruct Hw as [Hw1 Hw2]. apply Forall_app. split.
  - destruct (weqb (a_zero s) w0); [constructor|]. inversion Hw1 as [|x y H1 H2]; subst.
    constructor; [|constructor]. cbn [fst snd] in *. split; wlra.
  - clear Hw1. induction (a_neg s) as [|[k w] b IH]; [constructor|].
    cbn [map fst snd] in *. inversion Hw2 as [|x y H1 H2]; subst. constructor; [|apply IH; exact H2].
    cbn [fst snd] in *. pose proof (Hv k) as Hk. split; qlra.
Qed.

(* ------------------------------------------------------------------ *)
(** ** 4-5. a_quantile                                                 *)
(* ------------------------------------------------------------------ *)
Section QuantileProofs.
Variable rnd : Qc -> Qc.
Variable m : amapping.
Hypothesis rnd_mono : forall x y : Qc, (x <= y)%Qc -> (rnd x <= rnd y)%Qc.
Hypothesis rnd_0 : rnd w0 = w0.
Hypothesis rnd_idem : forall x : Qc, rnd (rnd x) = rnd x.
Hypothesis val_pos : forall i, (w0 < am_value m i)%Qc.
Hypothesis val_mono : forall i j, i <= j -> (am_value m i <= am_value m j)%Qc.

(* the ranks handed to the two stores *)
Definition nrank (s : asketch) (q : Qc) : W :=
  rnd (wsub (rnd (wsub (total (a_neg s)) w1)) (a_rank rnd s q)).
Definition prank (s : asketch) (q : Qc) : W :=
  rnd (wsub (rnd (wsub (a_rank rnd s q) (a_zero s))) (total (a_neg s))).

(* the repaired clamp *)
Lemma a_rank_nonneg s q : (w0 <= a_rank rnd s q)%Qc.
Proof using.
  unfold a_rank. cbv zeta.
  destruct (wltb_spec (rnd (wmul q (rnd (wsub (a_count s) w1)))) w0) as [H|H].
  - apply Qcle_refl.
  - apply Qcnot_lt_le. exact H.
Qed.
Lemma a_rank_fix s q : rnd (a_rank rnd s q) = a_rank rnd s q.
Proof.
  unfold a_rank. cbv zeta.
  destruct (wltb (rnd (wmul q (rnd (wsub (a_count s) w1)))) w0); [exact rnd_0|apply rnd_idem].
Qed.
Lemma qmul_le_r (q1 q2 r : Qc) : (w0 <= r)%Qc -> (q1 <= q2)%Qc -> (wmul q1 r <= wmul q2 r)%Qc.
Proof. intros Hr Hq. unfold wmul, w0 in *. apply Qcmult_le_compat_r; assumption. Qed.
Lemma qmul_nonpos (q r : Qc) : (w0 <= q)%Qc -> (r <= w0)%Qc -> (wmul q r <= w0)%Qc.
Proof.
  intros Hq Hr. assert (Hr' : (w0 <= Qcopp r)%Qc) by qlra.
  pose proof (wnonneg_mul q (Qcopp r) Hq Hr') as H.
  assert (E : wmul q (Qcopp r) = Qcopp (wmul q r)) by (unfold W, wmul in *; ring).
  rewrite E in H. qlra.
Qed.
(* the rank is monotone in q *)
Lemma a_rank_mono s q1 q2 :
  (w0 <= q1)%Qc -> (q1 <= q2)%Qc -> (a_rank rnd s q1 <= a_rank rnd s q2)%Qc.
Proof.
  intros H0 Hq. unfold a_rank. cbv zeta. set (r := rnd (wsub (a_count s) w1)).
  destruct (Qclt_le_dec r w0) as [Hr|Hr].
  - assert (Hr' : (r <= w0)%Qc) by (apply Qclt_le_weak; exact Hr).
    assert (Hq2 : (w0 <= q2)%Qc) by (eapply Qcle_trans; eassumption).
    pose proof (rnd_mono _ _ (qmul_nonpos q1 r H0 Hr')) as A1. rewrite rnd_0 in A1.
    pose proof (rnd_mono _ _ (qmul_nonpos q2 r Hq2 Hr')) as A2. rewrite rnd_0 in A2.
    destruct (wltb_spec (rnd (wmul q1 r)) w0) as [B1|B1];
      destruct (wltb_spec (rnd (wmul q2 r)) w0) as [B2|B2];
      try apply Qcnot_lt_le in B1; try apply Qcnot_lt_le in B2; wlra.
  - pose proof (rnd_mono _ _ (qmul_le_r q1 q2 r Hr Hq)) as A.
    destruct (wltb_spec (rnd (wmul q1 r)) w0) as [B1|B1];
      destruct (wltb_spec (rnd (wmul q2 r)) w0) as [B2|B2];
      try apply Qcnot_lt_le in B1; try apply Qcnot_lt_le in B2; wlra.
Qed.

(* the three branches of a_quantile *)
Inductive qbranch (s : asketch) (q y : Qc) : Prop :=
| QNeg k : (a_rank rnd s q < total (a_neg s))%Qc ->
           key_at_rank (a_neg s) (nrank s q) = Some k -> y = Qcopp (am_value m k) -> qbranch s q y
| QZero : (total (a_neg s) <= a_rank rnd s q)%Qc ->
          (a_rank rnd s q < rnd (wadd (a_zero s) (total (a_neg s))))%Qc -> y = w0 -> qbranch s q y
| QPos k : (total (a_neg s) <= a_rank rnd s q)%Qc ->
           (rnd (wadd (a_zero s) (total (a_neg s))) <= a_rank rnd s q)%Qc ->
           key_at_rank (a_pos s) (prank s q) = Some k -> y = am_value m k -> qbranch s q y.

Lemma a_quantile_cases s q y :
  a_quantile rnd m s q = Some y -> a_count s <> w0 /\ qbranch s q y.
Proof.
  unfold a_quantile. destruct (weqb_spec (a_count s) w0) as [E|E]; [discriminate|]. cbv zeta.
  intros H. split; [exact E|].
  destruct (wltb_spec (a_rank rnd s q) (total (a_neg s))) as [H1|H1].
  - fold (nrank s q) in H. destruct (key_at_rank (a_neg s) (nrank s q)) as [k|] eqn:Ek; [|discriminate].
    injection H as H. eapply QNeg; [exact H1|exact Ek|symmetry; exact H].
  - apply Qcnot_lt_le in H1.
    destruct (wltb_spec (a_rank rnd s q) (rnd (wadd (a_zero s) (total (a_neg s))))) as [H2|H2].
    + injection H as H. apply QZero; [exact H1|exact H2|symmetry; exact H].
    + apply Qcnot_lt_le in H2. fold (prank s q) in H.
      destruct (key_at_rank (a_pos s) (prank s q)) as [k|] eqn:Ek; [|discriminate].
      injection H as H. eapply QPos; [exact H1|exact H2|exact Ek|symmetry; exact H].
Qed.

(* a key returned by a store lies between its extreme keys *)
Lemma kar_between b r k :
  wf b = true -> key_at_rank b r = Some k ->
  exists mn mx, min_key b = Some mn /\ max_key b = Some mx /\ mn <= k <= mx.
Proof.
  intros Hwf Hk. pose proof (key_at_rank_key b r k Hwf Hk) as Hg.
  assert (Hne : b <> []). { intros E. subst b. discriminate. }
  destruct (min_key_some b Hne) as [mn Hmn]. destruct (max_key_some b Hne) as [mx Hmx].
  exists mn, mx. split; [exact Hmn|]. split; [exact Hmx|]. split.
  - eapply min_key_le; eassumption.
  - eapply max_key_ge; eassumption.
Qed.

(* ---- 5. never None on a non-empty sketch ---- *)
(* Besides monotonicity and rnd 0 = 0 the statement needs that rounding does not merge the count
   with its predecessor nor with 0: with [rnd] saturating (binary64 from 2^53 on) the rank of q = 1
   reaches rnd (zero + neg) and the code consults an empty positive store (Example
   C12_example_quantile_saturating in Props/Sketch.v; on the Go code: AddWithCount(-5, 2^54) then
   GetValueAtQuantile(1) = 1.01 while min = max = -5.0028). *)
Theorem a_quantile_some s q :
  awf s -> a_count s <> w0 -> (w0 <= q)%Qc -> (q <= w1)%Qc ->
  (w0 < rnd (a_count s))%Qc -> (rnd (wsub (a_count s) w1) < rnd (a_count s))%Qc ->
  exists y, a_quantile rnd m s q = Some y.
Proof.
  intros Hs Hc Hq0 Hq1 Hc0 Hc1. pose proof Hs as (Hp & Hn & Pp & Pn & Hz).
  unfold a_quantile. destruct (weqb_spec (a_count s) w0) as [E|_]; [contradiction|]. cbv zeta.
  pose proof (a_rank_nonneg s q) as R0.
  destruct (wltb_spec (a_rank rnd s q) (total (a_neg s))) as [H1|H1].
  - destruct (key_at_rank (a_neg s) _) as [k|] eqn:Ek; [eexists; reflexivity|].
    apply key_at_rank_none in Ek. rewrite Ek in H1. rewrite total_nil in H1. exfalso. wlra.
  - destruct (wltb_spec (a_rank rnd s q) (rnd (wadd (a_zero s) (total (a_neg s))))) as [H2|H2];
      [eexists; reflexivity|].
    destruct (key_at_rank (a_pos s) _) as [k|] eqn:Ek; [eexists; reflexivity|].
    exfalso. apply key_at_rank_none in Ek. apply H2.
    assert (Ec : wadd (a_zero s) (total (a_neg s)) = a_count s).
    { unfold a_count. rewrite Ek, total_nil. wlra. }
    rewrite Ec.
    (* rank <= max 0 (rnd (count - 1)) < rnd count *)
    unfold a_rank. cbv zeta. set (r := rnd (wsub (a_count s) w1)) in *.
    destruct (wltb_spec (rnd (wmul q r)) w0) as [B|B]; [exact Hc0|].
    destruct (Qclt_le_dec r w0) as [Hr|Hr].
    + assert (Hr' : (r <= w0)%Qc) by (apply Qclt_le_weak; exact Hr).
      pose proof (rnd_mono _ _ (qmul_nonpos q r Hq0 Hr')) as A. rewrite rnd_0 in A.
      eapply Qcle_lt_trans; [exact A|exact Hc0].
    + pose proof (qmul_le_r q w1 r Hr Hq1) as A. rewrite wmul_1_l in A.
      apply rnd_mono in A. unfold r in A at 2. rewrite rnd_idem in A. fold r in A.
      eapply Qcle_lt_trans; [exact A|exact Hc1].
Qed.

(* ---- 4a. the answer lies between a_min and a_max ---- *)
Theorem a_quantile_ge_min s q y lo :
  awf s -> a_quantile rnd m s q = Some y -> a_min m s = Some lo -> (lo <= y)%Qc.
Proof.
  intros (Hp & Hn & Pp & Pn & Hz) Hy Hlo. apply a_quantile_cases in Hy. destruct Hy as [Hc Hb].
  unfold a_min in Hlo. pose proof (a_rank_nonneg s q) as R0.
  destruct Hb as [k H1 Hk Ey|H1 H2 Ey|k H1 H2 Hk Ey]; subst y.
  - destruct (kar_between _ _ _ Hn Hk) as (mn & mx & Emn & Emx & Hle).
    rewrite Emx in Hlo. injection Hlo as Hlo. subst lo.
    pose proof (val_mono k mx (proj2 Hle)) as Hv. qlra.
  - destruct (max_key (a_neg s)) as [mx|] eqn:Emx.
    + injection Hlo as Hlo. subst lo. pose proof (val_pos mx) as Hv. qlra.
    + destruct (wltb_spec w0 (a_zero s)) as [Hz'|Hz'].
      * injection Hlo as Hlo. subst lo. wlra.
      * exfalso. apply max_key_none in Emx. rewrite Emx, total_nil in H2.
        assert (E0 : a_zero s = w0) by (apply Qcnot_lt_le in Hz'; wlra).
        rewrite E0, wadd_0_l, rnd_0 in H2. wlra.
  - destruct (kar_between _ _ _ Hp Hk) as (mn & mx & Emn & Emx & Hle).
    pose proof (val_pos k) as Hvk.
    destruct (max_key (a_neg s)) as [nx|] eqn:Enx.
    + injection Hlo as Hlo. subst lo. pose proof (val_pos nx) as Hv. qlra.
    + destruct (wltb_spec w0 (a_zero s)) as [Hz'|Hz'].
      * injection Hlo as Hlo. subst lo. wlra.
      * rewrite Emn in Hlo. injection Hlo as Hlo. subst lo. apply val_mono. exact (proj1 Hle).
Qed.
Theorem a_quantile_le_max s q y hi :
  awf s -> a_quantile rnd m s q = Some y -> a_max m s = Some hi -> (y <= hi)%Qc.
Proof.
  intros (Hp & Hn & Pp & Pn & Hz) Hy Hhi. apply a_quantile_cases in Hy. destruct Hy as [Hc Hb].
  unfold a_max in Hhi. pose proof (a_rank_nonneg s q) as R0.
  destruct Hb as [k H1 Hk Ey|H1 H2 Ey|k H1 H2 Hk Ey]; subst y.
  - destruct (kar_between _ _ _ Hn Hk) as (mn & mx & Emn & Emx & Hle).
    pose proof (val_pos k) as Hvk.
    destruct (max_key (a_pos s)) as [px|] eqn:Epx.
    + injection Hhi as Hhi. subst hi. pose proof (val_pos px) as Hv. qlra.
    + destruct (wltb_spec w0 (a_zero s)) as [Hz'|Hz'].
      * injection Hhi as Hhi. subst hi. qlra.
      * rewrite Emn in Hhi. injection Hhi as Hhi. subst hi.
        pose proof (val_mono mn k (proj1 Hle)) as Hv. qlra.
  - destruct (max_key (a_pos s)) as [px|] eqn:Epx.
    + injection Hhi as Hhi. subst hi. pose proof (val_pos px) as Hv. wlra.
    + destruct (wltb_spec w0 (a_zero s)) as [Hz'|Hz'].
      * injection Hhi as Hhi. subst hi. wlra.
      * exfalso. assert (E0 : a_zero s = w0) by (apply Qcnot_lt_le in Hz'; wlra).
        rewrite E0, wadd_0_l in H2. apply rnd_mono in H1. rewrite a_rank_fix in H1.
        exact (Qclt_not_le _ _ H2 H1).
  - destruct (kar_between _ _ _ Hp Hk) as (mn & mx & Emn & Emx & Hle).
    rewrite Emx in Hhi. injection Hhi as Hhi. subst hi. apply val_mono. exact (proj2 Hle).
Qed.
Theorem a_quantile_bounds s q y lo hi :
  awf s -> a_quantile rnd m s q = Some y -> a_min m s = Some lo -> a_max m s = Some hi ->
  (lo <= y <= hi)%Qc.
Proof.
  intros Hs Hy Hlo Hhi. split; [eapply a_quantile_ge_min|eapply a_quantile_le_max]; eassumption.
Qed.

(* ---- 4b. the answer is monotone in q ---- *)
Theorem a_quantile_mono s q1 q2 y1 y2 :
  awf s -> (w0 <= q1)%Qc -> (q1 <= q2)%Qc ->
  a_quantile rnd m s q1 = Some y1 -> a_quantile rnd m s q2 = Some y2 -> (y1 <= y2)%Qc.
Proof.
  intros (Hp & Hn & Pp & Pn & Hz) H0 Hq Hy1 Hy2.
  apply a_quantile_cases in Hy1. destruct Hy1 as [_ Hb1].
  apply a_quantile_cases in Hy2. destruct Hy2 as [_ Hb2].
  pose proof (a_rank_mono s q1 q2 H0 Hq) as Hr.
  destruct Hb1 as [k1 A1 K1 E1|A1 A2 E1|k1 A1 A2 K1 E1];
    destruct Hb2 as [k2 B1 K2 E2|B1 B2 E2|k2 B1 B2 K2 E2]; subst y1 y2.
  - (* neg, neg: the mirrored rank decreases *)
    assert (Hn12 : (nrank s q2 <= nrank s q1)%Qc).
    { unfold nrank. apply rnd_mono. wlra. }
    pose proof (key_at_rank_mono _ _ _ _ _ Hn Hn12 K2 K1) as Hk.
    pose proof (val_mono k2 k1 Hk) as Hv. qlra.
  - pose proof (val_pos k1) as Hv. qlra.
  - pose proof (val_pos k1) as Hv1. pose proof (val_pos k2) as Hv2. qlra.
  - exfalso. wlra.
  - wlra.
  - pose proof (val_pos k2) as Hv2. wlra.
  - exfalso. wlra.
  - exfalso. wlra.
  - (* pos, pos *)
    assert (Hp12 : (prank s q1 <= prank s q2)%Qc).
    { unfold prank. apply rnd_mono.
      assert (Hi : (rnd (wsub (a_rank rnd s q1) (a_zero s)) <= rnd (wsub (a_rank rnd s q2) (a_zero s)))%Qc)
        by (apply rnd_mono; wlra).
      wlra. }
    pose proof (key_at_rank_mono _ _ _ _ _ Hp Hp12 K1 K2) as Hk.
    apply val_mono. exact Hk.
Qed.
End QuantileProofs.

(* ------------------------------------------------------------------ *)
(** ** decidable forms and a concrete mapping, for the instances       *)
(* ------------------------------------------------------------------ *)
Definition asketch_eqb (s t : asketch) : bool :=
  bins_eqb (a_pos s) (a_pos t) && bins_eqb (a_neg s) (a_neg t) && weqb (a_zero s) (a_zero t).
Lemma asketch_eqb_eq s t : asketch_eqb s t = true <-> s = t.
Proof.
  unfold asketch_eqb. rewrite !andb_true_iff, !bins_eqb_eq, weqb_eq. split.
  - intros [[H1 H2] H3]. apply asketch_ext; assumption.
  - intros H. subst t. tauto.
Qed.
Definition oq_eqb (a b : option Qc) : bool :=
  match a, b with Some x, Some y => weqb x y | None, None => true | _, _ => false end.
Lemma oq_eqb_eq a b : oq_eqb a b = true <-> a = b.
Proof.
  destruct a as [x|], b as [y|]; cbn [oq_eqb]; try (split; intros H; congruence).
  rewrite weqb_eq. split; intros H; congruence.
Qed.
Definition awfb (s : asketch) : bool :=
  wf (a_pos s) && wf (a_neg s) && posb (a_pos s) && posb (a_neg s) && wleb w0 (a_zero s).
Lemma awfb_awf s : awfb s = true -> awf s.
Proof.
  unfold awfb, awf. rewrite !andb_true_iff, wleb_le. intros [[[[H1 H2] H3] H4] H5].
  split; [exact H1|]. split; [exact H2|]. split; [apply posb_pos; exact H3|].
  split; [apply posb_pos; exact H4|exact H5].
Qed.
Definition wnonnegb (l : list (Qc * W)) : bool := forallb (fun vc => wleb w0 (snd vc)) l.
Lemma wnonnegb_wnonneg l : wnonnegb l = true -> wnonneg l.
Proof.
  unfold wnonnegb, wnonneg. rewrite forallb_forall, Forall_forall.
  intros H vc Hin. apply wleb_le. apply H. exact Hin.
Qed.
Definition acceptedb (m : amapping) (l : list (Qc * W)) : bool :=
  forallb (fun vc => wleb (Qcopp (am_max m)) (fst vc) && wleb (fst vc) (am_max m)) l.
Lemma acceptedb_accepted m l : acceptedb m l = true -> accepted m l.
Proof.
  unfold acceptedb, accepted. rewrite forallb_forall, Forall_forall.
  intros H vc Hin. specialize (H vc Hin). apply andb_true_iff in H. destruct H as [H1 H2].
  split; apply wleb_le; assumption.
Qed.

Lemma w_of_Z_le a b : a <= b -> (w_of_Z a <= w_of_Z b)%Qc.
Proof.
  intros H. unfold w_of_Z, Qcle. cbn [this Q2Qc]. rewrite !Qred_correct.
  rewrite <- Zle_Qle. exact H.
Qed.
Lemma w_of_Z_pos a : 0 < a -> (w0 < w_of_Z a)%Qc.
Proof.
  intros H. unfold w_of_Z, Qclt. cbn [this Q2Qc]. rewrite Qred_correct.
  change (this w0) with (inject_Z 0). rewrite <- Zlt_Qlt. exact H.
Qed.

(* a toy mapping with positive, non-decreasing bin values *)
Definition ex_am : amapping :=
  {| am_index := fun v => Qnum (this v) / Zpos (Qden (this v));
     am_value := fun i => w_of_Z (Z.max 1 i);
     am_min := Q2Qc (1 # 2); am_max := w_of_Z 1000 |}.
Lemma ex_am_pos i : (w0 < am_value ex_am i)%Qc.
Proof. cbn [am_value ex_am]. apply w_of_Z_pos. lia. Qed.
Lemma ex_am_mono i j : i <= j -> (am_value ex_am i <= am_value ex_am j)%Qc.
Proof. intros H. cbn [am_value ex_am]. apply w_of_Z_le. lia. Qed.
Lemma ex_am_ok : am_ok ex_am.
Proof. split; apply wleb_le; vm_compute; reflexivity. Qed.

(* exact arithmetic satisfies every hypothesis on the rounding *)
Lemma id_mono (x y : Qc) : (x <= y)%Qc -> ((fun z : Qc => z) x <= (fun z : Qc => z) y)%Qc.
Proof. intros H. exact H. Qed.

(* a saturating rounding (what binary64 does to counts beyond 2^53, scaled down to 2) *)
Definition rnd_sat (x : Qc) : Qc := if wltb x (w_of_Z 2) then x else w_of_Z 2.
Lemma rnd_sat_mono x y : (x <= y)%Qc -> (rnd_sat x <= rnd_sat y)%Qc.
Proof.
  intros H. unfold rnd_sat. generalize (w_of_Z 2). intros two.
  destruct (wltb_spec x two) as [H1|H1]; destruct (wltb_spec y two) as [H2|H2];
    try apply Qcnot_lt_le in H1; try apply Qcnot_lt_le in H2; wlra.
Qed.
Lemma rnd_sat_0 : rnd_sat w0 = w0.
Proof.
  unfold rnd_sat. assert (E : wltb w0 (w_of_Z 2) = true) by (vm_compute; reflexivity).
  rewrite E. reflexivity.
Qed.
Lemma rnd_sat_idem x : rnd_sat (rnd_sat x) = rnd_sat x.
Proof.
  unfold rnd_sat. destruct (wltb x (w_of_Z 2)) eqn:E; [rewrite E; reflexivity|].
  assert (E2 : wltb (w_of_Z 2) (w_of_Z 2) = false) by (vm_compute; reflexivity).
  rewrite E2. reflexivity.
Qed.

(* ================================================================== *)
(** * Part II. Layer B: the rejection tables (C13)                     *)
(* ================================================================== *)
From Coq Require Import Reals Lra.
From Flocq Require Import Core.Core IEEE754.BinarySingleNaN IEEE754.Binary IEEE754.Bits.
From SK Require Import Base.F64 Store.Any Stat.Summary Sketch.Sketch.
Local Open Scope Z_scope.

(* ---- facts on binary64 comparisons ---- *)
Lemma f64_zero_eq : f64_zero = B754_zero 53 1024 false.
Proof. vm_compute. reflexivity. Qed.

Lemma fcmp_nan_r a v : f_is_nan v = true -> fcmp a v = None.
Proof. destruct v; try discriminate. intros _. destruct a; reflexivity. Qed.
Lemma fcmp_nan_l a v : f_is_nan v = true -> fcmp v a = None.
Proof. destruct v; try discriminate. intros _. destruct a; reflexivity. Qed.
Lemma flt_nan_r a v : f_is_nan v = true -> flt a v = false.
Proof. intros H. unfold flt. rewrite (fcmp_nan_r a v H). reflexivity. Qed.
Lemma flt_nan_l a v : f_is_nan v = true -> flt v a = false.
Proof. intros H. unfold flt. rewrite (fcmp_nan_l a v H). reflexivity. Qed.
Lemma fle_nan_r a v : f_is_nan v = true -> fle a v = false.
Proof. intros H. unfold fle. rewrite (fcmp_nan_r a v H). reflexivity. Qed.
Lemma fle_nan_l a v : f_is_nan v = true -> fle v a = false.
Proof. intros H. unfold fle. rewrite (fcmp_nan_l a v H). reflexivity. Qed.
Lemma feq_nan_l a v : f_is_nan v = true -> feq v a = false.
Proof. intros H. unfold feq. rewrite (fcmp_nan_l a v H). reflexivity. Qed.

(* a float equal to 0 (either sign) denotes the weight 0 *)
Lemma feq_zero_f2q c : feq c f64_zero = true -> f2q c = w0.
Proof.
  rewrite f64_zero_eq. unfold feq, fcmp, b64_compare, Binary.Bcompare.
  destruct c as [s|s|s pl H|s m e H]; cbn [B2BSN BinarySingleNaN.Bcompare].
  - intros _. reflexivity.
  - destruct s; discriminate.
  - discriminate.
  - destruct s; discriminate.
Qed.

Lemma pow2Q_pos e : (0 < pow2Q e)%Q.
Proof.
  destruct e as [|p|p]; unfold pow2Q.
  - reflexivity.
  - unfold Qlt; cbn [Qnum Qden inject_Z]. rewrite Z.pow_pos_fold.
    assert (0 < 2 ^ Z.pos p) by (apply Z.pow_pos_nonneg; lia). lia.
  - reflexivity.
Qed.
(* a finite float that is not <= 0 denotes a positive weight *)
Lemma f2q_pos w : f_is_finite w = true -> fle w f64_zero = false -> (w0 < f2q w)%Qc.
Proof.
  rewrite f64_zero_eq. unfold fle, fcmp, b64_compare, Binary.Bcompare, f_is_finite.
  destruct w as [s|s|s pl H|s m e H]; cbn [B2BSN BinarySingleNaN.Bcompare Binary.is_finite]; try discriminate.
  intros _. destruct s; [discriminate|]. intros _.
  unfold f2q, f2v. unfold Qclt. change (this w0) with 0%Q.
  change (this (Q2Qc ?x)) with (Qred x). rewrite Qred_correct.
  apply Qmult_lt_0_compat; [reflexivity|apply pow2Q_pos].
Qed.

(* <= then < is <, on binary64 (no NaN can satisfy the premises) *)
Lemma flt_le_trans a b v : fle a b = true -> flt b v = true -> flt a v = true.
Proof.
  unfold fle, flt, fcmp, b64_compare.
  destruct (f_is_finite a) eqn:Fa; [destruct (f_is_finite b) eqn:Fb; [destruct (f_is_finite v) eqn:Fv|]|];
    unfold f_is_finite in *.
  - rewrite !Binary.Bcompare_correct by assumption.
    destruct (Rcompare_spec (Binary.B2R 53 1024 a) (Binary.B2R 53 1024 b)) as [H1|H1|H1]; try discriminate; intros _;
      destruct (Rcompare_spec (Binary.B2R 53 1024 b) (Binary.B2R 53 1024 v)) as [H2|H2|H2]; try discriminate; intros _;
      destruct (Rcompare_spec (Binary.B2R 53 1024 a) (Binary.B2R 53 1024 v)) as [H3|H3|H3]; try reflexivity; exfalso; lra.
  - unfold Binary.Bcompare.
    destruct a as [sa|sa|sa pa Ha|sa ma ea Ha]; try discriminate;
    destruct b as [sb|sb|sb pb Hb|sb mb eb Hb]; try discriminate;
    destruct v as [sv|sv|sv pv Hv|sv mv ev Hv]; try discriminate;
    cbn [B2BSN BinarySingleNaN.Bcompare]; destruct sv; try discriminate; try reflexivity;
    destruct sb; try discriminate; try reflexivity.
  - unfold Binary.Bcompare.
    destruct a as [sa|sa|sa pa Ha|sa ma ea Ha]; try discriminate;
    destruct b as [sb|sb|sb pb Hb|sb mb eb Hb]; try discriminate;
    destruct v as [sv|sv|sv pv Hv|sv mv ev Hv]; try discriminate;
    cbn [B2BSN BinarySingleNaN.Bcompare]; destruct sb; try discriminate;
    destruct sv; try discriminate; try reflexivity.
  - unfold Binary.Bcompare.
    destruct a as [sa|sa|sa pa Ha|sa ma ea Ha]; try discriminate;
    destruct b as [sb|sb|sb pb Hb|sb mb eb Hb];
    destruct v as [sv|sv|sv pv Hv|sv mv ev Hv];
    cbn [B2BSN BinarySingleNaN.Bcompare]; try discriminate;
    destruct sa; try discriminate; try (destruct sb; try discriminate); try (destruct sv; try discriminate);
    try reflexivity.
Qed.

(* ------------------------------------------------------------------ *)
(** ** 10. AddWithCount / Add                                          *)
(* ------------------------------------------------------------------ *)

(* full case analysis of plain_add, naming every test *)
Ltac pa_cases mt s v c :=
  unfold plain_add;
  destruct (flt c f64_zero) eqn:Hc;
  [|destruct (flt (mt_min mt) v) eqn:Hmin;
    [destruct (flt (mt_max mt) v) eqn:Hmax;
      [|destruct (st_addw (sk_pos s) (mt_index mt (f2q v)) (f2q c)) as [p'|] eqn:Hst]
    |destruct (flt v (fneg (mt_min mt))) eqn:Hnmin;
      [destruct (flt v (fneg (mt_max mt))) eqn:Hnmax;
        [|destruct (st_addw (sk_neg s) (mt_index mt (f2q (fneg v))) (f2q c)) as [n'|] eqn:Hst]
      |destruct (f_is_nan v) eqn:Hnan]]].

(* the decision table of DDSketch.AddWithCount, exactly as the code tests (no flag involved) *)
Theorem plain_add_neg_count mt s v c :
  plain_add mt s v c = RErr ENegCount <-> flt c f64_zero = true.
Proof. pa_cases mt s v c; split; intros H; try discriminate; reflexivity. Qed.
Theorem plain_add_too_high mt s v c :
  plain_add mt s v c = RErr ETooHigh <->
  flt c f64_zero = false /\ flt (mt_min mt) v = true /\ flt (mt_max mt) v = true.
Proof.
  pa_cases mt s v c; split; intros H; try discriminate;
    try (destruct H as (H1 & H2 & H3); discriminate); repeat split; reflexivity.
Qed.
Theorem plain_add_too_low mt s v c :
  plain_add mt s v c = RErr ETooLow <->
  flt c f64_zero = false /\ flt (mt_min mt) v = false /\
  flt v (fneg (mt_min mt)) = true /\ flt v (fneg (mt_max mt)) = true.
Proof.
  pa_cases mt s v c; split; intros H; try discriminate;
    try (destruct H as (H1 & H2 & H3 & H4); discriminate); repeat split; reflexivity.
Qed.
Theorem plain_add_nan mt s v c :
  plain_add mt s v c = RErr ENaN <->
  flt c f64_zero = false /\ flt (mt_min mt) v = false /\
  flt v (fneg (mt_min mt)) = false /\ f_is_nan v = true.
Proof.
  pa_cases mt s v c; split; intros H; try discriminate;
    try (destruct H as (H1 & H2 & H3 & H4); discriminate); repeat split; reflexivity.
Qed.
(* a NaN value fails every comparison, hence reaches the NaN test *)
Theorem plain_add_nan_value mt s v c :
  f_is_nan v = true ->
  plain_add mt s v c = if flt c f64_zero then RErr ENegCount else RErr ENaN.
Proof.
  intros Hn. unfold plain_add. rewrite (flt_nan_r (mt_min mt) v Hn), (flt_nan_l (fneg (mt_min mt)) v Hn), Hn.
  reflexivity.
Qed.
(* with min <= max the first test is implied by the second: TooHigh iff v > max *)
Theorem plain_add_too_high_max mt s v c :
  fle (mt_min mt) (mt_max mt) = true ->
  (plain_add mt s v c = RErr ETooHigh <-> flt c f64_zero = false /\ flt (mt_max mt) v = true).
Proof.
  intros Hmm. rewrite plain_add_too_high. split.
  - intros (H1 & H2 & H3). split; assumption.
  - intros (H1 & H3). split; [exact H1|]. split; [|exact H3].
    eapply flt_le_trans; eassumption.
Qed.
(* no other error, and a panic only comes from the store *)
Theorem plain_add_errors mt s v c e :
  plain_add mt s v c = RErr e -> e = ENegCount \/ e = ETooHigh \/ e = ETooLow \/ e = ENaN.
Proof.
  pa_cases mt s v c; intros H; try discriminate; injection H as H; subst e; tauto.
Qed.
Theorem plain_add_panic mt s v c :
  plain_add mt s v c = RPanic ->
  (flt (mt_min mt) v = true /\ st_addw (sk_pos s) (mt_index mt (f2q v)) (f2q c) = None) \/
  (flt v (fneg (mt_min mt)) = true /\ st_addw (sk_neg s) (mt_index mt (f2q (fneg v))) (f2q c) = None).
Proof.
  pa_cases mt s v c; intros H; try discriminate; [left|right]; split; reflexivity.
Qed.
(* the accepted case, spelled out *)
Theorem plain_add_ok mt s v c s' :
  plain_add mt s v c = ROk s' ->
  flt c f64_zero = false /\
  ((flt (mt_min mt) v = true /\ flt (mt_max mt) v = false /\
    exists p, st_addw (sk_pos s) (mt_index mt (f2q v)) (f2q c) = Some p /\ s' = with_stores s p (sk_neg s)) \/
   (flt (mt_min mt) v = false /\ flt v (fneg (mt_min mt)) = true /\ flt v (fneg (mt_max mt)) = false /\
    exists n, st_addw (sk_neg s) (mt_index mt (f2q (fneg v))) (f2q c) = Some n /\ s' = with_stores s (sk_pos s) n) \/
   (flt (mt_min mt) v = false /\ flt v (fneg (mt_min mt)) = false /\ f_is_nan v = false /\
    s' = {| sk_map := sk_map s; sk_pos := sk_pos s; sk_neg := sk_neg s;
            sk_zero := wadd (sk_zero s) (f2q c); sk_stats := sk_stats s |})).
Proof.
  pa_cases mt s v c; intros H; try discriminate; injection H as H; subst s'; split; try reflexivity.
  - left. repeat split. exists p'. split; reflexivity.
  - right; left. repeat split. exists n'. split; reflexivity.
  - right; right. repeat split.
Qed.
(* the whole table at once: the result is one of the four errors, a panic of the store, or Ok *)
Theorem plain_add_table mt s v c :
  (flt c f64_zero = true /\ plain_add mt s v c = RErr ENegCount) \/
  (flt c f64_zero = false /\ flt (mt_min mt) v = true /\ flt (mt_max mt) v = true /\
   plain_add mt s v c = RErr ETooHigh) \/
  (flt c f64_zero = false /\ flt (mt_min mt) v = false /\ flt v (fneg (mt_min mt)) = true /\
   flt v (fneg (mt_max mt)) = true /\ plain_add mt s v c = RErr ETooLow) \/
  (flt c f64_zero = false /\ flt (mt_min mt) v = false /\ flt v (fneg (mt_min mt)) = false /\
   f_is_nan v = true /\ plain_add mt s v c = RErr ENaN) \/
  (flt c f64_zero = false /\ f_is_nan v = false /\
   ((exists s', plain_add mt s v c = ROk s') \/ plain_add mt s v c = RPanic)).
Proof.
  destruct (f_is_nan v) eqn:Hv.
  - rewrite (plain_add_nan_value mt s v c Hv).
    destruct (flt c f64_zero) eqn:Hc; [left; split; reflexivity|].
    right; right; right; left.
    rewrite (flt_nan_r (mt_min mt) v Hv), (flt_nan_l (fneg (mt_min mt)) v Hv). repeat split.
  - revert Hv. pa_cases mt s v c; intros Hv; try discriminate.
    + left. split; reflexivity.
    + right; left. repeat split.
    + right; right; right; right. repeat split. left. eexists. reflexivity.
    + right; right; right; right. repeat split. right. reflexivity.
    + right; right; left. repeat split.
    + right; right; right; right. repeat split. left. eexists. reflexivity.
    + right; right; right; right. repeat split. right. reflexivity.
    + right; right; right; right. repeat split. left. eexists. reflexivity.
Qed.

(* both variants, Add (unit = true) and AddWithCount (unit = false): with the repaired code
   (fD7 = true) the exact variant refuses exactly what the plain sketch refuses, weight 0 included *)
Theorem sk_add_err fx mt s v c unit e :
  fD7 fx = true -> (sk_add fx mt s v c unit = RErr e <-> plain_add mt s v c = RErr e).
Proof.
  intros H7. unfold sk_add. rewrite H7. destruct (sk_stats s) as [t|]; [|tauto].
  rewrite andb_false_r. cbn [negb andb].
  destruct (plain_add mt s v c) as [s'|e'|]; [|tauto|tauto].
  destruct (negb unit && feq c f64_zero); split; intros H; discriminate.
Qed.
Theorem sk_add_panic fx mt s v c unit :
  fD7 fx = true -> (sk_add fx mt s v c unit = RPanic <-> plain_add mt s v c = RPanic).
Proof.
  intros H7. unfold sk_add. rewrite H7. destruct (sk_stats s) as [t|]; [|tauto].
  rewrite andb_false_r. cbn [negb andb].
  destruct (plain_add mt s v c) as [s'|e'|]; [|tauto|tauto].
  destruct (negb unit && feq c f64_zero); split; intros H; discriminate.
Qed.
Theorem sk_add_ok fx mt s v c unit s' :
  fD7 fx = true -> sk_add fx mt s v c unit = ROk s' ->
  exists s0, plain_add mt s v c = ROk s0 /\
    match sk_stats s with
    | None => s' = s0
    | Some t => s' = if negb unit && feq c f64_zero then s0 else with_stats s0 (Some (su_add t v c))
    end.
Proof.
  intros H7. unfold sk_add. rewrite H7. destruct (sk_stats s) as [t|].
  - rewrite andb_false_r. cbn [negb andb].
    destruct (plain_add mt s v c) as [s0|e'|]; try discriminate.
    intros H. exists s0. split; [reflexivity|].
    destruct (negb unit && feq c f64_zero); injection H as H; symmetry; exact H.
  - intros H. exists s'. split; [exact H|reflexivity].
Qed.
Theorem sk_add_neg_count fx mt s v c unit :
  fD7 fx = true -> (sk_add fx mt s v c unit = RErr ENegCount <-> flt c f64_zero = true).
Proof. intros H7. rewrite sk_add_err by exact H7. apply plain_add_neg_count. Qed.
Theorem sk_add_too_high fx mt s v c unit :
  fD7 fx = true ->
  (sk_add fx mt s v c unit = RErr ETooHigh <->
   flt c f64_zero = false /\ flt (mt_min mt) v = true /\ flt (mt_max mt) v = true).
Proof. intros H7. rewrite sk_add_err by exact H7. apply plain_add_too_high. Qed.
Theorem sk_add_too_low fx mt s v c unit :
  fD7 fx = true ->
  (sk_add fx mt s v c unit = RErr ETooLow <->
   flt c f64_zero = false /\ flt (mt_min mt) v = false /\
   flt v (fneg (mt_min mt)) = true /\ flt v (fneg (mt_max mt)) = true).
Proof. intros H7. rewrite sk_add_err by exact H7. apply plain_add_too_low. Qed.
Theorem sk_add_nan fx mt s v c unit :
  fD7 fx = true ->
  (sk_add fx mt s v c unit = RErr ENaN <->
   flt c f64_zero = false /\ flt (mt_min mt) v = false /\
   flt v (fneg (mt_min mt)) = false /\ f_is_nan v = true).
Proof. intros H7. rewrite sk_add_err by exact H7. apply plain_add_nan. Qed.
(* in particular: a NaN value is refused whatever the weight, 0 included (repaired D7) *)
Theorem sk_add_nan_value fx mt s v c unit :
  fD7 fx = true -> f_is_nan v = true ->
  sk_add fx mt s v c unit = if flt c f64_zero then RErr ENegCount else RErr ENaN.
Proof.
  intros H7 Hn. destruct (flt c f64_zero) eqn:Hc.
  - apply sk_add_err; [exact H7|]. rewrite plain_add_nan_value, Hc by exact Hn. reflexivity.
  - apply sk_add_err; [exact H7|]. rewrite plain_add_nan_value, Hc by exact Hn. reflexivity.
Qed.
(* the plain sketch never looks at any flag *)
Theorem sk_add_plain fx mt s v c unit : sk_stats s = None -> sk_add fx mt s v c unit = plain_add mt s v c.
Proof. intros H. unfold sk_add. rewrite H. reflexivity. Qed.

(* before the repair (fD7 = false) the exact variant accepted a NaN value with weight 0 *)
Definition fx_all : fixes := {| fD4 := true; fD5 := true; fD7 := true |}.
Definition fx_noD7 : fixes := {| fD4 := true; fD5 := true; fD7 := false |}.
Definition fx_noD5 : fixes := {| fD4 := true; fD5 := false; fD7 := true |}.
Definition f64_nan : f64 := f64_of_bits 9221120237041090560.          (* 0x7FF8000000000000 *)
Definition ex_mapid : mapid := {| mk_kind := 0%N; mk_gamma := f64_one; mk_off := f64_zero |}.
Definition ex_mt : mtable :=
  {| mt_index := fun q => Qnum (this q) / Zpos (Qden (this q)); mt_value := fun i => w_of_Z i; mt_min := f64_zero; mt_max := f64_pinf |}.
Example sk_add_legacy_refuted :
  exists (mt : mtable) (s : sketch) (v c : f64),
    f_is_nan v = true /\ feq c f64_zero = true /\ flt c f64_zero = false /\
    sk_add fx_noD7 mt s v c false = ROk s /\
    sk_add fx_all mt s v c false = RErr ENaN.
Proof.
  exists ex_mt, (sk_new ex_mapid KSparse KSparse true), f64_nan, f64_zero.
  vm_compute. repeat split; reflexivity.
Qed.

(* ------------------------------------------------------------------ *)
(** ** 11. GetValueAtQuantile                                          *)
(* ------------------------------------------------------------------ *)
Section QuantileTable.
Variable rnd : Qc -> Qc.

(* case analysis of plain_quantile below the argument test *)
Ltac pq_body s :=
  destruct (weqb (plain_count s) w0) eqn:Hcnt;
  [|match goal with |- context [wltb ?r (st_total (sk_neg s))] => destruct (wltb r (st_total (sk_neg s))) eqn:Hneg end;
    [match goal with |- context [st_key_at_rank (sk_neg s) ?r] => destruct (st_key_at_rank (sk_neg s) r) as [n' k] end
    |match goal with |- context [wltb ?r (rnd (wadd (sk_zero s) (st_total (sk_neg s))))] =>
       destruct (wltb r (rnd (wadd (sk_zero s) (st_total (sk_neg s))))) eqn:Hzero end;
     [|match goal with |- context [st_key_at_rank (sk_pos s) ?r] => destruct (st_key_at_rank (sk_pos s) r) as [p' k] end]]].

Definition q_in_range (q : f64) : bool := fle f64_zero q && fle q f64_one.

Theorem plain_quantile_bad fx mt s q :
  fD5 fx = true ->
  (snd (plain_quantile rnd fx mt s q) = RErr EBadQuantile <-> negb (q_in_range q) = true).
Proof.
  intros H5. unfold plain_quantile, q_in_range. rewrite H5.
  destruct (negb (fle f64_zero q && fle q f64_one)) eqn:Hq.
  - split; reflexivity.
  - pq_body s; cbn [snd]; split; intros H; discriminate.
Qed.
Theorem plain_quantile_nan fx mt s q :
  fD5 fx = true -> f_is_nan q = true -> plain_quantile rnd fx mt s q = (s, RErr EBadQuantile).
Proof.
  intros H5 Hn. unfold plain_quantile. rewrite H5, (fle_nan_r f64_zero q Hn). reflexivity.
Qed.
Theorem plain_quantile_empty fx mt s q :
  fD5 fx = true ->
  (snd (plain_quantile rnd fx mt s q) = RErr EEmpty <-> q_in_range q = true /\ plain_count s = w0).
Proof.
  intros H5. unfold plain_quantile, q_in_range. rewrite H5.
  destruct (fle f64_zero q && fle q f64_one) eqn:Hq; cbn [negb].
  - pq_body s; cbn [snd]; split; intros H; try discriminate.
    + split; [reflexivity|apply weqb_eq; exact Hcnt].
    + reflexivity.
    + destruct H as [_ H]. apply weqb_eq in H. congruence.
    + destruct H as [_ H]. apply weqb_eq in H. congruence.
    + destruct H as [_ H]. apply weqb_eq in H. congruence.
  - cbn [snd]. split; intros H; [discriminate|]. destruct H as [H _]. discriminate.
Qed.
(* no other error, never a panic, and a refusal leaves the sketch as it was *)
Theorem plain_quantile_errors fx mt s q e :
  snd (plain_quantile rnd fx mt s q) = RErr e ->
  (e = EBadQuantile \/ e = EEmpty) /\ fst (plain_quantile rnd fx mt s q) = s.
Proof.
  unfold plain_quantile.
  destruct (if fD5 fx then negb (fle f64_zero q && fle q f64_one) else flt q f64_zero || flt f64_one q).
  - cbn [fst snd]. intros H. injection H as H. subst e. split; [left|]; reflexivity.
  - pq_body s; cbn [fst snd]; intros H; try discriminate.
    injection H as H. subst e. split; [right|]; reflexivity.
Qed.
Theorem plain_quantile_no_panic fx mt s q : snd (plain_quantile rnd fx mt s q) <> RPanic.
Proof.
  unfold plain_quantile.
  destruct (if fD5 fx then negb (fle f64_zero q && fle q f64_one) else flt q f64_zero || flt f64_one q).
  - cbn [snd]. discriminate.
  - pq_body s; cbn [snd]; discriminate.
Qed.

(* the exact variant refuses exactly the same arguments *)
Theorem sk_quantile_err fx mt s q e :
  snd (sk_quantile rnd fx mt s q) = RErr e <-> snd (plain_quantile rnd fx mt s q) = RErr e.
Proof.
  unfold sk_quantile. destruct (plain_quantile rnd fx mt s q) as [s' r].
  destruct r as [v|e'|]; cbn [snd]; split; intros H; try discriminate; injection H as H; subst e'; reflexivity.
Qed.
Theorem sk_quantile_bad fx mt s q :
  fD5 fx = true ->
  (snd (sk_quantile rnd fx mt s q) = RErr EBadQuantile <-> negb (q_in_range q) = true).
Proof. intros H5. rewrite sk_quantile_err. apply plain_quantile_bad. exact H5. Qed.
Theorem sk_quantile_nan fx mt s q :
  fD5 fx = true -> f_is_nan q = true -> sk_quantile rnd fx mt s q = (s, RErr EBadQuantile).
Proof. intros H5 Hn. unfold sk_quantile. rewrite plain_quantile_nan by assumption. reflexivity. Qed.
Theorem sk_quantile_empty fx mt s q :
  fD5 fx = true ->
  (snd (sk_quantile rnd fx mt s q) = RErr EEmpty <-> q_in_range q = true /\ plain_count s = w0).
Proof. intros H5. rewrite sk_quantile_err. apply plain_quantile_empty. exact H5. Qed.
End QuantileTable.

(* before the repair (fD5 = false) a NaN quantile went through: on a one-bin sketch it answers *)
Definition ex_sk1 : sketch :=
  {| sk_map := ex_mapid; sk_pos := SS [(3, w_of_Z 2)]; sk_neg := SS []; sk_zero := w0; sk_stats := None |}.
Example plain_quantile_legacy_refuted :
  exists (mt : mtable) (s : sketch) (q : f64),
    f_is_nan q = true /\
    snd (plain_quantile (fun x => x) fx_noD5 mt s q) = ROk (w_of_Z 3) /\
    snd (plain_quantile (fun x => x) fx_all mt s q) = RErr EBadQuantile.
Proof.
  exists ex_mt, ex_sk1, f64_nan. vm_compute. repeat split; reflexivity.
Qed.

(* ------------------------------------------------------------------ *)
(** ** 12. MergeWith / Reweight                                        *)
(* ------------------------------------------------------------------ *)

Theorem sk_merge_mismatch s o :
  sk_merge s o = RErr EMismatch <-> map_equals (sk_map s) (sk_map o) = false.
Proof.
  unfold sk_merge. destruct (map_equals (sk_map s) (sk_map o)); cbn [negb].
  - destruct (st_merge (sk_pos s) (sk_pos o)) as [[p' op']|].
    + destruct (st_merge (sk_neg s) (sk_neg o)) as [[n' on']|]; split; intros H; discriminate.
    + split; intros H; discriminate.
  - split; reflexivity.
Qed.
Theorem sk_merge_errors s o e : sk_merge s o = RErr e -> e = EMismatch.
Proof.
  unfold sk_merge. destruct (negb (map_equals (sk_map s) (sk_map o))).
  - intros H. injection H as H. symmetry. exact H.
  - destruct (st_merge (sk_pos s) (sk_pos o)) as [[p' op']|]; [|discriminate].
    destruct (st_merge (sk_neg s) (sk_neg o)) as [[n' on']|]; discriminate.
Qed.

Lemma st_reweight_refused st w : st_reweight st w = RwRefused <-> wleb w w0 = true.
Proof.
  destruct st as [d|m|p]; cbn [st_reweight].
  - unfold reweight_d. destruct (wleb w w0); [split; reflexivity|].
    destruct (weqb w w1); [split; discriminate|].
    destruct (maxI d <? minI d); [split; discriminate|].
    destruct (in_bounds d (minI d - offset d) && in_bounds d (maxI d - offset d)); split; discriminate.
  - unfold sp_reweight. destruct (wleb w w0); [split; reflexivity|].
    destruct (weqb w w1); split; discriminate.
  - unfold p_reweight. destruct (wleb w w0); [split; reflexivity|].
    destruct (weqb w w1); split; discriminate.
Qed.

(* exactly what the model does: refused iff w <= 0, or (w <> 1 and) the weight denoted by w is
   not positive, which for a finite w never happens; see the remark on NaN / +Inf factors *)
Theorem sk_reweight_bad_factor_gen s w :
  sk_reweight s w = RErr EBadFactor <->
  fle w f64_zero = true \/ (feq w f64_one = false /\ wleb (f2q w) w0 = true).
Proof.
  unfold sk_reweight. destruct (fle w f64_zero) eqn:Hle.
  - split; [intros _; left; reflexivity|reflexivity].
  - destruct (feq w f64_one) eqn:H1.
    + split; [discriminate|]. intros [H|[H _]]; discriminate.
    + pose proof (st_reweight_refused (sk_pos s) (f2q w)) as Rp.
      pose proof (st_reweight_refused (sk_neg s) (f2q w)) as Rn.
      destruct (st_reweight (sk_pos s) (f2q w)) as [p'| |].
      * destruct (st_reweight (sk_neg s) (f2q w)) as [n'| |].
        -- split; [discriminate|]. intros [H|[_ H]]; [discriminate|].
           apply Rn in H. discriminate.
        -- split; [|reflexivity]. intros _. right. split; [reflexivity|].
           apply Rn. reflexivity.
        -- split; [discriminate|]. intros [H|[_ H]]; [discriminate|].
           apply Rn in H. discriminate.
      * split; [|reflexivity]. intros _. right. split; [reflexivity|].
        apply Rp. reflexivity.
      * split; [discriminate|]. intros [H|[_ H]]; [discriminate|].
        apply Rp in H. discriminate.
Qed.
Theorem sk_reweight_nonpositive s w : fle w f64_zero = true -> sk_reweight s w = RErr EBadFactor.
Proof. intros H. apply sk_reweight_bad_factor_gen. left. exact H. Qed.
Theorem sk_reweight_bad_factor s w :
  f_is_finite w = true -> (sk_reweight s w = RErr EBadFactor <-> fle w f64_zero = true).
Proof.
  intros Hf. rewrite sk_reweight_bad_factor_gen. split; [|intros H; left; exact H].
  intros [H|[_ H]]; [exact H|].
  destruct (fle w f64_zero) eqn:Hle; [reflexivity|]. exfalso.
  pose proof (f2q_pos w Hf Hle) as Hp. apply wleb_le in H. exact (Qclt_not_le _ _ Hp H).
Qed.
Theorem sk_reweight_errors s w e : sk_reweight s w = RErr e -> e = EBadFactor.
Proof.
  unfold sk_reweight. destruct (fle w f64_zero); [intros H; injection H as H; symmetry; exact H|].
  destruct (feq w f64_one); [discriminate|].
  destruct (st_reweight (sk_pos s) (f2q w)); try discriminate.
  - destruct (st_reweight (sk_neg s) (f2q w)); try discriminate.
    intros H; injection H as H; symmetry; exact H.
  - intros H; injection H as H; symmetry; exact H.
Qed.

(* ------------------------------------------------------------------ *)
(** ** 13. weight 0 changes nothing                                    *)
(* ------------------------------------------------------------------ *)

Theorem st_addw_zero st i : st_addw st i w0 = Some st.
Proof.
  destruct st as [d|m|p]; cbn [st_addw].
  - unfold d_add, add_with_count. rewrite weqb_refl. reflexivity.
  - unfold sp_add_with_count. rewrite weqb_refl. reflexivity.
  - unfold pp_add, p_add_with_count. rewrite weqb_refl. reflexivity.
Qed.
Lemma with_stores_same s : with_stores s (sk_pos s) (sk_neg s) = s.
Proof. destruct s; reflexivity. Qed.

Theorem plain_add_weight0 mt s v c s' :
  feq c f64_zero = true -> plain_add mt s v c = ROk s' -> s' = s.
Proof.
  intros Hc H. pose proof (feq_zero_f2q c Hc) as Hq.
  apply plain_add_ok in H. rewrite Hq in H. destruct H as [_ H].
  destruct H as [(_ & _ & p & Hp & E)|[(_ & _ & _ & n & Hn & E)|(_ & _ & _ & E)]].
  - rewrite st_addw_zero in Hp. injection Hp as Hp. subst p s'. apply with_stores_same.
  - rewrite st_addw_zero in Hn. injection Hn as Hn. subst n s'. apply with_stores_same.
  - subst s'. rewrite wadd_0_r. destruct s; reflexivity.
Qed.
(* AddWithCount with weight 0, both variants: accepted means unchanged, statistics included *)
Theorem sk_add_weight0 fx mt s v c s' :
  fD7 fx = true -> feq c f64_zero = true -> sk_add fx mt s v c false = ROk s' -> s' = s.
Proof.
  intros H7 Hc H. destruct (sk_add_ok fx mt s v c false s' H7 H) as [s0 [H0 E]].
  pose proof (plain_add_weight0 mt s v c s0 Hc H0) as E0. subst s0.
  destruct (sk_stats s) as [t|]; [|exact E]. rewrite Hc in E. exact E.
Qed.
(* for any [unit]: bins, zero weight and mapping are unchanged (only the statistics may be touched) *)
Theorem sk_add_weight0_obs fx mt s v c unit s' :
  fD7 fx = true -> feq c f64_zero = true -> sk_add fx mt s v c unit = ROk s' ->
  sk_map s' = sk_map s /\ sk_pos s' = sk_pos s /\ sk_neg s' = sk_neg s /\ sk_zero s' = sk_zero s.
Proof.
  intros H7 Hc H. destruct (sk_add_ok fx mt s v c unit s' H7 H) as [s0 [H0 E]].
  pose proof (plain_add_weight0 mt s v c s0 Hc H0) as E0. subst s0.
  destruct (sk_stats s) as [t|]; [|subst s'; repeat split].
  destruct (negb unit && feq c f64_zero); subst s'; repeat split.
Qed.
