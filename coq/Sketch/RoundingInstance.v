(* The abstract-rounding theorems of Sketch/RankProofs, Sketch/SketchProofs and Data/DatasetProofs
   instantiated at the rounding operator that is actually executed: binary64 round to nearest even.

   1. [rnd := rndQ] (the total specification operator of Base/F64Proofs: round-to-nearest-even of
      ANY rational, through R): every premise on the rounding operator is discharged by
      rndQ_mono / rndQ_int (B = 2^53) / rndQ_w0 / rndQ_idem.
   2. congruence: on a sketch with dyadic non-negative weights of total at most 2^1000 and a dyadic
      q in [0,1], every argument [a_quantile] passes to the rounding operator is dyadic and in
      range, so the executable [rnd64] and [rndQ] give the same answer (rnd64_rndQ, one occurrence
      at a time).
   3. the theorems about [a_quantile rnd64]: no premise on the rounding operator is left.
   4. the same for the reference dataset (Data/Dataset.v): whole histories [run sort rnd64 ops].

   Uses the float facts of Base/F64Proofs, hence depends on the four stdlib real-number axioms
   Flocq brings, nothing else.  [rnd64] is never unfolded here. *)
From Coq Require Import Lqa Permutation Sorted Qround Qcabs.
From SK Require Import Base.Prelude Base.F64 Base.F64Proofs.
From SK Require Import Spec.Bins Spec.BinsProofs Spec.ASketch Sketch.SketchProofs Sketch.RankProofs.
From SK Require Data.Dataset Data.DatasetProofs.

Local Open Scope Qc_scope.
Local Opaque rnd64.

(* ================================================================== *)
(** * 1. rnd := rndQ                                                   *)
(* ================================================================== *)

Lemma rndQ_int_inj (z : Z) : (Z.abs z <= 2 ^ 53)%Z -> rndQ (inj z) = inj z.
Proof. exact (rndQ_int z). Qed.

Section RndQ.
Variable m : amapping.
Hypothesis mn0 : 0 <= am_min m.
Hypothesis idx_mono :
  forall x y, am_min m < x /\ x <= y -> y <= am_max m -> (am_index m x <= am_index m y)%Z.

Lemma idx_mono_curried x y :
  am_min m < x -> x <= y -> y <= am_max m -> (am_index m x <= am_index m y)%Z.
Proof. intros H1 H2 H3. apply idx_mono; [split; assumption|assumption]. Qed.

Theorem quantile_selects_order_statistic_rndQ (xs ys : list Qc) (s : asketch) (q : Qc) :
  a_add_list m a_new (map unit_item xs) = Some s ->
  Permutation xs ys -> Sorted Qcle ys -> xs <> [] ->
  (Z.of_nat (length xs) <= 2 ^ 53)%Z -> 0 <= q -> q <= 1 ->
  exists k : nat,
    (cfloor (q * inj (Z.of_nat (length xs) - 1)) <= Z.of_nat k
     <= cceil (q * inj (Z.of_nat (length xs) - 1)))%Z /\
    (k < length xs)%nat /\
    a_quantile rndQ m s q = Some (repr m (nth k ys 0)).
Proof.
  intros Hs Hperm Hsort Hne Hlen Hq0 Hq1.
  exact (quantile_selects_order_statistic m mn0 idx_mono_curried rndQ (2 ^ 53) rndQ_mono rndQ_int_inj
           xs ys s q Hs Hperm Hsort Hne Hlen Hq0 Hq1).
Qed.

Theorem quantile_selects_order_statistic_inrange_rndQ (xs ys : list Qc) (q : Qc) :
  (forall x, In x xs -> Qcabs x <= am_max m) ->
  Permutation xs ys -> Sorted Qcle ys -> xs <> [] ->
  (Z.of_nat (length xs) <= 2 ^ 53)%Z -> 0 <= q -> q <= 1 ->
  exists s, a_add_list m a_new (map unit_item xs) = Some s /\
  exists k : nat,
    (cfloor (q * inj (Z.of_nat (length xs) - 1)) <= Z.of_nat k
     <= cceil (q * inj (Z.of_nat (length xs) - 1)))%Z /\
    (k < length xs)%nat /\
    a_quantile rndQ m s q = Some (repr m (nth k ys 0)).
Proof.
  intros Hin Hperm Hsort Hne Hlen Hq0 Hq1.
  exact (quantile_selects_order_statistic_inrange m mn0 idx_mono_curried rndQ (2 ^ 53) rndQ_mono
           rndQ_int_inj xs ys q Hin Hperm Hsort Hne Hlen Hq0 Hq1).
Qed.

Theorem quantile_accuracy_rndQ (xs ys : list Qc) (s : asketch) (q alpha : Qc) :
  a_add_list m a_new (map unit_item xs) = Some s ->
  Permutation xs ys -> Sorted Qcle ys -> xs <> [] ->
  (Z.of_nat (length xs) <= 2 ^ 53)%Z -> 0 <= q -> q <= 1 ->
  (forall x, am_min m < x -> x <= am_max m ->
             Qcabs (am_value m (am_index m x) - x) <= alpha * x) ->
  exists (k : nat) (y : Qc),
    (cfloor (q * inj (Z.of_nat (length xs) - 1)) <= Z.of_nat k
     <= cceil (q * inj (Z.of_nat (length xs) - 1)))%Z /\
    (k < length xs)%nat /\
    a_quantile rndQ m s q = Some y /\
    ((Qcabs (nth k ys 0) <= am_min m /\ y = 0) \/
     Qcabs (y - nth k ys 0) <= alpha * Qcabs (nth k ys 0)).
Proof.
  intros Hs Hperm Hsort Hne Hlen Hq0 Hq1 Hacc.
  exact (quantile_accuracy m mn0 idx_mono_curried rndQ (2 ^ 53) rndQ_mono rndQ_int_inj
           xs ys s q alpha Hs Hperm Hsort Hne Hlen Hq0 Hq1 Hacc).
Qed.

Theorem quantile_0_min_rndQ (xs ys : list Qc) (s : asketch) :
  a_add_list m a_new (map unit_item xs) = Some s ->
  Permutation xs ys -> Sorted Qcle ys -> xs <> [] -> (Z.of_nat (length xs) <= 2 ^ 53)%Z ->
  a_quantile rndQ m s 0 = Some (repr m (nth 0 ys 0)) /\
  In (nth 0 ys 0) xs /\ forall x, In x xs -> nth 0 ys 0 <= x.
Proof.
  intros Hs Hperm Hsort Hne Hlen.
  exact (quantile_0_min m mn0 idx_mono_curried rndQ (2 ^ 53) rndQ_mono rndQ_int_inj
           xs ys s Hs Hperm Hsort Hne Hlen).
Qed.

Theorem quantile_1_max_rndQ (xs ys : list Qc) (s : asketch) :
  a_add_list m a_new (map unit_item xs) = Some s ->
  Permutation xs ys -> Sorted Qcle ys -> xs <> [] -> (Z.of_nat (length xs) <= 2 ^ 53)%Z ->
  a_quantile rndQ m s 1 = Some (repr m (nth (length xs - 1) ys 0)) /\
  In (nth (length xs - 1) ys 0) xs /\ forall x, In x xs -> x <= nth (length xs - 1) ys 0.
Proof.
  intros Hs Hperm Hsort Hne Hlen.
  exact (quantile_1_max m mn0 idx_mono_curried rndQ (2 ^ 53) rndQ_mono rndQ_int_inj
           xs ys s Hs Hperm Hsort Hne Hlen).
Qed.

Theorem weighted_quantile_integer_rndQ (xs ys : list item) (s : asketch) (q : Qc) (n : Z) :
  a_add_list m a_new xs = Some s ->
  Permutation xs ys -> StronglySorted vle ys -> intw ys -> ys <> [] ->
  wsum ys = inj n -> (n <= 2 ^ 53)%Z -> 0 <= q -> q <= 1 ->
  exists l1 a l2 (k : Z),
    ys = l1 ++ a :: l2 /\
    a_quantile rndQ m s q = Some (repr m (fst a)) /\
    (cfloor (q * inj (n - 1)) <= k <= cceil (q * inj (n - 1)))%Z /\
    wsum l1 <= inj k /\ inj k < wsum l1 + snd a.
Proof.
  intros Hs Hperm Hsort Hint Hne Hsum Hn Hq0 Hq1.
  exact (weighted_quantile_integer m mn0 idx_mono_curried rndQ (2 ^ 53) rndQ_mono rndQ_int_inj
           xs ys s q n Hs Hperm Hsort Hint Hne Hsum Hn Hq0 Hq1).
Qed.
End RndQ.

(* C12 *)
Theorem rank_mono_rndQ s q1 q2 :
  w0 <= q1 -> q1 <= q2 -> a_rank rndQ s q1 <= a_rank rndQ s q2.
Proof. exact (a_rank_mono rndQ rndQ_mono rndQ_w0 s q1 q2). Qed.

Theorem quantile_mono_rndQ m s q1 q2 y1 y2 :
  (forall i, w0 < am_value m i) ->
  (forall i j, (i <= j)%Z -> am_value m i <= am_value m j) ->
  awf s -> w0 <= q1 -> q1 <= q2 ->
  a_quantile rndQ m s q1 = Some y1 -> a_quantile rndQ m s q2 = Some y2 -> y1 <= y2.
Proof. intros Hv Hvm. exact (a_quantile_mono rndQ m rndQ_mono rndQ_w0 Hv Hvm s q1 q2 y1 y2). Qed.

Theorem quantile_ge_min_rndQ m s q y lo :
  (forall i, w0 < am_value m i) ->
  (forall i j, (i <= j)%Z -> am_value m i <= am_value m j) ->
  awf s -> a_quantile rndQ m s q = Some y -> a_min m s = Some lo -> lo <= y.
Proof. intros Hv Hvm. exact (a_quantile_ge_min rndQ m rndQ_w0 Hv Hvm s q y lo). Qed.

Theorem quantile_le_max_rndQ m s q y hi :
  (forall i, w0 < am_value m i) ->
  (forall i j, (i <= j)%Z -> am_value m i <= am_value m j) ->
  awf s -> a_quantile rndQ m s q = Some y -> a_max m s = Some hi -> y <= hi.
Proof.
  intros Hv Hvm. exact (a_quantile_le_max rndQ m rndQ_mono rndQ_w0 rndQ_idem Hv Hvm s q y hi).
Qed.

Theorem quantile_bounds_rndQ m s q y lo hi :
  (forall i, w0 < am_value m i) ->
  (forall i j, (i <= j)%Z -> am_value m i <= am_value m j) ->
  awf s -> a_quantile rndQ m s q = Some y -> a_min m s = Some lo -> a_max m s = Some hi ->
  lo <= y /\ y <= hi.
Proof.
  intros Hv Hvm. exact (a_quantile_bounds rndQ m rndQ_mono rndQ_w0 rndQ_idem Hv Hvm s q y lo hi).
Qed.

Theorem quantile_some_rndQ m s q :
  awf s -> a_count s <> w0 -> w0 <= q -> q <= w1 ->
  w0 < rndQ (a_count s) -> rndQ (wsub (a_count s) w1) < rndQ (a_count s) ->
  exists y, a_quantile rndQ m s q = Some y.
Proof. exact (a_quantile_some rndQ m rndQ_mono rndQ_w0 rndQ_idem s q). Qed.

(* ================================================================== *)
(** * 2. congruence: rnd64 = rndQ inside a_quantile                    *)
(* ================================================================== *)

Definition dy_bins (b : bins) : Prop := Forall (fun kw : Z * W => dyadic (snd kw)) b.

Lemma dyadic_w1 : dyadic w1.
Proof. exact (dyadic_of_Z 1). Qed.
Lemma dyadic_inj z : dyadic (inj z).
Proof. exact (dyadic_of_Z z). Qed.

Lemma dyadic_total b : dy_bins b -> dyadic (total b).
Proof.
  induction b as [|[k w] tl IH]; intros H.
  - rewrite total_nil. exact dyadic_w0.
  - rewrite total_cons. apply Forall_cons_iff in H. destruct H as [H1 H2].
    apply dyadic_plus; [exact H1|apply IH; exact H2].
Qed.

(* a magnitude bound K closed under rounding: rndQ fixes K and -K *)
Section Cong.
Variable K : Z.
Hypothesis K1 : (1 <= K)%Z.
Hypothesis K2 : (K + K <= f64max_Z)%Z.

Definition bK (x : Qc) : Prop := - inj K <= x /\ x <= inj K.

Lemma one_le_K : w1 <= inj K.
Proof. rewrite <- inj_1. apply inj_mono. exact K1. Qed.

Lemma in_range_2K x : - (inj K + inj K) <= x -> x <= inj K + inj K -> in_range x.
Proof.
  intros H1 H2. apply (in_range_of_Z_bound x (K + K) K2).
  - change (Q2Qc (inject_Z (K + K))) with (inj (K + K)). rewrite inj_plus. exact H1.
  - change (Q2Qc (inject_Z (K + K))) with (inj (K + K)). rewrite inj_plus. exact H2.
Qed.

Lemma bK_in_range x : bK x -> in_range x.
Proof.
  intros [H1 H2]. pose proof one_le_K as HK. apply in_range_2K; qlra.
Qed.

Lemma bK_mul q x : 0 <= q -> q <= 1 -> bK x -> bK (wmul q x).
Proof.
  intros Hq0 Hq1 [H1 H2]. pose proof one_le_K as HK. unfold bK.
  destruct (Qclt_le_dec x 0) as [Hx|Hx].
  - assert (Hx' : x <= 0) by (apply Qclt_le_weak; exact Hx).
    destruct (mul_bracket_neg q x Hq0 Hq1 Hx') as [M1 M2]. split; qlra.
  - destruct (mul_bracket q x Hq0 Hq1 Hx) as [M1 M2]. split; qlra.
Qed.

Lemma rnd64_bK x : dyadic x -> bK x -> rnd64 x = rndQ x.
Proof. intros D B. apply rnd64_rndQ; [exact D|apply bK_in_range; exact B]. Qed.

(* closure under rounding needs: rndQ fixes K and -K *)
Hypothesis fixK : rndQ (inj K) = inj K.
Hypothesis fixKn : rndQ (inj (- K)) = inj (- K).

Lemma bK_rndQ x : bK x -> bK (rndQ x).
Proof.
  intros [H1 H2]. split.
  - rewrite <- inj_opp. rewrite <- fixKn. apply rndQ_mono. rewrite inj_opp. exact H1.
  - rewrite <- fixK. apply rndQ_mono. exact H2.
Qed.

Section OneSketch.
Variable m : amapping.
Variable s : asketch.
Variable q : Qc.
Hypothesis Dp : dy_bins (a_pos s).
Hypothesis Dn : dy_bins (a_neg s).
Hypothesis Dz : dyadic (a_zero s).
Hypothesis Np : nonneg (a_pos s).
Hypothesis Nn : nonneg (a_neg s).
Hypothesis Nz : w0 <= a_zero s.
Hypothesis Hsmall : a_count s <= inj K.
Hypothesis Dq : dyadic q.
Hypothesis Hq0 : 0 <= q.
Hypothesis Hq1 : q <= 1.

Lemma dyadic_count : dyadic (a_count s).
Proof.
  unfold a_count. apply dyadic_plus; [apply dyadic_plus|].
  - exact Dz.
  - apply dyadic_total; exact Dp.
  - apply dyadic_total; exact Dn.
Qed.

Lemma count_parts :
  w0 <= total (a_pos s) /\ w0 <= total (a_neg s) /\
  wadd (wadd (a_zero s) (total (a_pos s))) (total (a_neg s)) <= inj K.
Proof.
  split; [apply total_nonneg; exact Np|]. split; [apply total_nonneg; exact Nn|]. exact Hsmall.
Qed.

Lemma bK_count_pred : bK (wsub (a_count s) w1).
Proof.
  destruct count_parts as [P0 [N0 HC]]. pose proof one_le_K as HK. pose proof Nz as Z0.
  unfold bK, a_count. split; qlra.
Qed.

Lemma a_rank_cong : a_rank rnd64 s q = a_rank rndQ s q.
Proof.
  unfold a_rank. cbv zeta.
  assert (D1 : dyadic (wsub (a_count s) w1))
    by (apply dyadic_minus; [exact dyadic_count|exact dyadic_w1]).
  rewrite (rnd64_bK _ D1 bK_count_pred).
  assert (D2 : dyadic (wmul q (rndQ (wsub (a_count s) w1))))
    by (apply dyadic_mult; [exact Dq|apply dyadic_rndQ]).
  assert (B2 : bK (wmul q (rndQ (wsub (a_count s) w1))))
    by (apply bK_mul; [exact Hq0|exact Hq1|apply bK_rndQ; exact bK_count_pred]).
  rewrite (rnd64_bK _ D2 B2). reflexivity.
Qed.

Lemma a_rank_rndQ_facts :
  dyadic (a_rank rndQ s q) /\ w0 <= a_rank rndQ s q /\ a_rank rndQ s q <= inj K.
Proof.
  split; [|split; [apply a_rank_nonneg|]].
  - unfold a_rank. cbv zeta. destruct (wltb _ w0); [exact dyadic_w0|apply dyadic_rndQ].
  - assert (B2 : bK (rndQ (wmul q (rndQ (wsub (a_count s) w1)))))
      by (apply bK_rndQ; apply bK_mul; [exact Hq0|exact Hq1|apply bK_rndQ; exact bK_count_pred]).
    destruct B2 as [_ B2]. pose proof one_le_K as HK.
    unfold a_rank. cbv zeta. destruct (wltb _ w0); [qlra|exact B2].
Qed.

Theorem a_quantile_cong : a_quantile rnd64 m s q = a_quantile rndQ m s q.
Proof.
  unfold a_quantile. cbv zeta. rewrite a_rank_cong.
  destruct a_rank_rndQ_facts as [Dr [R0 R1]].
  destruct count_parts as [P0 [N0 HC]]. pose proof one_le_K as HK. pose proof Nz as Z0.
  pose proof (dyadic_total _ Dn) as DN. pose proof Dz as DZ.
  revert Dr R0 R1 P0 N0 HC DN DZ Z0.
  generalize (a_rank rndQ s q) as rank. generalize (total (a_neg s)) as N.
  generalize (total (a_pos s)) as P. generalize (a_zero s) as Zw.
  intros Zw P N rank Dr R0 R1 P0 N0 HC DN DZ Z0.
  (* rnd (N - 1) *)
  assert (D3 : dyadic (wsub N w1)) by (apply dyadic_minus; [exact DN|exact dyadic_w1]).
  assert (B3 : bK (wsub N w1)) by (unfold bK; split; qlra).
  rewrite (rnd64_bK _ D3 B3).
  pose proof (bK_rndQ _ B3) as B3'. pose proof (dyadic_rndQ (wsub N w1)) as D3'.
  revert B3' D3'. generalize (rndQ (wsub N w1)) as r3. intros r3 B3' D3'.
  (* rnd (r3 - rank) *)
  assert (D4 : dyadic (wsub r3 rank)) by (apply dyadic_minus; assumption).
  assert (I4 : in_range (wsub r3 rank)) by (destruct B3' as [B3a B3b]; apply in_range_2K; qlra).
  rewrite (rnd64_rndQ _ D4 I4).
  (* rnd (zero + N) *)
  assert (D5 : dyadic (wadd Zw N)) by (apply dyadic_plus; assumption).
  assert (B5 : bK (wadd Zw N)) by (unfold bK; split; qlra).
  rewrite (rnd64_bK _ D5 B5).
  (* rnd (rank - zero) *)
  assert (D6 : dyadic (wsub rank Zw)) by (apply dyadic_minus; assumption).
  assert (B6 : bK (wsub rank Zw)) by (unfold bK; split; qlra).
  rewrite (rnd64_bK _ D6 B6).
  pose proof (bK_rndQ _ B6) as B6'. pose proof (dyadic_rndQ (wsub rank Zw)) as D6'.
  revert B6' D6'. generalize (rndQ (wsub rank Zw)) as r6. intros r6 B6' D6'.
  (* rnd (r6 - N) *)
  assert (D7 : dyadic (wsub r6 N)) by (apply dyadic_minus; assumption).
  assert (I7 : in_range (wsub r6 N)) by (destruct B6' as [B6a B6b]; apply in_range_2K; qlra).
  rewrite (rnd64_rndQ _ D7 I7).
  reflexivity.
Qed.
End OneSketch.
End Cong.

(* the bound used in the statements: 2^1000 *)
Definition KB : Z := 2 ^ 1000.
Definition small (s : asketch) : Prop := a_count s <= inj (2 ^ 1000).

Lemma KB_1 : (1 <= KB)%Z.
Proof. apply Z.leb_le. vm_compute. reflexivity. Qed.
Lemma KB_2 : (KB + KB <= f64max_Z)%Z.
Proof. apply Z.leb_le. vm_compute. reflexivity. Qed.
Lemma KB_in_range z : (Z.abs z <= KB)%Z -> in_range (inj z).
Proof.
  intros H. pose proof KB_2 as H2. pose proof KB_1 as H1.
  apply (in_range_of_Z_bound (inj z) KB); [lia| |].
  - change (Q2Qc (inject_Z KB)) with (inj KB). rewrite <- inj_opp. apply inj_mono. lia.
  - change (Q2Qc (inject_Z KB)) with (inj KB). apply inj_mono. lia.
Qed.
Lemma KB_fix : rndQ (inj KB) = inj KB.
Proof.
  rewrite <- (rnd64_rndQ (inj KB) (dyadic_inj KB)).
  - apply Qc_decomp. vm_compute. reflexivity.
  - apply KB_in_range. pose proof KB_1. lia.
Qed.
Lemma KB_fixn : rndQ (inj (- KB)) = inj (- KB).
Proof.
  rewrite <- (rnd64_rndQ (inj (- KB)) (dyadic_inj (- KB))).
  - apply Qc_decomp. vm_compute. reflexivity.
  - apply KB_in_range. pose proof KB_1. lia.
Qed.

Theorem a_quantile_rnd64_eq_rndQ (m : amapping) (s : asketch) (q : Qc) :
  dy_bins (a_pos s) -> dy_bins (a_neg s) -> dyadic (a_zero s) ->
  nonneg (a_pos s) -> nonneg (a_neg s) -> w0 <= a_zero s ->
  small s -> dyadic q -> 0 <= q -> q <= 1 ->
  a_quantile rnd64 m s q = a_quantile rndQ m s q.
Proof.
  intros Dp Dn Dz Np Nn Nz Hs Dq Hq0 Hq1.
  exact (a_quantile_cong KB KB_1 KB_2 KB_fix KB_fixn m s q Dp Dn Dz Np Nn Nz Hs Dq Hq0 Hq1).
Qed.

Theorem a_rank_rnd64_eq_rndQ (s : asketch) (q : Qc) :
  dy_bins (a_pos s) -> dy_bins (a_neg s) -> dyadic (a_zero s) ->
  nonneg (a_pos s) -> nonneg (a_neg s) -> w0 <= a_zero s ->
  small s -> dyadic q -> 0 <= q -> q <= 1 ->
  a_rank rnd64 s q = a_rank rndQ s q.
Proof.
  intros Dp Dn Dz Np Nn Nz Hs Dq Hq0 Hq1.
  exact (a_rank_cong KB KB_1 KB_2 KB_fix KB_fixn s q Dp Dn Dz Np Nn Nz Hs Dq Hq0 Hq1).
Qed.

(* ================================================================== *)
(** * 3. sketches built by a_add_list have dyadic weights              *)
(* ================================================================== *)

Definition dy_sketch (s : asketch) : Prop :=
  dy_bins (a_pos s) /\ dy_bins (a_neg s) /\ dyadic (a_zero s).
(* items whose weights are dyadic and non-negative *)
Definition dyw (l : list item) : Prop := Forall (fun a : item => dyadic (snd a) /\ w0 <= snd a) l.

Lemma dy_badd b i c : dy_bins b -> dyadic c -> dy_bins (badd b i c).
Proof.
  induction b as [|[k w] tl IH]; intros Hb Hc; cbn [badd].
  - constructor; [exact Hc|constructor].
  - apply Forall_cons_iff in Hb. destruct Hb as [Hw Htl]. cbn [snd] in Hw.
    destruct (i <? k)%Z.
    + constructor; [exact Hc|]. constructor; [exact Hw|exact Htl].
    + destruct (i =? k)%Z.
      * constructor; [|exact Htl]. cbn [snd]. apply dyadic_plus; [exact Hw|exact Hc].
      * constructor; [exact Hw|]. apply IH; [exact Htl|exact Hc].
Qed.
Lemma dy_badd0 b i c : dy_bins b -> dyadic c -> dy_bins (badd0 b i c).
Proof.
  intros Hb Hc. unfold badd0. destruct (weqb c w0); [exact Hb|apply dy_badd; assumption].
Qed.
Lemma dy_bmerge_list l : forall a, dy_bins a -> dy_bins l -> dy_bins (bmerge_list a l).
Proof.
  induction l as [|[k c] l IH]; intros a Ha Hl.
  - rewrite bmerge_list_nil. exact Ha.
  - rewrite bmerge_list_cons. apply Forall_cons_iff in Hl. destruct Hl as [Hc Hl]. cbn [snd] in Hc.
    apply IH; [apply dy_badd0; assumption|exact Hl].
Qed.

Lemma dy_sketch_new : dy_sketch a_new.
Proof. split; [constructor|]. split; [constructor|]. exact dyadic_w0. Qed.

Lemma a_add_dy m s v c s' :
  dyadic c -> dy_sketch s -> a_add m Exact Exact s v c = AAdded s' -> dy_sketch s'.
Proof.
  intros Hc [Hp [Hn Hz]] H. unfold a_add in H.
  destruct (wltb (am_min m) v).
  - destruct (wltb (am_max m) v); [discriminate|]. injection H as <-.
    split; [|split]; cbn [a_pos a_neg a_zero]; [|exact Hn|exact Hz].
    unfold sadd, norm. apply dy_badd0; assumption.
  - destruct (wltb v (- am_min m)).
    + destruct (wltb v (- am_max m)); [discriminate|]. injection H as <-.
      split; [|split]; cbn [a_pos a_neg a_zero]; [exact Hp| |exact Hz].
      unfold sadd, norm. apply dy_badd0; assumption.
    + injection H as <-.
      split; [|split]; cbn [a_pos a_neg a_zero]; [exact Hp|exact Hn|].
      apply dyadic_plus; assumption.
Qed.

Lemma a_add_list_facts m xs : forall s s',
  dyw xs -> dy_sketch s -> awf s -> a_add_list m s xs = Some s' ->
  dy_sketch s' /\ awf s' /\ a_count s' = wadd (a_count s) (wsum xs).
Proof.
  induction xs as [|a xs IH]; intros s s' Hw Hd Ha H.
  - cbn [a_add_list] in H. injection H as <-. rewrite wsum_nil, wadd_0_r.
    split; [exact Hd|]. split; [exact Ha|reflexivity].
  - cbn [a_add_list] in H. apply Forall_cons_iff in Hw. destruct Hw as [[Hw1 Hw2] Hw].
    destruct (a_add m Exact Exact s (fst a) (snd a)) as [s1| |] eqn:E; [|discriminate|discriminate].
    pose proof (a_add_dy _ _ _ _ _ Hw1 Hd E) as Hd1.
    pose proof (a_add_awf _ _ _ _ _ _ _ Ha Hw2 E) as Ha1.
    pose proof (a_add_count _ _ _ _ _ _ _ E) as Hc1.
    destruct (IH s1 s' Hw Hd1 Ha1 H) as [I1 [I2 I3]].
    split; [exact I1|]. split; [exact I2|].
    rewrite I3, Hc1, wsum_cons. apply eq_sym, wadd_assoc.
Qed.

Lemma awf_nonneg s : awf s -> nonneg (a_pos s) /\ nonneg (a_neg s) /\ w0 <= a_zero s.
Proof.
  intros [_ [_ [Hp [Hn Hz]]]]. split; [apply pos_nonneg; exact Hp|].
  split; [apply pos_nonneg; exact Hn|exact Hz].
Qed.

(* congruence on a canonical sketch *)
Theorem a_quantile_rnd64_eq_rndQ_awf (m : amapping) (s : asketch) (q : Qc) :
  awf s -> dy_sketch s -> small s -> dyadic q -> 0 <= q -> q <= 1 ->
  a_quantile rnd64 m s q = a_quantile rndQ m s q.
Proof.
  intros Ha [Dp [Dn Dz]] Hs Dq Hq0 Hq1. destruct (awf_nonneg s Ha) as [Np [Nn Nz]].
  apply a_quantile_rnd64_eq_rndQ; assumption.
Qed.

(* congruence on the sketch of a list of items with dyadic non-negative weights *)
Theorem built_sketch_facts (m : amapping) (xs : list item) (s : asketch) :
  dyw xs -> a_add_list m a_new xs = Some s ->
  dy_sketch s /\ awf s /\ a_count s = wsum xs.
Proof.
  intros Hw H. destruct (a_add_list_facts m xs a_new s Hw dy_sketch_new awf_new H) as [I1 [I2 I3]].
  split; [exact I1|]. split; [exact I2|]. rewrite I3, a_count_new. apply wadd_0_l.
Qed.

Theorem a_quantile_rnd64_eq_rndQ_built (m : amapping) (xs : list item) (s : asketch) (q : Qc) :
  dyw xs -> a_add_list m a_new xs = Some s -> wsum xs <= inj (2 ^ 1000) ->
  dyadic q -> 0 <= q -> q <= 1 ->
  a_quantile rnd64 m s q = a_quantile rndQ m s q.
Proof.
  intros Hw H Hsum Dq Hq0 Hq1. destruct (built_sketch_facts m xs s Hw H) as [I1 [I2 I3]].
  apply a_quantile_rnd64_eq_rndQ_awf; try assumption. unfold small. rewrite I3. exact Hsum.
Qed.

Lemma dyw_units (xs : list Qc) : dyw (map unit_item xs).
Proof.
  apply Forall_forall. intros a Ha. apply in_map_iff in Ha. destruct Ha as [x [<- _]].
  cbn [unit_item snd]. split; [exact dyadic_w1|]. apply Qclt_le_weak. reflexivity.
Qed.

Lemma dyw_intw (l : list item) : intw l -> dyw l.
Proof.
  intros H. unfold intw in H. unfold dyw. eapply Forall_impl; [|exact H].
  intros a [z [Hz ->]]. split; [apply dyadic_inj|]. apply inj_nonneg. lia.
Qed.

Lemma pow53_le_pow1000 : (2 ^ 53 <= 2 ^ 1000)%Z.
Proof. apply Z.leb_le. vm_compute. reflexivity. Qed.

Theorem a_quantile_rnd64_eq_rndQ_units (m : amapping) (xs : list Qc) (s : asketch) (q : Qc) :
  a_add_list m a_new (map unit_item xs) = Some s -> (Z.of_nat (length xs) <= 2 ^ 53)%Z ->
  dyadic q -> 0 <= q -> q <= 1 ->
  a_quantile rnd64 m s q = a_quantile rndQ m s q.
Proof.
  intros H Hlen Dq Hq0 Hq1.
  apply (a_quantile_rnd64_eq_rndQ_built m (map unit_item xs) s q (dyw_units xs) H); try assumption.
  rewrite (wsum_units _ (units_unit_items xs)), map_length. apply inj_mono.
  pose proof pow53_le_pow1000. lia.
Qed.

Theorem a_quantile_rnd64_eq_rndQ_intw
  (m : amapping) (xs ys : list item) (s : asketch) (q : Qc) (n : Z) :
  a_add_list m a_new xs = Some s -> Permutation xs ys -> intw ys ->
  wsum ys = inj n -> (n <= 2 ^ 53)%Z -> dyadic q -> 0 <= q -> q <= 1 ->
  a_quantile rnd64 m s q = a_quantile rndQ m s q.
Proof.
  intros H Hperm Hint Hsum Hn Dq Hq0 Hq1.
  assert (Hw : dyw xs).
  { unfold dyw. eapply Permutation_Forall; [apply Permutation_sym; exact Hperm|].
    apply dyw_intw. exact Hint. }
  apply (a_quantile_rnd64_eq_rndQ_built m xs s q Hw H); try assumption.
  rewrite (wsum_perm _ _ Hperm), Hsum. apply inj_mono. pose proof pow53_le_pow1000. lia.
Qed.

(* ------------------------------------------------------------------ *)
(** ** the theorems about the executed operator                        *)

Section Rnd64.
Variable m : amapping.
Hypothesis mn0 : 0 <= am_min m.
Hypothesis idx_mono :
  forall x y, am_min m < x /\ x <= y -> y <= am_max m -> (am_index m x <= am_index m y)%Z.

Theorem quantile_selects_order_statistic_rnd64 (xs ys : list Qc) (s : asketch) (q : Qc) :
  a_add_list m a_new (map unit_item xs) = Some s ->
  Permutation xs ys -> Sorted Qcle ys -> xs <> [] ->
  (Z.of_nat (length xs) <= 2 ^ 53)%Z -> dyadic q -> 0 <= q -> q <= 1 ->
  exists k : nat,
    (cfloor (q * inj (Z.of_nat (length xs) - 1)) <= Z.of_nat k
     <= cceil (q * inj (Z.of_nat (length xs) - 1)))%Z /\
    (k < length xs)%nat /\
    a_quantile rnd64 m s q = Some (repr m (nth k ys 0)).
Proof.
  intros Hs Hperm Hsort Hne Hlen Dq Hq0 Hq1.
  rewrite (a_quantile_rnd64_eq_rndQ_units m xs s q Hs Hlen Dq Hq0 Hq1).
  exact (quantile_selects_order_statistic_rndQ m mn0 idx_mono xs ys s q Hs Hperm Hsort Hne Hlen Hq0 Hq1).
Qed.

Theorem quantile_selects_order_statistic_inrange_rnd64 (xs ys : list Qc) (q : Qc) :
  (forall x, In x xs -> Qcabs x <= am_max m) ->
  Permutation xs ys -> Sorted Qcle ys -> xs <> [] ->
  (Z.of_nat (length xs) <= 2 ^ 53)%Z -> dyadic q -> 0 <= q -> q <= 1 ->
  exists s, a_add_list m a_new (map unit_item xs) = Some s /\
  exists k : nat,
    (cfloor (q * inj (Z.of_nat (length xs) - 1)) <= Z.of_nat k
     <= cceil (q * inj (Z.of_nat (length xs) - 1)))%Z /\
    (k < length xs)%nat /\
    a_quantile rnd64 m s q = Some (repr m (nth k ys 0)).
Proof.
  intros Hin Hperm Hsort Hne Hlen Dq Hq0 Hq1.
  destruct (quantile_selects_order_statistic_inrange_rndQ m mn0 idx_mono xs ys q
              Hin Hperm Hsort Hne Hlen Hq0 Hq1) as [s [Hs Hk]].
  exists s. split; [exact Hs|].
  rewrite (a_quantile_rnd64_eq_rndQ_units m xs s q Hs Hlen Dq Hq0 Hq1). exact Hk.
Qed.

Theorem quantile_accuracy_rnd64 (xs ys : list Qc) (s : asketch) (q alpha : Qc) :
  a_add_list m a_new (map unit_item xs) = Some s ->
  Permutation xs ys -> Sorted Qcle ys -> xs <> [] ->
  (Z.of_nat (length xs) <= 2 ^ 53)%Z -> dyadic q -> 0 <= q -> q <= 1 ->
  (forall x, am_min m < x -> x <= am_max m ->
             Qcabs (am_value m (am_index m x) - x) <= alpha * x) ->
  exists (k : nat) (y : Qc),
    (cfloor (q * inj (Z.of_nat (length xs) - 1)) <= Z.of_nat k
     <= cceil (q * inj (Z.of_nat (length xs) - 1)))%Z /\
    (k < length xs)%nat /\
    a_quantile rnd64 m s q = Some y /\
    ((Qcabs (nth k ys 0) <= am_min m /\ y = 0) \/
     Qcabs (y - nth k ys 0) <= alpha * Qcabs (nth k ys 0)).
Proof.
  intros Hs Hperm Hsort Hne Hlen Dq Hq0 Hq1 Hacc.
  rewrite (a_quantile_rnd64_eq_rndQ_units m xs s q Hs Hlen Dq Hq0 Hq1).
  exact (quantile_accuracy_rndQ m mn0 idx_mono xs ys s q alpha Hs Hperm Hsort Hne Hlen Hq0 Hq1 Hacc).
Qed.

Theorem quantile_0_min_rnd64 (xs ys : list Qc) (s : asketch) :
  a_add_list m a_new (map unit_item xs) = Some s ->
  Permutation xs ys -> Sorted Qcle ys -> xs <> [] -> (Z.of_nat (length xs) <= 2 ^ 53)%Z ->
  a_quantile rnd64 m s 0 = Some (repr m (nth 0 ys 0)) /\
  In (nth 0 ys 0) xs /\ forall x, In x xs -> nth 0 ys 0 <= x.
Proof.
  intros Hs Hperm Hsort Hne Hlen.
  assert (H00 : (0 : Qc) <= 0) by apply Qcle_refl.
  assert (H01 : (0 : Qc) <= 1) by (apply Qclt_le_weak; reflexivity).
  rewrite (a_quantile_rnd64_eq_rndQ_units m xs s 0 Hs Hlen dyadic_w0 H00 H01).
  exact (quantile_0_min_rndQ m mn0 idx_mono xs ys s Hs Hperm Hsort Hne Hlen).
Qed.

Theorem quantile_1_max_rnd64 (xs ys : list Qc) (s : asketch) :
  a_add_list m a_new (map unit_item xs) = Some s ->
  Permutation xs ys -> Sorted Qcle ys -> xs <> [] -> (Z.of_nat (length xs) <= 2 ^ 53)%Z ->
  a_quantile rnd64 m s 1 = Some (repr m (nth (length xs - 1) ys 0)) /\
  In (nth (length xs - 1) ys 0) xs /\ forall x, In x xs -> x <= nth (length xs - 1) ys 0.
Proof.
  intros Hs Hperm Hsort Hne Hlen.
  assert (H01 : (0 : Qc) <= 1) by (apply Qclt_le_weak; reflexivity).
  assert (H11 : (1 : Qc) <= 1) by apply Qcle_refl.
  rewrite (a_quantile_rnd64_eq_rndQ_units m xs s 1 Hs Hlen dyadic_w1 H01 H11).
  exact (quantile_1_max_rndQ m mn0 idx_mono xs ys s Hs Hperm Hsort Hne Hlen).
Qed.

Theorem weighted_quantile_integer_rnd64 (xs ys : list item) (s : asketch) (q : Qc) (n : Z) :
  a_add_list m a_new xs = Some s ->
  Permutation xs ys -> StronglySorted vle ys -> intw ys -> ys <> [] ->
  wsum ys = inj n -> (n <= 2 ^ 53)%Z -> dyadic q -> 0 <= q -> q <= 1 ->
  exists l1 a l2 (k : Z),
    ys = l1 ++ a :: l2 /\
    a_quantile rnd64 m s q = Some (repr m (fst a)) /\
    (cfloor (q * inj (n - 1)) <= k <= cceil (q * inj (n - 1)))%Z /\
    wsum l1 <= inj k /\ inj k < wsum l1 + snd a.
Proof.
  intros Hs Hperm Hsort Hint Hne Hsum Hn Dq Hq0 Hq1.
  rewrite (a_quantile_rnd64_eq_rndQ_intw m xs ys s q n Hs Hperm Hint Hsum Hn Dq Hq0 Hq1).
  exact (weighted_quantile_integer_rndQ m mn0 idx_mono xs ys s q n
           Hs Hperm Hsort Hint Hne Hsum Hn Hq0 Hq1).
Qed.
End Rnd64.

(* C12 for the executed operator, on any canonical sketch with dyadic weights *)
Theorem quantile_mono_rnd64 m s q1 q2 y1 y2 :
  (forall i, w0 < am_value m i) ->
  (forall i j, (i <= j)%Z -> am_value m i <= am_value m j) ->
  awf s -> dy_sketch s -> small s -> dyadic q1 -> dyadic q2 ->
  w0 <= q1 -> q1 <= q2 -> q2 <= 1 ->
  a_quantile rnd64 m s q1 = Some y1 -> a_quantile rnd64 m s q2 = Some y2 -> y1 <= y2.
Proof.
  intros Hv Hvm Ha Hd Hs D1 D2 H0 H12 H1.
  assert (H1' : q1 <= 1) by (eapply Qcle_trans; eassumption).
  assert (H0' : 0 <= q2) by (eapply Qcle_trans; eassumption).
  rewrite (a_quantile_rnd64_eq_rndQ_awf m s q1 Ha Hd Hs D1 H0 H1').
  rewrite (a_quantile_rnd64_eq_rndQ_awf m s q2 Ha Hd Hs D2 H0' H1).
  exact (quantile_mono_rndQ m s q1 q2 y1 y2 Hv Hvm Ha H0 H12).
Qed.

Theorem quantile_bounds_rnd64 m s q y lo hi :
  (forall i, w0 < am_value m i) ->
  (forall i j, (i <= j)%Z -> am_value m i <= am_value m j) ->
  awf s -> dy_sketch s -> small s -> dyadic q -> 0 <= q -> q <= 1 ->
  a_quantile rnd64 m s q = Some y -> a_min m s = Some lo -> a_max m s = Some hi ->
  lo <= y /\ y <= hi.
Proof.
  intros Hv Hvm Ha Hd Hs Dq H0 H1.
  rewrite (a_quantile_rnd64_eq_rndQ_awf m s q Ha Hd Hs Dq H0 H1).
  exact (quantile_bounds_rndQ m s q y lo hi Hv Hvm Ha).
Qed.

(* the headline statement with the quantile given as a binary64 value *)
Theorem quantile_selects_order_statistic_rnd64_f2q
  (m : amapping) (xs ys : list Qc) (s : asketch) (x : f64) :
  0 <= am_min m ->
  (forall x y, am_min m < x /\ x <= y -> y <= am_max m -> (am_index m x <= am_index m y)%Z) ->
  a_add_list m a_new (map unit_item xs) = Some s ->
  Permutation xs ys -> Sorted Qcle ys -> xs <> [] ->
  (Z.of_nat (length xs) <= 2 ^ 53)%Z -> 0 <= f2q x -> f2q x <= 1 ->
  exists k : nat,
    (cfloor (f2q x * inj (Z.of_nat (length xs) - 1)) <= Z.of_nat k
     <= cceil (f2q x * inj (Z.of_nat (length xs) - 1)))%Z /\
    (k < length xs)%nat /\
    a_quantile rnd64 m s (f2q x) = Some (repr m (nth k ys 0)).
Proof.
  intros mn0 idx Hs Hperm Hsort Hne Hlen Hq0 Hq1.
  exact (quantile_selects_order_statistic_rnd64 m mn0 idx xs ys s (f2q x)
           Hs Hperm Hsort Hne Hlen (dyadic_f2q x) Hq0 Hq1).
Qed.

(* ================================================================== *)
(** * 4. the reference dataset                                         *)
(* ================================================================== *)

Import Data.Dataset.
Module DP := Data.DatasetProofs.
Local Open Scope Qc_scope.

(* C20 with rnd := rndQ *)
Lemma rndQ_int_nonneg (z : Z) : (0 <= z <= 2 ^ 53)%Z -> rndQ (DP.inj z) = DP.inj z.
Proof. intros H. apply rndQ_int. rewrite Z.abs_eq; lia. Qed.

Section DatasetRndQ.
Variable sort : list Qc -> list Qc.
Hypothesis sort_sorted : forall l, Sorted Qcle (sort l).
Hypothesis sort_perm : forall l, Permutation l (sort l).

Theorem queries_are_order_statistics_rndQ (pre : list DP.op) (q : Qc) (s : list Qc) :
  let xs := DP.adds pre in
  let rho := rndQ (q * (inj (Z.of_nat (length xs)) - 1)) in
  Sorted Qcle s -> Permutation xs s ->
  xs <> [] -> 0 <= q -> q <= 1 -> (Z.of_nat (length xs) - 1 <= 2 ^ 53)%Z ->
  (exists v, nth_error s (Z.to_nat (qfloor rho)) = Some v /\
     snd (DP.run sort rndQ (pre ++ [DP.OLower (Some q)]) d_new) = snd (DP.run sort rndQ pre d_new) ++ [Some v]) /\
  (exists v, nth_error s (Z.to_nat (qceil rho)) = Some v /\
     snd (DP.run sort rndQ (pre ++ [DP.OUpper (Some q)]) d_new) = snd (DP.run sort rndQ pre d_new) ++ [Some v]).
Proof.
  exact (DP.queries_are_order_statistics sort rndQ (2 ^ 53) sort_sorted sort_perm rndQ_mono
           rndQ_int_nonneg pre q s).
Qed.

Theorem lower_is_order_statistic_rndQ (pre : list DP.op) (q : Qc) :
  let xs := DP.adds pre in
  let k := Z.to_nat (qfloor (rndQ (q * (inj (Z.of_nat (length xs)) - 1)))) in
  xs <> [] -> 0 <= q -> q <= 1 -> (Z.of_nat (length xs) - 1 <= 2 ^ 53)%Z ->
  snd (DP.run sort rndQ (pre ++ [DP.OLower (Some q)]) d_new) =
    snd (DP.run sort rndQ pre d_new) ++ [nth_error (sort xs) k] /\
  (k < length xs)%nat /\ exists v, nth_error (sort xs) k = Some v.
Proof.
  exact (DP.lower_is_order_statistic sort rndQ (2 ^ 53) sort_sorted sort_perm rndQ_mono
           rndQ_int_nonneg pre q).
Qed.

Theorem upper_is_order_statistic_rndQ (pre : list DP.op) (q : Qc) :
  let xs := DP.adds pre in
  let k := Z.to_nat (qceil (rndQ (q * (inj (Z.of_nat (length xs)) - 1)))) in
  xs <> [] -> 0 <= q -> q <= 1 -> (Z.of_nat (length xs) - 1 <= 2 ^ 53)%Z ->
  snd (DP.run sort rndQ (pre ++ [DP.OUpper (Some q)]) d_new) =
    snd (DP.run sort rndQ pre d_new) ++ [nth_error (sort xs) k] /\
  (k < length xs)%nat /\ exists v, nth_error (sort xs) k = Some v.
Proof.
  exact (DP.upper_is_order_statistic sort rndQ (2 ^ 53) sort_sorted sort_perm rndQ_mono
           rndQ_int_nonneg pre q).
Qed.

Theorem quantile_none_iff_rndQ (pick : Qc -> Z) (d : dataset) (q : option Qc) :
  pick = qfloor \/ pick = qceil -> DP.DInv d -> (Z.of_nat (length (ds_values d)) - 1 <= 2 ^ 53)%Z ->
  (snd (d_quantile_at sort rndQ pick d q) = None <->
   q = None \/ exists q', q = Some q' /\ (q' < 0 \/ 1 < q' \/ ds_values d = [])).
Proof.
  exact (DP.quantile_none_iff sort rndQ (2 ^ 53) sort_sorted sort_perm rndQ_mono
           rndQ_int_nonneg pick d q).
Qed.
End DatasetRndQ.

Theorem quantile_position_bracket_rndQ (xs : list Qc) (q : Qc) :
  let r := q * (inj (Z.of_nat (length xs)) - 1) in
  xs <> [] -> 0 <= q -> q <= 1 -> (Z.of_nat (length xs) - 1 <= 2 ^ 53)%Z ->
  (0 <= qfloor r /\ qfloor r <= qfloor (rndQ r) /\ qfloor (rndQ r) <= qceil (rndQ r) /\
  qceil (rndQ r) <= qceil r /\ qceil r <= qfloor r + 1 /\ qceil r <= Z.of_nat (length xs) - 1)%Z.
Proof. exact (DP.quantile_position_bracket rndQ (2 ^ 53) rndQ_mono rndQ_int_nonneg xs q). Qed.

(* congruence: the rounded quantity is q * (count - 1), count a natural number *)
Definition dy_q (q : option Qc) : Prop := match q with Some q' => dyadic q' | None => True end.
Definition dy_op (o : DP.op) : Prop :=
  match o with DP.OLower q => dy_q q | DP.OUpper q => dy_q q | _ => True end.

Lemma rank_arg_cong (q : Qc) (n : nat) :
  (Z.of_nat n <= 2 ^ 1000)%Z -> dyadic q -> 0 <= q -> q <= 1 ->
  rnd64 (wmul q (wsub (inj (Z.of_nat n)) w1)) = rndQ (wmul q (wsub (inj (Z.of_nat n)) w1)).
Proof.
  intros Hn Dq Hq0 Hq1. apply rnd64_rndQ.
  - apply dyadic_mult; [exact Dq|]. apply dyadic_minus; [apply dyadic_inj|exact dyadic_w1].
  - apply (bK_in_range KB KB_1 KB_2). apply (bK_mul KB KB_1); [exact Hq0|exact Hq1|].
    pose proof (one_le_K KB KB_1) as HK.
    assert (H0 : 0 <= inj (Z.of_nat n)) by (apply inj_nonneg; lia).
    assert (H1 : inj (Z.of_nat n) <= inj KB) by (apply inj_mono; exact Hn).
    unfold bK. split; qlra.
Qed.

Lemma d_quantile_at_cong sort pick (xs : list Qc) (d : dataset) (q : option Qc) :
  DP.Rep xs d -> (Z.of_nat (length xs) <= 2 ^ 1000)%Z -> dy_q q ->
  d_quantile_at sort rnd64 pick d q = d_quantile_at sort rndQ pick d q.
Proof.
  intros HR Hn Dq. destruct q as [q|]; [|reflexivity]. cbn [dy_q] in Dq.
  unfold d_quantile_at.
  destruct (wltb q w0 || wltb w1 q || weqb (ds_count d) w0) eqn:E; [reflexivity|].
  apply orb_false_iff in E. destruct E as [E E3]. apply orb_false_iff in E. destruct E as [E1 E2].
  apply wltb_ge in E1. apply wltb_ge in E2. cbv zeta.
  assert (Hc : ds_count (d_sort sort d) = inj (Z.of_nat (length xs))).
  { unfold d_sort. destruct (ds_sorted d); exact (DP.Rep_count xs d HR). }
  rewrite Hc. rewrite (rank_arg_cong q (length xs) Hn Dq E1 E2). reflexivity.
Qed.

Theorem d_lower_rnd64_eq_rndQ sort (d : dataset) (q : option Qc) :
  DP.DInv d -> (Z.of_nat (length (ds_values d)) <= 2 ^ 1000)%Z -> dy_q q ->
  d_lower sort rnd64 d q = d_lower sort rndQ d q.
Proof.
  intros Hi Hn Dq. exact (d_quantile_at_cong sort qfloor _ d q (DP.Rep_self d Hi) Hn Dq).
Qed.
Theorem d_upper_rnd64_eq_rndQ sort (d : dataset) (q : option Qc) :
  DP.DInv d -> (Z.of_nat (length (ds_values d)) <= 2 ^ 1000)%Z -> dy_q q ->
  d_upper sort rnd64 d q = d_upper sort rndQ d q.
Proof.
  intros Hi Hn Dq. exact (d_quantile_at_cong sort qceil _ d q (DP.Rep_self d Hi) Hn Dq).
Qed.

Lemma step_cong sort (o : DP.op) (xs : list Qc) (d : dataset) :
  DP.Rep xs d -> (Z.of_nat (length xs) <= 2 ^ 1000)%Z -> dy_op o ->
  DP.step sort rnd64 o d = DP.step sort rndQ o d.
Proof.
  intros HR Hn Ho. destruct o as [v|q|q| |]; cbn [DP.step]; try reflexivity.
  - unfold d_lower. rewrite (d_quantile_at_cong sort qfloor xs d q HR Hn Ho). reflexivity.
  - unfold d_upper. rewrite (d_quantile_at_cong sort qceil xs d q HR Hn Ho). reflexivity.
Qed.

Section DatasetCong.
Variable sort : list Qc -> list Qc.
Hypothesis sort_sorted : forall l, Sorted Qcle (sort l).
Hypothesis sort_perm : forall l, Permutation l (sort l).

Lemma run_cong (ops : list DP.op) : forall (xs : list Qc) (d : dataset),
  DP.Rep xs d -> (Z.of_nat (length xs + length (DP.adds ops)) <= 2 ^ 1000)%Z -> Forall dy_op ops ->
  DP.run sort rnd64 ops d = DP.run sort rndQ ops d.
Proof.
  induction ops as [|o ops IH]; intros xs d HR Hn Hd; [reflexivity|].
  apply Forall_cons_iff in Hd. destruct Hd as [Ho Hd].
  change (DP.adds (o :: ops)) with (DP.adds1 o ++ DP.adds ops) in Hn. rewrite app_length in Hn.
  cbn [DP.run].
  assert (Hn1 : (Z.of_nat (length xs) <= 2 ^ 1000)%Z) by lia.
  rewrite (step_cong sort o xs d HR Hn1 Ho).
  destruct (DP.step_spec sort rndQ sort_sorted sort_perm o xs d HR) as [_ HR'].
  assert (Hn2 : (Z.of_nat (length (xs ++ DP.adds1 o) + length (DP.adds ops)) <= 2 ^ 1000)%Z)
    by (rewrite app_length; lia).
  rewrite (IH _ _ HR' Hn2 Hd). reflexivity.
Qed.

(* every history whose quantile arguments are binary64 values (or NaN) *)
Theorem run_rnd64_eq_rndQ (ops : list DP.op) :
  Forall dy_op ops -> (Z.of_nat (length (DP.adds ops)) <= 2 ^ 1000)%Z ->
  DP.run sort rnd64 ops d_new = DP.run sort rndQ ops d_new.
Proof.
  intros Hd Hn. apply (run_cong ops [] d_new DP.Rep_new); [|exact Hd]. cbn [length Nat.add]. exact Hn.
Qed.

Theorem queries_are_order_statistics_rnd64 (pre : list DP.op) (q : Qc) (s : list Qc) :
  let xs := DP.adds pre in
  let rho := rnd64 (q * (inj (Z.of_nat (length xs)) - 1)) in
  Forall dy_op pre -> dyadic q ->
  Sorted Qcle s -> Permutation xs s ->
  xs <> [] -> 0 <= q -> q <= 1 -> (Z.of_nat (length xs) - 1 <= 2 ^ 53)%Z ->
  (exists v, nth_error s (Z.to_nat (qfloor rho)) = Some v /\
     snd (DP.run sort rnd64 (pre ++ [DP.OLower (Some q)]) d_new) = snd (DP.run sort rnd64 pre d_new) ++ [Some v]) /\
  (exists v, nth_error s (Z.to_nat (qceil rho)) = Some v /\
     snd (DP.run sort rnd64 (pre ++ [DP.OUpper (Some q)]) d_new) = snd (DP.run sort rnd64 pre d_new) ++ [Some v]).
Proof.
  cbv zeta. intros Hd Dq Hs Hp Hne Hq0 Hq1 Hlen.
  pose proof pow53_le_pow1000 as Hpow.
  assert (Hn : (Z.of_nat (length (DP.adds pre)) <= 2 ^ 1000)%Z).
  { assert (2 ^ 53 + 1 <= 2 ^ 1000)%Z by (apply Z.leb_le; vm_compute; reflexivity). lia. }
  assert (Hq : forall o, dy_op o -> DP.adds1 o = [] ->
               Forall dy_op (pre ++ [o]) /\ (Z.of_nat (length (DP.adds (pre ++ [o]))) <= 2 ^ 1000)%Z).
  { intros o Ho Hadd. split.
    - apply Forall_app. split; [exact Hd|]. constructor; [exact Ho|constructor].
    - rewrite DP.adds_app. change (DP.adds [o]) with (DP.adds1 o ++ []). rewrite Hadd.
      rewrite app_nil_r. exact Hn. }
  destruct (Hq (DP.OLower (Some q)) Dq eq_refl) as [HdL HnL].
  destruct (Hq (DP.OUpper (Some q)) Dq eq_refl) as [HdU HnU].
  rewrite (run_rnd64_eq_rndQ _ HdL HnL), (run_rnd64_eq_rndQ _ HdU HnU), (run_rnd64_eq_rndQ _ Hd Hn).
  change (q * (inj (Z.of_nat (length (DP.adds pre))) - 1))
    with (wmul q (wsub (inj (Z.of_nat (length (DP.adds pre)))) w1)).
  rewrite (rank_arg_cong q (length (DP.adds pre)) Hn Dq Hq0 Hq1).
  exact (queries_are_order_statistics_rndQ sort sort_sorted sort_perm pre q s Hs Hp Hne Hq0 Hq1 Hlen).
Qed.
End DatasetCong.
