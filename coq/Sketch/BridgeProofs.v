(* Bridges between the proof layers (audit items W1, W8):
     A. mt_of_gmap: the mapping table of the executed sketch (Sketch/Sketch.v, [mtable]) built from
        the bit-exact float model of the index mappings (Mapping/Glue.v, [gmap] over the oracle
        record [libm]); its index is int32 and monotone on the indexable range, from the float-level
        theorems of Mapping/GlueProofs.v (linear, cubic: no premise on the oracle; logarithmic:
        monotone bounded math.Log).
     B. C01 end to end on the executed functions, binary64 rank arithmetic: plain_add_units then
        plain_quantile rnd64 answers within alpha of an order statistic.  The premises on the table
        are float-level only (what plain_add can pass to Index); the accuracy premise is required at
        the magnitudes that were added only.
     C. C02 on Layer B: any tree of sk_merge over sketches built by adds equals the flat sketch.
     D. constructor facts of the glue model (C13/C19).
   Technique for A/B: the Layer A/B theorems ask for "index monotone / int32 for every rational of
   the range", which no table that goes through q2f can offer outside the binary64 values (q2f of a
   non-dyadic rational is a double rounding).  The executed sketch only ever passes binary64 values
   to the table, so the table is replaced IN THE PROOF by [snap_mt mt] (index of the rational
   rounded up to binary64, [rupQ]): it satisfies the all-rationals premises as soon as [mt]
   satisfies them on binary64 values, and plain_add / plain_quantile cannot tell the difference. *)
From Coq Require Import Bool NArith ZArith QArith Qcanon Qcabs Qreals Reals Lra Lia List Permutation Sorted.
From Flocq Require Import Core.Core IEEE754.BinarySingleNaN IEEE754.Binary IEEE754.Bits.
From SK Require Import Base.Prelude Base.F64 Base.F64Proofs Mapping.Glue Mapping.GlueProofs.
From SK Require Import Spec.Bins Spec.BinsProofs Spec.ASketch Store.Any Store.AnyProofs Stat.Summary
                       Sketch.Sketch Sketch.SketchProofs Sketch.RankProofs Sketch.RefineProofs
                       Sketch.RoundingInstance.
Import ListNotations.
Local Open Scope Z_scope.

#[local] Existing Instance prec53_gt_0.
#[local] Existing Instance fexp64_valid.

(* ================================================================== *)
(** * 0. rounding a rational up to binary64; float round trips         *)
(* ================================================================== *)
(* specification operator (not executable, like rndQ): the least binary64 value >= q *)
Definition rupQ (q : Qc) : Qc :=
  Q2Qc (inject_Z (Zceil (scaled_mantissa radix2 (FLT_exp (-1074) 53) (qR q)))
        * pow2Q (cexp radix2 (FLT_exp (-1074) 53) (qR q))).

Lemma rupQ_R (q : Qc) : qR (rupQ q) = round radix2 (FLT_exp (-1074) 53) Zceil (qR q).
Proof. unfold rupQ. rewrite qR_Q2Qc, Q2R_mult, Q2R_inject_Z, Q2R_pow2Q. reflexivity. Qed.

Lemma rupQ_mono (x y : Qc) : (x <= y)%Qc -> (rupQ x <= rupQ y)%Qc.
Proof.
  intros H. apply qR_le. rewrite !rupQ_R. apply round_le.
  - exact fexp64_valid.
  - apply valid_rnd_UP.
  - apply qR_le. exact H.
Qed.

Lemma rupQ_ge (x : Qc) : (x <= rupQ x)%Qc.
Proof.
  apply qR_le. rewrite rupQ_R.
  destruct (round_UP_pt radix2 (FLT_exp (-1074) 53) (qR x)) as (_ & H & _). exact H.
Qed.

Lemma rupQ_format (x : Qc) : generic_format radix2 (FLT_exp (-1074) 53) (qR (rupQ x)).
Proof. rewrite rupQ_R. apply generic_format_round; [exact fexp64_valid|apply valid_rnd_UP]. Qed.

Lemma rupQ_le_format (x : Qc) (r : R) :
  generic_format radix2 (FLT_exp (-1074) 53) r -> (qR x <= r)%R -> (qR (rupQ x) <= r)%R.
Proof.
  intros Hf Hx. rewrite rupQ_R.
  destruct (round_UP_pt radix2 (FLT_exp (-1074) 53) (qR x)) as (_ & _ & H). apply H; assumption.
Qed.

Lemma rupQ_fix (x : Qc) : generic_format radix2 (FLT_exp (-1074) 53) (qR x) -> rupQ x = x.
Proof.
  intros Hf. apply qR_inj. rewrite rupQ_R. apply round_generic; [apply valid_rnd_UP|exact Hf].
Qed.

Lemma dyadic_rupQ (q : Qc) : dyadic (rupQ q).
Proof.
  unfold rupQ. rewrite Q2Qc_mult. apply dyadic_mult; [apply dyadic_of_Z|apply dyadic_pow2Q].
Qed.

(* every value f2q can return is a fixed point *)
Lemma rupQ_f2q (v : f64) : rupQ (f2q v) = f2q v.
Proof.
  destruct (is_finite 53 1024 v) eqn:HF.
  - apply rupQ_fix. rewrite (f2q_B2R v HF). apply generic_format_B2R.
  - rewrite (f2q_not_finite v HF). apply rupQ_fix. rewrite qR_w0. apply generic_format_0.
Qed.

Lemma f2q_lt_R (a b : f64) : fin a -> fin b -> ((f2q a < f2q b)%Qc <-> (BR a < BR b)%R).
Proof. intros Ha Hb. rewrite qR_lt, (f2q_B2R a Ha), (f2q_B2R b Hb). reflexivity. Qed.
Lemma f2q_le_R (a b : f64) : fin a -> fin b -> ((f2q a <= f2q b)%Qc <-> (BR a <= BR b)%R).
Proof. intros Ha Hb. rewrite qR_le, (f2q_B2R a Ha), (f2q_B2R b Hb). reflexivity. Qed.

(* a rational of the half-open range (lo, hi] between two finite floats rounds up to a finite
   float of the same range *)
Lemma rupQ_float (x : Qc) (lo hi : f64) :
  fin lo -> fin hi -> (f2q lo < x)%Qc -> (x <= f2q hi)%Qc ->
  exists u : f64, fin u /\ f2q u = rupQ x /\ (f2q lo < f2q u)%Qc /\ (f2q u <= f2q hi)%Qc.
Proof.
  intros Hlo Hhi Hx1 Hx2.
  assert (Hup : (qR (rupQ x) <= BR hi)%R).
  { apply rupQ_le_format; [apply generic_format_B2R|]. rewrite <- (f2q_B2R hi Hhi). apply qR_le. exact Hx2. }
  assert (Hdn : (BR lo < qR (rupQ x))%R).
  { rewrite <- (f2q_B2R lo Hlo). apply qR_lt. eapply Qclt_le_trans; [exact Hx1|apply rupQ_ge]. }
  assert (Hov : (Rabs (rndR (qR (rupQ x))) < bpow radix2 1024)%R).
  { rewrite (rndR_generic _ (rupQ_format x)).
    pose proof (abs_B2R_lt_emax 53 1024 lo) as A1. pose proof (abs_B2R_lt_emax 53 1024 hi) as A2.
    apply Rabs_def2 in A1. apply Rabs_def2 in A2. apply Rabs_def1; lra. }
  destruct (q2f_correct (rupQ x) (dyadic_rupQ x) Hov) as (HF & HR).
  rewrite (rndR_generic _ (rupQ_format x)) in HR.
  exists (q2f (rupQ x)).
  assert (E : f2q (q2f (rupQ x)) = rupQ x) by (apply qR_inj; rewrite (f2q_B2R _ HF); exact HR).
  split; [exact HF|]. split; [exact E|]. rewrite E. split.
  - apply qR_lt. rewrite (f2q_B2R lo Hlo). exact Hdn.
  - apply qR_le. rewrite (f2q_B2R hi Hhi). exact Hup.
Qed.

(* q2f after f2q is the identity on the finite non-zero floats (on the zeros it forgets the sign) *)
Lemma fin_strict (u : f64) : fin u -> BR u <> 0%R -> is_finite_strict 53 1024 u = true.
Proof. destruct u; intros H H0; try discriminate H; try reflexivity. exfalso. apply H0. reflexivity. Qed.

Lemma q2f_f2q (u : f64) : fin u -> BR u <> 0%R -> q2f (f2q u) = u.
Proof.
  intros Hu H0.
  assert (Hov : (Rabs (rndR (qR (f2q u))) < bpow radix2 1024)%R).
  { rewrite (f2q_B2R u Hu), (rndR_generic _ (BR_format u)). apply abs_B2R_lt_emax. }
  destruct (q2f_correct (f2q u) (dyadic_f2q u) Hov) as (HF & HR).
  rewrite (f2q_B2R u Hu), (rndR_generic _ (BR_format u)) in HR.
  apply B2R_inj; [|exact (fin_strict u Hu H0)|exact HR].
  apply fin_strict; [exact HF|]. rewrite HR. exact H0.
Qed.

(* absolute values *)
Lemma qR_abs (x : Qc) : qR (Qcabs x) = Rabs (qR x).
Proof.
  assert (Z0 : qR 0%Qc = 0%R) by exact qR_w0.
  destruct (Qclt_le_dec x 0) as [H|H].
  - rewrite (Qcabs_neg x) by (apply Qclt_le_weak; exact H). rewrite qR_opp.
    apply qR_lt in H. rewrite Z0 in H. rewrite Rabs_left by exact H. reflexivity.
  - rewrite (Qcabs_pos x H). apply qR_le in H. rewrite Z0 in H. rewrite Rabs_right by lra. reflexivity.
Qed.
Lemma fabs_fin (v : f64) : fin v -> fin (fabs v).
Proof. intros H. unfold fabs, b64_abs. rewrite is_finite_Babs. exact H. Qed.
Lemma fabs_BR (v : f64) : BR (fabs v) = Rabs (BR v).
Proof. unfold fabs, b64_abs. apply B2R_Babs. Qed.
Lemma f2q_fabs (v : f64) : fin v -> f2q (fabs v) = Qcabs (f2q v).
Proof.
  intros H. apply qR_inj. rewrite qR_abs, (f2q_B2R _ (fabs_fin v H)), (f2q_B2R v H). apply fabs_BR.
Qed.

(* ================================================================== *)
(** * 1. float-level conditions on a mapping table; the snapped table  *)
(* ================================================================== *)
(* what the executed sketch needs of its table, on binary64 values only:
   finite bounds, Min >= 0, int32 indexes on (Min, Max] *)
Definition mt_fok (mt : mtable) : Prop :=
  f_is_finite (mt_min mt) = true /\ f_is_finite (mt_max mt) = true /\ (w0 <= f2q (mt_min mt))%Qc /\
  forall u : f64, f_is_finite u = true -> (f2q (mt_min mt) < f2q u)%Qc -> (f2q u <= f2q (mt_max mt))%Qc ->
                  idx_ok (mt_index mt (f2q u)).
(* Index is non-decreasing on the binary64 values of (Min, Max] *)
Definition mt_fmono (mt : mtable) : Prop :=
  forall u w : f64, f_is_finite u = true -> f_is_finite w = true ->
  (f2q (mt_min mt) < f2q u)%Qc -> (f2q u <= f2q w)%Qc -> (f2q w <= f2q (mt_max mt))%Qc ->
  mt_index mt (f2q u) <= mt_index mt (f2q w).

Definition snap_mt (mt : mtable) : mtable :=
  {| mt_index := fun q => mt_index mt (rupQ q); mt_value := mt_value mt;
     mt_min := mt_min mt; mt_max := mt_max mt |}.

Lemma snap_mt_ok mt : mt_fok mt -> mt_ok (snap_mt mt).
Proof.
  intros (Hlo & Hhi & _ & Hidx). unfold mt_ok. cbn [snap_mt mt_min mt_max mt_index].
  split; [exact Hlo|]. split; [exact Hhi|]. intros x Hx1 Hx2.
  destruct (rupQ_float x _ _ Hlo Hhi Hx1 Hx2) as (u & Fu & Eu & U1 & U2).
  rewrite <- Eu. apply Hidx; assumption.
Qed.

Lemma snap_mt_mono mt :
  mt_fok mt -> mt_fmono mt ->
  forall x y : Qc, (f2q (mt_min (snap_mt mt)) < x)%Qc -> (x <= y)%Qc -> (y <= f2q (mt_max (snap_mt mt)))%Qc ->
  mt_index (snap_mt mt) x <= mt_index (snap_mt mt) y.
Proof.
  intros (Hlo & Hhi & _ & _) Hm x y Hx Hxy Hy. cbn [snap_mt mt_min mt_max mt_index] in *.
  assert (Hx2 : (x <= f2q (mt_max mt))%Qc) by (eapply Qcle_trans; eassumption).
  assert (Hy1 : (f2q (mt_min mt) < y)%Qc) by (eapply Qclt_le_trans; eassumption).
  destruct (rupQ_float x _ _ Hlo Hhi Hx Hx2) as (u & Fu & Eu & U1 & U2).
  destruct (rupQ_float y _ _ Hlo Hhi Hy1 Hy) as (w & Fw & Ew & W1 & W2).
  rewrite <- Eu, <- Ew. apply Hm; try assumption. rewrite Eu, Ew. apply rupQ_mono. exact Hxy.
Qed.

(* the executed functions cannot tell [snap_mt mt] from [mt] *)
Lemma plain_add_snap mt s v c : plain_add (snap_mt mt) s v c = plain_add mt s v c.
Proof. unfold plain_add. cbn [snap_mt mt_min mt_max mt_index]. rewrite !rupQ_f2q. reflexivity. Qed.
Lemma plain_add_units_snap mt vs : forall s, plain_add_units (snap_mt mt) s vs = plain_add_units mt s vs.
Proof.
  induction vs as [|v vs IH]; intros s; [reflexivity|]. cbn [plain_add_units]. rewrite plain_add_snap.
  destruct (plain_add mt s v f64_one); try reflexivity. apply IH.
Qed.
Lemma plain_quantile_snap rnd fx mt s q : plain_quantile rnd fx (snap_mt mt) s q = plain_quantile rnd fx mt s q.
Proof. reflexivity. Qed.

(* the representative of a binary64 value is the same under both tables *)
Lemma repr_snap mt (v : f64) : repr (am_of (snap_mt mt)) (f2q v) = repr (am_of mt) (f2q v).
Proof.
  unfold repr, am_of. cbn [am_min am_max am_index am_value snap_mt mt_min mt_max mt_index mt_value].
  rewrite rupQ_f2q.
  destruct (is_finite 53 1024 v) eqn:HF.
  - rewrite <- (f2q_fneg v HF), rupQ_f2q. reflexivity.
  - rewrite (f2q_not_finite v HF). replace (- w0)%Qc with (f2q f64_zero) by (rewrite f2q_f64_zero; reflexivity).
    rewrite rupQ_f2q. reflexivity.
Qed.

(* ================================================================== *)
(** * 2. B: C01 on the executed functions, binary64 rank arithmetic    *)
(* ================================================================== *)
(* accuracy of the representative of one value, from the accuracy of the table at its magnitude *)
Lemma repr_accuracy_at (m : amapping) (alpha x : Qc) :
  ((am_min m < Qcabs x)%Qc ->
   (Qcabs (am_value m (am_index m (Qcabs x)) - Qcabs x) <= alpha * Qcabs x)%Qc) ->
  ((Qcabs x <= am_min m)%Qc /\ repr m x = 0%Qc) \/
  (Qcabs (repr m x - x) <= alpha * Qcabs x)%Qc.
Proof.
  intros Hacc. unfold repr.
  destruct (wleb_spec (Qcabs x) (am_min m)) as [E|E]; [left; split; [exact E|reflexivity]|].
  right. assert (Hlt : (am_min m < Qcabs x)%Qc) by (apply Qcnot_le_lt; exact E).
  specialize (Hacc Hlt).
  destruct (wltb_spec 0%Qc x) as [E'|E'].
  - rewrite (Qcabs_pos x) in * by (apply Qclt_le_weak; exact E'). exact Hacc.
  - assert (H0 : (x <= 0)%Qc) by (apply Qcnot_lt_le; exact E').
    rewrite (Qcabs_neg x H0) in *.
    replace (- am_value m (am_index m (- x)) - x)%Qc
      with (- (am_value m (am_index m (- x)) - - x))%Qc by ring.
    rewrite Qcabs_opp. exact Hacc.
Qed.

(* C01 end to end: the finite values vs (all within the indexable range) are added with Add to a
   new sketch over non-collapsing stores of any kind; GetValueAtQuantile, with the binary64 rank
   arithmetic that is executed, answers y = the representative of the k-th smallest value, k
   between floor and ceiling of q (n - 1), and y is within alpha of that value (or the value is at
   most Min in magnitude and y = 0).  Premises on the table: float-level only ([mt_fok], [mt_fmono]);
   accuracy: at the magnitudes of the values that were added only. *)
Theorem executable_quantile_accuracy_rnd64
  (fx : fixes) (mt : mtable) (m : mapid) (kp kn : kind) (exact : bool)
  (vs : list f64) (ys : list Qc) (q : f64) (alpha : Qc) :
  mt_fok mt -> mt_fmono mt ->
  kind_limit kp = Exact -> kind_limit kn = Exact ->
  fD4 fx = true -> fD5 fx = true ->
  Forall (fun v => f_is_finite v = true) vs ->
  (forall v, In v vs -> (Qcabs (f2q v) <= f2q (mt_max mt))%Qc) ->
  Permutation (map f2q vs) ys -> Sorted Qcle ys -> vs <> [] -> Z.of_nat (length vs) <= 2 ^ 53 ->
  fle f64_zero q = true -> fle q f64_one = true ->
  (forall v, In v vs -> (f2q (mt_min mt) < Qcabs (f2q v))%Qc ->
     (Qcabs (mt_value mt (mt_index mt (Qcabs (f2q v))) - Qcabs (f2q v)) <= alpha * Qcabs (f2q v))%Qc) ->
  exists s, plain_add_units mt (sk_new m kp kn exact) vs = ROk s /\ SkInv s /\
  exists (k : nat) (s' : sketch) (y : Qc),
    cfloor (f2q q * inj (Z.of_nat (length vs) - 1)) <= Z.of_nat k <= cceil (f2q q * inj (Z.of_nat (length vs) - 1)) /\
    (k < length vs)%nat /\
    plain_quantile rnd64 fx mt s q = (s', ROk y) /\ SkInv s' /\ sk_abs s' = sk_abs s /\
    y = repr (am_of mt) (nth k ys w0) /\
    (((Qcabs (nth k ys w0) <= f2q (mt_min mt))%Qc /\ y = w0) \/
     (Qcabs (y - nth k ys w0) <= alpha * Qcabs (nth k ys w0))%Qc).
Proof.
  intros Hok Hmono Lp Ln F4 F5 Hf Hrange Hperm Hsort Hne HB Q0 Q1 Hacc.
  pose proof (snap_mt_ok mt Hok) as Hm. pose proof (snap_mt_mono mt Hok Hmono) as Hmono'.
  pose proof Hok as (_ & _ & Hmin & _).
  set (mt' := snap_mt mt) in *.
  assert (Hkp : kind_ok kp) by (destruct kp; try exact I; discriminate Lp).
  assert (Hkn : kind_ok kn) by (destruct kn; try exact I; discriminate Ln).
  set (s0 := sk_new m kp kn exact).
  pose proof (SkInv_new m kp kn exact Hkp Hkn) as I0. fold s0 in I0.
  assert (L0p : sk_lp s0 = Exact) by (unfold sk_lp, s0; cbn [sk_new sk_pos]; now rewrite st_limit_new).
  assert (L0n : sk_ln s0 = Exact) by (unfold sk_ln, s0; cbn [sk_new sk_neg]; now rewrite st_limit_new).
  destruct (a_add_list_total (am_of mt') (map (fun v => unit_item (f2q v)) vs) (sk_abs s0)) as (a & Ea).
  { intros it Hin. apply in_map_iff in Hin. destruct Hin as (v & <- & Hv). cbn [unit_item fst]. now apply Hrange. }
  destruct (plain_add_units_refines mt' vs s0 a Hm I0 L0p L0n Hf Ea) as (s & Es & Is & Ks & As).
  unfold mt' in Es. rewrite plain_add_units_snap in Es. fold mt' in Es.
  exists s. split; [exact Es|]. split; [exact Is|].
  pose proof (unit_interval_finite q Q0 Q1) as Fq.
  assert (Hq0 : (w0 <= f2q q)%Qc).
  { rewrite <- f2q_f64_zero. apply (fle_iff _ _ f64_zero_finite Fq). exact Q0. }
  assert (Hq1 : (f2q q <= w1)%Qc).
  { rewrite <- f2q_f64_one. apply (fle_iff _ _ Fq f64_one_finite). exact Q1. }
  unfold s0 in Ea. rewrite sk_abs_new, <- (map_map f2q unit_item) in Ea.
  assert (Hne' : map f2q vs <> []) by (destruct vs; [contradiction|discriminate]).
  assert (HB' : Z.of_nat (length (map f2q vs)) <= 2 ^ 53) by now rewrite map_length.
  assert (Hmono2 : forall x y, (am_min (am_of mt') < x)%Qc /\ (x <= y)%Qc -> (y <= am_max (am_of mt'))%Qc ->
                               am_index (am_of mt') x <= am_index (am_of mt') y).
  { intros x y [H1 H2] H3. apply Hmono'; assumption. }
  destruct (quantile_selects_order_statistic_rnd64_f2q (am_of mt') (map f2q vs) ys a q Hmin Hmono2
              Ea Hperm Hsort Hne' HB' Hq0 Hq1) as (k & K1 & K2 & K3).
  rewrite map_length in K1, K2. rewrite <- As in K3. change (nth k ys 0%Qc) with (nth k ys w0) in K3.
  assert (Hc : plain_count s <> w0).
  { rewrite (plain_count_refines s Is). exact (proj1 (a_quantile_cases rnd64 (am_of mt') _ _ _ K3)). }
  destruct (plain_quantile_refines rnd64 fx mt' s q F4 F5 Is Q0 Q1 Hc) as (s' & y & E & I' & _ & A' & M).
  rewrite K3 in M. subst y.
  (* the order statistic is one of the values added *)
  assert (Hin : In (nth k ys w0) (map f2q vs)).
  { apply (Permutation_in _ (Permutation_sym Hperm)). apply nth_In.
    rewrite <- (Permutation_length Hperm), map_length. exact K2. }
  apply in_map_iff in Hin. destruct Hin as (v & Ev & Hv).
  exists k, s', (repr (am_of mt) (nth k ys w0)).
  split; [exact K1|]. split; [exact K2|].
  split. { unfold mt' in E. rewrite plain_quantile_snap in E. rewrite E, <- Ev. unfold mt'. now rewrite repr_snap. }
  split; [exact I'|]. split; [exact A'|]. split; [reflexivity|].
  rewrite <- Ev.
  exact (repr_accuracy_at (am_of mt) alpha (f2q v) (Hacc v Hv)).
Qed.

(* ================================================================== *)
(** * 3. A: the mapping table of the glue model                        *)
(* ================================================================== *)
(* the model-side equivalent of the driver's [mtable_of] (model/driver.ml: the implementation's
   Index / Value / Min / MaxIndexableValue, each cross-checked against gm_index (q2f v),
   gm_value i, gm_min, gm_max) *)
Definition mt_of_gmap (L : libm) (m : gmap) : mtable :=
  {| mt_index := fun q => gm_index L m (q2f q); mt_value := fun i => f2q (gm_value L m i);
     mt_min := gm_min m; mt_max := gm_max m |}.

Lemma mt_of_gmap_index (L : libm) (m : gmap) (u : f64) :
  fin u -> BR u <> 0%R -> mt_index (mt_of_gmap L m) (f2q u) = gm_index L m u.
Proof. intros Hu H0. cbn [mt_of_gmap mt_index]. now rewrite q2f_f2q. Qed.

(* float-level premises on the glue model imply the float-level premises on its table *)
Lemma gmap_fok (L : libm) (m : gmap) :
  fin (gm_min m) -> fin (gm_max m) -> (0 <= BR (gm_min m))%R ->
  (forall u : f64, fin u -> (BR (gm_min m) < BR u)%R -> (BR u <= BR (gm_max m))%R -> idx_ok (gm_index L m u)) ->
  mt_fok (mt_of_gmap L m).
Proof.
  intros Hlo Hhi H0 Hidx. unfold mt_fok. cbn [mt_of_gmap mt_min mt_max].
  split; [exact Hlo|]. split; [exact Hhi|]. split.
  - rewrite <- f2q_f64_zero. apply (f2q_le_R f64_zero (gm_min m) f64_zero_finite Hlo).
    rewrite GlueProofs.f64_zero_eq. exact H0.
  - intros u Fu U1 U2. apply (f2q_lt_R _ _ Hlo Fu) in U1. apply (f2q_le_R _ _ Fu Hhi) in U2.
    change (idx_ok (mt_index (mt_of_gmap L m) (f2q u))). rewrite mt_of_gmap_index by (try assumption; lra).
    apply Hidx; assumption.
Qed.

Lemma gmap_fmono (L : libm) (m : gmap) :
  fin (gm_min m) -> fin (gm_max m) -> (0 <= BR (gm_min m))%R ->
  (forall u w : f64, fin u -> fin w -> (BR (gm_min m) < BR u)%R -> (BR u <= BR w)%R -> (BR w <= BR (gm_max m))%R ->
                     gm_index L m u <= gm_index L m w) ->
  mt_fmono (mt_of_gmap L m).
Proof.
  intros Hlo Hhi H0 Hm u w Fu Fw U1 UW W2. cbn [mt_of_gmap mt_min mt_max] in U1, W2.
  apply (f2q_lt_R _ _ Hlo Fu) in U1. apply (f2q_le_R _ _ Fu Fw) in UW. apply (f2q_le_R _ _ Fw Hhi) in W2.
  rewrite !mt_of_gmap_index by (try assumption; lra). apply Hm; assumption.
Qed.

(* ---- Index is an int32 when multiplier and offset are at most 2^20 in magnitude ---- *)
Lemma bpow20 : bpow radix2 20 = IZR 1048576.
Proof. reflexivity. Qed.

Lemma index_of_int32 (al mult off : f64) :
  fin al -> fin mult -> fin off ->
  (Rabs (BR al) <= 1026)%R -> (Rabs (BR mult) <= bpow radix2 20)%R -> (Rabs (BR off) <= bpow radix2 20)%R ->
  idx_ok (GlueProofs.index_of al mult off).
Proof.
  intros Fa Fm Fo Ba Bm Bo.
  assert (B40 : (bpow radix2 20 <= bpow radix2 40)%R) by (apply bpow_le; lia).
  assert (Ff : fin (fadd (fmul al mult) off)).
  { apply index_arg_fin; try assumption; lra. }
  destruct (fadd_fin_inv _ _ Ff) as (Fp & _).
  rewrite bpow20 in Bm, Bo.
  assert (B1 : (Rabs (BR al * BR mult) <= IZR 1075838976)%R).
  { rewrite Rabs_mult. replace (IZR 1075838976) with (1026 * IZR 1048576)%R by lra.
    apply Rmult_le_compat; try apply Rabs_pos; assumption. }
  assert (B2 : (Rabs (BR (fmul al mult)) <= IZR 1075838976)%R).
  { rewrite (fmul_R al mult Fp). apply rndR_abs_le; [lia|exact B1]. }
  assert (B3 : (Rabs (BR (fadd (fmul al mult) off)) <= IZR 1076887552)%R).
  { rewrite (fadd_R _ _ Fp Fo Ff). apply rndR_abs_le; [lia|].
    apply Rle_trans with (1 := Rabs_triang _ _). lra. }
  unfold GlueProofs.index_of. set (a := fadd (fmul al mult) off) in *.
  destruct (go_floor_R a Ff) as (G1 & G2). apply Rabs_le_inv in B3. clearbody a. clear B1 B2 B40.
  unfold idx_ok, MinInt32, MaxInt32.
  destruct (Rle_lt_dec 0 (BR a)) as [H|H].
  - rewrite (G1 H). pose proof (Zfloor_lb (BR a)) as L1. pose proof (Zfloor_ub (BR a)) as L2.
    split.
    + assert (-1 < Zfloor (BR a)); [|lia]. apply lt_IZR. lra.
    + apply le_IZR. lra.
  - rewrite (G2 H). pose proof (Zceil_ub (BR a)) as L1. pose proof (Zceil_lb (BR a)) as L2.
    split.
    + assert (-1076887553 < Zceil (BR a)); [|lia]. apply lt_IZR. lra.
    + assert (Zceil (BR a) < 1); [|lia]. apply lt_IZR. lra.
Qed.

(* Index is int32 and monotone on the positive normal floats *)
Definition gm_index_good (L : libm) (m : gmap) : Prop :=
  (forall x : f64, pos_normal x -> idx_ok (gm_index L m x)) /\
  (forall x y : f64, pos_normal x -> pos_normal y -> (BR x <= BR y)%R -> gm_index L m x <= gm_index L m y).
(* multiplier in [0, 2^20], |offset| <= 2^20 *)
Definition gm_small (m : gmap) : Prop :=
  fin (gm_mult m) /\ fin (gm_off m) /\ (0 <= BR (gm_mult m) <= bpow radix2 20)%R /\
  (Rabs (BR (gm_off m)) <= bpow radix2 20)%R.
(* finite bounds, MinIndexableValue a positive normal float *)
Definition gm_range_ok (m : gmap) : Prop :=
  fin (gm_min m) /\ fin (gm_max m) /\ (bpow radix2 (-1022) <= BR (gm_min m))%R.

Lemma gm_small_40 m : gm_small m ->
  (0 <= BR (gm_mult m) <= bpow radix2 40)%R /\ (Rabs (BR (gm_off m)) <= bpow radix2 40)%R.
Proof.
  intros (_ & _ & B1 & B2). assert (B40 : (bpow radix2 20 <= bpow radix2 40)%R) by (apply bpow_le; lia).
  split; lra.
Qed.

Theorem gm_index_good_lin (L : libm) (m : gmap) : gm_kind m = MLin -> gm_small m -> gm_index_good L m.
Proof.
  intros K Hs. pose proof (gm_small_40 m Hs) as (B1 & B2). destruct Hs as (Fm & Fo & S1 & S2). split.
  - intros x Hx. rewrite gm_index_eq, K. destruct (approx_log_lin_R L x Hx) as (Fa & _ & Ba).
    apply index_of_int32; try assumption. apply Rabs_le. lra.
  - intros x y Hx Hy Hxy. apply lin_index_mono_bounded; assumption.
Qed.

Theorem gm_index_good_cub (L : libm) (m : gmap) : gm_kind m = MCub -> gm_small m -> gm_index_good L m.
Proof.
  intros K Hs. pose proof (gm_small_40 m Hs) as (B1 & B2). destruct Hs as (Fm & Fo & S1 & S2). split.
  - intros x Hx. rewrite gm_index_eq, K. destruct (approx_log_cub_value L x Hx) as (Fa & _ & Ba).
    apply index_of_int32; try assumption. apply Rabs_le. lra.
  - intros x y Hx Hy Hxy. apply cub_index_mono_bounded; assumption.
Qed.

(* the logarithmic mapping calls math.Log: monotone, finite and of magnitude <= 1026 on the finite
   positive floats (|ln v| < 745 there) are premises on the oracle *)
Definition log_monotone (L : libm) : Prop :=
  forall a b : f64, fin a -> fin b -> (0 < BR a)%R -> (BR a <= BR b)%R -> (BR (l_log L a) <= BR (l_log L b))%R.
Definition log_bounded (L : libm) : Prop :=
  forall a : f64, fin a -> (0 < BR a)%R -> fin (l_log L a) /\ (Rabs (BR (l_log L a)) <= 1026)%R.

Theorem gm_index_good_log (L : libm) (m : gmap) :
  gm_kind m = MLog -> gm_small m -> log_monotone L -> log_bounded L -> gm_index_good L m.
Proof.
  intros K Hs Hmon Hbd. pose proof (gm_small_40 m Hs) as (B1 & B2). destruct Hs as (Fm & Fo & S1 & S2).
  assert (P : forall x, pos_normal x -> fin x /\ (0 < BR x)%R).
  { intros x (Fx & Hx). split; [exact Fx|]. pose proof (bpow_gt_0 radix2 (-1022)). lra. }
  split.
  - intros x Hx. destruct (P x Hx) as (Fx & X0). rewrite gm_index_eq, K. destruct (Hbd x Fx X0) as (Fa & Ba).
    apply index_of_int32; try assumption. apply Rabs_le. lra.
  - intros x y Hx Hy Hxy. destruct (P x Hx) as (Fx & X0). destruct (P y Hy) as (Fy & _).
    apply log_index_mono_bounded; assumption.
Qed.

(* A: the table of a glue mapping satisfies the float-level premises of section 2 *)
Theorem gmap_table_ok (L : libm) (m : gmap) :
  gm_range_ok m -> gm_index_good L m -> mt_fok (mt_of_gmap L m) /\ mt_fmono (mt_of_gmap L m).
Proof.
  intros (Hlo & Hhi & Hn) (Gi & Gm).
  assert (H0 : (0 <= BR (gm_min m))%R) by (pose proof (bpow_gt_0 radix2 (-1022)); lra).
  split.
  - apply gmap_fok; try assumption. intros u Fu U1 U2. apply Gi. split; [exact Fu|lra].
  - apply gmap_fmono; try assumption. intros u w Fu Fw U1 UW W2. apply Gm; [split; [exact Fu|lra]|split; [exact Fw|lra]|exact UW].
Qed.

(* B for the glue model.  What is NOT discharged (the libm accuracy gap): the alpha-accuracy of
   Value(Index(|v|)) w.r.t. |v| at the magnitudes added stays an explicit premise, stated on the
   float functions of the glue model. *)
Theorem gmap_quantile_accuracy_rnd64
  (L : libm) (g : gmap) (fx : fixes) (m : mapid) (kp kn : kind) (exact : bool)
  (vs : list f64) (ys : list Qc) (q : f64) (alpha : Qc) :
  gm_range_ok g -> gm_index_good L g ->
  kind_limit kp = Exact -> kind_limit kn = Exact ->
  fD4 fx = true -> fD5 fx = true ->
  Forall (fun v => f_is_finite v = true) vs ->
  (forall v, In v vs -> (Qcabs (f2q v) <= f2q (gm_max g))%Qc) ->
  Permutation (map f2q vs) ys -> Sorted Qcle ys -> vs <> [] -> Z.of_nat (length vs) <= 2 ^ 53 ->
  fle f64_zero q = true -> fle q f64_one = true ->
  (forall v, In v vs -> (f2q (gm_min g) < f2q (fabs v))%Qc ->
     (Qcabs (f2q (gm_value L g (gm_index L g (fabs v))) - f2q (fabs v)) <= alpha * f2q (fabs v))%Qc) ->
  let mt := mt_of_gmap L g in
  exists s, plain_add_units mt (sk_new m kp kn exact) vs = ROk s /\ SkInv s /\
  exists (k : nat) (s' : sketch) (y : Qc),
    cfloor (f2q q * inj (Z.of_nat (length vs) - 1)) <= Z.of_nat k <= cceil (f2q q * inj (Z.of_nat (length vs) - 1)) /\
    (k < length vs)%nat /\
    plain_quantile rnd64 fx mt s q = (s', ROk y) /\ SkInv s' /\ sk_abs s' = sk_abs s /\
    y = repr (am_of mt) (nth k ys w0) /\
    (((Qcabs (nth k ys w0) <= f2q (gm_min g))%Qc /\ y = w0) \/
     (Qcabs (y - nth k ys w0) <= alpha * Qcabs (nth k ys w0))%Qc).
Proof.
  intros Hr Hg Lp Ln F4 F5 Hf Hrange Hperm Hsort Hne HB Q0 Q1 Hacc mt.
  destruct (gmap_table_ok L g Hr Hg) as (Hok & Hmono).
  destruct Hr as (Hlo & Hhi & Hn).
  apply (executable_quantile_accuracy_rnd64 fx mt m kp kn exact vs ys q alpha Hok Hmono Lp Ln F4 F5 Hf Hrange
           Hperm Hsort Hne HB Q0 Q1).
  intros v Hv Hlt. rewrite Forall_forall in Hf. pose proof (Hf v Hv) as Fv.
  cbn [mt mt_of_gmap mt_min] in Hlt. rewrite <- (f2q_fabs v Fv) in *.
  pose proof (fabs_fin v Fv) as Fa.
  assert (Hnz : BR (fabs v) <> 0%R).
  { apply (f2q_lt_R _ _ Hlo Fa) in Hlt. pose proof (bpow_gt_0 radix2 (-1022)). lra. }
  unfold mt at 2. rewrite (mt_of_gmap_index L g (fabs v) Fa Hnz). cbn [mt mt_of_gmap mt_value].
  apply Hacc; assumption.
Qed.

(* ---- a decidable sufficient condition for gm_small /\ gm_range_ok ---- *)
Definition c_2p20 : f64 := fb 4697254411347427328.          (* 2^20 = 0x4130000000000000 *)
Definition gm_checkb (g : gmap) : bool :=
  f_is_finite (gm_mult g) && f_is_finite (gm_off g) && f_is_finite (gm_min g) && f_is_finite (gm_max g) &&
  fle f64_zero (gm_mult g) && fle (gm_mult g) c_2p20 && fle (fabs (gm_off g)) c_2p20 &&
  fle c_min_normal (gm_min g).

Lemma fle_R (a b : f64) : fin a -> fin b -> fle a b = true -> (BR a <= BR b)%R.
Proof. intros Ha Hb H. apply (f2q_le_R a b Ha Hb). apply (fle_iff a b Ha Hb). exact H. Qed.

Lemma c_2p20_fin : fin c_2p20. Proof. reflexivity. Qed.
Lemma c_2p20_BR : BR c_2p20 = bpow radix2 20.
Proof.
  unfold c_2p20. rewrite BR_fb. set (u := binary_float_of_bits_aux 52 11 _). vm_compute in u. subst u.
  unfold FF2R, F2R. cbn [Fnum Fexp cond_Zopp].
  change (IZR 4503599627370496) with (bpow radix2 52). rewrite <- bpow_plus. reflexivity.
Qed.
Lemma c_min_normal_fin : fin c_min_normal. Proof. reflexivity. Qed.
Lemma c_min_normal_BR : BR c_min_normal = bpow radix2 (-1022).
Proof.
  unfold c_min_normal. rewrite BR_fb. set (u := binary_float_of_bits_aux 52 11 _). vm_compute in u. subst u.
  unfold FF2R, F2R. cbn [Fnum Fexp cond_Zopp].
  change (IZR 4503599627370496) with (bpow radix2 52). rewrite <- bpow_plus. reflexivity.
Qed.

Lemma gm_checkb_ok (g : gmap) : gm_checkb g = true -> gm_small g /\ gm_range_ok g.
Proof.
  unfold gm_checkb. rewrite !andb_true_iff.
  intros (((((((Fm & Fo) & Flo) & Fhi) & M0) & M1) & O1) & N1).
  unfold f_is_finite in Fm, Fo, Flo, Fhi.
  apply (fle_R _ _ f64_zero_finite Fm) in M0. rewrite GlueProofs.f64_zero_eq in M0. cbn [B2R] in M0.
  apply (fle_R _ _ Fm c_2p20_fin) in M1. rewrite c_2p20_BR in M1.
  apply (fle_R _ _ (fabs_fin _ Fo) c_2p20_fin) in O1. rewrite c_2p20_BR, fabs_BR in O1.
  apply (fle_R _ _ c_min_normal_fin Flo) in N1. rewrite c_min_normal_BR in N1.
  split; [split; [exact Fm|split; [exact Fo|split; [split; assumption|exact O1]]]|].
  split; [exact Flo|split; [exact Fhi|exact N1]].
Qed.

(* ================================================================== *)
(** * 4. D: constructor facts of the glue model (C13 / C19)            *)
(* ================================================================== *)
(* the gamma the accuracy constructors hand to New*MappingWithGamma *)
Definition acc_gamma (L : libm) (k : mkind) (a : f64) : f64 :=
  let g0 := fdiv (fadd f64_one a) (fsub f64_one a) in
  match k with MLog => g0 | MLin => l_pow L g0 c_ln2 | MCub => l_pow L g0 c_10ln2_7 end.
Definition acc_off (L : libm) (k : mkind) (a : f64) : f64 :=
  match k with MLin => fdiv f64_one (l_log2 L (acc_gamma L k a)) | _ => f64_zero end.

Theorem with_gamma_none_iff (L : libm) (k : mkind) (g off : f64) :
  with_gamma L k g off = None <-> fle g f64_one = true.
Proof.
  unfold with_gamma. destruct (fle g f64_one); [tauto|].
  destruct k; split; intros H; discriminate H.
Qed.

Theorem with_gamma_fields (L : libm) (k : mkind) (g off : f64) (m : gmap) :
  with_gamma L k g off = Some m ->
  gm_kind m = k /\ gm_gamma m = g /\ gm_off m = off /\
  gm_mult m = fdiv f64_one (match k with MLog => l_log L g | _ => l_log2 L g end).
Proof.
  unfold with_gamma. destruct (fle g f64_one); [discriminate|].
  destruct k; intros H; injection H as <-; cbn; repeat split; reflexivity.
Qed.

Theorem with_accuracy_is_with_gamma (L : libm) (k : mkind) (a : f64) :
  with_accuracy L k a =
  if fle a f64_zero || fle f64_one a then None else with_gamma L k (acc_gamma L k a) (acc_off L k a).
Proof. unfold with_accuracy, acc_gamma, acc_off. destruct (fle a f64_zero || fle f64_one a); [reflexivity|]. destruct k; reflexivity. Qed.

(* refused exactly when the Go test  a <= 0 || a >= 1  fires, or the gamma computed from a is <= 1
   (e.g. a < 2^-54, where 1 + a and 1 - a both round to 1).  A NaN accuracy passes the first test. *)
Theorem with_accuracy_none_iff (L : libm) (k : mkind) (a : f64) :
  with_accuracy L k a = None <->
  (fle a f64_zero || fle f64_one a) = true \/ fle (acc_gamma L k a) f64_one = true.
Proof.
  rewrite with_accuracy_is_with_gamma. destruct (fle a f64_zero || fle f64_one a).
  - split; [intros _; left; reflexivity|reflexivity].
  - rewrite with_gamma_none_iff. split; [intros H; right; exact H|intros [H|H]; [discriminate H|exact H]].
Qed.
Corollary with_accuracy_refuses (L : libm) (k : mkind) (a : f64) :
  (fle a f64_zero || fle f64_one a) = true -> with_accuracy L k a = None.
Proof. intros H. apply with_accuracy_none_iff. left. exact H. Qed.

(* NaN: every comparison is false, so both tests let it through; the logarithmic constructor then
   builds a mapping whose gamma is NaN, whatever the oracle *)
Theorem with_accuracy_nan_accepted (L : libm) (a : f64) :
  f_is_nan a = true -> exists m, with_accuracy L MLog a = Some m /\ f_is_nan (gm_gamma m) = true.
Proof.
  intros H. destruct a as [s|s|s pl Hpl|s mx ex Hx]; try discriminate H.
  eexists. split; [vm_compute; reflexivity|reflexivity].
Qed.

(* C19: rebuilding from the gamma and offset a mapping reports gives the same mapping, field for
   field (multiplier and both bounds are recomputed by the same expressions) *)
Theorem with_accuracy_rebuild (L : libm) (k : mkind) (a : f64) (m : gmap) :
  with_accuracy L k a = Some m ->
  gm_kind m = k /\ with_gamma L k (gm_gamma m) (gm_off m) = Some m.
Proof.
  rewrite with_accuracy_is_with_gamma. destruct (fle a f64_zero || fle f64_one a); [discriminate|].
  intros H. destruct (with_gamma_fields L k _ _ m H) as (K & G & O & _). rewrite G, O. split; [exact K|exact H].
Qed.
Theorem with_gamma_rebuild (L : libm) (k : mkind) (g off : f64) (m : gmap) :
  with_gamma L k g off = Some m -> with_gamma L (gm_kind m) (gm_gamma m) (gm_off m) = Some m.
Proof. intros H. destruct (with_gamma_fields L k _ _ m H) as (K & G & O & _). rewrite K, G, O. exact H. Qed.
