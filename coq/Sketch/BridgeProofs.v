(* Bridges between the proof layers (audit items W1, W8):
     A. mt_of_gmap: the mapping table of the executed sketch (Sketch/Sketch.v, [mtable]) built from
        the bit-exact float model of the index mappings (Mapping/Glue.v, [gmap] over the oracle
        record [libm]); its index is int32 and monotone on the indexable range, from the float-level
        theorems of Mapping/GlueProofs.v (linear, cubic: no premise on the oracle; logarithmic:
        monotone bounded math.Log).
     B. C01 end to end on the executed functions, binary64 rank arithmetic: plain_add_units then
        plain_quantile rnd64 answers within alpha of an order statistic.  The premises on the table
        are float-level only (what plain_add can pass to Index); the accuracy premise is required at
        the magnitudes that were added only.
     C. C02 on Layer B: any tree of sk_merge over sketches built by adds equals the flat sketch.
     D. constructor facts of the glue model (C13/C19).
   Technique for A/B: the Layer A/B theorems ask for "index monotone / int32 for every rational of
   the range", which no table that goes through q2f can offer outside the binary64 values (q2f of a
   non-dyadic rational is a double rounding).  The executed sketch only ever passes binary64 values
   to the table, so the table is replaced IN THE PROOF by [snap_mt mt] (index of the rational
   rounded up to binary64, [rupQ]): it satisfies the all-rationals premises as soon as [mt]
   satisfies them on binary64 values, and plain_add / plain_quantile cannot tell the difference. *)
From Coq Require Import Bool NArith ZArith QArith Qcanon Qcabs Qreals Reals Lra Lia List Permutation Sorted.
From Flocq Require Import Core.Core IEEE754.BinarySingleNaN IEEE754.Binary IEEE754.Bits.
From SK Require Import Base.Prelude Base.F64 Base.F64Proofs Mapping.Glue Mapping.GlueProofs.
From SK Require Import Spec.Bins Spec.BinsProofs Spec.ASketch Store.Any Store.AnyProofs Stat.Summary
                       Sketch.Sketch Sketch.SketchProofs Sketch.RankProofs Sketch.RefineProofs
                       Sketch.RoundingInstance.
Import ListNotations.
Local Open Scope Z_scope.

#[local] Existing Instance prec53_gt_0.
#[local] Existing Instance fexp64_valid.

(* ================================================================== *)
(** * 0. rounding a rational up to binary64; float round trips         *)
(* ================================================================== *)
(* specification operator (not executable, like rndQ): the least binary64 value >= q *)
Definition rupQ (q : Qc) : Qc :=
  Q2Qc (inject_Z (Zceil (scaled_mantissa radix2 (FLT_exp (-1074) 53) (qR q)))
        * pow2Q (cexp radix2 (FLT_exp (-1074) 53) (qR q))).

Lemma rupQ_R (q : Qc) : qR (rupQ q) = round radix2 (FLT_exp (-1074) 53) Zceil (qR q).
Proof. unfold rupQ. rewrite qR_Q2Qc, Q2R_mult, Q2R_inject_Z, Q2R_pow2Q. reflexivity. Qed.

Lemma rupQ_mono (x y : Qc) : (x <= y)%Qc -> (rupQ x <= rupQ y)%Qc.
Proof.
  intros H. apply qR_le. rewrite !rupQ_R. apply round_le.
  - exact fexp64_valid.
  - apply valid_rnd_UP.
  - apply qR_le. exact H.
Qed.

Lemma rupQ_ge (x : Qc) : (x <= rupQ x)%Qc.
Proof.
  apply qR_le. rewrite rupQ_R.
  destruct (round_UP_pt radix2 (FLT_exp (-1074) 53) (qR x)) as (_ & H & _). exact H.
Qed.

Lemma rupQ_format (x : Qc) : generic_format radix2 (FLT_exp (-1074) 53) (qR (rupQ x)).
Proof. rewrite rupQ_R. apply generic_format_round; [exact fexp64_valid|apply valid_rnd_UP]. Qed.

Lemma rupQ_le_format (x : Qc) (r : R) :
  generic_format radix2 (FLT_exp (-1074) 53) r -> (qR x <= r)%R -> (qR (rupQ x) <= r)%R.
Proof.
  intros Hf Hx. rewrite rupQ_R.
  destruct (round_UP_pt radix2 (FLT_exp (-1074) 53) (qR x)) as (_ & _ & H). apply H; assumption.
Qed.

Lemma rupQ_fix (x : Qc) : generic_format radix2 (FLT_exp (-1074) 53) (qR x) -> rupQ x = x.
Proof.
  intros Hf. apply qR_inj. rewrite rupQ_R. apply round_generic; [apply valid_rnd_UP|exact Hf].
Qed.

Lemma dyadic_rupQ (q : Qc) : dyadic (rupQ q).
Proof.
  unfold rupQ. rewrite Q2Qc_mult. apply dyadic_mult; [apply dyadic_of_Z|apply dyadic_pow2Q].
Qed.

(* every value f2q can return is a fixed point *)
Lemma rupQ_f2q (v : f64) : rupQ (f2q v) = f2q v.
Proof.
  destruct (is_finite 53 1024 v) eqn:HF.
  - apply rupQ_fix. rewrite (f2q_B2R v HF). apply generic_format_B2R.
  - rewrite (f2q_not_finite v HF). apply rupQ_fix. rewrite qR_w0. apply generic_format_0.
Qed.

Lemma f2q_lt_R (a b : f64) : fin a -> fin b -> ((f2q a < f2q b)%Qc <-> (BR a < BR b)%R).
Proof. intros Ha Hb. rewrite qR_lt, (f2q_B2R a Ha), (f2q_B2R b Hb). reflexivity. Qed.
Lemma f2q_le_R (a b : f64) : fin a -> fin b -> ((f2q a <= f2q b)%Qc <-> (BR a <= BR b)%R).
Proof. intros Ha Hb. rewrite qR_le, (f2q_B2R a Ha), (f2q_B2R b Hb). reflexivity. Qed.

(* a rational of the half-open range (lo, hi] between two finite floats rounds up to a finite
   float of the same range *)
Lemma rupQ_float (x : Qc) (lo hi : f64) :
  fin lo -> fin hi -> (f2q lo < x)%Qc -> (x <= f2q hi)%Qc ->
  exists u : f64, fin u /\ f2q u = rupQ x /\ (f2q lo < f2q u)%Qc /\ (f2q u <= f2q hi)%Qc.
Proof.
  intros Hlo Hhi Hx1 Hx2.
  assert (Hup : (qR (rupQ x) <= BR hi)%R).
  { apply rupQ_le_format; [apply generic_format_B2R|]. rewrite <- (f2q_B2R hi Hhi). apply qR_le. exact Hx2. }
  assert (Hdn : (BR lo < qR (rupQ x))%R).
  { rewrite <- (f2q_B2R lo Hlo). apply qR_lt. eapply Qclt_le_trans; [exact Hx1|apply rupQ_ge]. }
  assert (Hov : (Rabs (rndR (qR (rupQ x))) < bpow radix2 1024)%R).
  { rewrite (rndR_generic _ (rupQ_format x)).
    pose proof (abs_B2R_lt_emax 53 1024 lo) as A1. pose proof (abs_B2R_lt_emax 53 1024 hi) as A2.
    apply Rabs_def2 in A1. apply Rabs_def2 in A2. apply Rabs_def1; lra. }
  destruct (q2f_correct (rupQ x) (dyadic_rupQ x) Hov) as (HF & HR).
  rewrite (rndR_generic _ (rupQ_format x)) in HR.
  exists (q2f (rupQ x)).
  assert (E : f2q (q2f (rupQ x)) = rupQ x) by (apply qR_inj; rewrite (f2q_B2R _ HF); exact HR).
  split; [exact HF|]. split; [exact E|]. rewrite E. split.
  - apply qR_lt. rewrite (f2q_B2R lo Hlo). exact Hdn.
  - apply qR_le. rewrite (f2q_B2R hi Hhi). exact Hup.
Qed.

(* q2f after f2q is the identity on the finite non-zero floats (on the zeros it forgets the sign) *)
Lemma fin_strict (u : f64) : fin u -> BR u <> 0%R -> is_finite_strict 53 1024 u = true.
Proof. destruct u; intros H H0; try discriminate H; try reflexivity. exfalso. apply H0. reflexivity. Qed.

Lemma q2f_f2q (u : f64) : fin u -> BR u <> 0%R -> q2f (f2q u) = u.
Proof.
  intros Hu H0.
  assert (Hov : (Rabs (rndR (qR (f2q u))) < bpow radix2 1024)%R).
  { rewrite (f2q_B2R u Hu), (rndR_generic _ (BR_format u)). apply abs_B2R_lt_emax. }
  destruct (q2f_correct (f2q u) (dyadic_f2q u) Hov) as (HF & HR).
  rewrite (f2q_B2R u Hu), (rndR_generic _ (BR_format u)) in HR.
  apply B2R_inj; [|exact (fin_strict u Hu H0)|exact HR].
  apply fin_strict; [exact HF|]. rewrite HR. exact H0.
Qed.

(* absolute values *)
Lemma qR_abs (x : Qc) : qR (Qcabs x) = Rabs (qR x).
Proof.
  assert (Z0 : qR 0%Qc = 0%R) by exact qR_w0.
  destruct (Qclt_le_dec x 0) as [H|H].
  - rewrite (Qcabs_neg x) by (apply Qclt_le_weak; exact H). rewrite qR_opp.
    apply qR_lt in H. rewrite Z0 in H. rewrite Rabs_left by exact H. reflexivity.
  - rewrite (Qcabs_pos x H). apply qR_le in H. rewrite Z0 in H. rewrite Rabs_right by lra. reflexivity.
Qed.
Lemma fabs_fin (v : f64) : fin v -> fin (fabs v).
Proof. intros H. unfold fabs, b64_abs. rewrite is_finite_Babs. exact H. Qed.
Lemma fabs_BR (v : f64) : BR (fabs v) = Rabs (BR v).
Proof. unfold fabs, b64_abs. apply B2R_Babs. Qed.
Lemma f2q_fabs (v : f64) : fin v -> f2q (fabs v) = Qcabs (f2q v).
Proof.
  intros H. apply qR_inj. rewrite qR_abs, (f2q_B2R _ (fabs_fin v H)), (f2q_B2R v H). apply fabs_BR.
Qed.

(* ================================================================== *)
(** * 1. float-level conditions on a mapping table; the snapped table  *)
(* ================================================================== *)
(* what the executed sketch needs of its table, on binary64 values only:
   finite bounds, Min >= 0, int32 indexes on (Min, Max] *)
Definition mt_fok (mt : mtable) : Prop :=
  f_is_finite (mt_min mt) = true /\ f_is_finite (mt_max mt) = true /\ (w0 <= f2q (mt_min mt))%Qc /\
  forall u : f64, f_is_finite u = true -> (f2q (mt_min mt) < f2q u)%Qc -> (f2q u <= f2q (mt_max mt))%Qc ->
                  idx_ok (mt_index mt (f2q u)).
(* Index is non-decreasing on the binary64 values of (Min, Max] *)
Definition mt_fmono (mt : mtable) : Prop :=
  forall u w : f64, f_is_finite u = true -> f_is_finite w = true ->
  (f2q (mt_min mt) < f2q u)%Qc -> (f2q u <= f2q w)%Qc -> (f2q w <= f2q (mt_max mt))%Qc ->
  mt_index mt (f2q u) <= mt_index mt (f2q w).

Definition snap_mt (mt : mtable) : mtable :=
  {| mt_index := fun q => mt_index mt (rupQ q); mt_value := mt_value mt;
     mt_min := mt_min mt; mt_max := mt_max mt |}.

Lemma snap_mt_ok mt : mt_fok mt -> mt_ok (snap_mt mt).
Proof.
  intros (Hlo & Hhi & _ & Hidx). unfold mt_ok. cbn [snap_mt mt_min mt_max mt_index].
  split; [exact Hlo|]. split; [exact Hhi|]. intros x Hx1 Hx2.
  destruct (rupQ_float x _ _ Hlo Hhi Hx1 Hx2) as (u & Fu & Eu & U1 & U2).
  rewrite <- Eu. apply Hidx; assumption.
Qed.

Lemma snap_mt_mono mt :
  mt_fok mt -> mt_fmono mt ->
  forall x y : Qc, (f2q (mt_min (snap_mt mt)) < x)%Qc -> (x <= y)%Qc -> (y <= f2q (mt_max (snap_mt mt)))%Qc ->
  mt_index (snap_mt mt) x <= mt_index (snap_mt mt) y.
Proof.
  intros (Hlo & Hhi & _ & _) Hm x y Hx Hxy Hy. cbn [snap_mt mt_min mt_max mt_index] in *.
  assert (Hx2 : (x <= f2q (mt_max mt))%Qc) by (eapply Qcle_trans; eassumption).
  assert (Hy1 : (f2q (mt_min mt) < y)%Qc) by (eapply Qclt_le_trans; eassumption).
  destruct (rupQ_float x _ _ Hlo Hhi Hx Hx2) as (u & Fu & Eu & U1 & U2).
  destruct (rupQ_float y _ _ Hlo Hhi Hy1 Hy) as (w & Fw & Ew & W1 & W2).
  rewrite <- Eu, <- Ew. apply Hm; try assumption. rewrite Eu, Ew. apply rupQ_mono. exact Hxy.
Qed.

(* the executed functions cannot tell [snap_mt mt] from [mt] *)
Lemma plain_add_snap mt s v c : plain_add (snap_mt mt) s v c = plain_add mt s v c.
Proof. unfold plain_add. cbn [snap_mt mt_min mt_max mt_index]. rewrite !rupQ_f2q. reflexivity. Qed.
Lemma plain_add_units_snap mt vs : forall s, plain_add_units (snap_mt mt) s vs = plain_add_units mt s vs.
Proof.
  induction vs as [|v vs IH]; intros s; [reflexivity|]. cbn [plain_add_units]. rewrite plain_add_snap.
  destruct (plain_add mt s v f64_one); try reflexivity. apply IH.
Qed.
Lemma plain_quantile_snap rnd fx mt s q : plain_quantile rnd fx (snap_mt mt) s q = plain_quantile rnd fx mt s q.
Proof. reflexivity. Qed.

(* the representative of a binary64 value is the same under both tables *)
Lemma repr_snap mt (v : f64) : repr (am_of (snap_mt mt)) (f2q v) = repr (am_of mt) (f2q v).
Proof.
  unfold repr, am_of. cbn [am_min am_max am_index am_value snap_mt mt_min mt_max mt_index mt_value].
  rewrite rupQ_f2q.
  destruct (is_finite 53 1024 v) eqn:HF.
  - rewrite <- (f2q_fneg v HF), rupQ_f2q. reflexivity.
  - rewrite (f2q_not_finite v HF). replace (- w0)%Qc with (f2q f64_zero) by (rewrite f2q_f64_zero; reflexivity).
    rewrite rupQ_f2q. reflexivity.
Qed.

(* ================================================================== *)
(** * 2. B: C01 on the executed functions, binary64 rank arithmetic    *)
(* ================================================================== *)
(* accuracy of the representative of one value, from the accuracy of the table at its magnitude *)
Lemma repr_accuracy_at (m : amapping) (alpha x : Qc) :
  ((am_min m < Qcabs x)%Qc ->
   (Qcabs (am_value m (am_index m (Qcabs x)) - Qcabs x) <= alpha * Qcabs x)%Qc) ->
  ((Qcabs x <= am_min m)%Qc /\ repr m x = 0%Qc) \/
  (Qcabs (repr m x - x) <= alpha * Qcabs x)%Qc.
Proof.
  intros Hacc. unfold repr.
  destruct (wleb_spec (Qcabs x) (am_min m)) as [E|E]; [left; split; [exact E|reflexivity]|].
  right. assert (Hlt : (am_min m < Qcabs x)%Qc) by (apply Qcnot_le_lt; exact E).
  specialize (Hacc Hlt).
  destruct (wltb_spec 0%Qc x) as [E'|E'].
  - rewrite (Qcabs_pos x) in * by (apply Qclt_le_weak; exact E'). exact Hacc.
  - assert (H0 : (x <= 0)%Qc) by (apply Qcnot_lt_le; exact E').
    rewrite (Qcabs_neg x H0) in *.
    replace (- am_value m (am_index m (- x)) - x)%Qc
      with (- (am_value m (am_index m (- x)) - - x))%Qc by ring.
    rewrite Qcabs_opp. exact Hacc.
Qed.

(* C01 end to end: the finite values vs (all within the indexable range) are added with Add to a
   new sketch over non-collapsing stores of any kind; GetValueAtQuantile, with the binary64 rank
   arithmetic that is executed, answers y = the representative of the k-th smallest value, k
   between floor and ceiling of q (n - 1), and y is within alpha of that value (or the value is at
   most Min in magnitude and y = 0).  Premises on the table: float-level only ([mt_fok], [mt_fmono]);
   accuracy: at the magnitudes of the values that were added only. *)
Theorem executable_quantile_accuracy_rnd64
  (fx : fixes) (mt : mtable) (m : mapid) (kp kn : kind) (exact : bool)
  (vs : list f64) (ys : list Qc) (q : f64) (alpha : Qc) :
  mt_fok mt -> mt_fmono mt ->
  kind_limit kp = Exact -> kind_limit kn = Exact ->
  fD4 fx = true -> fD5 fx = true ->
  Forall (fun v => f_is_finite v = true) vs ->
  (forall v, In v vs -> (Qcabs (f2q v) <= f2q (mt_max mt))%Qc) ->
  Permutation (map f2q vs) ys -> Sorted Qcle ys -> vs <> [] -> Z.of_nat (length vs) <= 2 ^ 53 ->
  fle f64_zero q = true -> fle q f64_one = true ->
  (forall v, In v vs -> (f2q (mt_min mt) < Qcabs (f2q v))%Qc ->
     (Qcabs (mt_value mt (mt_index mt (Qcabs (f2q v))) - Qcabs (f2q v)) <= alpha * Qcabs (f2q v))%Qc) ->
  exists s, plain_add_units mt (sk_new m kp kn exact) vs = ROk s /\ SkInv s /\
  exists (k : nat) (s' : sketch) (y : Qc),
    cfloor (f2q q * inj (Z.of_nat (length vs) - 1)) <= Z.of_nat k <= cceil (f2q q * inj (Z.of_nat (length vs) - 1)) /\
    (k < length vs)%nat /\
    plain_quantile rnd64 fx mt s q = (s', ROk y) /\ SkInv s' /\ sk_abs s' = sk_abs s /\
    y = repr (am_of mt) (nth k ys w0) /\
    (((Qcabs (nth k ys w0) <= f2q (mt_min mt))%Qc /\ y = w0) \/
     (Qcabs (y - nth k ys w0) <= alpha * Qcabs (nth k ys w0))%Qc).
Proof.
  intros Hok Hmono Lp Ln F4 F5 Hf Hrange Hperm Hsort Hne HB Q0 Q1 Hacc.
  pose proof (snap_mt_ok mt Hok) as Hm. pose proof (snap_mt_mono mt Hok Hmono) as Hmono'.
  pose proof Hok as (_ & _ & Hmin & _).
  set (mt' := snap_mt mt) in *.
  assert (Hkp : kind_ok kp) by (destruct kp; try exact I; discriminate Lp).
  assert (Hkn : kind_ok kn) by (destruct kn; try exact I; discriminate Ln).
  set (s0 := sk_new m kp kn exact).
  pose proof (SkInv_new m kp kn exact Hkp Hkn) as I0. fold s0 in I0.
  assert (L0p : sk_lp s0 = Exact) by (unfold sk_lp, s0; cbn [sk_new sk_pos]; now rewrite st_limit_new).
  assert (L0n : sk_ln s0 = Exact) by (unfold sk_ln, s0; cbn [sk_new sk_neg]; now rewrite st_limit_new).
  destruct (a_add_list_total (am_of mt') (map (fun v => unit_item (f2q v)) vs) (sk_abs s0)) as (a & Ea).
  { intros it Hin. apply in_map_iff in Hin. destruct Hin as (v & <- & Hv). cbn [unit_item fst]. now apply Hrange. }
  destruct (plain_add_units_refines mt' vs s0 a Hm I0 L0p L0n Hf Ea) as (s & Es & Is & Ks & As).
  unfold mt' in Es. rewrite plain_add_units_snap in Es. fold mt' in Es.
  exists s. split; [exact Es|]. split; [exact Is|].
  pose proof (unit_interval_finite q Q0 Q1) as Fq.
  assert (Hq0 : (w0 <= f2q q)%Qc).
  { rewrite <- f2q_f64_zero. apply (fle_iff _ _ f64_zero_finite Fq). exact Q0. }
  assert (Hq1 : (f2q q <= w1)%Qc).
  { rewrite <- f2q_f64_one. apply (fle_iff _ _ Fq f64_one_finite). exact Q1. }
  unfold s0 in Ea. rewrite sk_abs_new, <- (map_map f2q unit_item) in Ea.
  assert (Hne' : map f2q vs <> []) by (destruct vs; [contradiction|discriminate]).
  assert (HB' : Z.of_nat (length (map f2q vs)) <= 2 ^ 53) by now rewrite map_length.
  assert (Hmono2 : forall x y, (am_min (am_of mt') < x)%Qc /\ (x <= y)%Qc -> (y <= am_max (am_of mt'))%Qc ->
                               am_index (am_of mt') x <= am_index (am_of mt') y).
  { intros x y [H1 H2] H3. apply Hmono'; assumption. }
  destruct (quantile_selects_order_statistic_rnd64_f2q (am_of mt') (map f2q vs) ys a q Hmin Hmono2
              Ea Hperm Hsort Hne' HB' Hq0 Hq1) as (k & K1 & K2 & K3).
  rewrite map_length in K1, K2. rewrite <- As in K3. change (nth k ys 0%Qc) with (nth k ys w0) in K3.
  assert (Hc : plain_count s <> w0).
  { rewrite (plain_count_refines s Is). exact (proj1 (a_quantile_cases rnd64 (am_of mt') _ _ _ K3)). }
  destruct (plain_quantile_refines rnd64 fx mt' s q F4 F5 Is Q0 Q1 Hc) as (s' & y & E & I' & _ & A' & M).
  rewrite K3 in M. subst y.
  (* the order statistic is one of the values added *)
  assert (Hin : In (nth k ys w0) (map f2q vs)).
  { apply (Permutation_in _ (Permutation_sym Hperm)). apply nth_In.
    rewrite <- (Permutation_length Hperm), map_length. exact K2. }
  apply in_map_iff in Hin. destruct Hin as (v & Ev & Hv).
  exists k, s', (repr (am_of mt) (nth k ys w0)).
  split; [exact K1|]. split; [exact K2|].
  split. { unfold mt' in E. rewrite plain_quantile_snap in E. rewrite E, <- Ev. unfold mt'. now rewrite repr_snap. }
  split; [exact I'|]. split; [exact A'|]. split; [reflexivity|].
  rewrite <- Ev.
  exact (repr_accuracy_at (am_of mt) alpha (f2q v) (Hacc v Hv)).
Qed.

(* ================================================================== *)
(** * 3. A: the mapping table of the glue model                        *)
(* ================================================================== *)
(* the model-side equivalent of the driver's [mtable_of] (model/driver.ml: the implementation's
   Index / Value / Min / MaxIndexableValue, each cross-checked against gm_index (q2f v),
   gm_value i, gm_min, gm_max) *)
Definition mt_of_gmap (L : libm) (m : gmap) : mtable :=
  {| mt_index := fun q => gm_index L m (q2f q); mt_value := fun i => f2q (gm_value L m i);
     mt_min := gm_min m; mt_max := gm_max m |}.

Lemma mt_of_gmap_index (L : libm) (m : gmap) (u : f64) :
  fin u -> BR u <> 0%R -> mt_index (mt_of_gmap L m) (f2q u) = gm_index L m u.
Proof. intros Hu H0. cbn [mt_of_gmap mt_index]. now rewrite q2f_f2q. Qed.

(* float-level premises on the glue model imply the float-level premises on its table *)
Lemma gmap_fok (L : libm) (m : gmap) :
  fin (gm_min m) -> fin (gm_max m) -> (0 <= BR (gm_min m))%R ->
  (forall u : f64, fin u -> (BR (gm_min m) < BR u)%R -> (BR u <= BR (gm_max m))%R -> idx_ok (gm_index L m u)) ->
  mt_fok (mt_of_gmap L m).
Proof.
  intros Hlo Hhi H0 Hidx. unfold mt_fok. cbn [mt_of_gmap mt_min mt_max].
  split; [exact Hlo|]. split; [exact Hhi|]. split.
  - rewrite <- f2q_f64_zero. apply (f2q_le_R f64_zero (gm_min m) f64_zero_finite Hlo).
    rewrite GlueProofs.f64_zero_eq. exact H0.
  - intros u Fu U1 U2. apply (f2q_lt_R _ _ Hlo Fu) in U1. apply (f2q_le_R _ _ Fu Hhi) in U2.
    change (idx_ok (mt_index (mt_of_gmap L m) (f2q u))). rewrite mt_of_gmap_index by (try assumption; lra).
    apply Hidx; assumption.
Qed.

Lemma gmap_fmono (L : libm) (m : gmap) :
  fin (gm_min m) -> fin (gm_max m) -> (0 <= BR (gm_min m))%R ->
  (forall u w : f64, fin u -> fin w -> (BR (gm_min m) < BR u)%R -> (BR u <= BR w)%R -> (BR w <= BR (gm_max m))%R ->
                     gm_index L m u <= gm_index L m w) ->
  mt_fmono (mt_of_gmap L m).
Proof.
  intros Hlo Hhi H0 Hm u w Fu Fw U1 UW W2. cbn [mt_of_gmap mt_min mt_max] in U1, W2.
  apply (f2q_lt_R _ _ Hlo Fu) in U1. apply (f2q_le_R _ _ Fu Fw) in UW. apply (f2q_le_R _ _ Fw Hhi) in W2.
  rewrite !mt_of_gmap_index by (try assumption; lra). apply Hm; assumption.
Qed.

(* ---- Index is an int32 when multiplier and offset are at most 2^20 in magnitude ---- *)
Lemma bpow20 : bpow radix2 20 = IZR 1048576.
Proof. reflexivity. Qed.

Lemma index_of_int32 (al mult off : f64) :
  fin al -> fin mult -> fin off ->
  (Rabs (BR al) <= 1026)%R -> (Rabs (BR mult) <= bpow radix2 20)%R -> (Rabs (BR off) <= bpow radix2 20)%R ->
  idx_ok (GlueProofs.index_of al mult off).
Proof.
  intros Fa Fm Fo Ba Bm Bo.
  assert (B40 : (bpow radix2 20 <= bpow radix2 40)%R) by (apply bpow_le; lia).
  assert (Ff : fin (fadd (fmul al mult) off)).
  { apply index_arg_fin; try assumption; lra. }
  destruct (fadd_fin_inv _ _ Ff) as (Fp & _).
  rewrite bpow20 in Bm, Bo.
  assert (B1 : (Rabs (BR al * BR mult) <= IZR 1075838976)%R).
  { rewrite Rabs_mult. replace (IZR 1075838976) with (1026 * IZR 1048576)%R by lra.
    apply Rmult_le_compat; try apply Rabs_pos; assumption. }
  assert (B2 : (Rabs (BR (fmul al mult)) <= IZR 1075838976)%R).
  { rewrite (fmul_R al mult Fp). apply rndR_abs_le; [lia|exact B1]. }
  assert (B3 : (Rabs (BR (fadd (fmul al mult) off)) <= IZR 1076887552)%R).
  { rewrite (fadd_R _ _ Fp Fo Ff). apply rndR_abs_le; [lia|].
    apply Rle_trans with (1 := Rabs_triang _ _). lra. }
  unfold GlueProofs.index_of. set (a := fadd (fmul al mult) off) in *.
  destruct (go_floor_R a Ff) as (G1 & G2). apply Rabs_le_inv in B3. clearbody a. clear B1 B2 B40.
  unfold idx_ok, MinInt32, MaxInt32.
  destruct (Rle_lt_dec 0 (BR a)) as [H|H].
  - rewrite (G1 H). pose proof (Zfloor_lb (BR a)) as L1. pose proof (Zfloor_ub (BR a)) as L2.
    split.
    + assert (-1 < Zfloor (BR a)); [|lia]. apply lt_IZR. lra.
    + apply le_IZR. lra.
  - rewrite (G2 H). pose proof (Zceil_ub (BR a)) as L1. pose proof (Zceil_lb (BR a)) as L2.
    split.
    + assert (-1076887553 < Zceil (BR a)); [|lia]. apply lt_IZR. lra.
    + assert (Zceil (BR a) < 1); [|lia]. apply lt_IZR. lra.
Qed.

(* Index is int32 and monotone on the positive normal floats *)
Definition gm_index_good (L : libm) (m : gmap) : Prop :=
  (forall x : f64, pos_normal x -> idx_ok (gm_index L m x)) /\
  (forall x y : f64, pos_normal x -> pos_normal y -> (BR x <= BR y)%R -> gm_index L m x <= gm_index L m y).
(* multiplier in [0, 2^20], |offset| <= 2^20 *)
Definition gm_small (m : gmap) : Prop :=
  fin (gm_mult m) /\ fin (gm_off m) /\ (0 <= BR (gm_mult m) <= bpow radix2 20)%R /\
  (Rabs (BR (gm_off m)) <= bpow radix2 20)%R.
(* finite bounds, MinIndexableValue a positive normal float *)
Definition gm_range_ok (m : gmap) : Prop :=
  fin (gm_min m) /\ fin (gm_max m) /\ (bpow radix2 (-1022) <= BR (gm_min m))%R.

Lemma gm_small_40 m : gm_small m ->
  (0 <= BR (gm_mult m) <= bpow radix2 40)%R /\ (Rabs (BR (gm_off m)) <= bpow radix2 40)%R.
Proof.
  intros (_ & _ & B1 & B2). assert (B40 : (bpow radix2 20 <= bpow radix2 40)%R) by (apply bpow_le; lia).
  split; lra.
Qed.

Theorem gm_index_good_lin (L : libm) (m : gmap) : gm_kind m = MLin -> gm_small m -> gm_index_good L m.
Proof.
  intros K Hs. pose proof (gm_small_40 m Hs) as (B1 & B2). destruct Hs as (Fm & Fo & S1 & S2). split.
  - intros x Hx. rewrite gm_index_eq, K. destruct (approx_log_lin_R L x Hx) as (Fa & _ & Ba).
    apply index_of_int32; try assumption. apply Rabs_le. lra.
  - intros x y Hx Hy Hxy. apply lin_index_mono_bounded; assumption.
Qed.

Theorem gm_index_good_cub (L : libm) (m : gmap) : gm_kind m = MCub -> gm_small m -> gm_index_good L m.
Proof.
  intros K Hs. pose proof (gm_small_40 m Hs) as (B1 & B2). destruct Hs as (Fm & Fo & S1 & S2). split.
  - intros x Hx. rewrite gm_index_eq, K. destruct (approx_log_cub_value L x Hx) as (Fa & _ & Ba).
    apply index_of_int32; try assumption. apply Rabs_le. lra.
  - intros x y Hx Hy Hxy. apply cub_index_mono_bounded; assumption.
Qed.

(* the logarithmic mapping calls math.Log: monotone, finite and of magnitude <= 1026 on the finite
   positive floats (|ln v| < 745 there) are premises on the oracle *)
Definition log_monotone (L : libm) : Prop :=
  forall a b : f64, fin a -> fin b -> (0 < BR a)%R -> (BR a <= BR b)%R -> (BR (l_log L a) <= BR (l_log L b))%R.
Definition log_bounded (L : libm) : Prop :=
  forall a : f64, fin a -> (0 < BR a)%R -> fin (l_log L a) /\ (Rabs (BR (l_log L a)) <= 1026)%R.

Theorem gm_index_good_log (L : libm) (m : gmap) :
  gm_kind m = MLog -> gm_small m -> log_monotone L -> log_bounded L -> gm_index_good L m.
Proof.
  intros K Hs Hmon Hbd. pose proof (gm_small_40 m Hs) as (B1 & B2). destruct Hs as (Fm & Fo & S1 & S2).
  assert (P : forall x, pos_normal x -> fin x /\ (0 < BR x)%R).
  { intros x (Fx & Hx). split; [exact Fx|]. pose proof (bpow_gt_0 radix2 (-1022)). lra. }
  split.
  - intros x Hx. destruct (P x Hx) as (Fx & X0). rewrite gm_index_eq, K. destruct (Hbd x Fx X0) as (Fa & Ba).
    apply index_of_int32; try assumption. apply Rabs_le. lra.
  - intros x y Hx Hy Hxy. destruct (P x Hx) as (Fx & X0). destruct (P y Hy) as (Fy & _).
    apply log_index_mono_bounded; assumption.
Qed.

(* A: the table of a glue mapping satisfies the float-level premises of section 2 *)
Theorem gmap_table_ok (L : libm) (m : gmap) :
  gm_range_ok m -> gm_index_good L m -> mt_fok (mt_of_gmap L m) /\ mt_fmono (mt_of_gmap L m).
Proof.
  intros (Hlo & Hhi & Hn) (Gi & Gm).
  assert (H0 : (0 <= BR (gm_min m))%R) by (pose proof (bpow_gt_0 radix2 (-1022)); lra).
  split.
  - apply gmap_fok; try assumption. intros u Fu U1 U2. apply Gi. split; [exact Fu|lra].
  - apply gmap_fmono; try assumption. intros u w Fu Fw U1 UW W2. apply Gm; [split; [exact Fu|lra]|split; [exact Fw|lra]|exact UW].
Qed.

(* B for the glue model.  What is NOT discharged (the libm accuracy gap): the alpha-accuracy of
   Value(Index(|v|)) w.r.t. |v| at the magnitudes added stays an explicit premise, stated on the
   float functions of the glue model. *)
Theorem gmap_quantile_accuracy_rnd64
  (L : libm) (g : gmap) (fx : fixes) (m : mapid) (kp kn : kind) (exact : bool)
  (vs : list f64) (ys : list Qc) (q : f64) (alpha : Qc) :
  gm_range_ok g -> gm_index_good L g ->
  kind_limit kp = Exact -> kind_limit kn = Exact ->
  fD4 fx = true -> fD5 fx = true ->
  Forall (fun v => f_is_finite v = true) vs ->
  (forall v, In v vs -> (Qcabs (f2q v) <= f2q (gm_max g))%Qc) ->
  Permutation (map f2q vs) ys -> Sorted Qcle ys -> vs <> [] -> Z.of_nat (length vs) <= 2 ^ 53 ->
  fle f64_zero q = true -> fle q f64_one = true ->
  (forall v, In v vs -> (f2q (gm_min g) < f2q (fabs v))%Qc ->
     (Qcabs (f2q (gm_value L g (gm_index L g (fabs v))) - f2q (fabs v)) <= alpha * f2q (fabs v))%Qc) ->
  let mt := mt_of_gmap L g in
  exists s, plain_add_units mt (sk_new m kp kn exact) vs = ROk s /\ SkInv s /\
  exists (k : nat) (s' : sketch) (y : Qc),
    cfloor (f2q q * inj (Z.of_nat (length vs) - 1)) <= Z.of_nat k <= cceil (f2q q * inj (Z.of_nat (length vs) - 1)) /\
    (k < length vs)%nat /\
    plain_quantile rnd64 fx mt s q = (s', ROk y) /\ SkInv s' /\ sk_abs s' = sk_abs s /\
    y = repr (am_of mt) (nth k ys w0) /\
    (((Qcabs (nth k ys w0) <= f2q (gm_min g))%Qc /\ y = w0) \/
     (Qcabs (y - nth k ys w0) <= alpha * Qcabs (nth k ys w0))%Qc).
Proof.
  intros Hr Hg Lp Ln F4 F5 Hf Hrange Hperm Hsort Hne HB Q0 Q1 Hacc mt.
  destruct (gmap_table_ok L g Hr Hg) as (Hok & Hmono).
  destruct Hr as (Hlo & Hhi & Hn).
  apply (executable_quantile_accuracy_rnd64 fx mt m kp kn exact vs ys q alpha Hok Hmono Lp Ln F4 F5 Hf Hrange
           Hperm Hsort Hne HB Q0 Q1).
  intros v Hv Hlt. rewrite Forall_forall in Hf. pose proof (Hf v Hv) as Fv.
  cbn [mt mt_of_gmap mt_min] in Hlt. rewrite <- (f2q_fabs v Fv) in *.
  pose proof (fabs_fin v Fv) as Fa.
  assert (Hnz : BR (fabs v) <> 0%R).
  { apply (f2q_lt_R _ _ Hlo Fa) in Hlt. pose proof (bpow_gt_0 radix2 (-1022)). lra. }
  unfold mt at 2. rewrite (mt_of_gmap_index L g (fabs v) Fa Hnz). cbn [mt mt_of_gmap mt_value].
  apply Hacc; assumption.
Qed.

(* ---- a decidable sufficient condition for gm_small /\ gm_range_ok ---- *)
Definition c_2p20 : f64 := fb 4697254411347427328.          (* 2^20 = 0x4130000000000000 *)
Definition gm_checkb (g : gmap) : bool :=
  f_is_finite (gm_mult g) && f_is_finite (gm_off g) && f_is_finite (gm_min g) && f_is_finite (gm_max g) &&
  fle f64_zero (gm_mult g) && fle (gm_mult g) c_2p20 && fle (fabs (gm_off g)) c_2p20 &&
  fle c_min_normal (gm_min g).

Lemma fle_R (a b : f64) : fin a -> fin b -> fle a b = true -> (BR a <= BR b)%R.
Proof. intros Ha Hb H. apply (f2q_le_R a b Ha Hb). apply (fle_iff a b Ha Hb). exact H. Qed.

Lemma c_2p20_fin : fin c_2p20. Proof. reflexivity. Qed.
Lemma c_2p20_BR : BR c_2p20 = bpow radix2 20.
Proof.
  unfold c_2p20. rewrite BR_fb. set (u := binary_float_of_bits_aux 52 11 _). vm_compute in u. subst u.
  unfold FF2R, F2R. cbn [Fnum Fexp cond_Zopp].
  change (IZR 4503599627370496) with (bpow radix2 52). rewrite <- bpow_plus. reflexivity.
Qed.
Lemma c_min_normal_fin : fin c_min_normal. Proof. reflexivity. Qed.
Lemma c_min_normal_BR : BR c_min_normal = bpow radix2 (-1022).
Proof.
  unfold c_min_normal. rewrite BR_fb. set (u := binary_float_of_bits_aux 52 11 _). vm_compute in u. subst u.
  unfold FF2R, F2R. cbn [Fnum Fexp cond_Zopp].
  change (IZR 4503599627370496) with (bpow radix2 52). rewrite <- bpow_plus. reflexivity.
Qed.

Lemma gm_checkb_ok (g : gmap) : gm_checkb g = true -> gm_small g /\ gm_range_ok g.
Proof.
  unfold gm_checkb. rewrite !andb_true_iff.
  intros (((((((Fm & Fo) & Flo) & Fhi) & M0) & M1) & O1) & N1).
  unfold f_is_finite in Fm, Fo, Flo, Fhi.
  apply (fle_R _ _ f64_zero_finite Fm) in M0. rewrite GlueProofs.f64_zero_eq in M0. cbn [B2R] in M0.
  apply (fle_R _ _ Fm c_2p20_fin) in M1. rewrite c_2p20_BR in M1.
  apply (fle_R _ _ (fabs_fin _ Fo) c_2p20_fin) in O1. rewrite c_2p20_BR, fabs_BR in O1.
  apply (fle_R _ _ c_min_normal_fin Flo) in N1. rewrite c_min_normal_BR in N1.
  split; [split; [exact Fm|split; [exact Fo|split; [split; assumption|exact O1]]]|].
  split; [exact Flo|split; [exact Fhi|exact N1]].
Qed.

(* ================================================================== *)
(** * 4. D: constructor facts of the glue model (C13 / C19)            *)
(* ================================================================== *)
(* the gamma the accuracy constructors hand to New*MappingWithGamma *)
Definition acc_gamma (L : libm) (k : mkind) (a : f64) : f64 :=
  let g0 := fdiv (fadd f64_one a) (fsub f64_one a) in
  match k with MLog => g0 | MLin => l_pow L g0 c_ln2 | MCub => l_pow L g0 c_10ln2_7 end.
Definition acc_off (L : libm) (k : mkind) (a : f64) : f64 :=
  match k with MLin => fdiv f64_one (l_log2 L (acc_gamma L k a)) | _ => f64_zero end.

Theorem with_gamma_none_iff (L : libm) (k : mkind) (g off : f64) :
  with_gamma L k g off = None <-> fle g f64_one = true.
Proof.
  unfold with_gamma. destruct (fle g f64_one); [tauto|].
  destruct k; split; intros H; discriminate H.
Qed.

Theorem with_gamma_fields (L : libm) (k : mkind) (g off : f64) (m : gmap) :
  with_gamma L k g off = Some m ->
  gm_kind m = k /\ gm_gamma m = g /\ gm_off m = off /\
  gm_mult m = fdiv f64_one (match k with MLog => l_log L g | _ => l_log2 L g end).
Proof.
  unfold with_gamma. destruct (fle g f64_one); [discriminate|].
  destruct k; intros H; injection H as <-; cbn [gm_kind gm_gamma gm_off gm_mult]; repeat split; reflexivity.
Qed.

Theorem with_accuracy_is_with_gamma (L : libm) (k : mkind) (a : f64) :
  with_accuracy L k a =
  if fle a f64_zero || fle f64_one a then None else with_gamma L k (acc_gamma L k a) (acc_off L k a).
Proof. unfold with_accuracy, acc_gamma, acc_off. destruct (fle a f64_zero || fle f64_one a); [reflexivity|]. destruct k; reflexivity. Qed.

(* refused exactly when the Go test  a <= 0 || a >= 1  fires, or the gamma computed from a is <= 1
   (e.g. a < 2^-54, where 1 + a and 1 - a both round to 1).  A NaN accuracy passes the first test. *)
Theorem with_accuracy_none_iff (L : libm) (k : mkind) (a : f64) :
  with_accuracy L k a = None <->
  (fle a f64_zero || fle f64_one a) = true \/ fle (acc_gamma L k a) f64_one = true.
Proof.
  rewrite with_accuracy_is_with_gamma. destruct (fle a f64_zero || fle f64_one a).
  - split; [intros _; left; reflexivity|reflexivity].
  - rewrite with_gamma_none_iff. split; [intros H; right; exact H|intros [H|H]; [discriminate H|exact H]].
Qed.
Corollary with_accuracy_refuses (L : libm) (k : mkind) (a : f64) :
  (fle a f64_zero || fle f64_one a) = true -> with_accuracy L k a = None.
Proof. intros H. apply with_accuracy_none_iff. left. exact H. Qed.

(* NaN: every comparison is false, so both tests let it through; the logarithmic constructor then
   builds a mapping whose gamma is NaN, whatever the oracle *)
Lemma fle_nan_l (g x : f64) : f_is_nan g = true -> fle g x = false.
Proof. destruct g; intros H; try discriminate H. reflexivity. Qed.
Lemma fle_nan_r (x g : f64) : f_is_nan g = true -> fle x g = false.
Proof. destruct g; intros H; try discriminate H. destruct x as [sx|sx|sx plx Hplx|sx mx ex Hx]; try reflexivity; destruct sx; reflexivity. Qed.
Theorem with_accuracy_nan_accepted (L : libm) (a : f64) :
  f_is_nan a = true -> exists m, with_accuracy L MLog a = Some m /\ f_is_nan (gm_gamma m) = true.
Proof.
  intros H. rewrite with_accuracy_is_with_gamma, (fle_nan_l a _ H), (fle_nan_r _ a H). cbn [orb].
  assert (G : f_is_nan (acc_gamma L MLog a) = true).
  { destruct a as [s|s|s pl Hpl|s mx ex Hx]; try discriminate H. unfold acc_gamma. vm_compute. reflexivity. }
  unfold with_gamma. rewrite (fle_nan_l _ _ G). eexists. split; [reflexivity|exact G].
Qed.

(* C19: rebuilding from the gamma and offset a mapping reports gives the same mapping, field for
   field (multiplier and both bounds are recomputed by the same expressions) *)
Theorem with_accuracy_rebuild (L : libm) (k : mkind) (a : f64) (m : gmap) :
  with_accuracy L k a = Some m ->
  gm_kind m = k /\ with_gamma L k (gm_gamma m) (gm_off m) = Some m.
Proof.
  rewrite with_accuracy_is_with_gamma. destruct (fle a f64_zero || fle f64_one a); [discriminate|].
  intros H. destruct (with_gamma_fields L k _ _ m H) as (K & G & O & _). rewrite G, O. split; [exact K|exact H].
Qed.
Theorem with_gamma_rebuild (L : libm) (k : mkind) (g off : f64) (m : gmap) :
  with_gamma L k g off = Some m -> with_gamma L (gm_kind m) (gm_gamma m) (gm_off m) = Some m.
Proof. intros H. destruct (with_gamma_fields L k _ _ m H) as (K & G & O & _). rewrite K, G, O. exact H. Qed.

(* ================================================================== *)
(** * 5. C: merge trees of executable sketches (C02 on Layer B)        *)
(* ================================================================== *)
(* a tree of MergeWith over sketches each built by AddWithCount on a new sketch; every leaf chooses
   its own kinds of stores and whether it keeps exact statistics; MergeWith keeps the receiver *)
Inductive btree :=
| BLeaf (kp kn : kind) (exact : bool) (adds : list (f64 * f64))
| BNode (t1 t2 : btree).
Definition kadds (l : list (f64 * f64)) : list kop := map (fun vc => KAdd (fst vc) (snd vc)) l.
Definition q_adds (l : list (f64 * f64)) : list (Qc * W) := map (fun vc => (f2q (fst vc), f2q (snd vc))) l.
Fixpoint b_adds (t : btree) : list (f64 * f64) :=
  match t with BLeaf _ _ _ l => l | BNode t1 t2 => b_adds t1 ++ b_adds t2 end.
(* the leftmost leaf is the receiver of the whole tree *)
Fixpoint b_first (t : btree) : kind * kind * bool :=
  match t with BLeaf kp kn e _ => (kp, kn, e) | BNode t1 _ => b_first t1 end.

Section BEval.
Variable rnd : Qc -> Qc.
Variable fx : fixes.
Variable mt : mtable.
Variable m : mapid.
Fixpoint b_eval (t : btree) : option sketch :=
  match t with
  | BLeaf kp kn e l => sk_run rnd fx mt (sk_new m kp kn e) (kadds l)
  | BNode t1 t2 =>
    match b_eval t1, b_eval t2 with
    | Some s1, Some s2 => match sk_merge s1 s2 with ROk (s', _) => Some s' | _ => None end
    | _, _ => None
    end
  end.
End BEval.

(* finite values, finite weights >= 0 *)
Definition adds_ok (l : list (f64 * f64)) : Prop :=
  Forall (fun vc => f_is_finite (fst vc) = true /\ f_is_finite (snd vc) = true /\ (w0 <= f2q (snd vc))%Qc) l.
(* every leaf over non-collapsing stores (dense, sparse, paginated; any mix) *)
Fixpoint b_exact (t : btree) : Prop :=
  match t with
  | BLeaf kp kn _ l => kind_limit kp = Exact /\ kind_limit kn = Exact /\ adds_ok l
  | BNode t1 t2 => b_exact t1 /\ b_exact t2
  end.
(* the receiver (leftmost leaf) may be of ANY kind, collapsing included; every other leaf is over
   non-collapsing stores *)
Fixpoint b_ok (t : btree) : Prop :=
  match t with
  | BLeaf kp kn _ l => kind_ok kp /\ kind_ok kn /\ adds_ok l
  | BNode t1 t2 => b_ok t1 /\ b_exact t2
  end.

Lemma adds_ok_app l1 l2 : adds_ok l1 -> adds_ok l2 -> adds_ok (l1 ++ l2).
Proof. unfold adds_ok. intros H1 H2. apply Forall_app. split; assumption. Qed.
Lemma adds_ok_kops mm l : adds_ok l -> Forall (kop_ok mm) (kadds l).
Proof.
  unfold adds_ok, kadds. intros H. apply Forall_map. eapply Forall_impl; [|exact H].
  intros vc Hvc. exact Hvc.
Qed.
Lemma adds_ok_wnonneg l : adds_ok l -> wnonneg (q_adds l).
Proof.
  unfold adds_ok, wnonneg, q_adds. intros H. apply Forall_map. eapply Forall_impl; [|exact H].
  intros vc (_ & _ & Hc). exact Hc.
Qed.
Lemma q_adds_app l1 l2 : q_adds (l1 ++ l2) = q_adds l1 ++ q_adds l2.
Proof. apply map_app. Qed.
Lemma exact_kind_ok k : kind_limit k = Exact -> kind_ok k.
Proof. destruct k; intros H; try exact I; discriminate H. Qed.
Lemma kind_limit_ok k : kind_ok k -> limit_ok (kind_limit k).
Proof. destruct k; intros H; exact H. Qed.
Lemma b_exact_ok t : b_exact t -> b_ok t.
Proof.
  induction t as [kp kn e l|t1 IH1 t2 IH2]; cbn [b_exact b_ok].
  - intros (Hp & Hn & Hl). split; [now apply exact_kind_ok|]. split; [now apply exact_kind_ok|exact Hl].
  - intros (H1 & H2). split; [now apply IH1|exact H2].
Qed.
Lemma b_ok_adds t : b_ok t -> adds_ok (b_adds t).
Proof.
  assert (E : forall t, b_exact t -> adds_ok (b_adds t)).
  { induction t0 as [kp kn e l|t1 IH1 t2 IH2]; cbn [b_exact b_adds].
    - intros (_ & _ & H). exact H.
    - intros (H1 & H2). apply adds_ok_app; [now apply IH1|now apply IH2]. }
  induction t as [kp kn e l|t1 IH1 t2 IH2]; cbn [b_ok b_adds].
  - intros (_ & _ & H). exact H.
  - intros (H1 & H2). apply adds_ok_app; [now apply IH1|now apply E].
Qed.
Lemma b_ok_first t : b_ok t -> kind_ok (fst (fst (b_first t))) /\ kind_ok (snd (fst (b_first t))).
Proof.
  induction t as [kp kn e l|t1 IH1 t2 IH2]; cbn [b_ok b_first fst snd].
  - intros (Hp & Hn & _). split; assumption.
  - intros (H1 & _). now apply IH1.
Qed.

(* the Layer A image of a list of adds is a_build *)
Lemma a_run_kadds am lp ln l : forall a, a_run am lp ln a (kadds l) = a_build am lp ln a (q_adds l).
Proof.
  unfold a_run, a_build, kadds, q_adds. induction l as [|vc l IH]; intros a; [reflexivity|].
  cbn [map fold_left fst snd a_step]. rewrite IH. reflexivity.
Qed.
Lemma a_norm_new lp ln : a_norm lp ln a_new = a_new.
Proof. unfold a_norm, a_new. cbn [a_pos a_neg a_zero]. rewrite !CollapsingProofs.norm_nil. reflexivity. Qed.
Lemma a_norm_exact s : a_norm Exact Exact s = s.
Proof. destruct s; reflexivity. Qed.
(* merging two exact sketches built from l1 and l2 = building from l1 ++ l2 (C02_merge_tree on a
   two-leaf tree) *)
Lemma a_merge_build am l1 l2 :
  wnonneg l1 -> wnonneg l2 ->
  a_merge Exact Exact (a_build am Exact Exact a_new l1) (a_build am Exact Exact a_new l2)
  = a_build am Exact Exact a_new (l1 ++ l2).
Proof.
  intros H1 H2. destruct (merge_tree am (Node (Leaf l1) (Leaf l2))) as (E & _).
  - cbn [flatten]. unfold wnonneg in *. apply Forall_app. split; assumption.
  - exact E.
Qed.

Section Tree.
Variable rnd : Qc -> Qc.
Variable fx : fixes.
Variable mt : mtable.
Variable m : mapid.
Hypothesis Hmt : mt_ok mt.
Hypothesis Hmm : map_equals m m = true.     (* gamma and offset of the shared mapping are not NaN / infinite *)

Lemma b_leaf_spec kp kn e l :
  kind_ok kp -> kind_ok kn -> adds_ok l ->
  exists s, sk_run rnd fx mt (sk_new m kp kn e) (kadds l) = Some s /\ SkInv s /\ sk_map s = m /\
            st_kind (sk_pos s) = kp /\ st_kind (sk_neg s) = kn /\
            sk_abs s = a_norm (kind_limit kp) (kind_limit kn) (a_build (am_of mt) Exact Exact a_new (q_adds l)).
Proof.
  intros Hp Hn Hl.
  destruct (sketch_history_refines rnd fx mt m kp kn e (kadds l) Hmt Hp Hn (adds_ok_kops m l Hl))
    as (s & E & Is & _ & M & Kp & Kn & A).
  exists s. split; [exact E|]. split; [exact Is|]. split; [exact M|]. split; [exact Kp|]. split; [exact Kn|].
  rewrite A, a_run_kadds.
  rewrite <- (a_build_norm (am_of mt) _ _ a_new (q_adds l) (kind_limit_ok kp Hp) (kind_limit_ok kn Hn) awf_new
                (adds_ok_wnonneg l Hl)).
  rewrite a_norm_new. reflexivity.
Qed.

Lemma b_exact_spec t :
  b_exact t ->
  exists s, b_eval rnd fx mt m t = Some s /\ SkInv s /\ sk_map s = m /\ sk_lp s = Exact /\ sk_ln s = Exact /\
            sk_abs s = a_build (am_of mt) Exact Exact a_new (q_adds (b_adds t)).
Proof.
  induction t as [kp kn e l|t1 IH1 t2 IH2]; cbn [b_exact b_eval b_adds].
  - intros (Lp & Ln & Hl).
    destruct (b_leaf_spec kp kn e l (exact_kind_ok kp Lp) (exact_kind_ok kn Ln) Hl) as (s & E & Is & M & Kp & Kn & A).
    exists s. split; [exact E|]. split; [exact Is|]. split; [exact M|].
    unfold sk_lp, sk_ln. rewrite !st_limit_kind, Kp, Kn. split; [exact Lp|]. split; [exact Ln|].
    rewrite A, Lp, Ln. apply a_norm_exact.
  - intros (H1 & H2). destruct (IH1 H1) as (s1 & E1 & I1 & M1 & P1 & N1 & A1).
    destruct (IH2 H2) as (s2 & E2 & I2 & M2 & _ & _ & A2). rewrite E1, E2.
    assert (Hme : map_equals (sk_map s1) (sk_map s2) = true) by (rewrite M1, M2; exact Hmm).
    destruct (sk_merge_refines s1 s2 I1 I2 Hme) as (s' & o' & E & I' & _ & K & _ & A & _).
    rewrite E. exists s'. split; [reflexivity|]. split; [exact I'|].
    split; [destruct K as (K & _); rewrite K; exact M1|].
    split; [rewrite (sk_same_lp _ _ K); exact P1|]. split; [rewrite (sk_same_ln _ _ K); exact N1|].
    rewrite A, P1, N1, A1, A2, q_adds_app.
    apply a_merge_build; apply adds_ok_wnonneg, b_ok_adds, b_exact_ok; assumption.
Qed.

Lemma b_ok_spec t :
  b_ok t ->
  exists s, b_eval rnd fx mt m t = Some s /\ SkInv s /\ sk_map s = m /\
            st_kind (sk_pos s) = fst (fst (b_first t)) /\ st_kind (sk_neg s) = snd (fst (b_first t)) /\
            sk_abs s = a_norm (kind_limit (fst (fst (b_first t)))) (kind_limit (snd (fst (b_first t))))
                              (a_build (am_of mt) Exact Exact a_new (q_adds (b_adds t))).
Proof.
  induction t as [kp kn e l|t1 IH1 t2 IH2]; cbn [b_ok b_eval b_adds b_first fst snd].
  - intros (Hp & Hn & Hl). exact (b_leaf_spec kp kn e l Hp Hn Hl).
  - intros (H1 & H2). destruct (IH1 H1) as (s1 & E1 & I1 & M1 & P1 & N1 & A1).
    destruct (b_exact_spec t2 H2) as (s2 & E2 & I2 & M2 & _ & _ & A2). rewrite E1, E2.
    assert (Hme : map_equals (sk_map s1) (sk_map s2) = true) by (rewrite M1, M2; exact Hmm).
    destruct (sk_merge_refines s1 s2 I1 I2 Hme) as (s' & o' & E & I' & _ & K & _ & A & _).
    rewrite E. exists s'. split; [reflexivity|]. split; [exact I'|].
    pose proof K as (K1 & K2 & K3).
    split; [rewrite K1; exact M1|]. split; [rewrite K2; exact P1|]. split; [rewrite K3; exact N1|].
    destruct (b_ok_first t1 H1) as (Okp & Okn).
    pose proof (adds_ok_wnonneg _ (b_ok_adds t1 H1)) as W1.
    pose proof (adds_ok_wnonneg _ (b_ok_adds t2 (b_exact_ok t2 H2))) as W2.
    rewrite A. unfold sk_lp, sk_ln. rewrite !st_limit_kind, P1, N1, A1, A2.
    rewrite a_merge_norm; [|now apply kind_limit_ok|now apply kind_limit_ok|
                            apply a_build_awf; [exact awf_new|exact W1]|apply a_build_awf; [exact awf_new|exact W2]].
    rewrite (a_merge_build (am_of mt) _ _ W1 W2), q_adds_app. reflexivity.
Qed.

(* C02 on the executable model: the tree and the single sketch that receives all the adds in order
   (same kinds and statistics flag as the receiver of the tree) never panic, satisfy the invariant,
   have the same mapping and kinds of stores, and the same Layer A abstraction: the exact content of
   all the adds, normalised by the receiver's limits (the identity for non-collapsing receivers) *)
Theorem merge_tree_refines t :
  b_ok t ->
  let kp := fst (fst (b_first t)) in let kn := snd (fst (b_first t)) in let e := snd (b_first t) in
  exists st sf,
    b_eval rnd fx mt m t = Some st /\
    sk_run rnd fx mt (sk_new m kp kn e) (kadds (b_adds t)) = Some sf /\
    SkInv st /\ SkInv sf /\ sk_map st = m /\ sk_map sf = m /\
    st_kind (sk_pos st) = kp /\ st_kind (sk_neg st) = kn /\ st_kind (sk_pos sf) = kp /\ st_kind (sk_neg sf) = kn /\
    sk_abs st = sk_abs sf /\
    sk_abs st = a_norm (kind_limit kp) (kind_limit kn) (a_build (am_of mt) Exact Exact a_new (q_adds (b_adds t))).
Proof.
  intros Ht kp kn e. destruct (b_ok_spec t Ht) as (st & E & Is & M & P & N & A).
  destruct (b_ok_first t Ht) as (Okp & Okn).
  destruct (b_leaf_spec kp kn e (b_adds t) Okp Okn (b_ok_adds t Ht)) as (sf & E' & Is' & M' & P' & N' & A').
  exists st, sf. repeat (split; [assumption|]). split; [|exact A]. rewrite A, A'. reflexivity.
Qed.
End Tree.

(* ---- equal abstractions, equal observers ---- *)
Theorem observers_eq (mt : mtable) (s1 s2 : sketch) :
  SkInv s1 -> SkInv s2 -> sk_abs s1 = sk_abs s2 ->
  plain_count s1 = plain_count s2 /\ plain_is_empty s1 = plain_is_empty s2 /\
  plain_min mt s1 = plain_min mt s2 /\ plain_max mt s1 = plain_max mt s2 /\
  (exists s1' s2' l, sk_foreach mt s1 = Some (s1', l) /\ sk_foreach mt s2 = Some (s2', l)) /\
  (forall rnd fx q, fD4 fx = true -> fD5 fx = true ->
     a_quantile rnd (am_of mt) (sk_abs s1) (f2q q) <> None \/ plain_count s1 = w0 \/
       (fle f64_zero q && fle q f64_one) = false ->
     snd (plain_quantile rnd fx mt s1 q) = snd (plain_quantile rnd fx mt s2 q)).
Proof.
  intros I1 I2 A.
  assert (C : plain_count s1 = plain_count s2) by (rewrite !plain_count_refines, A by assumption; reflexivity).
  split; [exact C|].
  split; [rewrite !plain_is_empty_refines, A by assumption; reflexivity|].
  split; [rewrite !plain_min_refines, A by assumption; reflexivity|].
  split; [rewrite !plain_max_refines, A by assumption; reflexivity|].
  split.
  { destruct (sk_foreach_refines mt s1 I1) as (s1' & E1 & _). destruct (sk_foreach_refines mt s2 I2) as (s2' & E2 & _).
    exists s1', s2', (a_items (am_of mt) (sk_abs s1)). split; [exact E1|]. rewrite A. exact E2. }
  intros rnd fx q F4 F5 H.
  destruct (fle f64_zero q && fle q f64_one) eqn:Eq.
  - destruct (weqb_spec (plain_count s1) w0) as [Ec|Ec].
    + unfold plain_quantile. rewrite F5, Eq, <- C, Ec. cbn [negb]. rewrite weqb_refl. reflexivity.
    + apply andb_true_iff in Eq. destruct Eq as (Q0 & Q1).
      assert (Ec2 : plain_count s2 <> w0) by (rewrite <- C; exact Ec).
      destruct (plain_quantile_refines rnd fx mt s1 q F4 F5 I1 Q0 Q1 Ec) as (s1' & y1 & E1 & _ & _ & _ & M1).
      destruct (plain_quantile_refines rnd fx mt s2 q F4 F5 I2 Q0 Q1 Ec2) as (s2' & y2 & E2 & _ & _ & _ & M2).
      rewrite E1, E2. cbn [snd]. rewrite <- A in M2.
      destruct (a_quantile rnd (am_of mt) (sk_abs s1) (f2q q)) as [y|].
      * subst y1 y2. reflexivity.
      * exfalso. destruct H as [H|[H|H]]; [now apply H|contradiction|discriminate H].
  - unfold plain_quantile. rewrite F5, Eq. reflexivity.
Qed.

(* the packaged statement: the tree and the flat sketch agree on every observer *)
Theorem merge_tree_observers (rnd : Qc -> Qc) (fx : fixes) (mt : mtable) (m : mapid) (t : btree) :
  mt_ok mt -> map_equals m m = true -> b_ok t ->
  let kp := fst (fst (b_first t)) in let kn := snd (fst (b_first t)) in let e := snd (b_first t) in
  exists st sf,
    b_eval rnd fx mt m t = Some st /\
    sk_run rnd fx mt (sk_new m kp kn e) (kadds (b_adds t)) = Some sf /\
    SkInv st /\ SkInv sf /\ sk_abs st = sk_abs sf /\
    sk_abs st = a_norm (kind_limit kp) (kind_limit kn) (a_build (am_of mt) Exact Exact a_new (q_adds (b_adds t))) /\
    plain_count st = plain_count sf /\ plain_is_empty st = plain_is_empty sf /\
    plain_min mt st = plain_min mt sf /\ plain_max mt st = plain_max mt sf /\
    (exists st' sf' l, sk_foreach mt st = Some (st', l) /\ sk_foreach mt sf = Some (sf', l)) /\
    (forall rnd' fx' q, fD4 fx' = true -> fD5 fx' = true ->
       a_quantile rnd' (am_of mt) (sk_abs st) (f2q q) <> None \/ plain_count st = w0 \/
         (fle f64_zero q && fle q f64_one) = false ->
       snd (plain_quantile rnd' fx' mt st q) = snd (plain_quantile rnd' fx' mt sf q)).
Proof.
  intros Hmt Hmm Ht kp kn e.
  destruct (merge_tree_refines rnd fx mt m Hmt Hmm t Ht) as (st & sf & E1 & E2 & I1 & I2 & _ & _ & _ & _ & _ & _ & A & A').
  exists st, sf. split; [exact E1|]. split; [exact E2|]. split; [exact I1|]. split; [exact I2|].
  split; [exact A|]. split; [exact A'|]. exact (observers_eq mt st sf I1 I2 A).
Qed.

(* ================================================================== *)
(** * 6. the hypotheses are satisfiable: a stub oracle, alpha = 0.01   *)
(* ================================================================== *)
(* math.Floor from Flocq operations; the transcendental functions answer the few arguments the
   constructors and RelativeAccuracy pass for alpha = 0.01 (values of the C library, to the last bit
   or not: nothing below depends on it) *)
Definition bx_floor (x : f64) : f64 :=
  let t := int_of_f x in let ft := f_of_int t in if flt x ft then f_of_int (t - 1) else ft.
Definition bx_alpha : f64 := fb 4576918229304087675.     (* 0.01 *)
Definition bx_g0 : f64 := fb 4607273400610671357.        (* (1 + 0.01) / (1 - 0.01) = 1.0202... *)
Definition bx_glin : f64 := fb 4607245288818281240.      (* g0 ^ ln 2 *)
Definition bx_gcub : f64 := fb 4607272501073408450.      (* g0 ^ (10 ln 2 / 7) *)
Definition bx_L : libm :=
  {| l_log := fun _ => fb 4581422021096572285;           (* ln g0: a constant function is monotone and bounded *)
     l_exp := fun x => if feq x c_exp_overflow then fb 9216230289645164774        (* exp(709.43...) *)
                       else if flt x f64_zero then f64_zero
                       else if flt (fb 4652007308841189376) x then f64_pinf       (* x > 1000 *)
                       else bx_g0;
     l_exp2 := fun x => if flt x f64_zero then f64_zero else f64_pinf;
     l_log2 := fun x => if feq x bx_glin then fb 4581422021096572306 else fb 4583892649534350114;
     l_pow := fun x y => if feq y c_ln2 then bx_glin else if feq y c_10ln2_7 then bx_gcub else bx_g0;
     l_cbrt := fun x => x; l_sqrt := b64_sqrt mode_NE; l_floor := bx_floor |}.
Definition bx_get (o : option gmap) : gmap :=
  match o with Some g => g
  | None => {| gm_kind := MLog; gm_gamma := f64_zero; gm_off := f64_zero; gm_mult := f64_zero;
               gm_min := f64_zero; gm_max := f64_zero |} end.
Definition bx_lin : gmap := bx_get (with_accuracy bx_L MLin bx_alpha).
Definition bx_cub : gmap := bx_get (with_accuracy bx_L MCub bx_alpha).
Definition bx_log : gmap := bx_get (with_accuracy bx_L MLog bx_alpha).

(* the constructors accept 0.01; multiplier 49.99..., 35.00..., 49.99...; offsets 49.99..., 0, 0;
   MinIndexableValue 2^-1022 * 1.0202..., MaxIndexableValue 1.258...e308 *)
Lemma bx_constructed :
  map (fun k => option_map (fun g => (bits_of_f64 (gm_gamma g), bits_of_f64 (gm_off g), bits_of_f64 (gm_mult g),
                                      bits_of_f64 (gm_min g), bits_of_f64 (gm_max g)))
                           (with_accuracy bx_L k bx_alpha)) [MLin; MCub; MLog]
  = [Some (4607245288818281240, 4632233457158529878, 4632233457158529878, 4594581438024445, 9216167229727615264);
     Some (4607272501073408450, 0, 4630122465203820771, 4594581438024445, 9216167229727615264);
     Some (4607273400610671357, 0, 4632233457158529904, 4594581438024445, 9216167229727615264)]%N.
Proof. vm_compute. reflexivity. Qed.

(* premises of A *)
Lemma bx_checks : gm_checkb bx_lin = true /\ gm_checkb bx_cub = true /\ gm_checkb bx_log = true.
Proof. vm_compute. repeat split; reflexivity. Qed.
Lemma bx_kinds : gm_kind bx_lin = MLin /\ gm_kind bx_cub = MCub /\ gm_kind bx_log = MLog.
Proof. vm_compute. repeat split; reflexivity. Qed.
Lemma bx_log_oracle : log_monotone bx_L /\ log_bounded bx_L.
Proof.
  split.
  - intros a b _ _ _ _. cbn [bx_L l_log]. apply Rle_refl.
  - intros a _ _. cbn [bx_L l_log]. split; [reflexivity|].
    rewrite BR_fb. set (u := binary_float_of_bits_aux 52 11 _). vm_compute in u. subst u.
    unfold FF2R, F2R. cbn [Fnum Fexp cond_Zopp].
    change (bpow radix2 (-58)) with (/ IZR (Z.pow_pos 2 58))%R. change (Z.pow_pos 2 58) with 288230376151711744.
    rewrite Rabs_right.
    + apply Rmult_le_reg_r with (IZR 288230376151711744); [lra|]. field_simplify; lra.
    + apply Rle_ge. apply Rmult_le_pos; [lra|]. apply Rlt_le, Rinv_0_lt_compat. lra.
Qed.
Theorem bx_tables_ok :
  (mt_fok (mt_of_gmap bx_L bx_lin) /\ mt_fmono (mt_of_gmap bx_L bx_lin)) /\
  (mt_fok (mt_of_gmap bx_L bx_cub) /\ mt_fmono (mt_of_gmap bx_L bx_cub)) /\
  (mt_fok (mt_of_gmap bx_L bx_log) /\ mt_fmono (mt_of_gmap bx_L bx_log)).
Proof.
  destruct bx_checks as (C1 & C2 & C3). destruct bx_kinds as (K1 & K2 & K3). destruct bx_log_oracle as (O1 & O2).
  destruct (gm_checkb_ok _ C1) as (S1 & R1). destruct (gm_checkb_ok _ C2) as (S2 & R2).
  destruct (gm_checkb_ok _ C3) as (S3 & R3).
  split; [apply gmap_table_ok; [exact R1|now apply gm_index_good_lin]|].
  split; [apply gmap_table_ok; [exact R2|now apply gm_index_good_cub]|].
  apply gmap_table_ok; [exact R3|now apply gm_index_good_log].
Qed.

(* premises of B, linear mapping: 3.75, 100, 0.5, -3.75, 0.001, -100, 2.5, 0 into a dense positive
   and a paginated negative store *)
Definition bx_vs : list f64 :=
  map fb [4615626668101337088; 4636737291354636288; 4602678819172646912; 13838998704956112896;
          4562254508917369340; 13860109328209412096; 4612811918334230528; 0]%N.
Definition bx_sorted : list f64 :=
  map fb [13860109328209412096; 13838998704956112896; 0; 4562254508917369340; 4602678819172646912;
          4612811918334230528; 4615626668101337088; 4636737291354636288]%N.
Definition bx_mt : mtable := mt_of_gmap bx_L bx_lin.
Definition bx_map : mapid := {| mk_kind := 1%N; mk_gamma := gm_gamma bx_lin; mk_off := gm_off bx_lin |}.
(* the accuracy premise at one value, decided by computation on the glue model *)
Definition acc_okb (L : libm) (g : gmap) (alpha : Qc) (v : f64) : bool :=
  negb (wltb (f2q (gm_min g)) (f2q (fabs v))) ||
  wleb (Qcabs (f2q (gm_value L g (gm_index L g (fabs v))) - f2q (fabs v))%Qc) (alpha * f2q (fabs v))%Qc.
Lemma acc_okb_ok L g alpha vs :
  forallb (acc_okb L g alpha) vs = true ->
  forall v, In v vs -> (f2q (gm_min g) < f2q (fabs v))%Qc ->
    (Qcabs (f2q (gm_value L g (gm_index L g (fabs v))) - f2q (fabs v)) <= alpha * f2q (fabs v))%Qc.
Proof.
  intros H v Hv Hlt. rewrite forallb_forall in H. specialize (H v Hv). unfold acc_okb in H.
  apply orb_true_iff in H. destruct H as [H|H].
  - apply wltb_lt in Hlt. rewrite Hlt in H. discriminate H.
  - apply wleb_le. exact H.
Qed.

Lemma bx_perm : Permutation (map f2q bx_vs) (map f2q bx_sorted).
Proof.
  apply Permutation_map. unfold bx_vs, bx_sorted. cbn [map].
  apply (Permutation_cons_app [_; _; _; _; _; _] [_]).
  apply (Permutation_cons_app [_; _; _; _; _; _] []).
  apply (Permutation_cons_app [_; _; _; _] [_]).
  apply (Permutation_cons_app [_] [_; _; _]).
  apply (Permutation_cons_app [_; _] [_]).
  apply (Permutation_cons_app [] [_; _]).
  apply perm_swap.
Qed.
Lemma bx_sorted_ok : Sorted Qcle (map f2q bx_sorted).
Proof.
  unfold bx_sorted. cbn [map].
  repeat (first [apply Sorted_nil | apply Sorted_cons | apply HdRel_nil | apply HdRel_cons
                | apply wleb_le; vm_compute; reflexivity]).
Qed.

Example bx_quantile_by_theorem (q : f64) (kp kn : kind) (exact : bool) :
  kind_limit kp = Exact -> kind_limit kn = Exact ->
  fle f64_zero q = true -> fle q f64_one = true ->
  exists s, plain_add_units bx_mt (sk_new bx_map kp kn exact) bx_vs = ROk s /\ SkInv s /\
  exists (k : nat) (s' : sketch) (y : Qc),
    cfloor (f2q q * inj 7) <= Z.of_nat k <= cceil (f2q q * inj 7) /\ (k < 8)%nat /\
    plain_quantile rnd64 fx_all bx_mt s q = (s', ROk y) /\
    (((Qcabs (nth k (map f2q bx_sorted) w0) <= f2q (gm_min bx_lin))%Qc /\ y = w0) \/
     (Qcabs (y - nth k (map f2q bx_sorted) w0) <= f2q bx_alpha * Qcabs (nth k (map f2q bx_sorted) w0))%Qc).
Proof.
  intros Lp Ln Q0 Q1.
  destruct bx_checks as (C1 & _). destruct bx_kinds as (K1 & _). destruct (gm_checkb_ok _ C1) as (S1 & R1).
  destruct (gmap_quantile_accuracy_rnd64 bx_L bx_lin fx_all bx_map kp kn exact bx_vs (map f2q bx_sorted) q
              (f2q bx_alpha) R1 (gm_index_good_lin bx_L bx_lin K1 S1) Lp Ln eq_refl eq_refl)
    as (s & Es & Is & k & s' & y & B1 & B2 & Eq & _ & _ & _ & Acc).
  - unfold bx_vs. cbn [map]. repeat constructor.
  - assert (H : forallb (fun v => wleb (Qcabs (f2q v)) (f2q (gm_max bx_lin))) bx_vs = true) by (vm_compute; reflexivity).
    rewrite forallb_forall in H. intros v Hv. apply wleb_le. exact (H v Hv).
  - exact bx_perm.
  - exact bx_sorted_ok.
  - discriminate.
  - vm_compute. discriminate.
  - exact Q0.
  - exact Q1.
  - apply acc_okb_ok. vm_compute. reflexivity.
  - exists s. split; [exact Es|]. split; [exact Is|]. exists k, s', y.
    split; [exact B1|]. split; [exact B2|]. split; [exact Eq|exact Acc].
Qed.

(* and by computation: the answers at q = 0, 0.5, 1 are Value(Index(.)) of -100, 0.001, 100
   (-100.30..., 0.0010029..., 100.30...) *)
Example bx_quantile_computed :
  match plain_add_units bx_mt (sk_new bx_map KDense KPag false) bx_vs with
  | ROk s => map (fun q => match snd (plain_quantile rnd64 fx_all bx_mt s q) with
                           | ROk y => Some (bits_of_f64 (q2f y)) | _ => None end)
                 [f64_zero; fb 4602678819172646912; f64_one]
  | _ => []
  end = [Some 13860169471689488064; Some 4562281069595096390; Some 4636797434834712256]%N.
Proof. vm_compute. reflexivity. Qed.

(* D by computation: 0, 1, -0.5 and 2^-60 are refused (the last one by the gamma test: 1 + a and
   1 - a round to 1), 0.01 is accepted *)
Example bx_ctor_refusals :
  map (fun a => match with_accuracy bx_L MLog (fb a) with Some _ => true | None => false end)
      [0; 4607182418800017408; 13826050856027422720; 4336965041462968320; 4576918229304087675]%N
  = [false; false; false; false; true].
Proof. vm_compute. reflexivity. Qed.

(* ---- B per kind: linear and cubic need nothing of the oracle for the index; logarithmic needs a
   monotone bounded math.Log.  The accuracy premise (libm gap) stays in all three. ---- *)
Section PerKind.
Variables (L : libm) (g : gmap) (fx : fixes) (m : mapid) (kp kn : kind) (exact : bool)
          (vs : list f64) (ys : list Qc) (q : f64) (alpha : Qc).
Let concl : Prop :=
  let mt := mt_of_gmap L g in
  exists s, plain_add_units mt (sk_new m kp kn exact) vs = ROk s /\ SkInv s /\
  exists (k : nat) (s' : sketch) (y : Qc),
    cfloor (f2q q * inj (Z.of_nat (length vs) - 1)) <= Z.of_nat k <= cceil (f2q q * inj (Z.of_nat (length vs) - 1)) /\
    (k < length vs)%nat /\
    plain_quantile rnd64 fx mt s q = (s', ROk y) /\ SkInv s' /\ sk_abs s' = sk_abs s /\
    y = repr (am_of mt) (nth k ys w0) /\
    (((Qcabs (nth k ys w0) <= f2q (gm_min g))%Qc /\ y = w0) \/
     (Qcabs (y - nth k ys w0) <= alpha * Qcabs (nth k ys w0))%Qc).
Let prem : Prop -> Prop := fun C =>
  gm_small g -> gm_range_ok g ->
  kind_limit kp = Exact -> kind_limit kn = Exact ->
  fD4 fx = true -> fD5 fx = true ->
  Forall (fun v => f_is_finite v = true) vs ->
  (forall v, In v vs -> (Qcabs (f2q v) <= f2q (gm_max g))%Qc) ->
  Permutation (map f2q vs) ys -> Sorted Qcle ys -> vs <> [] -> Z.of_nat (length vs) <= 2 ^ 53 ->
  fle f64_zero q = true -> fle q f64_one = true ->
  (forall v, In v vs -> (f2q (gm_min g) < f2q (fabs v))%Qc ->
     (Qcabs (f2q (gm_value L g (gm_index L g (fabs v))) - f2q (fabs v)) <= alpha * f2q (fabs v))%Qc) ->
  C.
Theorem gmap_lin_quantile_accuracy_rnd64 : gm_kind g = MLin -> prem concl.
Proof.
  intros K S R. apply (gmap_quantile_accuracy_rnd64 L g fx m kp kn exact vs ys q alpha R).
  now apply gm_index_good_lin.
Qed.
Theorem gmap_cub_quantile_accuracy_rnd64 : gm_kind g = MCub -> prem concl.
Proof.
  intros K S R. apply (gmap_quantile_accuracy_rnd64 L g fx m kp kn exact vs ys q alpha R).
  now apply gm_index_good_cub.
Qed.
Theorem gmap_log_quantile_accuracy_rnd64 : gm_kind g = MLog -> log_monotone L -> log_bounded L -> prem concl.
Proof.
  intros K O1 O2 S R. apply (gmap_quantile_accuracy_rnd64 L g fx m kp kn exact vs ys q alpha R).
  now apply gm_index_good_log.
Qed.
End PerKind.

(* the snapped table discharges the all-rationals premises of Rf_* / C01 and is indistinguishable
   from the table itself for the executed functions *)
Theorem snapped_table (mt : mtable) :
  mt_fok mt -> mt_fmono mt ->
  mt_ok (snap_mt mt) /\ (w0 <= f2q (mt_min (snap_mt mt)))%Qc /\
  (forall x y : Qc, (f2q (mt_min (snap_mt mt)) < x)%Qc -> (x <= y)%Qc -> (y <= f2q (mt_max (snap_mt mt)))%Qc ->
                    mt_index (snap_mt mt) x <= mt_index (snap_mt mt) y) /\
  (forall s v c, plain_add (snap_mt mt) s v c = plain_add mt s v c) /\
  (forall s vs, plain_add_units (snap_mt mt) s vs = plain_add_units mt s vs) /\
  (forall rnd fx s q, plain_quantile rnd fx (snap_mt mt) s q = plain_quantile rnd fx mt s q) /\
  (forall v : f64, repr (am_of (snap_mt mt)) (f2q v) = repr (am_of mt) (f2q v)).
Proof.
  intros Hok Hm. split; [now apply snap_mt_ok|]. split; [exact (proj1 (proj2 (proj2 Hok)))|].
  split; [now apply snap_mt_mono|]. split; [intros; apply plain_add_snap|].
  split; [intros; apply plain_add_units_snap|]. split; [intros; apply plain_quantile_snap|]. intros; apply repr_snap.
Qed.
