(* C17 — change of mapping / unit: [DDSketch.ChangeMapping] and [changeStoreMapping]
   (ddsketch/ddsketch.go) in exact rational arithmetic, over abstract mappings.

     lower1, lower2 : Z -> Qc     LowerBound of the old / of the new mapping
     index2         : Qc -> Z     Index of the new mapping
     scale          : Qc          scaleFactor
     guard          : bool        true  = the repaired loop body ("if intersectionSize <= 0 { continue }")
                                  false = the legacy loop body (no such test)

   Part I  : the model (definitions only).
   Part II : proofs.  Stdlib + SK.Spec only, axiom-free.
   The statements meant to be read are restated in Props/ChangeMapping.v. *)
From SK Require Import Spec.Bins Spec.ASketch Spec.BinsProofs.
From Coq Require Import Lqa.

(* ====================================================================== *)
(** * Part I — the model (definitions only)                                *)
(* ====================================================================== *)

(* math.Max / math.Min on non-NaN operands *)
Definition qmax (a b : Qc) : Qc := if wltb a b then b else a.
Definition qmin (a b : Qc) : Qc := if wltb a b then a else b.

(* the hypotheses on mappings, as predicates (plain definitions, unfold them to read) *)
Definition incr (lower : Z -> Qc) : Prop := forall i j : Z, i < j -> (lower i < lower j)%Qc.
Definition positive (lower : Z -> Qc) : Prop := forall i : Z, (0 < lower i)%Qc.
Definition index_spec (lower : Z -> Qc) (index : Qc -> Z) : Prop :=
  forall x : Qc, (0 < x)%Qc -> (lower (index x) <= x)%Qc /\ (x < lower (index x + 1)%Z)%Qc.

Section Model.
Variables (lower1 lower2 : Z -> Qc) (index2 : Qc -> Z) (scale : Qc) (guard : bool).

(* inLowerBound / inHigherBound of source bin i *)
Definition in_low (i : Z) : Qc := wmul (lower1 i) scale.
Definition in_high (i : Z) : Qc := wmul (lower1 (i + 1)) scale.

(* intersectionSize of target bin [out] with the scaled source range [inLow, inHigh) *)
Definition isect (inLow inHigh : Qc) (out : Z) : Qc :=
  wsub (qmin (lower2 (out + 1)) inHigh) (qmax (lower2 out) inLow).
(* proportion * count *)
Definition share (inLow inHigh : Qc) (c : W) (out : Z) : W :=
  wmul (Qcdiv (isect inLow inHigh out) (wsub inHigh inLow)) c.
(* the "continue" test of the repaired code *)
Definition skips (inLow inHigh : Qc) (out : Z) : bool := guard && wleb (isect inLow inHigh out) w0.

(* the inner loop: for out := ...; newLower(out) < inHigh; out++ { ... }, with explicit fuel.
   One unit of fuel per evaluation of the loop condition; None = fuel exhausted. *)
Fixpoint bin_loop (fuel : nat) (inLow inHigh : Qc) (c : W) (out : Z) (acc : bins) : option bins :=
  match fuel with
  | O => None
  | S f =>
    if wltb (lower2 out) inHigh then
      if skips inLow inHigh out then bin_loop f inLow inHigh c (out + 1) acc
      else bin_loop f inLow inHigh c (out + 1) (badd0 acc out (share inLow inHigh c out))
    else Some acc
  end.

(* the body of the ForEach callback for the source bin (i, c) *)
Definition convert_bin (fuel : nat) (i : Z) (c : W) (acc : bins) : option bins :=
  bin_loop fuel (in_low i) (in_high i) c (index2 (in_low i)) acc.

(* the fuel used by the store conversion *)
Definition bin_fuel (i : Z) : nat := Z.to_nat (index2 (in_high i) - index2 (in_low i) + 2).

Fixpoint convert_bins (src : list (Z * W)) (acc : bins) : option bins :=
  match src with
  | [] => Some acc
  | (i, c) :: tl =>
    match convert_bin (bin_fuel i) i c acc with
    | Some acc' => convert_bins tl acc'
    | None => None
    end
  end.

(* changeStoreMapping into an empty store *)
Definition convert_store (b : bins) : option bins := convert_bins b [].

(* ChangeMapping without the shortcut *)
Definition convert_sketch (s : asketch) : option asketch :=
  match convert_store (a_pos s), convert_store (a_neg s) with
  | Some p, Some n => Some {| a_pos := p; a_neg := n; a_zero := a_zero s |}
  | _, _ => None
  end.

(* ChangeMapping; [same_mapping] = s.IndexMapping.Equals(newMapping) *)
Definition change_mapping (same_mapping : bool) (s : asketch) : option asketch :=
  if same_mapping && weqb scale w1 then Some s else convert_sketch s.

(* ---- the same loop, returning the list of AddWithCount calls it makes (the "trace");
        used only to state and prove the properties ---- *)
Fixpoint adds_loop (fuel : nat) (inLow inHigh : Qc) (c : W) (out : Z) : option (list (Z * W)) :=
  match fuel with
  | O => None
  | S f =>
    if wltb (lower2 out) inHigh then
      match adds_loop f inLow inHigh c (out + 1) with
      | Some l => Some (if skips inLow inHigh out then l else (out, share inLow inHigh c out) :: l)
      | None => None
      end
    else Some []
  end.
Definition bin_adds (fuel : nat) (i : Z) (c : W) : option (list (Z * W)) :=
  adds_loop fuel (in_low i) (in_high i) c (index2 (in_low i)).
Fixpoint store_adds (src : list (Z * W)) : option (list (Z * W)) :=
  match src with
  | [] => Some []
  | (i, c) :: tl =>
    match bin_adds (bin_fuel i) i c with
    | Some l => match store_adds tl with Some l' => Some (l ++ l') | None => None end
    | None => None
    end
  end.

(* "the scaled range of source bin i meets the range of target bin out" *)
Definition overlap (i out : Z) : Prop :=
  (lower2 out < in_high i)%Qc /\ (in_low i < lower2 (out + 1))%Qc.

End Model.

Arguments bin_loop : simpl never.
Arguments adds_loop : simpl never.

(* ---- the concrete tables of the legacy witness: the mapping of base 2 on both sides,
        scale 1001/1000, and an Index that answers one bin too low within 1/100 above the
        edge 2 (what float64 rounding does within an ulp of an edge) ---- *)
Definition ex_lower (k : Z) : Qc := Q2Qc (Qpower 2 k).
Definition ex_scale : Qc := Q2Qc (1001 # 1000).
Definition ex_index_exact (x : Qc) : Z :=
  if wltb x (Q2Qc 1) then -1 else if wltb x (Q2Qc 2) then 0 else if wltb x (Q2Qc 4) then 1
  else if wltb x (Q2Qc 8) then 2 else if wltb x (Q2Qc 16) then 3 else 4.
Definition ex_index_off (x : Qc) : Z :=
  if wltb x (Q2Qc 1) then -1 else if wltb x (Q2Qc (201 # 100)) then 0 else if wltb x (Q2Qc 4) then 1
  else if wltb x (Q2Qc 8) then 2 else if wltb x (Q2Qc 16) then 3 else 4.
Definition ex_src : bins := [(1, Q2Qc 1); (2, Q2Qc 1); (3, Q2Qc 1)].
(* readable form of a result *)
Definition bins_Q (b : bins) : list (Z * Q) := map (fun kw => (fst kw, this (snd kw))) b.

(* ====================================================================== *)
(** * Part II — proofs                                                     *)
(* ====================================================================== *)

(* ---------------------------------------------------------------------- *)
(** ** Arithmetic                                                          *)

Lemma qinv_pos (x : Qc) : (0 < x)%Qc -> (0 < / x)%Qc.
Proof.
  unfold Qclt. intros H.
  change (this (/ x)%Qc) with (Qred (/ this x)). rewrite Qred_correct.
  change (this 0%Qc) with 0%Q in *. apply Qinv_lt_0_compat. exact H.
Qed.

Ltac qcases :=
  unfold qmin, qmax in *;
  repeat match goal with
  | |- context [wltb ?a ?b] => destruct (wltb_spec a b)
  | H : context [wltb ?a ?b] |- _ => destruct (wltb_spec a b)
  end.

(* the intersection never exceeds the source range, and is positive only on an overlap *)
Lemma isect_pos_facts (a b u v : Qc) :
  (w0 < wsub (qmin u b) (qmax v a))%Qc -> (a < b)%Qc /\ (v < b)%Qc /\ (a < u)%Qc.
Proof. intros H. qcases; repeat split; wlra. Qed.

Lemma isect_pos (a b u v : Qc) :
  (a < b)%Qc -> (v < b)%Qc -> (a < u)%Qc -> (v < u)%Qc -> (w0 < wsub (qmin u b) (qmax v a))%Qc.
Proof. intros H1 H2 H3 H4. qcases; wlra. Qed.

(* clamp to [a, b] *)
Definition cl (a b x : Qc) : Qc := qmin (qmax x a) b.

Lemma cl_tele (a b u v : Qc) :
  (a < b)%Qc -> (v < b)%Qc -> (a < u)%Qc ->
  wadd (wsub (qmin u b) (qmax v a)) (wsub b (cl a b u)) = wsub b (cl a b v).
Proof. intros H1 H2 H3. unfold cl. qcases; wlra. Qed.
Lemma cl_high (a b v : Qc) : (a < b)%Qc -> (b <= v)%Qc -> cl a b v = b.
Proof. intros H1 H2. unfold cl. qcases; wlra. Qed.
Lemma cl_low (a b v : Qc) : (a < b)%Qc -> (v <= a)%Qc -> cl a b v = a.
Proof. intros H1 H2. unfold cl. qcases; wlra. Qed.

Lemma share_pos_gen (s d c : Qc) :
  (w0 < d)%Qc -> (w0 < s)%Qc -> (w0 < c)%Qc -> (w0 < wmul (Qcdiv s d) c)%Qc.
Proof.
  intros Hd Hs Hc. apply wpos_mul; [|exact Hc]. unfold Qcdiv.
  apply (wpos_mul s (/ d)%Qc); [exact Hs|]. apply qinv_pos. exact Hd.
Qed.
Lemma share_nonneg_gen (s d c : Qc) :
  (w0 < d)%Qc -> (w0 < s)%Qc -> (w0 <= c)%Qc -> (w0 <= wmul (Qcdiv s d) c)%Qc.
Proof.
  intros Hd Hs Hc. apply wnonneg_mul; [|exact Hc]. apply wpos_nonneg. unfold Qcdiv.
  apply (wpos_mul s (/ d)%Qc); [exact Hs|]. apply qinv_pos. exact Hd.
Qed.
Lemma share_factor (s d c : Qc) : wmul (Qcdiv s d) c = wmul s (wmul (/ d)%Qc c).
Proof. unfold Qcdiv. wring. Qed.
Lemma full_share (d c : Qc) : d <> w0 -> wmul d (wmul (/ d)%Qc c) = c.
Proof. intros Hd. unfold W, wmul, w0 in *. field. exact Hd. Qed.

Lemma incr_le (lower : Z -> Qc) : incr lower -> forall i j, i <= j -> (lower i <= lower j)%Qc.
Proof.
  intros Hm i j Hij. destruct (Z.eq_dec i j) as [E|E].
  - subst j. apply Qcle_refl.
  - apply Qclt_le_weak. apply Hm. lia.
Qed.
Lemma incr_lt_inv (lower : Z -> Qc) : incr lower -> forall i j, (lower i < lower j)%Qc -> i < j.
Proof.
  intros Hm i j H. destruct (Z.lt_ge_cases i j) as [Hlt|Hge]; [exact Hlt|].
  exfalso. apply (Qclt_not_le _ _ H). apply incr_le; [exact Hm|lia].
Qed.

(* sums: what a predicate-restricted sum can be when the keys are constrained *)
Lemma gsum_all (P : Z -> bool) (l : list (Z * W)) :
  (forall k, In k (map fst l) -> P k = true) -> gsum P l = gsum (fun _ => true) l.
Proof. intros H. apply gsum_ext. exact H. Qed.
Lemma gsum_neq0_In (P : Z -> bool) (l : list (Z * W)) :
  gsum P l <> w0 -> exists k, In k (map fst l) /\ P k = true.
Proof.
  induction l as [|[k w] tl IH]; intros H.
  - exfalso. apply H. reflexivity.
  - rewrite gsum_cons in H. destruct (P k) eqn:E.
    + exists k. split; [left; reflexivity|exact E].
    + destruct (IH H) as [k' [Hin Hk']]. exists k'. split; [right; exact Hin|exact Hk'].
Qed.
Lemma nonneg_app (a b : list (Z * W)) : nonneg a -> nonneg b -> nonneg (a ++ b).
Proof. unfold nonneg. intros Ha Hb. apply Forall_app. split; assumption. Qed.
Lemma pos_app (a b : list (Z * W)) : pos a -> pos b -> pos (a ++ b).
Proof. unfold pos. intros Ha Hb. apply Forall_app. split; assumption. Qed.

Section Proofs.
Variables (lower1 lower2 : Z -> Qc) (index2 : Qc -> Z) (scale : Qc) (guard : bool).

Local Notation in_low := (in_low lower1 scale).
Local Notation in_high := (in_high lower1 scale).
Local Notation isect := (isect lower2).
Local Notation share := (share lower2).
Local Notation skips := (skips lower2 guard).
Local Notation bin_loop := (bin_loop lower2 guard).
Local Notation adds_loop := (adds_loop lower2 guard).
Local Notation convert_bin := (convert_bin lower1 lower2 index2 scale guard).
Local Notation bin_adds := (bin_adds lower1 lower2 index2 scale guard).
Local Notation bin_fuel := (bin_fuel lower1 index2 scale).
Local Notation convert_bins := (convert_bins lower1 lower2 index2 scale guard).
Local Notation store_adds := (store_adds lower1 lower2 index2 scale guard).
Local Notation convert_store := (convert_store lower1 lower2 index2 scale guard).
Local Notation convert_sketch := (convert_sketch lower1 lower2 index2 scale guard).
Local Notation change_mapping := (change_mapping lower1 lower2 index2 scale guard).
Local Notation overlap := (overlap lower1 lower2 scale).

(* ---------------------------------------------------------------------- *)
(** ** Unfolding lemmas; the loop is "merge the trace into the accumulator" *)

Lemma bin_loop_S f a b c out acc :
  bin_loop (S f) a b c out acc =
    if wltb (lower2 out) b then
      if skips a b out then bin_loop f a b c (out + 1) acc
      else bin_loop f a b c (out + 1) (badd0 acc out (share a b c out))
    else Some acc.
Proof. reflexivity. Qed.
Lemma adds_loop_S f a b c out :
  adds_loop (S f) a b c out =
    if wltb (lower2 out) b then
      match adds_loop f a b c (out + 1) with
      | Some l => Some (if skips a b out then l else (out, share a b c out) :: l)
      | None => None
      end
    else Some [].
Proof. reflexivity. Qed.

Lemma bin_loop_adds fuel a b c : forall out acc,
  bin_loop fuel a b c out acc =
    match adds_loop fuel a b c out with Some l => Some (bmerge_list acc l) | None => None end.
Proof.
  induction fuel as [|f IH]; intros out acc; [reflexivity|].
  rewrite bin_loop_S, adds_loop_S. destruct (wltb (lower2 out) b); [|reflexivity].
  destruct (skips a b out); rewrite IH; destruct (adds_loop f a b c (out + 1)); reflexivity.
Qed.
Lemma convert_bin_adds fuel i c acc :
  convert_bin fuel i c acc =
    match bin_adds fuel i c with Some l => Some (bmerge_list acc l) | None => None end.
Proof. apply bin_loop_adds. Qed.
Lemma convert_bins_adds src : forall acc,
  convert_bins src acc =
    match store_adds src with Some l => Some (bmerge_list acc l) | None => None end.
Proof.
  induction src as [|[i c] tl IH]; intros acc; [reflexivity|].
  cbn [ChangeMapping.convert_bins ChangeMapping.store_adds].
  rewrite convert_bin_adds. destruct (bin_adds (bin_fuel i) i c) as [l|]; [|reflexivity].
  rewrite IH. destruct (store_adds tl) as [l'|]; [|reflexivity].
  rewrite bmerge_list_app. reflexivity.
Qed.
Lemma convert_store_adds b :
  convert_store b = match store_adds b with Some l => Some (bins_of_list l) | None => None end.
Proof. apply convert_bins_adds. Qed.

(* ---------------------------------------------------------------------- *)
(** ** 1. The guard alone: no hypothesis on the mappings, the index or the scale *)

Lemma adds_loop_guard fuel a b c :
  guard = true -> (w0 <= c)%Qc ->
  forall out l, adds_loop fuel a b c out = Some l ->
  nonneg l /\ ((w0 < c)%Qc -> pos l) /\
  Forall (fun kw => (lower2 (fst kw) < b)%Qc /\ (a < lower2 (fst kw + 1))%Qc) l.
Proof.
  intros Hg Hc. induction fuel as [|f IH]; intros out l H; [discriminate|].
  rewrite adds_loop_S in H. destruct (wltb_spec (lower2 out) b) as [Hlt|Hge].
  - destruct (adds_loop f a b c (out + 1)) as [l'|] eqn:E; [|discriminate].
    destruct (IH _ _ E) as [Hn [Hp Ho]].
    unfold ChangeMapping.skips in H. rewrite Hg in H. cbn [andb] in H.
    destruct (wleb_spec (isect a b out) w0) as [Hle|Hgt].
    + injection H as <-. repeat split; assumption.
    + injection H as <-.
      assert (Hs : (w0 < isect a b out)%Qc) by (apply Qcnot_le_lt; exact Hgt).
      destruct (isect_pos_facts _ _ _ _ Hs) as [Hab [Hvb Hau]].
      assert (Hd : (w0 < wsub b a)%Qc) by wlra.
      repeat split.
      * apply nonneg_cons. split; [|exact Hn]. apply share_nonneg_gen; assumption.
      * intros Hc'. apply pos_cons. split; [|exact (Hp Hc')]. apply share_pos_gen; assumption.
      * constructor; [|exact Ho]. cbn [fst]. split; assumption.
  - injection H as <-. repeat split; constructor.
Qed.

(* every weight the repaired loop adds is > 0 (for a source bin of weight > 0) *)
Theorem bin_adds_guard_pos fuel i c l :
  guard = true -> (w0 < c)%Qc -> bin_adds fuel i c = Some l -> pos l.
Proof.
  intros Hg Hc H.
  assert (Hc' : (w0 <= c)%Qc) by (apply wpos_nonneg; exact Hc).
  destruct (adds_loop_guard _ _ _ _ Hg Hc' _ _ H) as [_ [Hp _]]. exact (Hp Hc).
Qed.
Theorem bin_adds_guard_nonneg fuel i c l :
  guard = true -> (w0 <= c)%Qc -> bin_adds fuel i c = Some l -> nonneg l.
Proof. intros Hg Hc H. destruct (adds_loop_guard _ _ _ _ Hg Hc _ _ H) as [Hn _]. exact Hn. Qed.
Theorem bin_adds_guard_overlap fuel i c l :
  guard = true -> (w0 <= c)%Qc -> bin_adds fuel i c = Some l ->
  Forall (fun kw => overlap i (fst kw)) l.
Proof. intros Hg Hc H. destruct (adds_loop_guard _ _ _ _ Hg Hc _ _ H) as [_ [_ Ho]]. exact Ho. Qed.

Theorem convert_bin_guard fuel i c acc r :
  guard = true -> (w0 <= c)%Qc -> wf acc = true -> pos acc ->
  convert_bin fuel i c acc = Some r -> wf r = true /\ pos r.
Proof.
  intros Hg Hc Hwf Hp H. rewrite convert_bin_adds in H.
  destruct (bin_adds fuel i c) as [l|] eqn:E; [|discriminate]. injection H as <-.
  apply wf_pos_bmerge_list; [exact Hwf|exact Hp|]. eapply bin_adds_guard_nonneg; eassumption.
Qed.

Lemma store_adds_guard_nonneg src : guard = true -> nonneg src ->
  forall l, store_adds src = Some l -> nonneg l.
Proof.
  intros Hg. induction src as [|[i c] tl IH]; intros Hn l H.
  - injection H as <-. constructor.
  - apply nonneg_cons in Hn. destruct Hn as [Hc Hn].
    cbn [ChangeMapping.store_adds] in H.
    destruct (bin_adds (bin_fuel i) i c) as [l1|] eqn:E1; [|discriminate].
    destruct (store_adds tl) as [l2|] eqn:E2; [|discriminate]. injection H as <-.
    apply nonneg_app; [eapply bin_adds_guard_nonneg; eassumption|apply IH; [exact Hn|reflexivity]].
Qed.
Theorem convert_bins_guard src acc r :
  guard = true -> nonneg src -> wf acc = true -> pos acc ->
  convert_bins src acc = Some r -> wf r = true /\ pos r.
Proof.
  intros Hg Hn Hwf Hp H. rewrite convert_bins_adds in H.
  destruct (store_adds src) as [l|] eqn:E; [|discriminate]. injection H as <-.
  apply wf_pos_bmerge_list; [exact Hwf|exact Hp|]. eapply store_adds_guard_nonneg; eassumption.
Qed.
Theorem convert_store_guard b r :
  guard = true -> nonneg b -> convert_store b = Some r -> wf r = true /\ pos r.
Proof. intros Hg Hn H. eapply convert_bins_guard; try eassumption; [reflexivity|constructor]. Qed.
(* no bin of negative (or zero) weight *)
Theorem convert_store_guard_get b r j :
  guard = true -> nonneg b -> convert_store b = Some r -> (w0 <= get r j)%Qc.
Proof.
  intros Hg Hn H. destruct (convert_store_guard b r Hg Hn H) as [_ Hp].
  apply get_nonneg. apply pos_nonneg. exact Hp.
Qed.
Theorem convert_sketch_guard s s' :
  guard = true -> nonneg (a_pos s) -> nonneg (a_neg s) -> convert_sketch s = Some s' ->
  (wf (a_pos s') = true /\ pos (a_pos s')) /\ (wf (a_neg s') = true /\ pos (a_neg s')).
Proof.
  intros Hg Hp Hn H. unfold ChangeMapping.convert_sketch in H.
  destruct (convert_store (a_pos s)) as [p|] eqn:Ep; [|discriminate].
  destruct (convert_store (a_neg s)) as [n|] eqn:En; [|discriminate].
  injection H as <-. cbn [a_pos a_neg].
  split; [exact (convert_store_guard _ _ Hg Hp Ep)|exact (convert_store_guard _ _ Hg Hn En)].
Qed.

(* ---------------------------------------------------------------------- *)
(** ** 3/5. One source bin under the hypotheses on the new mapping         *)

(* the suffix of the loop starting at [out], when the previous edge is already above inLow:
   every visited target bin has a non-empty intersection (the guard never fires), and the
   shares telescope *)
Lemma adds_loop_exact fuel a b c :
  incr lower2 -> (a < b)%Qc ->
  forall out l, (a < lower2 (out + 1))%Qc -> adds_loop fuel a b c out = Some l ->
  ((w0 <= c)%Qc -> nonneg l) /\ ((w0 < c)%Qc -> pos l) /\
  Forall (fun kw => (lower2 (fst kw) < b)%Qc /\ (a < lower2 (fst kw + 1))%Qc) l /\
  gsum (fun _ => true) l = wmul (wsub b (cl a b (lower2 out))) (wmul (/ (wsub b a))%Qc c).
Proof.
  intros Hm Hab. induction fuel as [|f IH]; intros out l Hout H; [discriminate|].
  rewrite adds_loop_S in H. destruct (wltb_spec (lower2 out) b) as [Hlt|Hge].
  - destruct (adds_loop f a b c (out + 1)) as [l'|] eqn:E; [|discriminate].
    assert (Hstep : (lower2 out < lower2 (out + 1))%Qc) by (apply Hm; lia).
    assert (Hnext : (a < lower2 (out + 1 + 1))%Qc).
    { apply Qclt_trans with (lower2 (out + 1)); [exact Hout|]. apply Hm. lia. }
    destruct (IH _ _ Hnext E) as [Hn [Hp [Ho Hs]]].
    pose proof (isect_pos a b (lower2 (out + 1)) (lower2 out) Hab Hlt Hout Hstep) as Hpos.
    assert (Hd : (w0 < wsub b a)%Qc) by wlra.
    assert (Hsk : skips a b out = false).
    { unfold ChangeMapping.skips. destruct guard; [|reflexivity]. cbn [andb].
      apply wleb_gt. exact Hpos. }
    rewrite Hsk in H. injection H as <-. repeat split.
    + intros Hc. apply nonneg_cons. split; [|exact (Hn Hc)]. apply share_nonneg_gen; assumption.
    + intros Hc. apply pos_cons. split; [|exact (Hp Hc)]. apply share_pos_gen; assumption.
    + constructor; [|exact Ho]. cbn [fst]. split; assumption.
    + rewrite gsum_cons. cbv beta iota. rewrite Hs.
      unfold ChangeMapping.share. rewrite share_factor.
      rewrite <- (cl_tele a b (lower2 (out + 1)) (lower2 out) Hab Hlt Hout).
      unfold ChangeMapping.isect. wring.
  - injection H as <-. repeat split; try (intros _); try constructor.
    apply Qcnot_lt_le in Hge.
    rewrite gsum_nil. rewrite (cl_high a b (lower2 out) Hab Hge). wring.
Qed.

Lemma in_low_pos i : (w0 < scale)%Qc -> positive lower1 -> (0 < in_low i)%Qc.
Proof. intros Hs Hp. unfold ChangeMapping.in_low. apply (wpos_mul (lower1 i) scale); [apply Hp|exact Hs]. Qed.
Lemma in_low_high i : (w0 < scale)%Qc -> incr lower1 -> (in_low i < in_high i)%Qc.
Proof.
  intros Hs Hm. unfold ChangeMapping.in_low, ChangeMapping.in_high, wmul.
  apply Qcmult_lt_compat_r; [exact Hs|]. apply Hm. lia.
Qed.
Lemma in_high_pos i : (w0 < scale)%Qc -> positive lower1 -> (0 < in_high i)%Qc.
Proof. intros Hs Hp. unfold ChangeMapping.in_high. apply (wpos_mul (lower1 (i + 1)) scale); [apply Hp|exact Hs]. Qed.

(* what one source bin contributes, whenever the loop returns *)
Theorem bin_adds_exact fuel i c l :
  (w0 < scale)%Qc -> incr lower1 -> positive lower1 -> incr lower2 -> index_spec lower2 index2 ->
  bin_adds fuel i c = Some l ->
  ((w0 <= c)%Qc -> nonneg l) /\ ((w0 < c)%Qc -> pos l) /\
  Forall (fun kw => overlap i (fst kw)) l /\
  gsum (fun _ => true) l = c.
Proof.
  intros Hs Hm1 Hp1 Hm2 Hidx H.
  pose proof (in_low_pos i Hs Hp1) as Hlo. pose proof (in_low_high i Hs Hm1) as Hlh.
  destruct (Hidx (in_low i) Hlo) as [Hi1 Hi2].
  destruct (adds_loop_exact fuel (in_low i) (in_high i) c Hm2 Hlh _ _ Hi2 H) as [Hn [Hp [Ho Hsum]]].
  repeat split; try assumption.
  rewrite Hsum. rewrite (cl_low _ _ _ Hlh Hi1). apply full_share. wlra.
Qed.

Theorem convert_bin_total fuel i c acc r :
  (w0 < scale)%Qc -> incr lower1 -> positive lower1 -> incr lower2 -> index_spec lower2 index2 ->
  convert_bin fuel i c acc = Some r -> total r = wadd (total acc) c.
Proof.
  intros Hs Hm1 Hp1 Hm2 Hidx H. rewrite convert_bin_adds in H.
  destruct (bin_adds fuel i c) as [l|] eqn:E; [|discriminate]. injection H as <-.
  destruct (bin_adds_exact fuel i c l Hs Hm1 Hp1 Hm2 Hidx E) as [_ [_ [_ Hsum]]].
  rewrite total_bmerge_list, (total_gsum l), Hsum. reflexivity.
Qed.

(* ---------------------------------------------------------------------- *)
(** ** 4. Fuel                                                             *)

Lemma adds_loop_terminates a b c hi :
  incr lower2 -> (b < lower2 (hi + 1))%Qc ->
  forall fuel out, hi + 1 - out < Z.of_nat fuel -> (0 < fuel)%nat ->
  exists l, adds_loop fuel a b c out = Some l.
Proof.
  intros Hm Hhi. induction fuel as [|f IH]; intros out Hf H0; [lia|].
  rewrite adds_loop_S. destruct (wltb_spec (lower2 out) b) as [Hlt|Hge].
  - assert (Hout : out < hi + 1).
    { apply (incr_lt_inv lower2 Hm). apply Qclt_trans with b; assumption. }
    destruct (IH (out + 1)) as [l' E]; [lia|lia|]. rewrite E. eexists. reflexivity.
  - eexists. reflexivity.
Qed.

Theorem bin_adds_terminates i c fuel :
  (w0 < scale)%Qc -> incr lower1 -> positive lower1 -> incr lower2 -> index_spec lower2 index2 ->
  (bin_fuel i <= fuel)%nat -> exists l, bin_adds fuel i c = Some l.
Proof.
  intros Hs Hm1 Hp1 Hm2 Hidx Hf.
  pose proof (in_low_pos i Hs Hp1) as Hlo. pose proof (in_high_pos i Hs Hp1) as Hhi.
  pose proof (in_low_high i Hs Hm1) as Hlh.
  destruct (Hidx (in_low i) Hlo) as [Hl1 Hl2]. destruct (Hidx (in_high i) Hhi) as [Hh1 Hh2].
  assert (Hord : index2 (in_low i) < index2 (in_high i) + 1).
  { apply (incr_lt_inv lower2 Hm2).
    apply Qcle_lt_trans with (in_low i); [exact Hl1|].
    apply Qclt_trans with (in_high i); assumption. }
  unfold ChangeMapping.bin_fuel in Hf.
  apply (adds_loop_terminates (in_low i) (in_high i) c (index2 (in_high i)) Hm2 Hh2); lia.
Qed.

Theorem convert_bin_terminates i c acc fuel :
  (w0 < scale)%Qc -> incr lower1 -> positive lower1 -> incr lower2 -> index_spec lower2 index2 ->
  (bin_fuel i <= fuel)%nat -> exists r, convert_bin fuel i c acc = Some r.
Proof.
  intros Hs Hm1 Hp1 Hm2 Hidx Hf.
  destruct (bin_adds_terminates i c fuel Hs Hm1 Hp1 Hm2 Hidx Hf) as [l E].
  rewrite convert_bin_adds, E. eexists. reflexivity.
Qed.

(* ---------------------------------------------------------------------- *)
(** ** 3/5/7. The store: coupling between source and result                 *)

(* per source bin: a sum over the trace restricted to target bins satisfying P *)
Lemma bin_coupling_upper i c l (P : Z -> bool) (p' : bool) :
  (w0 <= c)%Qc -> nonneg l -> Forall (fun kw => overlap i (fst kw)) l ->
  gsum (fun _ => true) l = c ->
  (forall out, overlap i out -> P out = true -> p' = true) ->
  (gsum P l <= (if p' then c else w0))%Qc.
Proof.
  intros Hc Hn Ho Hs HP. destruct p'.
  - rewrite <- Hs. apply gsum_le; [exact Hn|reflexivity].
  - rewrite gsum_false; [apply Qcle_refl|]. intros k Hin.
    apply in_map_iff in Hin. destruct Hin as [kw [<- Hin]].
    rewrite Forall_forall in Ho. specialize (Ho kw Hin).
    destruct (P (fst kw)) eqn:E; [|reflexivity]. exfalso.
    specialize (HP _ Ho E). discriminate.
Qed.
Lemma bin_coupling_lower i c l (P : Z -> bool) (p' : bool) :
  (w0 <= c)%Qc -> nonneg l -> Forall (fun kw => overlap i (fst kw)) l ->
  gsum (fun _ => true) l = c ->
  (forall out, overlap i out -> p' = true -> P out = true) ->
  ((if p' then c else w0) <= gsum P l)%Qc.
Proof.
  intros Hc Hn Ho Hs HP. destruct p'.
  - rewrite gsum_all; [rewrite Hs; apply Qcle_refl|]. intros k Hin.
    apply in_map_iff in Hin. destruct Hin as [kw [<- Hin]].
    rewrite Forall_forall in Ho. apply HP; [apply Ho; exact Hin|reflexivity].
  - apply gsum_nonneg. exact Hn.
Qed.

Definition couples (b l : list (Z * W)) : Prop :=
  nonneg l /\
  (forall out, In out (map fst l) -> exists i, In i (map fst b) /\ overlap i out) /\
  (forall P P' : Z -> bool,
     (forall i out, overlap i out -> P out = true -> P' i = true) ->
     (gsum P l <= gsum P' b)%Qc) /\
  (forall P P' : Z -> bool,
     (forall i out, overlap i out -> P' i = true -> P out = true) ->
     (gsum P' b <= gsum P l)%Qc).

Theorem store_adds_spec b :
  (w0 < scale)%Qc -> incr lower1 -> positive lower1 -> incr lower2 -> index_spec lower2 index2 ->
  nonneg b -> exists l, store_adds b = Some l /\ couples b l.
Proof.
  intros Hs Hm1 Hp1 Hm2 Hidx. induction b as [|[i c] tl IH]; intros Hn.
  - exists []. split; [reflexivity|]. repeat split.
    + constructor.
    + intros out [].
    + intros P P' _. rewrite !gsum_nil. apply Qcle_refl.
    + intros P P' _. rewrite !gsum_nil. apply Qcle_refl.
  - apply nonneg_cons in Hn. destruct Hn as [Hc Hn].
    destruct (IH Hn) as [l2 [E2 [Hn2 [Hsup2 [Hup2 Hlo2]]]]].
    destruct (bin_adds_terminates i c (bin_fuel i) Hs Hm1 Hp1 Hm2 Hidx (le_n _)) as [l1 E1].
    destruct (bin_adds_exact _ i c l1 Hs Hm1 Hp1 Hm2 Hidx E1) as [Hn1 [_ [Ho1 Hs1]]].
    specialize (Hn1 Hc).
    exists (l1 ++ l2). split.
    { cbn [ChangeMapping.store_adds]. rewrite E1, E2. reflexivity. }
    repeat split.
    + apply nonneg_app; assumption.
    + intros out Hin. rewrite map_app in Hin. apply in_app_or in Hin. destruct Hin as [Hin|Hin].
      * exists i. split; [left; reflexivity|].
        apply in_map_iff in Hin. destruct Hin as [kw [<- Hin]].
        rewrite Forall_forall in Ho1. apply Ho1. exact Hin.
      * destruct (Hsup2 out Hin) as [i' [Hi' Hov]]. exists i'. split; [right; exact Hi'|exact Hov].
    + intros P P' HP. rewrite gsum_app, gsum_cons.
      pose proof (bin_coupling_upper i c l1 P (P' i) Hc Hn1 Ho1 Hs1 (HP i)) as H1.
      pose proof (Hup2 P P' HP) as H2.
      destruct (P' i); wlra.
    + intros P P' HP. rewrite gsum_app, gsum_cons.
      pose proof (bin_coupling_lower i c l1 P (P' i) Hc Hn1 Ho1 Hs1 (HP i)) as H1.
      pose proof (Hlo2 P P' HP) as H2.
      destruct (P' i); wlra.
Qed.

(* the same facts read on the converted store *)
Theorem convert_store_spec b :
  (w0 < scale)%Qc -> incr lower1 -> positive lower1 -> incr lower2 -> index_spec lower2 index2 ->
  nonneg b ->
  exists r, convert_store b = Some r /\ wf r = true /\ pos r /\
  (forall out, get r out <> w0 -> exists i, In i (map fst b) /\ overlap i out) /\
  (forall P P' : Z -> bool,
     (forall i out, overlap i out -> P out = true -> P' i = true) ->
     (gsum P r <= gsum P' b)%Qc) /\
  (forall P P' : Z -> bool,
     (forall i out, overlap i out -> P' i = true -> P out = true) ->
     (gsum P' b <= gsum P r)%Qc).
Proof.
  intros Hs Hm1 Hp1 Hm2 Hidx Hn.
  destruct (store_adds_spec b Hs Hm1 Hp1 Hm2 Hidx Hn) as [l [E [Hnl [Hsup [Hup Hlo]]]]].
  exists (bins_of_list l). rewrite convert_store_adds, E. split; [reflexivity|].
  split; [apply wf_bins_of_list; exact Hnl|]. split; [apply pos_bins_of_list; exact Hnl|].
  repeat split.
  - intros out Hg. rewrite (get_bins_of_list l out Hnl) in Hg. unfold lsum in Hg.
    destruct (gsum_neq0_In _ _ Hg) as [k [Hin Hk]]. apply Z.eqb_eq in Hk. subst k.
    apply Hsup. exact Hin.
  - intros P P' HP. rewrite gsum_bins_of_list. apply Hup. exact HP.
  - intros P P' HP. rewrite gsum_bins_of_list. apply Hlo. exact HP.
Qed.

Theorem convert_store_terminates b :
  (w0 < scale)%Qc -> incr lower1 -> positive lower1 -> incr lower2 -> index_spec lower2 index2 ->
  nonneg b -> exists r, convert_store b = Some r.
Proof.
  intros Hs Hm1 Hp1 Hm2 Hidx Hn.
  destruct (convert_store_spec b Hs Hm1 Hp1 Hm2 Hidx Hn) as [r [E _]]. exists r. exact E.
Qed.

Section StoreFacts.
Hypothesis scale_pos : (w0 < scale)%Qc.
Hypothesis lower1_incr : incr lower1.
Hypothesis lower1_pos : positive lower1.
Hypothesis lower2_incr : incr lower2.
Hypothesis index2_ok : index_spec lower2 index2.

Theorem convert_store_facts b r :
  nonneg b -> convert_store b = Some r ->
  wf r = true /\ pos r /\
  (forall out, get r out <> w0 -> exists i, In i (map fst b) /\ overlap i out) /\
  (forall P P' : Z -> bool,
     (forall i out, overlap i out -> P out = true -> P' i = true) ->
     (gsum P r <= gsum P' b)%Qc) /\
  (forall P P' : Z -> bool,
     (forall i out, overlap i out -> P' i = true -> P out = true) ->
     (gsum P' b <= gsum P r)%Qc).
Proof.
  intros Hn H.
  destruct (convert_store_spec b scale_pos lower1_incr lower1_pos lower2_incr index2_ok Hn)
    as [r' [E Hr']].
  rewrite H in E. injection E as <-. exact Hr'.
Qed.

Theorem convert_store_total b r :
  nonneg b -> convert_store b = Some r -> total r = total b.
Proof.
  intros Hn H. destruct (convert_store_facts b r Hn H) as [_ [_ [_ [Hup Hlo]]]].
  rewrite !total_gsum.
  pose proof (Hup (fun _ => true) (fun _ => true) (fun _ _ _ _ => eq_refl)) as H1.
  pose proof (Hlo (fun _ => true) (fun _ => true) (fun _ _ _ _ => eq_refl)) as H2.
  apply Qcle_antisym; assumption.
Qed.

Theorem convert_store_support b r out :
  wf b = true -> nonneg b -> convert_store b = Some r -> get r out <> w0 ->
  exists i, get b i <> w0 /\ overlap i out.
Proof.
  intros Hwf Hn H Hg. destruct (convert_store_facts b r Hn H) as [_ [_ [Hsup _]]].
  destruct (Hsup out Hg) as [i [Hin Hov]]. exists i. split; [|exact Hov].
  apply In_get_neq0; assumption.
Qed.

(* mass transport: for every threshold t,
   result mass in target bins entirely below t  <=  source mass in bins starting below t,
   source mass in bins entirely below t         <=  result mass in target bins starting below t *)
Theorem convert_store_transport b r (t : Qc) :
  nonneg b -> convert_store b = Some r ->
  (gsum (fun out => wleb (lower2 (out + 1)) t) r <= gsum (fun i => wltb (in_low i) t) b)%Qc /\
  (gsum (fun i => wleb (in_high i) t) b <= gsum (fun out => wltb (lower2 out) t) r)%Qc.
Proof.
  intros Hn H. destruct (convert_store_facts b r Hn H) as [_ [_ [_ [Hup Hlo]]]]. split.
  - apply Hup. intros i out [_ Ho] Hp. apply wleb_le in Hp. apply wltb_lt.
    apply Qclt_le_trans with (lower2 (out + 1)); assumption.
  - apply Hlo. intros i out [Ho _] Hp. apply wleb_le in Hp. apply wltb_lt.
    apply Qclt_le_trans with (in_high i); assumption.
Qed.

Theorem convert_sketch_terminates s :
  nonneg (a_pos s) -> nonneg (a_neg s) -> exists s', convert_sketch s = Some s'.
Proof.
  intros Hp Hn.
  destruct (convert_store_terminates _ scale_pos lower1_incr lower1_pos lower2_incr index2_ok Hp) as [p Ep].
  destruct (convert_store_terminates _ scale_pos lower1_incr lower1_pos lower2_incr index2_ok Hn) as [n En].
  unfold ChangeMapping.convert_sketch. rewrite Ep, En. eexists. reflexivity.
Qed.

Theorem convert_sketch_count s s' :
  nonneg (a_pos s) -> nonneg (a_neg s) -> convert_sketch s = Some s' ->
  a_count s' = a_count s /\ total (a_pos s') = total (a_pos s) /\
  total (a_neg s') = total (a_neg s) /\ a_zero s' = a_zero s.
Proof.
  intros Hp Hn H. unfold ChangeMapping.convert_sketch in H.
  destruct (convert_store (a_pos s)) as [p|] eqn:Ep; [|discriminate].
  destruct (convert_store (a_neg s)) as [n|] eqn:En; [|discriminate].
  injection H as <-. unfold a_count. cbn [a_pos a_neg a_zero].
  rewrite (convert_store_total _ _ Hp Ep), (convert_store_total _ _ Hn En).
  repeat split; reflexivity.
Qed.

(* everything at once, with the concrete fuel: the conversion returns, and ... *)
Theorem convert_store_correct b :
  nonneg b ->
  exists r, convert_store b = Some r /\ wf r = true /\ pos r /\ total r = total b.
Proof.
  intros Hn.
  destruct (convert_store_terminates _ scale_pos lower1_incr lower1_pos lower2_incr index2_ok Hn) as [r E].
  exists r. split; [exact E|].
  destruct (convert_store_facts b r Hn E) as [Hwf [Hp _]].
  split; [exact Hwf|]. split; [exact Hp|]. apply convert_store_total; assumption.
Qed.
Theorem convert_sketch_correct s :
  nonneg (a_pos s) -> nonneg (a_neg s) ->
  exists s', convert_sketch s = Some s' /\ a_count s' = a_count s /\ a_zero s' = a_zero s /\
    total (a_pos s') = total (a_pos s) /\ total (a_neg s') = total (a_neg s) /\
    wf (a_pos s') = true /\ pos (a_pos s') /\ wf (a_neg s') = true /\ pos (a_neg s').
Proof.
  intros Hp Hn. destruct (convert_sketch_terminates s Hp Hn) as [s' E]. exists s'.
  split; [exact E|].
  destruct (convert_sketch_count s s' Hp Hn E) as [H1 [H2 [H3 H4]]].
  split; [exact H1|]. split; [exact H4|]. split; [exact H2|]. split; [exact H3|].
  unfold ChangeMapping.convert_sketch in E.
  destruct (convert_store (a_pos s)) as [p|] eqn:Ep; [|discriminate].
  destruct (convert_store (a_neg s)) as [n|] eqn:En; [|discriminate].
  injection E as <-. cbn [a_pos a_neg].
  destruct (convert_store_facts _ _ Hp Ep) as [Hw1 [Hp1 _]].
  destruct (convert_store_facts _ _ Hn En) as [Hw2 [Hp2 _]].
  repeat split; assumption.
Qed.
End StoreFacts.

(* ---------------------------------------------------------------------- *)
(** ** Consistency of the shortcut: without it, converting between equal mappings at
       scale 1 is the identity as well                                      *)

Lemma index_of_lower k :
  incr lower2 -> index_spec lower2 index2 -> (0 < lower2 k)%Qc -> index2 (lower2 k) = k.
Proof.
  intros Hm Hidx Hk. destruct (Hidx _ Hk) as [H1 H2].
  pose proof (incr_lt_inv lower2 Hm _ _ H2) as Hlt.
  destruct (Z.lt_ge_cases k (index2 (lower2 k))) as [Hc|Hc]; [|lia].
  exfalso. apply (Qclt_not_le _ _ (Hm _ _ Hc)). exact H1.
Qed.
Lemma qmin_same x : qmin x x = x.
Proof. unfold qmin. destruct (wltb x x); reflexivity. Qed.
Lemma qmax_same x : qmax x x = x.
Proof. unfold qmax. destruct (wltb x x); reflexivity. Qed.

Lemma bin_adds_same i c :
  (forall k, lower1 k = lower2 k) -> scale = w1 -> positive lower1 -> incr lower2 ->
  index_spec lower2 index2 -> bin_adds (bin_fuel i) i c = Some [(i, c)].
Proof.
  intros Heq Hs Hp1 Hm Hidx.
  assert (Hlo : in_low i = lower2 i).
  { unfold ChangeMapping.in_low. rewrite Heq, Hs. wring. }
  assert (Hhi : in_high i = lower2 (i + 1)).
  { unfold ChangeMapping.in_high. rewrite Heq, Hs. wring. }
  assert (Hpos : forall k, (0 < lower2 k)%Qc) by (intros k; rewrite <- Heq; apply Hp1).
  unfold ChangeMapping.bin_adds, ChangeMapping.bin_fuel. rewrite Hlo, Hhi.
  rewrite !(index_of_lower _ Hm Hidx (Hpos _)).
  replace (i + 1 - i + 2) with 3 by lia. change (Z.to_nat 3) with 3%nat.
  assert (Hab : (lower2 i < lower2 (i + 1))%Qc) by (apply Hm; lia).
  rewrite adds_loop_S. destruct (wltb_spec (lower2 i) (lower2 (i + 1))) as [_|H1]; [|contradiction].
  rewrite adds_loop_S. destruct (wltb_spec (lower2 (i + 1)) (lower2 (i + 1))) as [H2|_].
  { exfalso. apply (Qclt_not_le _ _ H2). apply Qcle_refl. }
  assert (Hi : isect (lower2 i) (lower2 (i + 1)) i = wsub (lower2 (i + 1)) (lower2 i)).
  { unfold ChangeMapping.isect. rewrite qmin_same, qmax_same. reflexivity. }
  assert (Hd : (w0 < wsub (lower2 (i + 1)) (lower2 i))%Qc) by wlra.
  assert (Hsk : skips (lower2 i) (lower2 (i + 1)) i = false).
  { unfold ChangeMapping.skips. rewrite Hi. destruct guard; [|reflexivity]. cbn [andb].
    apply wleb_gt. exact Hd. }
  rewrite Hsk. unfold ChangeMapping.share. rewrite Hi, share_factor, full_share; [reflexivity|].
  apply wpos_neq. exact Hd.
Qed.

Theorem convert_store_same b :
  (forall k, lower1 k = lower2 k) -> scale = w1 -> positive lower1 -> incr lower2 ->
  index_spec lower2 index2 -> wf b = true -> pos b -> convert_store b = Some b.
Proof.
  intros Heq Hs Hp1 Hm Hidx Hwf Hp.
  assert (Hl : forall l : list (Z * W), store_adds l = Some l).
  { induction l as [|[i c] tl IH]; [reflexivity|].
    cbn [ChangeMapping.store_adds]. rewrite (bin_adds_same i c Heq Hs Hp1 Hm Hidx), IH. reflexivity. }
  rewrite convert_store_adds, Hl. rewrite (bins_of_list_canon b Hwf Hp). reflexivity.
Qed.

(* ---------------------------------------------------------------------- *)
(** ** 6. Identity shortcut, zero weight                                   *)

Theorem change_mapping_identity s : scale = w1 -> change_mapping true s = Some s.
Proof.
  intros Hs. unfold ChangeMapping.change_mapping. cbn [andb].
  apply weqb_eq in Hs. rewrite Hs. reflexivity.
Qed.
Theorem convert_sketch_zero s s' : convert_sketch s = Some s' -> a_zero s' = a_zero s.
Proof.
  intros H. unfold ChangeMapping.convert_sketch in H.
  destruct (convert_store (a_pos s)) as [p|]; [|discriminate].
  destruct (convert_store (a_neg s)) as [n|]; [|discriminate].
  injection H as <-. reflexivity.
Qed.
Theorem change_mapping_zero same s s' : change_mapping same s = Some s' -> a_zero s' = a_zero s.
Proof.
  unfold ChangeMapping.change_mapping. destruct (same && weqb scale w1).
  - intros H. injection H as <-. reflexivity.
  - apply convert_sketch_zero.
Qed.
Theorem change_mapping_not_same s : change_mapping false s = convert_sketch s.
Proof. reflexivity. Qed.

End Proofs.

(* ---------------------------------------------------------------------- *)
(** ** 2. The legacy witness                                               *)

Theorem legacy_witness :
  exists r : bins,
    convert_store ex_lower ex_lower ex_index_off ex_scale false ex_src = Some r /\
    (get r 0 < w0)%Qc.
Proof. eexists. split; [vm_compute; reflexivity|vm_compute; reflexivity]. Qed.

Theorem legacy_not_nonneg :
  ~ (forall (lower1 lower2 : Z -> Qc) (index2 : Qc -> Z) (scale : Qc) (b r : bins),
       nonneg b -> convert_store lower1 lower2 index2 scale false b = Some r -> nonneg r).
Proof.
  intros H. destruct legacy_witness as [r [E Hneg]].
  assert (Hsrc : nonneg ex_src) by (apply nonnegb_nonneg; vm_compute; reflexivity).
  pose proof (get_nonneg r 0 (H _ _ _ _ _ _ Hsrc E)) as Hg.
  exact (Qclt_not_le _ _ Hneg Hg).
Qed.

(* constants Q2Qc q, for lra *)
Ltac qconst :=
  repeat match goal with
  | |- context [this (Q2Qc ?q)] =>
    let v := eval vm_compute in (this (Q2Qc q)) in change (this (Q2Qc q)) with v
  | H : context [this (Q2Qc ?q)] |- _ =>
    let v := eval vm_compute in (this (Q2Qc q)) in change (this (Q2Qc q)) with v in H
  end.
Ltac qlra := unfold Qcle, Qclt in *; qconst; lra.

Theorem ex_index_off_spec (x : Qc) :
  ex_index_off x = ex_index_exact x \/
  ((Q2Qc 2 <= x)%Qc /\ (x < Q2Qc (201 # 100))%Qc /\ ex_index_off x = ex_index_exact x - 1).
Proof.
  unfold ex_index_off, ex_index_exact.
  destruct (wltb_spec x (Q2Qc 1)) as [H1|H1]; [left; reflexivity|].
  destruct (wltb_spec x (Q2Qc 2)) as [H2|H2];
    destruct (wltb_spec x (Q2Qc (201 # 100))) as [H3|H3].
  - left. reflexivity.
  - exfalso. apply H3. qlra.
  - apply Qcnot_lt_le in H2. destruct (wltb_spec x (Q2Qc 4)) as [H4|H4].
    + right. split; [exact H2|]. split; [exact H3|reflexivity].
    + exfalso. apply H4. qlra.
  - left. reflexivity.
Qed.

(* ---------------------------------------------------------------------- *)
(** ** 1 (bis). The guard lemmas, specialised to the repaired body [guard := true] *)

Theorem repaired_adds_pos lower1 lower2 index2 scale fuel i c l :
  (w0 < c)%Qc -> bin_adds lower1 lower2 index2 scale true fuel i c = Some l -> pos l.
Proof. apply bin_adds_guard_pos. reflexivity. Qed.
Theorem repaired_adds_overlap lower1 lower2 index2 scale fuel i c l :
  (w0 <= c)%Qc -> bin_adds lower1 lower2 index2 scale true fuel i c = Some l ->
  Forall (fun kw => overlap lower1 lower2 scale i (fst kw)) l.
Proof. apply bin_adds_guard_overlap. reflexivity. Qed.
Theorem repaired_bin lower1 lower2 index2 scale fuel i c acc r :
  (w0 <= c)%Qc -> wf acc = true -> pos acc ->
  convert_bin lower1 lower2 index2 scale true fuel i c acc = Some r -> wf r = true /\ pos r.
Proof. apply convert_bin_guard. reflexivity. Qed.
Theorem repaired_store lower1 lower2 index2 scale b r :
  nonneg b -> convert_store lower1 lower2 index2 scale true b = Some r -> wf r = true /\ pos r.
Proof. apply convert_store_guard. reflexivity. Qed.
Theorem repaired_store_get lower1 lower2 index2 scale b r j :
  nonneg b -> convert_store lower1 lower2 index2 scale true b = Some r -> (w0 <= get r j)%Qc.
Proof. apply convert_store_guard_get. reflexivity. Qed.
Theorem repaired_sketch lower1 lower2 index2 scale s s' :
  nonneg (a_pos s) -> nonneg (a_neg s) ->
  convert_sketch lower1 lower2 index2 scale true s = Some s' ->
  (wf (a_pos s') = true /\ pos (a_pos s')) /\ (wf (a_neg s') = true /\ pos (a_neg s')).
Proof. apply convert_sketch_guard. reflexivity. Qed.
