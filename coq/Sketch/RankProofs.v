(* The central accuracy theorem of the sketch, on the Layer A model (Spec/ASketch.v):
   [a_quantile] returns the representative of an order statistic of the absorbed values whose
   position is bracketed by floor/ceil of q*(n-1) (unit weights, Theorem A), resp. by the
   cumulative weights (weighted, Theorem B).  Stdlib only, axiom-free. *)
From SK Require Import Spec.Bins Spec.BinsProofs Spec.ASketch.
From Coq Require Import Lqa Permutation Sorted Qround Qcabs.

Local Open Scope Qc_scope.

(* ================================================================== *)
(** * 0. Integers inside the weights; floor and ceiling                *)
(* ================================================================== *)

Definition inj (z : Z) : Qc := Q2Qc (inject_Z z).
Definition cfloor (x : Qc) : Z := Qfloor (this x).
Definition cceil (x : Qc) : Z := Qceiling (this x).

Lemma this_inj z : (this (inj z) == inject_Z z)%Q.
Proof. unfold inj. cbn [this Q2Qc]. apply Qred_correct. Qed.
Lemma inj_0 : inj 0 = w0.
Proof. reflexivity. Qed.
Lemma inj_1 : inj 1 = w1.
Proof. reflexivity. Qed.
Lemma inj_plus a b : inj (a + b) = inj a + inj b.
Proof. apply Qc_is_canon. rewrite this_plus, !this_inj, inject_Z_plus. reflexivity. Qed.
Lemma inj_opp a : inj (- a) = - inj a.
Proof. apply Qc_is_canon. rewrite this_opp, !this_inj, inject_Z_opp. reflexivity. Qed.
Lemma inj_minus a b : inj (a - b) = inj a - inj b.
Proof. unfold Z.sub, Qcminus. rewrite inj_plus, inj_opp. reflexivity. Qed.
Lemma inj_le a b : (a <= b)%Z <-> inj a <= inj b.
Proof. unfold Qcle. rewrite !this_inj, <- Zle_Qle. reflexivity. Qed.
Lemma inj_lt a b : (a < b)%Z <-> inj a < inj b.
Proof. unfold Qclt. rewrite !this_inj, <- Zlt_Qlt. reflexivity. Qed.

Lemma inj_mono a b : (a <= b)%Z -> inj a <= inj b.
Proof. apply inj_le. Qed.
Lemma inj_mono_lt a b : (a < b)%Z -> inj a < inj b.
Proof. apply inj_lt. Qed.
Lemma inj_nonneg a : (0 <= a)%Z -> 0 <= inj a.
Proof. intros H. change 0 with (inj 0). apply inj_mono. exact H. Qed.

Lemma cfloor_le x : inj (cfloor x) <= x.
Proof. unfold Qcle, cfloor. rewrite this_inj. apply Qfloor_le. Qed.
Lemma cfloor_lt x : x < inj (cfloor x + 1).
Proof. unfold Qclt, cfloor. rewrite this_inj. apply Qlt_floor. Qed.
Lemma cceil_ge x : x <= inj (cceil x).
Proof. unfold Qcle, cceil. rewrite this_inj. apply Qle_ceiling. Qed.
Lemma cceil_lt x : inj (cceil x - 1) < x.
Proof. unfold Qclt, cceil. rewrite this_inj. apply Qceiling_lt. Qed.

Lemma cfloor_spec z x : inj z <= x -> (z <= cfloor x)%Z.
Proof.
  intros H. pose proof (cfloor_lt x) as H1.
  assert (H2 : inj z < inj (cfloor x + 1)) by (eapply Qcle_lt_trans; eassumption).
  apply inj_lt in H2. lia.
Qed.
Lemma cfloor_ub z x : x < inj z -> (cfloor x < z)%Z.
Proof.
  intros H. pose proof (cfloor_le x) as H1.
  apply inj_lt. eapply Qcle_lt_trans; eassumption.
Qed.
Lemma cceil_spec z x : x <= inj z -> (cceil x <= z)%Z.
Proof.
  intros H. pose proof (cceil_lt x) as H1.
  assert (H2 : inj (cceil x - 1) < inj z) by (eapply Qclt_le_trans; eassumption).
  apply inj_lt in H2. lia.
Qed.
Lemma cceil_lb z x : inj z < x -> (z < cceil x)%Z.
Proof.
  intros H. pose proof (cceil_ge x) as H1.
  apply inj_lt. eapply Qclt_le_trans; eassumption.
Qed.
Lemma cfloor_le_cceil x : (cfloor x <= cceil x)%Z.
Proof. unfold cfloor, cceil. rewrite Zle_Qle. apply Qle_floor_ceiling. Qed.
Lemma cfloor_inj z : cfloor (inj z) = z.
Proof.
  pose proof (cfloor_le (inj z)) as H1. pose proof (cfloor_lt (inj z)) as H2.
  apply inj_le in H1. apply inj_lt in H2. lia.
Qed.
Lemma cceil_inj z : cceil (inj z) = z.
Proof.
  pose proof (cceil_ge (inj z)) as H1. pose proof (cceil_lt (inj z)) as H2.
  apply inj_le in H1. apply inj_lt in H2. lia.
Qed.

(* [wlra] extended with opposites *)
Ltac qlra :=
  unfold W, w0, w1, wadd, wmul, wsub in *;
  repeat match goal with
  | H : @eq Qc _ _ |- _ => apply Qc_eq_iff in H
  | H : ~ @eq Qc _ _ |- _ => rewrite Qc_eq_iff in H
  | |- @eq Qc _ _ => apply Qc_is_canon
  | |- ~ @eq Qc _ _ => rewrite Qc_eq_iff
  end;
  unfold Qcle, Qclt in *;
  repeat match goal with
  | |- context [this (?a + ?b)%Qc] => rewrite (this_plus a b)
  | |- context [this (?a * ?b)%Qc] => rewrite (this_mult a b)
  | |- context [this (?a - ?b)%Qc] => rewrite (this_minus a b)
  | |- context [this (- ?a)%Qc] => rewrite (this_opp a)
  | H : context [this (?a + ?b)%Qc] |- _ => rewrite (this_plus a b) in H
  | H : context [this (?a - ?b)%Qc] |- _ => rewrite (this_minus a b) in H
  | H : context [this (?a * ?b)%Qc] |- _ => rewrite (this_mult a b) in H
  | H : context [this (- ?a)%Qc] |- _ => rewrite (this_opp a) in H
  end;
  change (this (Q2Qc 0)) with 0%Q in *; change (this (Q2Qc 1)) with 1%Q in *;
  lra.

(* integer facts pushed into the weights, then [wlra] *)
Ltac inj_push :=
  rewrite ?inj_plus, ?inj_minus, ?inj_opp, ?inj_1, ?inj_0 in *.

(* the position selected inside a store by a (possibly negative) rank *)
Lemma floor_nat_cond r :
  let t := Z.to_nat (cfloor r) in
  (inj (Z.of_nat t) <= r \/ t = 0%nat) /\ r < inj (Z.of_nat t) + w1.
Proof.
  cbv zeta. pose proof (cfloor_le r) as H1. pose proof (cfloor_lt r) as H2.
  rewrite inj_plus, inj_1 in H2.
  destruct (Z.lt_ge_cases (cfloor r) 0) as [Hn|Hn].
  - replace (Z.to_nat (cfloor r)) with 0%nat by lia. split; [right; reflexivity|].
    assert (H3 : (cfloor r + 1 <= 0)%Z) by lia. apply inj_le in H3.
    rewrite inj_plus, inj_1 in H3. change (Z.of_nat 0) with 0%Z. rewrite inj_0 in *. wlra.
  - rewrite Z2Nat.id by lia. split; [left; exact H1|exact H2].
Qed.

(* ================================================================== *)
(** * 1. The bracket lemma (rank arithmetic under rounding)            *)
(* ================================================================== *)

Section Bracket.
Variable rnd : Qc -> Qc.
Variable B : Z.
Hypothesis rnd_mono : forall x y, x <= y -> rnd x <= rnd y.
Hypothesis rnd_int : forall z : Z, (Z.abs z <= B)%Z -> rnd (inj z) = inj z.

(* rounding never crosses an integer of magnitude <= B *)
Lemma rnd_ge_int z x : (Z.abs z <= B)%Z -> inj z <= x -> inj z <= rnd x.
Proof. intros Hz H. rewrite <- (rnd_int z Hz). apply rnd_mono. exact H. Qed.
Lemma rnd_le_int z x : (Z.abs z <= B)%Z -> x <= inj z -> rnd x <= inj z.
Proof. intros Hz H. rewrite <- (rnd_int z Hz). apply rnd_mono. exact H. Qed.
Lemma rnd_lt_int z x : (Z.abs z <= B)%Z -> rnd x < inj z -> x < inj z.
Proof.
  intros Hz H. apply Qcnot_le_lt. intros Hle.
  pose proof (rnd_ge_int z x Hz Hle) as H1. exact (Qclt_not_le _ _ H H1).
Qed.
Lemma rnd_gt_int z x : (Z.abs z <= B)%Z -> inj z < rnd x -> inj z < x.
Proof.
  intros Hz H. apply Qcnot_le_lt. intros Hle.
  pose proof (rnd_le_int z x Hz Hle) as H1. exact (Qclt_not_le _ _ H H1).
Qed.

Lemma mul_bracket q (c : Qc) : 0 <= q -> q <= 1 -> 0 <= c -> 0 <= q * c /\ q * c <= c.
Proof.
  intros H0 H1 Hc. split.
  - pose proof (Qcmult_le_compat_r 0 q c H0 Hc) as H. rewrite Qcmult_0_l in H. exact H.
  - pose proof (Qcmult_le_compat_r q 1 c H1 Hc) as H. rewrite Qcmult_1_l in H. exact H.
Qed.

(* rho := rnd (q * rnd (n-1)) is bracketed by the floor and the ceiling of the exact rank
   r := q * (n-1); consequently floor r <= floor rho and ceil rho <= ceil r *)
Theorem rank_bracket (n : Z) (q : Qc) :
  (1 <= n <= B)%Z -> 0 <= q -> q <= 1 ->
  let r := q * inj (n - 1) in
  let rho := rnd (q * rnd (inj (n - 1))) in
  (0 <= cfloor r)%Z /\ (cceil r <= n - 1)%Z /\
  inj (cfloor r) <= rho /\ rho <= inj (cceil r) /\
  (cfloor r <= cfloor rho)%Z /\ (cceil rho <= cceil r)%Z.
Proof.
  intros Hn Hq0 Hq1. cbv zeta.
  rewrite (rnd_int (n - 1)) by lia.
  assert (Hc : 0 <= inj (n - 1)).
  { apply inj_nonneg. lia. }
  destruct (mul_bracket q (inj (n - 1)) Hq0 Hq1 Hc) as [Hr0 Hr1].
  set (r := q * inj (n - 1)) in *.
  assert (Hf0 : (0 <= cfloor r)%Z) by (apply cfloor_spec; exact Hr0).
  assert (Hc1 : (cceil r <= n - 1)%Z) by (apply cceil_spec; exact Hr1).
  pose proof (cfloor_le_cceil r) as Hfc.
  assert (H1 : inj (cfloor r) <= rnd r).
  { apply rnd_ge_int; [lia|apply cfloor_le]. }
  assert (H2 : rnd r <= inj (cceil r)).
  { apply rnd_le_int; [lia|apply cceil_ge]. }
  split; [exact Hf0|]. split; [exact Hc1|]. split; [exact H1|]. split; [exact H2|].
  split; [apply cfloor_spec; exact H1|apply cceil_spec; exact H2].
Qed.
End Bracket.

(* ================================================================== *)
(** * 2. Selection inside a store built from a key-sorted list         *)
(* ================================================================== *)

Lemma lsum_neq0_In l j : lsum l j <> w0 -> In j (map fst l).
Proof.
  intros H. destruct (in_dec Z.eq_dec j (map fst l)) as [Hin|Hn]; [exact Hin|].
  exfalso. apply H. unfold lsum. apply gsum_false. intros k Hk.
  apply Z.eqb_neq. intros E. subst k. contradiction.
Qed.
Lemma gsum_le_total P l : nonneg l -> gsum P l <= total l.
Proof. intros Hn. rewrite total_gsum. apply gsum_le; [exact Hn|reflexivity]. Qed.
Lemma gsum_all P l : (forall k, In k (map fst l) -> P k = true) -> gsum P l = total l.
Proof. intros H. rewrite total_gsum. apply gsum_ext. exact H. Qed.
Lemma pos_app l1 l2 : pos (l1 ++ l2) <-> pos l1 /\ pos l2.
Proof. unfold pos. apply Forall_app. Qed.

(* [l1 ++ (k,c) :: l2]: every key of l1 is <= k, every key of l2 is >= k (no order is needed
   inside l1 and l2).  A rank in [total l1, total l1 + c) selects k; so does a rank below 0 when
   l1 is empty and a rank above the total when l2 is empty (clamping at both ends). *)
Lemma kar_split l1 k c l2 r :
  pos (l1 ++ (k, c) :: l2) ->
  (forall k', In k' (map fst l1) -> (k' <= k)%Z) ->
  (forall k', In k' (map fst l2) -> (k <= k')%Z) ->
  (total l1 <= r \/ l1 = []) ->
  (r < wadd (total l1) c \/ l2 = []) ->
  key_at_rank (bins_of_list (l1 ++ (k, c) :: l2)) r = Some k.
Proof.
  intros Hp H1 H2 Hlo Hhi.
  pose proof (pos_nonneg _ Hp) as Hn.
  apply pos_app in Hp. destruct Hp as [Hp1 Hp2]. apply pos_cons in Hp2. destruct Hp2 as [Hc Hp2].
  pose proof (pos_nonneg _ Hp1) as Hn1. pose proof (pos_nonneg _ Hp2) as Hn2.
  set (l := l1 ++ (k, c) :: l2) in *. set (b := bins_of_list l).
  assert (Hwf : wf b = true) by (apply wf_bins_of_list; exact Hn).
  assert (Hpb : pos b) by (apply pos_bins_of_list; exact Hn).
  assert (Hkeys : forall j, get b j <> w0 -> In j (map fst l1) \/ j = k \/ In j (map fst l2)).
  { intros j Hj. unfold b in Hj. rewrite get_bins_of_list in Hj by exact Hn.
    apply lsum_neq0_In in Hj. unfold l in Hj. rewrite map_app, in_app_iff in Hj.
    cbn [map fst In] in Hj. destruct Hj as [Hj|[Hj|Hj]]; auto. }
  assert (Hcum : forall i, cum b i =
            wadd (gsum (fun k' => k' <=? i)%Z l1)
                 (if (k <=? i)%Z then wadd c (gsum (fun k' => k' <=? i)%Z l2)
                  else gsum (fun k' => k' <=? i)%Z l2)).
  { intros i. unfold cum, b. rewrite gsum_bins_of_list. unfold l. rewrite gsum_app, gsum_cons.
    reflexivity. }
  assert (Hbelow : forall i, (i < k)%Z -> cum b i <= total l1).
  { intros i Hi. rewrite Hcum. destruct (Z.leb_spec k i) as [E|E]; [lia|].
    rewrite (gsum_false _ l2).
    2:{ intros k' Hk'. apply Z.leb_gt. specialize (H2 k' Hk'). lia. }
    pose proof (gsum_le_total (fun k' => k' <=? i)%Z l1 Hn1) as Hle. wlra. }
  assert (Hat : wadd (total l1) c <= cum b k).
  { rewrite Hcum, Z.leb_refl. rewrite (gsum_all _ l1).
    2:{ intros k' Hk'. apply Z.leb_le. apply H1. exact Hk'. }
    pose proof (gsum_nonneg (fun k' => k' <=? k)%Z l2 Hn2) as Hge. wlra. }
  assert (Hgk : get b k <> w0).
  { unfold b. rewrite get_bins_of_list by exact Hn. unfold lsum, l.
    rewrite gsum_app, gsum_cons, Z.eqb_refl.
    pose proof (gsum_nonneg (fun k' => k =? k')%Z l1 Hn1) as G1.
    pose proof (gsum_nonneg (fun k' => k =? k')%Z l2 Hn2) as G2. wlra. }
  assert (Hne : b <> []). { intros E. apply Hgk. rewrite E. reflexivity. }
  pose proof (total_nonneg l1 Hn1) as Ht1.
  destruct (Qclt_le_dec r w0) as [Hr|Hr].
  - (* negative rank: the first key *)
    assert (E1 : l1 = []). { destruct Hlo as [Hlo|Hlo]; [exfalso; wlra|exact Hlo]. }
    rewrite key_at_rank_neg by assumption.
    destruct (min_key_some b Hne) as [m0 Hm0]. rewrite Hm0. f_equal.
    destruct (min_key_spec b m0 Hwf Hm0) as [M1 M2].
    assert (Hle : (k <= m0)%Z).
    { destruct (Hkeys m0 M1) as [Hin|[Hin|Hin]].
      - subst l1. contradiction.
      - lia.
      - apply H2. exact Hin. }
    destruct (Z.eq_dec m0 k) as [E|E]; [exact E|]. exfalso. apply Hgk. apply M2. lia.
  - assert (Hlo' : total l1 <= r).
    { destruct Hlo as [Hlo|Hlo]; [exact Hlo|]. subst l1. rewrite total_nil. exact Hr. }
    destruct (key_at_rank_spec b r Hwf Hpb Hne Hr) as [k' [K1 [K2 K3]]].
    rewrite K1. f_equal.
    assert (Hk'le : l2 = [] -> (k' <= k)%Z).
    { intros E2. destruct (Hkeys k' K2) as [Hin|[Hin|Hin]].
      - apply H1. exact Hin.
      - lia.
      - subst l2. contradiction. }
    destruct K3 as [[K3 K4]|[K3 K4]].
    + assert (Hge : (k <= k')%Z).
      { destruct (Z.lt_ge_cases k' k) as [Hlt|Hge]; [|exact Hge]. exfalso.
        specialize (Hbelow k' Hlt). wlra. }
      destruct Hhi as [Hhi|Hhi].
      * destruct (Z.lt_ge_cases k k') as [Hlt|Hge']; [|lia]. exfalso.
        specialize (K4 k Hlt). wlra.
      * specialize (Hk'le Hhi). lia.
    + destruct Hhi as [Hhi|Hhi].
      * exfalso. specialize (K4 k). wlra.
      * specialize (Hk'le Hhi). pose proof (max_key_ge b k' k Hwf K3 Hgk). lia.
Qed.

(* ---- sorted lists ---- *)
Lemma ssorted_split {A} (R : A -> A -> Prop) l1 x l2 :
  StronglySorted R (l1 ++ x :: l2) -> Forall (fun y => R y x) l1 /\ Forall (R x) l2.
Proof.
  induction l1 as [|a l1 IH]; cbn [app]; intros H; apply StronglySorted_inv in H; destruct H as [H1 H2].
  - split; [constructor|exact H2].
  - destruct (IH H1) as [I1 I2]. split; [|exact I2].
    constructor; [|exact I1]. rewrite Forall_forall in H2. apply H2. apply in_elt.
Qed.
Lemma ssorted_app {A} (R : A -> A -> Prop) l1 l2 :
  StronglySorted R (l1 ++ l2) -> StronglySorted R l1 /\ StronglySorted R l2.
Proof.
  induction l1 as [|a l1 IH]; cbn [app]; intros H.
  - split; [constructor|exact H].
  - apply StronglySorted_inv in H. destruct H as [H1 H2]. destruct (IH H1) as [I1 I2].
    split; [|exact I2]. constructor; [exact I1|]. apply Forall_app in H2. apply H2.
Qed.
Lemma ssorted_map_inv {A C} (f : A -> C) (R : C -> C -> Prop) l :
  StronglySorted R (map f l) -> StronglySorted (fun a b => R (f a) (f b)) l.
Proof.
  induction l as [|a l IH]; cbn [map]; intros H; [constructor|].
  apply StronglySorted_inv in H. destruct H as [H1 H2]. constructor; [apply IH; exact H1|].
  rewrite Forall_forall in *. intros b Hb. apply H2. apply in_map. exact Hb.
Qed.
Lemma nth_split_eq {A} (l : list A) k d :
  (k < length l)%nat -> l = firstn k l ++ nth k l d :: skipn (S k) l.
Proof.
  revert k. induction l as [|a l IH]; intros k Hk; [cbn [length] in Hk; lia|].
  destruct k as [|k]; [reflexivity|]. cbn [firstn nth skipn app]. f_equal.
  apply IH. cbn [length] in Hk. lia.
Qed.
Lemma filter_all {A} (f : A -> bool) l : Forall (fun a => f a = true) l -> filter f l = l.
Proof.
  induction l as [|a l IH]; intros H; [reflexivity|]. inversion H; subst.
  cbn [filter]. rewrite H2, IH by assumption. reflexivity.
Qed.
Lemma filter_none {A} (f : A -> bool) l : Forall (fun a => f a = false) l -> filter f l = [].
Proof.
  induction l as [|a l IH]; intros H; [reflexivity|]. inversion H; subst.
  cbn [filter]. rewrite H2, IH by assumption. reflexivity.
Qed.
Lemma Forall_filter_true {A} (f : A -> bool) l : Forall (fun a => f a = true) (filter f l).
Proof. apply Forall_forall. intros a Ha. apply filter_In in Ha. apply Ha. Qed.
Lemma perm_filter {A} (f : A -> bool) l l' : Permutation l l' -> Permutation (filter f l) (filter f l').
Proof.
  intros H. induction H as [|a l l' H IH|a a' l|l l' l'' H1 IH1 H2 IH2].
  - constructor.
  - cbn [filter]. destruct (f a); [constructor|]; exact IH.
  - cbn [filter]. destruct (f a), (f a'); try apply Permutation_refl. constructor.
  - eapply Permutation_trans; eassumption.
Qed.

(* ---- step (2): a store of unit weights built from a sorted list of indices ---- *)
Lemma total_unit_keys (l : list Z) : total (map (fun i => (i, w1)) l) = inj (Z.of_nat (length l)).
Proof.
  induction l as [|i l IH]; [reflexivity|]. cbn [map length]. rewrite total_cons, IH, Nat2Z.inj_succ.
  unfold Z.succ. rewrite inj_plus, inj_1. wring.
Qed.
(* for r < length l the selected key is the element at position floor r (position 0 for r < 0) *)
Theorem key_at_rank_sorted_units (l : list Z) r d :
  StronglySorted Z.le l -> l <> [] -> r < inj (Z.of_nat (length l)) ->
  key_at_rank (bins_of_list (map (fun i => (i, w1)) l)) r = Some (nth (Z.to_nat (cfloor r)) l d).
Proof.
  intros Hs Hne Hr. destruct (floor_nat_cond r) as [C1 C2].
  apply cfloor_ub in Hr.
  assert (Hlen : length l <> 0%nat) by (intros E; apply length_zero_iff_nil in E; contradiction).
  remember (Z.to_nat (cfloor r)) as t eqn:Et.
  assert (Ht : (t < length l)%nat) by lia.
  pose proof (nth_split_eq l t d Ht) as E. remember (nth t l d) as x eqn:Ex.
  assert (L1 : length (firstn t l) = t) by (rewrite firstn_length; lia).
  rewrite E at 1. rewrite E in Hs. destruct (ssorted_split _ _ _ _ Hs) as [S1 S2].
  rewrite Forall_forall in S1, S2.
  assert (Hpos : forall l' : list Z, pos (map (fun i => (i, w1)) l')).
  { intros l'. unfold pos. apply Forall_forall. intros kw Hin.
    apply in_map_iff in Hin. destruct Hin as [i [<- _]]. cbn [snd]. unfold w0, w1. wlra. }
  specialize (Hpos (firstn t l ++ x :: skipn (S t) l)).
  rewrite map_app in *. cbn [map] in *.
  apply kar_split.
  - exact Hpos.
  - intros k' Hk'. rewrite map_map in Hk'. cbn [fst] in Hk'. rewrite map_id in Hk'. apply S1. exact Hk'.
  - intros k' Hk'. rewrite map_map in Hk'. cbn [fst] in Hk'. rewrite map_id in Hk'. apply S2. exact Hk'.
  - rewrite total_unit_keys, L1. destruct C1 as [C1|C1]; [left; exact C1|]. right.
    assert (E0 : firstn t l = []) by (apply length_zero_iff_nil; lia). rewrite E0. reflexivity.
  - left. rewrite total_unit_keys, L1. exact C2.
Qed.

(* ================================================================== *)
(** * 3. Weighted values and the content of the sketch                 *)
(* ================================================================== *)

Definition item := (Qc * W)%type.
Definition wsum (l : list item) : W := fold_right (fun a s => wadd (snd a) s) w0 l.
Definition wpos (l : list item) : Prop := Forall (fun a : item => w0 < snd a) l.
Definition units (l : list item) : Prop := Forall (fun a : item => snd a = w1) l.
Definition vle (a b : item) : Prop := fst a <= fst b.
Definition unit_item (x : Qc) : item := (x, w1).

Lemma wsum_nil : wsum [] = w0.
Proof. reflexivity. Qed.
Lemma wsum_cons a l : wsum (a :: l) = wadd (snd a) (wsum l).
Proof. reflexivity. Qed.
Lemma wsum_app l1 l2 : wsum (l1 ++ l2) = wadd (wsum l1) (wsum l2).
Proof.
  induction l1 as [|a l1 IH]; cbn [app].
  - rewrite wsum_nil, wadd_0_l. reflexivity.
  - rewrite !wsum_cons, IH. apply wadd_assoc.
Qed.
Lemma wsum_perm l l' : Permutation l l' -> wsum l = wsum l'.
Proof.
  intros H. induction H as [|a l l' H IH|a a' l|l l' l'' H1 IH1 H2 IH2].
  - reflexivity.
  - rewrite !wsum_cons, IH. reflexivity.
  - rewrite !wsum_cons. wring.
  - rewrite IH1. exact IH2.
Qed.
Lemma wsum_nonneg l : wpos l -> w0 <= wsum l.
Proof.
  induction l as [|a l IH]; intros H.
  - rewrite wsum_nil. wlra.
  - inversion H; subst. rewrite wsum_cons. specialize (IH H3). wlra.
Qed.
Lemma wsum_pos l : wpos l -> l <> [] -> w0 < wsum l.
Proof.
  intros H Hne. destruct l as [|a l]; [contradiction|]. inversion H; subst.
  rewrite wsum_cons. pose proof (wsum_nonneg l H3). wlra.
Qed.
Lemma wsum_units l : units l -> wsum l = inj (Z.of_nat (length l)).
Proof.
  induction l as [|a l IH]; intros H; [reflexivity|]. inversion H; subst.
  rewrite wsum_cons, IH, H2 by assumption. cbn [length]. rewrite Nat2Z.inj_succ.
  unfold Z.succ. rewrite inj_plus, inj_1. wring.
Qed.
Lemma units_wpos l : units l -> wpos l.
Proof.
  unfold units, wpos. apply Forall_impl. intros a H. rewrite H. unfold w0, w1. wlra.
Qed.
Lemma total_map_key (f : item -> Z) l : total (map (fun a => (f a, snd a)) l) = wsum l.
Proof.
  induction l as [|a l IH]; [reflexivity|]. cbn [map]. rewrite total_cons, wsum_cons, IH.
  reflexivity.
Qed.
Lemma pos_map_key (f : item -> Z) l : wpos l -> pos (map (fun a => (f a, snd a)) l).
Proof.
  unfold wpos, pos. intros H. apply Forall_forall. intros kw Hin.
  apply in_map_iff in Hin. destruct Hin as [a [<- Ha]]. rewrite Forall_forall in H.
  cbn [snd]. apply H. exact Ha.
Qed.
Lemma Forall_firstn {A} (P : A -> Prop) k l : Forall P l -> Forall P (firstn k l).
Proof. intros H. rewrite <- (firstn_skipn k l) in H. apply Forall_app in H. apply H. Qed.
Lemma Forall_skipn {A} (P : A -> Prop) k l : Forall P l -> Forall P (skipn k l).
Proof. intros H. rewrite <- (firstn_skipn k l) in H. apply Forall_app in H. apply H. Qed.

(* splitting a list of unit-weight items at a position *)
Lemma units_split (l : list item) t d :
  units l -> (t < length l)%nat ->
  exists l1 l2, l = l1 ++ nth t l d :: l2 /\
    length l1 = t /\ length l2 = (length l - 1 - t)%nat /\
    wsum l1 = inj (Z.of_nat t) /\ wsum l2 = inj (Z.of_nat (length l - 1 - t)) /\
    snd (nth t l d) = w1.
Proof.
  intros Hu Ht. exists (firstn t l), (skipn (S t) l).
  assert (L1 : length (firstn t l) = t) by (rewrite firstn_length; lia).
  assert (L2 : length (skipn (S t) l) = (length l - 1 - t)%nat) by (rewrite skipn_length; lia).
  split; [apply nth_split_eq; exact Ht|]. split; [exact L1|]. split; [exact L2|].
  split; [rewrite wsum_units by (apply Forall_firstn; exact Hu); rewrite L1; reflexivity|].
  split; [rewrite wsum_units by (apply Forall_skipn; exact Hu); rewrite L2; reflexivity|].
  unfold units in Hu. rewrite Forall_forall in Hu. apply Hu. apply nth_In. exact Ht.
Qed.

Section Sketch.
Variable m : amapping.
Hypothesis mn0 : 0 <= am_min m.
Hypothesis idx_mono :
  forall x y, am_min m < x -> x <= y -> y <= am_max m -> (am_index m x <= am_index m y)%Z.

(* the three classes of values, as [a_add] tests them *)
Definition isP (a : item) : bool := wltb (am_min m) (fst a).
Definition isN (a : item) : bool := wltb (fst a) (- am_min m).
Definition isZ (a : item) : bool := negb (isP a) && negb (isN a).
Definition kpos (a : item) : Z * W := (am_index m (fst a), snd a).
Definition kneg (a : item) : Z * W := (am_index m (- fst a), snd a).
(* a value the sketch accepts *)
Definition okv (a : item) : Prop :=
  (am_min m < fst a -> fst a <= am_max m) /\ (fst a < - am_min m -> - am_max m <= fst a).

(* the representative the sketch answers for a value *)
Definition repr (x : Qc) : Qc :=
  if wleb (Qcabs x) (am_min m) then 0
  else if wltb 0 x then am_value m (am_index m x) else - am_value m (am_index m (- x)).

Lemma isP_true a : isP a = true <-> am_min m < fst a.
Proof. apply wltb_lt. Qed.
Lemma isN_true a : isN a = true <-> fst a < - am_min m.
Proof. apply wltb_lt. Qed.
Lemma isP_isN a : isP a = true -> isN a = false.
Proof. intros H. apply isP_true in H. apply wltb_ge. qlra. Qed.
Lemma isN_isP a : isN a = true -> isP a = false.
Proof. intros H. apply isN_true in H. apply wltb_ge. qlra. Qed.
Lemma isZ_true a : isZ a = true <-> - am_min m <= fst a /\ fst a <= am_min m.
Proof.
  unfold isZ, isP, isN. rewrite andb_true_iff, !negb_true_iff, !wltb_ge. tauto.
Qed.

Lemma repr_P a : isP a = true -> repr (fst a) = am_value m (am_index m (fst a)).
Proof.
  intros H. apply isP_true in H. unfold repr.
  destruct (wleb_spec (Qcabs (fst a)) (am_min m)) as [E|E].
  - apply Qcabs_Qcle_condition in E. exfalso. qlra.
  - destruct (wltb_spec 0 (fst a)) as [E'|E']; [reflexivity|]. exfalso. apply E'. qlra.
Qed.
Lemma repr_N a : isN a = true -> repr (fst a) = - am_value m (am_index m (- fst a)).
Proof.
  intros H. apply isN_true in H. unfold repr.
  destruct (wleb_spec (Qcabs (fst a)) (am_min m)) as [E|E].
  - apply Qcabs_Qcle_condition in E. exfalso. qlra.
  - destruct (wltb_spec 0 (fst a)) as [E'|E']; [|reflexivity]. exfalso. qlra.
Qed.
Lemma repr_Z a : isZ a = true -> repr (fst a) = 0.
Proof.
  intros H. apply isZ_true in H. unfold repr.
  destruct (wleb_spec (Qcabs (fst a)) (am_min m)) as [E|E]; [reflexivity|].
  exfalso. apply E. apply Qcabs_Qcle_condition. exact H.
Qed.

(* absorbing a list of weighted values, all accepted *)
Fixpoint a_add_list (s : asketch) (xs : list item) : option asketch :=
  match xs with
  | [] => Some s
  | a :: tl => match a_add m Exact Exact s (fst a) (snd a) with
               | AAdded s' => a_add_list s' tl
               | _ => None
               end
  end.

Lemma a_add_list_content xs : forall s s',
  a_add_list s xs = Some s' ->
  a_pos s' = bmerge_list (a_pos s) (map kpos (filter isP xs)) /\
  a_neg s' = bmerge_list (a_neg s) (map kneg (filter isN xs)) /\
  a_zero s' = wadd (a_zero s) (wsum (filter isZ xs)) /\
  Forall okv xs.
Proof.
  induction xs as [|a xs IH]; intros s s' H.
  - cbn [a_add_list] in H. injection H as <-. cbn [filter map wsum fold_right].
    rewrite !bmerge_list_nil, wadd_0_r. repeat split. constructor.
  - cbn [a_add_list] in H. unfold a_add in H. cbn [filter].
    destruct (wltb_spec (am_min m) (fst a)) as [E1|E1].
    + assert (HP : isP a = true) by (apply isP_true; exact E1).
      pose proof (isP_isN a HP) as HN. unfold isZ. rewrite HP, HN. cbn [negb andb].
      destruct (wltb_spec (am_max m) (fst a)) as [E2|E2]; [discriminate|].
      destruct (IH _ _ H) as [I1 [I2 [I3 I4]]]. cbn [a_pos a_neg a_zero] in I1, I2, I3.
      split; [exact I1|]. split; [exact I2|]. split; [exact I3|].
      constructor; [|exact I4]. split; [intros _; apply Qcnot_lt_le; exact E2|].
      intros E3. exfalso. qlra.
    + assert (HP : isP a = false) by (apply wltb_ge; apply Qcnot_lt_le; exact E1).
      destruct (wltb_spec (fst a) (- am_min m)) as [E3|E3].
      * assert (HN : isN a = true) by (apply isN_true; exact E3).
        unfold isZ. rewrite HP, HN. cbn [negb andb].
        destruct (wltb_spec (fst a) (- am_max m)) as [E2|E2]; [discriminate|].
        destruct (IH _ _ H) as [I1 [I2 [I3 I4]]]. cbn [a_pos a_neg a_zero] in I1, I2, I3.
        split; [exact I1|]. split; [exact I2|]. split; [exact I3|].
        constructor; [|exact I4]. split; [intros E4; contradiction|].
        intros _. apply Qcnot_lt_le. exact E2.
      * assert (HN : isN a = false) by (apply wltb_ge; apply Qcnot_lt_le; exact E3).
        unfold isZ. rewrite HP, HN. cbn [negb andb].
        destruct (IH _ _ H) as [I1 [I2 [I3 I4]]]. cbn [a_pos a_neg a_zero] in I1, I2, I3.
        split; [exact I1|]. split; [exact I2|].
        split; [rewrite I3, wsum_cons; apply eq_sym, wadd_assoc|].
        constructor; [|exact I4]. split; intros E4; contradiction.
Qed.

(* acceptance is exactly the range condition |x| <= am_max *)
Lemma a_add_list_total xs s :
  (forall a, In a xs -> Qcabs (fst a) <= am_max m) -> exists s', a_add_list s xs = Some s'.
Proof.
  revert s. induction xs as [|a xs IH]; intros s H; [exists s; reflexivity|].
  assert (Ha : - am_max m <= fst a /\ fst a <= am_max m).
  { apply Qcabs_Qcle_condition. apply H. left. reflexivity. }
  assert (H' : forall b, In b xs -> Qcabs (fst b) <= am_max m) by (intros b Hb; apply H; right; exact Hb).
  cbn [a_add_list]. unfold a_add.
  destruct (wltb_spec (am_min m) (fst a)) as [E1|E1].
  - destruct (wltb_spec (am_max m) (fst a)) as [E2|E2]; [exfalso; qlra|]. apply IH. exact H'.
  - destruct (wltb_spec (fst a) (- am_min m)) as [E3|E3].
    + destruct (wltb_spec (fst a) (- am_max m)) as [E2|E2]; [exfalso; qlra|]. apply IH. exact H'.
    + apply IH. exact H'.
Qed.

(* content of the sketch of [xs], read through any permutation [ys] of [xs] *)
Lemma wpos_nonneg_map (f : item -> Z) l : wpos l -> nonneg (map (fun a => (f a, snd a)) l).
Proof. intros H. apply pos_nonneg. apply pos_map_key. exact H. Qed.
Lemma wpos_filter f l : wpos l -> wpos (filter f l).
Proof.
  unfold wpos. rewrite !Forall_forall. intros H a Ha. apply filter_In in Ha. apply H. apply Ha.
Qed.
Lemma wpos_perm l l' : Permutation l l' -> wpos l -> wpos l'.
Proof. intros H Hp. unfold wpos in *. eapply Permutation_Forall; eassumption. Qed.

Lemma sketch_content xs ys s :
  a_add_list a_new xs = Some s -> Permutation xs ys -> wpos xs ->
  a_pos s = bins_of_list (map kpos (filter isP ys)) /\
  a_neg s = bins_of_list (map kneg (filter isN ys)) /\
  a_zero s = wsum (filter isZ ys) /\
  Forall okv ys.
Proof.
  intros H Hperm Hw. destruct (a_add_list_content xs _ _ H) as [I1 [I2 [I3 I4]]].
  cbn [a_new a_pos a_neg a_zero] in I1, I2, I3.
  split; [|split; [|split]].
  - rewrite I1. apply (bins_of_list_perm (map kpos (filter isP xs))).
    + apply (wpos_nonneg_map (fun a => am_index m (fst a))). apply wpos_filter. exact Hw.
    + apply Permutation_map. apply perm_filter. exact Hperm.
  - rewrite I2. apply (bins_of_list_perm (map kneg (filter isN xs))).
    + apply (wpos_nonneg_map (fun a => am_index m (- fst a))). apply wpos_filter. exact Hw.
    + apply Permutation_map. apply perm_filter. exact Hperm.
  - rewrite I3, wadd_0_l. apply wsum_perm. apply perm_filter. exact Hperm.
  - eapply Permutation_Forall; eassumption.
Qed.

(* a value-sorted list is its negatives, then its zero-bucket values, then its positives *)
Lemma sorted_decomp ys :
  StronglySorted vle ys -> ys = filter isN ys ++ filter isZ ys ++ filter isP ys.
Proof.
  induction ys as [|a ys IH]; intros H; [reflexivity|].
  apply StronglySorted_inv in H. destruct H as [H1 H2]. specialize (IH H1).
  cbn [filter]. unfold vle in H2. rewrite Forall_forall in H2.
  destruct (isN a) eqn:EN.
  - pose proof (isN_isP a EN) as EP. unfold isZ at 1. rewrite EP, EN. cbn [negb andb app].
    f_equal. exact IH.
  - destruct (isP a) eqn:EP.
    + unfold isZ at 1. rewrite EP, EN. cbn [negb andb].
      apply isP_true in EP.
      assert (HallP : Forall (fun b => isP b = true) ys).
      { apply Forall_forall. intros b Hb. apply isP_true. specialize (H2 b Hb). qlra. }
      rewrite (filter_all isP ys HallP).
      rewrite (filter_none isN ys).
      2:{ eapply Forall_impl; [|exact HallP]. intros b Hb. apply isP_isN. exact Hb. }
      rewrite (filter_none isZ ys).
      2:{ eapply Forall_impl; [|exact HallP]. intros b Hb. unfold isZ. rewrite Hb. reflexivity. }
      reflexivity.
    + unfold isZ at 1. rewrite EP, EN. cbn [negb andb].
      apply wltb_ge in EN.
      assert (E0 : filter isN ys = []).
      { apply filter_none. apply Forall_forall. intros b Hb. apply wltb_ge.
        specialize (H2 b Hb). qlra. }
      rewrite E0 in *. cbn [app] in *. f_equal. exact IH.
Qed.

(* ---- selection inside the positive / the negative store ---- *)
Lemma select_pos p1 a p2 r :
  wpos (p1 ++ a :: p2) -> Forall (fun b => isP b = true) (p1 ++ a :: p2) ->
  Forall okv (p1 ++ a :: p2) -> StronglySorted vle (p1 ++ a :: p2) ->
  (wsum p1 <= r \/ p1 = []) -> (r < wadd (wsum p1) (snd a) \/ p2 = []) ->
  key_at_rank (bins_of_list (map kpos (p1 ++ a :: p2))) r = Some (am_index m (fst a)).
Proof.
  intros Hw HP Hok Hs Hlo Hhi.
  destruct (ssorted_split vle p1 a p2 Hs) as [S1 S2]. unfold vle in S1, S2.
  pose proof (pos_map_key (fun a => am_index m (fst a)) _ Hw) as Hpos.
  fold kpos in Hpos. rewrite map_app in *. cbn [map] in *. change (kpos a) with (am_index m (fst a), snd a) in *.
  apply Forall_app in HP. destruct HP as [HP1 HP2]. apply Forall_cons_iff in HP2. destruct HP2 as [HPa HP2].
  apply Forall_app in Hok. destruct Hok as [_ Hok]. apply Forall_cons_iff in Hok. destruct Hok as [Hoka Hok2].
  rewrite Forall_forall in *. apply isP_true in HPa.
  apply kar_split.
  - exact Hpos.
  - intros k' Hk'. rewrite map_map in Hk'. apply in_map_iff in Hk'. destruct Hk' as [b [<- Hb]].
    cbn [kpos fst]. apply idx_mono; [apply isP_true; apply HP1; exact Hb|apply S1; exact Hb|].
    apply Hoka. exact HPa.
  - intros k' Hk'. rewrite map_map in Hk'. apply in_map_iff in Hk'. destruct Hk' as [b [<- Hb]].
    cbn [kpos fst]. apply idx_mono; [exact HPa|apply S2; exact Hb|].
    apply (Hok2 b Hb). apply isP_true. apply HP2. exact Hb.
  - unfold kpos. rewrite total_map_key. destruct Hlo as [Hlo|Hlo]; [left; exact Hlo|].
    right. subst p1. reflexivity.
  - unfold kpos. rewrite total_map_key. destruct Hhi as [Hhi|Hhi]; [left; exact Hhi|].
    right. subst p2. reflexivity.
Qed.

(* the negative store is indexed by magnitude: the value at position |n1| (from the left) of the
   ascending list has |n2| values of smaller magnitude *)
Lemma select_neg n1 a n2 r :
  wpos (n1 ++ a :: n2) -> Forall (fun b => isN b = true) (n1 ++ a :: n2) ->
  Forall okv (n1 ++ a :: n2) -> StronglySorted vle (n1 ++ a :: n2) ->
  (wsum n2 <= r \/ n2 = []) -> (r < wadd (wsum n2) (snd a) \/ n1 = []) ->
  key_at_rank (bins_of_list (map kneg (n1 ++ a :: n2))) r = Some (am_index m (- fst a)).
Proof.
  intros Hw HN Hok Hs Hlo Hhi.
  destruct (ssorted_split vle n1 a n2 Hs) as [S1 S2]. unfold vle in S1, S2.
  assert (Hperm : Permutation (n1 ++ a :: n2) (n2 ++ a :: n1)).
  { eapply Permutation_trans; [apply Permutation_app_comm|]. cbn [app].
    apply Permutation_cons_app. apply Permutation_refl. }
  rewrite (bins_of_list_perm _ (map kneg (n2 ++ a :: n1))).
  2:{ apply (wpos_nonneg_map (fun a => am_index m (- fst a))). exact Hw. }
  2:{ apply Permutation_map. exact Hperm. }
  pose proof (pos_map_key (fun a => am_index m (- fst a)) _ (wpos_perm _ _ Hperm Hw)) as Hpos.
  fold kneg in Hpos. rewrite map_app in *. cbn [map] in *. change (kneg a) with (am_index m (- fst a), snd a) in *.
  apply Forall_app in HN. destruct HN as [HN1 HN2]. apply Forall_cons_iff in HN2. destruct HN2 as [HNa HN2].
  apply Forall_app in Hok. destruct Hok as [Hok1 Hok]. apply Forall_cons_iff in Hok. destruct Hok as [Hoka Hok2].
  rewrite Forall_forall in *. apply isN_true in HNa.
  apply kar_split.
  - exact Hpos.
  - intros k' Hk'. rewrite map_map in Hk'. apply in_map_iff in Hk'. destruct Hk' as [b [<- Hb]].
    cbn [kneg fst]. pose proof (HN2 b Hb) as Hb1. apply isN_true in Hb1. specialize (S2 b Hb).
    destruct Hoka as [_ Hoka]. specialize (Hoka HNa).
    apply idx_mono; qlra.
  - intros k' Hk'. rewrite map_map in Hk'. apply in_map_iff in Hk'. destruct Hk' as [b [<- Hb]].
    cbn [kneg fst]. pose proof (HN1 b Hb) as Hb1. apply isN_true in Hb1. specialize (S1 b Hb).
    destruct (Hok1 b Hb) as [_ Hokb]. specialize (Hokb Hb1).
    apply idx_mono; qlra.
  - unfold kneg. rewrite total_map_key. destruct Hlo as [Hlo|Hlo]; [left; exact Hlo|].
    right. subst n2. reflexivity.
  - unfold kneg. rewrite total_map_key. destruct Hhi as [Hhi|Hhi]; [left; exact Hhi|].
    right. subst n1. reflexivity.
Qed.

(* ---- the three branches of [a_quantile] ---- *)
Section Branches.
Variable rnd : Qc -> Qc.

Lemma a_quantile_neg s q k :
  a_count s <> w0 -> a_rank rnd s q < total (a_neg s) ->
  key_at_rank (a_neg s) (rnd (wsub (rnd (wsub (total (a_neg s)) w1)) (a_rank rnd s q))) = Some k ->
  a_quantile rnd m s q = Some (- am_value m k).
Proof.
  intros Hc Hlt Hk. unfold a_quantile. apply weqb_neq in Hc. rewrite Hc. cbv zeta.
  apply wltb_lt in Hlt. rewrite Hlt, Hk. reflexivity.
Qed.
Lemma a_quantile_zero s q :
  a_count s <> w0 -> total (a_neg s) <= a_rank rnd s q ->
  a_rank rnd s q < rnd (wadd (a_zero s) (total (a_neg s))) ->
  a_quantile rnd m s q = Some 0.
Proof.
  intros Hc Hge Hlt. unfold a_quantile. apply weqb_neq in Hc. rewrite Hc. cbv zeta.
  apply wltb_ge in Hge. apply wltb_lt in Hlt. rewrite Hge, Hlt. reflexivity.
Qed.
Lemma a_quantile_pos s q k :
  a_count s <> w0 -> total (a_neg s) <= a_rank rnd s q ->
  rnd (wadd (a_zero s) (total (a_neg s))) <= a_rank rnd s q ->
  key_at_rank (a_pos s) (rnd (wsub (rnd (wsub (a_rank rnd s q) (a_zero s))) (total (a_neg s)))) = Some k ->
  a_quantile rnd m s q = Some (am_value m k).
Proof.
  intros Hc Hge Hge2 Hk. unfold a_quantile. apply weqb_neq in Hc. rewrite Hc. cbv zeta.
  apply wltb_ge in Hge. apply wltb_ge in Hge2. rewrite Hge, Hge2, Hk. reflexivity.
Qed.
End Branches.

(* ================================================================== *)
(** * 4. Theorem A: unit weights                                       *)
(* ================================================================== *)

Lemma Forall_filter {A} (Q : A -> Prop) f l : Forall Q l -> Forall Q (filter f l).
Proof. rewrite !Forall_forall. intros H a Ha. apply filter_In in Ha. apply H. apply Ha. Qed.
Lemma inj_inj a b : inj a = inj b -> a = b.
Proof.
  intros H. assert (H1 : inj a <= inj b) by (rewrite H; apply Qcle_refl).
  assert (H2 : inj b <= inj a) by (rewrite H; apply Qcle_refl).
  apply inj_le in H1. apply inj_le in H2. lia.
Qed.
Lemma cfloor_le_int z x : x <= inj z -> (cfloor x <= z)%Z.
Proof. intros H. apply inj_le. eapply Qcle_trans; [apply cfloor_le|exact H]. Qed.

Section Units.
Variable rnd : Qc -> Qc.
Variable B : Z.
Hypothesis rnd_mono : forall x y, x <= y -> rnd x <= rnd y.
Hypothesis rnd_int : forall z : Z, (Z.abs z <= B)%Z -> rnd (inj z) = inj z.

Lemma quantile_units_core N Zs P s q d :
  units (N ++ Zs ++ P) -> StronglySorted vle (N ++ Zs ++ P) -> Forall okv (N ++ Zs ++ P) ->
  Forall (fun a => isN a = true) N -> Forall (fun a => isZ a = true) Zs ->
  Forall (fun a => isP a = true) P ->
  a_pos s = bins_of_list (map kpos P) -> a_neg s = bins_of_list (map kneg N) ->
  a_zero s = wsum Zs ->
  N ++ Zs ++ P <> [] -> (Z.of_nat (length (N ++ Zs ++ P)) <= B)%Z -> 0 <= q -> q <= 1 ->
  exists k : nat,
    (cfloor (q * inj (Z.of_nat (length (N ++ Zs ++ P)) - 1)) <= Z.of_nat k
     <= cceil (q * inj (Z.of_nat (length (N ++ Zs ++ P)) - 1)))%Z /\
    (k < length (N ++ Zs ++ P))%nat /\
    a_quantile rnd m s q = Some (repr (fst (nth k (N ++ Zs ++ P) d))).
Proof.
  intros Hu Hs Hok HN HZ HP CP CN CZ Hne HB Hq0 Hq1.
  pose proof Hu as Hu'. unfold units in Hu'. apply Forall_app in Hu'. destruct Hu' as [HuN Hu'].
  apply Forall_app in Hu'. destruct Hu' as [HuZ HuP].
  pose proof Hok as Hok'. apply Forall_app in Hok'. destruct Hok' as [HokN Hok'].
  apply Forall_app in Hok'. destruct Hok' as [_ HokP].
  destruct (ssorted_app _ _ _ Hs) as [HsN Hs']. destruct (ssorted_app _ _ _ Hs') as [_ HsP].
  remember (Z.of_nat (length N)) as zN eqn:EzN.
  remember (Z.of_nat (length Zs)) as zZ eqn:EzZ.
  remember (Z.of_nat (length P)) as zP eqn:EzP.
  assert (TN : total (a_neg s) = inj zN).
  { rewrite CN, total_bins_of_list. unfold kneg. rewrite total_map_key, EzN. apply wsum_units. exact HuN. }
  assert (TP : total (a_pos s) = inj zP).
  { rewrite CP, total_bins_of_list. unfold kpos. rewrite total_map_key, EzP. apply wsum_units. exact HuP. }
  assert (TZ : a_zero s = inj zZ).
  { rewrite CZ, EzZ. apply wsum_units. exact HuZ. }
  remember (Z.of_nat (length (N ++ Zs ++ P))) as n eqn:En.
  assert (Hlen : n = (zN + zZ + zP)%Z) by (rewrite En, !app_length; lia).
  assert (Hn1 : (1 <= n)%Z).
  { assert (length (N ++ Zs ++ P) <> 0%nat) by (intros E; apply length_zero_iff_nil in E; contradiction).
    lia. }
  assert (Hcount : a_count s = inj n).
  { unfold a_count. rewrite TN, TZ, TP, Hlen, !inj_plus. wring. }
  assert (Hcne : a_count s <> w0).
  { rewrite Hcount. intros E. change w0 with (inj 0) in E. apply inj_inj in E. lia. }
  destruct (rank_bracket rnd B rnd_mono rnd_int n q (conj Hn1 HB) Hq0 Hq1) as [Hf0 [Hc1 [Hlo [Hhi _]]]].
  cbv zeta in Hf0, Hc1, Hlo, Hhi.
  pose proof (cfloor_le_cceil (q * inj (n - 1))) as Hfc.
  remember (cfloor (q * inj (n - 1))) as f eqn:Ef. remember (cceil (q * inj (n - 1))) as c eqn:Ec.
  clear Ef Ec.
  assert (Hrank : a_rank rnd s q = rnd (q * rnd (inj (n - 1)))).
  { unfold a_rank. cbv zeta. rewrite Hcount.
    replace (wsub (inj n) w1) with (inj (n - 1)) by (rewrite inj_minus, inj_1; reflexivity).
    unfold wmul. destruct (wltb_spec (rnd (q * rnd (inj (n - 1)))) w0) as [E|E]; [|reflexivity].
    exfalso. pose proof (inj_nonneg f Hf0) as H0. qlra. }
  remember (rnd (q * rnd (inj (n - 1)))) as rho eqn:Erho. clear Erho.
  assert (AbsN : (Z.abs (zN - 1) <= B)%Z) by lia.
  destruct (Qclt_le_dec rho (inj zN)) as [Hbr|Hbr].
  - (* negative branch *)
    assert (Hfn : (f < zN)%Z). { apply inj_lt. eapply Qcle_lt_trans; eassumption. }
    remember (rnd (wsub (rnd (wsub (inj zN) w1)) rho)) as r' eqn:Er'.
    assert (Er'' : r' = rnd (inj (zN - 1) - rho)).
    { rewrite Er'. replace (wsub (inj zN) w1) with (inj (zN - 1)) by (rewrite inj_minus, inj_1; reflexivity).
      rewrite (rnd_int (zN - 1) AbsN). reflexivity. }
    assert (Hr'lo : inj (zN - 1 - c) <= r').
    { rewrite Er''. apply (rnd_ge_int rnd B rnd_mono rnd_int); [lia|].
      rewrite !inj_minus, inj_1. qlra. }
    assert (Hr'hi : r' <= inj (zN - 1 - f)).
    { rewrite Er''. apply (rnd_le_int rnd B rnd_mono rnd_int); [lia|].
      rewrite !inj_minus, inj_1. qlra. }
    apply cfloor_spec in Hr'lo. apply cfloor_le_int in Hr'hi.
    destruct (floor_nat_cond r') as [C1 C2].
    remember (Z.to_nat (cfloor r')) as t eqn:Et.
    remember (length N - 1 - t)%nat as k eqn:Ek.
    assert (Hk : (k < length N)%nat) by lia.
    destruct (units_split N k d HuN Hk) as [n1 [n2 [EN [L1 [L2 [W1 [W2 Ha]]]]]]].
    remember (nth k N d) as a eqn:Ea.
    assert (HaN : isN a = true).
    { rewrite Forall_forall in HN. apply HN. rewrite Ea. apply nth_In. exact Hk. }
    assert (Hsel : key_at_rank (a_neg s) r' = Some (am_index m (- fst a))).
    { rewrite CN, EN. rewrite EN in HuN, HN, HokN, HsN.
      apply select_neg; try assumption; [apply units_wpos; exact HuN| |].
      - rewrite W2. replace (length N - 1 - k)%nat with t by lia.
        destruct C1 as [C1|C1]; [left; exact C1|]. right. apply length_zero_iff_nil. lia.
      - left. rewrite W2, Ha. replace (length N - 1 - k)%nat with t by lia. exact C2. }
    exists k. split; [lia|]. split; [rewrite app_length; lia|].
    rewrite app_nth1 by exact Hk. rewrite <- Ea, (repr_N a HaN).
    apply a_quantile_neg; [exact Hcne|rewrite Hrank, TN; exact Hbr|].
    rewrite Hrank, TN, <- Er'. exact Hsel.
  - assert (EZN : rnd (wadd (a_zero s) (total (a_neg s))) = inj (zZ + zN)).
    { rewrite TZ, TN. unfold wadd. rewrite <- inj_plus. apply rnd_int. lia. }
    destruct (Qclt_le_dec rho (inj (zZ + zN))) as [Hbr2|Hbr2].
    + (* zero branch *)
      assert (Hf2 : (f < zZ + zN)%Z). { apply inj_lt. eapply Qcle_lt_trans; eassumption. }
      assert (Hc2 : (zN <= c)%Z). { apply inj_le. eapply Qcle_trans; eassumption. }
      assert (HzZ : (0 < zZ)%Z).
      { assert (inj zN < inj (zZ + zN)) by (eapply Qcle_lt_trans; eassumption).
        apply inj_lt in H. lia. }
      exists (Z.to_nat (Z.max f zN)). split; [lia|]. split; [rewrite !app_length; lia|].
      rewrite app_nth2 by lia. rewrite app_nth1 by lia.
      assert (HaZ : isZ (nth (Z.to_nat (Z.max f zN) - length N) Zs d) = true).
      { rewrite Forall_forall in HZ. apply HZ. apply nth_In. lia. }
      rewrite (repr_Z _ HaZ).
      apply a_quantile_zero; [exact Hcne|rewrite Hrank, TN; exact Hbr|].
      rewrite Hrank, EZN. exact Hbr2.
    + (* positive branch *)
      assert (Hc2 : (zZ + zN <= c)%Z). { apply inj_le. eapply Qcle_trans; eassumption. }
      remember (rnd (wsub (rnd (wsub rho (a_zero s))) (total (a_neg s)))) as r' eqn:Er'.
      rewrite TZ, TN in Er'.
      assert (Hin_lo : inj (f - zZ) <= rnd (wsub rho (inj zZ))).
      { apply (rnd_ge_int rnd B rnd_mono rnd_int); [lia|]. rewrite inj_minus. qlra. }
      assert (Hin_hi : rnd (wsub rho (inj zZ)) <= inj (c - zZ)).
      { apply (rnd_le_int rnd B rnd_mono rnd_int); [lia|]. rewrite inj_minus. qlra. }
      assert (Hr'lo : inj (f - zZ - zN) <= r').
      { rewrite Er'. apply (rnd_ge_int rnd B rnd_mono rnd_int); [lia|].
        rewrite inj_minus in Hin_lo |- *. rewrite inj_minus. qlra. }
      assert (Hr'hi : r' <= inj (c - zZ - zN)).
      { rewrite Er'. apply (rnd_le_int rnd B rnd_mono rnd_int); [lia|].
        rewrite inj_minus in Hin_hi |- *. rewrite inj_minus. qlra. }
      apply cfloor_spec in Hr'lo. apply cfloor_le_int in Hr'hi.
      destruct (floor_nat_cond r') as [C1 C2].
      remember (Z.to_nat (cfloor r')) as t eqn:Et.
      assert (Ht : (t < length P)%nat) by lia.
      destruct (units_split P t d HuP Ht) as [p1 [p2 [EP [L1 [L2 [W1 [W2 Ha]]]]]]].
      remember (nth t P d) as a eqn:Ea.
      assert (HaP : isP a = true).
      { rewrite Forall_forall in HP. apply HP. rewrite Ea. apply nth_In. exact Ht. }
      assert (Hsel : key_at_rank (a_pos s) r' = Some (am_index m (fst a))).
      { rewrite CP, EP. rewrite EP in HuP, HP, HokP, HsP.
        apply select_pos; try assumption; [apply units_wpos; exact HuP| |].
        - rewrite W1. destruct C1 as [C1|C1]; [left; exact C1|]. right.
          apply length_zero_iff_nil. lia.
        - left. rewrite W1, Ha. exact C2. }
      exists (length N + length Zs + t)%nat. split; [lia|]. split; [rewrite !app_length; lia|].
      rewrite app_nth2 by lia. rewrite app_nth2 by lia.
      replace (length N + length Zs + t - length N - length Zs)%nat with t by lia.
      rewrite <- Ea, (repr_P a HaP).
      apply a_quantile_pos; [exact Hcne|rewrite Hrank, TN; exact Hbr|rewrite Hrank, EZN; exact Hbr2|].
      rewrite Hrank, TZ, TN, <- Er'. exact Hsel.
Qed.

(* Theorem A on unit-weight items *)
Theorem quantile_units xs ys s q d :
  a_add_list a_new xs = Some s -> Permutation xs ys -> StronglySorted vle ys -> units ys ->
  ys <> [] -> (Z.of_nat (length ys) <= B)%Z -> 0 <= q -> q <= 1 ->
  exists k : nat,
    (cfloor (q * inj (Z.of_nat (length ys) - 1)) <= Z.of_nat k
     <= cceil (q * inj (Z.of_nat (length ys) - 1)))%Z /\
    (k < length ys)%nat /\
    a_quantile rnd m s q = Some (repr (fst (nth k ys d))).
Proof.
  intros Hadd Hperm Hs Hu Hne HB Hq0 Hq1.
  assert (Hwx : wpos xs).
  { apply (wpos_perm ys); [apply Permutation_sym; exact Hperm|apply units_wpos; exact Hu]. }
  destruct (sketch_content xs ys s Hadd Hperm Hwx) as [CP [CN [CZ Hok]]].
  pose proof (sorted_decomp ys Hs) as Hdec.
  pose proof (quantile_units_core (filter isN ys) (filter isZ ys) (filter isP ys) s q d) as G.
  rewrite <- Hdec in G. apply G; try assumption; apply Forall_filter_true.
Qed.

Lemma ssorted_unit_items l : StronglySorted Qcle l -> StronglySorted vle (map unit_item l).
Proof.
  induction 1 as [|x l H IH HF]; cbn [map]; constructor; [exact IH|].
  apply Forall_forall. intros b Hb. apply in_map_iff in Hb. destruct Hb as [y [<- Hy]].
  rewrite Forall_forall in HF. unfold vle, unit_item. cbn [fst]. apply HF. exact Hy.
Qed.
Lemma sorted_ssorted l : Sorted Qcle l -> StronglySorted Qcle l.
Proof. apply Sorted_StronglySorted. intros x y z. apply Qcle_trans. Qed.
Lemma units_unit_items l : units (map unit_item l).
Proof.
  unfold units. apply Forall_forall. intros b Hb. apply in_map_iff in Hb.
  destruct Hb as [y [<- _]]. reflexivity.
Qed.

(* THEOREM A: the sketch of unit-weight values answers the representative of the k-th smallest
   value for some k between the floor and the ceiling of q*(n-1) *)
Theorem quantile_selects_order_statistic (xs ys : list Qc) s q :
  a_add_list a_new (map unit_item xs) = Some s ->
  Permutation xs ys -> Sorted Qcle ys -> xs <> [] ->
  (Z.of_nat (length xs) <= B)%Z -> 0 <= q -> q <= 1 ->
  exists k : nat,
    (cfloor (q * inj (Z.of_nat (length xs) - 1)) <= Z.of_nat k
     <= cceil (q * inj (Z.of_nat (length xs) - 1)))%Z /\
    (k < length xs)%nat /\
    a_quantile rnd m s q = Some (repr (nth k ys 0)).
Proof.
  intros Hadd Hperm Hs Hne HB Hq0 Hq1.
  pose proof (Permutation_length Hperm) as Hlen.
  destruct (quantile_units (map unit_item xs) (map unit_item ys) s q (unit_item 0)) as [k [K1 [K2 K3]]];
    try assumption.
  - apply Permutation_map. exact Hperm.
  - apply ssorted_unit_items. apply sorted_ssorted. exact Hs.
  - apply units_unit_items.
  - intros E. apply map_eq_nil in E. subst ys. apply Permutation_sym, Permutation_nil in Hperm.
    contradiction.
  - rewrite map_length, <- Hlen. exact HB.
  - rewrite map_length, <- Hlen in K1, K2. exists k. split; [exact K1|]. split; [exact K2|].
    rewrite K3. rewrite (map_nth unit_item ys 0 k). reflexivity.
Qed.

(* accuracy of the representative of an accepted value *)
Lemma repr_accuracy alpha a :
  okv a ->
  (forall x, am_min m < x -> x <= am_max m -> Qcabs (am_value m (am_index m x) - x) <= alpha * x) ->
  (Qcabs (fst a) <= am_min m /\ repr (fst a) = 0) \/
  Qcabs (repr (fst a) - fst a) <= alpha * Qcabs (fst a).
Proof.
  intros [Ho1 Ho2] Hacc. unfold repr.
  destruct (wleb_spec (Qcabs (fst a)) (am_min m)) as [E|E]; [left; split; [exact E|reflexivity]|].
  right. rewrite Qcabs_Qcle_condition in E.
  destruct (wltb_spec 0 (fst a)) as [E'|E'].
  - assert (H1 : am_min m < fst a).
    { apply Qcnot_le_lt. intros Hle. apply E. split; qlra. }
    rewrite (Qcabs_pos (fst a)) by qlra. apply Hacc; [exact H1|apply Ho1; exact H1].
  - assert (H0 : fst a <= 0) by (apply Qcnot_lt_le; exact E').
    assert (H1 : fst a < - am_min m).
    { apply Qcnot_le_lt. intros Hle. apply E. split; qlra. }
    specialize (Ho2 H1).
    rewrite (Qcabs_neg (fst a)) by exact H0.
    replace (- am_value m (am_index m (- fst a)) - fst a)
      with (- (am_value m (am_index m (- fst a)) - - fst a)) by ring.
    rewrite Qcabs_opp. apply Hacc; qlra.
Qed.

Corollary quantile_accuracy (xs ys : list Qc) s q alpha :
  a_add_list a_new (map unit_item xs) = Some s ->
  Permutation xs ys -> Sorted Qcle ys -> xs <> [] ->
  (Z.of_nat (length xs) <= B)%Z -> 0 <= q -> q <= 1 ->
  (forall x, am_min m < x -> x <= am_max m -> Qcabs (am_value m (am_index m x) - x) <= alpha * x) ->
  exists (k : nat) (y : Qc),
    (cfloor (q * inj (Z.of_nat (length xs) - 1)) <= Z.of_nat k
     <= cceil (q * inj (Z.of_nat (length xs) - 1)))%Z /\
    (k < length xs)%nat /\
    a_quantile rnd m s q = Some y /\
    ((Qcabs (nth k ys 0) <= am_min m /\ y = 0) \/
     Qcabs (y - nth k ys 0) <= alpha * Qcabs (nth k ys 0)).
Proof.
  intros Hadd Hperm Hs Hne HB Hq0 Hq1 Hacc.
  destruct (quantile_selects_order_statistic xs ys s q Hadd Hperm Hs Hne HB Hq0 Hq1) as [k [K1 [K2 K3]]].
  exists k, (repr (nth k ys 0)). split; [exact K1|]. split; [exact K2|]. split; [exact K3|].
  destruct (a_add_list_content _ _ _ Hadd) as [_ [_ [_ Hok]]].
  assert (Hin : In (unit_item (nth k ys 0)) (map unit_item xs)).
  { apply in_map. apply (Permutation_in _ (Permutation_sym Hperm)). apply nth_In.
    rewrite <- (Permutation_length Hperm). exact K2. }
  rewrite Forall_forall in Hok. specialize (Hok _ Hin).
  exact (repr_accuracy alpha (unit_item (nth k ys 0)) Hok Hacc).
Qed.

(* q = 0 and q = 1 select the smallest and the largest value *)
Corollary quantile_0_min (xs ys : list Qc) s :
  a_add_list a_new (map unit_item xs) = Some s ->
  Permutation xs ys -> Sorted Qcle ys -> xs <> [] -> (Z.of_nat (length xs) <= B)%Z ->
  a_quantile rnd m s 0 = Some (repr (nth 0 ys 0)) /\
  In (nth 0 ys 0) xs /\ forall x, In x xs -> nth 0 ys 0 <= x.
Proof.
  intros Hadd Hperm Hs Hne HB.
  assert (H01 : (0:Qc) <= 1) by (unfold Qcle; cbn; lra).
  destruct (quantile_selects_order_statistic xs ys s 0 Hadd Hperm Hs Hne HB (Qcle_refl 0) H01)
    as [k [K1 [K2 K3]]].
  rewrite Qcmult_0_l in K1. change (Q2Qc 0) with (inj 0) in K1. rewrite cfloor_inj, cceil_inj in K1.
  assert (k = 0%nat) by lia. subst k. split; [exact K3|].
  destruct ys as [|y ys]; [apply Permutation_sym, Permutation_nil in Hperm; contradiction|].
  cbn [nth]. split; [apply (Permutation_in _ (Permutation_sym Hperm)); left; reflexivity|].
  intros x Hx. apply (Permutation_in _ Hperm) in Hx. apply sorted_ssorted in Hs.
  apply StronglySorted_inv in Hs. destruct Hs as [_ Hs]. rewrite Forall_forall in Hs.
  destruct Hx as [<-|Hx]; [apply Qcle_refl|apply Hs; exact Hx].
Qed.

Corollary quantile_1_max (xs ys : list Qc) s :
  a_add_list a_new (map unit_item xs) = Some s ->
  Permutation xs ys -> Sorted Qcle ys -> xs <> [] -> (Z.of_nat (length xs) <= B)%Z ->
  a_quantile rnd m s 1 = Some (repr (nth (length xs - 1) ys 0)) /\
  In (nth (length xs - 1) ys 0) xs /\ forall x, In x xs -> x <= nth (length xs - 1) ys 0.
Proof.
  intros Hadd Hperm Hs Hne HB.
  assert (H01 : (0:Qc) <= 1) by (unfold Qcle; cbn; lra).
  destruct (quantile_selects_order_statistic xs ys s 1 Hadd Hperm Hs Hne HB H01 (Qcle_refl 1))
    as [k [K1 [K2 K3]]].
  rewrite Qcmult_1_l in K1. rewrite cfloor_inj, cceil_inj in K1.
  assert (k = (length xs - 1)%nat) by lia. subst k. split; [exact K3|].
  pose proof (Permutation_length Hperm) as Hlen.
  assert (Hlt : (length xs - 1 < length ys)%nat) by lia.
  split; [apply (Permutation_in _ (Permutation_sym Hperm)); apply nth_In; exact Hlt|].
  intros x Hx. apply (Permutation_in _ Hperm) in Hx. apply sorted_ssorted in Hs.
  rewrite (nth_split_eq ys (length xs - 1) 0 Hlt) in Hs, Hx.
  destruct (ssorted_split _ _ _ _ Hs) as [S1 S2].
  assert (E2 : skipn (S (length xs - 1)) ys = []).
  { apply length_zero_iff_nil. rewrite skipn_length. lia. }
  rewrite E2 in Hx. apply in_app_iff in Hx. rewrite Forall_forall in S1.
  destruct Hx as [Hx|[<-|[]]]; [apply S1; exact Hx|apply Qcle_refl].
Qed.

(* Theorem A with the range condition |x| <= am_max as premise (all values are then accepted) *)
Corollary quantile_selects_order_statistic_inrange (xs ys : list Qc) q :
  (forall x, In x xs -> Qcabs x <= am_max m) ->
  Permutation xs ys -> Sorted Qcle ys -> xs <> [] ->
  (Z.of_nat (length xs) <= B)%Z -> 0 <= q -> q <= 1 ->
  exists s, a_add_list a_new (map unit_item xs) = Some s /\
  exists k : nat,
    (cfloor (q * inj (Z.of_nat (length xs) - 1)) <= Z.of_nat k
     <= cceil (q * inj (Z.of_nat (length xs) - 1)))%Z /\
    (k < length xs)%nat /\
    a_quantile rnd m s q = Some (repr (nth k ys 0)).
Proof.
  intros Hr Hperm Hs Hne HB Hq0 Hq1.
  destruct (a_add_list_total (map unit_item xs) a_new) as [s Hs'].
  { intros a Ha. apply in_map_iff in Ha. destruct Ha as [x [<- Hx]]. apply Hr. exact Hx. }
  exists s. split; [exact Hs'|].
  exact (quantile_selects_order_statistic xs ys s q Hs' Hperm Hs Hne HB Hq0 Hq1).
Qed.
End Units.

(* ================================================================== *)
(** * 5. Theorem B: positive rational weights, exact rank arithmetic   *)
(* ================================================================== *)

(* prefix search with clamping at both ends *)
Lemma find_split (l : list item) r :
  wpos l -> l <> [] ->
  exists l1 a l2, l = l1 ++ a :: l2 /\
    (wsum l1 <= r \/ l1 = []) /\ (r < wadd (wsum l1) (snd a) \/ l2 = []).
Proof.
  revert r. induction l as [|a l IH]; intros r Hw Hne; [contradiction|].
  inversion Hw as [|a' l' Ha Hl]; subst.
  destruct l as [|b l].
  - exists [], a, []. split; [reflexivity|]. split; right; reflexivity.
  - destruct (Qclt_le_dec r (snd a)) as [Hr|Hr].
    + exists [], a, (b :: l). split; [reflexivity|]. split; [right; reflexivity|].
      left. rewrite wsum_nil. qlra.
    + assert (Hne' : b :: l <> []) by discriminate.
      destruct (IH (r - snd a) Hl Hne') as [l1 [a0 [l2 [E [H1 H2]]]]].
      exists (a :: l1), a0, l2. split; [rewrite E; reflexivity|]. rewrite wsum_cons. split.
      * left. destruct H1 as [H1|H1]; [qlra|]. subst l1. rewrite wsum_nil. qlra.
      * destruct H2 as [H2|H2]; [left; qlra|right; exact H2].
Qed.
(* the same, counted from the right end *)
Lemma find_split_r (l : list item) r :
  wpos l -> l <> [] ->
  exists l1 a l2, l = l1 ++ a :: l2 /\
    (wsum l2 <= r \/ l2 = []) /\ (r < wadd (wsum l2) (snd a) \/ l1 = []).
Proof.
  intros Hw Hne.
  assert (Hw' : wpos (rev l)) by (apply (wpos_perm l); [apply Permutation_rev|exact Hw]).
  assert (Hne' : rev l <> []).
  { intros E. apply Hne. rewrite <- (rev_involutive l), E. reflexivity. }
  destruct (find_split (rev l) r Hw' Hne') as [m1 [a [m2 [E [H1 H2]]]]].
  exists (rev m2), a, (rev m1). split.
  - rewrite <- (rev_involutive l), E, rev_app_distr. cbn [rev]. rewrite <- app_assoc. reflexivity.
  - rewrite <- (wsum_perm _ _ (Permutation_rev m1)). split.
    + destruct H1 as [H1|H1]; [left; exact H1|right; subst m1; reflexivity].
    + destruct H2 as [H2|H2]; [left; exact H2|right; subst m2; reflexivity].
Qed.

Lemma mul_bracket_neg q (c : Qc) : 0 <= q -> q <= 1 -> c <= 0 -> c <= q * c /\ q * c <= 0.
Proof.
  intros H0 H1 Hc. assert (Hc' : 0 <= - c) by qlra.
  destruct (mul_bracket q (- c) H0 H1 Hc') as [A1 A2].
  replace (q * - c) with (- (q * c)) in A1, A2 by ring. split; qlra.
Qed.

(* the exact rank max 0 (q*(W-1)) *)
Lemma exact_rank_facts q (Wt : Qc) :
  0 <= q -> q <= 1 -> 0 < Wt ->
  let rho := if wltb (q * (Wt - 1)) w0 then w0 else q * (Wt - 1) in
  0 <= rho /\ q * (Wt - 1) <= rho /\ rho < Wt /\
  forall C, C - 1 <= rho -> C <= Wt -> C - 1 <= q * (Wt - 1).
Proof.
  intros H0 H1 HW. cbv zeta.
  destruct (Qclt_le_dec (Wt - 1) 0) as [Hs|Hs].
  - assert (Hs' : Wt - 1 <= 0) by qlra.
    destruct (mul_bracket_neg q (Wt - 1) H0 H1 Hs') as [A1 A2].
    destruct (wltb_spec (q * (Wt - 1)) w0) as [E|E].
    + split; [qlra|]. split; [qlra|]. split; [qlra|]. intros C HC1 HC2. qlra.
    + assert (E' : w0 <= q * (Wt - 1)) by (apply Qcnot_lt_le; exact E).
      split; [qlra|]. split; [qlra|]. split; [qlra|]. intros C HC1 HC2. qlra.
  - destruct (mul_bracket q (Wt - 1) H0 H1 Hs) as [A1 A2].
    destruct (wltb_spec (q * (Wt - 1)) w0) as [E|E]; [exfalso; qlra|].
    split; [qlra|]. split; [qlra|]. split; [qlra|]. intros C HC1 HC2. qlra.
Qed.

Definition idr (x : Qc) : Qc := x.

Lemma weighted_exact_core N Zs P s q :
  wpos (N ++ Zs ++ P) -> StronglySorted vle (N ++ Zs ++ P) -> Forall okv (N ++ Zs ++ P) ->
  Forall (fun a => isN a = true) N -> Forall (fun a => isZ a = true) Zs ->
  Forall (fun a => isP a = true) P ->
  a_pos s = bins_of_list (map kpos P) -> a_neg s = bins_of_list (map kneg N) ->
  a_zero s = wsum Zs ->
  N ++ Zs ++ P <> [] -> 0 <= q -> q <= 1 ->
  exists l1 a l2,
    N ++ Zs ++ P = l1 ++ a :: l2 /\
    a_quantile idr m s q = Some (repr (fst a)) /\
    wsum l1 - 1 <= q * (wsum (N ++ Zs ++ P) - 1) /\
    q * (wsum (N ++ Zs ++ P) - 1) < wsum l1 + snd a.
Proof.
  intros Hw Hs Hok HN HZ HP CP CN CZ Hne Hq0 Hq1.
  pose proof Hw as Hw'. unfold wpos in Hw'. apply Forall_app in Hw'. destruct Hw' as [HwN Hw'].
  apply Forall_app in Hw'. destruct Hw' as [HwZ HwP].
  pose proof Hok as Hok'. apply Forall_app in Hok'. destruct Hok' as [HokN Hok'].
  apply Forall_app in Hok'. destruct Hok' as [_ HokP].
  destruct (ssorted_app _ _ _ Hs) as [HsN Hs']. destruct (ssorted_app _ _ _ Hs') as [_ HsP].
  assert (TN : total (a_neg s) = wsum N).
  { rewrite CN, total_bins_of_list. unfold kneg. apply total_map_key. }
  assert (TP : total (a_pos s) = wsum P).
  { rewrite CP, total_bins_of_list. unfold kpos. apply total_map_key. }
  pose proof (wsum_pos _ Hw Hne) as HWt.
  assert (EW : wsum (N ++ Zs ++ P) = wsum N + wsum Zs + wsum P).
  { rewrite !wsum_app. wring. }
  pose proof (wsum_nonneg N HwN) as HN0. pose proof (wsum_nonneg Zs HwZ) as HZ0.
  pose proof (wsum_nonneg P HwP) as HP0.
  remember (wsum (N ++ Zs ++ P)) as Wt eqn:EWt.
  assert (Hcount : a_count s = Wt).
  { unfold a_count. rewrite TN, TP, CZ, EW. wring. }
  assert (Hcne : a_count s <> w0) by (rewrite Hcount; qlra).
  destruct (exact_rank_facts q Wt Hq0 Hq1 HWt) as [R0 [R1 [R2 R3]]].
  assert (Hrank : a_rank idr s q = if wltb (q * (Wt - 1)) w0 then w0 else q * (Wt - 1)).
  { unfold a_rank, idr. cbv zeta. rewrite Hcount. reflexivity. }
  remember (if wltb (q * (Wt - 1)) w0 then w0 else q * (Wt - 1)) as rho eqn:Erho. clear Erho.
  destruct (Qclt_le_dec rho (wsum N)) as [Hbr|Hbr].
  - (* negative branch *)
    assert (HNne : N <> []). { intros E. subst N. rewrite wsum_nil in Hbr. qlra. }
    destruct (find_split_r N (wsum N - 1 - rho) HwN HNne) as [n1 [a [n2 [EN [C1 C2]]]]].
    assert (HaN : isN a = true).
    { rewrite Forall_forall in HN. apply HN. rewrite EN. apply in_elt. }
    assert (Hsel : key_at_rank (a_neg s) (wsum N - 1 - rho) = Some (am_index m (- fst a))).
    { rewrite CN. rewrite EN at 1. rewrite EN in HwN, HN, HokN, HsN.
      apply select_neg; assumption. }
    assert (EwN : wsum N = wsum n1 + snd a + wsum n2).
    { rewrite EN, wsum_app, wsum_cons. wring. }
    assert (Hparts : w0 <= wsum n1 /\ w0 < snd a /\ w0 <= wsum n2).
    { pose proof HwN as H. rewrite EN in H. apply Forall_app in H. destruct H as [H1 H2].
      apply Forall_cons_iff in H2. destruct H2 as [H2 H3].
      split; [apply wsum_nonneg; exact H1|]. split; [exact H2|apply wsum_nonneg; exact H3]. }
    destruct Hparts as [Hn1 [Hca Hn2]].
    exists n1, a, (n2 ++ Zs ++ P). split; [rewrite EN at 1; rewrite <- app_assoc; reflexivity|].
    split.
    { rewrite (repr_N a HaN). apply a_quantile_neg; [exact Hcne|rewrite Hrank, TN; exact Hbr|].
      rewrite Hrank, TN. exact Hsel. }
    split.
    + apply R3; [|qlra]. destruct C2 as [C2|C2]; [qlra|]. subst n1. rewrite wsum_nil. qlra.
    + destruct C1 as [C1|C1]; [qlra|]. subst n2. rewrite wsum_nil in EwN. qlra.
  - destruct (Qclt_le_dec rho (wsum Zs + wsum N)) as [Hbr2|Hbr2].
    + (* zero branch *)
      assert (HZne : Zs <> []). { intros E. subst Zs. rewrite wsum_nil in Hbr2. qlra. }
      destruct (find_split Zs (rho - wsum N) HwZ HZne) as [z1 [a [z2 [EZ [C1 C2]]]]].
      assert (HaZ : isZ a = true).
      { rewrite Forall_forall in HZ. apply HZ. rewrite EZ. apply in_elt. }
      assert (EwZ : wsum Zs = wsum z1 + snd a + wsum z2).
      { rewrite EZ, wsum_app, wsum_cons. wring. }
      assert (Hparts : w0 <= wsum z1 /\ w0 < snd a /\ w0 <= wsum z2).
      { pose proof HwZ as H. rewrite EZ in H. apply Forall_app in H. destruct H as [H1 H2].
        apply Forall_cons_iff in H2. destruct H2 as [H2 H3].
        split; [apply wsum_nonneg; exact H1|]. split; [exact H2|apply wsum_nonneg; exact H3]. }
      destruct Hparts as [Hz1 [Hca Hz2]].
      exists (N ++ z1), a, (z2 ++ P). split.
      { rewrite EZ at 1. rewrite <- !app_assoc. reflexivity. }
      split.
      { rewrite (repr_Z a HaZ). apply a_quantile_zero; [exact Hcne|rewrite Hrank, TN; exact Hbr|].
        rewrite Hrank, TN, CZ. exact Hbr2. }
      rewrite wsum_app. split.
      * apply R3; [|qlra]. destruct C1 as [C1|C1]; [qlra|]. subst z1. rewrite wsum_nil. qlra.
      * destruct C2 as [C2|C2]; [qlra|]. subst z2. rewrite wsum_nil in EwZ. qlra.
    + (* positive branch *)
      assert (HPne : P <> []). { intros E. subst P. rewrite wsum_nil in EW. qlra. }
      destruct (find_split P (rho - wsum Zs - wsum N) HwP HPne) as [p1 [a [p2 [EP [C1 C2]]]]].
      assert (HaP : isP a = true).
      { rewrite Forall_forall in HP. apply HP. rewrite EP. apply in_elt. }
      assert (Hsel : key_at_rank (a_pos s) (rho - wsum Zs - wsum N) = Some (am_index m (fst a))).
      { rewrite CP. rewrite EP at 1. rewrite EP in HwP, HP, HokP, HsP.
        apply select_pos; assumption. }
      assert (EwP : wsum P = wsum p1 + snd a + wsum p2).
      { rewrite EP, wsum_app, wsum_cons. wring. }
      assert (Hparts : w0 <= wsum p1 /\ w0 < snd a /\ w0 <= wsum p2).
      { pose proof HwP as H. rewrite EP in H. apply Forall_app in H. destruct H as [H1 H2].
        apply Forall_cons_iff in H2. destruct H2 as [H2 H3].
        split; [apply wsum_nonneg; exact H1|]. split; [exact H2|apply wsum_nonneg; exact H3]. }
      destruct Hparts as [Hp1 [Hca Hp2]].
      exists (N ++ Zs ++ p1), a, p2. split.
      { rewrite EP at 1. rewrite <- !app_assoc. reflexivity. }
      split.
      { rewrite (repr_P a HaP).
        apply a_quantile_pos; [exact Hcne|rewrite Hrank, TN; exact Hbr|rewrite Hrank, TN, CZ; exact Hbr2|].
        rewrite Hrank, TN, CZ. exact Hsel. }
      rewrite !wsum_app. split.
      * apply R3; [|qlra]. destruct C1 as [C1|C1]; [qlra|]. subst p1. rewrite wsum_nil. qlra.
      * destruct C2 as [C2|C2]; [qlra|]. subst p2. rewrite wsum_nil in EwP. qlra.
Qed.

(* THEOREM B (exact rank arithmetic): the answer is the representative of the j-th smallest value,
   where the cumulative weights C_j (before) and C_j + c_j (after) bracket the rank q*(W-1):
   C_j - 1 <= q*(W-1) < C_j + c_j *)
Theorem weighted_quantile_exact xs ys s q :
  a_add_list a_new xs = Some s -> Permutation xs ys -> StronglySorted vle ys -> wpos ys ->
  ys <> [] -> 0 <= q -> q <= 1 ->
  exists l1 a l2,
    ys = l1 ++ a :: l2 /\
    a_quantile idr m s q = Some (repr (fst a)) /\
    wsum l1 - 1 <= q * (wsum ys - 1) /\
    q * (wsum ys - 1) < wsum l1 + snd a.
Proof.
  intros Hadd Hperm Hs Hw Hne Hq0 Hq1.
  assert (Hwx : wpos xs) by (apply (wpos_perm ys); [apply Permutation_sym; exact Hperm|exact Hw]).
  destruct (sketch_content xs ys s Hadd Hperm Hwx) as [CP [CN [CZ Hok]]].
  pose proof (sorted_decomp ys Hs) as Hdec.
  pose proof (weighted_exact_core (filter isN ys) (filter isZ ys) (filter isP ys) s q) as G.
  rewrite <- Hdec in G. apply G; try assumption; apply Forall_filter_true.
Qed.

Lemma firstn_app_len {A} (l1 l2 : list A) : firstn (length l1) (l1 ++ l2) = l1.
Proof. induction l1 as [|a l1 IH]; [reflexivity|]. cbn [length app firstn]. rewrite IH. reflexivity. Qed.
Lemma firstn_app_len_S {A} (l1 : list A) a l2 :
  firstn (S (length l1)) (l1 ++ a :: l2) = l1 ++ [a].
Proof.
  induction l1 as [|b l1 IH]; [reflexivity|].
  cbn [length app]. rewrite firstn_cons. rewrite IH. reflexivity.
Qed.

(* the same, by position in the sorted list: C_j = total weight of the first j values *)
Corollary weighted_quantile_exact_nth xs ys s q d :
  a_add_list a_new xs = Some s -> Permutation xs ys -> StronglySorted vle ys -> wpos ys ->
  ys <> [] -> 0 <= q -> q <= 1 ->
  exists j : nat,
    (j < length ys)%nat /\
    a_quantile idr m s q = Some (repr (fst (nth j ys d))) /\
    wsum (firstn j ys) - 1 <= q * (wsum ys - 1) /\
    q * (wsum ys - 1) < wsum (firstn (S j) ys).
Proof.
  intros Hadd Hperm Hs Hw Hne Hq0 Hq1.
  destruct (weighted_quantile_exact xs ys s q Hadd Hperm Hs Hw Hne Hq0 Hq1)
    as [l1 [a [l2 [E [K1 [K2 K3]]]]]].
  assert (E1 : nth (length l1) ys d = a) by (rewrite E; apply nth_middle).
  assert (E2 : firstn (length l1) ys = l1) by (rewrite E; apply firstn_app_len).
  assert (E3 : firstn (S (length l1)) ys = l1 ++ [a]) by (rewrite E; apply firstn_app_len_S).
  assert (E4 : (length l1 < length ys)%nat) by (rewrite E, app_length; cbn [length]; lia).
  exists (length l1). rewrite E1, E2, E3.
  split; [exact E4|]. split; [exact K1|]. split; [exact K2|].
  rewrite wsum_app, wsum_cons, wsum_nil. qlra.
Qed.

(* the answer is the representative of an absorbed value *)
Corollary weighted_quantile_absorbed xs ys s q :
  a_add_list a_new xs = Some s -> Permutation xs ys -> StronglySorted vle ys -> wpos ys ->
  ys <> [] -> 0 <= q -> q <= 1 ->
  exists a, In a xs /\ a_quantile idr m s q = Some (repr (fst a)).
Proof.
  intros Hadd Hperm Hs Hw Hne Hq0 Hq1.
  destruct (weighted_quantile_exact xs ys s q Hadd Hperm Hs Hw Hne Hq0 Hq1)
    as [l1 [a [l2 [E [K1 _]]]]].
  exists a. split; [|exact K1]. apply (Permutation_in _ (Permutation_sym Hperm)).
  rewrite E. apply in_elt.
Qed.
(* if every value is above am_min the answer comes from the positive store *)
Corollary weighted_quantile_all_positive xs ys s q :
  a_add_list a_new xs = Some s -> Permutation xs ys -> StronglySorted vle ys -> wpos ys ->
  ys <> [] -> 0 <= q -> q <= 1 ->
  (forall a, In a xs -> am_min m < fst a) ->
  exists a, In a xs /\ a_quantile idr m s q = Some (am_value m (am_index m (fst a))).
Proof.
  intros Hadd Hperm Hs Hw Hne Hq0 Hq1 Hall.
  destruct (weighted_quantile_absorbed xs ys s q Hadd Hperm Hs Hw Hne Hq0 Hq1) as [a [Ha K]].
  exists a. split; [exact Ha|]. rewrite K. f_equal. apply repr_P. apply isP_true. apply Hall. exact Ha.
Qed.

(* ================================================================== *)
(** * 5b. Theorem B under rounding, for integer weights                *)
(* ================================================================== *)

(* positive integer weights (what AddWithCount receives from integer counts) *)
Definition intw (l : list item) : Prop :=
  Forall (fun a : item => exists z : Z, (0 < z)%Z /\ snd a = inj z) l.
Lemma intw_wpos l : intw l -> wpos l.
Proof.
  unfold intw, wpos. apply Forall_impl. intros a [z [Hz ->]]. change w0 with (inj 0).
  apply inj_mono_lt. exact Hz.
Qed.
Lemma intw_wsum l : intw l -> exists z, (0 <= z)%Z /\ wsum l = inj z.
Proof.
  induction l as [|a l IH]; intros H.
  - exists 0%Z. split; [lia|reflexivity].
  - inversion H as [|a' l' [z [Hz Ea]] Hl]; subst. destruct (IH Hl) as [z' [Hz' E']].
    exists (z + z')%Z. split; [lia|]. rewrite wsum_cons, Ea, E', inj_plus. reflexivity.
Qed.
Lemma units_intw l : units l -> intw l.
Proof. unfold units, intw. apply Forall_impl. intros a ->. exists 1%Z. split; [lia|reflexivity]. Qed.

Section IntegerWeights.
Variable rnd : Qc -> Qc.
Variable B : Z.
Hypothesis rnd_mono : forall x y, x <= y -> rnd x <= rnd y.
Hypothesis rnd_int : forall z : Z, (Z.abs z <= B)%Z -> rnd (inj z) = inj z.

Lemma weighted_integer_core N Zs P s q n :
  intw (N ++ Zs ++ P) -> StronglySorted vle (N ++ Zs ++ P) -> Forall okv (N ++ Zs ++ P) ->
  Forall (fun a => isN a = true) N -> Forall (fun a => isZ a = true) Zs ->
  Forall (fun a => isP a = true) P ->
  a_pos s = bins_of_list (map kpos P) -> a_neg s = bins_of_list (map kneg N) ->
  a_zero s = wsum Zs ->
  N ++ Zs ++ P <> [] -> wsum (N ++ Zs ++ P) = inj n -> (n <= B)%Z -> 0 <= q -> q <= 1 ->
  exists l1 a l2 (k : Z),
    N ++ Zs ++ P = l1 ++ a :: l2 /\
    a_quantile rnd m s q = Some (repr (fst a)) /\
    (cfloor (q * inj (n - 1)) <= k <= cceil (q * inj (n - 1)))%Z /\
    wsum l1 <= inj k /\ inj k < wsum l1 + snd a.
Proof.
  intros Hi Hs Hok HN HZ HP CP CN CZ Hne HWn HB Hq0 Hq1.
  pose proof (intw_wpos _ Hi) as Hw.
  pose proof Hi as Hi'. unfold intw in Hi'. apply Forall_app in Hi'. destruct Hi' as [HiN Hi'].
  apply Forall_app in Hi'. destruct Hi' as [HiZ HiP].
  pose proof (intw_wpos _ HiN) as HwN. pose proof (intw_wpos _ HiZ) as HwZ.
  pose proof (intw_wpos _ HiP) as HwP.
  pose proof Hok as Hok'. apply Forall_app in Hok'. destruct Hok' as [HokN Hok'].
  apply Forall_app in Hok'. destruct Hok' as [_ HokP].
  destruct (ssorted_app _ _ _ Hs) as [HsN Hs']. destruct (ssorted_app _ _ _ Hs') as [_ HsP].
  destruct (intw_wsum N HiN) as [zN [HzN EN0]]. destruct (intw_wsum Zs HiZ) as [zZ [HzZ EZ0]].
  destruct (intw_wsum P HiP) as [zP [HzP EP0]].
  assert (TN : total (a_neg s) = inj zN).
  { rewrite CN, total_bins_of_list. unfold kneg. rewrite total_map_key. exact EN0. }
  assert (TP : total (a_pos s) = inj zP).
  { rewrite CP, total_bins_of_list. unfold kpos. rewrite total_map_key. exact EP0. }
  assert (TZ : a_zero s = inj zZ) by (rewrite CZ; exact EZ0).
  assert (Hlen : n = (zN + zZ + zP)%Z).
  { apply inj_inj. rewrite <- HWn, !wsum_app, EN0, EZ0, EP0, !inj_plus. wring. }
  assert (Hn1 : (1 <= n)%Z).
  { pose proof (wsum_pos _ Hw Hne) as H. rewrite HWn in H. change w0 with (inj 0) in H.
    apply inj_lt in H. lia. }
  assert (Hcount : a_count s = inj n).
  { unfold a_count. rewrite TN, TZ, TP, Hlen, !inj_plus. wring. }
  assert (Hcne : a_count s <> w0).
  { rewrite Hcount. intros E. change w0 with (inj 0) in E. apply inj_inj in E. lia. }
  destruct (rank_bracket rnd B rnd_mono rnd_int n q (conj Hn1 HB) Hq0 Hq1) as [Hf0 [Hc1 [Hlo [Hhi _]]]].
  cbv zeta in Hf0, Hc1, Hlo, Hhi.
  pose proof (cfloor_le_cceil (q * inj (n - 1))) as Hfc.
  remember (cfloor (q * inj (n - 1))) as f eqn:Ef. remember (cceil (q * inj (n - 1))) as c eqn:Ec.
  clear Ef Ec.
  assert (Hrank : a_rank rnd s q = rnd (q * rnd (inj (n - 1)))).
  { unfold a_rank. cbv zeta. rewrite Hcount.
    replace (wsub (inj n) w1) with (inj (n - 1)) by (rewrite inj_minus, inj_1; reflexivity).
    unfold wmul. destruct (wltb_spec (rnd (q * rnd (inj (n - 1)))) w0) as [E|E]; [|reflexivity].
    exfalso. pose proof (inj_nonneg f Hf0) as H0. qlra. }
  remember (rnd (q * rnd (inj (n - 1)))) as rho eqn:Erho. clear Erho.
  assert (AbsN : (Z.abs (zN - 1) <= B)%Z) by lia.
  (* parts of a split of a class *)
  assert (Hsplit : forall l l1 a l2, intw l -> l = l1 ++ a :: l2 ->
            exists y1 ca y2, (0 <= y1)%Z /\ (0 < ca)%Z /\ (0 <= y2)%Z /\
              wsum l1 = inj y1 /\ snd a = inj ca /\ wsum l2 = inj y2 /\
              wsum l = inj (y1 + ca + y2)).
  { intros l l1 a l2 Hl E. rewrite E in Hl. unfold intw in Hl. apply Forall_app in Hl.
    destruct Hl as [H1 H2]. apply Forall_cons_iff in H2. destruct H2 as [[ca [Hca Ea]] H2].
    destruct (intw_wsum l1 H1) as [y1 [Hy1 E1]]. destruct (intw_wsum l2 H2) as [y2 [Hy2 E2]].
    exists y1, ca, y2. repeat (split; [assumption|]).
    rewrite E, wsum_app, wsum_cons, E1, Ea, E2, !inj_plus. wring. }
  destruct (Qclt_le_dec rho (inj zN)) as [Hbr|Hbr].
  - (* negative branch *)
    assert (Hfn : (f < zN)%Z). { apply inj_lt. eapply Qcle_lt_trans; eassumption. }
    remember (rnd (wsub (rnd (wsub (inj zN) w1)) rho)) as r' eqn:Er'.
    assert (Er'' : r' = rnd (inj (zN - 1) - rho)).
    { rewrite Er'. replace (wsub (inj zN) w1) with (inj (zN - 1)) by (rewrite inj_minus, inj_1; reflexivity).
      rewrite (rnd_int (zN - 1) AbsN). reflexivity. }
    assert (Hr'lo : inj (zN - 1 - c) <= r').
    { rewrite Er''. apply (rnd_ge_int rnd B rnd_mono rnd_int); [lia|].
      rewrite !inj_minus, inj_1. qlra. }
    assert (Hr'hi : r' <= inj (zN - 1 - f)).
    { rewrite Er''. apply (rnd_le_int rnd B rnd_mono rnd_int); [lia|].
      rewrite !inj_minus, inj_1. qlra. }
    assert (HNne : N <> []).
    { intros E. subst N. rewrite wsum_nil in EN0. change w0 with (inj 0) in EN0.
      apply inj_inj in EN0. lia. }
    destruct (find_split_r N r' HwN HNne) as [n1 [a [n2 [EN [C1 C2]]]]].
    destruct (Hsplit N n1 a n2 HiN EN) as [y1 [ca [y2 [Hy1 [Hca [Hy2 [E1 [Ea [E2 Et]]]]]]]]].
    rewrite EN0 in Et. apply inj_inj in Et.
    assert (HaN : isN a = true).
    { rewrite Forall_forall in HN. apply HN. rewrite EN. apply in_elt. }
    assert (Hsel : key_at_rank (a_neg s) r' = Some (am_index m (- fst a))).
    { rewrite CN. rewrite EN at 1. rewrite EN in HwN, HN, HokN, HsN.
      apply select_neg; assumption. }
    assert (K1 : (y1 <= c)%Z).
    { destruct C2 as [C2|C2].
      - rewrite E2, Ea, <- inj_plus in C2.
        assert (H : inj (zN - 1 - c) < inj (y2 + ca)) by (eapply Qcle_lt_trans; eassumption).
        apply inj_lt in H. lia.
      - subst n1. rewrite wsum_nil in E1. change w0 with (inj 0) in E1. apply inj_inj in E1. lia. }
    assert (K2 : (f < y1 + ca)%Z).
    { destruct C1 as [C1|C1].
      - rewrite E2 in C1. assert (H : inj y2 <= inj (zN - 1 - f)) by (eapply Qcle_trans; eassumption).
        apply inj_le in H. lia.
      - subst n2. rewrite wsum_nil in E2. change w0 with (inj 0) in E2. apply inj_inj in E2. lia. }
    exists n1, a, (n2 ++ Zs ++ P), (Z.max f y1).
    split; [rewrite EN at 1; rewrite <- app_assoc; reflexivity|].
    split.
    { rewrite (repr_N a HaN). apply a_quantile_neg; [exact Hcne|rewrite Hrank, TN; exact Hbr|].
      rewrite Hrank, TN, <- Er'. exact Hsel. }
    split; [lia|]. rewrite E1, Ea, <- inj_plus. split; [apply inj_mono|apply inj_mono_lt]; lia.
  - assert (EZN : rnd (wadd (a_zero s) (total (a_neg s))) = inj (zZ + zN)).
    { rewrite TZ, TN. unfold wadd. rewrite <- inj_plus. apply rnd_int. lia. }
    destruct (Qclt_le_dec rho (inj (zZ + zN))) as [Hbr2|Hbr2].
    + (* zero branch *)
      assert (HZne : Zs <> []).
      { intros E. subst Zs. rewrite wsum_nil in EZ0. change w0 with (inj 0) in EZ0.
        apply inj_inj in EZ0. subst zZ. cbn [Z.add] in Hbr2. exact (Qclt_not_le _ _ Hbr2 Hbr). }
      destruct (find_split Zs (rho - inj zN) HwZ HZne) as [z1 [a [z2 [EZ [C1 C2]]]]].
      destruct (Hsplit Zs z1 a z2 HiZ EZ) as [y1 [ca [y2 [Hy1 [Hca [Hy2 [E1 [Ea [E2 Et]]]]]]]]].
      rewrite EZ0 in Et. apply inj_inj in Et.
      assert (HaZ : isZ a = true).
      { rewrite Forall_forall in HZ. apply HZ. rewrite EZ. apply in_elt. }
      assert (K1 : (zN + y1 <= c)%Z).
      { apply inj_le. rewrite inj_plus. destruct C1 as [C1|C1].
        - rewrite E1 in C1. qlra.
        - subst z1. rewrite wsum_nil in E1. change w0 with (inj 0) in E1. apply inj_inj in E1.
          subst y1. rewrite inj_0. qlra. }
      assert (K2 : (f < zN + y1 + ca)%Z).
      { destruct C2 as [C2|C2].
        - apply inj_lt. rewrite !inj_plus. rewrite E1, Ea in C2. qlra.
        - subst z2. rewrite wsum_nil in E2. change w0 with (inj 0) in E2. apply inj_inj in E2.
          assert (Hf2 : (f < zZ + zN)%Z) by (apply inj_lt; eapply Qcle_lt_trans; eassumption).
          lia. }
      exists (N ++ z1), a, (z2 ++ P), (Z.max f (zN + y1)). split.
      { rewrite EZ at 1. rewrite <- !app_assoc. reflexivity. }
      split.
      { rewrite (repr_Z a HaZ). apply a_quantile_zero; [exact Hcne|rewrite Hrank, TN; exact Hbr|].
        rewrite Hrank, EZN. exact Hbr2. }
      split; [lia|]. rewrite wsum_app, EN0, E1, Ea, <- !inj_plus.
      split; [apply inj_mono|apply inj_mono_lt]; lia.
    + (* positive branch *)
      assert (Hc2 : (zZ + zN <= c)%Z). { apply inj_le. eapply Qcle_trans; eassumption. }
      remember (rnd (wsub (rnd (wsub rho (a_zero s))) (total (a_neg s)))) as r' eqn:Er'.
      rewrite TZ, TN in Er'.
      assert (Hin_lo : inj (f - zZ) <= rnd (wsub rho (inj zZ))).
      { apply (rnd_ge_int rnd B rnd_mono rnd_int); [lia|]. rewrite inj_minus. qlra. }
      assert (Hin_hi : rnd (wsub rho (inj zZ)) <= inj (c - zZ)).
      { apply (rnd_le_int rnd B rnd_mono rnd_int); [lia|]. rewrite inj_minus. qlra. }
      assert (Hr'lo : inj (f - zZ - zN) <= r').
      { rewrite Er'. apply (rnd_ge_int rnd B rnd_mono rnd_int); [lia|].
        rewrite inj_minus in Hin_lo |- *. rewrite inj_minus. qlra. }
      assert (Hr'hi : r' <= inj (c - zZ - zN)).
      { rewrite Er'. apply (rnd_le_int rnd B rnd_mono rnd_int); [lia|].
        rewrite inj_minus in Hin_hi |- *. rewrite inj_minus. qlra. }
      assert (HPne : P <> []).
      { intros E. subst P. rewrite wsum_nil in EP0. change w0 with (inj 0) in EP0.
        apply inj_inj in EP0. lia. }
      destruct (find_split P r' HwP HPne) as [p1 [a [p2 [EP [C1 C2]]]]].
      destruct (Hsplit P p1 a p2 HiP EP) as [y1 [ca [y2 [Hy1 [Hca [Hy2 [E1 [Ea [E2 Et]]]]]]]]].
      rewrite EP0 in Et. apply inj_inj in Et.
      assert (HaP : isP a = true).
      { rewrite Forall_forall in HP. apply HP. rewrite EP. apply in_elt. }
      assert (Hsel : key_at_rank (a_pos s) r' = Some (am_index m (fst a))).
      { rewrite CP. rewrite EP at 1. rewrite EP in HwP, HP, HokP, HsP.
        apply select_pos; assumption. }
      assert (K1 : (zN + zZ + y1 <= c)%Z).
      { destruct C1 as [C1|C1].
        - rewrite E1 in C1. assert (H : inj y1 <= inj (c - zZ - zN)) by (eapply Qcle_trans; eassumption).
          apply inj_le in H. lia.
        - subst p1. rewrite wsum_nil in E1. change w0 with (inj 0) in E1. apply inj_inj in E1. lia. }
      assert (K2 : (f < zN + zZ + y1 + ca)%Z).
      { destruct C2 as [C2|C2].
        - rewrite E1, Ea, <- inj_plus in C2.
          assert (H : inj (f - zZ - zN) < inj (y1 + ca)) by (eapply Qcle_lt_trans; eassumption).
          apply inj_lt in H. lia.
        - subst p2. rewrite wsum_nil in E2. change w0 with (inj 0) in E2. apply inj_inj in E2. lia. }
      exists (N ++ Zs ++ p1), a, p2, (Z.max f (zN + zZ + y1)). split.
      { rewrite EP at 1. rewrite <- !app_assoc. reflexivity. }
      split.
      { rewrite (repr_P a HaP).
        apply a_quantile_pos; [exact Hcne|rewrite Hrank, TN; exact Hbr|rewrite Hrank, EZN; exact Hbr2|].
        rewrite Hrank, TZ, TN, <- Er'. exact Hsel. }
      split; [lia|]. rewrite !wsum_app, EN0, EZ0, E1, Ea, <- !inj_plus.
      split; [apply inj_mono|apply inj_mono_lt]; lia.
Qed.

(* THEOREM B under rounding, positive integer weights with total n <= B: some integer rank k
   between floor and ceil of q*(n-1) falls inside the cumulative-weight interval [C_j, C_j + c_j)
   of the selected value *)
Theorem weighted_quantile_integer xs ys s q n :
  a_add_list a_new xs = Some s -> Permutation xs ys -> StronglySorted vle ys -> intw ys ->
  ys <> [] -> wsum ys = inj n -> (n <= B)%Z -> 0 <= q -> q <= 1 ->
  exists l1 a l2 (k : Z),
    ys = l1 ++ a :: l2 /\
    a_quantile rnd m s q = Some (repr (fst a)) /\
    (cfloor (q * inj (n - 1)) <= k <= cceil (q * inj (n - 1)))%Z /\
    wsum l1 <= inj k /\ inj k < wsum l1 + snd a.
Proof.
  intros Hadd Hperm Hs Hi Hne HWn HB Hq0 Hq1.
  assert (Hwx : wpos xs).
  { apply (wpos_perm ys); [apply Permutation_sym; exact Hperm|apply intw_wpos; exact Hi]. }
  destruct (sketch_content xs ys s Hadd Hperm Hwx) as [CP [CN [CZ Hok]]].
  pose proof (sorted_decomp ys Hs) as Hdec.
  pose proof (weighted_integer_core (filter isN ys) (filter isZ ys) (filter isP ys) s q n) as G.
  rewrite <- Hdec in G. apply G; try assumption; apply Forall_filter_true.
Qed.
End IntegerWeights.

(* ================================================================== *)
(** * 6. The answer lies between the sketch's minimum and maximum      *)
(* ================================================================== *)

Lemma lsum_ge_entry l k c : nonneg l -> In (k, c) l -> c <= lsum l k.
Proof.
  unfold lsum. induction l as [|[k' c'] l IH]; intros Hn Hin; [contradiction|].
  apply nonneg_cons in Hn. destruct Hn as [Hc Hn]. rewrite gsum_cons.
  pose proof (gsum_nonneg (fun k0 => k =? k0)%Z l Hn) as Hg.
  destruct Hin as [E|Hin].
  - injection E as -> ->. rewrite Z.eqb_refl. qlra.
  - specialize (IH Hn Hin). destruct (k =? k')%Z; qlra.
Qed.
Lemma key_present (f : item -> Z) l a :
  wpos l -> In a l -> get (bins_of_list (map (fun a => (f a, snd a)) l)) (f a) <> w0.
Proof.
  intros Hw Hin. pose proof (wpos_nonneg_map f l Hw) as Hn.
  rewrite get_bins_of_list by exact Hn.
  assert (Hin' : In (f a, snd a) (map (fun a => (f a, snd a)) l)).
  { apply in_map_iff. exists a. split; [reflexivity|exact Hin]. }
  pose proof (lsum_ge_entry _ _ _ Hn Hin') as Hle.
  unfold wpos in Hw. rewrite Forall_forall in Hw. specialize (Hw a Hin). qlra.
Qed.

Section MinMax.
Hypothesis value_mono : forall i j, (i <= j)%Z -> am_value m i <= am_value m j.
Hypothesis value_nonneg : forall i, 0 <= am_value m i.

Lemma repr_between_min_max N Zs P s a :
  wpos (N ++ Zs ++ P) ->
  Forall (fun a => isN a = true) N -> Forall (fun a => isZ a = true) Zs ->
  Forall (fun a => isP a = true) P ->
  a_pos s = bins_of_list (map kpos P) -> a_neg s = bins_of_list (map kneg N) ->
  a_zero s = wsum Zs ->
  In a (N ++ Zs ++ P) ->
  exists lo hi, a_min m s = Some lo /\ a_max m s = Some hi /\ lo <= repr (fst a) /\ repr (fst a) <= hi.
Proof.
  intros Hw HN HZ HP CP CN CZ Hin.
  pose proof Hw as Hw'. unfold wpos in Hw'. apply Forall_app in Hw'. destruct Hw' as [HwN Hw'].
  apply Forall_app in Hw'. destruct Hw' as [HwZ HwP].
  assert (WFP : wf (a_pos s) = true).
  { rewrite CP. apply wf_bins_of_list. apply (wpos_nonneg_map (fun a => am_index m (fst a))). exact HwP. }
  assert (WFN : wf (a_neg s) = true).
  { rewrite CN. apply wf_bins_of_list. apply (wpos_nonneg_map (fun a => am_index m (- fst a))). exact HwN. }
  assert (KP : forall b, In b P -> get (a_pos s) (am_index m (fst b)) <> w0).
  { intros b Hb. rewrite CP. apply (key_present (fun a => am_index m (fst a)) P b HwP Hb). }
  assert (KN : forall b, In b N -> get (a_neg s) (am_index m (- fst b)) <> w0).
  { intros b Hb. rewrite CN. apply (key_present (fun a => am_index m (- fst a)) N b HwN Hb). }
  assert (ZP : forall b, In b Zs -> w0 < a_zero s).
  { intros b Hb. rewrite CZ. apply wsum_pos; [exact HwZ|]. intros E. subst Zs. contradiction. }
  rewrite Forall_forall in HN, HZ, HP.
  (* the class of a *)
  assert (Hcls : (In a N /\ repr (fst a) = - am_value m (am_index m (- fst a))) \/
                 (In a Zs /\ repr (fst a) = 0) \/
                 (In a P /\ repr (fst a) = am_value m (am_index m (fst a)))).
  { apply in_app_iff in Hin. destruct Hin as [Hin|Hin].
    - left. split; [exact Hin|apply repr_N; apply HN; exact Hin].
    - apply in_app_iff in Hin. destruct Hin as [Hin|Hin].
      + right; left. split; [exact Hin|apply repr_Z; apply HZ; exact Hin].
      + right; right. split; [exact Hin|apply repr_P; apply HP; exact Hin]. }
  assert (Hlo : exists lo, a_min m s = Some lo /\ lo <= repr (fst a)).
  { unfold a_min. destruct (max_key (a_neg s)) as [kmax|] eqn:EM.
    - exists (- am_value m kmax). split; [reflexivity|].
      pose proof (value_nonneg kmax) as V0.
      destruct Hcls as [[Ha ->]|[[Ha ->]|[Ha ->]]].
      + pose proof (max_key_ge _ kmax _ WFN EM (KN a Ha)) as Hle. apply value_mono in Hle. qlra.
      + qlra.
      + pose proof (value_nonneg (am_index m (fst a))). qlra.
    - apply max_key_none in EM.
      assert (HnoN : ~ In a N). { intros Ha. apply (KN a Ha). rewrite EM. reflexivity. }
      destruct (wltb_spec w0 (a_zero s)) as [E0|E0].
      + exists 0. split; [reflexivity|]. destruct Hcls as [[Ha _]|[[Ha ->]|[Ha ->]]]; [contradiction|qlra|].
        apply value_nonneg.
      + destruct Hcls as [[Ha _]|[[Ha _]|[Ha ->]]]; [contradiction|exfalso; apply E0; eapply ZP; exact Ha|].
        destruct (min_key (a_pos s)) as [kmin|] eqn:Em.
        * exists (am_value m kmin). split; [reflexivity|]. apply value_mono.
          apply (min_key_le _ kmin _ WFP Em (KP a Ha)).
        * exfalso. apply min_key_none in Em. apply (KP a Ha). rewrite Em. reflexivity. }
  assert (Hhi : exists hi, a_max m s = Some hi /\ repr (fst a) <= hi).
  { unfold a_max. destruct (max_key (a_pos s)) as [kmax|] eqn:EM.
    - exists (am_value m kmax). split; [reflexivity|].
      pose proof (value_nonneg kmax) as V0.
      destruct Hcls as [[Ha ->]|[[Ha ->]|[Ha ->]]].
      + pose proof (value_nonneg (am_index m (- fst a))). qlra.
      + qlra.
      + apply value_mono. apply (max_key_ge _ kmax _ WFP EM (KP a Ha)).
    - apply max_key_none in EM.
      assert (HnoP : ~ In a P). { intros Ha. apply (KP a Ha). rewrite EM. reflexivity. }
      destruct (wltb_spec w0 (a_zero s)) as [E0|E0].
      + exists 0. split; [reflexivity|]. destruct Hcls as [[Ha ->]|[[Ha ->]|[Ha _]]]; [|qlra|contradiction].
        pose proof (value_nonneg (am_index m (- fst a))). qlra.
      + destruct Hcls as [[Ha ->]|[[Ha _]|[Ha _]]]; [|exfalso; apply E0; eapply ZP; exact Ha|contradiction].
        destruct (min_key (a_neg s)) as [kmin|] eqn:Em.
        * exists (- am_value m kmin). split; [reflexivity|].
          pose proof (min_key_le _ kmin _ WFN Em (KN a Ha)) as Hle. apply value_mono in Hle. qlra.
        * exfalso. apply min_key_none in Em. apply (KN a Ha). rewrite Em. reflexivity. }
  destruct Hlo as [lo [L1 L2]]. destruct Hhi as [hi [H1 H2]].
  exists lo, hi. repeat split; assumption.
Qed.

Lemma absorbed_between_min_max xs s a :
  a_add_list a_new xs = Some s -> wpos xs -> In a xs ->
  exists lo hi, a_min m s = Some lo /\ a_max m s = Some hi /\ lo <= repr (fst a) /\ repr (fst a) <= hi.
Proof.
  intros Hadd Hw Hin.
  destruct (sketch_content xs xs s Hadd (Permutation_refl xs) Hw) as [CP [CN [CZ _]]].
  assert (Hperm : Permutation xs (filter isN xs ++ filter isZ xs ++ filter isP xs)).
  { clear - mn0. induction xs as [|b l IH]; [constructor|]. cbn [filter]. unfold isZ at 1.
    destruct (isN b) eqn:EN.
    - rewrite (isN_isP b EN). cbn [negb andb app]. constructor. exact IH.
    - destruct (isP b); cbn [negb andb].
      + eapply Permutation_trans; [constructor; exact IH|].
        rewrite app_assoc. eapply Permutation_trans; [apply Permutation_middle|].
        rewrite <- app_assoc. apply Permutation_refl.
      + eapply Permutation_trans; [constructor; exact IH|]. apply Permutation_middle. }
  apply (repr_between_min_max (filter isN xs) (filter isZ xs) (filter isP xs) s a);
    try assumption; try apply Forall_filter_true.
  - apply (wpos_perm xs); assumption.
  - apply (Permutation_in _ Hperm). exact Hin.
Qed.

Corollary weighted_quantile_between xs ys s q :
  a_add_list a_new xs = Some s -> Permutation xs ys -> StronglySorted vle ys -> wpos ys ->
  ys <> [] -> 0 <= q -> q <= 1 ->
  exists lo hi y, a_min m s = Some lo /\ a_max m s = Some hi /\
    a_quantile idr m s q = Some y /\ lo <= y /\ y <= hi.
Proof.
  intros Hadd Hperm Hs Hw Hne Hq0 Hq1.
  destruct (weighted_quantile_absorbed xs ys s q Hadd Hperm Hs Hw Hne Hq0 Hq1) as [a [Ha K]].
  assert (Hwx : wpos xs) by (apply (wpos_perm ys); [apply Permutation_sym; exact Hperm|exact Hw]).
  destruct (absorbed_between_min_max xs s a Hadd Hwx Ha) as [lo [hi [M1 [M2 [M3 M4]]]]].
  exists lo, hi, (repr (fst a)). repeat split; assumption.
Qed.
End MinMax.
End Sketch.

(* ================================================================== *)
(** * 7. A rounding operator for the counterexample of Props/Rank.v    *)
(* ================================================================== *)
(* round half up to the nearest integer: monotone, fixes every integer, error <= 1/2.  With
   fractional weights it breaks the bracket C_j - 1 <= q*(W-1) of Theorem B (Props/Rank.v,
   [cx_rounded]); this is why Theorem B is stated for exact arithmetic, or for integer weights. *)
Definition rnd_half (x : Qc) : Qc := inj (cfloor (x + Q2Qc (1 # 2))).
Lemma half_val : this (Q2Qc (1 # 2)) = (1 # 2)%Q.
Proof. reflexivity. Qed.
Lemma rnd_half_mono x y : x <= y -> rnd_half x <= rnd_half y.
Proof.
  intros H. unfold rnd_half. apply inj_mono. apply cfloor_spec.
  pose proof (cfloor_le (x + Q2Qc (1 # 2))) as H1. qlra.
Qed.
Lemma rnd_half_int z : rnd_half (inj z) = inj z.
Proof.
  unfold rnd_half. f_equal.
  assert (H1 : (z <= cfloor (inj z + Q2Qc (1 # 2)))%Z).
  { apply cfloor_spec. unfold Qcle. rewrite this_plus, half_val. lra. }
  assert (H2 : (cfloor (inj z + Q2Qc (1 # 2)) < z + 1)%Z).
  { apply cfloor_ub. rewrite inj_plus, inj_1. unfold Qclt, w1. rewrite !this_plus, half_val.
    change (this (Q2Qc 1)) with 1%Q. lra. }
  lia.
Qed.
Lemma rnd_half_err x : Qcabs (rnd_half x - x) <= Q2Qc (1 # 2).
Proof.
  apply Qcabs_Qcle_condition. unfold rnd_half.
  pose proof (cfloor_le (x + Q2Qc (1 # 2))) as H1. pose proof (cfloor_lt (x + Q2Qc (1 # 2))) as H2.
  rewrite inj_plus, inj_1 in H2. unfold Qcle, Qclt, w1 in *.
  rewrite ?this_plus, ?this_minus, ?this_opp, ?half_val in *.
  change (this (Q2Qc 1)) with 1%Q in *. split; lra.
Qed.
