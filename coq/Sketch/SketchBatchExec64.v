(* GetValuesAtQuantiles on the executed sketch with binary64 rank arithmetic (rnd64): the premise
   [answerable rnd64 mt (sk_abs s)] of Sketch/SketchBatchExec.v discharged under the premises of the existing
   rnd64 lemmas (RoundingInstance.a_quantile_rnd64_eq_rndQ_awf, SketchProofs3.rnd64_count_eq, i.e. the
   [quantile_ready] of SketchProofs3 without its non-emptiness):
     SkInv s, dy_sketch (sk_abs s)  (every bin weight and the zero count dyadic),
     small (sk_abs s)               (total count <= 2^1000),
     ready64 s : plain_count s <> w0 -> w0 < rnd64 count /\ rnd64 (count - 1) < rnd64 count
   The last one cannot be dropped for dyadic weights in general (a total that underflows to 0, or a total from
   2^53 on where count - 1 rounds back to count); [ready64_integer] discharges it when the total is an integer
   1 <= n <= 2^53 (unit additions, integer weights).  Then the batch corollaries for plain_quantile rnd64 fx mt
   and for xk_quantile (= sk_quantile rnd64 x_fixes) / xk_quantiles, the functions the extracted driver runs. *)
From Coq Require Import Bool ZArith QArith Qcanon List Lia.
From SK Require Import Base.Prelude Base.F64 Base.F64Proofs Spec.Bins Spec.BinsProofs Spec.ASketch Store.Any
                       Stat.Summary Sketch.Sketch Sketch.SketchProofs Sketch.RankProofs Sketch.RefineProofs
                       Sketch.RoundingInstance Sketch.SketchProofs3
                       Sketch.SketchBatch Sketch.SketchBatchExec Extract.Instances Extract.Instances2.
Import ListNotations.

Definition ready64 (s : sketch) : Prop :=
  plain_count s <> w0 ->
  (w0 < rnd64 (plain_count s))%Qc /\ (rnd64 (wsub (plain_count s) w1) < rnd64 (plain_count s))%Qc.

Definition batch_ready64 (s : sketch) : Prop :=
  SkInv s /\ dy_sketch (sk_abs s) /\ small (sk_abs s) /\ ready64 s.

Theorem answerable_rnd64 mt s :
  SkInv s -> dy_sketch (sk_abs s) -> small (sk_abs s) -> ready64 s -> answerable rnd64 mt (sk_abs s).
Proof.
  intros I Hd Hs Hr q Q0 Q1 Nc. destruct (unit_q q Q0 Q1) as (Dq & Hq0 & Hq1).
  pose proof (SkInv_awf s I) as Ha.
  rewrite (a_quantile_rnd64_eq_rndQ_awf (am_of mt) (sk_abs s) (f2q q) Ha Hd Hs Dq Hq0 Hq1).
  unfold ready64 in Hr. rewrite (plain_count_refines s I) in Hr. destruct (Hr Nc) as (C0 & C1).
  destruct (rnd64_count_eq (sk_abs s) Ha Hd Hs) as [R1 R2]. rewrite R1 in C0, C1. rewrite R2 in C1.
  destruct (a_quantile_some rndQ (am_of mt) rndQ_mono rndQ_w0 rndQ_idem (sk_abs s) (f2q q) Ha Nc Hq0 Hq1 C0 C1) as [y E].
  rewrite E. discriminate.
Qed.

Theorem answerable_rnd64_ready mt s : quantile_ready s -> answerable rnd64 mt (sk_abs s).
Proof.
  intros (I & Hd & Hs & _ & C0 & C1). apply answerable_rnd64; try assumption. intros _. split; assumption.
Qed.

(* integer totals up to 2^53 are separated by binary64 rounding *)
Theorem ready64_integer s n :
  SkInv s -> dy_sketch (sk_abs s) -> plain_count s = inj n -> (n <= 2 ^ 53)%Z -> ready64 s.
Proof.
  intros I Hd En Hn Nc. pose proof (SkInv_awf s I) as Ha.
  pose proof (a_count_nonneg (sk_abs s) Ha) as C0. rewrite <- (plain_count_refines s I), En in C0.
  assert (N0 : (0 <= n)%Z). { apply inj_le. rewrite inj_0. exact C0. }
  assert (N1 : (1 <= n)%Z).
  { destruct (Z.eq_dec n 0) as [->|]; [|lia]. exfalso. apply Nc. rewrite En. exact inj_0. }
  assert (Hs : small (sk_abs s)).
  { unfold small. rewrite <- (plain_count_refines s I), En. apply inj_mono. pose proof pow53_le_pow1000. lia. }
  destruct (rnd64_count_eq (sk_abs s) Ha Hd Hs) as [R1 R2]. rewrite <- (plain_count_refines s I) in R1, R2.
  rewrite R1, R2, En. rewrite <- inj_1. unfold wsub. rewrite <- inj_minus, <- inj_0.
  rewrite !rndQ_int_inj by lia. split; apply inj_mono_lt; lia.
Qed.

Section Batch64.
Variable fx : fixes.
Variable mt : mtable.
Hypothesis F4 : fD4 fx = true.
Hypothesis F5 : fD5 fx = true.

Theorem batch_exec64_answers s qs vs :
  batch_ready64 s ->
  snd (quantiles_with (plain_quantile rnd64 fx mt) s qs) = ROk vs ->
  Forall2 (fun q v => snd (plain_quantile rnd64 fx mt s q) = ROk v) qs vs.
Proof.
  intros (I & Hd & Hs & Hr).
  exact (batch_exec_answers rnd64 fx mt F4 F5 s qs vs I (answerable_rnd64 mt s I Hd Hs Hr)).
Qed.

Theorem batch_exec64_refused s qs e :
  batch_ready64 s ->
  snd (quantiles_with (plain_quantile rnd64 fx mt) s qs) = RErr e ->
  exists pre q post, qs = pre ++ q :: post /\ snd (plain_quantile rnd64 fx mt s q) = RErr e /\
                     Forall (fun q' => exists v, snd (plain_quantile rnd64 fx mt s q') = ROk v) pre.
Proof.
  intros (I & Hd & Hs & Hr).
  exact (batch_exec_refused rnd64 fx mt F4 F5 s qs e I (answerable_rnd64 mt s I Hd Hs Hr)).
Qed.

Theorem batch_exec64_total s qs :
  batch_ready64 s ->
  Forall (fun q => exists v, snd (plain_quantile rnd64 fx mt s q) = ROk v) qs ->
  exists vs, snd (quantiles_with (plain_quantile rnd64 fx mt) s qs) = ROk vs.
Proof.
  intros (I & Hd & Hs & Hr).
  exact (batch_exec_total rnd64 fx mt F4 F5 s qs I (answerable_rnd64 mt s I Hd Hs Hr)).
Qed.
End Batch64.

Theorem batch_exec64_keeps fx mt s qs :
  batch_ready64 s ->
  let s' := fst (quantiles_with (plain_quantile rnd64 fx mt) s qs) in
  SkInv s' /\ sk_same s s' /\ sk_abs s' = sk_abs s /\ sk_stats s' = sk_stats s.
Proof.
  intros (I & Hd & Hs & Hr).
  exact (batch_exec_keeps rnd64 fx mt s qs I (answerable_rnd64 mt s I Hd Hs Hr)).
Qed.

(* the batch keeps the premises: it can be asked again *)
Theorem batch_exec64_ready_kept fx mt s qs :
  batch_ready64 s -> batch_ready64 (fst (quantiles_with (plain_quantile rnd64 fx mt) s qs)).
Proof.
  intros H. destruct (batch_exec64_keeps fx mt s qs H) as (I' & _ & A & _).
  destruct H as (I & Hd & Hs & Hr). unfold batch_ready64. rewrite A.
  split; [exact I'|]. split; [exact Hd|]. split; [exact Hs|].
  unfold ready64 in *. rewrite (plain_count_refines _ I'), A, <- (plain_count_refines s I). exact Hr.
Qed.

(* the functions the extracted driver runs: xk_quantiles mt = quantiles_with (xk_quantile mt),
   xk_quantile = sk_quantile rnd64 x_fixes *)
Theorem xk_quantiles_answers mt s qs vs :
  batch_ready64 s ->
  snd (xk_quantiles mt s qs) = ROk vs -> Forall2 (fun q v => snd (xk_quantile mt s q) = ROk v) qs vs.
Proof.
  intros (I & Hd & Hs & Hr).
  exact (batch_exec_answers_sk rnd64 x_fixes mt eq_refl eq_refl s qs vs I (answerable_rnd64 mt s I Hd Hs Hr)).
Qed.

Theorem xk_quantiles_refused mt s qs e :
  batch_ready64 s ->
  snd (xk_quantiles mt s qs) = RErr e ->
  exists pre q post, qs = pre ++ q :: post /\ snd (xk_quantile mt s q) = RErr e /\
                     Forall (fun q' => exists v, snd (xk_quantile mt s q') = ROk v) pre.
Proof.
  intros (I & Hd & Hs & Hr).
  exact (batch_exec_refused_sk rnd64 x_fixes mt eq_refl eq_refl s qs e I (answerable_rnd64 mt s I Hd Hs Hr)).
Qed.

Theorem xk_quantiles_total mt s qs :
  batch_ready64 s ->
  Forall (fun q => exists v, snd (xk_quantile mt s q) = ROk v) qs -> exists vs, snd (xk_quantiles mt s qs) = ROk vs.
Proof.
  intros (I & Hd & Hs & Hr).
  exact (batch_exec_total_sk rnd64 x_fixes mt eq_refl eq_refl s qs I (answerable_rnd64 mt s I Hd Hs Hr)).
Qed.

Theorem xk_quantiles_keeps mt s qs :
  batch_ready64 s ->
  let s' := fst (xk_quantiles mt s qs) in
  SkInv s' /\ sk_same s s' /\ sk_abs s' = sk_abs s /\ sk_stats s' = sk_stats s.
Proof.
  intros (I & Hd & Hs & Hr).
  exact (batch_exec_keeps_sk rnd64 x_fixes mt s qs I (answerable_rnd64 mt s I Hd Hs Hr)).
Qed.

(* non-vacuity: the one-bin sparse sketch of weight 2 satisfies the premises; the driver's batch on it *)
Example batch_exec64_example :
  batch_ready64 ex_sk1 /\
  snd (xk_quantiles ex_mt ex_sk1 [f64_zero; f64_one]) = ROk [FFin (w_of_Z 3); FFin (w_of_Z 3)] /\
  snd (xk_quantiles ex_mt ex_sk1 [f64_zero; f64_nan; f64_one]) = RErr EBadQuantile.
Proof.
  assert (I : SkInv ex_sk1) by exact (proj1 batch_exec_example).
  assert (Hd : dy_sketch (sk_abs ex_sk1)).
  { unfold dy_sketch, sk_abs, ex_sk1. cbn [a_pos a_neg a_zero sk_pos sk_neg sk_zero].
    split; [|split].
    - change (st_abs (SS [(3%Z, w_of_Z 2)])) with [(3%Z, w_of_Z 2)].
      constructor; [exact (dyadic_of_Z 2)|constructor].
    - change (st_abs (SS [])) with (@nil (Z * W)). constructor.
    - exact dyadic_w0. }
  split.
  - unfold batch_ready64. split; [exact I|]. split; [exact Hd|].
    assert (En : plain_count ex_sk1 = inj 2) by (apply Qc_is_canon; vm_compute; reflexivity).
    split.
    + unfold small. rewrite <- (plain_count_refines _ I), En. apply inj_mono. vm_compute. discriminate.
    + apply (ready64_integer ex_sk1 2 I Hd En). vm_compute. discriminate.
  - split; vm_compute; reflexivity.
Qed.
