(* Layer B: ddsketch/ddsketch.go — DDSketch and DDSketchWithExactSummaryStatistics — over the
   store models, with the index mapping abstract: [mtable] gives Index / Value / the indexable
   range (in executions: the table observed from the implementation; the mappings themselves
   are C03/C19's subject). Rank arithmetic rounds through [rnd] (binary64 in executions).
   [fx] selects the repaired code (true) or the code before each repair (false), for the
   refutation witnesses. Definitions only. *)
From Flocq Require Import IEEE754.BinarySingleNaN IEEE754.Binary IEEE754.Bits.
From SK Require Export Base.Prelude Base.F64 Spec.Bins Store.Any Stat.Summary.

Inductive err := ENegCount | ETooHigh | ETooLow | ENaN | EBadQuantile | EEmpty | EMismatch | EBadFactor
               | EEof | EUnknownFlag | EUnknownBins | EUnknownMapping | EMissingMapping | EMissingStats
               | EOverflow32 | EBadGamma | EBadAccuracy | EOther.
Inductive result (A : Type) := ROk (a : A) | RErr (e : err) | RPanic.
Arguments ROk {A}. Arguments RErr {A}. Arguments RPanic {A}.

(* mapping identity (what Equals, Encode and ToProto look at) *)
Record mapid := { mk_kind : N; mk_gamma : f64; mk_off : f64 }.   (* kind: 0 log, 1 linear, 3 cubic (= the wire subflags) *)
Definition tol12 : f64 := f64_of_bits 4427486594234968593.       (* 1e-12 = 0x3D719799812DEA11 *)
Definition within_tolerance (x y tol : f64) : bool :=
  if feq x f64_zero || feq y f64_zero then fle (fabs x) tol && fle (fabs y) tol
  else fle (fabs (fsub x y)) (fmul tol (fmax (fabs x) (fabs y))).
Definition map_equals (a b : mapid) : bool :=
  N.eqb (mk_kind a) (mk_kind b) && within_tolerance (mk_gamma a) (mk_gamma b) tol12 && within_tolerance (mk_off a) (mk_off b) tol12.

(* what the sketch needs from the mapping *)
Record mtable := {
  mt_index : Qc -> Z;            (* Index(v) for Min < v <= Max *)
  mt_value : Z -> Qc;            (* Value(i) *)
  mt_min : f64; mt_max : f64     (* MinIndexableValue, MaxIndexableValue *)
}.

Record fixes := { fD4 : bool; fD5 : bool; fD7 : bool }.

Record sketch := { sk_map : mapid; sk_pos : store; sk_neg : store; sk_zero : W; sk_stats : option summary }.
Definition sk_new (m : mapid) (kp kn : kind) (exact : bool) : sketch :=
  {| sk_map := m; sk_pos := st_new kp; sk_neg := st_new kn; sk_zero := w0; sk_stats := if exact then Some su_new else None |}.
Definition with_stores (s : sketch) (p n : store) : sketch :=
  {| sk_map := sk_map s; sk_pos := p; sk_neg := n; sk_zero := sk_zero s; sk_stats := sk_stats s |}.
Definition with_stats (s : sketch) (t : option summary) : sketch :=
  {| sk_map := sk_map s; sk_pos := sk_pos s; sk_neg := sk_neg s; sk_zero := sk_zero s; sk_stats := t |}.

Section Sketch.
Variable rnd : Qc -> Qc.
Variable fx : fixes.

(* DDSketch.AddWithCount *)
Definition plain_add (mt : mtable) (s : sketch) (v c : f64) : result sketch :=
  if flt c f64_zero then RErr ENegCount else
  let cq := f2q c in
  if flt (mt_min mt) v then
    if flt (mt_max mt) v then RErr ETooHigh
    else match st_addw (sk_pos s) (mt_index mt (f2q v)) cq with
         | Some p => ROk (with_stores s p (sk_neg s)) | None => RPanic end
  else if flt v (fneg (mt_min mt)) then
    if flt v (fneg (mt_max mt)) then RErr ETooLow
    else match st_addw (sk_neg s) (mt_index mt (f2q (fneg v))) cq with
         | Some n => ROk (with_stores s (sk_pos s) n) | None => RPanic end
  else if f_is_nan v then RErr ENaN
  else ROk {| sk_map := sk_map s; sk_pos := sk_pos s; sk_neg := sk_neg s; sk_zero := wadd (sk_zero s) cq; sk_stats := sk_stats s |}.

(* both variants; [unit] = Add(v) (weight 1 without the weight-0 shortcut) *)
Definition sk_add (mt : mtable) (s : sketch) (v c : f64) (unit : bool) : result sketch :=
  match sk_stats s with
  | None => plain_add mt s v c
  | Some t =>
    if negb unit && negb (fD7 fx) && feq c f64_zero then ROk s else
    match plain_add mt s v c with
    | ROk s' => if negb unit && feq c f64_zero then ROk s' else ROk (with_stats s' (Some (su_add t v c)))
    | r => r
    end
  end.

Definition plain_count (s : sketch) : W := wadd (wadd (sk_zero s) (st_total (sk_pos s))) (st_total (sk_neg s)).
Definition sk_count (s : sketch) : W := match sk_stats s with Some t => f2q (su_count t) | None => plain_count s end.
Definition plain_is_empty (s : sketch) : bool := weqb (sk_zero s) w0 && st_is_empty (sk_pos s) && st_is_empty (sk_neg s).
Definition sk_is_empty (s : sketch) : bool :=
  match sk_stats s with Some t => feq (su_count t) f64_zero | None => plain_is_empty s end.

(* DDSketch.GetValueAtQuantile; the sketch is returned because KeyAtRank may reorganise a store *)
Definition plain_quantile (mt : mtable) (s : sketch) (q : f64) : sketch * result Qc :=
  if (if fD5 fx then negb (fle f64_zero q && fle q f64_one) else flt q f64_zero || flt f64_one q) then (s, RErr EBadQuantile) else
  let count := plain_count s in
  if weqb count w0 then (s, RErr EEmpty) else
  let rank0 := rnd (wmul (f2q q) (rnd (wsub count w1))) in
  let rank := if fD4 fx && wltb rank0 w0 then w0 else rank0 in
  let negc := st_total (sk_neg s) in
  if wltb rank negc then
    let '(n', k) := st_key_at_rank (sk_neg s) (rnd (wsub (rnd (wsub negc w1)) rank)) in
    (with_stores s (sk_pos s) n', ROk (Qcopp (mt_value mt k)))
  else if wltb rank (rnd (wadd (sk_zero s) negc)) then (s, ROk w0)
  else
    let '(p', k) := st_key_at_rank (sk_pos s) (rnd (wsub (rnd (wsub rank (sk_zero s))) negc)) in
    (with_stores s p' (sk_neg s), ROk (mt_value mt k)).

(* exact variant: clamp the answer to [min, max] of the statistics, with Go's float comparisons *)
Definition fv_lt_q (v : Qc) (m : fval) : bool := match m with FFin x => wltb v x | FInf false => true | _ => false end.
Definition fv_gt_q (v : Qc) (m : fval) : bool := match m with FFin x => wltb x v | FInf true => true | _ => false end.
Definition clamp_stats (t : summary) (v : Qc) : fval :=
  let mn := f2v (su_min t) in
  if fv_lt_q v mn then mn else
  let mx := f2v (su_max t) in
  if fv_gt_q v mx then mx else FFin v.
Definition sk_quantile (mt : mtable) (s : sketch) (q : f64) : sketch * result fval :=
  let '(s', r) := plain_quantile mt s q in
  match r with
  | ROk v => (s', ROk (match sk_stats s with Some t => clamp_stats t v | None => FFin v end))
  | RErr e => (s', RErr e)
  | RPanic => (s', RPanic)
  end.

Definition plain_max (mt : mtable) (s : sketch) : result Qc :=
  if negb (st_is_empty (sk_pos s)) then
    match st_max (sk_pos s) with Some k => ROk (mt_value mt k) | None => ROk (mt_value mt 0) end
  else if wltb w0 (sk_zero s) then ROk w0
  else match st_min (sk_neg s) with Some k => ROk (Qcopp (mt_value mt k)) | None => RErr EEmpty end.
Definition plain_min (mt : mtable) (s : sketch) : result Qc :=
  if negb (st_is_empty (sk_neg s)) then
    match st_max (sk_neg s) with Some k => ROk (Qcopp (mt_value mt k)) | None => ROk (Qcopp (mt_value mt 0)) end
  else if wltb w0 (sk_zero s) then ROk w0
  else match st_min (sk_pos s) with Some k => ROk (mt_value mt k) | None => RErr EEmpty end.
Definition sk_max (mt : mtable) (s : sketch) : result fval :=
  match sk_stats s with
  | None => match plain_max mt s with ROk v => ROk (FFin v) | RErr e => RErr e | RPanic => RPanic end
  | Some t => if plain_is_empty s then RErr EEmpty else ROk (f2v (su_max t))
  end.
Definition sk_min (mt : mtable) (s : sketch) : result fval :=
  match sk_stats s with
  | None => match plain_min mt s with ROk v => ROk (FFin v) | RErr e => RErr e | RPanic => RPanic end
  | Some t => if plain_is_empty s then RErr EEmpty else ROk (f2v (su_min t))
  end.

(* ForEach: zero bucket (if non-zero), positive bins, negative bins; values through the mapping *)
Definition sk_foreach (mt : mtable) (s : sketch) : option (sketch * list (Qc * W)) :=
  match st_foreach (sk_pos s), st_foreach (sk_neg s) with
  | Some (p', lp), Some (n', ln) =>
    Some (with_stores s p' n',
          (if weqb (sk_zero s) w0 then [] else [(w0, sk_zero s)])
          ++ map (fun kw => (mt_value mt (fst kw), snd kw)) lp
          ++ map (fun kw => (Qcopp (mt_value mt (fst kw)), snd kw)) ln)
  | _, _ => None
  end.

Definition sk_merge (s o : sketch) : result (sketch * sketch) :=
  if negb (map_equals (sk_map s) (sk_map o)) then RErr EMismatch else
  match st_merge (sk_pos s) (sk_pos o) with
  | None => RPanic
  | Some (p', op') =>
    match st_merge (sk_neg s) (sk_neg o) with
    | None => RPanic
    | Some (n', on') =>
      ROk ({| sk_map := sk_map s; sk_pos := p'; sk_neg := n'; sk_zero := wadd (sk_zero s) (sk_zero o);
              sk_stats := match sk_stats s, sk_stats o with Some t, Some u => Some (su_merge t u) | t, _ => t end |},
           with_stores o op' on')
    end
  end.

Definition sk_clear (s : sketch) : sketch :=
  {| sk_map := sk_map s; sk_pos := st_clear (sk_pos s); sk_neg := st_clear (sk_neg s); sk_zero := w0;
     sk_stats := match sk_stats s with Some _ => Some su_new | None => None end |}.
Definition sk_copy (s : sketch) : sketch := s.

Definition sk_reweight (s : sketch) (w : f64) : result sketch :=
  if fle w f64_zero then RErr EBadFactor else
  let restat s' := with_stats s' (match sk_stats s with Some t => Some (su_reweight t w) | None => None end) in
  if feq w f64_one then ROk (restat s) else
  let wq := f2q w in
  match st_reweight (sk_pos s) wq with
  | RwOk p' =>
    match st_reweight (sk_neg s) wq with
    | RwOk n' => ROk (restat {| sk_map := sk_map s; sk_pos := p'; sk_neg := n'; sk_zero := wmul (sk_zero s) wq; sk_stats := sk_stats s |})
    | RwRefused => RErr EBadFactor | RwPanic => RPanic
    end
  | RwRefused => RErr EBadFactor | RwPanic => RPanic
  end.
End Sketch.
