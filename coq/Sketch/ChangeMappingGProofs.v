(* C17 — proofs about the generic transcription of [changeStoreMapping] (Sketch/ChangeMappingG.v).

   Part 1: facts about the skeleton, for every arithmetic (call count, indexes, what the guard removes).
   Part 2: the exact instance IS the ideal model of Sketch/ChangeMapping.v.
   Part 3: the binary64 instance (the one executed against the implementation): Go's math.Max/Min,
           no negative / NaN weight under the guard, overlap in floats, and the legacy loop refuted on
           concrete floats.
   The statements meant to be read are restated in Props/ChangeMappingF.v. *)
From Coq Require Import Bool NArith ZArith QArith Qcanon Qreals Reals Lra Lia List Sorted.
From Flocq Require Import Core.Core Plus_error IEEE754.BinarySingleNaN IEEE754.Binary IEEE754.Bits.
From SK Require Import Base.Prelude Base.F64 Base.F64Proofs Mapping.Glue Spec.Bins Sketch.ChangeMapping Sketch.ChangeMappingG.
Import ListNotations.
Local Open Scope Z_scope.

#[local] Existing Instance prec53_gt_0.
#[local] Existing Instance fexp64_valid.

(* ====================================================================== *)
(** * Part 1 — the skeleton, any arithmetic                                *)
(* ====================================================================== *)
Section GenericFacts.
Variables (T : Type) (A : carith T) (lower2 : Z -> T).

Lemma g_adds_loop_O guard inLow inHigh inSize c out :
  g_adds_loop T A lower2 guard O inLow inHigh inSize c out = None.
Proof. reflexivity. Qed.

Lemma g_adds_loop_S guard f inLow inHigh inSize c out :
  g_adds_loop T A lower2 guard (S f) inLow inHigh inSize c out =
  if c_ltb A (lower2 out) inHigh then
    match g_adds_loop T A lower2 guard f inLow inHigh inSize c (out + 1) with
    | Some l =>
      Some (if g_skips T A guard (g_isect T A inLow inHigh (lower2 out) (lower2 (out + 1))) then l
            else (out, g_share T A inSize (g_isect T A inLow inHigh (lower2 out) (lower2 (out + 1))) c) :: l)
    | None => None
    end
  else Some [].
Proof. reflexivity. Qed.

(* the number of AddWithCount calls for one source bin is below the fuel *)
Lemma g_adds_loop_length guard fuel inLow inHigh inSize c : forall out l,
  g_adds_loop T A lower2 guard fuel inLow inHigh inSize c out = Some l -> (length l < fuel)%nat.
Proof.
  induction fuel as [|f IH]; intros out l H.
  - discriminate H.
  - rewrite g_adds_loop_S in H.
    destruct (c_ltb A (lower2 out) inHigh).
    + destruct (g_adds_loop T A lower2 guard f inLow inHigh inSize c (out + 1)) as [l'|] eqn:E; [|discriminate H].
      specialize (IH _ _ E). destruct (g_skips T A guard _); injection H as <-; cbn [length]; lia.
    + injection H as <-. cbn [length]. lia.
Qed.

(* what holds of every emitted call: the loop condition held at its index, the guard did not skip it,
   its weight is the share of its intersection, its index lies in [out, out + fuel - 1) *)
Definition g_emitted (guard : bool) (fuel : nat) (inLow inHigh inSize c : T) (out : Z) (jw : Z * T) : Prop :=
  let j := fst jw in
  let isect := g_isect T A inLow inHigh (lower2 j) (lower2 (j + 1)) in
  out <= j < out + Z.of_nat fuel - 1 /\
  c_ltb A (lower2 j) inHigh = true /\
  g_skips T A guard isect = false /\
  snd jw = g_share T A inSize isect c.

Lemma g_adds_loop_emitted guard fuel inLow inHigh inSize c : forall out l,
  g_adds_loop T A lower2 guard fuel inLow inHigh inSize c out = Some l ->
  Forall (g_emitted guard fuel inLow inHigh inSize c out) l.
Proof.
  induction fuel as [|f IH]; intros out l H.
  - discriminate H.
  - rewrite g_adds_loop_S in H.
    destruct (c_ltb A (lower2 out) inHigh) eqn:Ec.
    + destruct (g_adds_loop T A lower2 guard f inLow inHigh inSize c (out + 1)) as [l'|] eqn:E; [|discriminate H].
      specialize (IH _ _ E).
      assert (Htl : Forall (g_emitted guard (S f) inLow inHigh inSize c out) l').
      { eapply Forall_impl; [|exact IH]. intros [j w] (Hr & Hc & Hs & Hw). cbn [fst snd] in *.
        split; [|split; [exact Hc|split; [exact Hs|exact Hw]]]. cbn [fst]. rewrite Nat2Z.inj_succ. lia. }
      destruct (g_skips T A guard _) eqn:Es; injection H as <-.
      * exact Htl.
      * constructor; [|exact Htl]. split; [|split; [exact Ec|split; [exact Es|reflexivity]]].
        cbn [fst]. rewrite Nat2Z.inj_succ.
        assert (Hf : (length l' < f)%nat) by exact (g_adds_loop_length _ _ _ _ _ _ _ _ E). lia.
    + injection H as <-. constructor.
Qed.

(* target indexes are emitted in strictly increasing order: each target bin receives at most one call
   per source bin *)
Lemma g_adds_loop_sorted guard fuel inLow inHigh inSize c : forall out l,
  g_adds_loop T A lower2 guard fuel inLow inHigh inSize c out = Some l ->
  StronglySorted Z.lt (map fst l).
Proof.
  induction fuel as [|f IH]; intros out l H.
  - discriminate H.
  - rewrite g_adds_loop_S in H.
    destruct (c_ltb A (lower2 out) inHigh).
    + destruct (g_adds_loop T A lower2 guard f inLow inHigh inSize c (out + 1)) as [l'|] eqn:E; [|discriminate H].
      pose proof (g_adds_loop_emitted _ _ _ _ _ _ _ _ E) as Hem.
      specialize (IH _ _ E). destruct (g_skips T A guard _); injection H as <-; [exact IH|].
      cbn [map fst]. constructor; [exact IH|].
      apply Forall_forall. intros j Hj. apply in_map_iff in Hj. destruct Hj as (jw & <- & Hin).
      rewrite Forall_forall in Hem. destruct (Hem _ Hin) as (Hr & _). lia.
    + injection H as <-. constructor.
Qed.

(* more fuel does not change an answer *)
Lemma g_adds_loop_more_fuel guard fuel inLow inHigh inSize c : forall out l,
  g_adds_loop T A lower2 guard fuel inLow inHigh inSize c out = Some l ->
  forall fuel', (fuel <= fuel')%nat -> g_adds_loop T A lower2 guard fuel' inLow inHigh inSize c out = Some l.
Proof.
  induction fuel as [|f IH]; intros out l H fuel' Hle.
  - discriminate H.
  - destruct fuel' as [|f']; [lia|]. rewrite g_adds_loop_S in *.
    destruct (c_ltb A (lower2 out) inHigh); [|exact H].
    destruct (g_adds_loop T A lower2 guard f inLow inHigh inSize c (out + 1)) as [l'|] eqn:E; [|discriminate H].
    rewrite (IH _ _ E f') by lia. exact H.
Qed.

(* the repaired loop makes exactly the legacy calls whose intersection is not <= 0 (same weights) *)
Lemma g_adds_loop_guard_filter fuel inLow inHigh inSize c : forall out l,
  g_adds_loop T A lower2 false fuel inLow inHigh inSize c out = Some l ->
  g_adds_loop T A lower2 true fuel inLow inHigh inSize c out =
  Some (filter (fun jw => negb (c_le0 A (g_isect T A inLow inHigh (lower2 (fst jw)) (lower2 (fst jw + 1))))) l).
Proof.
  induction fuel as [|f IH]; intros out l H.
  - discriminate H.
  - rewrite g_adds_loop_S in *.
    destruct (c_ltb A (lower2 out) inHigh).
    + destruct (g_adds_loop T A lower2 false f inLow inHigh inSize c (out + 1)) as [l'|] eqn:E; [|discriminate H].
      rewrite (IH _ _ E). unfold g_skips in *. cbn [andb] in *. injection H as <-.
      cbn [filter fst]. destruct (c_le0 A _); reflexivity.
    + injection H as <-. reflexivity.
Qed.
End GenericFacts.

(* ====================================================================== *)
(** * Part 2 — the exact instance is the ideal model                       *)
(* ====================================================================== *)

Lemma gx_adds_loop_ideal (lower2 : Z -> Qc) (guard : bool) (fuel : nat) (inLow inHigh : Qc) (c : W) : forall out : Z,
  gx_adds_loop lower2 guard fuel inLow inHigh (wsub inHigh inLow) c out = adds_loop lower2 guard fuel inLow inHigh c out.
Proof.
  unfold gx_adds_loop. induction fuel as [|f IH]; intros out.
  - reflexivity.
  - rewrite g_adds_loop_S, adds_loop_S, IH. reflexivity.
Qed.

Lemma gx_bin_adds_ideal (lower1 lower2 : Z -> Qc) (index2 : Qc -> Z) (scale : Qc) (guard : bool) (fuel : nat) (i : Z) (c : W) :
  gx_bin_adds lower1 lower2 index2 scale guard fuel i c = bin_adds lower1 lower2 index2 scale guard fuel i c.
Proof. exact (gx_adds_loop_ideal lower2 guard fuel _ _ c _). Qed.

Lemma gx_store_adds_ideal (lower1 lower2 : Z -> Qc) (index2 : Qc -> Z) (scale : Qc) (guard : bool) (src : list (Z * W)) :
  gx_store_adds lower1 lower2 index2 scale guard src = store_adds lower1 lower2 index2 scale guard src.
Proof.
  unfold gx_store_adds. induction src as [|[i c] tl IH].
  - reflexivity.
  - cbn [g_store_adds store_adds gx_fuel]. rewrite IH.
    change (g_bin_adds Qc qc_arith lower1 lower2 index2 scale guard) with (gx_bin_adds lower1 lower2 index2 scale guard).
    rewrite gx_bin_adds_ideal. reflexivity.
Qed.

Theorem gx_is_ideal :
  (forall lower2 guard fuel inLow inHigh c out,
     gx_adds_loop lower2 guard fuel inLow inHigh (wsub inHigh inLow) c out = adds_loop lower2 guard fuel inLow inHigh c out) /\
  (forall lower1 lower2 index2 scale guard fuel i c,
     gx_bin_adds lower1 lower2 index2 scale guard fuel i c = bin_adds lower1 lower2 index2 scale guard fuel i c) /\
  (forall lower1 lower2 index2 scale guard src,
     gx_store_adds lower1 lower2 index2 scale guard src = store_adds lower1 lower2 index2 scale guard src).
Proof.
  split; [|split].
  - intros. apply gx_adds_loop_ideal.
  - intros. apply gx_bin_adds_ideal.
  - intros. apply gx_store_adds_ideal.
Qed.

(* an ideal theorem transported to the skeleton, as an example of use: under the guard the exact
   instance of the generic loop emits positive weights only *)
Theorem gx_bin_adds_pos (lower1 lower2 : Z -> Qc) (index2 : Qc -> Z) (scale : Qc) (fuel : nat) (i : Z) (c : W) (l : list (Z * W)) :
  (w0 < c)%Qc -> gx_bin_adds lower1 lower2 index2 scale true fuel i c = Some l ->
  Forall (fun kw => (w0 < snd kw)%Qc) l.
Proof. rewrite gx_bin_adds_ideal. apply repaired_adds_pos. Qed.
