(* C17 — proofs about the generic transcription of [changeStoreMapping] (Sketch/ChangeMappingG.v).

   Part 1: facts about the skeleton, for every arithmetic (call count, indexes, what the guard removes).
   Part 2: the exact instance IS the ideal model of Sketch/ChangeMapping.v.
   Part 3: the binary64 instance (the one executed against the implementation): Go's math.Max/Min,
           no negative / NaN weight under the guard, overlap in floats, and the legacy loop refuted on
           concrete floats.
   The statements meant to be read are restated in Props/ChangeMappingF.v. *)
From Coq Require Import Bool NArith ZArith QArith Qcanon Qreals Reals Lra Lia List Sorted.
From Flocq Require Import Core.Core Plus_error IEEE754.BinarySingleNaN IEEE754.Binary IEEE754.Bits.
From SK Require Import Base.Prelude Base.F64 Base.F64Proofs Mapping.Glue Spec.Bins Sketch.ChangeMapping Sketch.ChangeMappingG.
Import ListNotations.
Local Open Scope Z_scope.

#[local] Existing Instance prec53_gt_0.
#[local] Existing Instance fexp64_valid.

(* ====================================================================== *)
(** * Part 1 — the skeleton, any arithmetic                                *)
(* ====================================================================== *)
Section GenericFacts.
Variables (T : Type) (A : carith T) (lower2 : Z -> T).

Lemma g_adds_loop_O guard inLow inHigh inSize c out :
  g_adds_loop T A lower2 guard O inLow inHigh inSize c out = None.
Proof. reflexivity. Qed.

Lemma g_adds_loop_S guard f inLow inHigh inSize c out :
  g_adds_loop T A lower2 guard (S f) inLow inHigh inSize c out =
  if c_ltb A (lower2 out) inHigh then
    match g_adds_loop T A lower2 guard f inLow inHigh inSize c (out + 1) with
    | Some l =>
      Some (if g_skips T A guard (g_isect T A inLow inHigh (lower2 out) (lower2 (out + 1))) then l
            else (out, g_share T A inSize (g_isect T A inLow inHigh (lower2 out) (lower2 (out + 1))) c) :: l)
    | None => None
    end
  else Some [].
Proof. reflexivity. Qed.

(* the number of AddWithCount calls for one source bin is below the fuel *)
Lemma g_adds_loop_length guard fuel inLow inHigh inSize c : forall out l,
  g_adds_loop T A lower2 guard fuel inLow inHigh inSize c out = Some l -> (length l < fuel)%nat.
Proof.
  induction fuel as [|f IH]; intros out l H.
  - discriminate H.
  - rewrite g_adds_loop_S in H.
    destruct (c_ltb A (lower2 out) inHigh).
    + destruct (g_adds_loop T A lower2 guard f inLow inHigh inSize c (out + 1)) as [l'|] eqn:E; [|discriminate H].
      specialize (IH _ _ E). destruct (g_skips T A guard _); injection H as <-; cbn [length]; lia.
    + injection H as <-. cbn [length]. lia.
Qed.

(* what holds of every emitted call: the loop condition held at its index, the guard did not skip it,
   its weight is the share of its intersection, its index lies in [out, out + fuel - 1) *)
Definition g_emitted (guard : bool) (fuel : nat) (inLow inHigh inSize c : T) (out : Z) (jw : Z * T) : Prop :=
  let j := fst jw in
  let isect := g_isect T A inLow inHigh (lower2 j) (lower2 (j + 1)) in
  out <= j < out + Z.of_nat fuel - 1 /\
  c_ltb A (lower2 j) inHigh = true /\
  g_skips T A guard isect = false /\
  snd jw = g_share T A inSize isect c.

Lemma g_adds_loop_emitted guard fuel inLow inHigh inSize c : forall out l,
  g_adds_loop T A lower2 guard fuel inLow inHigh inSize c out = Some l ->
  Forall (g_emitted guard fuel inLow inHigh inSize c out) l.
Proof.
  induction fuel as [|f IH]; intros out l H.
  - discriminate H.
  - rewrite g_adds_loop_S in H.
    destruct (c_ltb A (lower2 out) inHigh) eqn:Ec.
    + destruct (g_adds_loop T A lower2 guard f inLow inHigh inSize c (out + 1)) as [l'|] eqn:E; [|discriminate H].
      specialize (IH _ _ E).
      assert (Htl : Forall (g_emitted guard (S f) inLow inHigh inSize c out) l').
      { eapply Forall_impl; [|exact IH]. intros [j w] (Hr & Hc & Hs & Hw). cbn [fst snd] in *.
        split; [|split; [exact Hc|split; [exact Hs|exact Hw]]]. cbn [fst]. rewrite Nat2Z.inj_succ. lia. }
      destruct (g_skips T A guard _) eqn:Es; injection H as <-.
      * exact Htl.
      * constructor; [|exact Htl]. split; [|split; [exact Ec|split; [exact Es|reflexivity]]].
        cbn [fst]. rewrite Nat2Z.inj_succ.
        assert (Hf : (length l' < f)%nat) by exact (g_adds_loop_length _ _ _ _ _ _ _ _ E). lia.
    + injection H as <-. constructor.
Qed.

(* target indexes are emitted in strictly increasing order: each target bin receives at most one call
   per source bin *)
Lemma g_adds_loop_sorted guard fuel inLow inHigh inSize c : forall out l,
  g_adds_loop T A lower2 guard fuel inLow inHigh inSize c out = Some l ->
  StronglySorted Z.lt (map fst l).
Proof.
  induction fuel as [|f IH]; intros out l H.
  - discriminate H.
  - rewrite g_adds_loop_S in H.
    destruct (c_ltb A (lower2 out) inHigh).
    + destruct (g_adds_loop T A lower2 guard f inLow inHigh inSize c (out + 1)) as [l'|] eqn:E; [|discriminate H].
      pose proof (g_adds_loop_emitted _ _ _ _ _ _ _ _ E) as Hem.
      specialize (IH _ _ E). destruct (g_skips T A guard _); injection H as <-; [exact IH|].
      cbn [map fst]. constructor; [exact IH|].
      apply Forall_forall. intros j Hj. apply in_map_iff in Hj. destruct Hj as (jw & <- & Hin).
      rewrite Forall_forall in Hem. destruct (Hem _ Hin) as (Hr & _). lia.
    + injection H as <-. constructor.
Qed.

(* more fuel does not change an answer *)
Lemma g_adds_loop_more_fuel guard fuel inLow inHigh inSize c : forall out l,
  g_adds_loop T A lower2 guard fuel inLow inHigh inSize c out = Some l ->
  forall fuel', (fuel <= fuel')%nat -> g_adds_loop T A lower2 guard fuel' inLow inHigh inSize c out = Some l.
Proof.
  induction fuel as [|f IH]; intros out l H fuel' Hle.
  - discriminate H.
  - destruct fuel' as [|f']; [lia|]. rewrite g_adds_loop_S in *.
    destruct (c_ltb A (lower2 out) inHigh); [|exact H].
    destruct (g_adds_loop T A lower2 guard f inLow inHigh inSize c (out + 1)) as [l'|] eqn:E; [|discriminate H].
    rewrite (IH _ _ E f') by lia. exact H.
Qed.

(* the repaired loop makes exactly the legacy calls whose intersection is not <= 0 (same weights) *)
Lemma g_adds_loop_guard_filter fuel inLow inHigh inSize c : forall out l,
  g_adds_loop T A lower2 false fuel inLow inHigh inSize c out = Some l ->
  g_adds_loop T A lower2 true fuel inLow inHigh inSize c out =
  Some (filter (fun jw => negb (c_le0 A (g_isect T A inLow inHigh (lower2 (fst jw)) (lower2 (fst jw + 1))))) l).
Proof.
  induction fuel as [|f IH]; intros out l H.
  - discriminate H.
  - rewrite g_adds_loop_S in *.
    destruct (c_ltb A (lower2 out) inHigh).
    + destruct (g_adds_loop T A lower2 false f inLow inHigh inSize c (out + 1)) as [l'|] eqn:E; [|discriminate H].
      rewrite (IH _ _ E). unfold g_skips in *. cbn [andb] in *. injection H as <-.
      cbn [filter fst]. destruct (c_le0 A _); reflexivity.
    + injection H as <-. reflexivity.
Qed.
End GenericFacts.

(* ====================================================================== *)
(** * Part 2 — the exact instance is the ideal model                       *)
(* ====================================================================== *)

Lemma gx_adds_loop_ideal (lower2 : Z -> Qc) (guard : bool) (fuel : nat) (inLow inHigh : Qc) (c : W) : forall out : Z,
  gx_adds_loop lower2 guard fuel inLow inHigh (wsub inHigh inLow) c out = adds_loop lower2 guard fuel inLow inHigh c out.
Proof.
  unfold gx_adds_loop. induction fuel as [|f IH]; intros out.
  - reflexivity.
  - rewrite g_adds_loop_S, adds_loop_S, IH. reflexivity.
Qed.

Lemma gx_bin_adds_ideal (lower1 lower2 : Z -> Qc) (index2 : Qc -> Z) (scale : Qc) (guard : bool) (fuel : nat) (i : Z) (c : W) :
  gx_bin_adds lower1 lower2 index2 scale guard fuel i c = bin_adds lower1 lower2 index2 scale guard fuel i c.
Proof. exact (gx_adds_loop_ideal lower2 guard fuel _ _ c _). Qed.

Lemma gx_store_adds_ideal (lower1 lower2 : Z -> Qc) (index2 : Qc -> Z) (scale : Qc) (guard : bool) (src : list (Z * W)) :
  gx_store_adds lower1 lower2 index2 scale guard src = store_adds lower1 lower2 index2 scale guard src.
Proof.
  unfold gx_store_adds. induction src as [|[i c] tl IH].
  - reflexivity.
  - cbn [g_store_adds store_adds gx_fuel]. rewrite IH.
    change (g_bin_adds Qc qc_arith lower1 lower2 index2 scale guard) with (gx_bin_adds lower1 lower2 index2 scale guard).
    rewrite gx_bin_adds_ideal. reflexivity.
Qed.

Theorem gx_is_ideal :
  (forall lower2 guard fuel inLow inHigh c out,
     gx_adds_loop lower2 guard fuel inLow inHigh (wsub inHigh inLow) c out = adds_loop lower2 guard fuel inLow inHigh c out) /\
  (forall lower1 lower2 index2 scale guard fuel i c,
     gx_bin_adds lower1 lower2 index2 scale guard fuel i c = bin_adds lower1 lower2 index2 scale guard fuel i c) /\
  (forall lower1 lower2 index2 scale guard src,
     gx_store_adds lower1 lower2 index2 scale guard src = store_adds lower1 lower2 index2 scale guard src).
Proof.
  split; [|split].
  - intros. apply gx_adds_loop_ideal.
  - intros. apply gx_bin_adds_ideal.
  - intros. apply gx_store_adds_ideal.
Qed.

(* an ideal theorem transported to the skeleton, as an example of use: under the guard the exact
   instance of the generic loop emits positive weights only *)
Theorem gx_bin_adds_pos (lower1 lower2 : Z -> Qc) (index2 : Qc -> Z) (scale : Qc) (fuel : nat) (i : Z) (c : W) (l : list (Z * W)) :
  (w0 < c)%Qc -> gx_bin_adds lower1 lower2 index2 scale true fuel i c = Some l ->
  Forall (fun kw => (w0 < snd kw)%Qc) l.
Proof. rewrite gx_bin_adds_ideal. apply repaired_adds_pos. Qed.

(* ====================================================================== *)
(** * Part 3 — the binary64 instance                                       *)
(* ====================================================================== *)
(* abbreviations, not definitions: the statements are literally about Flocq's B2R / is_finite *)
#[local] Notation BR x := (B2R 53 1024 x).
#[local] Notation fin x := (is_finite 53 1024 x = true).
#[local] Notation fmt := (generic_format radix2 (FLT_exp (-1074) 53)).

(* ---- rounding ---- *)
Lemma cm_rnd_le (x y : R) : (x <= y)%R -> (rndR x <= rndR y)%R.
Proof. intros H. unfold rndR. apply round_le; [exact fexp64_valid|apply valid_rnd_N|exact H]. Qed.
Lemma cm_rnd_generic (x : R) : fmt x -> rndR x = x.
Proof. intros H. unfold rndR. apply round_generic; [apply valid_rnd_N|exact H]. Qed.
Lemma cm_rnd_0 : rndR 0 = 0%R.
Proof. unfold rndR. apply round_0. apply valid_rnd_N. Qed.
Lemma cm_rnd_1 : rndR 1 = 1%R.
Proof. apply cm_rnd_generic. apply (int_format 1). vm_compute. discriminate. Qed.
Lemma cm_BR_format (x : f64) : fmt (BR x).
Proof. exact (generic_format_B2R 53 1024 x). Qed.
Lemma cm_rnd_BR (x : f64) : rndR (BR x) = BR x.
Proof. apply cm_rnd_generic, cm_BR_format. Qed.
Lemma cm_BR_lt_emax (x : f64) : (Rabs (BR x) < bpow radix2 1024)%R.
Proof. exact (abs_B2R_lt_emax 53 1024 x). Qed.
Lemma cm_one_lt_emax : (1 < bpow radix2 1024)%R.
Proof. change 1%R with (bpow radix2 0). apply bpow_lt. lia. Qed.
(* the difference of two distinct floats does not round to zero (gradual underflow) *)
Lemma cm_rnd_sub_pos (a b : f64) : (BR b < BR a)%R -> (0 < rndR (BR a - BR b))%R.
Proof.
  intros H.
  assert (H0 : (0 <= rndR (BR a - BR b))%R) by (rewrite <- cm_rnd_0; apply cm_rnd_le; lra).
  assert (H1 : rndR (BR a - BR b) <> 0%R).
  { unfold rndR, Rminus.
    apply (@round_plus_neq_0 radix2 (FLT_exp (-1074) 53) fexp64_valid
             (@monotone_exp_not_FTZ _ fexp64_valid (FLT_exp_monotone (-1074) 53)) ZnearestE (valid_rnd_N _)).
    - apply cm_BR_format.
    - apply generic_format_opp, cm_BR_format.
    - lra. }
  lra.
Qed.

Lemma cm_overflow_not_finite (z : f64) (s : bool) :
  B2FF 53 1024 z = binary_overflow 53 1024 mode_NE s -> is_finite 53 1024 z = false.
Proof. intros H. rewrite <- is_finite_B2FF, H. reflexivity. Qed.
Lemma cm_overflow_inf (z : f64) (s : bool) :
  B2FF 53 1024 z = binary_overflow 53 1024 mode_NE s -> z = B754_infinity 53 1024 s.
Proof.
  intros H. change (binary_overflow 53 1024 mode_NE s) with (F754_infinity s) in H.
  destruct z; try discriminate H. cbn in H. injection H as ->. reflexivity.
Qed.

(* ---- comparisons ---- *)
Lemma cm_f64_zero_eq : f64_zero = B754_zero 53 1024 false.
Proof. reflexivity. Qed.
Lemma cm_fcmp (a b : f64) : fin a -> fin b -> fcmp a b = Some (Rcompare (BR a) (BR b)).
Proof. intros Ha Hb. exact (Binary.Bcompare_correct 53 1024 a b Ha Hb). Qed.
Lemma cm_flt_R (a b : f64) : fin a -> fin b -> (flt a b = true <-> (BR a < BR b)%R).
Proof.
  intros Ha Hb. unfold flt. rewrite (cm_fcmp a b Ha Hb).
  destruct (Rcompare_spec (BR a) (BR b)); split; intros; try reflexivity; try discriminate; lra.
Qed.
Lemma cm_fle_R (a b : f64) : fin a -> fin b -> (fle a b = true <-> (BR a <= BR b)%R).
Proof.
  intros Ha Hb. unfold fle. rewrite (cm_fcmp a b Ha Hb).
  destruct (Rcompare_spec (BR a) (BR b)); split; intros; try reflexivity; try discriminate; lra.
Qed.
Lemma cm_feq_R (a b : f64) : fin a -> fin b -> (feq a b = true <-> BR a = BR b).
Proof.
  intros Ha Hb. unfold feq. rewrite (cm_fcmp a b Ha Hb).
  destruct (Rcompare_spec (BR a) (BR b)); split; intros; try reflexivity; try discriminate; lra.
Qed.
Lemma cm_fle_zero_r (a : f64) : fin a -> (fle a f64_zero = true <-> (BR a <= 0)%R).
Proof. intros Ha. exact (cm_fle_R a f64_zero Ha eq_refl). Qed.
Lemma cm_fle_zero_l (a : f64) : fin a -> (fle f64_zero a = true <-> (0 <= BR a)%R).
Proof. intros Ha. exact (cm_fle_R f64_zero a eq_refl Ha). Qed.

Lemma cm_fin_not_pinf (x : f64) : fin x -> f_is_pinf x = false.
Proof. destruct x as [s|s|s p e|s m e He]; try discriminate; reflexivity. Qed.
Lemma cm_fin_not_ninf (x : f64) : fin x -> f_is_ninf x = false.
Proof. destruct x as [s|s|s p e|s m e He]; try discriminate; reflexivity. Qed.
Lemma cm_fin_not_nan (x : f64) : fin x -> f_is_nan x = false.
Proof. destruct x as [s|s|s p e|s m e He]; try discriminate; reflexivity. Qed.

Lemma cm_sign_false (x : f64) : fin x -> Bsign 53 1024 x = false -> (0 <= BR x)%R.
Proof.
  destruct x as [s|s|s p e|s m e He]; try discriminate; cbn; intros _ Hs.
  - lra.
  - subst s. apply F2R_ge_0. cbn. lia.
Qed.
Lemma cm_sign_true (x : f64) : fin x -> Bsign 53 1024 x = true -> (BR x <= 0)%R.
Proof.
  destruct x as [s|s|s p e|s m e He]; try discriminate; cbn; intros _ Hs.
  - lra.
  - subst s. apply F2R_le_0. cbn. lia.
Qed.

(* ---- math.Max / math.Min ---- *)
Lemma go_max_fin (x y : f64) : fin x -> fin y ->
  fin (go_max x y) /\ BR (go_max x y) = Rmax (BR x) (BR y) /\ (go_max x y = x \/ go_max x y = y).
Proof.
  intros Hx Hy. unfold go_max.
  rewrite (cm_fin_not_pinf x Hx), (cm_fin_not_pinf y Hy), (cm_fin_not_nan x Hx), (cm_fin_not_nan y Hy). cbn [orb].
  destruct (feq x f64_zero && feq x y) eqn:E.
  - apply andb_true_iff in E. destruct E as (E0 & Exy).
    apply (cm_feq_R x f64_zero Hx eq_refl) in E0. apply (cm_feq_R x y Hx Hy) in Exy.
    change (BR f64_zero) with 0%R in E0.
    destruct (f_signbit x).
    + split; [exact Hy|]. split; [|right; reflexivity]. rewrite <- Exy, E0. symmetry. apply Rmax_left. lra.
    + split; [exact Hx|]. split; [|left; reflexivity]. rewrite <- Exy, E0. symmetry. apply Rmax_left. lra.
  - unfold fgt. destruct (flt y x) eqn:F.
    + apply (cm_flt_R y x Hy Hx) in F. split; [exact Hx|]. split; [|left; reflexivity]. symmetry. apply Rmax_left. lra.
    + split; [exact Hy|]. split; [|right; reflexivity]. symmetry. apply Rmax_right.
      destruct (Rle_lt_dec (BR x) (BR y)) as [L|L]; [exact L|].
      apply (cm_flt_R y x Hy Hx) in L. congruence.
Qed.
Lemma go_min_fin (x y : f64) : fin x -> fin y ->
  fin (go_min x y) /\ BR (go_min x y) = Rmin (BR x) (BR y) /\ (go_min x y = x \/ go_min x y = y).
Proof.
  intros Hx Hy. unfold go_min.
  rewrite (cm_fin_not_ninf x Hx), (cm_fin_not_ninf y Hy), (cm_fin_not_nan x Hx), (cm_fin_not_nan y Hy). cbn [orb].
  destruct (feq x f64_zero && feq x y) eqn:E.
  - apply andb_true_iff in E. destruct E as (E0 & Exy).
    apply (cm_feq_R x f64_zero Hx eq_refl) in E0. apply (cm_feq_R x y Hx Hy) in Exy.
    change (BR f64_zero) with 0%R in E0.
    destruct (f_signbit x).
    + split; [exact Hx|]. split; [|left; reflexivity]. rewrite <- Exy, E0. symmetry. apply Rmin_left. lra.
    + split; [exact Hy|]. split; [|right; reflexivity]. rewrite <- Exy, E0. symmetry. apply Rmin_left. lra.
  - destruct (flt x y) eqn:F.
    + apply (cm_flt_R x y Hx Hy) in F. split; [exact Hx|]. split; [|left; reflexivity]. symmetry. apply Rmin_left. lra.
    + split; [exact Hy|]. split; [|right; reflexivity]. symmetry. apply Rmin_right.
      destruct (Rle_lt_dec (BR y) (BR x)) as [L|L]; [exact L|].
      apply (cm_flt_R x y Hx Hy) in L. congruence.
Qed.

(* lowerIntersectionBound: outLow passed the loop condition (so it is neither NaN nor +Inf; it may be -Inf) *)
Lemma go_max_lb (x y h : f64) : fin y -> fin h -> flt x h = true ->
  fin (go_max x y) /\ (BR y <= BR (go_max x y))%R.
Proof.
  intros Hy Hh Hlt.
  destruct x as [s|s|s p e|s m e He].
  - destruct (go_max_fin (B754_zero 53 1024 s) y eq_refl Hy) as (F & E & _). split; [exact F|]. rewrite E. apply Rmax_r.
  - destruct s.
    + (* -Inf *) destruct y as [sy|sy|sy py ey|sy my ey Hey]; try discriminate Hy; split; try reflexivity; apply Rle_refl.
    + (* +Inf < h is false *) destruct h as [sh|sh|sh ph eh|sh mh eh Heh]; discriminate.
  - discriminate Hlt.
  - destruct (go_max_fin (B754_finite 53 1024 s m e He) y eq_refl Hy) as (F & E & _). split; [exact F|]. rewrite E. apply Rmax_r.
Qed.
(* higherIntersectionBound: outHigh is any non-NaN value *)
Lemma go_min_ub (x y : f64) : fin y -> f_is_nan x = false ->
  go_min x y = f64_ninf \/ (fin (go_min x y) /\ (BR (go_min x y) <= BR y)%R).
Proof.
  intros Hy Hn.
  destruct x as [s|s|s p e|s m e He].
  - right. destruct (go_min_fin (B754_zero 53 1024 s) y eq_refl Hy) as (F & E & _). split; [exact F|]. rewrite E. apply Rmin_r.
  - destruct s.
    + left. reflexivity.
    + right. destruct y as [sy|sy|sy py ey|sy my ey Hey]; try discriminate Hy; split; try reflexivity; apply Rle_refl.
  - discriminate Hn.
  - right. destruct (go_min_fin (B754_finite 53 1024 s m e He) y eq_refl Hy) as (F & E & _). split; [exact F|]. rewrite E. apply Rmin_r.
Qed.

(* ---- subtraction ---- *)
Lemma cm_fsub_ninf (m : f64) : fin m -> fsub f64_ninf m = f64_ninf.
Proof. destruct m as [s|s|s p e|s mm e He]; try discriminate; intros _; reflexivity. Qed.

Lemma cm_fsub_R (a b : f64) : fin a -> fin b -> fin (fsub a b) -> BR (fsub a b) = rndR (BR a - BR b).
Proof.
  intros Ha Hb Hf.
  pose proof (Binary.Bminus_correct 53 1024 eq_refl eq_refl binop_nan_pl64 mode_NE a b Ha Hb) as H.
  change (Binary.Bminus 53 1024 eq_refl eq_refl binop_nan_pl64 mode_NE a b) with (fsub a b) in H.
  destruct (Rlt_bool _ _).
  - exact (proj1 H).
  - destruct H as (H & _). apply cm_overflow_not_finite in H. congruence.
Qed.

(* the guard's test, read on the operands: a - b <= 0 is false (and a, b finite) only if b < a *)
Lemma cm_fsub_pos_lt (a b : f64) : fin a -> fin b -> fle (fsub a b) f64_zero = false -> (BR b < BR a)%R.
Proof.
  intros Ha Hb Hg.
  pose proof (Binary.Bminus_correct 53 1024 eq_refl eq_refl binop_nan_pl64 mode_NE a b Ha Hb) as H.
  change (Binary.Bminus 53 1024 eq_refl eq_refl binop_nan_pl64 mode_NE a b) with (fsub a b) in H.
  match type of H with context [Rlt_bool ?x ?y] => destruct (Rlt_bool_spec x y) as [Eb|Eb] end.
  - destruct H as (H1 & H2 & _).
    destruct (Rle_lt_dec (BR a) (BR b)) as [L|L]; [exfalso|exact L].
    assert (Hle : (BR (fsub a b) <= 0)%R).
    { rewrite H1. change (round radix2 (SpecFloat.fexp 53 1024) (round_mode mode_NE)) with rndR.
      rewrite <- cm_rnd_0. apply cm_rnd_le. lra. }
    apply (cm_fle_zero_r _ H2) in Hle. congruence.
  - destruct H as (H1 & H2). apply cm_overflow_inf in H1.
    destruct (Bsign 53 1024 a) eqn:Sa.
    + rewrite H1 in Hg. discriminate Hg.
    + assert (Sb : Bsign 53 1024 b = true) by (destruct (Bsign 53 1024 b); [reflexivity|discriminate H2]).
      pose proof (cm_sign_false a Ha Sa) as Pa. pose proof (cm_sign_true b Hb Sb) as Pb.
      change (round radix2 (SpecFloat.fexp 53 1024) (round_mode mode_NE)) with rndR in Eb.
      destruct (Req_dec (BR a - BR b) 0) as [Z|NZ].
      * rewrite Z, cm_rnd_0, Rabs_R0 in Eb. pose proof (bpow_gt_0 radix2 1024). lra.
      * lra.
Qed.

(* a non-negative difference whose rounding stays below 2^1024 *)
Lemma cm_fsub_bounded (a b : f64) : fin a -> fin b -> (0 <= BR a - BR b)%R ->
  (rndR (BR a - BR b) < bpow radix2 1024)%R ->
  fin (fsub a b) /\ BR (fsub a b) = rndR (BR a - BR b).
Proof.
  intros Ha Hb H0 Hlt.
  pose proof (Binary.Bminus_correct 53 1024 eq_refl eq_refl binop_nan_pl64 mode_NE a b Ha Hb) as H.
  change (Binary.Bminus 53 1024 eq_refl eq_refl binop_nan_pl64 mode_NE a b) with (fsub a b) in H.
  change (round radix2 (SpecFloat.fexp 53 1024) (round_mode mode_NE)) with rndR in H.
  assert (P : (0 <= rndR (BR a - BR b))%R) by (rewrite <- cm_rnd_0; apply cm_rnd_le; exact H0).
  rewrite Rlt_bool_true in H by (rewrite Rabs_pos_eq; assumption).
  destruct H as (H1 & H2 & _). split; assumption.
Qed.

(* inSize when both bounds are non-negative: no overflow *)
Lemma cm_fsub_fin_nonneg (a b : f64) : fin a -> fin b -> fle f64_zero a = true -> fle f64_zero b = true -> fin (fsub a b).
Proof.
  intros Ha Hb Pa Pb. apply (cm_fle_zero_l a Ha) in Pa. apply (cm_fle_zero_l b Hb) in Pb.
  pose proof (Binary.Bminus_correct 53 1024 eq_refl eq_refl binop_nan_pl64 mode_NE a b Ha Hb) as H.
  change (Binary.Bminus 53 1024 eq_refl eq_refl binop_nan_pl64 mode_NE a b) with (fsub a b) in H.
  change (round radix2 (SpecFloat.fexp 53 1024) (round_mode mode_NE)) with rndR in H.
  rewrite Rlt_bool_true in H; [exact (proj1 (proj2 H))|].
  assert (U : (rndR (BR a - BR b) <= BR a)%R) by (apply Rle_trans with (rndR (BR a)); [apply cm_rnd_le; lra|rewrite cm_rnd_BR; apply Rle_refl]).
  assert (L : (- BR b <= rndR (BR a - BR b))%R).
  { replace (- BR b)%R with (rndR (- BR b)); [apply cm_rnd_le; lra|]. apply cm_rnd_generic, generic_format_opp, cm_BR_format. }
  pose proof (cm_BR_lt_emax a) as Ba. pose proof (cm_BR_lt_emax b) as Bb.
  rewrite Rabs_pos_eq in Ba, Bb by assumption.
  apply Rabs_lt. lra.
Qed.

(* ---- proportion and weight ---- *)
Lemma cm_fdiv_unit (a b : f64) : fin a -> fin b -> (0 <= BR a <= BR b)%R -> (0 < BR b)%R ->
  fin (fdiv a b) /\ (0 <= BR (fdiv a b) <= 1)%R.
Proof.
  intros Ha Hb Hab Hpos.
  assert (Hnz : BR b <> 0%R) by lra.
  pose proof (Binary.Bdiv_correct 53 1024 eq_refl eq_refl binop_nan_pl64 mode_NE a b Hnz) as H.
  change (Binary.Bdiv 53 1024 eq_refl eq_refl binop_nan_pl64 mode_NE a b) with (fdiv a b) in H.
  change (round radix2 (SpecFloat.fexp 53 1024) (round_mode mode_NE)) with rndR in H.
  assert (Q : (0 <= BR a / BR b <= 1)%R).
  { split.
    - apply Rmult_le_pos; [lra|]. left. apply Rinv_0_lt_compat. exact Hpos.
    - apply (Rmult_le_reg_r (BR b)); [exact Hpos|]. unfold Rdiv. rewrite Rmult_assoc, Rinv_l by exact Hnz. lra. }
  assert (P0 : (0 <= rndR (BR a / BR b))%R) by (rewrite <- cm_rnd_0; apply cm_rnd_le; lra).
  assert (P1 : (rndR (BR a / BR b) <= 1)%R) by (rewrite <- cm_rnd_1; apply cm_rnd_le; lra).
  rewrite Rlt_bool_true in H by (rewrite Rabs_pos_eq by exact P0; pose proof cm_one_lt_emax; lra).
  destruct H as (H1 & H2 & _). rewrite H2, H1. split; [exact Ha|]. split; assumption.
Qed.
Lemma cm_fmul_unit (p c : f64) : fin p -> fin c -> (0 <= BR p <= 1)%R -> (0 <= BR c)%R ->
  fin (fmul p c) /\ (0 <= BR (fmul p c) <= BR c)%R.
Proof.
  intros Hp Hc Hp1 Hc0.
  pose proof (Binary.Bmult_correct 53 1024 eq_refl eq_refl binop_nan_pl64 mode_NE p c) as H.
  change (Binary.Bmult 53 1024 eq_refl eq_refl binop_nan_pl64 mode_NE p c) with (fmul p c) in H.
  change (round radix2 (SpecFloat.fexp 53 1024) (round_mode mode_NE)) with rndR in H.
  assert (Q : (0 <= BR p * BR c <= BR c)%R).
  { split; [apply Rmult_le_pos; lra|]. rewrite <- (Rmult_1_l (BR c)) at 2. apply Rmult_le_compat_r; lra. }
  assert (P0 : (0 <= rndR (BR p * BR c))%R) by (rewrite <- cm_rnd_0; apply cm_rnd_le; lra).
  assert (P1 : (rndR (BR p * BR c) <= BR c)%R) by (apply Rle_trans with (rndR (BR c)); [apply cm_rnd_le; lra|rewrite cm_rnd_BR; apply Rle_refl]).
  pose proof (cm_BR_lt_emax c) as Bc. rewrite Rabs_pos_eq in Bc by exact Hc0.
  rewrite Rlt_bool_true in H by (rewrite Rabs_pos_eq by exact P0; lra).
  destruct H as (H1 & H2 & _). rewrite H2, H1, Hp, Hc. split; [reflexivity|]. split; assumption.
Qed.

(* ====================================================================== *)
(* one iteration of the repaired loop that reaches AddWithCount *)
Lemma cmf_call_bounds (inLow inHigh c outLow outHigh : f64) :
  fin inLow -> fin inHigh -> fin (fsub inHigh inLow) -> fin c -> fle f64_zero c = true ->
  flt outLow inHigh = true -> f_is_nan outHigh = false ->
  fle (g_isect f64 f64_arith inLow inHigh outLow outHigh) f64_zero = false ->
  let w := g_share f64 f64_arith (fsub inHigh inLow) (g_isect f64 f64_arith inLow inHigh outLow outHigh) c in
  (fin w /\ fle f64_zero w = true /\ fle w c = true) /\
  flt (go_max outLow inLow) (go_min outHigh inHigh) = true.
Proof.
  intros Hl Hh Hs Hc Hc0 Hcond Hnan Hg.
  unfold g_isect, g_share in *. cbn [c_sub c_min c_max c_mul c_div f64_arith] in *.
  destruct (go_max_lb outLow inLow inHigh Hl Hh Hcond) as (Fmx & Lmx).
  destruct (go_min_ub outHigh inHigh Hh Hnan) as [En|(Fmn & Umn)].
  { rewrite En, (cm_fsub_ninf _ Fmx) in Hg. discriminate Hg. }
  set (mx := go_max outLow inLow) in *. set (mn := go_min outHigh inHigh) in *.
  pose proof (cm_fsub_pos_lt mn mx Fmn Fmx Hg) as Hlt.
  (* inSize *)
  pose proof (cm_fsub_R inHigh inLow Hh Hl Hs) as Rs.
  assert (HD : (BR inLow < BR inHigh)%R) by lra.
  pose proof (cm_rnd_sub_pos inHigh inLow HD) as Ps. rewrite <- Rs in Ps.
  (* intersectionSize <= inSize, finite *)
  assert (Hmono : (rndR (BR mn - BR mx) <= BR (fsub inHigh inLow))%R) by (rewrite Rs; apply cm_rnd_le; lra).
  pose proof (cm_BR_lt_emax (fsub inHigh inLow)) as Bs. rewrite Rabs_pos_eq in Bs by lra.
  destruct (cm_fsub_bounded mn mx Fmn Fmx) as (Fi & Ri); [lra|lra|].
  pose proof (cm_rnd_sub_pos mn mx Hlt) as Pi. rewrite <- Ri in Pi.
  (* proportion in [0, 1] *)
  destruct (cm_fdiv_unit (fsub mn mx) (fsub inHigh inLow) Fi Hs) as (Fp & Rp); [lra|exact Ps|].
  (* weight in [0, count] *)
  apply (cm_fle_zero_l c Hc) in Hc0.
  destruct (cm_fmul_unit _ c Fp Hc Rp Hc0) as (Fw & Rw).
  split; [split; [exact Fw|split]|].
  - apply (cm_fle_zero_l _ Fw). lra.
  - apply (cm_fle_R _ c Fw Hc). lra.
  - apply (cm_flt_R mx mn Fmx Fmn). exact Hlt.
Qed.

Definition cmf_good (c : f64) (w : f64) : Prop := fin w /\ fle f64_zero w = true /\ fle w c = true.

(* the repaired loop: every weight passed to AddWithCount is a finite float in [0, count] — in particular not
   negative and not NaN — provided the scaled source bounds, their difference and the count are finite, the count
   is >= 0, and the upper bound of the target bin is not NaN. No hypothesis on the order of the bounds, on Index,
   or on the monotony of LowerBound. *)
Theorem cmf_loop_weights (lower2 : Z -> f64) (fuel : nat) (inLow inHigh c : f64) (out : Z) (l : list (Z * f64)) :
  fin inLow -> fin inHigh -> fin (fsub inHigh inLow) -> fin c -> fle f64_zero c = true ->
  cmf_adds_loop lower2 true fuel inLow inHigh (fsub inHigh inLow) c out = Some l ->
  Forall (fun jw => f_is_nan (lower2 (fst jw + 1)) = false -> cmf_good c (snd jw)) l.
Proof.
  intros Hl Hh Hs Hc Hc0 H.
  apply g_adds_loop_emitted in H. eapply Forall_impl; [|exact H].
  intros [j w] (_ & Hcond & Hskip & Hw) Hn. cbn [fst snd] in *.
  unfold g_skips in Hskip. cbn [andb c_le0 c_ltb f64_arith] in Hskip, Hcond.
  rewrite Hw. exact (proj1 (cmf_call_bounds inLow inHigh c (lower2 j) (lower2 (j + 1)) Hl Hh Hs Hc Hc0 Hcond Hn Hskip)).
Qed.

(* the same calls overlap the scaled source range, in floats *)
Theorem cmf_loop_overlap (lower2 : Z -> f64) (fuel : nat) (inLow inHigh c : f64) (out : Z) (l : list (Z * f64)) :
  fin inLow -> fin inHigh ->
  cmf_adds_loop lower2 true fuel inLow inHigh (fsub inHigh inLow) c out = Some l ->
  Forall (fun jw => flt (lower2 (fst jw)) inHigh = true /\
                    (f_is_nan (lower2 (fst jw + 1)) = false ->
                     flt (go_max (lower2 (fst jw)) inLow) (go_min (lower2 (fst jw + 1)) inHigh) = true)) l.
Proof.
  intros Hl Hh H.
  apply g_adds_loop_emitted in H. eapply Forall_impl; [|exact H].
  intros [j w] (_ & Hcond & Hskip & _). cbn [fst snd] in *.
  unfold g_skips in Hskip. cbn [andb c_le0 c_ltb f64_arith] in Hskip, Hcond.
  split; [exact Hcond|]. intros Hn.
  unfold g_isect in Hskip. cbn [c_sub c_min c_max f64_arith] in Hskip.
  destruct (go_max_lb (lower2 j) inLow inHigh Hl Hh Hcond) as (Fmx & _).
  destruct (go_min_ub (lower2 (j + 1)) inHigh Hh Hn) as [En|(Fmn & _)].
  { rewrite En, (cm_fsub_ninf _ Fmx) in Hskip. discriminate Hskip. }
  apply (cm_flt_R _ _ Fmx Fmn). exact (cm_fsub_pos_lt _ _ Fmn Fmx Hskip).
Qed.

(* one source bin *)
Theorem cmf_bin_weights (lower1 lower2 : Z -> f64) (index2 : f64 -> Z) (scale : f64) (fuel : nat) (i : Z) (c : f64)
    (l : list (Z * f64)) :
  let inLow := fmul (lower1 i) scale in
  let inHigh := fmul (lower1 (i + 1)) scale in
  fin inLow -> fin inHigh -> fin (fsub inHigh inLow) -> fin c -> fle f64_zero c = true ->
  cmf_bin_adds lower1 lower2 index2 scale true fuel i c = Some l ->
  Forall (fun jw => f_is_nan (lower2 (fst jw + 1)) = false -> cmf_good c (snd jw)) l.
Proof. intros inLow inHigh. apply cmf_loop_weights. Qed.

(* non-negative scaled bounds: the difference cannot overflow *)
Theorem cmf_bin_weights_nonneg (lower1 lower2 : Z -> f64) (index2 : f64 -> Z) (scale : f64) (fuel : nat) (i : Z) (c : f64)
    (l : list (Z * f64)) :
  let inLow := fmul (lower1 i) scale in
  let inHigh := fmul (lower1 (i + 1)) scale in
  fin inLow -> fin inHigh -> fle f64_zero inLow = true -> fle f64_zero inHigh = true -> fin c -> fle f64_zero c = true ->
  cmf_bin_adds lower1 lower2 index2 scale true fuel i c = Some l ->
  Forall (fun jw => f_is_nan (lower2 (fst jw + 1)) = false -> cmf_good c (snd jw)) l.
Proof.
  intros inLow inHigh Hl Hh Pl Ph. apply cmf_loop_weights; try assumption.
  apply cm_fsub_fin_nonneg; assumption.
Qed.

Theorem cmf_bin_overlap (lower1 lower2 : Z -> f64) (index2 : f64 -> Z) (scale : f64) (fuel : nat) (i : Z) (c : f64)
    (l : list (Z * f64)) :
  let inLow := fmul (lower1 i) scale in
  let inHigh := fmul (lower1 (i + 1)) scale in
  fin inLow -> fin inHigh ->
  cmf_bin_adds lower1 lower2 index2 scale true fuel i c = Some l ->
  Forall (fun jw => flt (lower2 (fst jw)) inHigh = true /\
                    (f_is_nan (lower2 (fst jw + 1)) = false ->
                     flt (go_max (lower2 (fst jw)) inLow) (go_min (lower2 (fst jw + 1)) inHigh) = true)) l.
Proof. intros inLow inHigh. apply cmf_loop_overlap. Qed.

(* a whole store *)
Definition cmf_src_ok (lower1 : Z -> f64) (scale : f64) (ic : Z * f64) : Prop :=
  let inLow := fmul (lower1 (fst ic)) scale in
  let inHigh := fmul (lower1 (fst ic + 1)) scale in
  fin inLow /\ fin inHigh /\ fin (fsub inHigh inLow) /\ fin (snd ic) /\ fle f64_zero (snd ic) = true.

Theorem cmf_store_weights (lower1 lower2 : Z -> f64) (index2 : f64 -> Z) (scale : f64) (src l : list (Z * f64)) :
  Forall (cmf_src_ok lower1 scale) src ->
  cmf_store_adds lower1 lower2 index2 scale true src = Some l ->
  Forall (fun jw => f_is_nan (lower2 (fst jw + 1)) = false -> fin (snd jw) /\ fle f64_zero (snd jw) = true) l.
Proof.
  unfold cmf_store_adds. revert l. induction src as [|[i c] tl IH]; intros l Hs H.
  - injection H as <-. constructor.
  - cbn [g_store_adds] in H. inversion Hs as [|? ? (Hl & Hh & Hsz & Hc & Hc0) Htl]; subst. cbn [fst snd] in *.
    destruct (cmf_fuel lower1 index2 scale i) as [fuel|]; [|discriminate H].
    destruct (g_bin_adds f64 f64_arith lower1 lower2 index2 scale true fuel i c) as [l1|] eqn:E1; [|discriminate H].
    destruct (g_store_adds f64 f64_arith lower1 lower2 index2 scale true (cmf_fuel lower1 index2 scale) tl) as [l2|] eqn:E2; [|discriminate H].
    injection H as <-. apply Forall_app. split.
    + pose proof (cmf_bin_weights lower1 lower2 index2 scale fuel i c l1 Hl Hh Hsz Hc Hc0 E1) as G.
      eapply Forall_impl; [|exact G]. intros jw P Hn. destruct (P Hn) as (A1 & A2 & _). split; assumption.
    + apply IH; [exact Htl|reflexivity].
Qed.

(* the number of calls per store is bounded by the fuels *)
Theorem cmf_bin_calls_bounded (lower1 lower2 : Z -> f64) (index2 : f64 -> Z) (scale : f64) (guard : bool) (fuel : nat) (i : Z) (c : f64)
    (l : list (Z * f64)) :
  cmf_bin_adds lower1 lower2 index2 scale guard fuel i c = Some l ->
  (length l < fuel)%nat /\ StronglySorted Z.lt (map fst l).
Proof.
  intros H. split.
  - exact (g_adds_loop_length _ _ _ _ _ _ _ _ _ _ _ H).
  - exact (g_adds_loop_sorted _ _ _ _ _ _ _ _ _ _ _ H).
Qed.

(* a touching target bin (its lower bound equals inHigh) makes no call: this is why replacing `<` by `<=` in the
   loop condition does not change the calls of the repaired loop *)
Lemma cmf_touching_bin_skipped (inLow inHigh outLow outHigh : f64) :
  fin inLow -> fin inHigh -> fin outLow -> feq outLow inHigh = true -> f_is_nan outHigh = false ->
  fle (g_isect f64 f64_arith inLow inHigh outLow outHigh) f64_zero = true.
Proof.
  intros Hl Hh Ho He Hn. unfold g_isect. cbn [c_sub c_min c_max f64_arith].
  destruct (go_max_fin outLow inLow Ho Hl) as (Fmx & Rmx & _).
  apply (cm_feq_R outLow inHigh Ho Hh) in He.
  destruct (go_min_ub outHigh inHigh Hh Hn) as [En|(Fmn & Umn)].
  - rewrite En, (cm_fsub_ninf _ Fmx). reflexivity.
  - destruct (fle (fsub (go_min outHigh inHigh) (go_max outLow inLow)) f64_zero) eqn:E; [reflexivity|exfalso].
    pose proof (cm_fsub_pos_lt _ _ Fmn Fmx E) as L. rewrite Rmx in L.
    pose proof (Rmax_l (BR outLow) (BR inLow)). lra.
Qed.

(* ====================================================================== *)
(* concrete floats *)
(* hand-made mapping of base 2 on both sides (the ideal witness of Sketch/ChangeMapping.v, in floats):
   LowerBound(k) = 2^k, scale 1.001, and an Index that answers one bin too low within 0.01 above the edge 2 *)
Definition exf_lower (k : Z) : f64 := q2f (ex_lower k).
Definition exf_scale : f64 := f64_of_bits 4607186922399644778.              (* 1.001 = 0x3ff004189374bc6a *)
Definition exf_c (n : Z) : f64 := q2f (w_of_Z n).
Definition exf_index_exact (x : f64) : Z :=
  if flt x (exf_c 1) then -1 else if flt x (exf_c 2) then 0 else if flt x (exf_c 4) then 1
  else if flt x (exf_c 8) then 2 else if flt x (exf_c 16) then 3 else 4.
Definition exf_index_off (x : f64) : Z :=
  if flt x (exf_c 1) then -1 else if flt x (f64_of_bits 4611708536425524756) (* 2.01 *) then 0 else if flt x (exf_c 4) then 1
  else if flt x (exf_c 8) then 2 else if flt x (exf_c 16) then 3 else 4.
Definition bits_of_adds (l : option (list (Z * f64))) : option (list (Z * N)) :=
  match l with Some l => Some (map (fun jw => (fst jw, bits_of_f64 (snd jw))) l) | None => None end.

(* the hypotheses of [cmf_bin_weights] hold of concrete floats, and so does its conclusion *)
Example exf_hyps :
  let inLow := fmul (exf_lower 1) exf_scale in
  let inHigh := fmul (exf_lower 2) exf_scale in
  is_finite 53 1024 inLow = true /\ is_finite 53 1024 inHigh = true /\ is_finite 53 1024 (fsub inHigh inLow) = true /\
  is_finite 53 1024 f64_one = true /\ fle f64_zero f64_one = true /\
  bits_of_adds (cmf_bin_adds exf_lower exf_lower exf_index_off exf_scale true 6 1 f64_one) =
    Some [(1, 4607164422397910035%N); (2, 4566753501465799841%N)] /\    (* 0.9980019980019982, 0.001998001998001778 *)
  f_is_nan (exf_lower 2) = false /\ f_is_nan (exf_lower 3) = false.
Proof. vm_compute. repeat split; reflexivity. Qed.

(* the legacy loop (guard = false) on the same floats: AddWithCount(0, -0.000999000999000999) *)
Example exf_legacy_negative :
  bits_of_adds (cmf_bin_adds exf_lower exf_lower exf_index_off exf_scale false 6 1 f64_one) =
    Some [(0, 13785621938693205153%N); (1, 4607164422397910035%N); (2, 4566753501465799841%N)].
Proof. vm_compute. reflexivity. Qed.

(* boolean form of "some call has a negative weight" (evaluated without normalising any float) *)
Definition has_negative (r : option (list (Z * f64))) : bool :=
  match r with Some l => existsb (fun jw => flt (snd jw) f64_zero) l | None => false end.
Lemma has_negative_spec (r : option (list (Z * f64))) :
  has_negative r = true -> exists l, r = Some l /\ Exists (fun jw => flt (snd jw) f64_zero = true) l.
Proof.
  destruct r as [l|]; [|discriminate]. cbn [has_negative]. intros H. exists l. split; [reflexivity|].
  apply Exists_exists. apply existsb_exists in H. exact H.
Qed.

Theorem exf_legacy_refuted :
  exists (lower1 lower2 : Z -> f64) (index2 : f64 -> Z) (scale : f64) (fuel : nat) (i : Z) (c : f64) (l : list (Z * f64)),
    let inLow := fmul (lower1 i) scale in
    let inHigh := fmul (lower1 (i + 1)) scale in
    (is_finite 53 1024 inLow = true /\ is_finite 53 1024 inHigh = true /\ is_finite 53 1024 (fsub inHigh inLow) = true /\
     is_finite 53 1024 c = true /\ fle f64_zero c = true /\ (forall j, -8 <= j <= 8 -> f_is_nan (lower2 j) = false)) /\
    cmf_bin_adds lower1 lower2 index2 scale false fuel i c = Some l /\
    Exists (fun jw => flt (snd jw) f64_zero = true) l.
Proof.
  exists exf_lower, exf_lower, exf_index_off, exf_scale, 6%nat, 1, f64_one.
  destruct (has_negative_spec (cmf_bin_adds exf_lower exf_lower exf_index_off exf_scale false 6 1 f64_one)) as (l & E & H).
  { vm_compute. reflexivity. }
  exists l. cbv zeta. split; [|split; [exact E|exact H]].
  repeat (split; [vm_compute; reflexivity|]).
  intros j Hj.
  assert (Hc : forallb (fun k => negb (f_is_nan (exf_lower k))) (zrange (-8) 8) = true) by (vm_compute; reflexivity).
  rewrite forallb_forall in Hc. specialize (Hc j (proj2 (in_zrange (-8) 8 j) Hj)).
  destruct (f_is_nan (exf_lower j)); [discriminate Hc|reflexivity].
Qed.

(* ---- D6 itself, on the bit-exact logarithmic mapping: NewLogarithmicMapping(0.01) on both sides, the source bin
   (-186, 1.0), scaleFactor 0x3feebec6cea31233. Go's math.Log / math.Exp enter as the finite table of the answers
   the implementation's runtime gave for exactly the arguments this computation asks (recorded through
   `vrun --libm`); every other argument answers NaN. exp(log(x)) is one ulp below x at inLowerBound, Index answers
   one bin too low, and the legacy loop passes a negative weight to AddWithCount. *)
Definition d6_exp (x : f64) : f64 :=
  match bits_of_f64 x with
  | 4649451482093607557%N => fb 9216230289645164774     (* 40862b7d369a5a85 -> 7fe6a09e667ed8e6 *)
  | 4721033609408155489%N => fb 9218868437227405312     (* 41847b0dfd740f61 -> 7ff0000000000000 *)
  | 13838886392704070127%N => fb 4582782413862100854     (* c00d99da441cf1ef -> 3f99505325285f76 *)
  | 13838931430201633786%N => fb 4582641320942226065     (* c00dc2d060282bfa -> 3f98d00063c9ca91 *)
  | 13838976467699197445%N => fb 4582503021941556715     (* c00debc67c336605 -> 3f98523824fb05eb *)
  | 13839021505196761104%N => fb 4582367461534960027     (* c00e14bc983ea010 -> 3f97d6ed8719899b *)
  | 13839066542694324763%N => fb 4582234585492850402     (* c00e3db2b449da1b -> 3f975e13e9cf86e2 *)
  | 13944405646265615741%N => fb 0                       (* c1847b0dfd9d057d -> 0000000000000000 *)
  | _ => go_nan
  end.
Definition d6_log (x : f64) : f64 :=
  match bits_of_f64 x with
  | 4582367461534960028%N => fb 13839021505196761104     (* 3f97d6ed8719899c -> c00e14bc983ea010 *)
  | 4582503021941556715%N => fb 13838976467699197445     (* 3f98523824fb05eb -> c00debc67c336605 *)
  | 4607273400610671357%N => fb 4581422021096572285      (* 3ff052bf5a814afd -> 3f947b0e059d057d *)
  | _ => go_nan
  end.
Definition d6_libm : libm :=
  {| l_log := d6_log; l_exp := d6_exp; l_exp2 := fun _ => go_nan; l_log2 := fun _ => go_nan;
     l_pow := fun _ _ => go_nan; l_cbrt := fun _ => go_nan; l_sqrt := fun _ => go_nan; l_floor := fun _ => go_nan |}.
Definition d6_alpha : f64 := fb 4576918229304087675.          (* 0.01 = 0x3f847ae147ae147b *)
Definition d6_scale : f64 := fb 4606829229926191667.          (* 0x3feebec6cea31233 *)
Definition d6_trace (guard : bool) : option (list (Z * N)) :=
  match with_accuracy d6_libm MLog d6_alpha with
  | Some m => bits_of_adds (cmf_store d6_libm m m d6_scale guard [(-186, f64_one)])
  | None => None
  end.
Example d6_mapping :
  match with_accuracy d6_libm MLog d6_alpha with
  | Some m => bits_of_f64 (gm_gamma m) = 4607273400610671357%N /\ bits_of_f64 (gm_off m) = 0%N /\
              bits_of_f64 (gm_min m) = 4594581438024445%N /\ bits_of_f64 (gm_max m) = 9216167229727615264%N
  | None => False
  end.
Proof. vm_compute. repeat split; reflexivity. Qed.
(* legacy: AddWithCount(-189, -7.37e-15) then AddWithCount(-188, 1.0); what the implementation before e1377b7 did *)
Example d6_legacy : d6_trace false = Some [(-189, 13619057266629187744%N); (-188, 4607182418800017408%N)].
Proof. vm_compute. reflexivity. Qed.
(* repaired: AddWithCount(-188, 1.0) only; what the implementation does now (`kchtrace`) *)
Example d6_repaired : d6_trace true = Some [(-188, 4607182418800017408%N)].
Proof. vm_compute. reflexivity. Qed.
Theorem d6_negative_weight :
  exists m l, with_accuracy d6_libm MLog d6_alpha = Some m /\
    cmf_store d6_libm m m d6_scale false [(-186, f64_one)] = Some l /\
    Exists (fun jw => flt (snd jw) f64_zero = true) l.
Proof.
  assert (H : match with_accuracy d6_libm MLog d6_alpha with
              | Some m => has_negative (cmf_store d6_libm m m d6_scale false [(-186, f64_one)])
              | None => false end = true) by (vm_compute; reflexivity).
  destruct (with_accuracy d6_libm MLog d6_alpha) as [m|]; [|discriminate H].
  destruct (has_negative_spec _ H) as (l & E & Hn).
  exists m, l. split; [reflexivity|]. split; assumption.
Qed.
