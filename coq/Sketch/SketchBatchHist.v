(* GetValuesAtQuantiles after a history of unit additions: every executed sketch reached from
   [sk_new m kp kn false] (stores of any of the five kinds on each side, collapsing ones included: kind_ok) by
   successful unit Add(v) of the extracted [xk_add] satisfies [batch_ready64] (Sketch/SketchBatchExec64.v), as long
   as at most 2^53 values were added; hence the driver's batch answers what the single queries answer, with no
   premise other than the history.  Built on SketchProofs3.built_quantile_ready at the grid 2^-0 (integer weights).
   Premises on the inputs: every v finite with |v| <= mt_max (what adds_ok asks; under mt_ok these are the values
   Add accepts); on the table: mt_ok. *)
From Coq Require Import Bool ZArith QArith Qcanon Qcabs List Lia.
From SK Require Import Base.Prelude Base.F64 Base.F64Proofs Spec.Bins Spec.BinsProofs Spec.ASketch Store.Any Store.AnyProofs
                       Stat.Summary Sketch.Sketch Sketch.SketchProofs Sketch.RankProofs Sketch.RefineProofs
                       Sketch.MiscProofs Sketch.RoundingInstance Sketch.SketchProofs3
                       Sketch.SketchBatch Sketch.SketchBatchExec Sketch.SketchBatchExec64
                       Extract.Instances Extract.Instances2.
Import ListNotations.

(* Add(v) of the extracted sketch for each value in turn *)
Fixpoint xk_add_units (mt : mtable) (s : sketch) (vs : list f64) : result sketch :=
  match vs with
  | [] => ROk s
  | v :: tl => match xk_add mt s v f64_one true with ROk s' => xk_add_units mt s' tl | r => r end
  end.

Definition unit_adds_ok (mt : mtable) (vs : list f64) : Prop :=
  Forall (fun v => f_is_finite v = true /\ (Qcabs (f2q v) <= f2q (mt_max mt))%Qc) vs.

Lemma plain_add_stats mt s v c s' : plain_add mt s v c = ROk s' -> sk_stats s' = sk_stats s.
Proof.
  unfold plain_add. destruct (flt c f64_zero); [discriminate|]. cbv zeta.
  destruct (flt (mt_min mt) v).
  - destruct (flt (mt_max mt) v); [discriminate|].
    destruct (st_addw (sk_pos s) _ _); [|discriminate]. intros E. injection E as <-. reflexivity.
  - destruct (flt v (fneg (mt_min mt))).
    + destruct (flt v (fneg (mt_max mt))); [discriminate|].
      destruct (st_addw (sk_neg s) _ _); [|discriminate]. intros E. injection E as <-. reflexivity.
    + destruct (f_is_nan v); [discriminate|]. intros E. injection E as <-. reflexivity.
Qed.

Lemma xk_add_units_plain mt vs : forall s, sk_stats s = None ->
  xk_add_units mt s vs = plain_add_list mt s (map (fun v => (v, f64_one)) vs).
Proof.
  induction vs as [|v tl IH]; intros s Hs; [reflexivity|].
  cbn [xk_add_units map plain_add_list fst snd]. unfold xk_add, sk_add. rewrite Hs.
  destruct (plain_add mt s v f64_one) as [s'| |] eqn:E; try reflexivity.
  apply IH. rewrite (plain_add_stats mt s v f64_one s' E). exact Hs.
Qed.

Lemma batch_ready64_of_count s n :
  SkInv s -> dy_sketch (sk_abs s) -> plain_count s = inj n -> (n <= 2 ^ 53)%Z -> batch_ready64 s.
Proof.
  intros I Hd En Hn. unfold batch_ready64. split; [exact I|]. split; [exact Hd|]. split.
  - unfold small. rewrite <- (plain_count_refines s I), En. apply inj_mono. pose proof pow53_le_pow1000. lia.
  - exact (ready64_integer s n I Hd En Hn).
Qed.

Theorem hist_batch_ready (mt : mtable) (m : mapid) (kp kn : kind) (vs : list f64) :
  mt_ok mt -> kind_ok kp -> kind_ok kn -> unit_adds_ok mt vs -> (Z.of_nat (length vs) <= 2 ^ 53)%Z ->
  exists s, xk_add_units mt (sk_new m kp kn false) vs = ROk s /\ batch_ready64 s /\
            plain_count s = inj (Z.of_nat (length vs)).
Proof.
  intros Hm Hkp Hkn Hv Hn.
  rewrite xk_add_units_plain by reflexivity.
  destruct vs as [|v0 tl].
  - exists (sk_new m kp kn false). split; [reflexivity|].
    pose proof (SkInv_new m kp kn false Hkp Hkn) as I.
    assert (Ec : plain_count (sk_new m kp kn false) = inj 0).
    { rewrite (plain_count_refines _ I), sk_abs_new. apply Qc_is_canon. vm_compute. reflexivity. }
    split; [|exact Ec].
    apply (batch_ready64_of_count _ 0 I); [rewrite sk_abs_new; exact dy_sketch_new|exact Ec|lia].
  - set (vs := v0 :: tl) in *. set (l := map (fun v => (v, f64_one)) vs).
    assert (Hl : adds_ok mt l).
    { unfold adds_ok, l. apply Forall_map. eapply Forall_impl; [|exact Hv]. cbn [fst snd].
      intros v (Fv & Rv). split; [exact Fv|]. split; [exact f64_one_finite|].
      split; [rewrite f2q_f64_one; apply w1_nonneg|exact Rv]. }
    assert (Hne : l <> []) by (unfold l, vs; discriminate).
    assert (Hq : qitems l = map (fun v => (f2q v, w1)) vs).
    { unfold qitems, l. rewrite map_map. apply map_ext. intros v. cbn [fst snd]. now rewrite f2q_f64_one. }
    assert (Hg : gridw 0 (qitems l)).
    { rewrite Hq. unfold gridw. apply Forall_map. apply Forall_forall. intros v _. cbn [snd].
      exists 1%Z. split; [lia|]. symmetry. exact (gv_U 0 (Z.le_refl 0)). }
    assert (HW : wsum (qitems l) = gridv 0 (Z.of_nat (length vs))).
    { rewrite wsum_units.
      - rewrite Hq, map_length. pose proof (gridv_mulU 0 (Z.of_nat (length vs)) (Z.le_refl 0)) as G.
        change (2 ^ 0)%Z with 1%Z in G. rewrite Z.mul_1_r in G. symmetry. exact G.
      - rewrite Hq. unfold units. apply Forall_map. apply Forall_forall. intros v _. reflexivity. }
    destruct (built_quantile_ready mt m kp kn false l 0 (Z.of_nat (length vs)) Hm Hkp Hkn Hl Hne
                ltac:(lia) Hg HW Hn) as (s & E & (I & Hd & Hs & _ & C0 & C1) & Pc).
    assert (Pc' : plain_count s = inj (Z.of_nat (length vs))).
    { rewrite Pc. pose proof (gridv_mulU 0 (Z.of_nat (length vs)) (Z.le_refl 0)) as G.
      change (2 ^ 0)%Z with 1%Z in G. rewrite Z.mul_1_r in G. exact G. }
    exists s. split; [exact E|]. split; [|exact Pc'].
    unfold batch_ready64. split; [exact I|]. split; [exact Hd|]. split; [exact Hs|]. intros _. split; assumption.
Qed.

(* the same, about whatever sketch the history produced *)
Theorem hist_batch_ready_any mt m kp kn vs s :
  mt_ok mt -> kind_ok kp -> kind_ok kn -> unit_adds_ok mt vs -> (Z.of_nat (length vs) <= 2 ^ 53)%Z ->
  xk_add_units mt (sk_new m kp kn false) vs = ROk s ->
  batch_ready64 s /\ plain_count s = inj (Z.of_nat (length vs)).
Proof.
  intros Hm Hkp Hkn Hv Hn E.
  destruct (hist_batch_ready mt m kp kn vs Hm Hkp Hkn Hv Hn) as (s0 & E0 & H).
  rewrite E in E0. injection E0 as <-. exact H.
Qed.

Section Hist.
Variables (mt : mtable) (m : mapid) (kp kn : kind) (vs : list f64) (s : sketch).
Hypothesis Hm : mt_ok mt.
Hypothesis Hkp : kind_ok kp.
Hypothesis Hkn : kind_ok kn.
Hypothesis Hv : unit_adds_ok mt vs.
Hypothesis Hn : (Z.of_nat (length vs) <= 2 ^ 53)%Z.
Hypothesis E : xk_add_units mt (sk_new m kp kn false) vs = ROk s.
Let Rdy : batch_ready64 s := proj1 (hist_batch_ready_any mt m kp kn vs s Hm Hkp Hkn Hv Hn E).

Theorem hist_batch_answers qs ys :
  snd (xk_quantiles mt s qs) = ROk ys -> Forall2 (fun q y => snd (xk_quantile mt s q) = ROk y) qs ys.
Proof. exact (xk_quantiles_answers mt s qs ys Rdy). Qed.

Theorem hist_batch_refused qs e :
  snd (xk_quantiles mt s qs) = RErr e ->
  exists pre q post, qs = pre ++ q :: post /\ snd (xk_quantile mt s q) = RErr e /\
                     Forall (fun q' => exists y, snd (xk_quantile mt s q') = ROk y) pre.
Proof. exact (xk_quantiles_refused mt s qs e Rdy). Qed.

Theorem hist_batch_total qs :
  Forall (fun q => exists y, snd (xk_quantile mt s q) = ROk y) qs -> exists ys, snd (xk_quantiles mt s qs) = ROk ys.
Proof. exact (xk_quantiles_total mt s qs Rdy). Qed.

Theorem hist_batch_keeps qs :
  let s' := fst (xk_quantiles mt s qs) in
  SkInv s' /\ sk_same s s' /\ sk_abs s' = sk_abs s /\ sk_stats s' = sk_stats s.
Proof. exact (xk_quantiles_keeps mt s qs Rdy). Qed.
End Hist.
