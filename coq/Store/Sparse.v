(* Layer B: ddsketch/store/sparse.go. Go's hash map is modelled as a finite map (the canonical
   association list of Layer A: the Go runtime map is trusted, not verified); what is modelled
   of the code is which keys are written, the skipping of zero counts, the order-insensitive
   observers and the arbitrary iteration order of ForEach/Encode/ToProto, which is a parameter. *)
From SK Require Export Spec.Bins.

Definition sparse := bins.
Definition new_sparse : sparse := [].
Definition sp_add_with_count (s : sparse) (i : Z) (c : W) : sparse := if weqb c w0 then s else badd s i c.
Definition sp_add (s : sparse) (i : Z) : sparse := badd s i w1.      (* counts[index]++ *)
Definition sp_is_empty (s : sparse) : bool := is_emptyb s.
Definition sp_total (s : sparse) : W := total s.
Definition sp_min (s : sparse) : option Z := min_key s.
Definition sp_max (s : sparse) : option Z := max_key s.
Definition sp_clear (s : sparse) : sparse := [].
Definition sp_reweight (s : sparse) (w : W) : option sparse :=
  if wleb w w0 then None else if weqb w w1 then Some s else Some (bscale w s).
(* KeyAtRank: ordered bins, first cumulative count > rank; falls back to MaxIndex, or 0 when empty *)
Definition sp_key_at_rank (s : sparse) (rank : W) : Z :=
  let fix go (l : bins) (n : W) : option Z :=
    match l with
    | [] => None
    | (k, w) :: tl => let n' := wadd n w in if wltb rank n' then Some k else go tl n'
    end in
  match go s w0 with
  | Some k => k
  | None => match max_key s with Some k => k | None => 0 end
  end.

Section Order.
Variable visit : list (Z * W) -> list (Z * W).     (* Go map iteration order: any permutation *)
Definition sp_foreach (s : sparse) : list (Z * W) := visit s.
Definition sp_merge_list (s : sparse) (l : list (Z * W)) : sparse :=
  fold_left (fun acc kw => sp_add_with_count acc (fst kw) (snd kw)) l s.
End Order.
