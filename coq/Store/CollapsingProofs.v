(* Refinement proofs for the two collapsing dense stores (lim = Lowest n / Highest n) of
   Store/Dense.v against Layer A (Spec/Bins.v): clamp_low / clamp_high.  Stdlib only, axiom-free.
     Part 0  glue between Spec/BinsProofs.v and Store/DenseProofs.v, range sums
     Part 1  invariant CI (shared by the two kinds), the view [as_exact]
     Part 2  clampf / clamph: the clamp as a function on contents, link with clamp_low / clamp_high
     Part 3  Lowest: adjust, extend_range, normalize, add, merge, histories
     Part 4  Highest: mirror
     Part 5  observers, reweight, clear (both kinds)
   fixD1 = true everywhere (the current Go code); the legacy behaviour is only refuted by example. *)
From SK Require Import Store.Dense Spec.BinsProofs Store.DenseProofs.
From Coq Require Import ZifyBool ZifyNat Lqa.
Local Open Scope Z_scope.

(* ================================================================== *)
(* Part 0: glue                                                        *)
(* ================================================================== *)

Lemma pos_of_posb (b : list (Z * W)) : DenseProofs.posb b -> BinsProofs.pos b.
Proof. intros H. apply Forall_forall. intros [k w] Hi. cbn [snd]. now apply (H k). Qed.
Lemma tab_pos' f a b : (forall i, (w0 <= f i)%Qc) -> BinsProofs.pos (tab f a b).
Proof. intros H. apply pos_of_posb. now apply tab_pos. Qed.

Lemma rsum_drop_low f a a' b :
  a' <= a -> a <= b + 1 -> (forall i, a' <= i < a -> f i = w0) -> rsum f a' b = rsum f a b.
Proof.
  intros H1 H2 Hz. rewrite (rsum_split f a' (a - 1) b) by lia. replace (a - 1 + 1) with a by lia.
  rewrite (rsum_zero f a' (a - 1)) by (intros; apply Hz; lia). apply wadd_0_l.
Qed.
Lemma rsum_drop_high f a b b' :
  b <= b' -> a <= b + 1 -> (forall i, b < i <= b' -> f i = w0) -> rsum f a b' = rsum f a b.
Proof.
  intros H1 H2 Hz. rewrite (rsum_split f a b b') by lia.
  rewrite (rsum_zero f (b + 1) b') by (intros; apply Hz; lia). apply wadd_0_r.
Qed.
Lemma rsum_point i c a b :
  rsum (fun k => if k =? i then c else w0) a b = if (a <=? i) && (i <=? b) then c else w0.
Proof.
  destruct ((a <=? i) && (i <=? b)) eqn:E.
  - rewrite (rsum_drop_low _ i a b) by (first [lia | intros k Hk; destruct (Z.eqb_spec k i); [lia|reflexivity]]).
    rewrite (rsum_drop_high _ i i b) by (first [lia | intros k Hk; destruct (Z.eqb_spec k i); [lia|reflexivity]]).
    rewrite rsum_one. now rewrite Z.eqb_refl.
  - apply rsum_zero. intros k Hk. destruct (Z.eqb_spec k i); [lia|reflexivity].
Qed.
Lemma rsum_ge_term f a b k :
  (forall i, (w0 <= f i)%Qc) -> a <= k <= b -> (f k <= rsum f a b)%Qc.
Proof.
  intros Hn Hk. rewrite (rsum_split f a (k - 1) b) by lia. replace (k - 1 + 1) with k by lia.
  rewrite (rsum_split f k k b) by lia. rewrite rsum_one.
  pose proof (rsum_nonneg f a (k - 1) Hn). pose proof (rsum_nonneg f (k + 1) b Hn).
  generalize dependent (rsum f a (k - 1)). generalize dependent (rsum f (k + 1) b). generalize (f k).
  intros x y Hy z Hz. wlra.
Qed.
Lemma rsum_pos_at f a b k :
  (forall i, (w0 <= f i)%Qc) -> a <= k <= b -> (w0 < f k)%Qc -> (w0 < rsum f a b)%Qc.
Proof.
  intros Hn Hk Hp. pose proof (rsum_ge_term f a b k Hn Hk) as H.
  generalize dependent (rsum f a b). generalize dependent (f k). intros x Hx y Hy. wlra.
Qed.

(* ---- slices of slices ---- *)
Lemma firstn_slice l lo n k :
  0 <= lo -> 0 <= k <= n -> lo + n <= zlen l -> firstn (Z.to_nat k) (slice l lo n) = slice l lo k.
Proof.
  intros Hlo Hk Hl. apply list_ext_at.
  - rewrite zlen_firstn, !zlen_slice by lia. lia.
  - intros j Hj. rewrite zlen_firstn, zlen_slice in Hj by lia. rewrite at_firstn, !at_slice by lia.
    destruct (Z.ltb_spec j (Z.of_nat (Z.to_nat k))); destruct ((0 <=? j) && (j <? n)) eqn:E1;
      destruct ((0 <=? j) && (j <? k)) eqn:E2; try reflexivity; lia.
Qed.
Lemma skipn_slice l lo n k :
  0 <= lo -> 0 <= k <= n -> lo + n <= zlen l -> skipn (Z.to_nat k) (slice l lo n) = slice l (lo + k) (n - k).
Proof.
  intros Hlo Hk Hl. apply list_ext_at.
  - rewrite zlen_skipn, !zlen_slice by lia. lia.
  - intros j Hj. rewrite zlen_skipn, zlen_slice in Hj by lia.
    rewrite at_skipn, !at_slice by lia.
    destruct ((0 <=? Z.of_nat (Z.to_nat k) + j) && (Z.of_nat (Z.to_nat k) + j <? n)) eqn:E1;
      destruct ((0 <=? j) && (j <? n - k)) eqn:E2; try reflexivity; try lia. f_equal. lia.
Qed.
Lemma sumW_slice_rsum l lo n :
  0 <= lo -> 0 <= n -> lo + n <= zlen l -> sumW (slice l lo n) = rsum (at_ l) lo (lo + n - 1).
Proof. intros. unfold rsum. now apply sumW_slice. Qed.

(* ---- shift_counts / center_counts leave the flags alone ---- *)
Lemma reset_bins_collapsed s a b s' : reset_bins s a b = Some s' -> collapsed s' = collapsed s.
Proof. unfold reset_bins. destruct (_ && _); [discriminate|]. intros E. inversion E. reflexivity. Qed.
Lemma shift_counts_collapsed s k s' : shift_counts s k = Some s' -> collapsed s' = collapsed s.
Proof.
  unfold shift_counts. destruct (_ || _ || _ || _ || _); [discriminate|]. cbv zeta.
  destruct (0 <? k).
  - destruct (reset_bins _ _ _) as [s2|] eqn:E; [|discriminate]. intros H. inversion H.
    apply reset_bins_collapsed in E. cbn [with_offset collapsed]. rewrite E. reflexivity.
  - destruct (reset_bins _ _ _) as [s2|] eqn:E; [|discriminate]. intros H. inversion H.
    apply reset_bins_collapsed in E. cbn [with_offset collapsed]. rewrite E. reflexivity.
Qed.
Lemma center_counts_collapsed s lo hi s' : center_counts s lo hi = Some s' -> collapsed s' = collapsed s.
Proof.
  unfold center_counts. destruct (shift_counts _ _) as [s1|] eqn:E; [|discriminate].
  intros H. inversion H. cbn [with_range collapsed]. now apply shift_counts_collapsed in E.
Qed.

(* ================================================================== *)
(* Part 1: the invariant                                               *)
(* ================================================================== *)

(* the same cells seen as a plain dense store: every observer of Dense.v that does not look at
   [lim] / [collapsed] (window, foreach, key_at_rank_d, reweight_d, observers, dabs) is unchanged *)
Definition as_exact (s : dense) : dense :=
  {| bins := bins s; count := count s; offset := offset s; minI := minI s; maxI := maxI s;
     lim := Exact; collapsed := collapsed s |}.

(* CI n s: the representation invariant of a collapsing store of capacity n (either kind):
     - the plain-store invariant on the cells (cells >= 0, zero outside [minI, maxI], count = sum of
       the window, sentinels when empty, window inside the array and positive at both ends when
       non-empty, int32 indexes);
     - THE MEMORY BOUND len s <= n (hence the span bound maxI - minI + 1 <= n);
     - an empty store has a zero-length array (Go: Clear truncates bins to [:0]) and is not collapsed;
     - a collapsed store uses the whole capacity and its window is exactly the array. *)
Record CI (n : Z) (s : dense) : Prop := {
  ci_inv : Inv (as_exact s);
  ci_len : len s <= n;
  ci_empty : count s = w0 -> len s = 0 /\ collapsed s = false;
  ci_coll : collapsed s = true -> len s = n /\ offset s = minI s /\ maxI s = minI s + n - 1 }.

Definition CInvLow (n : Z) (s : dense) : Prop := 1 <= n /\ lim s = Lowest n /\ CI n s.
Definition CInvHigh (n : Z) (s : dense) : Prop := 1 <= n /\ lim s = Highest n /\ CI n s.

Section CIfacts.
Variable n : Z.
Variable s : dense.
Hypothesis C : CI n s.
Lemma ci_nonneg : forall i, (w0 <= dget s i)%Qc.
Proof. exact (inv_nonneg _ (ci_inv n s C)). Qed.
Lemma ci_out : forall i, i < minI s \/ maxI s < i -> dget s i = w0.
Proof. exact (inv_out _ (ci_inv n s C)). Qed.
Lemma ci_count : count s = rsum (dget s) (minI s) (maxI s).
Proof. exact (inv_count _ (ci_inv n s C)). Qed.
Lemma ci_sentinel : count s = w0 -> minI s = MaxInt32 /\ maxI s = MinInt32.
Proof. exact (inv_empty _ (ci_inv n s C)). Qed.
Lemma ci_win : count s <> w0 -> offset s <= minI s /\ minI s <= maxI s /\ maxI s < offset s + len s.
Proof. exact (inv_win _ (ci_inv n s C)). Qed.
Lemma ci_ends : count s <> w0 -> (w0 < dget s (minI s))%Qc /\ (w0 < dget s (maxI s))%Qc.
Proof. exact (inv_ends _ (ci_inv n s C)). Qed.
Lemma ci_idx : count s <> w0 -> idx_ok (minI s) /\ idx_ok (maxI s).
Proof. exact (inv_idx _ (ci_inv n s C)). Qed.
Lemma ci_all_zero : count s = w0 -> forall i, dget s i = w0.
Proof. exact (Inv_all_zero _ (ci_inv n s C)). Qed.
Lemma ci_count_nonneg : (w0 <= count s)%Qc.
Proof. exact (Inv_count_nonneg _ (ci_inv n s C)). Qed.
Lemma ci_nonempty_iff : count s <> w0 <-> minI s <= maxI s.
Proof. exact (Inv_nonempty_iff _ (ci_inv n s C)). Qed.
Lemma ci_get_dabs i : get (dabs s) i = dget s i.
Proof. exact (get_dabs _ i (ci_inv n s C)). Qed.
Lemma ci_dabs_pos : BinsProofs.pos (dabs s).
Proof. apply tab_pos'. exact ci_nonneg. Qed.
Lemma ci_dabs_empty : count s = w0 -> dabs s = [].
Proof. exact (dabs_empty _ (ci_inv n s C)). Qed.
(* THE SPAN BOUND *)
Lemma ci_span : count s <> w0 -> maxI s - minI s + 1 <= n.
Proof. intros N. destruct (ci_win N) as (H1 & H2 & H3). pose proof (ci_len n s C). lia. Qed.
Lemma ci_count_bins : count s = sumW (bins s).
Proof. exact (Inv_count_bins _ (ci_inv n s C)). Qed.
End CIfacts.

Lemma CI_new n l : 0 <= n -> CI n (new_dense l).
Proof.
  intros Hn. constructor.
  - exact Inv_new.
  - unfold len. cbn [new_dense bins]. rewrite zlen_nil. exact Hn.
  - intros _. split; reflexivity.
  - cbn [new_dense collapsed]. discriminate.
Qed.
Lemma CI_clear n s : 0 <= n -> CI n (clear_d s).
Proof.
  intros Hn. constructor.
  - exact (Inv_clear (as_exact s) eq_refl).
  - unfold len. cbn [clear_d bins]. rewrite zlen_nil. exact Hn.
  - intros _. split; reflexivity.
  - cbn [clear_d collapsed]. discriminate.
Qed.

(* ================================================================== *)
(* Part 2: the clamp as a function on contents                         *)
(* ================================================================== *)

(* clampf F lo e: fold everything below e into e (F vanishes below lo);
   clamph F hi e: fold everything above e into e (F vanishes above hi) *)
Definition clampf (F : Z -> W) (lo e j : Z) : W :=
  if j <? e then w0 else if j =? e then rsum F lo e else F j.
Definition clamph (F : Z -> W) (hi e j : Z) : W :=
  if e <? j then w0 else if j =? e then rsum F e hi else F j.

Lemma clampf_ext F G lo e j : (forall k, F k = G k) -> clampf F lo e j = clampf G lo e j.
Proof. intros H. unfold clampf. rewrite (rsum_ext F G lo e) by (intros; apply H). now rewrite H. Qed.
Lemma clamph_ext F G hi e j : (forall k, F k = G k) -> clamph F hi e j = clamph G hi e j.
Proof. intros H. unfold clamph. rewrite (rsum_ext F G e hi) by (intros; apply H). now rewrite H. Qed.

Lemma clampf_add F G lo e j :
  clampf (fun k => wadd (F k) (G k)) lo e j = wadd (clampf F lo e j) (clampf G lo e j).
Proof.
  unfold clampf. destruct (j <? e); [now rewrite wadd_0_l|]. destruct (j =? e); [apply rsum_add|reflexivity].
Qed.
Lemma clamph_add F G hi e j :
  clamph (fun k => wadd (F k) (G k)) hi e j = wadd (clamph F hi e j) (clamph G hi e j).
Proof.
  unfold clamph. destruct (e <? j); [now rewrite wadd_0_l|]. destruct (j =? e); [apply rsum_add|reflexivity].
Qed.

Lemma clampf_nonneg F lo e j : (forall k, (w0 <= F k)%Qc) -> (w0 <= clampf F lo e j)%Qc.
Proof.
  intros H. unfold clampf. destruct (j <? e); [apply wle_refl|]. destruct (j =? e); [now apply rsum_nonneg|apply H].
Qed.
Lemma clamph_nonneg F hi e j : (forall k, (w0 <= F k)%Qc) -> (w0 <= clamph F hi e j)%Qc.
Proof.
  intros H. unfold clamph. destruct (e <? j); [apply wle_refl|]. destruct (j =? e); [now apply rsum_nonneg|apply H].
Qed.

(* no folding when nothing lies beyond the edge *)
Lemma clampf_id F lo e m j :
  (forall k, k < m -> F k = w0) -> e <= m -> lo <= m -> clampf F lo e j = F j.
Proof.
  intros Hz He Hlo. unfold clampf. destruct (Z.ltb_spec j e) as [L|L]; [symmetry; apply Hz; lia|].
  destruct (Z.eqb_spec j e) as [->|N]; [|reflexivity].
  destruct (Z_le_dec lo e) as [Hle|Hgt].
  - rewrite (rsum_drop_low F e lo e) by (try lia; intros; apply Hz; lia). apply rsum_one.
  - rewrite rsum_nil by lia. symmetry. apply Hz. lia.
Qed.
Lemma clamph_id F hi e m j :
  (forall k, m < k -> F k = w0) -> m <= e -> m <= hi -> clamph F hi e j = F j.
Proof.
  intros Hz He Hhi. unfold clamph. destruct (Z.ltb_spec e j) as [L|L]; [symmetry; apply Hz; lia|].
  destruct (Z.eqb_spec j e) as [->|N]; [|reflexivity].
  destruct (Z_le_dec e hi) as [Hle|Hgt].
  - rewrite (rsum_drop_high F e e hi) by (try lia; intros; apply Hz; lia). apply rsum_one.
  - rewrite rsum_nil by lia. symmetry. apply Hz. lia.
Qed.

(* a point mass is sent to the nearest index inside the clamp *)
Lemma clampf_point i c lo e j :
  lo <= i -> clampf (fun k => if k =? i then c else w0) lo e j = if j =? Z.max i e then c else w0.
Proof.
  intros Hlo. unfold clampf. destruct (Z.ltb_spec j e) as [L|L].
  - destruct (Z.eqb_spec j (Z.max i e)); [lia|reflexivity].
  - destruct (Z.eqb_spec j e) as [->|N].
    + rewrite rsum_point. destruct ((lo <=? i) && (i <=? e)) eqn:E; destruct (Z.eqb_spec e (Z.max i e)); try reflexivity; lia.
    + destruct (Z.eqb_spec j i); destruct (Z.eqb_spec j (Z.max i e)); try reflexivity; lia.
Qed.
Lemma clamph_point i c hi e j :
  i <= hi -> clamph (fun k => if k =? i then c else w0) hi e j = if j =? Z.min i e then c else w0.
Proof.
  intros Hhi. unfold clamph. destruct (Z.ltb_spec e j) as [L|L].
  - destruct (Z.eqb_spec j (Z.min i e)); [lia|reflexivity].
  - destruct (Z.eqb_spec j e) as [->|N].
    + rewrite rsum_point. destruct ((e <=? i) && (i <=? hi)) eqn:E; destruct (Z.eqb_spec e (Z.min i e)); try reflexivity; lia.
    + destruct (Z.eqb_spec j i); destruct (Z.eqb_spec j (Z.min i e)); try reflexivity; lia.
Qed.

(* the clamp loses no weight *)
Lemma rsum_clampf F mn e mx :
  e <= mx -> mn <= mx -> rsum (clampf F mn e) (Z.max mn e) mx = rsum F mn mx.
Proof.
  intros He Hm. destruct (Z_le_dec e mn) as [L|G].
  - replace (Z.max mn e) with mn by lia. apply rsum_ext. intros i Hi. unfold clampf.
    destruct (Z.ltb_spec i e); [lia|]. destruct (Z.eqb_spec i e) as [->|N]; [|reflexivity].
    replace mn with e by lia. apply rsum_one.
  - replace (Z.max mn e) with e by lia.
    rewrite (rsum_split (clampf F mn e) e e mx) by lia. rewrite rsum_one.
    rewrite (rsum_split F mn e mx) by lia. f_equal.
    + unfold clampf. destruct (Z.ltb_spec e e); [lia|]. now rewrite Z.eqb_refl.
    + apply rsum_ext. intros i Hi. unfold clampf. destruct (Z.ltb_spec i e); [lia|].
      destruct (Z.eqb_spec i e); [lia|reflexivity].
Qed.
Lemma rsum_clamph F mn e mx :
  mn <= e -> mn <= mx -> rsum (clamph F mx e) mn (Z.min mx e) = rsum F mn mx.
Proof.
  intros He Hm. destruct (Z_le_dec mx e) as [L|G].
  - replace (Z.min mx e) with mx by lia. apply rsum_ext. intros i Hi. unfold clamph.
    destruct (Z.ltb_spec e i); [lia|]. destruct (Z.eqb_spec i e) as [->|N]; [|reflexivity].
    replace mx with e by lia. apply rsum_one.
  - replace (Z.min mx e) with e by lia.
    rewrite (rsum_split (clamph F mx e) mn (e - 1) e) by lia. replace (e - 1 + 1) with e by lia. rewrite rsum_one.
    rewrite (rsum_split F mn (e - 1) mx) by lia. replace (e - 1 + 1) with e by lia. f_equal.
    + apply rsum_ext. intros i Hi. unfold clamph. destruct (Z.ltb_spec e i); [lia|].
      destruct (Z.eqb_spec i e); [lia|reflexivity].
    + unfold clamph. destruct (Z.ltb_spec e e); [lia|]. now rewrite Z.eqb_refl.
Qed.

(* zero outside [max mn e, mx] / [mn, min mx e] *)
Lemma clampf_out F mn e mx j :
  (forall k, k < mn \/ mx < k -> F k = w0) -> e <= mx ->
  j < Z.max mn e \/ mx < j -> clampf F mn e j = w0.
Proof.
  intros Hz He Hj. unfold clampf. destruct (Z.ltb_spec j e) as [L|L]; [reflexivity|].
  destruct (Z.eqb_spec j e) as [->|N]; [|apply Hz; lia].
  apply rsum_nil. lia.
Qed.
Lemma clamph_out F mn e mx j :
  (forall k, k < mn \/ mx < k -> F k = w0) -> mn <= e ->
  j < mn \/ Z.min mx e < j -> clamph F mx e j = w0.
Proof.
  intros Hz He Hj. unfold clamph. destruct (Z.ltb_spec e j) as [L|L]; [reflexivity|].
  destruct (Z.eqb_spec j e) as [->|N]; [|apply Hz; lia].
  apply rsum_nil. lia.
Qed.

(* ---- link with Layer A ---- *)
Lemma cum_rsum (b : list (Z * W)) lo e :
  wf b = true -> (forall j, j < lo -> get b j = w0) -> cum b e = rsum (get b) lo e.
Proof.
  intros Hwf Hz. destruct (Z_lt_dec e lo) as [L|G].
  - rewrite rsum_nil by lia. unfold cum. apply gsum_get0; [|exact Hwf].
    intros j Hj. apply Hz. lia.
  - replace e with (lo - 1 + Z.of_nat (Z.to_nat (e - lo + 1))) by lia.
    induction (Z.to_nat (e - lo + 1)) as [|m IH].
    + rewrite rsum_nil by lia. unfold cum. apply gsum_get0; [|exact Hwf]. intros j Hj. apply Hz. lia.
    + rewrite cum_step by exact Hwf.
      replace (lo - 1 + Z.of_nat (S m) - 1) with (lo - 1 + Z.of_nat m) by lia. rewrite IH.
      rewrite (rsum_split (get b) lo (lo - 1 + Z.of_nat m) (lo - 1 + Z.of_nat (S m))) by lia.
      replace (lo - 1 + Z.of_nat m + 1) with (lo - 1 + Z.of_nat (S m)) by lia. now rewrite rsum_one.
Qed.
Lemma cum_up_rsum (b : list (Z * W)) hi e :
  wf b = true -> (forall j, hi < j -> get b j = w0) -> cum_up b e = rsum (get b) e hi.
Proof.
  intros Hwf Hz. destruct (Z_lt_dec hi e) as [L|G].
  - rewrite rsum_nil by lia. unfold cum_up. apply gsum_get0; [|exact Hwf].
    intros j Hj. apply Hz. lia.
  - replace e with (hi + 1 - Z.of_nat (Z.to_nat (hi - e + 1))) by lia.
    induction (Z.to_nat (hi - e + 1)) as [|m IH].
    + rewrite rsum_nil by lia. unfold cum_up. apply gsum_get0; [|exact Hwf]. intros j Hj. apply Hz. lia.
    + rewrite cum_up_step by exact Hwf.
      replace (hi + 1 - Z.of_nat (S m) + 1) with (hi + 1 - Z.of_nat m) by lia. rewrite IH.
      rewrite (rsum_split (get b) (hi + 1 - Z.of_nat (S m)) (hi + 1 - Z.of_nat (S m)) hi) by lia.
      replace (hi + 1 - Z.of_nat (S m) + 1) with (hi + 1 - Z.of_nat m) by lia. rewrite rsum_one. apply wadd_comm.
Qed.

Lemma get_clamp_low_f n (b : list (Z * W)) F mn mx j :
  wf b = true -> pos b -> (forall k, get b k = F k) ->
  F mx <> w0 -> (forall k, mx < k -> F k = w0) -> (forall k, k < mn -> F k = w0) ->
  get (clamp_low n b) j = clampf F mn (mx - n + 1) j.
Proof.
  intros Hwf Hp HF Hmx Habove Hbelow.
  assert (Hmax : max_key b = Some mx).
  { apply max_key_iff; [exact Hwf|]. split; [now rewrite HF|]. intros k Hk. rewrite HF. now apply Habove. }
  rewrite (get_clamp_low n b mx j Hwf Hp Hmax). cbv zeta. unfold clampf.
  rewrite (cum_rsum b mn) by (auto; intros k Hk; rewrite HF; now apply Hbelow).
  rewrite (rsum_ext (get b) F) by (intros; apply HF). now rewrite HF.
Qed.
Lemma get_clamp_high_f n (b : list (Z * W)) F mn mx j :
  wf b = true -> pos b -> (forall k, get b k = F k) ->
  F mn <> w0 -> (forall k, k < mn -> F k = w0) -> (forall k, mx < k -> F k = w0) ->
  get (clamp_high n b) j = clamph F mx (mn + n - 1) j.
Proof.
  intros Hwf Hp HF Hmn Hbelow Habove.
  assert (Hmin : min_key b = Some mn).
  { apply min_key_iff; [exact Hwf|]. split; [now rewrite HF|]. intros k Hk. rewrite HF. now apply Hbelow. }
  rewrite (get_clamp_high n b mn j Hwf Hp Hmin). cbv zeta. unfold clamph.
  rewrite (cum_up_rsum b mx) by (auto; intros k Hk; rewrite HF; now apply Habove).
  rewrite (rsum_ext (get b) F) by (intros; apply HF). now rewrite HF.
Qed.

(* a store whose cells are the clamp of F represents the clamp of any canonical list with content F *)
Lemma dabs_is_clamp_low n s2 (B : list (Z * W)) F mn mx :
  wf B = true -> pos B -> (forall k, get B k = F k) ->
  F mx <> w0 -> (forall k, mx < k -> F k = w0) -> (forall k, k < mn -> F k = w0) ->
  (forall j, get (dabs s2) j = clampf F mn (mx - n + 1) j) ->
  dabs s2 = clamp_low n B.
Proof.
  intros Hwf Hp HF Hmx Ha Hb Hg. apply BinsProofs.bins_ext; [apply dabs_wf|now apply wf_clamp_low|].
  intros j. rewrite Hg. symmetry. now apply get_clamp_low_f.
Qed.
Lemma dabs_is_clamp_high n s2 (B : list (Z * W)) F mn mx :
  wf B = true -> pos B -> (forall k, get B k = F k) ->
  F mn <> w0 -> (forall k, k < mn -> F k = w0) -> (forall k, mx < k -> F k = w0) ->
  (forall j, get (dabs s2) j = clamph F mx (mn + n - 1) j) ->
  dabs s2 = clamp_high n B.
Proof.
  intros Hwf Hp HF Hmn Hb Ha Hg. apply BinsProofs.bins_ext; [apply dabs_wf|now apply wf_clamp_high|].
  intros j. rewrite Hg. symmetry. now apply get_clamp_high_f.
Qed.

(* a content whose span fits is a fixpoint of the clamp *)
Lemma clamp_low_fix n s : 1 <= n -> CI n s -> clamp_low n (dabs s) = dabs s.
Proof.
  intros Hn C. destruct (w_eq_dec (count s) w0) as [E|N].
  - now rewrite (ci_dabs_empty n s C E).
  - symmetry. destruct (ci_win n s C N) as (W1 & W2 & W3). pose proof (ci_span n s C N) as Sp.
    apply (dabs_is_clamp_low n s (dabs s) (dget s) (minI s) (maxI s)).
    + apply dabs_wf.
    + now apply (ci_dabs_pos n).
    + intros k. now apply (ci_get_dabs n).
    + apply wlt_neq. apply (ci_ends n s C N).
    + intros k Hk. apply (ci_out n s C). lia.
    + intros k Hk. apply (ci_out n s C). lia.
    + intros j. rewrite (ci_get_dabs n s C). symmetry. apply (clampf_id _ _ _ (minI s)); try lia.
      intros k Hk. apply (ci_out n s C). lia.
Qed.
Lemma clamp_high_fix n s : 1 <= n -> CI n s -> clamp_high n (dabs s) = dabs s.
Proof.
  intros Hn C. destruct (w_eq_dec (count s) w0) as [E|N].
  - now rewrite (ci_dabs_empty n s C E).
  - symmetry. destruct (ci_win n s C N) as (W1 & W2 & W3). pose proof (ci_span n s C N) as Sp.
    apply (dabs_is_clamp_high n s (dabs s) (dget s) (minI s) (maxI s)).
    + apply dabs_wf.
    + now apply (ci_dabs_pos n).
    + intros k. now apply (ci_get_dabs n).
    + apply wlt_neq. apply (ci_ends n s C N).
    + intros k Hk. apply (ci_out n s C). lia.
    + intros k Hk. apply (ci_out n s C). lia.
    + intros j. rewrite (ci_get_dabs n s C). symmetry. apply (clamph_id _ _ _ (maxI s)); try lia.
      intros k Hk. apply (ci_out n s C). lia.
Qed.
