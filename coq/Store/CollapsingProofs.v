(* Refinement proofs for the two collapsing dense stores (lim = Lowest n / Highest n) of
   Store/Dense.v against Layer A (Spec/Bins.v): clamp_low / clamp_high.  Stdlib only, axiom-free.
     Part 0  glue between Spec/BinsProofs.v and Store/DenseProofs.v, range sums
     Part 1  invariant CI (shared by the two kinds), the view [as_exact]
     Part 2  clampf / clamph: the clamp as a function on contents, link with clamp_low / clamp_high
     Part 3  Lowest: adjust, extend_range, normalize, add, merge, histories
     Part 4  Highest: mirror
     Part 5  observers, reweight, clear (both kinds)
   fixD1 = true everywhere (the current Go code); the legacy behaviour is only refuted by example. *)
From SK Require Import Store.Dense Spec.BinsProofs Store.DenseProofs.
From Coq Require Import ZifyBool ZifyNat Lqa.
Local Open Scope Z_scope.

(* ================================================================== *)
(* Part 0: glue                                                        *)
(* ================================================================== *)

Lemma pos_of_posb (b : list (Z * W)) : DenseProofs.posb b -> BinsProofs.pos b.
Proof. intros H. apply Forall_forall. intros [k w] Hi. cbn [snd]. now apply (H k). Qed.
Lemma tab_pos' f a b : (forall i, (w0 <= f i)%Qc) -> BinsProofs.pos (tab f a b).
Proof. intros H. apply pos_of_posb. now apply tab_pos. Qed.

Lemma rsum_drop_low f a a' b :
  a' <= a -> a <= b + 1 -> (forall i, a' <= i < a -> f i = w0) -> rsum f a' b = rsum f a b.
Proof.
  intros H1 H2 Hz. rewrite (rsum_split f a' (a - 1) b) by lia. replace (a - 1 + 1) with a by lia.
  rewrite (rsum_zero f a' (a - 1)) by (intros; apply Hz; lia). apply wadd_0_l.
Qed.
Lemma rsum_drop_high f a b b' :
  b <= b' -> a <= b + 1 -> (forall i, b < i <= b' -> f i = w0) -> rsum f a b' = rsum f a b.
Proof.
  intros H1 H2 Hz. rewrite (rsum_split f a b b') by lia.
  rewrite (rsum_zero f (b + 1) b') by (intros; apply Hz; lia). apply wadd_0_r.
Qed.
Lemma rsum_point i c a b :
  rsum (fun k => if k =? i then c else w0) a b = if (a <=? i) && (i <=? b) then c else w0.
Proof.
  destruct ((a <=? i) && (i <=? b)) eqn:E.
  - rewrite (rsum_drop_low _ i a b) by (first [lia | intros k Hk; destruct (Z.eqb_spec k i); [lia|reflexivity]]).
    rewrite (rsum_drop_high _ i i b) by (first [lia | intros k Hk; destruct (Z.eqb_spec k i); [lia|reflexivity]]).
    rewrite rsum_one. now rewrite Z.eqb_refl.
  - apply rsum_zero. intros k Hk. destruct (Z.eqb_spec k i); [lia|reflexivity].
Qed.
Lemma rsum_ge_term f a b k :
  (forall i, (w0 <= f i)%Qc) -> a <= k <= b -> (f k <= rsum f a b)%Qc.
Proof.
  intros Hn Hk. rewrite (rsum_split f a (k - 1) b) by lia. replace (k - 1 + 1) with k by lia.
  rewrite (rsum_split f k k b) by lia. rewrite rsum_one.
  pose proof (rsum_nonneg f a (k - 1) Hn). pose proof (rsum_nonneg f (k + 1) b Hn).
  generalize dependent (rsum f a (k - 1)). generalize dependent (rsum f (k + 1) b). generalize (f k).
  intros x y Hy z Hz. wlra.
Qed.
Lemma rsum_pos_at f a b k :
  (forall i, (w0 <= f i)%Qc) -> a <= k <= b -> (w0 < f k)%Qc -> (w0 < rsum f a b)%Qc.
Proof.
  intros Hn Hk Hp. pose proof (rsum_ge_term f a b k Hn Hk) as H.
  generalize dependent (rsum f a b). generalize dependent (f k). intros x Hx y Hy. wlra.
Qed.

(* ---- slices of slices ---- *)
Lemma firstn_slice l lo n k :
  0 <= lo -> 0 <= k <= n -> lo + n <= zlen l -> firstn (Z.to_nat k) (slice l lo n) = slice l lo k.
Proof.
  intros Hlo Hk Hl. apply list_ext_at.
  - rewrite zlen_firstn, !zlen_slice by lia. lia.
  - intros j Hj. rewrite zlen_firstn, zlen_slice in Hj by lia. rewrite at_firstn, !at_slice by lia.
    destruct (Z.ltb_spec j (Z.of_nat (Z.to_nat k))); destruct ((0 <=? j) && (j <? n)) eqn:E1;
      destruct ((0 <=? j) && (j <? k)) eqn:E2; try reflexivity; lia.
Qed.
Lemma skipn_slice l lo n k :
  0 <= lo -> 0 <= k <= n -> lo + n <= zlen l -> skipn (Z.to_nat k) (slice l lo n) = slice l (lo + k) (n - k).
Proof.
  intros Hlo Hk Hl. apply list_ext_at.
  - rewrite zlen_skipn, !zlen_slice by lia. lia.
  - intros j Hj. rewrite zlen_skipn, zlen_slice in Hj by lia.
    rewrite at_skipn, !at_slice by lia.
    destruct ((0 <=? Z.of_nat (Z.to_nat k) + j) && (Z.of_nat (Z.to_nat k) + j <? n)) eqn:E1;
      destruct ((0 <=? j) && (j <? n - k)) eqn:E2; try reflexivity; try lia. f_equal. lia.
Qed.
Lemma sumW_slice_rsum l lo n :
  0 <= lo -> 0 <= n -> lo + n <= zlen l -> sumW (slice l lo n) = rsum (at_ l) lo (lo + n - 1).
Proof. intros. unfold rsum. now apply sumW_slice. Qed.

(* ---- shift_counts / center_counts leave the flags alone ---- *)
Lemma reset_bins_collapsed s a b s' : reset_bins s a b = Some s' -> collapsed s' = collapsed s.
Proof. unfold reset_bins. destruct (_ && _); [discriminate|]. intros E. inversion E. reflexivity. Qed.
Lemma shift_counts_collapsed s k s' : shift_counts s k = Some s' -> collapsed s' = collapsed s.
Proof.
  unfold shift_counts. destruct (_ || _ || _ || _ || _); [discriminate|]. cbv zeta.
  destruct (0 <? k).
  - destruct (reset_bins _ _ _) as [s2|] eqn:E; [|discriminate]. intros H. inversion H.
    apply reset_bins_collapsed in E. cbn [with_offset collapsed]. rewrite E. reflexivity.
  - destruct (reset_bins _ _ _) as [s2|] eqn:E; [|discriminate]. intros H. inversion H.
    apply reset_bins_collapsed in E. cbn [with_offset collapsed]. rewrite E. reflexivity.
Qed.
Lemma center_counts_collapsed s lo hi s' : center_counts s lo hi = Some s' -> collapsed s' = collapsed s.
Proof.
  unfold center_counts. destruct (shift_counts _ _) as [s1|] eqn:E; [|discriminate].
  intros H. inversion H. cbn [with_range collapsed]. now apply shift_counts_collapsed in E.
Qed.

(* ================================================================== *)
(* Part 1: the invariant                                               *)
(* ================================================================== *)

(* the same cells seen as a plain dense store: every observer of Dense.v that does not look at
   [lim] / [collapsed] (window, foreach, key_at_rank_d, reweight_d, observers, dabs) is unchanged *)
Definition as_exact (s : dense) : dense :=
  {| bins := bins s; count := count s; offset := offset s; minI := minI s; maxI := maxI s;
     lim := Exact; collapsed := collapsed s |}.

(* CI n s: the representation invariant of a collapsing store of capacity n (either kind):
     - the plain-store invariant on the cells (cells >= 0, zero outside [minI, maxI], count = sum of
       the window, sentinels when empty, window inside the array and positive at both ends when
       non-empty, int32 indexes);
     - THE MEMORY BOUND len s <= n (hence the span bound maxI - minI + 1 <= n);
     - an empty store has a zero-length array (Go: Clear truncates bins to [:0]) and is not collapsed;
     - a collapsed store uses the whole capacity and its window is exactly the array. *)
Record CI (n : Z) (s : dense) : Prop := {
  ci_inv : Inv (as_exact s);
  ci_len : len s <= n;
  ci_empty : count s = w0 -> len s = 0 /\ collapsed s = false;
  ci_coll : collapsed s = true -> len s = n /\ offset s = minI s /\ maxI s = minI s + n - 1 }.

Section CIfacts.
Variable n : Z.
Variable s : dense.
Hypothesis C : CI n s.
Lemma ci_nonneg : forall i, (w0 <= dget s i)%Qc.
Proof. exact (inv_nonneg _ (ci_inv n s C)). Qed.
Lemma ci_out : forall i, i < minI s \/ maxI s < i -> dget s i = w0.
Proof. exact (inv_out _ (ci_inv n s C)). Qed.
Lemma ci_count : count s = rsum (dget s) (minI s) (maxI s).
Proof. exact (inv_count _ (ci_inv n s C)). Qed.
Lemma ci_sentinel : count s = w0 -> minI s = MaxInt32 /\ maxI s = MinInt32.
Proof. exact (inv_empty _ (ci_inv n s C)). Qed.
Lemma ci_win : count s <> w0 -> offset s <= minI s /\ minI s <= maxI s /\ maxI s < offset s + len s.
Proof. exact (inv_win _ (ci_inv n s C)). Qed.
Lemma ci_ends : count s <> w0 -> (w0 < dget s (minI s))%Qc /\ (w0 < dget s (maxI s))%Qc.
Proof. exact (inv_ends _ (ci_inv n s C)). Qed.
Lemma ci_idx : count s <> w0 -> idx_ok (minI s) /\ idx_ok (maxI s).
Proof. exact (inv_idx _ (ci_inv n s C)). Qed.
Lemma ci_all_zero : count s = w0 -> forall i, dget s i = w0.
Proof. exact (Inv_all_zero _ (ci_inv n s C)). Qed.
Lemma ci_count_nonneg : (w0 <= count s)%Qc.
Proof. exact (Inv_count_nonneg _ (ci_inv n s C)). Qed.
Lemma ci_nonempty_iff : count s <> w0 <-> minI s <= maxI s.
Proof. exact (Inv_nonempty_iff _ (ci_inv n s C)). Qed.
Lemma ci_get_dabs i : get (dabs s) i = dget s i.
Proof. exact (get_dabs _ i (ci_inv n s C)). Qed.
Lemma ci_dabs_pos : BinsProofs.pos (dabs s).
Proof. apply tab_pos'. exact ci_nonneg. Qed.
Lemma ci_dabs_empty : count s = w0 -> dabs s = [].
Proof. exact (dabs_empty _ (ci_inv n s C)). Qed.
(* THE SPAN BOUND *)
Lemma ci_span : count s <> w0 -> maxI s - minI s + 1 <= n.
Proof. intros N. destruct (ci_win N) as (H1 & H2 & H3). pose proof (ci_len n s C). lia. Qed.
Lemma ci_count_bins : count s = sumW (bins s).
Proof. exact (Inv_count_bins _ (ci_inv n s C)). Qed.
End CIfacts.

Lemma CI_new n l : 0 <= n -> CI n (new_dense l).
Proof.
  intros Hn. constructor.
  - exact Inv_new.
  - unfold len. cbn [new_dense bins]. rewrite zlen_nil. exact Hn.
  - intros _. split; reflexivity.
  - cbn [new_dense collapsed]. discriminate.
Qed.
Lemma CI_clear n s : 0 <= n -> CI n (clear_d s).
Proof.
  intros Hn. constructor.
  - exact (Inv_clear (as_exact s) eq_refl).
  - unfold len. cbn [clear_d bins]. rewrite zlen_nil. exact Hn.
  - intros _. split; reflexivity.
  - cbn [clear_d collapsed]. discriminate.
Qed.

(* ================================================================== *)
(* Part 2: the clamp as a function on contents                         *)
(* ================================================================== *)

(* clampf F lo e: fold everything below e into e (F vanishes below lo);
   clamph F hi e: fold everything above e into e (F vanishes above hi) *)
Definition clampf (F : Z -> W) (lo e j : Z) : W :=
  if j <? e then w0 else if j =? e then rsum F lo e else F j.
Definition clamph (F : Z -> W) (hi e j : Z) : W :=
  if e <? j then w0 else if j =? e then rsum F e hi else F j.

Lemma clampf_ext F G lo e j : (forall k, F k = G k) -> clampf F lo e j = clampf G lo e j.
Proof. intros H. unfold clampf. rewrite (rsum_ext F G lo e) by (intros; apply H). now rewrite H. Qed.
Lemma clamph_ext F G hi e j : (forall k, F k = G k) -> clamph F hi e j = clamph G hi e j.
Proof. intros H. unfold clamph. rewrite (rsum_ext F G e hi) by (intros; apply H). now rewrite H. Qed.

Lemma clampf_add F G lo e j :
  clampf (fun k => wadd (F k) (G k)) lo e j = wadd (clampf F lo e j) (clampf G lo e j).
Proof.
  unfold clampf. destruct (j <? e); [now rewrite wadd_0_l|]. destruct (j =? e); [apply rsum_add|reflexivity].
Qed.
Lemma clamph_add F G hi e j :
  clamph (fun k => wadd (F k) (G k)) hi e j = wadd (clamph F hi e j) (clamph G hi e j).
Proof.
  unfold clamph. destruct (e <? j); [now rewrite wadd_0_l|]. destruct (j =? e); [apply rsum_add|reflexivity].
Qed.

Lemma clampf_nonneg F lo e j : (forall k, (w0 <= F k)%Qc) -> (w0 <= clampf F lo e j)%Qc.
Proof.
  intros H. unfold clampf. destruct (j <? e); [apply wle_refl|]. destruct (j =? e); [now apply rsum_nonneg|apply H].
Qed.
Lemma clamph_nonneg F hi e j : (forall k, (w0 <= F k)%Qc) -> (w0 <= clamph F hi e j)%Qc.
Proof.
  intros H. unfold clamph. destruct (e <? j); [apply wle_refl|]. destruct (j =? e); [now apply rsum_nonneg|apply H].
Qed.

(* no folding when nothing lies beyond the edge *)
Lemma clampf_id F lo e m j :
  (forall k, k < m -> F k = w0) -> e <= m -> lo <= m -> clampf F lo e j = F j.
Proof.
  intros Hz He Hlo. unfold clampf. destruct (Z.ltb_spec j e) as [L|L]; [symmetry; apply Hz; lia|].
  destruct (Z.eqb_spec j e) as [->|N]; [|reflexivity].
  destruct (Z_le_dec lo e) as [Hle|Hgt].
  - rewrite (rsum_drop_low F e lo e) by (try lia; intros; apply Hz; lia). apply rsum_one.
  - rewrite rsum_nil by lia. symmetry. apply Hz. lia.
Qed.
Lemma clamph_id F hi e m j :
  (forall k, m < k -> F k = w0) -> m <= e -> m <= hi -> clamph F hi e j = F j.
Proof.
  intros Hz He Hhi. unfold clamph. destruct (Z.ltb_spec e j) as [L|L]; [symmetry; apply Hz; lia|].
  destruct (Z.eqb_spec j e) as [->|N]; [|reflexivity].
  destruct (Z_le_dec e hi) as [Hle|Hgt].
  - rewrite (rsum_drop_high F e e hi) by (try lia; intros; apply Hz; lia). apply rsum_one.
  - rewrite rsum_nil by lia. symmetry. apply Hz. lia.
Qed.

(* a point mass is sent to the nearest index inside the clamp *)
Lemma clampf_point i c lo e j :
  lo <= i -> clampf (fun k => if k =? i then c else w0) lo e j = if j =? Z.max i e then c else w0.
Proof.
  intros Hlo. unfold clampf. destruct (Z.ltb_spec j e) as [L|L].
  - destruct (Z.eqb_spec j (Z.max i e)); [lia|reflexivity].
  - destruct (Z.eqb_spec j e) as [->|N].
    + rewrite rsum_point. destruct ((lo <=? i) && (i <=? e)) eqn:E; destruct (Z.eqb_spec e (Z.max i e)); try reflexivity; lia.
    + destruct (Z.eqb_spec j i); destruct (Z.eqb_spec j (Z.max i e)); try reflexivity; lia.
Qed.
Lemma clamph_point i c hi e j :
  i <= hi -> clamph (fun k => if k =? i then c else w0) hi e j = if j =? Z.min i e then c else w0.
Proof.
  intros Hhi. unfold clamph. destruct (Z.ltb_spec e j) as [L|L].
  - destruct (Z.eqb_spec j (Z.min i e)); [lia|reflexivity].
  - destruct (Z.eqb_spec j e) as [->|N].
    + rewrite rsum_point. destruct ((e <=? i) && (i <=? hi)) eqn:E; destruct (Z.eqb_spec e (Z.min i e)); try reflexivity; lia.
    + destruct (Z.eqb_spec j i); destruct (Z.eqb_spec j (Z.min i e)); try reflexivity; lia.
Qed.

(* the clamp loses no weight *)
Lemma rsum_clampf F mn e mx :
  e <= mx -> mn <= mx -> rsum (clampf F mn e) (Z.max mn e) mx = rsum F mn mx.
Proof.
  intros He Hm. destruct (Z_le_dec e mn) as [L|G].
  - replace (Z.max mn e) with mn by lia. apply rsum_ext. intros i Hi. unfold clampf.
    destruct (Z.ltb_spec i e); [lia|]. destruct (Z.eqb_spec i e) as [->|N]; [|reflexivity].
    replace mn with e by lia. apply rsum_one.
  - replace (Z.max mn e) with e by lia.
    rewrite (rsum_split (clampf F mn e) e e mx) by lia. rewrite rsum_one.
    rewrite (rsum_split F mn e mx) by lia. f_equal.
    + unfold clampf. destruct (Z.ltb_spec e e); [lia|]. now rewrite Z.eqb_refl.
    + apply rsum_ext. intros i Hi. unfold clampf. destruct (Z.ltb_spec i e); [lia|].
      destruct (Z.eqb_spec i e); [lia|reflexivity].
Qed.
Lemma rsum_clamph F mn e mx :
  mn <= e -> mn <= mx -> rsum (clamph F mx e) mn (Z.min mx e) = rsum F mn mx.
Proof.
  intros He Hm. destruct (Z_le_dec mx e) as [L|G].
  - replace (Z.min mx e) with mx by lia. apply rsum_ext. intros i Hi. unfold clamph.
    destruct (Z.ltb_spec e i); [lia|]. destruct (Z.eqb_spec i e) as [->|N]; [|reflexivity].
    replace mx with e by lia. apply rsum_one.
  - replace (Z.min mx e) with e by lia.
    rewrite (rsum_split (clamph F mx e) mn (e - 1) e) by lia. replace (e - 1 + 1) with e by lia. rewrite rsum_one.
    rewrite (rsum_split F mn (e - 1) mx) by lia. replace (e - 1 + 1) with e by lia. f_equal.
    + apply rsum_ext. intros i Hi. unfold clamph. destruct (Z.ltb_spec e i); [lia|].
      destruct (Z.eqb_spec i e); [lia|reflexivity].
    + unfold clamph. destruct (Z.ltb_spec e e); [lia|]. now rewrite Z.eqb_refl.
Qed.

(* zero outside [max mn e, mx] / [mn, min mx e] *)
Lemma clampf_out F mn e mx j :
  (forall k, k < mn \/ mx < k -> F k = w0) -> e <= mx ->
  j < Z.max mn e \/ mx < j -> clampf F mn e j = w0.
Proof.
  intros Hz He Hj. unfold clampf. destruct (Z.ltb_spec j e) as [L|L]; [reflexivity|].
  destruct (Z.eqb_spec j e) as [->|N]; [|apply Hz; lia].
  apply rsum_nil. lia.
Qed.
Lemma clamph_out F mn e mx j :
  (forall k, k < mn \/ mx < k -> F k = w0) -> mn <= e ->
  j < mn \/ Z.min mx e < j -> clamph F mx e j = w0.
Proof.
  intros Hz He Hj. unfold clamph. destruct (Z.ltb_spec e j) as [L|L]; [reflexivity|].
  destruct (Z.eqb_spec j e) as [->|N]; [|apply Hz; lia].
  apply rsum_nil. lia.
Qed.

(* ---- link with Layer A ---- *)
Lemma cum_rsum (b : list (Z * W)) lo e :
  wf b = true -> (forall j, j < lo -> get b j = w0) -> cum b e = rsum (get b) lo e.
Proof.
  intros Hwf Hz. destruct (Z_lt_dec e lo) as [L|G].
  - rewrite rsum_nil by lia. unfold cum. apply gsum_get0; [|exact Hwf].
    intros j Hj. apply Hz. lia.
  - replace e with (lo - 1 + Z.of_nat (Z.to_nat (e - lo + 1))) by lia.
    induction (Z.to_nat (e - lo + 1)) as [|m IH].
    + rewrite rsum_nil by lia. unfold cum. apply gsum_get0; [|exact Hwf]. intros j Hj. apply Hz. lia.
    + rewrite cum_step by exact Hwf.
      replace (lo - 1 + Z.of_nat (S m) - 1) with (lo - 1 + Z.of_nat m) by lia. rewrite IH.
      rewrite (rsum_split (get b) lo (lo - 1 + Z.of_nat m) (lo - 1 + Z.of_nat (S m))) by lia.
      replace (lo - 1 + Z.of_nat m + 1) with (lo - 1 + Z.of_nat (S m)) by lia. now rewrite rsum_one.
Qed.
Lemma cum_up_rsum (b : list (Z * W)) hi e :
  wf b = true -> (forall j, hi < j -> get b j = w0) -> cum_up b e = rsum (get b) e hi.
Proof.
  intros Hwf Hz. destruct (Z_lt_dec hi e) as [L|G].
  - rewrite rsum_nil by lia. unfold cum_up. apply gsum_get0; [|exact Hwf].
    intros j Hj. apply Hz. lia.
  - replace e with (hi + 1 - Z.of_nat (Z.to_nat (hi - e + 1))) by lia.
    induction (Z.to_nat (hi - e + 1)) as [|m IH].
    + rewrite rsum_nil by lia. unfold cum_up. apply gsum_get0; [|exact Hwf]. intros j Hj. apply Hz. lia.
    + rewrite cum_up_step by exact Hwf.
      replace (hi + 1 - Z.of_nat (S m) + 1) with (hi + 1 - Z.of_nat m) by lia. rewrite IH.
      rewrite (rsum_split (get b) (hi + 1 - Z.of_nat (S m)) (hi + 1 - Z.of_nat (S m)) hi) by lia.
      replace (hi + 1 - Z.of_nat (S m) + 1) with (hi + 1 - Z.of_nat m) by lia. rewrite rsum_one. apply wadd_comm.
Qed.

Lemma get_clamp_low_f n (b : list (Z * W)) F mn mx j :
  wf b = true -> pos b -> (forall k, get b k = F k) ->
  F mx <> w0 -> (forall k, mx < k -> F k = w0) -> (forall k, k < mn -> F k = w0) ->
  get (clamp_low n b) j = clampf F mn (mx - n + 1) j.
Proof.
  intros Hwf Hp HF Hmx Habove Hbelow.
  assert (Hmax : max_key b = Some mx).
  { apply max_key_iff; [exact Hwf|]. split; [now rewrite HF|]. intros k Hk. rewrite HF. now apply Habove. }
  rewrite (get_clamp_low n b mx j Hwf Hp Hmax). cbv zeta. unfold clampf.
  rewrite (cum_rsum b mn) by (auto; intros k Hk; rewrite HF; now apply Hbelow).
  rewrite (rsum_ext (get b) F) by (intros; apply HF). now rewrite HF.
Qed.
Lemma get_clamp_high_f n (b : list (Z * W)) F mn mx j :
  wf b = true -> pos b -> (forall k, get b k = F k) ->
  F mn <> w0 -> (forall k, k < mn -> F k = w0) -> (forall k, mx < k -> F k = w0) ->
  get (clamp_high n b) j = clamph F mx (mn + n - 1) j.
Proof.
  intros Hwf Hp HF Hmn Hbelow Habove.
  assert (Hmin : min_key b = Some mn).
  { apply min_key_iff; [exact Hwf|]. split; [now rewrite HF|]. intros k Hk. rewrite HF. now apply Hbelow. }
  rewrite (get_clamp_high n b mn j Hwf Hp Hmin). cbv zeta. unfold clamph.
  rewrite (cum_up_rsum b mx) by (auto; intros k Hk; rewrite HF; now apply Habove).
  rewrite (rsum_ext (get b) F) by (intros; apply HF). now rewrite HF.
Qed.

(* a store whose cells are the clamp of F represents the clamp of any canonical list with content F *)
Lemma dabs_is_clamp_low n s2 (B : list (Z * W)) F mn mx :
  wf B = true -> pos B -> (forall k, get B k = F k) ->
  F mx <> w0 -> (forall k, mx < k -> F k = w0) -> (forall k, k < mn -> F k = w0) ->
  (forall j, get (dabs s2) j = clampf F mn (mx - n + 1) j) ->
  dabs s2 = clamp_low n B.
Proof.
  intros Hwf Hp HF Hmx Ha Hb Hg. apply BinsProofs.bins_ext; [apply dabs_wf|now apply wf_clamp_low|].
  intros j. rewrite Hg. symmetry. now apply get_clamp_low_f.
Qed.
Lemma dabs_is_clamp_high n s2 (B : list (Z * W)) F mn mx :
  wf B = true -> pos B -> (forall k, get B k = F k) ->
  F mn <> w0 -> (forall k, k < mn -> F k = w0) -> (forall k, mx < k -> F k = w0) ->
  (forall j, get (dabs s2) j = clamph F mx (mn + n - 1) j) ->
  dabs s2 = clamp_high n B.
Proof.
  intros Hwf Hp HF Hmn Hb Ha Hg. apply BinsProofs.bins_ext; [apply dabs_wf|now apply wf_clamp_high|].
  intros j. rewrite Hg. symmetry. now apply get_clamp_high_f.
Qed.

(* a content whose span fits is a fixpoint of the clamp *)
Lemma clamp_low_fix n s : 1 <= n -> CI n s -> clamp_low n (dabs s) = dabs s.
Proof.
  intros Hn C. destruct (w_eq_dec (count s) w0) as [E|N].
  - now rewrite (ci_dabs_empty n s C E).
  - symmetry. destruct (ci_win n s C N) as (W1 & W2 & W3). pose proof (ci_span n s C N) as Sp.
    apply (dabs_is_clamp_low n s (dabs s) (dget s) (minI s) (maxI s)).
    + apply dabs_wf.
    + now apply (ci_dabs_pos n).
    + intros k. now apply (ci_get_dabs n).
    + apply wlt_neq. apply (ci_ends n s C N).
    + intros k Hk. apply (ci_out n s C). lia.
    + intros k Hk. apply (ci_out n s C). lia.
    + intros j. rewrite (ci_get_dabs n s C). symmetry. apply (clampf_id _ _ _ (minI s)); try lia.
      intros k Hk. apply (ci_out n s C). lia.
Qed.
Lemma clamp_high_fix n s : 1 <= n -> CI n s -> clamp_high n (dabs s) = dabs s.
Proof.
  intros Hn C. destruct (w_eq_dec (count s) w0) as [E|N].
  - now rewrite (ci_dabs_empty n s C E).
  - symmetry. destruct (ci_win n s C N) as (W1 & W2 & W3). pose proof (ci_span n s C N) as Sp.
    apply (dabs_is_clamp_high n s (dabs s) (dget s) (minI s) (maxI s)).
    + apply dabs_wf.
    + now apply (ci_dabs_pos n).
    + intros k. now apply (ci_get_dabs n).
    + apply wlt_neq. apply (ci_ends n s C N).
    + intros k Hk. apply (ci_out n s C). lia.
    + intros k Hk. apply (ci_out n s C). lia.
    + intros j. rewrite (ci_get_dabs n s C). symmetry. apply (clamph_id _ _ _ (maxI s)); try lia.
      intros k Hk. apply (ci_out n s C). lia.
Qed.

(* ================================================================== *)
(* Part 3: the lowest-collapsing store                                 *)
(* ================================================================== *)

Ltac cproj := cbn [with_range with_offset with_bins with_count with_collapsed bins offset minI maxI count lim collapsed].
Tactic Notation "cproj" "in" hyp(H) := cbn [with_range with_offset with_bins with_count with_collapsed bins offset minI maxI count lim collapsed] in H.
Ltac cred := unfold len, dget;
  cbn [with_range with_offset with_bins with_count with_collapsed bins offset minI maxI count lim collapsed].

Lemma rsum_from_low f m a b : (forall i, a <= i < m -> f i = w0) -> a <= m -> rsum f a b = rsum f m b.
Proof.
  intros Hz Ha. destruct (Z_le_dec m (b + 1)) as [L|G].
  - apply rsum_drop_low; try lia. intros; apply Hz; lia.
  - rewrite (rsum_nil f m b) by lia. apply rsum_zero. intros; apply Hz; lia.
Qed.
Lemma rsum_to_high f m a b : (forall i, m < i <= b -> f i = w0) -> m <= b -> rsum f a b = rsum f a m.
Proof.
  intros Hz Hb. destruct (Z_le_dec a (m + 1)) as [L|G].
  - apply rsum_drop_high; try lia. intros; apply Hz; lia.
  - rewrite (rsum_nil f a m) by lia. apply rsum_zero. intros; apply Hz; lia.
Qed.

Lemma sum_range_spec s a b :
  (b < a \/ (offset s <= a /\ b < offset s + len s)) -> sum_range s a b = Some (rsum (dget s) a b).
Proof.
  intros H. unfold sum_range. destruct (Z.ltb_spec b a) as [L|L]; [now rewrite rsum_nil|].
  assert (Hb : in_bounds s (a - offset s) && in_bounds s (b - offset s) = true) by (unfold in_bounds; lia).
  rewrite Hb. f_equal. rewrite sumW_slice_rsum by (unfold len in *; lia).
  rewrite <- (rsum_shift (at_ (bins s)) (offset s)).
  replace (a - offset s + offset s) with a by lia.
  replace (a - offset s + (b - a + 1) - 1 + offset s) with b by lia. reflexivity.
Qed.
Lemma reset_bins_spec s a b :
  (b < a \/ (offset s <= a /\ b < offset s + len s)) ->
  reset_bins s a b = Some (with_bins s (reset (bins s) (a - offset s) (b - offset s))).
Proof. intros H. unfold reset_bins. destruct (_ && _) eqn:E; [lia|reflexivity]. Qed.
Lemma dget_reset s a b i :
  (b < a \/ (offset s <= a /\ b < offset s + len s)) ->
  dget (with_bins s (reset (bins s) (a - offset s) (b - offset s))) i =
  if (a <=? i) && (i <=? b) then w0 else dget s i.
Proof.
  intros H. unfold dget. cbn [with_bins bins offset]. destruct (Z_lt_dec b a) as [L|L].
  - unfold reset, map_range. destruct (Z.ltb_spec (b - offset s) (a - offset s)); [|lia].
    destruct (_ && _) eqn:E; [lia|reflexivity].
  - rewrite at_reset by (unfold len in *; lia).
    destruct ((a - offset s <=? i - offset s) && (i - offset s <=? b - offset s)) eqn:E1;
      destruct ((a <=? i) && (i <=? b)) eqn:E2; try reflexivity; lia.
Qed.

Lemma adjust_lowest_collapse s lo hi :
  count s <> w0 ->
  (forall i, i < minI s \/ maxI s < i -> dget s i = w0) ->
  count s = rsum (dget s) (minI s) (maxI s) ->
  offset s <= minI s -> minI s <= maxI s -> maxI s < offset s + len s ->
  lo <= minI s -> maxI s <= hi -> len s < hi - lo + 1 ->
  exists s', adjust_lowest true s lo hi = Some s' /\
    (forall j, dget s' j = clampf (dget s) lo (hi - len s + 1) j) /\
    len s' = len s /\ offset s' = hi - len s + 1 /\ minI s' = hi - len s + 1 /\ maxI s' = hi /\
    count s' = count s /\ lim s' = lim s /\ collapsed s' = true.
Proof.
  intros N Hout Hcnt W1 W2 W3 Hlo Hhi Hlen. unfold adjust_lowest.
  destruct (Z.ltb_spec (len s) (hi - lo + 1)) as [_|X]; [|lia]. cbv zeta.
  remember (hi - len s + 1) as e eqn:Ee.
  assert (Em : is_empty s = false) by now apply is_empty_false. rewrite Em. cbn [andb]. rewrite Bool.orb_false_r.
  destruct (Z.leb_spec (maxI s) e) as [B1|B1].
  - (* a single bucket *)
    destruct (Z.eqb_spec (len s) 0) as [Z0|_]; [lia|]. eexists. split; [reflexivity|].
    split; [|cred; rewrite zlen_setw, zlen_zeros; unfold len in *; repeat split; try reflexivity; lia].
    intros j. unfold dget at 1. cbn [with_range with_offset with_bins with_collapsed bins offset].
    rewrite at_setw by (rewrite zlen_zeros; unfold len in *; lia). rewrite at_zeros.
    unfold clampf. destruct (Z.ltb_spec j e) as [L|L].
    + destruct (Z.eqb_spec (j - e) 0); [lia|reflexivity].
    + destruct (Z.eqb_spec j e) as [->|Nj].
      * rewrite Z.sub_diag. cbn [Z.eqb]. rewrite Hcnt.
        rewrite (rsum_drop_low (dget s) (minI s) lo e) by (try lia; intros; apply Hout; lia).
        symmetry. apply rsum_drop_high; try lia. intros; apply Hout; lia.
      * destruct (Z.eqb_spec (j - e) 0); [lia|]. symmetry. apply Hout. lia.
  - destruct (Z.ltb_spec (offset s - e) 0) as [B2|B2].
    + (* collapse the buckets below e, then shift left *)
      rewrite sum_range_spec by lia. rewrite reset_bins_spec by lia.
      set (s1 := with_bins s (reset (bins s) (minI s - offset s) (e - 1 - offset s))).
      assert (Hl1 : len s1 = len s) by (unfold s1, len; cbn [with_bins bins]; apply zlen_reset).
      assert (Ho1 : offset s1 = offset s) by reflexivity.
      assert (Hb : in_bounds s1 (e - offset s1) = true) by (unfold in_bounds; rewrite Hl1, Ho1; lia).
      rewrite Hb.
      set (nn := rsum (dget s) (minI s) (e - 1)).
      set (s2 := with_range (with_bins s1 (upd (bins s1) (e - offset s1) nn)) e (maxI s1)).
      assert (Hd2 : forall i, dget s2 i = if i <? e then w0 else if i =? e then wadd (dget s e) nn else dget s i).
      { intros i. unfold s2, dget. cbn [with_range with_bins bins offset].
        rewrite at_upd by (unfold in_bounds, len in Hb; lia).
        change (at_ (bins s1) (i - offset s1)) with (dget s1 i). unfold s1. rewrite dget_reset by lia.
        cbn [with_bins offset].
        destruct (Z.eqb_spec (i - offset s) (e - offset s)) as [E1|E1].
        - assert (i = e) by lia. subst i. destruct (Z.ltb_spec e e); [lia|]. rewrite Z.eqb_refl.
          destruct ((minI s <=? e) && (e <=? e - 1)) eqn:E2; [lia|reflexivity].
        - destruct (Z.eqb_spec i e); [lia|]. destruct (Z.ltb_spec i e) as [L|L].
          + destruct ((minI s <=? i) && (i <=? e - 1)) eqn:E2; [reflexivity|]. apply Hout. lia.
          + destruct ((minI s <=? i) && (i <=? e - 1)) eqn:E2; [lia|reflexivity]. }
      assert (Hl2 : len s2 = len s) by (unfold s2, len; cbn [with_range with_bins bins]; rewrite zlen_upd; exact Hl1).
      destruct (shift_counts_spec s2 (offset s - e)) as (s3 & E3 & Hd3 & Hl3 & Ho3 & Hmi3 & Hma3 & Hc3 & Hk3).
      { unfold s2, s1. cproj. lia. }
      { unfold s2, s1. cproj. lia. }
      { rewrite Hl2. unfold s2, s1. cproj. lia. }
      { intros i Hi. rewrite Hd2. unfold s2, s1 in Hi. cproj. cbn [with_range with_bins minI maxI] in Hi.
        destruct (Z.ltb_spec i e); [reflexivity|]. destruct (Z.eqb_spec i e); [lia|]. apply Hout. lia. }
      { unfold s2, s1. cproj. lia. }
      { rewrite Hl2. unfold s2, s1. cproj. lia. }
      rewrite E3. eexists. split; [reflexivity|].
      unfold s2, s1 in Ho3, Hmi3, Hma3, Hc3, Hk3. cproj in Ho3. cproj in Hmi3. cproj in Hma3. cproj in Hc3. cproj in Hk3.
      split; [|unfold len in *; cproj; repeat split; try assumption; lia].
      intros j. unfold dget at 1. cproj. fold (dget s3 j). rewrite Hd3, Hd2. unfold clampf.
      destruct (Z.ltb_spec j e); [reflexivity|]. destruct (Z.eqb_spec j e) as [->|Nj]; [|reflexivity].
      rewrite (rsum_split (dget s) lo (e - 1) e) by lia. replace (e - 1 + 1) with e by lia. rewrite rsum_one.
      unfold nn. rewrite (rsum_from_low (dget s) (minI s) lo (e - 1)) by (try lia; intros; apply Hout; lia).
      apply wadd_comm.
    + (* shift right, nothing to fold *)
      destruct (shift_counts_spec s (offset s - e)) as (s3 & E3 & Hd3 & Hl3 & Ho3 & Hmi3 & Hma3 & Hc3 & Hk3);
        try assumption; try lia.
      rewrite E3. eexists. split; [reflexivity|].
      split; [|unfold len in *; cproj; repeat split; try assumption; lia].
      intros j. unfold dget at 1. cproj. fold (dget s3 j). rewrite Hd3. symmetry. apply (clampf_id _ _ _ (minI s)); try lia.
      intros k Hk. apply Hout. lia.
Qed.

Lemma zlen_0_nil {A} (l : list A) : zlen l = 0 -> l = [].
Proof. destruct l; [reflexivity|]. rewrite zlen_cons. pose proof (zlen_nonneg l). lia. Qed.
Lemma clampf_zero F lo e j : (forall k, F k = w0) -> clampf F lo e j = w0.
Proof. intros H. unfold clampf. destruct (j <? e); [reflexivity|]. destruct (j =? e); [|apply H]. apply rsum_zero. intros; apply H. Qed.
Lemma clamph_zero F hi e j : (forall k, F k = w0) -> clamph F hi e j = w0.
Proof. intros H. unfold clamph. destruct (e <? j); [reflexivity|]. destruct (j =? e); [|apply H]. apply rsum_zero. intros; apply H. Qed.

(* what extendRange establishes for the lowest-collapsing store: the content is clamped at
   e = (new max) - n + 1, the window is [max mn e, mx] and lies inside the array *)
Definition lext_post (n : Z) (s : dense) (lo hi : Z) (s1 : dense) : Prop :=
  let mn := Z.min lo (minI s) in let mx := Z.max hi (maxI s) in let e := mx - n + 1 in
  (forall j, dget s1 j = clampf (dget s) mn e j) /\ count s1 = count s /\ lim s1 = lim s /\
  minI s1 = Z.max mn e /\ maxI s1 = mx /\ offset s1 <= minI s1 /\ maxI s1 < offset s1 + len s1 /\
  len s1 <= n /\
  (collapsed s1 = true -> len s1 = n /\ offset s1 = minI s1 /\ maxI s1 = minI s1 + n - 1) /\
  (collapsed s1 = false -> e <= mn).

Section LowOps.
Variable grow : Z -> Z.
Hypothesis grow_ge : forall d, d <= grow d.
Variable n : Z.
Hypothesis Hn : 1 <= n.

Lemma extend_range_low s lo hi :
  CI n s -> lim s = Lowest n -> lo <= hi -> idx_ok lo -> idx_ok hi ->
  exists s1, extend_range grow true s lo hi = Some s1 /\ lext_post n s lo hi s1.
Proof.
  intros C Hk Hlh Il Ih. unfold extend_range, get_new_length, adjust, lext_post. cbv zeta.
  remember (Z.min lo (minI s)) as mn eqn:Emn. remember (Z.max hi (maxI s)) as mx eqn:Emx.
  pose proof (grow_ge (mx - mn + 1)) as Hg. pose proof (ci_len n s C) as Hlen.
  destruct (is_empty s) eqn:Hem.
  - (* empty receiver: allocate, then adjust *)
    apply is_empty_true in Hem. destruct (ci_sentinel n s C Hem) as [E1 E2].
    destruct (ci_empty n s C Hem) as [L0 Cf].
    assert (Hmn : mn = lo) by (unfold idx_ok, MaxInt32, MinInt32 in *; lia).
    assert (Hmx : mx = hi) by (unfold idx_ok, MaxInt32, MinInt32 in *; lia).
    assert (Hb0 : bins s = []) by (apply zlen_0_nil; exact L0).
    cproj. rewrite Hk, Hb0. cbn [app].
    set (n' := Z.min (grow (mx - mn + 1)) n).
    set (s0 := with_range (with_offset (with_bins s (zeros n')) mn) mn mx).
    assert (Hl0 : len s0 = n') by (unfold s0, len; cproj; rewrite zlen_zeros; lia).
    assert (Hz0 : forall j, dget s0 j = w0) by (intros j; unfold s0, dget; cproj; apply at_zeros).
    assert (Hzs : forall j, dget s j = w0) by (apply (ci_all_zero n s C Hem)).
    unfold adjust_lowest. rewrite Hl0. destruct (Z.ltb_spec n' (mx - mn + 1)) as [Bc|Bc].
    + (* wider than the capacity: one (empty) bucket, collapsed *)
      assert (En' : n' = n) by lia. cbv zeta.
      assert (Em0 : is_empty s0 = true) by (apply is_empty_true; exact Hem).
      rewrite Em0. cbn [andb]. rewrite Bool.orb_true_r.
      destruct (Z.eqb_spec n' 0) as [Z0|_]; [lia|]. eexists. split; [reflexivity|].
      split.
      { intros j. unfold dget at 1. unfold s0. cproj. rewrite Hem.
        rewrite at_setw by (rewrite zlen_zeros; lia). rewrite at_zeros, clampf_zero by exact Hzs.
        now destruct (_ =? _). }
      unfold len, s0. cproj. rewrite zlen_setw, zlen_zeros.
      repeat split; try reflexivity; try exact Hk; try discriminate; lia.
    + destruct (center_counts_spec s0 mn mx) as (s' & E & Hd & Hl & Hmi & Hma & Hc & Hk' & Ho1 & Ho2);
        try (unfold s0; cproj; lia); try (rewrite Hl0; unfold s0; cproj; lia).
      { intros i _. apply Hz0. }
      rewrite E. exists s'. split; [reflexivity|].
      apply center_counts_collapsed in E.
      split. { intros j. rewrite Hd, Hz0, clampf_zero by exact Hzs. reflexivity. }
      unfold s0 in Hc, Hk', E. cproj in Hc. cproj in Hk'. cproj in E.
      repeat split; try assumption; try lia; try congruence.
  - (* non-empty receiver *)
    apply is_empty_false in Hem. destruct (ci_win n s C Hem) as (W1 & W2 & W3).
    destruct ((offset s <=? mn) && (mx <? offset s + len s)) eqn:Efit.
    + (* the range fits in the array *)
      eexists. split; [reflexivity|].
      split.
      { intros j. unfold dget at 1. cproj. fold (dget s j). symmetry.
        apply (clampf_id _ _ _ (minI s)); try lia. intros k Hk'. apply (ci_out n s C). lia. }
      unfold len in *. cproj. repeat split; try reflexivity; try lia.
      all: match goal with X : collapsed _ = true |- _ => destruct (ci_coll n s C X) as (Y1 & Y2 & Y3) end; unfold len in *; lia.
    + rewrite Hk.
      set (n' := Z.min (grow (mx - mn + 1)) n).
      set (s0 := if len s <? n' then with_bins s (bins s ++ zeros (n' - len s)) else s).
      assert (Hs0 : (forall i, dget s0 i = dget s i) /\ offset s0 = offset s /\ minI s0 = minI s /\
                    maxI s0 = maxI s /\ count s0 = count s /\ lim s0 = lim s /\ collapsed s0 = collapsed s /\
                    len s <= len s0 /\ n' <= len s0 /\ len s0 <= n).
      { unfold s0. destruct (Z.ltb_spec (len s) n') as [L|L].
        - unfold dget, len. cproj. repeat split; auto.
          + intros i. apply at_app_zeros.
          + rewrite zlen_app. pose proof (zlen_nonneg (zeros (n' - zlen (bins s)))). lia.
          + rewrite zlen_app, zlen_zeros. unfold len in L. lia.
          + rewrite zlen_app, zlen_zeros. unfold len in L. lia.
        - repeat split; auto; lia. }
      destruct Hs0 as (Hd0 & Ho0 & Hmi0 & Hma0 & Hc0 & Hk0 & Hcl0 & Hl0a & Hl0b & Hl0c).
      assert (Hlim0 : lim s0 = Lowest n) by congruence. rewrite Hlim0.
      destruct (Z_lt_dec (len s0) (mx - mn + 1)) as [Bc|Bc].
      * (* wider than the array: collapse; the array then has the full capacity *)
        assert (Eln : len s0 = n) by lia.
        destruct (adjust_lowest_collapse s0 mn mx) as (s' & E & Hd & Hl & Ho & Hmi & Hma & Hc & Hk' & Hcl);
          try lia; try congruence.
        { intros i Hi. rewrite Hd0. apply (ci_out n s C). lia. }
        { rewrite Hc0, Hmi0, Hma0, (ci_count n s C). apply rsum_ext. intros; symmetry; apply Hd0. }
        rewrite E. exists s'. split; [reflexivity|].
        split. { intros j. rewrite Hd, Eln. apply clampf_ext. exact Hd0. }
        repeat split; try lia; try congruence.
      * (* the array is wide enough: recentre *)
        unfold adjust_lowest. destruct (Z.ltb_spec (len s0) (mx - mn + 1)) as [X|_]; [lia|].
        destruct (center_counts_spec s0 mn mx) as (s' & E & Hd & Hl & Hmi & Hma & Hc & Hk' & Ho1 & Ho2); try lia.
        { intros i Hi. rewrite Hd0. apply (ci_out n s C). lia. }
        rewrite E. exists s'. split; [reflexivity|]. apply center_counts_collapsed in E.
        split.
        { intros j. rewrite Hd, Hd0. symmetry.
          apply (clampf_id _ _ _ (minI s)); try lia. intros k Hk''. apply (ci_out n s C). lia. }
        repeat split; try lia; try congruence.
        all: match goal with X : collapsed _ = true |- _ => rewrite E, Hcl0 in X; destruct (ci_coll n s C X) as (Y1 & Y2 & Y3) end; lia.
Qed.
End LowOps.

(* the common shape of add and merge for the lowest-collapsing store: the content grows by a
   non-negative g supported on [lo, hi], positive at both ends, and the sum is clamped *)
Lemma CI_combine_low n s s2 (g : Z -> W) lo hi :
  1 <= n -> CI n s -> lo <= hi -> idx_ok lo -> idx_ok hi ->
  (forall i, (w0 <= g i)%Qc) -> (forall i, i < lo \/ hi < i -> g i = w0) ->
  (w0 < g lo)%Qc -> (w0 < g hi)%Qc ->
  let mn := Z.min lo (minI s) in let mx := Z.max hi (maxI s) in let e := mx - n + 1 in
  let F := fun j => wadd (dget s j) (g j) in
  (forall j, dget s2 j = clampf F mn e j) ->
  count s2 = wadd (count s) (rsum g lo hi) ->
  minI s2 = Z.max mn e -> maxI s2 = mx -> offset s2 <= minI s2 -> maxI s2 < offset s2 + len s2 ->
  len s2 <= n ->
  (collapsed s2 = true -> len s2 = n /\ offset s2 = minI s2 /\ maxI s2 = minI s2 + n - 1) ->
  CI n s2 /\ (forall j, get (dabs s2) j = clampf F mn e j) /\
  F mx <> w0 /\ (forall k, mx < k -> F k = w0) /\ (forall k, k < mn -> F k = w0).
Proof.
  intros Hn C Hlh Il Ih Gn Go Gl Gh mn mx e F Hd Hc Hmi Hma Ho1 Ho2 Hlen Hcoll.
  pose proof (ci_count_nonneg n s C) as Cn.
  pose proof (rsum_pos g lo hi Hlh Gn Gl) as Rp.
  assert (Cnz : count s2 <> w0) by (rewrite Hc; apply wlt_neq; now apply wadd_pos_r).
  assert (Fn : forall k, (w0 <= F k)%Qc) by (intros k; apply wadd_nonneg; [apply (ci_nonneg n s C)|apply Gn]).
  assert (Hends : (count s = w0 /\ mn = lo /\ mx = hi) \/
                  (count s <> w0 /\ minI s <= maxI s /\ idx_ok (minI s) /\ idx_ok (maxI s))).
  { destruct (w_eq_dec (count s) w0) as [E|N].
    - left. destruct (ci_sentinel n s C E) as [E1 E2]. unfold mn, mx. rewrite E1, E2.
      unfold idx_ok, MaxInt32, MinInt32 in *. repeat split; auto; lia.
    - right. destruct (ci_win n s C N) as (_ & W & _). destruct (ci_idx n s C N). auto. }
  assert (Hmm : mn <= mx) by (unfold mn, mx; lia).
  assert (Hemx : e <= mx) by (unfold e; lia).
  assert (Fout : forall k, k < mn \/ mx < k -> F k = w0).
  { intros k Hk. unfold F. rewrite (ci_out n s C k), (Go k) by (unfold mn, mx in Hk; lia). apply wadd_0_l. }
  assert (Fmn : (w0 < F mn)%Qc).
  { unfold F. destruct Hends as [(E & E1 & E2)|(N & W & _)].
    - rewrite E1. apply wadd_pos_r; [apply (ci_nonneg n s C)|exact Gl].
    - destruct (Z_le_dec lo (minI s)) as [L|L].
      + replace mn with lo by (unfold mn; lia). apply wadd_pos_r; [apply (ci_nonneg n s C)|exact Gl].
      + replace mn with (minI s) by (unfold mn; lia). apply wadd_pos_l; [apply (ci_ends n s C N)|apply Gn]. }
  assert (Fmx : (w0 < F mx)%Qc).
  { unfold F. destruct Hends as [(E & E1 & E2)|(N & W & _)].
    - rewrite E2. apply wadd_pos_r; [apply (ci_nonneg n s C)|exact Gh].
    - destruct (Z_le_dec (maxI s) hi) as [L|L].
      + replace mx with hi by (unfold mx; lia). apply wadd_pos_r; [apply (ci_nonneg n s C)|exact Gh].
      + replace mx with (maxI s) by (unfold mx; lia). apply wadd_pos_l; [apply (ci_ends n s C N)|apply Gn]. }
  assert (I2 : Inv (as_exact s2)).
  { constructor.
    - reflexivity.
    - intros i. change (dget (as_exact s2) i) with (dget s2 i). rewrite Hd. now apply clampf_nonneg.
    - intros i Hi. change (dget (as_exact s2) i) with (dget s2 i). cbn [as_exact minI maxI] in Hi.
      rewrite Hd. apply (clampf_out F mn e mx); [exact Fout|exact Hemx|lia].
    - cbn [as_exact count minI maxI]. change (dget (as_exact s2)) with (dget s2).
      rewrite (rsum_ext (dget s2) (clampf F mn e)) by (intros; apply Hd).
      rewrite Hmi, Hma, rsum_clampf by assumption. rewrite Hc. unfold F. rewrite rsum_add. f_equal.
      + rewrite (ci_count n s C). symmetry.
        destruct Hends as [(E & E1 & E2)|(N & W & _)].
        * rewrite (rsum_zero (dget s) mn mx) by (intros; now apply (ci_all_zero n s C)).
          symmetry. apply rsum_zero. intros; now apply (ci_all_zero n s C).
        * apply rsum_widen; [apply (ci_out n s C)| | |]; unfold mn, mx; lia.
      + symmetry. apply rsum_widen; [exact Go| | |]; unfold mn, mx; lia.
    - intros E. contradiction.
    - intros _. cbn [as_exact offset minI maxI]. change (len (as_exact s2)) with (len s2). lia.
    - intros _. cbn [as_exact minI maxI]. change (dget (as_exact s2)) with (dget s2). rewrite !Hd, Hmi, Hma. split.
      + unfold clampf. destruct (Z.ltb_spec (Z.max mn e) e); [lia|].
        destruct (Z.eqb_spec (Z.max mn e) e) as [Ee|Ne].
        * apply (rsum_pos_at F mn e mn); [exact Fn|lia|exact Fmn].
        * replace (Z.max mn e) with mn by lia. exact Fmn.
      + unfold clampf. destruct (Z.ltb_spec mx e); [lia|].
        destruct (Z.eqb_spec mx e) as [Ee|Ne]; [|exact Fmx].
        apply (rsum_pos_at F mn e mx); [exact Fn|lia|exact Fmx].
    - intros _. cbn [as_exact minI maxI]. rewrite Hmi, Hma.
      assert (idx_ok mn /\ idx_ok mx).
      { destruct Hends as [(E & E1 & E2)|(N & W & J1 & J2)].
        - rewrite E1, E2. now split.
        - unfold idx_ok, mn, mx in *. lia. }
      unfold idx_ok in *. lia. }
  assert (C2 : CI n s2).
  { constructor; [exact I2|exact Hlen| |exact Hcoll]. intros E. contradiction. }
  split; [exact C2|]. split; [|split; [now apply wlt_neq|split]].
  - intros j. now rewrite (ci_get_dabs n s2 C2).
  - intros k Hk. apply Fout. lia.
  - intros k Hk. apply Fout. lia.
Qed.

Section LowAdd.
Variable grow : Z -> Z.
Hypothesis grow_ge : forall d, d <= grow d.
Variable n : Z.
Hypothesis Hn : 1 <= n.

(* normalize: the state after the possible extension and the array slot, which is the slot of
   index max i e (the index itself, or the collapsing edge when i lies below it) *)
Lemma normalize_low s i :
  CI n s -> lim s = Lowest n -> idx_ok i ->
  exists s1, normalize grow true s i = Some (s1, Z.max i (Z.max i (maxI s) - n + 1) - offset s1) /\
             lext_post n s i i s1.
Proof.
  intros C Hk Ii. unfold normalize. rewrite Hk.
  destruct (Z.ltb_spec i (minI s)) as [B1|B1].
  - destruct (collapsed s) eqn:Ec.
    + (* already collapsed: slot 0 *)
      destruct (ci_coll n s C Ec) as (Y1 & Y2 & Y3).
      assert (N : count s <> w0) by (intros E; destruct (ci_empty n s C E); congruence).
      destruct (ci_win n s C N) as (W1 & W2 & W3).
      exists s. split; [do 2 f_equal; lia|]. unfold lext_post. cbv zeta.
      split.
      { intros j. symmetry. apply (clampf_id _ _ _ (minI s)); try lia. intros k Hk'. apply (ci_out n s C). lia. }
      pose proof (ci_len n s C). repeat split; try lia; try congruence.
    + destruct (extend_range_low grow grow_ge n Hn s i i C Hk (Z.le_refl i) Ii Ii) as (s1 & E1 & P).
      rewrite E1. exists s1. split; [|exact P].
      unfold lext_post in P. cbv zeta in P.
      destruct P as (_ & _ & _ & Hmi & Hma & _ & _ & _ & Hct & Hcf).
      destruct (collapsed s1) eqn:Ec1.
      * destruct (Hct eq_refl) as (Y1 & Y2 & Y3). do 2 f_equal. lia.
      * specialize (Hcf eq_refl). do 2 f_equal. lia.
  - destruct (Z.ltb_spec (maxI s) i) as [B2|B2].
    + destruct (extend_range_low grow grow_ge n Hn s i i C Hk (Z.le_refl i) Ii Ii) as (s1 & E1 & P).
      rewrite E1. exists s1. split; [|exact P]. do 2 f_equal. clear - Hn B1 B2. lia.
    + assert (N : count s <> w0) by (apply (ci_nonempty_iff n s C); lia).
      destruct (ci_win n s C N) as (W1 & W2 & W3). pose proof (ci_span n s C N) as Sp.
      pose proof (ci_len n s C) as Hl.
      exists s. split; [do 2 f_equal; lia|].
      unfold lext_post. cbv zeta. split.
      { intros j. symmetry. apply (clampf_id _ _ _ (minI s)); try lia. intros k Hk'. apply (ci_out n s C). lia. }
      repeat split; try lia.
      all: match goal with X : collapsed _ = true |- _ => destruct (ci_coll n s C X) as (Y1 & Y2 & Y3) end; lia.
Qed.

Lemma add_with_count_zero_c fx s i : add_with_count grow fx s i w0 = Some s.
Proof. reflexivity. Qed.

(* IV: AddWithCount refines the stepwise clamp *)
Theorem add_with_count_low s i c :
  CI n s -> lim s = Lowest n -> idx_ok i -> (w0 < c)%Qc ->
  exists s', add_with_count grow true s i c = Some s' /\ CI n s' /\ lim s' = Lowest n /\
             dabs s' = sadd (Lowest n) (dabs s) i c.
Proof.
  intros C Hk Ii Hc. unfold add_with_count.
  assert (Ec : weqb c w0 = false) by (apply weqb_neq; now apply wlt_neq). rewrite Ec.
  destruct (normalize_low s i C Hk Ii) as (s1 & E & P). rewrite E.
  unfold lext_post in P. cbv zeta in P.
  destruct P as (Hd & Hcn & Hk1 & Hmi & Hma & Ho1 & Ho2 & Hl1 & Hct & Hcf).
  set (mn := Z.min i (minI s)) in *. set (mx := Z.max i (maxI s)) in *. set (e := mx - n + 1) in *.
  assert (Hb : in_bounds s1 (Z.max i e - offset s1) = true) by (unfold in_bounds; lia). rewrite Hb.
  eexists. split; [reflexivity|].
  match goal with |- CI n ?s2 /\ _ =>
    destruct (CI_combine_low n s s2 (fun k => if k =? i then c else w0) i i) as (C2 & Hg & F1 & F2 & F3) end;
    try assumption; try lia.
  - intros k. destruct (k =? i); [now apply wlt_le|apply wle_refl].
  - intros k Hk'. destruct (Z.eqb_spec k i); [lia|reflexivity].
  - now rewrite Z.eqb_refl.
  - now rewrite Z.eqb_refl.
  - intros j. rewrite clampf_add. fold mn mx e. rewrite <- Hd, clampf_point by (unfold mn; lia).
    unfold dget at 1. cproj. unfold in_bounds, len in Hb. rewrite at_upd by lia. fold (dget s1 j).
    destruct (Z.eqb_spec (j - offset s1) (Z.max i e - offset s1)); destruct (Z.eqb_spec j (Z.max i e)); try lia;
      [reflexivity|now rewrite wadd_0_r].
  - cproj. rewrite rsum_one, Z.eqb_refl. now rewrite Hcn.
  - unfold len. cproj. rewrite zlen_upd. exact Ho2.
  - unfold len. cproj. rewrite zlen_upd. exact Hl1.
  - cproj. unfold len. cproj. rewrite zlen_upd. exact Hct.
  - split; [exact C2|]. split; [cproj; congruence|].
    unfold sadd, norm. fold mn mx e in Hg, F1, F2, F3.
    assert (Hb0 : badd0 (dabs s) i c = badd (dabs s) i c) by (apply badd0_nz; now apply wlt_neq).
    rewrite Hb0.
    apply (dabs_is_clamp_low n _ _ _ mn mx) with (5 := F2) (6 := F3); try exact F1.
    + apply wf_badd; [apply dabs_wf|apply (ci_dabs_pos n s C)|exact Hc].
    + apply pos_badd; [apply (ci_dabs_pos n s C)|exact Hc].
    + intros k. rewrite BinsProofs.get_badd by apply dabs_wf. rewrite !(ci_get_dabs n s C).
      destruct (Z.eqb_spec k i) as [->|N]; [reflexivity|now rewrite wadd_0_r].
    + exact Hg.
Qed.

Theorem add_with_count_low0 s i c :
  CI n s -> lim s = Lowest n -> idx_ok i -> (w0 <= c)%Qc ->
  exists s', add_with_count grow true s i c = Some s' /\ CI n s' /\ lim s' = Lowest n /\
             dabs s' = sadd (Lowest n) (dabs s) i c.
Proof.
  intros C Hk Ii Hc. destruct (weqb c w0) eqn:E.
  - apply weqb_eq in E. subst c. exists s. split; [reflexivity|]. split; [exact C|]. split; [exact Hk|].
    unfold sadd. rewrite badd0_zero. cbn [norm]. symmetry. now apply clamp_low_fix.
  - apply weqb_neq in E. apply add_with_count_low; auto. now apply wpos_of_nonneg_nz.
Qed.
End LowAdd.

(* the invariant of any member of the dense family, as an argument of MergeWith *)
Definition WInv (o : dense) : Prop := Inv (as_exact o).
Lemma WInv_of_Inv o : Inv o -> WInv o.
Proof.
  intros I. destruct I as [a b c d e f g h]. constructor; auto.
Qed.
Lemma WInv_of_CI n o : CI n o -> WInv o.
Proof. apply ci_inv. Qed.

Lemma dabs_bins_ok o : WInv o -> bins_ok (dabs o).
Proof.
  intros I k w Hi. unfold dabs in Hi. apply tab_in in Hi. destruct Hi as (Hk & -> & Hn).
  assert (N : count o <> w0).
  { apply (Inv_nonempty_iff _ I). cbn [as_exact minI maxI]. lia. }
  destruct (inv_idx _ I N) as [J1 J2]. cbn [as_exact minI maxI] in J1, J2. split.
  - unfold idx_ok in *. lia.
  - apply (inv_nonneg _ I).
Qed.
Lemma nonneg_of_bins_ok l : bins_ok l -> nonneg l.
Proof. intros H. apply Forall_forall. intros [k w] Hi. cbn [snd]. now apply (H k w). Qed.

Lemma lext_post_self n s lo hi :
  CI n s -> count s <> w0 -> minI s <= lo -> hi <= maxI s -> lext_post n s lo hi s.
Proof.
  intros C N H1 H2. destruct (ci_win n s C N) as (W1 & W2 & W3). pose proof (ci_span n s C N) as Sp.
  pose proof (ci_len n s C) as Hl. unfold lext_post. cbv zeta. split.
  { intros j. symmetry. apply (clampf_id _ _ _ (minI s)); try lia. intros k Hk'. apply (ci_out n s C). lia. }
  repeat split; try lia.
  all: match goal with X : collapsed _ = true |- _ => destruct (ci_coll n s C X) as (Y1 & Y2 & Y3) end; lia.
Qed.

Section LowMerge.
Variable grow : Z -> Z.
Hypothesis grow_ge : forall d, d <= grow d.
Variable n : Z.
Hypothesis Hn : 1 <= n.

(* VI, same-type fast path: the argument may have any capacity, the receiver may be empty or cleared *)
Theorem merge_same_low s o :
  CI n s -> lim s = Lowest n -> WInv o -> count o <> w0 ->
  exists s', merge_same grow true s o = Some s' /\ CI n s' /\ lim s' = Lowest n /\
             dabs s' = clamp_low n (bmerge (dabs s) (dabs o)).
Proof.
  intros C Hk Io No. unfold merge_same.
  destruct (inv_win _ Io No) as (V1 & V2 & V3). destruct (inv_idx _ Io No) as [J1 J2].
  pose proof (inv_out _ Io) as Oout. pose proof (inv_nonneg _ Io) as Onn.
  destruct (inv_ends _ Io No) as [Oe1 Oe2]. pose proof (inv_count _ Io) as Ocnt.
  cbn [as_exact offset minI maxI count] in V1, V2, V3, J1, J2, Oout, Oe1, Oe2, Ocnt.
  change (len (as_exact o)) with (len o) in V3. change (dget (as_exact o)) with (dget o) in *.
  assert (Hs1 : exists s1, (if (minI o <? minI s) || (maxI s <? maxI o)
                            then extend_range grow true s (minI o) (maxI o) else Some s) = Some s1 /\
                           lext_post n s (minI o) (maxI o) s1).
  { destruct ((minI o <? minI s) || (maxI s <? maxI o)) eqn:E.
    - now apply extend_range_low.
    - exists s. split; [reflexivity|].
      assert (N : count s <> w0) by (apply (ci_nonempty_iff n s C); lia).
      apply lext_post_self; auto; lia. }
  destruct Hs1 as (s1 & E1 & P). rewrite E1.
  unfold lext_post in P. cbv zeta in P.
  destruct P as (Hd & Hcn & Hk1 & Hmi & Hma & Ho1 & Ho2 & Hl1 & Hct & Hcf).
  set (mn := Z.min (minI o) (minI s)) in *. set (mx := Z.max (maxI o) (maxI s)) in *. set (e := mx - n + 1) in *.
  destruct (Z.ltb_spec (maxI o) (minI o)) as [L|_]; [lia|].
  assert (Hbo : in_bounds o (minI o - offset o) && in_bounds o (maxI o - offset o) = true)
    by (unfold in_bounds; lia). rewrite Hbo. clear Hbo. cbn [negb]. rewrite Hk1, Hk. cbv beta iota zeta.
  set (cnt := maxI o - minI o + 1).
  set (k := Z.max 0 (Z.min cnt (minI s1 - minI o))).
  assert (Hk0 : 0 <= k <= cnt) by (unfold k, cnt; lia).
  rewrite (firstn_slice (bins o) (minI o - offset o) cnt k) by (unfold len, cnt in *; lia).
  rewrite (skipn_slice (bins o) (minI o - offset o) cnt k) by (unfold len, cnt in *; lia).
  rewrite (sumW_slice_rsum (bins o) (minI o - offset o) k) by (unfold len, cnt in *; lia).
  rewrite <- (rsum_shift (at_ (bins o)) (offset o)).
  replace (minI o - offset o + offset o) with (minI o) by lia.
  replace (minI o - offset o + k - 1 + offset o) with (minI o + k - 1) by lia.
  change (fun i => at_ (bins o) (i - offset o)) with (dget o).
  set (S := rsum (dget o) (minI o) (minI o + k - 1)).
  set (rest := slice (bins o) (minI o - offset o + k) (cnt - k)).
  assert (Hzr : zlen rest = cnt - k) by (unfold rest; apply zlen_slice; unfold len, cnt in *; lia).
  assert (Hrest : forall x, at_ rest x = if (0 <=? x) && (x <? cnt - k) then dget o (minI o + k + x) else w0).
  { intros x. unfold rest. rewrite at_slice by lia. destruct ((0 <=? x) && (x <? cnt - k)); [|reflexivity]. unfold dget. f_equal. lia. }
  (* when some of the argument lies below the receiver's window, the receiver is collapsed *)
  assert (Hcol : 0 < k -> offset s1 = e /\ minI s1 = e /\ mn < e).
  { intros Hk'. destruct (collapsed s1) eqn:Ec.
    - destruct (Hct eq_refl) as (Y1 & Y2 & Y3). unfold k in Hk'. lia.
    - specialize (Hcf eq_refl). unfold k in Hk'. lia. }
  assert (HS : 0 < k -> S = rsum (dget o) mn (e - 1)).
  { intros Hk'. destruct (Hcol Hk') as (Y1 & Y2 & Y3). unfold S.
    rewrite (rsum_from_low (dget o) (minI o) mn (e - 1)) by (try (unfold mn; lia); intros; apply Oout; lia).
    symmetry. apply rsum_to_high; [intros i Hi|unfold k; lia].
    destruct (Z_lt_dec (maxI o) i); [apply Oout; lia|]. unfold k, cnt in Hi. lia. }
  assert (Hfin : forall b2,
            (forall j, at_ b2 (j - offset s1) = wadd (dget s1 j) (clampf (dget o) mn e j)) -> zlen b2 = len s1 ->
            let s2 := with_count (with_bins s1 b2) (wadd (count s1) (count o)) in
            CI n s2 /\ lim s2 = Lowest n /\ dabs s2 = clamp_low n (bmerge (dabs s) (dabs o))).
  { intros b2 Hb2 Hz2 s2.
    destruct (CI_combine_low n s s2 (dget o) (minI o) (maxI o)) as (C2 & Hg & F1 & F2 & F3); try assumption; try lia.
    - intros j. rewrite clampf_add. fold mn mx e. rewrite <- Hd. unfold s2, dget at 1. cproj. apply Hb2.
    - unfold s2. cproj. rewrite Hcn. f_equal. exact Ocnt.
    - unfold s2, len. cproj. rewrite Hz2. exact Ho2.
    - unfold s2, len. cproj. rewrite Hz2. exact Hl1.
    - unfold s2, len. cproj. rewrite Hz2. exact Hct.
    - split; [exact C2|]. split; [unfold s2; cproj; congruence|].
      fold mn mx e in Hg, F1, F2, F3.
      assert (Po : pos (dabs o)) by (apply tab_pos'; exact Onn).
      apply (dabs_is_clamp_low n _ _ _ mn mx) with (5 := F2) (6 := F3); try exact F1.
      + apply wf_bmerge; [apply dabs_wf|apply (ci_dabs_pos n s C)|exact Po].
      + apply pos_bmerge; [apply dabs_wf|apply (ci_dabs_pos n s C)|exact Po].
      + intros j. rewrite get_bmerge; [|apply dabs_wf|apply (ci_dabs_pos n s C)|apply dabs_wf|exact Po].
        rewrite (ci_get_dabs n s C). f_equal. apply (get_dabs _ j Io).
      + exact Hg. }
  destruct (Z.ltb_spec 0 k) as [Kp|Kz].
  - destruct (Hcol Kp) as (Y1 & Y2 & Y3).
    assert (Hb0 : in_bounds s1 0 = true) by (unfold in_bounds; lia). rewrite Hb0.
    destruct (Z.ltb_spec k cnt) as [Kc|Kc].
    + assert (Hb1 : in_bounds s1 (minI o + k - offset s1) && in_bounds s1 (maxI o - offset s1) = true)
        by (unfold in_bounds, k, cnt in *; lia). rewrite Hb1.
      eexists. split; [reflexivity|]. apply Hfin.
      * intros j. unfold in_bounds, len in Hb0.
        rewrite at_add_slice by (rewrite ?zlen_upd, ?Hzr; unfold len, k, cnt in *; lia).
        rewrite at_upd by lia. rewrite Hrest. fold (dget s1 j). rewrite (HS Kp). unfold clampf.
        assert (Ek : minI o + k = e) by (unfold k, cnt in *; lia).
        destruct (Z.ltb_spec j e) as [Q1|Q1]; [|destruct (Z.eqb_spec j e) as [Q2|Q2]].
        -- destruct (Z.eqb_spec (j - offset s1) 0); [lia|].
           destruct ((0 <=? j - offset s1 - (minI o + k - offset s1)) && (j - offset s1 - (minI o + k - offset s1) <? cnt - k)) eqn:Q3; [lia|reflexivity].
        -- subst j. destruct (Z.eqb_spec (e - offset s1) 0); [|lia].
           destruct ((0 <=? e - offset s1 - (minI o + k - offset s1)) && (e - offset s1 - (minI o + k - offset s1) <? cnt - k)) eqn:Q3; [|lia].
           rewrite (rsum_split (dget o) mn (e - 1) e) by lia. replace (e - 1 + 1) with e by lia. rewrite rsum_one.
           replace (minI o + k + (e - offset s1 - (minI o + k - offset s1))) with e by lia. apply wadd_assoc.
        -- destruct (Z.eqb_spec (j - offset s1) 0); [lia|].
           destruct ((0 <=? j - offset s1 - (minI o + k - offset s1)) && (j - offset s1 - (minI o + k - offset s1) <? cnt - k)) eqn:Q3.
           ++ do 2 f_equal. lia.
           ++ f_equal. symmetry. apply Oout. unfold cnt in Q3. lia.
      * rewrite zlen_add_slice, zlen_upd. reflexivity.
    + eexists. split; [reflexivity|]. apply Hfin.
      * intros j. unfold in_bounds, len in Hb0. rewrite at_upd by lia. fold (dget s1 j). rewrite (HS Kp). unfold clampf.
        assert (Ek : maxI o < e) by (unfold k, cnt in *; lia).
        destruct (Z.ltb_spec j e) as [Q1|Q1]; [|destruct (Z.eqb_spec j e) as [Q2|Q2]].
        -- destruct (Z.eqb_spec (j - offset s1) 0); [lia|now rewrite wadd_0_r].
        -- subst j. destruct (Z.eqb_spec (e - offset s1) 0); [|lia].
           rewrite (rsum_split (dget o) mn (e - 1) e) by lia. replace (e - 1 + 1) with e by lia. rewrite rsum_one.
           rewrite (Oout e) by lia. now rewrite wadd_0_r.
        -- destruct (Z.eqb_spec (j - offset s1) 0); [lia|]. rewrite (Oout j) by lia. now rewrite wadd_0_r.
      * apply zlen_upd.
  - assert (K0 : k = 0) by lia.
    destruct (Z.ltb_spec k cnt) as [Kc|Kc]; [|unfold cnt in Kc; lia].
    assert (Hb1 : in_bounds s1 (minI o + k - offset s1) && in_bounds s1 (maxI o - offset s1) = true)
      by (unfold in_bounds, k, cnt in *; lia). rewrite Hb1.
    eexists. split; [reflexivity|]. apply Hfin.
    + intros j. rewrite at_add_slice by (rewrite ?Hzr; unfold len, k, cnt in *; lia).
      rewrite Hrest. fold (dget s1 j). f_equal.
      rewrite (clampf_id (dget o) mn e (minI o)) by (try (intros; apply Oout); unfold k, cnt, mn in *; lia).
      destruct ((0 <=? j - offset s1 - (minI o + k - offset s1)) && (j - offset s1 - (minI o + k - offset s1) <? cnt - k)) eqn:Q3.
      * f_equal. lia.
      * symmetry. apply Oout. unfold cnt in Q3. lia.
    + apply zlen_add_slice.
Qed.
End LowMerge.

Lemma foreach_winv o : WInv o -> foreach o = Some (dabs o).
Proof. intros I. exact (foreach_spec (as_exact o) I). Qed.
Lemma dabs_pos_winv o : WInv o -> pos (dabs o).
Proof. intros I. apply tab_pos'. exact (inv_nonneg _ I). Qed.
Lemma dabs_empty_winv o : WInv o -> count o = w0 -> dabs o = [].
Proof. intros I. exact (dabs_empty _ I). Qed.

Section LowList.
Variable grow : Z -> Z.
Hypothesis grow_ge : forall d, d <= grow d.
Variable n : Z.
Hypothesis Hn : 1 <= n.

(* the generic path of MergeWith: a sequence of AddWithCount *)
Theorem add_list_low l : forall s,
  CI n s -> lim s = Lowest n -> bins_ok l ->
  exists s', add_list grow true s l = Some s' /\ CI n s' /\ lim s' = Lowest n /\
             dabs s' = smerge_list (Lowest n) (dabs s) l.
Proof.
  induction l as [|[k w] l IH]; intros s C Hk Hl.
  - exists s. split; [reflexivity|]. split; [exact C|]. split; [exact Hk|reflexivity].
  - destruct (Hl k w (or_introl eq_refl)) as [Hki Hw].
    destruct (add_with_count_low0 grow grow_ge n Hn s k w C Hk Hki Hw) as (s1 & E1 & C1 & K1 & A1).
    destruct (IH s1 C1 K1) as (s' & E' & C' & K' & A'). { intros k' w' Hi. apply Hl. now right. }
    exists s'. rewrite add_list_cons. cbn [fst snd]. rewrite E1.
    split; [exact E'|]. split; [exact C'|]. split; [exact K'|].
    rewrite A', A1. reflexivity.
Qed.

Lemma smerge_list_low_fix s l :
  CI n s -> nonneg l -> smerge_list (Lowest n) (dabs s) l = clamp_low n (bmerge_list (dabs s) l).
Proof.
  intros C Hl. rewrite <- (clamp_low_fix n s Hn C) at 1.
  apply (smerge_list_norm (Lowest n) (dabs s) l); [exact Hn|apply dabs_wf|apply (ci_dabs_pos n s C)|exact Hl].
Qed.

(* VI: MergeWith, any member of the dense family as the argument *)
Theorem merge_dense_low s o :
  CI n s -> lim s = Lowest n -> WInv o ->
  exists s', merge_dense grow true s o = Some s' /\ CI n s' /\ lim s' = Lowest n /\
             dabs s' = norm (Lowest n) (bmerge (dabs s) (dabs o)).
Proof.
  intros C Hk Io. unfold merge_dense. cbn [norm]. destruct (is_empty o) eqn:E.
  - apply is_empty_true in E. exists s. rewrite (dabs_empty_winv o Io E), bmerge_nil_r.
    split; [reflexivity|]. split; [exact C|]. split; [exact Hk|]. symmetry. now apply clamp_low_fix.
  - apply is_empty_false in E.
    assert (Hfb : exists s', match foreach o with None => None | Some l => add_list grow true s l end = Some s' /\
                    CI n s' /\ lim s' = Lowest n /\ dabs s' = clamp_low n (bmerge (dabs s) (dabs o))).
    { rewrite (foreach_winv o Io).
      destruct (add_list_low (dabs o) s C Hk (dabs_bins_ok o Io)) as (s' & E' & C' & K' & A').
      exists s'. split; [exact E'|]. split; [exact C'|]. split; [exact K'|].
      rewrite A'. apply smerge_list_low_fix; [exact C|]. apply nonneg_of_bins_ok. now apply dabs_bins_ok. }
    rewrite Hk. destruct (lim o) as [|m|m]; cbn [same_type]; try exact Hfb.
    now apply merge_same_low.
Qed.
Corollary merge_dense_low_stepwise s o :
  CI n s -> lim s = Lowest n -> WInv o ->
  exists s', merge_dense grow true s o = Some s' /\ CI n s' /\ lim s' = Lowest n /\
             dabs s' = smerge_list (Lowest n) (dabs s) (dabs o).
Proof.
  intros C Hk Io. destruct (merge_dense_low s o C Hk Io) as (s' & E & C' & K' & A').
  exists s'. split; [exact E|]. split; [exact C'|]. split; [exact K'|]. rewrite A'. cbn [norm].
  symmetry. apply smerge_list_low_fix; [exact C|]. apply nonneg_of_bins_ok. now apply dabs_bins_ok.
Qed.
End LowList.

(* V: the bounds, for every state satisfying the invariant (hence every reachable state) *)
Theorem ci_bounds n s :
  CI n s ->
  Z.of_nat (length (bins s)) <= n /\ (count s <> w0 -> maxI s - minI s + 1 <= n) /\
  Z.of_nat (length (dabs s)) <= Z.max 0 n /\ total (dabs s) = count s.
Proof.
  intros C. split; [exact (ci_len n s C)|]. split; [apply (ci_span n s C)|]. split.
  - destruct (w_eq_dec (count s) w0) as [E|N].
    + rewrite (ci_dabs_empty n s C E). cbn [length]. lia.
    + pose proof (ci_span n s C N) as Sp.
      pose proof (length_bound (minI s) (maxI s) (dabs s) (dabs_wf s)) as H.
      assert (Hr : forall j, get (dabs s) j <> w0 -> minI s <= j <= maxI s).
      { intros j Hj. rewrite (ci_get_dabs n s C) in Hj.
        destruct (Z_lt_dec j (minI s)); [exfalso; apply Hj; apply (ci_out n s C); lia|].
        destruct (Z_lt_dec (maxI s) j); [exfalso; apply Hj; apply (ci_out n s C); lia|]. lia. }
      specialize (H Hr). lia.
  - symmetry. exact (total_d_spec (as_exact s) (ci_inv n s C)).
Qed.

(* ================================================================== *)
(* Part 4: the highest-collapsing store (mirror of Part 3)             *)
(* ================================================================== *)

Lemma adjust_highest_collapse s lo hi :
  count s <> w0 ->
  (forall i, i < minI s \/ maxI s < i -> dget s i = w0) ->
  count s = rsum (dget s) (minI s) (maxI s) ->
  offset s <= minI s -> minI s <= maxI s -> maxI s < offset s + len s ->
  lo <= minI s -> maxI s <= hi -> len s < hi - lo + 1 ->
  exists s', adjust_highest true s lo hi = Some s' /\
    (forall j, dget s' j = clamph (dget s) hi (lo + len s - 1) j) /\
    len s' = len s /\ offset s' = lo /\ minI s' = lo /\ maxI s' = lo + len s - 1 /\
    count s' = count s /\ lim s' = lim s /\ collapsed s' = true.
Proof.
  intros N Hout Hcnt W1 W2 W3 Hlo Hhi Hlen. unfold adjust_highest.
  destruct (Z.ltb_spec (len s) (hi - lo + 1)) as [_|X]; [|lia]. cbv zeta.
  remember (lo + len s - 1) as e eqn:Ee.
  assert (Em : is_empty s = false) by now apply is_empty_false. rewrite Em. cbn [andb]. rewrite Bool.orb_false_r.
  destruct (Z.leb_spec e (minI s)) as [B1|B1].
  - (* a single bucket *)
    destruct (Z.eqb_spec (len s) 0) as [Z0|_]; [lia|]. eexists. split; [reflexivity|].
    split; [|cred; rewrite zlen_setw, zlen_zeros; unfold len in *; repeat split; try reflexivity; lia].
    intros j. unfold dget at 1. cbn [with_range with_offset with_bins with_collapsed bins offset].
    rewrite at_setw by (rewrite zlen_zeros; unfold len in *; lia). rewrite at_zeros.
    unfold clamph. destruct (Z.ltb_spec e j) as [L|L].
    + destruct (Z.eqb_spec (j - lo) (len s - 1)); [lia|reflexivity].
    + destruct (Z.eqb_spec j e) as [->|Nj].
      * destruct (Z.eqb_spec (e - lo) (len s - 1)); [|lia]. rewrite Hcnt.
        rewrite (rsum_drop_high (dget s) e (maxI s) hi) by (try lia; intros; apply Hout; lia).
        symmetry. apply rsum_drop_low; try lia. intros; apply Hout; lia.
      * destruct (Z.eqb_spec (j - lo) (len s - 1)); [lia|]. symmetry. apply Hout. lia.
  - destruct (Z.ltb_spec 0 (offset s - lo)) as [B2|B2].
    + (* collapse the buckets above e, then shift right *)
      rewrite sum_range_spec by lia. rewrite reset_bins_spec by lia.
      set (s1 := with_bins s (reset (bins s) (e + 1 - offset s) (maxI s - offset s))).
      assert (Hl1 : len s1 = len s) by (unfold s1, len; cbn [with_bins bins]; apply zlen_reset).
      assert (Ho1 : offset s1 = offset s) by reflexivity.
      assert (Hb : in_bounds s1 (e - offset s1) = true) by (unfold in_bounds; rewrite Hl1, Ho1; lia).
      rewrite Hb.
      set (nn := rsum (dget s) (e + 1) (maxI s)).
      set (s2 := with_range (with_bins s1 (upd (bins s1) (e - offset s1) nn)) (minI s1) e).
      assert (Hd2 : forall i, dget s2 i = if e <? i then w0 else if i =? e then wadd (dget s e) nn else dget s i).
      { intros i. unfold s2, dget. cbn [with_range with_bins bins offset].
        rewrite at_upd by (unfold in_bounds, len in Hb; lia).
        change (at_ (bins s1) (i - offset s1)) with (dget s1 i). unfold s1. rewrite dget_reset by lia.
        cbn [with_bins offset].
        destruct (Z.eqb_spec (i - offset s) (e - offset s)) as [E1|E1].
        - assert (i = e) by lia. subst i. destruct (Z.ltb_spec e e); [lia|]. rewrite Z.eqb_refl.
          destruct ((e + 1 <=? e) && (e <=? maxI s)) eqn:E2; [lia|reflexivity].
        - destruct (Z.eqb_spec i e); [lia|]. destruct (Z.ltb_spec e i) as [L|L].
          + destruct ((e + 1 <=? i) && (i <=? maxI s)) eqn:E2; [reflexivity|]. apply Hout. lia.
          + destruct ((e + 1 <=? i) && (i <=? maxI s)) eqn:E2; [lia|reflexivity]. }
      assert (Hl2 : len s2 = len s) by (unfold s2, len; cbn [with_range with_bins bins]; rewrite zlen_upd; exact Hl1).
      destruct (shift_counts_spec s2 (offset s - lo)) as (s3 & E3 & Hd3 & Hl3 & Ho3 & Hmi3 & Hma3 & Hc3 & Hk3).
      { unfold s2, s1. cproj. lia. }
      { unfold s2, s1. cproj. lia. }
      { rewrite Hl2. unfold s2, s1. cproj. lia. }
      { intros i Hi. rewrite Hd2. unfold s2, s1 in Hi. cproj. cbn [with_range with_bins minI maxI] in Hi.
        destruct (Z.ltb_spec e i); [reflexivity|]. destruct (Z.eqb_spec i e); [lia|]. apply Hout. lia. }
      { unfold s2, s1. cproj. lia. }
      { rewrite Hl2. unfold s2, s1. cproj. lia. }
      rewrite E3. eexists. split; [reflexivity|].
      unfold s2, s1 in Ho3, Hmi3, Hma3, Hc3, Hk3. cproj in Ho3. cproj in Hmi3. cproj in Hma3. cproj in Hc3. cproj in Hk3.
      split; [|unfold len in *; cproj; repeat split; try assumption; lia].
      intros j. unfold dget at 1. cproj. fold (dget s3 j). rewrite Hd3, Hd2. unfold clamph.
      destruct (Z.ltb_spec e j); [reflexivity|]. destruct (Z.eqb_spec j e) as [->|Nj]; [|reflexivity].
      rewrite (rsum_split (dget s) e e hi) by lia. rewrite rsum_one.
      unfold nn. rewrite (rsum_to_high (dget s) (maxI s) (e + 1) hi) by (try lia; intros; apply Hout; lia).
      reflexivity.
    + (* shift left, nothing to fold *)
      destruct (shift_counts_spec s (offset s - lo)) as (s3 & E3 & Hd3 & Hl3 & Ho3 & Hmi3 & Hma3 & Hc3 & Hk3);
        try assumption; try lia.
      rewrite E3. eexists. split; [reflexivity|].
      split; [|unfold len in *; cproj; repeat split; try assumption; lia].
      intros j. unfold dget at 1. cproj. fold (dget s3 j). rewrite Hd3. symmetry. apply (clamph_id _ _ _ (maxI s)); try lia.
      intros k Hk. apply Hout. lia.
Qed.

(* what extendRange establishes for the highest-collapsing store: the content is clamped at
   e = (new min) + n - 1, the window is [mn, min mx e] and lies inside the array *)
Definition hext_post (n : Z) (s : dense) (lo hi : Z) (s1 : dense) : Prop :=
  let mn := Z.min lo (minI s) in let mx := Z.max hi (maxI s) in let e := mn + n - 1 in
  (forall j, dget s1 j = clamph (dget s) mx e j) /\ count s1 = count s /\ lim s1 = lim s /\
  minI s1 = mn /\ maxI s1 = Z.min mx e /\ offset s1 <= minI s1 /\ maxI s1 < offset s1 + len s1 /\
  len s1 <= n /\
  (collapsed s1 = true -> len s1 = n /\ offset s1 = minI s1 /\ maxI s1 = minI s1 + n - 1) /\
  (collapsed s1 = false -> mx <= e).

Section HighOps.
Variable grow : Z -> Z.
Hypothesis grow_ge : forall d, d <= grow d.
Variable n : Z.
Hypothesis Hn : 1 <= n.

Lemma extend_range_high s lo hi :
  CI n s -> lim s = Highest n -> lo <= hi -> idx_ok lo -> idx_ok hi ->
  exists s1, extend_range grow true s lo hi = Some s1 /\ hext_post n s lo hi s1.
Proof.
  intros C Hk Hlh Il Ih. unfold extend_range, get_new_length, adjust, hext_post. cbv zeta.
  remember (Z.min lo (minI s)) as mn eqn:Emn. remember (Z.max hi (maxI s)) as mx eqn:Emx.
  pose proof (grow_ge (mx - mn + 1)) as Hg. pose proof (ci_len n s C) as Hlen.
  destruct (is_empty s) eqn:Hem.
  - (* empty receiver: allocate, then adjust *)
    apply is_empty_true in Hem. destruct (ci_sentinel n s C Hem) as [E1 E2].
    destruct (ci_empty n s C Hem) as [L0 Cf].
    assert (Hmn : mn = lo) by (unfold idx_ok, MaxInt32, MinInt32 in *; lia).
    assert (Hmx : mx = hi) by (unfold idx_ok, MaxInt32, MinInt32 in *; lia).
    assert (Hb0 : bins s = []) by (apply zlen_0_nil; exact L0).
    cproj. rewrite Hk, Hb0. cbn [app].
    set (n' := Z.min (grow (mx - mn + 1)) n).
    set (s0 := with_range (with_offset (with_bins s (zeros n')) mn) mn mx).
    assert (Hl0 : len s0 = n') by (unfold s0, len; cproj; rewrite zlen_zeros; lia).
    assert (Hz0 : forall j, dget s0 j = w0) by (intros j; unfold s0, dget; cproj; apply at_zeros).
    assert (Hzs : forall j, dget s j = w0) by (apply (ci_all_zero n s C Hem)).
    unfold adjust_highest. rewrite Hl0. destruct (Z.ltb_spec n' (mx - mn + 1)) as [Bc|Bc].
    + (* wider than the capacity: one (empty) bucket, collapsed *)
      assert (En' : n' = n) by lia. cbv zeta.
      assert (Em0 : is_empty s0 = true) by (apply is_empty_true; exact Hem).
      rewrite Em0. cbn [andb]. rewrite Bool.orb_true_r.
      destruct (Z.eqb_spec n' 0) as [Z0|_]; [lia|]. eexists. split; [reflexivity|].
      split.
      { intros j. unfold dget at 1. unfold s0. cproj. rewrite Hem.
        rewrite at_setw by (rewrite zlen_zeros; lia). rewrite at_zeros, clamph_zero by exact Hzs.
        now destruct (_ =? _). }
      unfold len, s0. cproj. rewrite zlen_setw, zlen_zeros.
      repeat split; try reflexivity; try exact Hk; try discriminate; lia.
    + destruct (center_counts_spec s0 mn mx) as (s' & E & Hd & Hl & Hmi & Hma & Hc & Hk' & Ho1 & Ho2);
        try (unfold s0; cproj; lia); try (rewrite Hl0; unfold s0; cproj; lia).
      { intros i _. apply Hz0. }
      rewrite E. exists s'. split; [reflexivity|].
      apply center_counts_collapsed in E.
      split. { intros j. rewrite Hd, Hz0, clamph_zero by exact Hzs. reflexivity. }
      unfold s0 in Hc, Hk', E. cproj in Hc. cproj in Hk'. cproj in E.
      repeat split; try assumption; try lia; try congruence.
  - (* non-empty receiver *)
    apply is_empty_false in Hem. destruct (ci_win n s C Hem) as (W1 & W2 & W3).
    destruct ((offset s <=? mn) && (mx <? offset s + len s)) eqn:Efit.
    + (* the range fits in the array *)
      eexists. split; [reflexivity|].
      split.
      { intros j. unfold dget at 1. cproj. fold (dget s j). symmetry.
        apply (clamph_id _ _ _ (maxI s)); try lia. intros k Hk'. apply (ci_out n s C). lia. }
      unfold len in *. cproj. repeat split; try reflexivity; try lia.
      all: match goal with X : collapsed _ = true |- _ => destruct (ci_coll n s C X) as (Y1 & Y2 & Y3) end; unfold len in *; lia.
    + rewrite Hk.
      set (n' := Z.min (grow (mx - mn + 1)) n).
      set (s0 := if len s <? n' then with_bins s (bins s ++ zeros (n' - len s)) else s).
      assert (Hs0 : (forall i, dget s0 i = dget s i) /\ offset s0 = offset s /\ minI s0 = minI s /\
                    maxI s0 = maxI s /\ count s0 = count s /\ lim s0 = lim s /\ collapsed s0 = collapsed s /\
                    len s <= len s0 /\ n' <= len s0 /\ len s0 <= n).
      { unfold s0. destruct (Z.ltb_spec (len s) n') as [L|L].
        - unfold dget, len. cproj. repeat split; auto.
          + intros i. apply at_app_zeros.
          + rewrite zlen_app. pose proof (zlen_nonneg (zeros (n' - zlen (bins s)))). lia.
          + rewrite zlen_app, zlen_zeros. unfold len in L. lia.
          + rewrite zlen_app, zlen_zeros. unfold len in L. lia.
        - repeat split; auto; lia. }
      destruct Hs0 as (Hd0 & Ho0 & Hmi0 & Hma0 & Hc0 & Hk0 & Hcl0 & Hl0a & Hl0b & Hl0c).
      assert (Hlim0 : lim s0 = Highest n) by congruence. rewrite Hlim0.
      destruct (Z_lt_dec (len s0) (mx - mn + 1)) as [Bc|Bc].
      * (* wider than the array: collapse; the array then has the full capacity *)
        assert (Eln : len s0 = n) by lia.
        destruct (adjust_highest_collapse s0 mn mx) as (s' & E & Hd & Hl & Ho & Hmi & Hma & Hc & Hk' & Hcl);
          try lia; try congruence.
        { intros i Hi. rewrite Hd0. apply (ci_out n s C). lia. }
        { rewrite Hc0, Hmi0, Hma0, (ci_count n s C). apply rsum_ext. intros; symmetry; apply Hd0. }
        rewrite E. exists s'. split; [reflexivity|].
        split. { intros j. rewrite Hd, Eln. apply clamph_ext. exact Hd0. }
        repeat split; try lia; try congruence.
      * (* the array is wide enough: recentre *)
        unfold adjust_highest. destruct (Z.ltb_spec (len s0) (mx - mn + 1)) as [X|_]; [lia|].
        destruct (center_counts_spec s0 mn mx) as (s' & E & Hd & Hl & Hmi & Hma & Hc & Hk' & Ho1 & Ho2); try lia.
        { intros i Hi. rewrite Hd0. apply (ci_out n s C). lia. }
        rewrite E. exists s'. split; [reflexivity|]. apply center_counts_collapsed in E.
        split.
        { intros j. rewrite Hd, Hd0. symmetry.
          apply (clamph_id _ _ _ (maxI s)); try lia. intros k Hk''. apply (ci_out n s C). lia. }
        repeat split; try lia; try congruence.
        all: match goal with X : collapsed _ = true |- _ => rewrite E, Hcl0 in X; destruct (ci_coll n s C X) as (Y1 & Y2 & Y3) end; lia.
Qed.
End HighOps.

Lemma CI_combine_high n s s2 (g : Z -> W) lo hi :
  1 <= n -> CI n s -> lo <= hi -> idx_ok lo -> idx_ok hi ->
  (forall i, (w0 <= g i)%Qc) -> (forall i, i < lo \/ hi < i -> g i = w0) ->
  (w0 < g lo)%Qc -> (w0 < g hi)%Qc ->
  let mn := Z.min lo (minI s) in let mx := Z.max hi (maxI s) in let e := mn + n - 1 in
  let F := fun j => wadd (dget s j) (g j) in
  (forall j, dget s2 j = clamph F mx e j) ->
  count s2 = wadd (count s) (rsum g lo hi) ->
  minI s2 = mn -> maxI s2 = Z.min mx e -> offset s2 <= minI s2 -> maxI s2 < offset s2 + len s2 ->
  len s2 <= n ->
  (collapsed s2 = true -> len s2 = n /\ offset s2 = minI s2 /\ maxI s2 = minI s2 + n - 1) ->
  CI n s2 /\ (forall j, get (dabs s2) j = clamph F mx e j) /\
  F mn <> w0 /\ (forall k, k < mn -> F k = w0) /\ (forall k, mx < k -> F k = w0).
Proof.
  intros Hn C Hlh Il Ih Gn Go Gl Gh mn mx e F Hd Hc Hmi Hma Ho1 Ho2 Hlen Hcoll.
  pose proof (ci_count_nonneg n s C) as Cn.
  pose proof (rsum_pos g lo hi Hlh Gn Gl) as Rp.
  assert (Cnz : count s2 <> w0) by (rewrite Hc; apply wlt_neq; now apply wadd_pos_r).
  assert (Fn : forall k, (w0 <= F k)%Qc) by (intros k; apply wadd_nonneg; [apply (ci_nonneg n s C)|apply Gn]).
  assert (Hends : (count s = w0 /\ mn = lo /\ mx = hi) \/
                  (count s <> w0 /\ minI s <= maxI s /\ idx_ok (minI s) /\ idx_ok (maxI s))).
  { destruct (w_eq_dec (count s) w0) as [E|N].
    - left. destruct (ci_sentinel n s C E) as [E1 E2]. unfold mn, mx. rewrite E1, E2.
      unfold idx_ok, MaxInt32, MinInt32 in *. repeat split; auto; lia.
    - right. destruct (ci_win n s C N) as (_ & W & _). destruct (ci_idx n s C N). auto. }
  assert (Hmm : mn <= mx) by (unfold mn, mx; lia).
  assert (Hemn : mn <= e) by (unfold e; lia).
  assert (Fout : forall k, k < mn \/ mx < k -> F k = w0).
  { intros k Hk. unfold F. rewrite (ci_out n s C k), (Go k) by (unfold mn, mx in Hk; lia). apply wadd_0_l. }
  assert (Fmn : (w0 < F mn)%Qc).
  { unfold F. destruct Hends as [(E & E1 & E2)|(N & W & _)].
    - rewrite E1. apply wadd_pos_r; [apply (ci_nonneg n s C)|exact Gl].
    - destruct (Z_le_dec lo (minI s)) as [L|L].
      + replace mn with lo by (unfold mn; lia). apply wadd_pos_r; [apply (ci_nonneg n s C)|exact Gl].
      + replace mn with (minI s) by (unfold mn; lia). apply wadd_pos_l; [apply (ci_ends n s C N)|apply Gn]. }
  assert (Fmx : (w0 < F mx)%Qc).
  { unfold F. destruct Hends as [(E & E1 & E2)|(N & W & _)].
    - rewrite E2. apply wadd_pos_r; [apply (ci_nonneg n s C)|exact Gh].
    - destruct (Z_le_dec (maxI s) hi) as [L|L].
      + replace mx with hi by (unfold mx; lia). apply wadd_pos_r; [apply (ci_nonneg n s C)|exact Gh].
      + replace mx with (maxI s) by (unfold mx; lia). apply wadd_pos_l; [apply (ci_ends n s C N)|apply Gn]. }
  assert (I2 : Inv (as_exact s2)).
  { constructor.
    - reflexivity.
    - intros i. change (dget (as_exact s2) i) with (dget s2 i). rewrite Hd. now apply clamph_nonneg.
    - intros i Hi. change (dget (as_exact s2) i) with (dget s2 i). cbn [as_exact minI maxI] in Hi.
      rewrite Hd. apply (clamph_out F mn e mx); [exact Fout|exact Hemn|lia].
    - cbn [as_exact count minI maxI]. change (dget (as_exact s2)) with (dget s2).
      rewrite (rsum_ext (dget s2) (clamph F mx e)) by (intros; apply Hd).
      rewrite Hmi, Hma, rsum_clamph by assumption. rewrite Hc. unfold F. rewrite rsum_add. f_equal.
      + rewrite (ci_count n s C). symmetry.
        destruct Hends as [(E & E1 & E2)|(N & W & _)].
        * rewrite (rsum_zero (dget s) mn mx) by (intros; now apply (ci_all_zero n s C)).
          symmetry. apply rsum_zero. intros; now apply (ci_all_zero n s C).
        * apply rsum_widen; [apply (ci_out n s C)| | |]; unfold mn, mx; lia.
      + symmetry. apply rsum_widen; [exact Go| | |]; unfold mn, mx; lia.
    - intros E. contradiction.
    - intros _. cbn [as_exact offset minI maxI]. change (len (as_exact s2)) with (len s2). lia.
    - intros _. cbn [as_exact minI maxI]. change (dget (as_exact s2)) with (dget s2). rewrite !Hd, Hmi, Hma. split.
      + unfold clamph. destruct (Z.ltb_spec e mn); [lia|].
        destruct (Z.eqb_spec mn e) as [Ee|Ne]; [|exact Fmn].
        apply (rsum_pos_at F e mx mn); [exact Fn|lia|exact Fmn].
      + unfold clamph. destruct (Z.ltb_spec e (Z.min mx e)); [lia|].
        destruct (Z.eqb_spec (Z.min mx e) e) as [Ee|Ne].
        * apply (rsum_pos_at F e mx mx); [exact Fn|lia|exact Fmx].
        * replace (Z.min mx e) with mx by lia. exact Fmx.
    - intros _. cbn [as_exact minI maxI]. rewrite Hmi, Hma.
      assert (idx_ok mn /\ idx_ok mx).
      { destruct Hends as [(E & E1 & E2)|(N & W & J1 & J2)].
        - rewrite E1, E2. now split.
        - unfold idx_ok, mn, mx in *. lia. }
      unfold idx_ok in *. lia. }
  assert (C2 : CI n s2).
  { constructor; [exact I2|exact Hlen| |exact Hcoll]. intros E. contradiction. }
  split; [exact C2|]. split; [|split; [now apply wlt_neq|split]].
  - intros j. now rewrite (ci_get_dabs n s2 C2).
  - intros k Hk. apply Fout. lia.
  - intros k Hk. apply Fout. lia.
Qed.

Lemma hext_post_self n s lo hi :
  CI n s -> count s <> w0 -> minI s <= lo -> hi <= maxI s -> hext_post n s lo hi s.
Proof.
  intros C N H1 H2. destruct (ci_win n s C N) as (W1 & W2 & W3). pose proof (ci_span n s C N) as Sp.
  pose proof (ci_len n s C) as Hl. unfold hext_post. cbv zeta. split.
  { intros j. symmetry. apply (clamph_id _ _ _ (maxI s)); try lia. intros k Hk'. apply (ci_out n s C). lia. }
  repeat split; try lia.
  all: match goal with X : collapsed _ = true |- _ => destruct (ci_coll n s C X) as (Y1 & Y2 & Y3) end; lia.
Qed.

Section HighAdd.
Variable grow : Z -> Z.
Hypothesis grow_ge : forall d, d <= grow d.
Variable n : Z.
Hypothesis Hn : 1 <= n.

Lemma normalize_high s i :
  CI n s -> lim s = Highest n -> idx_ok i ->
  exists s1, normalize grow true s i = Some (s1, Z.min i (Z.min i (minI s) + n - 1) - offset s1) /\
             hext_post n s i i s1.
Proof.
  intros C Hk Ii. unfold normalize. rewrite Hk.
  destruct (Z.ltb_spec (maxI s) i) as [B1|B1].
  - destruct (collapsed s) eqn:Ec.
    + (* already collapsed: last slot *)
      destruct (ci_coll n s C Ec) as (Y1 & Y2 & Y3).
      assert (N : count s <> w0) by (intros E; destruct (ci_empty n s C E); congruence).
      destruct (ci_win n s C N) as (W1 & W2 & W3).
      exists s. split; [do 2 f_equal; lia|]. unfold hext_post. cbv zeta.
      split.
      { intros j. symmetry. apply (clamph_id _ _ _ (maxI s)); try lia. intros k Hk'. apply (ci_out n s C). lia. }
      pose proof (ci_len n s C). repeat split; try lia; try congruence.
    + destruct (extend_range_high grow grow_ge n Hn s i i C Hk (Z.le_refl i) Ii Ii) as (s1 & E1 & P).
      rewrite E1. exists s1. split; [|exact P].
      unfold hext_post in P. cbv zeta in P.
      destruct P as (_ & _ & _ & Hmi & Hma & _ & _ & _ & Hct & Hcf).
      destruct (collapsed s1) eqn:Ec1.
      * destruct (Hct eq_refl) as (Y1 & Y2 & Y3). do 2 f_equal. lia.
      * specialize (Hcf eq_refl). do 2 f_equal. lia.
  - destruct (Z.ltb_spec i (minI s)) as [B2|B2].
    + destruct (extend_range_high grow grow_ge n Hn s i i C Hk (Z.le_refl i) Ii Ii) as (s1 & E1 & P).
      rewrite E1. exists s1. split; [|exact P]. do 2 f_equal. clear - Hn B1 B2. lia.
    + assert (N : count s <> w0) by (apply (ci_nonempty_iff n s C); lia).
      pose proof (ci_span n s C N) as Sp.
      exists s. split; [do 2 f_equal; lia|]. apply hext_post_self; auto; lia.
Qed.

Theorem add_with_count_high s i c :
  CI n s -> lim s = Highest n -> idx_ok i -> (w0 < c)%Qc ->
  exists s', add_with_count grow true s i c = Some s' /\ CI n s' /\ lim s' = Highest n /\
             dabs s' = sadd (Highest n) (dabs s) i c.
Proof.
  intros C Hk Ii Hc. unfold add_with_count.
  assert (Ec : weqb c w0 = false) by (apply weqb_neq; now apply wlt_neq). rewrite Ec.
  destruct (normalize_high s i C Hk Ii) as (s1 & E & P). rewrite E.
  unfold hext_post in P. cbv zeta in P.
  destruct P as (Hd & Hcn & Hk1 & Hmi & Hma & Ho1 & Ho2 & Hl1 & Hct & Hcf).
  set (mn := Z.min i (minI s)) in *. set (mx := Z.max i (maxI s)) in *. set (e := mn + n - 1) in *.
  assert (Hb : in_bounds s1 (Z.min i e - offset s1) = true) by (unfold in_bounds; lia). rewrite Hb.
  eexists. split; [reflexivity|].
  match goal with |- CI n ?s2 /\ _ =>
    destruct (CI_combine_high n s s2 (fun k => if k =? i then c else w0) i i) as (C2 & Hg & F1 & F2 & F3) end;
    try assumption; try lia.
  - intros k. destruct (k =? i); [now apply wlt_le|apply wle_refl].
  - intros k Hk'. destruct (Z.eqb_spec k i); [lia|reflexivity].
  - now rewrite Z.eqb_refl.
  - now rewrite Z.eqb_refl.
  - intros j. rewrite clamph_add. fold mn mx e. rewrite <- Hd, clamph_point by (unfold mx; lia).
    unfold dget at 1. cproj. unfold in_bounds, len in Hb. rewrite at_upd by lia. fold (dget s1 j).
    destruct (Z.eqb_spec (j - offset s1) (Z.min i e - offset s1)); destruct (Z.eqb_spec j (Z.min i e)); try lia;
      [reflexivity|now rewrite wadd_0_r].
  - cproj. rewrite rsum_one, Z.eqb_refl. now rewrite Hcn.
  - unfold len. cproj. rewrite zlen_upd. exact Ho2.
  - unfold len. cproj. rewrite zlen_upd. exact Hl1.
  - cproj. unfold len. cproj. rewrite zlen_upd. exact Hct.
  - split; [exact C2|]. split; [cproj; congruence|].
    unfold sadd, norm. fold mn mx e in Hg, F1, F2, F3.
    assert (Hb0 : badd0 (dabs s) i c = badd (dabs s) i c) by (apply badd0_nz; now apply wlt_neq).
    rewrite Hb0.
    apply (dabs_is_clamp_high n _ _ _ mn mx) with (5 := F2) (6 := F3); try exact F1.
    + apply wf_badd; [apply dabs_wf|apply (ci_dabs_pos n s C)|exact Hc].
    + apply pos_badd; [apply (ci_dabs_pos n s C)|exact Hc].
    + intros k. rewrite BinsProofs.get_badd by apply dabs_wf. rewrite !(ci_get_dabs n s C).
      destruct (Z.eqb_spec k i) as [->|N]; [reflexivity|now rewrite wadd_0_r].
    + exact Hg.
Qed.

Theorem add_with_count_high0 s i c :
  CI n s -> lim s = Highest n -> idx_ok i -> (w0 <= c)%Qc ->
  exists s', add_with_count grow true s i c = Some s' /\ CI n s' /\ lim s' = Highest n /\
             dabs s' = sadd (Highest n) (dabs s) i c.
Proof.
  intros C Hk Ii Hc. destruct (weqb c w0) eqn:E.
  - apply weqb_eq in E. subst c. exists s. split; [reflexivity|]. split; [exact C|]. split; [exact Hk|].
    unfold sadd. rewrite badd0_zero. cbn [norm]. symmetry. now apply clamp_high_fix.
  - apply weqb_neq in E. apply add_with_count_high; auto. now apply wpos_of_nonneg_nz.
Qed.
End HighAdd.

Section HighMerge.
Variable grow : Z -> Z.
Hypothesis grow_ge : forall d, d <= grow d.
Variable n : Z.
Hypothesis Hn : 1 <= n.

Theorem merge_same_high s o :
  CI n s -> lim s = Highest n -> WInv o -> count o <> w0 ->
  exists s', merge_same grow true s o = Some s' /\ CI n s' /\ lim s' = Highest n /\
             dabs s' = clamp_high n (bmerge (dabs s) (dabs o)).
Proof.
  intros C Hk Io No. unfold merge_same.
  destruct (inv_win _ Io No) as (V1 & V2 & V3). destruct (inv_idx _ Io No) as [J1 J2].
  pose proof (inv_out _ Io) as Oout. pose proof (inv_nonneg _ Io) as Onn.
  destruct (inv_ends _ Io No) as [Oe1 Oe2]. pose proof (inv_count _ Io) as Ocnt.
  cbn [as_exact offset minI maxI count] in V1, V2, V3, J1, J2, Oout, Oe1, Oe2, Ocnt.
  change (len (as_exact o)) with (len o) in V3. change (dget (as_exact o)) with (dget o) in *.
  assert (Hs1 : exists s1, (if (minI o <? minI s) || (maxI s <? maxI o)
                            then extend_range grow true s (minI o) (maxI o) else Some s) = Some s1 /\
                           hext_post n s (minI o) (maxI o) s1).
  { destruct ((minI o <? minI s) || (maxI s <? maxI o)) eqn:E.
    - now apply extend_range_high.
    - exists s. split; [reflexivity|].
      assert (N : count s <> w0) by (apply (ci_nonempty_iff n s C); lia).
      apply hext_post_self; auto; lia. }
  destruct Hs1 as (s1 & E1 & P). rewrite E1.
  unfold hext_post in P. cbv zeta in P.
  destruct P as (Hd & Hcn & Hk1 & Hmi & Hma & Ho1 & Ho2 & Hl1 & Hct & Hcf).
  set (mn := Z.min (minI o) (minI s)) in *. set (mx := Z.max (maxI o) (maxI s)) in *. set (e := mn + n - 1) in *.
  destruct (Z.ltb_spec (maxI o) (minI o)) as [L|_]; [lia|].
  assert (Hbo : in_bounds o (minI o - offset o) && in_bounds o (maxI o - offset o) = true)
    by (unfold in_bounds; lia). rewrite Hbo. clear Hbo. cbn [negb]. rewrite Hk1, Hk. cbv beta iota zeta.
  set (cnt := maxI o - minI o + 1).
  set (k := Z.max 0 (Z.min cnt (maxI o - maxI s1))).
  assert (Hk0 : 0 <= k <= cnt) by (unfold k, cnt; lia).
  rewrite (firstn_slice (bins o) (minI o - offset o) cnt (cnt - k)) by (unfold len, cnt in *; lia).
  rewrite (skipn_slice (bins o) (minI o - offset o) cnt (cnt - k)) by (unfold len, cnt in *; lia).
  rewrite (sumW_slice_rsum (bins o) (minI o - offset o + (cnt - k)) (cnt - (cnt - k))) by (unfold len, cnt in *; lia).
  rewrite <- (rsum_shift (at_ (bins o)) (offset o)).
  replace (minI o - offset o + (cnt - k) + offset o) with (maxI o - k + 1) by (unfold cnt; lia).
  replace (minI o - offset o + (cnt - k) + (cnt - (cnt - k)) - 1 + offset o) with (maxI o) by (unfold cnt; lia).
  change (fun i => at_ (bins o) (i - offset o)) with (dget o).
  set (S := rsum (dget o) (maxI o - k + 1) (maxI o)).
  set (keep := slice (bins o) (minI o - offset o) (cnt - k)).
  assert (Hzr : zlen keep = cnt - k) by (unfold keep; apply zlen_slice; unfold len, cnt in *; lia).
  assert (Hkeep : forall x, at_ keep x = if (0 <=? x) && (x <? cnt - k) then dget o (minI o + x) else w0).
  { intros x. unfold keep. rewrite at_slice by lia. destruct ((0 <=? x) && (x <? cnt - k)); [|reflexivity]. unfold dget. f_equal. lia. }
  (* when some of the argument lies above the receiver's window, the receiver is collapsed *)
  assert (Hcol : 0 < k -> len s1 = n /\ offset s1 = mn /\ maxI s1 = e /\ e < mx).
  { intros Hk'. destruct (collapsed s1) eqn:Ec.
    - destruct (Hct eq_refl) as (Y1 & Y2 & Y3). unfold k in Hk'. unfold mx in *. lia.
    - specialize (Hcf eq_refl). unfold k in Hk'. unfold mx in *. lia. }
  assert (HS : 0 < k -> S = rsum (dget o) (e + 1) mx).
  { intros Hk'. destruct (Hcol Hk') as (Y1 & Y2 & Y3 & Y4). unfold S.
    rewrite (rsum_to_high (dget o) (maxI o) (e + 1) mx) by (try (unfold mx; lia); intros; apply Oout; lia).
    symmetry. apply rsum_from_low; [intros i Hi|unfold k; lia].
    destruct (Z_lt_dec i (minI o)); [apply Oout; lia|]. unfold k, cnt in Hi. lia. }
  assert (Hfin : forall b2,
            (forall j, at_ b2 (j - offset s1) = wadd (dget s1 j) (clamph (dget o) mx e j)) -> zlen b2 = len s1 ->
            let s2 := with_count (with_bins s1 b2) (wadd (count s1) (count o)) in
            CI n s2 /\ lim s2 = Highest n /\ dabs s2 = clamp_high n (bmerge (dabs s) (dabs o))).
  { intros b2 Hb2 Hz2 s2.
    destruct (CI_combine_high n s s2 (dget o) (minI o) (maxI o)) as (C2 & Hg & F1 & F2 & F3); try assumption; try lia.
    - intros j. rewrite clamph_add. fold mn mx e. rewrite <- Hd. unfold s2, dget at 1. cproj. apply Hb2.
    - unfold s2. cproj. rewrite Hcn. f_equal. exact Ocnt.
    - unfold s2, len. cproj. rewrite Hz2. exact Ho2.
    - unfold s2, len. cproj. rewrite Hz2. exact Hl1.
    - unfold s2, len. cproj. rewrite Hz2. exact Hct.
    - split; [exact C2|]. split; [unfold s2; cproj; congruence|].
      fold mn mx e in Hg, F1, F2, F3.
      assert (Po : pos (dabs o)) by (apply tab_pos'; exact Onn).
      apply (dabs_is_clamp_high n _ _ _ mn mx) with (5 := F2) (6 := F3); try exact F1.
      + apply wf_bmerge; [apply dabs_wf|apply (ci_dabs_pos n s C)|exact Po].
      + apply pos_bmerge; [apply dabs_wf|apply (ci_dabs_pos n s C)|exact Po].
      + intros j. rewrite get_bmerge; [|apply dabs_wf|apply (ci_dabs_pos n s C)|apply dabs_wf|exact Po].
        rewrite (ci_get_dabs n s C). f_equal. apply (get_dabs _ j Io).
      + exact Hg. }
  destruct (Z.ltb_spec 0 k) as [Kp|Kz].
  - destruct (Hcol Kp) as (Y1 & Y2 & Y3 & Y4).
    assert (Hb0 : in_bounds s1 (len s1 - 1) = true) by (unfold in_bounds; lia). rewrite Hb0.
    destruct (Z.ltb_spec k cnt) as [Kc|Kc].
    + assert (Ek : maxI o - k = e) by (unfold k, cnt in *; lia).
      assert (Hb1 : in_bounds s1 (minI o - offset s1) && in_bounds s1 (maxI o - k - offset s1) = true)
        by (unfold in_bounds, mn, cnt in *; lia). rewrite Hb1.
      eexists. split; [reflexivity|]. apply Hfin.
      * intros j. unfold in_bounds in Hb0. unfold len in *.
        rewrite at_add_slice by (rewrite ?zlen_upd, ?Hzr; unfold mn, cnt in *; lia).
        rewrite at_upd by lia. rewrite Hkeep. fold (dget s1 j). rewrite (HS Kp). unfold clamph.
        destruct (Z.ltb_spec e j) as [Q1|Q1]; [|destruct (Z.eqb_spec j e) as [Q2|Q2]].
        -- destruct (Z.eqb_spec (j - offset s1) (zlen (bins s1) - 1)); [lia|].
           destruct ((0 <=? j - offset s1 - (minI o - offset s1)) && (j - offset s1 - (minI o - offset s1) <? cnt - k)) eqn:Q3; [unfold cnt in *; lia|reflexivity].
        -- subst j. destruct (Z.eqb_spec (e - offset s1) (zlen (bins s1) - 1)); [|lia].
           destruct ((0 <=? e - offset s1 - (minI o - offset s1)) && (e - offset s1 - (minI o - offset s1) <? cnt - k)) eqn:Q3; [|unfold cnt in *; lia].
           rewrite (rsum_split (dget o) e e mx) by lia. rewrite rsum_one.
           replace (minI o + (e - offset s1 - (minI o - offset s1))) with e by lia.
           rewrite !wadd_assoc. f_equal. apply wadd_comm.
        -- destruct (Z.eqb_spec (j - offset s1) (zlen (bins s1) - 1)); [lia|].
           destruct ((0 <=? j - offset s1 - (minI o - offset s1)) && (j - offset s1 - (minI o - offset s1) <? cnt - k)) eqn:Q3.
           ++ do 2 f_equal. lia.
           ++ f_equal. symmetry. apply Oout. unfold cnt in Q3. lia.
      * rewrite zlen_add_slice, zlen_upd. reflexivity.
    + eexists. split; [reflexivity|]. apply Hfin.
      * intros j. unfold in_bounds in Hb0. unfold len in *. rewrite at_upd by lia. fold (dget s1 j). rewrite (HS Kp). unfold clamph.
        assert (Ek : e < minI o) by (unfold k, cnt in *; lia).
        destruct (Z.ltb_spec e j) as [Q1|Q1]; [|destruct (Z.eqb_spec j e) as [Q2|Q2]].
        -- destruct (Z.eqb_spec (j - offset s1) (zlen (bins s1) - 1)); [lia|now rewrite wadd_0_r].
        -- subst j. destruct (Z.eqb_spec (e - offset s1) (zlen (bins s1) - 1)); [|lia].
           rewrite (rsum_split (dget o) e e mx) by lia. rewrite rsum_one.
           rewrite (Oout e) by lia. now rewrite wadd_0_l.
        -- destruct (Z.eqb_spec (j - offset s1) (zlen (bins s1) - 1)); [lia|]. rewrite (Oout j) by lia. now rewrite wadd_0_r.
      * apply zlen_upd.
  - assert (K0 : k = 0) by lia.
    destruct (Z.ltb_spec k cnt) as [Kc|Kc]; [|unfold cnt in Kc; lia].
    assert (Hb1 : in_bounds s1 (minI o - offset s1) && in_bounds s1 (maxI o - k - offset s1) = true)
      by (unfold in_bounds, k, cnt, mn in *; lia). rewrite Hb1.
    eexists. split; [reflexivity|]. apply Hfin.
    + intros j. rewrite at_add_slice by (rewrite ?Hzr; unfold len, k, cnt, mn in *; lia).
      rewrite Hkeep. fold (dget s1 j). f_equal.
      rewrite (clamph_id (dget o) mx e (maxI o)) by (try (intros; apply Oout); unfold k, cnt, mx in *; lia).
      destruct ((0 <=? j - offset s1 - (minI o - offset s1)) && (j - offset s1 - (minI o - offset s1) <? cnt - k)) eqn:Q3.
      * f_equal. lia.
      * symmetry. apply Oout. unfold cnt in Q3. lia.
    + apply zlen_add_slice.
Qed.
End HighMerge.

Section HighList.
Variable grow : Z -> Z.
Hypothesis grow_ge : forall d, d <= grow d.
Variable n : Z.
Hypothesis Hn : 1 <= n.

Theorem add_list_high l : forall s,
  CI n s -> lim s = Highest n -> bins_ok l ->
  exists s', add_list grow true s l = Some s' /\ CI n s' /\ lim s' = Highest n /\
             dabs s' = smerge_list (Highest n) (dabs s) l.
Proof.
  induction l as [|[k w] l IH]; intros s C Hk Hl.
  - exists s. split; [reflexivity|]. split; [exact C|]. split; [exact Hk|reflexivity].
  - destruct (Hl k w (or_introl eq_refl)) as [Hki Hw].
    destruct (add_with_count_high0 grow grow_ge n Hn s k w C Hk Hki Hw) as (s1 & E1 & C1 & K1 & A1).
    destruct (IH s1 C1 K1) as (s' & E' & C' & K' & A'). { intros k' w' Hi. apply Hl. now right. }
    exists s'. rewrite add_list_cons. cbn [fst snd]. rewrite E1.
    split; [exact E'|]. split; [exact C'|]. split; [exact K'|].
    rewrite A', A1. reflexivity.
Qed.

Lemma smerge_list_high_fix s l :
  CI n s -> nonneg l -> smerge_list (Highest n) (dabs s) l = clamp_high n (bmerge_list (dabs s) l).
Proof.
  intros C Hl. rewrite <- (clamp_high_fix n s Hn C) at 1.
  apply (smerge_list_norm (Highest n) (dabs s) l); [exact Hn|apply dabs_wf|apply (ci_dabs_pos n s C)|exact Hl].
Qed.

Theorem merge_dense_high s o :
  CI n s -> lim s = Highest n -> WInv o ->
  exists s', merge_dense grow true s o = Some s' /\ CI n s' /\ lim s' = Highest n /\
             dabs s' = norm (Highest n) (bmerge (dabs s) (dabs o)).
Proof.
  intros C Hk Io. unfold merge_dense. cbn [norm]. destruct (is_empty o) eqn:E.
  - apply is_empty_true in E. exists s. rewrite (dabs_empty_winv o Io E), bmerge_nil_r.
    split; [reflexivity|]. split; [exact C|]. split; [exact Hk|]. symmetry. now apply clamp_high_fix.
  - apply is_empty_false in E.
    assert (Hfb : exists s', match foreach o with None => None | Some l => add_list grow true s l end = Some s' /\
                    CI n s' /\ lim s' = Highest n /\ dabs s' = clamp_high n (bmerge (dabs s) (dabs o))).
    { rewrite (foreach_winv o Io).
      destruct (add_list_high (dabs o) s C Hk (dabs_bins_ok o Io)) as (s' & E' & C' & K' & A').
      exists s'. split; [exact E'|]. split; [exact C'|]. split; [exact K'|].
      rewrite A'. apply smerge_list_high_fix; [exact C|]. apply nonneg_of_bins_ok. now apply dabs_bins_ok. }
    rewrite Hk. destruct (lim o) as [|m|m]; cbn [same_type]; try exact Hfb.
    now apply merge_same_high.
Qed.
Corollary merge_dense_high_stepwise s o :
  CI n s -> lim s = Highest n -> WInv o ->
  exists s', merge_dense grow true s o = Some s' /\ CI n s' /\ lim s' = Highest n /\
             dabs s' = smerge_list (Highest n) (dabs s) (dabs o).
Proof.
  intros C Hk Io. destruct (merge_dense_high s o C Hk Io) as (s' & E & C' & K' & A').
  exists s'. split; [exact E|]. split; [exact C'|]. split; [exact K'|]. rewrite A'. cbn [norm].
  symmetry. apply smerge_list_high_fix; [exact C|]. apply nonneg_of_bins_ok. now apply dabs_bins_ok.
Qed.
End HighList.

(* ================================================================== *)
(* Part 5: observers, reweight, clear, histories (both kinds)          *)
(* ================================================================== *)

(* ---- observers: they only look at the cells, so the plain-store proofs apply to [as_exact] ---- *)
Theorem foreach_ci n s : CI n s -> foreach s = Some (dabs s).
Proof. intros C. exact (foreach_spec (as_exact s) (ci_inv n s C)). Qed.
Theorem foreach_abs_ci n s : CI n s -> exists l, foreach s = Some l /\ bins_of_list l = dabs s.
Proof. intros C. exact (foreach_abs (as_exact s) (ci_inv n s C)). Qed.
Theorem key_at_rank_ci n s r :
  CI n s -> count s <> w0 -> key_at_rank (dabs s) r = Some (key_at_rank_d s r).
Proof. intros C N. exact (key_at_rank_d_spec (as_exact s) r (ci_inv n s C) N). Qed.
Theorem total_ci n s : CI n s -> total_d s = total (dabs s).
Proof. intros C. exact (total_d_spec (as_exact s) (ci_inv n s C)). Qed.
Theorem is_empty_ci n s : CI n s -> is_empty s = is_emptyb (dabs s).
Proof. intros C. exact (is_empty_spec (as_exact s) (ci_inv n s C)). Qed.
Theorem min_index_ci n s : CI n s -> min_index_d s = min_key (dabs s).
Proof. intros C. exact (min_index_d_spec (as_exact s) (ci_inv n s C)). Qed.
Theorem max_index_ci n s : CI n s -> max_index_d s = max_key (dabs s).
Proof. intros C. exact (max_index_d_spec (as_exact s) (ci_inv n s C)). Qed.

(* ---- Reweight ---- *)
Lemma CI_transfer n s s' :
  CI n s -> Inv (as_exact s') -> len s' = len s -> (count s' = w0 -> count s = w0) ->
  collapsed s' = collapsed s -> offset s' = offset s -> minI s' = minI s -> maxI s' = maxI s -> CI n s'.
Proof.
  intros C I' Hl Hc Hcl Ho Hmi Hma. constructor.
  - exact I'.
  - rewrite Hl. apply (ci_len n s C).
  - intros E. rewrite Hl, Hcl. apply (ci_empty n s C). now apply Hc.
  - intros X. rewrite Hl, Ho, Hmi, Hma. apply (ci_coll n s C). now rewrite <- Hcl.
Qed.

Theorem reweight_ci n s w :
  CI n s -> (w0 < w)%Qc ->
  exists s', reweight_d s w = Some (Some s') /\ CI n s' /\ lim s' = lim s /\ collapsed s' = collapsed s /\
             dabs s' = bscale w (dabs s).
Proof.
  intros C Hw. destruct (reweight_d_spec (as_exact s) w (ci_inv n s C) Hw) as (e' & E & I' & A').
  assert (Hwn : w <> w0) by now apply wlt_neq.
  unfold reweight_d in *. cbn [as_exact minI maxI offset count bins] in E.
  change (in_bounds (as_exact s)) with (in_bounds s) in E.
  destruct (wleb w w0); [discriminate|]. destruct (weqb w w1).
  - exists s. inversion E; subst e'. split; [reflexivity|]. split; [exact C|]. repeat split; try exact A'.
  - destruct (maxI s <? minI s).
    + inversion E; subst e'. eexists. split; [reflexivity|]. split; [|repeat split; try exact A'].
      apply (CI_transfer n s); try reflexivity; [exact C|exact I'|].
      cproj. intros X. now apply (wmul_eq0 _ w).
    + destruct (in_bounds s (minI s - offset s) && in_bounds s (maxI s - offset s)); [|discriminate].
      inversion E; subst e'. eexists. split; [reflexivity|]. split; [|repeat split; try exact A'].
      apply (CI_transfer n s); try reflexivity; [exact C|exact I'| |].
      * unfold len. cproj. apply zlen_map_range.
      * cproj. intros X. now apply (wmul_eq0 _ w).
Qed.

(* ---- Clear ---- *)
Theorem clear_ci n s :
  0 <= n -> CI n (clear_d s) /\ lim (clear_d s) = lim s /\ collapsed (clear_d s) = false /\ dabs (clear_d s) = [].
Proof. intros Hn. split; [now apply CI_clear|]. split; [reflexivity|]. split; [reflexivity|]. apply dabs_clear. Qed.
Lemma dabs_new_any l : dabs (new_dense l) = [].
Proof. unfold dabs. apply tab_nil. cbn [new_dense minI maxI]. unfold MaxInt32, MinInt32. lia. Qed.
Lemma norm_nil L : norm L [] = [].
Proof. destruct L; reflexivity. Qed.

(* ---- histories ---- *)
(* the operations of DenseProofs.op; the argument of a merge is any member of the dense family *)
Definition cop_ok (x : op) : Prop :=
  match x with
  | OAdd i c => idx_ok i /\ (w0 <= c)%Qc
  | OClear => True
  | OReweight w => (w0 < w)%Qc
  | OMerge o => WInv o
  end.

Section Hist.
Variable grow : Z -> Z.
Variable n : Z.
Variable L : limit.
Hypothesis Hn : 1 <= n.
Hypothesis HL : limit_ok L.
Hypothesis step_add : forall s i c,
  CI n s -> lim s = L -> idx_ok i -> (w0 <= c)%Qc ->
  exists s', add_with_count grow true s i c = Some s' /\ CI n s' /\ lim s' = L /\ dabs s' = sadd L (dabs s) i c.
Hypothesis step_merge : forall s o,
  CI n s -> lim s = L -> WInv o ->
  exists s', merge_dense grow true s o = Some s' /\ CI n s' /\ lim s' = L /\
             dabs s' = norm L (bmerge (dabs s) (dabs o)).

(* s represents norm L X, where X is the exact (never collapsed) content of the same history *)
Definition rep (s : dense) (X : list (Z * W)) : Prop :=
  CI n s /\ lim s = L /\ wf X = true /\ pos X /\ dabs s = norm L X.

Lemma run_op_rep s X x :
  rep s X -> cop_ok x -> exists s', run_op grow true s x = Some s' /\ rep s' (arun_op X x).
Proof.
  intros (C & Hk & Hwf & Hp & A) Hx. destruct x as [i c| |w|o]; cbn [run_op arun_op cop_ok] in *.
  - destruct Hx as [Hi Hc]. destruct (step_add s i c C Hk Hi Hc) as (s' & E & C' & K' & A').
    exists s'. split; [exact E|]. split; [exact C'|]. split; [exact K'|].
    split; [now apply wf_badd0|]. split; [now apply pos_badd0|].
    rewrite A', A. now apply sadd_norm.
  - exists (clear_d s). split; [reflexivity|]. split; [apply CI_clear; lia|]. split; [exact Hk|].
    split; [reflexivity|]. split; [constructor|]. now rewrite dabs_clear, norm_nil.
  - destruct (reweight_ci n s w C Hx) as (s' & E & C' & K' & _ & A'). rewrite E.
    exists s'. split; [reflexivity|]. split; [exact C'|]. split; [congruence|].
    split; [now apply BinsProofs.wf_bscale|]. split; [now apply pos_bscale|].
    rewrite A', A. symmetry. now apply norm_bscale.
  - destruct (step_merge s o C Hk Hx) as (s' & E & C' & K' & A').
    pose proof (dabs_pos_winv o Hx) as Po.
    exists s'. split; [exact E|]. split; [exact C'|]. split; [exact K'|].
    split; [now apply wf_bmerge|]. split; [now apply pos_bmerge|].
    rewrite A', A. now apply norm_absorb.
Qed.

Theorem run_rep ops : forall s X,
  rep s X -> Forall cop_ok ops -> exists s', run grow true s ops = Some s' /\ rep s' (arun X ops).
Proof.
  induction ops as [|x ops IH]; intros s X R Hok.
  - exists s. split; [reflexivity|exact R].
  - inversion Hok as [|? ? Hx Hops]; subst.
    destruct (run_op_rep s X x R Hx) as (s1 & E1 & R1).
    destruct (IH s1 _ R1 Hops) as (s' & E' & R').
    exists s'. rewrite run_cons, E1. split; [exact E'|exact R'].
Qed.

Lemma rep_new : rep (new_dense L) [].
Proof.
  split; [apply CI_new; lia|]. split; [reflexivity|]. split; [reflexivity|]. split; [constructor|].
  now rewrite dabs_new_any, norm_nil.
Qed.
Lemma rep_clear s : lim s = L -> rep (clear_d s) [].
Proof.
  intros Hk. split; [apply CI_clear; lia|]. split; [exact Hk|]. split; [reflexivity|]. split; [constructor|].
  now rewrite dabs_clear, norm_nil.
Qed.

(* after ANY history the content is the clamp of the exact content of that history *)
Theorem history_is_norm ops :
  Forall cop_ok ops ->
  exists s, run grow true (new_dense L) ops = Some s /\ CI n s /\ lim s = L /\
            dabs s = norm L (arun [] ops) /\ total (dabs s) = total (arun [] ops).
Proof.
  intros Hok. destruct (run_rep ops _ _ rep_new Hok) as (s & E & C & K & _ & _ & A).
  exists s. split; [exact E|]. split; [exact C|]. split; [exact K|]. split; [exact A|].
  rewrite A. apply total_norm.
Qed.

(* a cleared store behaves like a new one: no earlier collapsed state (nor offset) leaks *)
Theorem clear_like_new_c s ops :
  lim s = L -> Forall cop_ok ops ->
  exists s1 s2, run grow true (clear_d s) ops = Some s1 /\ run grow true (new_dense L) ops = Some s2 /\
                CI n s1 /\ CI n s2 /\ dabs s1 = dabs s2.
Proof.
  intros Hk Hok.
  destruct (run_rep ops _ _ (rep_clear s Hk) Hok) as (s1 & E1 & C1 & _ & _ & _ & A1).
  destruct (run_rep ops _ _ rep_new Hok) as (s2 & E2 & C2 & _ & _ & _ & A2).
  exists s1, s2. split; [exact E1|]. split; [exact E2|]. split; [exact C1|]. split; [exact C2|]. congruence.
Qed.
End Hist.

Section HistInst.
Variable grow : Z -> Z.
Hypothesis grow_ge : forall d, d <= grow d.
Variable n : Z.
Hypothesis Hn : 1 <= n.

Theorem history_low ops :
  Forall cop_ok ops ->
  exists s, run grow true (new_dense (Lowest n)) ops = Some s /\ CI n s /\ lim s = Lowest n /\
            dabs s = clamp_low n (arun [] ops) /\ total (dabs s) = total (arun [] ops).
Proof.
  apply (history_is_norm grow n (Lowest n) Hn Hn).
  - apply (add_with_count_low0 grow grow_ge n Hn).
  - apply (merge_dense_low grow grow_ge n Hn).
Qed.
Theorem history_high ops :
  Forall cop_ok ops ->
  exists s, run grow true (new_dense (Highest n)) ops = Some s /\ CI n s /\ lim s = Highest n /\
            dabs s = clamp_high n (arun [] ops) /\ total (dabs s) = total (arun [] ops).
Proof.
  apply (history_is_norm grow n (Highest n) Hn Hn).
  - apply (add_with_count_high0 grow grow_ge n Hn).
  - apply (merge_dense_high grow grow_ge n Hn).
Qed.
Theorem clear_like_new_low s ops :
  lim s = Lowest n -> Forall cop_ok ops ->
  exists s1 s2, run grow true (clear_d s) ops = Some s1 /\ run grow true (new_dense (Lowest n)) ops = Some s2 /\
                CI n s1 /\ CI n s2 /\ dabs s1 = dabs s2.
Proof.
  apply (clear_like_new_c grow n (Lowest n) Hn Hn).
  - apply (add_with_count_low0 grow grow_ge n Hn).
  - apply (merge_dense_low grow grow_ge n Hn).
Qed.
Theorem clear_like_new_high s ops :
  lim s = Highest n -> Forall cop_ok ops ->
  exists s1 s2, run grow true (clear_d s) ops = Some s1 /\ run grow true (new_dense (Highest n)) ops = Some s2 /\
                CI n s1 /\ CI n s2 /\ dabs s1 = dabs s2.
Proof.
  apply (clear_like_new_c grow n (Highest n) Hn Hn).
  - apply (add_with_count_high0 grow grow_ge n Hn).
  - apply (merge_dense_high grow grow_ge n Hn).
Qed.

(* the additions-only form: after adding any list of (index, weight) the content is the clamp of
   the exact content, no weight is lost, and the bounds hold *)
Theorem history_is_clamp_low l :
  bins_ok l ->
  exists s, add_list grow true (new_dense (Lowest n)) l = Some s /\ CI n s /\ lim s = Lowest n /\
            dabs s = clamp_low n (bins_of_list l) /\ total (dabs s) = total l /\
            Z.of_nat (length (bins s)) <= n /\ Z.of_nat (length (dabs s)) <= n.
Proof.
  intros Hl.
  destruct (add_list_low grow grow_ge n Hn l (new_dense (Lowest n)) (CI_new n _ ltac:(lia)) eq_refl Hl)
    as (s & E & C & K & A).
  rewrite dabs_new_any in A.
  rewrite (smerge_list_from_empty (Lowest n) l Hn (nonneg_of_bins_ok l Hl)) in A. cbn [norm] in A.
  exists s. split; [exact E|]. split; [exact C|]. split; [exact K|]. split; [exact A|].
  destruct (ci_bounds n s C) as (B1 & _ & B3 & _).
  split; [rewrite A, total_clamp_low; apply total_bins_of_list|]. split; [exact B1|lia].
Qed.
Theorem history_is_clamp_high l :
  bins_ok l ->
  exists s, add_list grow true (new_dense (Highest n)) l = Some s /\ CI n s /\ lim s = Highest n /\
            dabs s = clamp_high n (bins_of_list l) /\ total (dabs s) = total l /\
            Z.of_nat (length (bins s)) <= n /\ Z.of_nat (length (dabs s)) <= n.
Proof.
  intros Hl.
  destruct (add_list_high grow grow_ge n Hn l (new_dense (Highest n)) (CI_new n _ ltac:(lia)) eq_refl Hl)
    as (s & E & C & K & A).
  rewrite dabs_new_any in A.
  rewrite (smerge_list_from_empty (Highest n) l Hn (nonneg_of_bins_ok l Hl)) in A. cbn [norm] in A.
  exists s. split; [exact E|]. split; [exact C|]. split; [exact K|]. split; [exact A|].
  destruct (ci_bounds n s C) as (B1 & _ & B3 & _).
  split; [rewrite A, total_clamp_high; apply total_bins_of_list|]. split; [exact B1|lia].
Qed.
End HistInst.

(* ---- an executable checker of the invariant (for the examples) ---- *)
Definition ci_checkb (n : Z) (s : dense) : bool :=
  inv_checkb (as_exact s) && (len s <=? n) &&
  (if weqb (count s) w0 then (len s =? 0) && negb (collapsed s) else true) &&
  (if collapsed s then (len s =? n) && (offset s =? minI s) && (maxI s =? minI s + n - 1) else true).
Theorem ci_checkb_sound n s : ci_checkb n s = true -> CI n s.
Proof.
  unfold ci_checkb. intros H.
  apply andb_true_iff in H. destruct H as [H H4].
  apply andb_true_iff in H. destruct H as [H H3].
  apply andb_true_iff in H. destruct H as [H1 H2].
  constructor.
  - now apply inv_checkb_sound.
  - lia.
  - intros E. apply weqb_eq in E. rewrite E in H3. destruct (collapsed s); cbn [negb] in H3; split; try reflexivity; lia.
  - intros X. rewrite X in H4. lia.
Qed.

(* ================================================================== *)
(* Part 6: readable summaries                                          *)
(* ================================================================== *)

(* II: a collapse happens only when the requested range exceeds the (possibly just grown) array,
   and the array then has the full capacity n *)
Lemma collapse_full_capacity (grow : Z -> Z) n l d :
  (forall x, x <= grow x) -> l <= n ->
  let l' := Z.max l (Z.min (grow d) n) in l' < d -> l' = n.
Proof. intros Hg Hl l' H. pose proof (Hg d). unfold l' in *. lia. Qed.

(* III, the branch without collapse: adjust is centerCounts *)
Lemma adjust_lowest_fits fx s lo hi : hi - lo + 1 <= len s -> adjust_lowest fx s lo hi = center_counts s lo hi.
Proof. intros H. unfold adjust_lowest. destruct (Z.ltb_spec (len s) (hi - lo + 1)); [lia|reflexivity]. Qed.
Lemma adjust_highest_fits fx s lo hi : hi - lo + 1 <= len s -> adjust_highest fx s lo hi = center_counts s lo hi.
Proof. intros H. unfold adjust_highest. destruct (Z.ltb_spec (len s) (hi - lo + 1)); [lia|reflexivity]. Qed.

(* I: what CI says, spelled out *)
Theorem CI_meaning n s :
  CI n s ->
  (forall i, (w0 <= dget s i)%Qc) /\
  (forall i, i < minI s \/ maxI s < i -> dget s i = w0) /\
  count s = rsum (dget s) (minI s) (maxI s) /\ count s = sumW (bins s) /\
  (count s = w0 -> minI s = MaxInt32 /\ maxI s = MinInt32 /\ bins s = [] /\ collapsed s = false) /\
  (count s <> w0 ->
     offset s <= minI s /\ minI s <= maxI s /\ maxI s < offset s + len s /\
     (w0 < dget s (minI s))%Qc /\ (w0 < dget s (maxI s))%Qc /\ idx_ok (minI s) /\ idx_ok (maxI s) /\
     maxI s - minI s + 1 <= n) /\
  len s <= n /\
  (collapsed s = true -> len s = n /\ offset s = minI s /\ maxI s = minI s + n - 1).
Proof.
  intros C. split; [apply (ci_nonneg n s C)|]. split; [apply (ci_out n s C)|].
  split; [apply (ci_count n s C)|]. split; [apply (ci_count_bins n s C)|]. split; [|split; [|split]].
  - intros E. destruct (ci_sentinel n s C E) as [E1 E2]. destruct (ci_empty n s C E) as [L0 Cf].
    split; [exact E1|]. split; [exact E2|]. split; [now apply zlen_0_nil|exact Cf].
  - intros N. destruct (ci_win n s C N) as (W1 & W2 & W3). destruct (ci_ends n s C N) as [P1 P2].
    destruct (ci_idx n s C N) as [J1 J2]. pose proof (ci_span n s C N) as Sp.
    split; [exact W1|]. split; [exact W2|]. split; [exact W3|]. split; [exact P1|]. split; [exact P2|].
    split; [exact J1|]. split; [exact J2|exact Sp].
  - apply (ci_len n s C).
  - apply (ci_coll n s C).
Qed.
