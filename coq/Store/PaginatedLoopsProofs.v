(* buffered_paginated.go: the loop-by-loop transcriptions of MinIndex, MaxIndex and
   minIndexWithCumulCount / KeyAtRank (Store/PaginatedLoops.v) agree, under the store invariant PInv,
   with the scan-based observers of Store/Paginated.v, i.e. with min_key / max_key / key_at_rank of the
   Layer A content [pabs s].
     1. buf_min / buf_max      extreme element of the buffer
     2. first_pos / last_pos   inner line loops
     3. min_pages, p_min_go    MinIndex
     4. max_pages, p_max_go    MaxIndex
     5. drain_rank / rank_cells / rank_rest, p_key_at_rank_go   KeyAtRank
   Stdlib only, axiom-free. *)
From SK Require Import Store.Paginated Store.PaginatedLoops Spec.BinsProofs Store.PaginatedProofs.
From Coq Require Import Lqa Permutation Sorting.Sorted.
Local Open Scope Z_scope.

Local Ltac Zify.zify_post_hook ::= Z.div_mod_to_equations.

(* ================================================================== *)
(** * 0. Unfolding lemmas                                              *)
(* ================================================================== *)

Definition mp_guard (bm : option Z) (P : Z) : bool :=
  match bm with None => true | Some m => P <=? page_index m end.
Definition mp_limit (bm : option Z) (P : Z) : Z :=
  match bm with
  | Some m => if P =? page_index m then line_index m else pageLen
  | None => pageLen
  end.
Lemma min_pages_nil bm P : min_pages bm [] P = None.
Proof. reflexivity. Qed.
(* a nil page is skipped by [continue]; scanning it finds nothing either *)
Lemma min_pages_cons bm pg tl P :
  min_pages bm (pg :: tl) P =
  if mp_guard bm P then
    match first_pos pg 0 (mp_limit bm P) with
    | Some l => Some (index_of P l)
    | None => min_pages bm tl (P + 1)
    end
  else None.
Proof. destruct pg; reflexivity. Qed.

Definition xp_guard (bm : option Z) (P : Z) : bool :=
  match bm with None => true | Some m => page_index m <=? P end.
Definition xp_start (bm : option Z) (P : Z) : Z :=
  match bm with
  | Some m => if P =? page_index m then line_index m else 0
  | None => 0
  end.
Lemma max_pages_nil bm P : max_pages bm [] P = None.
Proof. reflexivity. Qed.
Lemma max_pages_cons bm pg tl P :
  max_pages bm (pg :: tl) P =
  if xp_guard bm P then
    match last_pos pg (xp_start bm P) with
    | Some l => Some (index_of P l)
    | None => max_pages bm tl (P - 1)
    end
  else None.
Proof. destruct pg; reflexivity. Qed.

Lemma first_pos_nil k limit : first_pos [] k limit = None.
Proof. reflexivity. Qed.
Lemma first_pos_cons c tl k limit :
  first_pos (c :: tl) k limit =
  if limit <=? k then None else if wltb w0 c then Some k else first_pos tl (k + 1) limit.
Proof. reflexivity. Qed.

Lemma drain_rank_nil rank index cumul : drain_rank rank index [] cumul = (None, [], cumul).
Proof. reflexivity. Qed.
Lemma drain_rank_cons rank index x tl cumul :
  drain_rank rank index (x :: tl) cumul =
  if x <? index then
    if wltb rank (wadd cumul w1) then (Some x, tl, wadd cumul w1)
    else drain_rank rank index tl (wadd cumul w1)
  else (None, x :: tl, cumul).
Proof. reflexivity. Qed.
Lemma rank_cells_nil rank buf cumul : rank_cells rank [] buf cumul = (None, buf, cumul).
Proof. reflexivity. Qed.
Lemma rank_cells_cons rank index count tl buf cumul :
  rank_cells rank ((index, count) :: tl) buf cumul =
  match drain_rank rank index buf cumul with
  | (Some k, b, c) => (Some k, b, c)
  | (None, b, c) => if wltb rank (wadd c count) then (Some index, b, wadd c count)
                    else rank_cells rank tl b (wadd c count)
  end.
Proof. reflexivity. Qed.
Lemma rank_rest_nil rank cumul : rank_rest rank [] cumul = None.
Proof. reflexivity. Qed.
Lemma rank_rest_cons rank x tl cumul :
  rank_rest rank (x :: tl) cumul =
  if wltb rank (wadd cumul w1) then Some x else rank_rest rank tl (wadd cumul w1).
Proof. reflexivity. Qed.

Arguments min_pages : simpl never.
Arguments max_pages : simpl never.
Arguments first_pos : simpl never.
Arguments last_pos : simpl never.
Arguments drain_rank : simpl never.
Arguments rank_cells : simpl never.
Arguments rank_rest : simpl never.

Lemma wle0_refl : (w0 <= w0)%Qc.
Proof. wlra. Qed.
Lemma wle0_nonneg_eq (c : W) : (c <= w0)%Qc -> (w0 <= c)%Qc -> c = w0.
Proof. intros H1 H2. wlra. Qed.

(* an index as (page, line) *)
Lemma idx_decomp j :
  exists p l, page_index j = p /\ line_index j = l /\ j = p * 32 + l /\ 0 <= l < 32.
Proof.
  exists (page_index j), (line_index j). split; [reflexivity|]. split; [reflexivity|].
  split; [|apply line_index_range]. rewrite <- index_of_mul. symmetry. apply index_of_page_line.
Qed.

(* ================================================================== *)
(** * 1. Extreme element of the buffer                                 *)
(* ================================================================== *)

Definition bmin_step (acc : option Z) (i : Z) : option Z :=
  match acc with None => Some i | Some m => if i <? m then Some i else acc end.
Definition bmax_step (acc : option Z) (i : Z) : option Z :=
  match acc with None => Some i | Some m => if m <? i then Some i else acc end.
Lemma buf_min_fold b : buf_min b = fold_left bmin_step b None.
Proof. reflexivity. Qed.
Lemma buf_max_fold b : buf_max b = fold_left bmax_step b None.
Proof. reflexivity. Qed.

Lemma bmin_fold_some b : forall a,
  exists m, fold_left bmin_step b (Some a) = Some m /\ (m = a \/ In m b) /\ m <= a /\
            Forall (fun x => m <= x) b.
Proof.
  induction b as [|x b IH]; intros a.
  - exists a. cbn [fold_left]. split; [reflexivity|]. split; [left; reflexivity|]. split; [lia|constructor].
  - cbn [fold_left bmin_step]. destruct (Z.ltb_spec x a) as [Hx|Hx].
    + destruct (IH x) as [m [E [Hin [Hle Hall]]]]. exists m. split; [exact E|].
      split; [right; destruct Hin as [Hin|Hin]; [left; symmetry; exact Hin|right; exact Hin]|].
      split; [lia|]. constructor; [exact Hle|exact Hall].
    + destruct (IH a) as [m [E [Hin [Hle Hall]]]]. exists m. split; [exact E|].
      split; [destruct Hin as [Hin|Hin]; [left; exact Hin|right; right; exact Hin]|].
      split; [exact Hle|]. constructor; [lia|exact Hall].
Qed.
Lemma bmax_fold_some b : forall a,
  exists m, fold_left bmax_step b (Some a) = Some m /\ (m = a \/ In m b) /\ a <= m /\
            Forall (fun x => x <= m) b.
Proof.
  induction b as [|x b IH]; intros a.
  - exists a. cbn [fold_left]. split; [reflexivity|]. split; [left; reflexivity|]. split; [lia|constructor].
  - cbn [fold_left bmax_step]. destruct (Z.ltb_spec a x) as [Hx|Hx].
    + destruct (IH x) as [m [E [Hin [Hle Hall]]]]. exists m. split; [exact E|].
      split; [right; destruct Hin as [Hin|Hin]; [left; symmetry; exact Hin|right; exact Hin]|].
      split; [lia|]. constructor; [exact Hle|exact Hall].
    + destruct (IH a) as [m [E [Hin [Hle Hall]]]]. exists m. split; [exact E|].
      split; [destruct Hin as [Hin|Hin]; [left; exact Hin|right; right; exact Hin]|].
      split; [exact Hle|]. constructor; [lia|exact Hall].
Qed.

(* the first loop of MinIndex: the least buffered index, None iff the buffer is empty *)
Theorem buf_min_spec b :
  match buf_min b with
  | None => b = []
  | Some m => In m b /\ Forall (fun x => m <= x) b
  end.
Proof.
  destruct b as [|x b]; [reflexivity|]. rewrite buf_min_fold. cbn [fold_left bmin_step].
  destruct (bmin_fold_some b x) as [m [E [Hin [Hle Hall]]]]. rewrite E. split.
  - destruct Hin as [Hin|Hin]; [left; symmetry; exact Hin|right; exact Hin].
  - constructor; [exact Hle|exact Hall].
Qed.
Theorem buf_max_spec b :
  match buf_max b with
  | None => b = []
  | Some m => In m b /\ Forall (fun x => x <= m) b
  end.
Proof.
  destruct b as [|x b]; [reflexivity|]. rewrite buf_max_fold. cbn [fold_left bmax_step].
  destruct (bmax_fold_some b x) as [m [E [Hin [Hle Hall]]]]. rewrite E. split.
  - destruct Hin as [Hin|Hin]; [left; symmetry; exact Hin|right; exact Hin].
  - constructor; [exact Hle|exact Hall].
Qed.

(* ================================================================== *)
(** * 2. Line loops                                                    *)
(* ================================================================== *)

(* ascending: the first line in [k, limit) with a positive count (line numbers start at k for the
   head of the list) *)
Lemma first_pos_spec limit : forall pg k,
  match first_pos pg k limit with
  | Some l => k <= l < limit /\ (w0 < at_ pg (l - k))%Qc /\
              forall j, k <= j < l -> (at_ pg (j - k) <= w0)%Qc
  | None => forall j, k <= j < limit -> (at_ pg (j - k) <= w0)%Qc
  end.
Proof.
  induction pg as [|c tl IH]; intros k.
  - rewrite first_pos_nil. intros j _. rewrite at_nil. apply wle0_refl.
  - rewrite first_pos_cons. destruct (Z.leb_spec limit k) as [Hk|Hk]; [intros j Hj; lia|].
    destruct (wltb w0 c) eqn:Ec.
    + apply wltb_lt in Ec. split; [lia|]. split.
      * rewrite Z.sub_diag, pc_at_cons. exact Ec.
      * intros j Hj. lia.
    + apply wltb_ge in Ec. specialize (IH (k + 1)).
      destruct (first_pos tl (k + 1) limit) as [l|].
      * destruct IH as [Hl [Hpos Hbel]]. split; [lia|]. split.
        -- rewrite pc_at_cons. destruct (Z.eqb_spec (l - k) 0) as [E|E]; [lia|].
           replace (l - k - 1) with (l - (k + 1)) by lia. exact Hpos.
        -- intros j Hj. rewrite pc_at_cons. destruct (Z.eqb_spec (j - k) 0) as [E|E]; [exact Ec|].
           replace (j - k - 1) with (j - (k + 1)) by lia. apply Hbel. lia.
      * intros j Hj. rewrite pc_at_cons. destruct (Z.eqb_spec (j - k) 0) as [E|E]; [exact Ec|].
        replace (j - k - 1) with (j - (k + 1)) by lia. apply IH. lia.
Qed.

(* descending: the last line >= start with a positive count *)
Definition lp_step (start : Z) (acc : option Z) (kc : Z * W) : option Z :=
  if (start <=? fst kc) && wltb w0 (snd kc) then Some (fst kc) else acc.
Lemma last_pos_fold pg start :
  last_pos pg start = fold_left (lp_step start) (combine (map Z.of_nat (seq 0 (length pg))) pg) None.
Proof. reflexivity. Qed.

Lemma lp_gen start : forall pg a acc,
  let r := fold_left (lp_step start) (combine (map Z.of_nat (seq a (length pg))) pg) acc in
  (exists l, r = Some l /\ Z.of_nat a <= l < Z.of_nat a + zlen pg /\ start <= l /\
             (w0 < at_ pg (l - Z.of_nat a))%Qc /\
             forall j, l < j -> (at_ pg (j - Z.of_nat a) <= w0)%Qc)
  \/ (r = acc /\ forall j, start <= j -> (at_ pg (j - Z.of_nat a) <= w0)%Qc).
Proof.
  induction pg as [|c pg IH]; intros a acc; cbv zeta.
  - right. cbn [length seq map combine fold_left]. split; [reflexivity|].
    intros j _. rewrite at_nil. apply wle0_refl.
  - cbn [length seq map combine fold_left].
    remember (lp_step start acc (Z.of_nat a, c)) as acc' eqn:Ea.
    destruct (IH (S a) acc') as [[l [E [Hl [Hs [Hpos Hab]]]]]|[E Hall]].
    + left. exists l. split; [exact E|]. rewrite pc_zlen_cons. split; [lia|]. split; [exact Hs|]. split.
      * rewrite pc_at_cons. destruct (Z.eqb_spec (l - Z.of_nat a) 0) as [E0|E0]; [lia|].
        replace (l - Z.of_nat a - 1) with (l - Z.of_nat (S a)) by lia. exact Hpos.
      * intros j Hj. rewrite pc_at_cons. destruct (Z.eqb_spec (j - Z.of_nat a) 0) as [E0|E0]; [lia|].
        replace (j - Z.of_nat a - 1) with (j - Z.of_nat (S a)) by lia. apply Hab. exact Hj.
    + rewrite E. clear E. unfold lp_step in Ea. cbn [fst snd] in Ea.
      destruct (Z.leb_spec start (Z.of_nat a)) as [Hsa|Hsa]; cbn [andb] in Ea; [|rename Ea into E].
      * destruct (wltb w0 c) eqn:Ec; rename Ea into E.
        -- apply wltb_lt in Ec. left. exists (Z.of_nat a). split; [exact E|]. rewrite pc_zlen_cons.
           pose proof (zlen_nonneg pg) as Hz. split; [lia|]. split; [exact Hsa|]. split.
           ++ rewrite Z.sub_diag, pc_at_cons. exact Ec.
           ++ intros j Hj. rewrite pc_at_cons. destruct (Z.eqb_spec (j - Z.of_nat a) 0) as [E0|E0]; [lia|].
              replace (j - Z.of_nat a - 1) with (j - Z.of_nat (S a)) by lia. apply Hall. lia.
        -- apply wltb_ge in Ec. right. split; [exact E|]. intros j Hj. rewrite pc_at_cons.
           destruct (Z.eqb_spec (j - Z.of_nat a) 0) as [E0|E0]; [exact Ec|].
           replace (j - Z.of_nat a - 1) with (j - Z.of_nat (S a)) by lia. apply Hall. exact Hj.
      * right. split; [exact E|]. intros j Hj. rewrite pc_at_cons.
        destruct (Z.eqb_spec (j - Z.of_nat a) 0) as [E0|E0]; [lia|].
        replace (j - Z.of_nat a - 1) with (j - Z.of_nat (S a)) by lia. apply Hall. exact Hj.
Qed.

Lemma last_pos_spec pg start :
  match last_pos pg start with
  | Some l => 0 <= l < zlen pg /\ start <= l /\ (w0 < at_ pg l)%Qc /\
              forall j, l < j -> (at_ pg j <= w0)%Qc
  | None => forall j, start <= j -> (at_ pg j <= w0)%Qc
  end.
Proof.
  rewrite last_pos_fold. pose proof (lp_gen start pg 0%nat None) as H. cbv zeta in H.
  change (Z.of_nat 0) with 0 in H.
  destruct H as [[l [E [Hl [Hs [Hpos Hab]]]]]|[E Hall]]; rewrite E.
  - rewrite Z.sub_0_r in Hpos. split; [lia|]. split; [exact Hs|]. split; [exact Hpos|].
    intros j Hj. specialize (Hab j Hj). rewrite Z.sub_0_r in Hab. exact Hab.
  - intros j Hj. specialize (Hall j Hj). rewrite Z.sub_0_r in Hall. exact Hall.
Qed.

(* ================================================================== *)
(** * 3. MinIndex                                                      *)
(* ================================================================== *)

(* cell of index j in a list of pages whose head has page number P *)
Definition cellf (pgs : list (list W)) (P j : Z) : W := at_ (pgat pgs (page_index j - P)) (line_index j).
Lemma cellf_cell s j : cellf (pages s) (minPage s) j = cell s j.
Proof. reflexivity. Qed.
Lemma cellf_nil P j : cellf [] P j = w0.
Proof. unfold cellf. rewrite pgat_nil, at_nil. reflexivity. Qed.
Lemma cellf_cons pg tl P j :
  cellf (pg :: tl) P j = if page_index j =? P then at_ pg (line_index j) else cellf tl (P + 1) j.
Proof.
  unfold cellf. rewrite pgat_cons.
  destruct (Z.eqb_spec (page_index j - P) 0) as [E|E]; destruct (Z.eqb_spec (page_index j) P) as [E'|E'];
    try lia; try reflexivity.
  replace (page_index j - P - 1) with (page_index j - (P + 1)) by lia. reflexivity.
Qed.
Lemma cellf_below pgs P j : j < P * 32 -> cellf pgs P j = w0.
Proof.
  intros H. unfold cellf. rewrite pgat_out, at_nil; [reflexivity|]. left. rewrite page_index_div. lia.
Qed.

Definition below (bm : option Z) (j : Z) : Prop := match bm with Some m => j < m | None => True end.
Lemma below_mono bm i j : j <= i -> below bm i -> below bm j.
Proof. destruct bm as [m|]; cbn [below]; [lia|auto]. Qed.

Lemma mp_limit_le bm P : mp_limit bm P <= 32.
Proof.
  unfold mp_limit, pageLen. destruct bm as [m|]; [|lia].
  destruct (P =? page_index m); [|lia]. pose proof (line_index_range m). lia.
Qed.
Lemma mp_limit_line bm P j : page_index j = P -> below bm j -> line_index j < mp_limit bm P.
Proof.
  intros Hp Hb. unfold mp_limit, pageLen. pose proof (line_index_range j) as Hl.
  destruct bm as [m|]; [|lia]. cbn [below] in Hb.
  destruct (Z.eqb_spec P (page_index m)) as [E|E]; [|lia].
  destruct (idx_decomp j) as [pj [lj [Ep [El [Ej Hlj]]]]].
  destruct (idx_decomp m) as [pm [lm [Ep' [El' [Em Hlm]]]]].
  rewrite El, El'. rewrite Ep in Hp. rewrite Ep' in E. lia.
Qed.
Lemma mp_limit_below bm P l : mp_guard bm P = true -> 0 <= l < mp_limit bm P -> below bm (P * 32 + l).
Proof.
  unfold mp_guard, mp_limit, pageLen. destruct bm as [m|]; cbn [below]; [|auto].
  intros G Hl. apply Z.leb_le in G.
  destruct (idx_decomp m) as [pm [lm [Ep' [El' [Em Hlm]]]]]. rewrite Ep', El' in *.
  destruct (Z.eqb_spec P pm) as [E|E]; lia.
Qed.

(* the page loop of MinIndex, from page number P on *)
Lemma min_pages_spec bm : forall pgs P,
  match min_pages bm pgs P with
  | Some i => P * 32 <= i /\ (w0 < cellf pgs P i)%Qc /\
              (forall j, P * 32 <= j < i -> (cellf pgs P j <= w0)%Qc) /\ below bm i
  | None => forall j, P * 32 <= j -> below bm j -> (cellf pgs P j <= w0)%Qc
  end.
Proof.
  induction pgs as [|pg tl IH]; intros P.
  - rewrite min_pages_nil. intros j _ _. rewrite cellf_nil. apply wle0_refl.
  - rewrite min_pages_cons. destruct (mp_guard bm P) eqn:G.
    2:{ intros j Hj Hb. exfalso. unfold mp_guard in G. destruct bm as [m|]; [|discriminate].
        apply Z.leb_gt in G. cbn [below] in Hb. rewrite page_index_div in G. lia. }
    pose proof (mp_limit_le bm P) as Hlim.
    pose proof (first_pos_spec (mp_limit bm P) pg 0) as FP.
    destruct (first_pos pg 0 (mp_limit bm P)) as [l|].
    + destruct FP as [Hl [Hpos Hbel]]. rewrite Z.sub_0_r in Hpos.
      rewrite index_of_mul. split; [lia|]. split; [|split].
      * rewrite cellf_cons, <- index_of_mul, page_index_index_of, line_index_index_of, Z.eqb_refl by lia.
        exact Hpos.
      * intros j Hj. rewrite cellf_cons. destruct (idx_decomp j) as [pj [lj [Ep [El [Ej Hlj]]]]].
        rewrite Ep, El. destruct (Z.eqb_spec pj P) as [E|E]; [|lia].
        specialize (Hbel lj). rewrite Z.sub_0_r in Hbel. apply Hbel. lia.
      * apply mp_limit_below; [exact G|lia].
    + specialize (IH (P + 1)). destruct (min_pages bm tl (P + 1)) as [i|].
      * destruct IH as [H1 [H2 [H3 H4]]]. split; [lia|]. split; [|split].
        -- rewrite cellf_cons. destruct (Z.eqb_spec (page_index i) P) as [E|E]; [|exact H2].
           rewrite page_index_div in E. lia.
        -- intros j Hj. rewrite cellf_cons. destruct (Z.eqb_spec (page_index j) P) as [E|E].
           ++ pose proof (line_index_range j) as Hlj. specialize (FP (line_index j)).
              rewrite Z.sub_0_r in FP. apply FP. split; [lia|].
              apply mp_limit_line; [exact E|]. apply (below_mono bm i); [lia|exact H4].
           ++ apply H3. rewrite page_index_div in E. lia.
        -- exact H4.
      * intros j Hj Hb. rewrite cellf_cons. destruct (Z.eqb_spec (page_index j) P) as [E|E].
        -- pose proof (line_index_range j) as Hlj. specialize (FP (line_index j)).
           rewrite Z.sub_0_r in FP. apply FP. split; [lia|]. apply mp_limit_line; assumption.
        -- apply IH; [|exact Hb]. rewrite page_index_div in E. lia.
Qed.

Lemma wrap_i64_id z : MinInt64 <= z <= MaxInt64 -> wrap_i64 z = z.
Proof. unfold MinInt64, MaxInt64, wrap_i64. intros H. lia. Qed.

(* outside the sentinel state there is no wrap-around *)
Lemma PInv_nowrap s : PInv s -> minPage s <> MaxInt64 ->
  - PM <= minPage s /\ minPage s + zlen (pages s) <= PM /\ 0 <= zlen (pages s).
Proof.
  intros H E. destruct (inv_bnd s H E) as [H1 H2]. split; [exact H1|]. split; [exact H2|apply zlen_nonneg].
Qed.
Lemma cell_sent s j : PInv s -> minPage s = MaxInt64 -> cell s j = w0.
Proof. intros H E. unfold cell. rewrite (inv_sent s H E). apply at_nil. Qed.

(* what the page loop of MinIndex yields, in terms of the cells of the store *)
Lemma p_min_pages_spec s bm : PInv s ->
  match (if minPage s <? wrap_i64 (minPage s + zlen (pages s)) then min_pages bm (pages s) (minPage s) else None) with
  | Some i => (w0 < cell s i)%Qc /\ (forall j, j < i -> (cell s j <= w0)%Qc) /\ below bm i
  | None => forall j, below bm j -> (cell s j <= w0)%Qc
  end.
Proof.
  intros H. destruct (minPage s <? wrap_i64 (minPage s + zlen (pages s))) eqn:C.
  - pose proof (min_pages_spec bm (pages s) (minPage s)) as M.
    destruct (min_pages bm (pages s) (minPage s)) as [i|].
    + destruct M as [M1 [M2 [M3 M4]]]. split; [exact M2|]. split; [|exact M4].
      intros j Hj. rewrite <- cellf_cell. destruct (Z.lt_ge_cases j (minPage s * 32)) as [Hlt|Hge].
      * rewrite cellf_below by exact Hlt. apply wle0_refl.
      * apply M3. lia.
    + intros j Hb. rewrite <- cellf_cell. destruct (Z.lt_ge_cases j (minPage s * 32)) as [Hlt|Hge].
      * rewrite cellf_below by exact Hlt. apply wle0_refl.
      * apply M; assumption.
  - intros j _. destruct (Z.eq_dec (minPage s) MaxInt64) as [E|E].
    + rewrite cell_sent by assumption. apply wle0_refl.
    + destruct (PInv_nowrap s H E) as [B1 [B2 B3]]. apply Z.ltb_ge in C.
      rewrite wrap_i64_id in C by (unfold PM, MinInt64, MaxInt64 in *; lia).
      assert (Hz : zlen (pages s) = 0) by lia. apply zlen_nil_iff in Hz.
      unfold cell. rewrite Hz, pgat_nil, at_nil. apply wle0_refl.
Qed.

Lemma cnt_zero_lt b m j : Forall (fun x => m <= x) b -> j < m -> cnt b j = w0.
Proof.
  intros Hall Hj. apply cnt_notin. intros Hin. rewrite Forall_forall in Hall. specialize (Hall j Hin). lia.
Qed.
Lemma cnt_zero_gt b m j : Forall (fun x => x <= m) b -> m < j -> cnt b j = w0.
Proof.
  intros Hall Hj. apply cnt_notin. intros Hin. rewrite Forall_forall in Hall. specialize (Hall j Hin). lia.
Qed.

Theorem p_min_go_spec s : PInv s -> p_min_go s = min_key (pabs s).
Proof.
  intros H. unfold p_min_go. cbv zeta.
  pose proof (p_min_pages_spec s (buf_min (buffer s)) H) as FP.
  pose proof (buf_min_spec (buffer s)) as BM.
  destruct (if minPage s <? wrap_i64 (minPage s + zlen (pages s))
            then min_pages (buf_min (buffer s)) (pages s) (minPage s) else None) as [i|].
  - destruct FP as [F1 [F2 F3]]. symmetry. apply (min_key_iff _ _ (wf_pabs s H)). split.
    + rewrite get_pabs by exact H. unfold pget. pose proof (cnt_nonneg (buffer s) i) as Hc. wlra.
    + intros j Hj. rewrite get_pabs by exact H. unfold pget.
      rewrite (wle0_nonneg_eq (cell s j) (F2 j Hj) (cell_nonneg s j H)), wadd_0_r.
      destruct (buf_min (buffer s)) as [m|].
      * destruct BM as [_ Hall]. cbn [below] in F3. apply (cnt_zero_lt _ m); [exact Hall|lia].
      * rewrite BM. apply cnt_nil.
  - destruct (buf_min (buffer s)) as [m|].
    + destruct BM as [Hin Hall]. symmetry. apply (min_key_iff _ _ (wf_pabs s H)). split.
      * rewrite get_pabs by exact H. unfold pget. pose proof (cnt_in_pos (buffer s) m Hin) as Hc.
        pose proof (cell_nonneg s m H) as Hn. wlra.
      * intros j Hj. rewrite get_pabs by exact H. unfold pget.
        rewrite (wle0_nonneg_eq (cell s j) (FP j Hj) (cell_nonneg s j H)), wadd_0_r.
        apply (cnt_zero_lt _ m); assumption.
    + assert (E : pabs s = []).
      { apply (pabs_nil_iff s H). intros i. unfold pget. rewrite BM, cnt_nil, wadd_0_l.
        apply wle0_nonneg_eq; [apply FP; exact I|apply cell_nonneg; exact H]. }
      rewrite E. reflexivity.
Qed.

(* ================================================================== *)
(** * 4. MaxIndex                                                      *)
(* ================================================================== *)

(* cell of index j in a REVERSED list of pages whose head has page number P *)
Definition cellr (rpgs : list (list W)) (P j : Z) : W := at_ (pgat rpgs (P - page_index j)) (line_index j).
Lemma cellr_nil P j : cellr [] P j = w0.
Proof. unfold cellr. rewrite pgat_nil, at_nil. reflexivity. Qed.
Lemma cellr_cons pg tl P j :
  cellr (pg :: tl) P j = if page_index j =? P then at_ pg (line_index j) else cellr tl (P - 1) j.
Proof.
  unfold cellr. rewrite pgat_cons.
  destruct (Z.eqb_spec (P - page_index j) 0) as [E|E]; destruct (Z.eqb_spec (page_index j) P) as [E'|E'];
    try lia; try reflexivity.
  replace (P - page_index j - 1) with (P - 1 - page_index j) by lia. reflexivity.
Qed.
Lemma cellr_above rpgs P j : (P + 1) * 32 <= j -> cellr rpgs P j = w0.
Proof.
  intros H. unfold cellr. rewrite pgat_out, at_nil; [reflexivity|]. left. rewrite page_index_div. lia.
Qed.
Lemma pgat_rev ps k : pgat (rev ps) k = pgat ps (zlen ps - 1 - k).
Proof.
  unfold pgat, zlen. destruct (Z.ltb_spec k 0) as [Hk|Hk].
  - destruct (Z.ltb_spec (Z.of_nat (length ps) - 1 - k) 0) as [H1|H1]; [reflexivity|].
    symmetry. apply nth_overflow. lia.
  - destruct (Z.ltb_spec (Z.of_nat (length ps) - 1 - k) 0) as [H1|H1].
    + apply nth_overflow. rewrite rev_length. lia.
    + rewrite rev_nth by lia. f_equal. lia.
Qed.
Lemma cellr_rev_cell s j :
  cellr (rev (pages s)) (minPage s + zlen (pages s) - 1) j = cell s j.
Proof.
  unfold cellr, cell. rewrite pgat_rev. f_equal. f_equal. lia.
Qed.

Definition above (bm : option Z) (j : Z) : Prop := match bm with Some m => m <= j | None => True end.
Lemma above_mono bm i j : i <= j -> above bm i -> above bm j.
Proof. destruct bm as [m|]; cbn [above]; [lia|auto]. Qed.

Lemma xp_start_line bm P j : page_index j = P -> above bm j -> xp_start bm P <= line_index j.
Proof.
  intros Hp Hb. unfold xp_start. pose proof (line_index_range j) as Hl.
  destruct bm as [m|]; [|lia]. cbn [above] in Hb.
  destruct (Z.eqb_spec P (page_index m)) as [E|E]; [|lia].
  destruct (idx_decomp j) as [pj [lj [Ep [El [Ej Hlj]]]]].
  destruct (idx_decomp m) as [pm [lm [Ep' [El' [Em Hlm]]]]].
  rewrite El, El'. rewrite Ep in Hp. rewrite Ep' in E. lia.
Qed.
Lemma xp_start_above bm P l :
  xp_guard bm P = true -> 0 <= l < 32 -> xp_start bm P <= l -> above bm (P * 32 + l).
Proof.
  unfold xp_guard, xp_start. destruct bm as [m|]; cbn [above]; [|auto].
  intros G Hl Hs. apply Z.leb_le in G.
  destruct (idx_decomp m) as [pm [lm [Ep' [El' [Em Hlm]]]]]. rewrite Ep', El' in *.
  destruct (Z.eqb_spec P pm) as [E|E]; lia.
Qed.

(* the page loop of MaxIndex, from page number P down *)
Lemma max_pages_spec bm : forall rpgs P,
  Forall (fun pg => zlen pg <= 32) rpgs ->
  match max_pages bm rpgs P with
  | Some i => i < (P + 1) * 32 /\ (w0 < cellr rpgs P i)%Qc /\
              (forall j, i < j < (P + 1) * 32 -> (cellr rpgs P j <= w0)%Qc) /\ above bm i
  | None => forall j, j < (P + 1) * 32 -> above bm j -> (cellr rpgs P j <= w0)%Qc
  end.
Proof.
  induction rpgs as [|pg tl IH]; intros P Hlen.
  - rewrite max_pages_nil. intros j _ _. rewrite cellr_nil. apply wle0_refl.
  - inversion Hlen as [|pg' tl' Hpg Htl]; subst pg' tl'.
    rewrite max_pages_cons. destruct (xp_guard bm P) eqn:G.
    2:{ intros j Hj Hb. exfalso. unfold xp_guard in G. destruct bm as [m|]; [|discriminate].
        apply Z.leb_gt in G. cbn [above] in Hb. rewrite page_index_div in G. lia. }
    pose proof (last_pos_spec pg (xp_start bm P)) as LP.
    destruct (last_pos pg (xp_start bm P)) as [l|].
    + destruct LP as [Hl [Hs [Hpos Hab]]].
      rewrite index_of_mul. split; [lia|]. split; [|split].
      * rewrite cellr_cons, <- index_of_mul, page_index_index_of, line_index_index_of, Z.eqb_refl by lia.
        exact Hpos.
      * intros j Hj. rewrite cellr_cons. destruct (idx_decomp j) as [pj [lj [Ep [El [Ej Hlj]]]]].
        rewrite Ep, El. destruct (Z.eqb_spec pj P) as [E|E]; [|lia]. apply Hab. lia.
      * apply xp_start_above; [exact G|lia|exact Hs].
    + specialize (IH (P - 1) Htl). replace (P - 1 + 1) with P in IH by lia.
      destruct (max_pages bm tl (P - 1)) as [i|].
      * destruct IH as [H1 [H2 [H3 H4]]]. split; [lia|]. split; [|split].
        -- rewrite cellr_cons. destruct (Z.eqb_spec (page_index i) P) as [E|E]; [|exact H2].
           rewrite page_index_div in E. lia.
        -- intros j Hj. rewrite cellr_cons. destruct (Z.eqb_spec (page_index j) P) as [E|E].
           ++ apply LP. apply xp_start_line; [exact E|]. apply (above_mono bm i); [lia|exact H4].
           ++ apply H3. rewrite page_index_div in E. lia.
        -- exact H4.
      * intros j Hj Hb. rewrite cellr_cons. destruct (Z.eqb_spec (page_index j) P) as [E|E].
        -- apply LP. apply xp_start_line; assumption.
        -- apply IH; [|exact Hb]. rewrite page_index_div in E. lia.
Qed.

Lemma PInv_rev_le32 s : PInv s -> Forall (fun pg => zlen pg <= 32) (rev (pages s)).
Proof. intros H. apply Forall_rev. apply pc_le32_Forall. apply PInv_le32. exact H. Qed.

(* what the page loop of MaxIndex yields, in terms of the cells of the store *)
Lemma p_max_pages_spec s bm : PInv s ->
  match (if minPage s <=? wrap_i64 (minPage s + zlen (pages s) - 1)
         then max_pages bm (rev (pages s)) (wrap_i64 (minPage s + zlen (pages s) - 1)) else None) with
  | Some i => (w0 < cell s i)%Qc /\ (forall j, i < j -> (cell s j <= w0)%Qc) /\ above bm i
  | None => forall j, above bm j -> (cell s j <= w0)%Qc
  end.
Proof.
  intros H. destruct (Z.eq_dec (minPage s) MaxInt64) as [E|E].
  - (* sentinel state: every page is nil, whatever the loop bounds *)
    assert (Hc : forall P j, cellr (rev (pages s)) P j = w0).
    { intros P j. unfold cellr. rewrite pgat_rev, (inv_sent s H E). apply at_nil. }
    set (last := wrap_i64 (minPage s + zlen (pages s) - 1)).
    pose proof (max_pages_spec bm (rev (pages s)) last (PInv_rev_le32 s H)) as M.
    destruct (minPage s <=? last).
    + destruct (max_pages bm (rev (pages s)) last) as [i|].
      * destruct M as [_ [M2 _]]. rewrite Hc in M2. exfalso. wlra.
      * intros j _. rewrite cell_sent by assumption. apply wle0_refl.
    + intros j _. rewrite cell_sent by assumption. apply wle0_refl.
  - destruct (PInv_nowrap s H E) as [B1 [B2 B3]].
    rewrite wrap_i64_id by (unfold PM, MinInt64, MaxInt64 in *; lia).
    destruct (minPage s <=? minPage s + zlen (pages s) - 1) eqn:C.
    + pose proof (max_pages_spec bm (rev (pages s)) (minPage s + zlen (pages s) - 1) (PInv_rev_le32 s H)) as M.
      destruct (max_pages bm (rev (pages s)) (minPage s + zlen (pages s) - 1)) as [i|].
      * destruct M as [M1 [M2 [M3 M4]]]. rewrite cellr_rev_cell in M2. split; [exact M2|]. split; [|exact M4].
        intros j Hj. rewrite <- cellr_rev_cell.
        destruct (Z.lt_ge_cases j ((minPage s + zlen (pages s) - 1 + 1) * 32)) as [Hlt|Hge].
        -- apply M3. lia.
        -- rewrite cellr_above by exact Hge. apply wle0_refl.
      * intros j Hb. rewrite <- cellr_rev_cell.
        destruct (Z.lt_ge_cases j ((minPage s + zlen (pages s) - 1 + 1) * 32)) as [Hlt|Hge].
        -- apply M; assumption.
        -- rewrite cellr_above by exact Hge. apply wle0_refl.
    + intros j _. apply Z.leb_gt in C.
      assert (Hz : zlen (pages s) = 0) by lia. apply zlen_nil_iff in Hz.
      unfold cell. rewrite Hz, pgat_nil, at_nil. apply wle0_refl.
Qed.

Theorem p_max_go_spec s : PInv s -> p_max_go s = max_key (pabs s).
Proof.
  intros H. unfold p_max_go. cbv zeta.
  pose proof (p_max_pages_spec s (buf_max (buffer s)) H) as FP.
  pose proof (buf_max_spec (buffer s)) as BM.
  destruct (if minPage s <=? wrap_i64 (minPage s + zlen (pages s) - 1)
            then max_pages (buf_max (buffer s)) (rev (pages s)) (wrap_i64 (minPage s + zlen (pages s) - 1))
            else None) as [i|].
  - destruct FP as [F1 [F2 F3]]. symmetry. apply (max_key_iff _ _ (wf_pabs s H)). split.
    + rewrite get_pabs by exact H. unfold pget. pose proof (cnt_nonneg (buffer s) i) as Hc. wlra.
    + intros j Hj. rewrite get_pabs by exact H. unfold pget.
      rewrite (wle0_nonneg_eq (cell s j) (F2 j Hj) (cell_nonneg s j H)), wadd_0_r.
      destruct (buf_max (buffer s)) as [m|].
      * destruct BM as [_ Hall]. cbn [above] in F3. apply (cnt_zero_gt _ m); [exact Hall|lia].
      * rewrite BM. apply cnt_nil.
  - destruct (buf_max (buffer s)) as [m|].
    + destruct BM as [Hin Hall]. symmetry. apply (max_key_iff _ _ (wf_pabs s H)). split.
      * rewrite get_pabs by exact H. unfold pget. pose proof (cnt_in_pos (buffer s) m Hin) as Hc.
        pose proof (cell_nonneg s m H) as Hn. wlra.
      * intros j Hj. rewrite get_pabs by exact H. unfold pget.
        assert (Hab : above (Some m) j) by (cbn [above]; lia).
        rewrite (wle0_nonneg_eq (cell s j) (FP j Hab) (cell_nonneg s j H)), wadd_0_r.
        apply (cnt_zero_gt _ m); assumption.
    + assert (E : pabs s = []).
      { apply (pabs_nil_iff s H). intros i. unfold pget. rewrite BM, cnt_nil, wadd_0_l.
        apply wle0_nonneg_eq; [apply FP; exact I|apply cell_nonneg; exact H]. }
      rewrite E. reflexivity.
Qed.

(* ================================================================== *)
(** * 5. minIndexWithCumulCount / KeyAtRank                            *)
(* ================================================================== *)

(* The loop state is (rest of the sorted buffer, rest of the cells, cumulative count so far).
   [Fq buf cells cumul j] is the cumulative count the loop would have reached once every remaining
   entry of index <= j is consumed. Initially it is [cum (pabs s) j]. *)
Definition Fq (buf : list Z) (cells : list (Z * W)) (cumul : W) (j : Z) : W :=
  wadd cumul (wadd (cum (unit_bins buf) j) (cum cells j)).
(* the answer [o] is right for the cumulative function F: the least index where F exceeds the
   rank, or None when F never does *)
Definition Res (F : Z -> W) (rank : W) (o : option Z) : Prop :=
  match o with
  | Some k => (rank < F k)%Qc /\ forall j, j < k -> (F j <= rank)%Qc
  | None => forall j, (F j <= rank)%Qc
  end.

Lemma Res_ext F G rank o : (forall j, F j = G j) -> Res F rank o -> Res G rank o.
Proof.
  intros E. destruct o as [k|]; cbn [Res].
  - intros [H1 H2]. split; [rewrite <- E; exact H1|]. intros j Hj. rewrite <- E. apply H2. exact Hj.
  - intros H j. rewrite <- E. apply H.
Qed.
(* consuming the entry of least index x: F' is the cumulative function of the new state *)
Lemma Res_transfer F F' rank x o :
  (forall j, (F j <= F' j)%Qc) -> (forall j, x <= j -> F j = F' j) ->
  (forall j, j < x -> (F' j <= rank)%Qc) ->
  Res F' rank o -> Res F rank o.
Proof.
  intros Ha Hb Hc. destruct o as [k|]; cbn [Res].
  - intros [H1 H2].
    assert (Hk : x <= k).
    { destruct (Z.lt_ge_cases k x) as [Hlt|Hge]; [|exact Hge]. exfalso. specialize (Hc k Hlt). wlra. }
    split; [rewrite (Hb k Hk); exact H1|].
    intros j Hj. specialize (Ha j). specialize (H2 j Hj). wlra.
  - intros H j. specialize (Ha j). specialize (H j). wlra.
Qed.

Lemma unit_bins_cons x tl : unit_bins (x :: tl) = (x, w1) :: unit_bins tl.
Proof. reflexivity. Qed.
Lemma cum_ub_cons x tl j :
  cum (unit_bins (x :: tl)) j = if x <=? j then wadd w1 (cum (unit_bins tl) j) else cum (unit_bins tl) j.
Proof. rewrite unit_bins_cons. apply cum_cons. Qed.
Lemma cum_ub_nil j : cum (unit_bins []) j = w0.
Proof. reflexivity. Qed.
Lemma cum_ub_above buf j : Forall (fun x => j < x) buf -> cum (unit_bins buf) j = w0.
Proof.
  induction buf as [|x tl IH]; intros H; [reflexivity|].
  inversion H as [|x' tl' Hx Htl]; subst x' tl'. rewrite cum_ub_cons.
  destruct (Z.leb_spec x j) as [Hle|Hgt]; [lia|]. apply IH. exact Htl.
Qed.
Lemma cum_ub_nonneg buf j : (w0 <= cum (unit_bins buf) j)%Qc.
Proof. apply cum_nonneg. apply nonneg_unit_bins. Qed.
Lemma cum_asc_below lo cells j : asc lo cells -> j <= lo -> cum cells j = w0.
Proof.
  revert lo. induction cells as [|[k w] tl IH]; intros lo Ha Hj; [reflexivity|].
  cbn [asc fst] in Ha. destruct Ha as [Hlo Ha]. rewrite cum_cons.
  destruct (Z.leb_spec k j) as [Hle|Hgt]; [lia|]. apply (IH k); [exact Ha|lia].
Qed.
Lemma ssorted_head_lt x tl j : StronglySorted Z.le (x :: tl) -> j < x -> Forall (fun y => j < y) (x :: tl).
Proof.
  intros Hs Hj. apply StronglySorted_inv in Hs. destruct Hs as [_ Hall].
  constructor; [exact Hj|]. eapply Forall_impl; [|exact Hall]. intros y Hy. cbv beta in *. lia.
Qed.

(* one buffer entry: found here / passed over *)
Lemma Fq_buf_hit x tl cells cumul rank :
  nonneg cells -> StronglySorted Z.le (x :: tl) -> (forall j, j < x -> cum cells j = w0) ->
  (cumul <= rank)%Qc -> (rank < wadd cumul w1)%Qc ->
  Res (Fq (x :: tl) cells cumul) rank (Some x).
Proof.
  intros Hn Hs Hcz Hc Hr. cbn [Res]. split.
  - unfold Fq. rewrite cum_ub_cons, Z.leb_refl.
    pose proof (cum_ub_nonneg tl x) as H1. pose proof (cum_nonneg cells x Hn) as H2. wlra.
  - intros j Hj. unfold Fq. rewrite (cum_ub_above (x :: tl) j) by (apply ssorted_head_lt; assumption).
    rewrite (Hcz j Hj). wlra.
Qed.
Lemma Fq_buf_skip x tl cells cumul rank :
  StronglySorted Z.le (x :: tl) -> (forall j, j < x -> cum cells j = w0) ->
  (wadd cumul w1 <= rank)%Qc ->
  forall o, Res (Fq tl cells (wadd cumul w1)) rank o -> Res (Fq (x :: tl) cells cumul) rank o.
Proof.
  intros Hs Hcz Hr o. apply (Res_transfer _ _ rank x).
  - intros j. unfold Fq. rewrite cum_ub_cons. destruct (x <=? j); wlra.
  - intros j Hj. unfold Fq. rewrite cum_ub_cons. destruct (Z.leb_spec x j) as [H|H]; [|lia]. wring.
  - intros j Hj. unfold Fq. pose proof (ssorted_head_lt x tl j Hs Hj) as Hall.
    inversion Hall as [|x' tl' _ Htl]; subst x' tl'.
    rewrite (cum_ub_above tl j Htl), (Hcz j Hj). wlra.
Qed.

(* the inner loop over the buffer entries strictly below [index] *)
Lemma drain_rank_spec rank index cells :
  nonneg cells -> (forall j, j < index -> cum cells j = w0) ->
  forall buf cumul, (cumul <= rank)%Qc -> StronglySorted Z.le buf ->
  match drain_rank rank index buf cumul with
  | (Some k, _, _) => Res (Fq buf cells cumul) rank (Some k)
  | (None, b, c) => (c <= rank)%Qc /\ StronglySorted Z.le b /\ Forall (fun x => index <= x) b /\
                    forall o, Res (Fq b cells c) rank o -> Res (Fq buf cells cumul) rank o
  end.
Proof.
  intros Hn Hcz. induction buf as [|x tl IH]; intros cumul Hc Hs.
  - rewrite drain_rank_nil. split; [exact Hc|]. split; [exact Hs|]. split; [constructor|]. intros o Ho. exact Ho.
  - rewrite drain_rank_cons. destruct (Z.ltb_spec x index) as [Hx|Hx].
    + assert (Hcz' : forall j, j < x -> cum cells j = w0) by (intros j Hj; apply Hcz; lia).
      destruct (wltb rank (wadd cumul w1)) eqn:Ew.
      * apply wltb_lt in Ew. apply Fq_buf_hit; assumption.
      * apply wltb_ge in Ew. pose proof (Fq_buf_skip x tl cells cumul rank Hs Hcz' Ew) as TL.
        pose proof (proj1 (StronglySorted_inv Hs)) as Hs'.
        specialize (IH (wadd cumul w1) Ew Hs').
        destruct (drain_rank rank index tl (wadd cumul w1)) as [[[k|] b] c].
        -- apply TL. exact IH.
        -- destruct IH as [A [B [C D]]]. split; [exact A|]. split; [exact B|]. split; [exact C|].
           intros o Ho. apply TL, D, Ho.
    + split; [exact Hc|]. split; [exact Hs|]. split; [|intros o Ho; exact Ho].
      apply StronglySorted_inv in Hs. destruct Hs as [_ Hall]. constructor; [lia|].
      eapply Forall_impl; [|exact Hall]. intros y Hy. cbv beta in *. lia.
Qed.

(* the loop over the cells *)
Lemma rank_cells_spec rank : forall cells lo buf cumul,
  asc lo cells -> nonneg cells -> (cumul <= rank)%Qc -> StronglySorted Z.le buf ->
  match rank_cells rank cells buf cumul with
  | (Some k, _, _) => Res (Fq buf cells cumul) rank (Some k)
  | (None, b, c) => (c <= rank)%Qc /\ StronglySorted Z.le b /\
                    forall o, Res (Fq b [] c) rank o -> Res (Fq buf cells cumul) rank o
  end.
Proof.
  induction cells as [|[index count] ctl IH]; intros lo buf cumul Ha Hn Hc Hs.
  - rewrite rank_cells_nil. split; [exact Hc|]. split; [exact Hs|]. intros o Ho. exact Ho.
  - rewrite rank_cells_cons. cbn [asc fst] in Ha. destruct Ha as [Hlo Hasc].
    pose proof Hn as Hn0. apply nonneg_cons in Hn. destruct Hn as [Hcount Hnt].
    assert (Hcz : forall j, j < index -> cum ((index, count) :: ctl) j = w0).
    { intros j Hj. rewrite cum_cons. destruct (Z.leb_spec index j) as [H|H]; [lia|].
      apply (cum_asc_below index); [exact Hasc|lia]. }
    pose proof (drain_rank_spec rank index ((index, count) :: ctl) Hn0 Hcz buf cumul Hc Hs) as D.
    destruct (drain_rank rank index buf cumul) as [[[k|] b] c]; [exact D|].
    destruct D as [Dc [Ds [Db Dk]]].
    assert (Hub : forall j, j < index -> cum (unit_bins b) j = w0).
    { intros j Hj. apply cum_ub_above. eapply Forall_impl; [|exact Db]. intros y Hy. cbv beta in *. lia. }
    destruct (wltb rank (wadd c count)) eqn:Ew.
    + apply wltb_lt in Ew. apply Dk. cbn [Res]. split.
      * unfold Fq. rewrite cum_cons, Z.leb_refl.
        pose proof (cum_ub_nonneg b index) as H1. pose proof (cum_nonneg ctl index Hnt) as H2. wlra.
      * intros j Hj. unfold Fq. rewrite (Hub j Hj), (Hcz j Hj). wlra.
    + apply wltb_ge in Ew. specialize (IH index b (wadd c count) Hasc Hnt Ew Ds).
      assert (TL : forall o, Res (Fq b ctl (wadd c count)) rank o -> Res (Fq b ((index, count) :: ctl) c) rank o).
      { intros o. apply (Res_transfer _ _ rank index).
        - intros j. unfold Fq. rewrite cum_cons. destruct (index <=? j); wlra.
        - intros j Hj. unfold Fq. rewrite cum_cons. destruct (Z.leb_spec index j) as [H|H]; [|lia]. wring.
        - intros j Hj. unfold Fq. rewrite (Hub j Hj), (cum_asc_below index ctl j Hasc) by lia. wlra. }
      destruct (rank_cells rank ctl b (wadd c count)) as [[[k|] b2] c2].
      * apply Dk, TL, IH.
      * destruct IH as [A [B C]]. split; [exact A|]. split; [exact B|].
        intros o Ho. apply Dk, TL, C, Ho.
Qed.

(* the loop over the rest of the buffer *)
Lemma rank_rest_spec rank : forall buf cumul,
  (cumul <= rank)%Qc -> StronglySorted Z.le buf -> Res (Fq buf [] cumul) rank (rank_rest rank buf cumul).
Proof.
  induction buf as [|x tl IH]; intros cumul Hc Hs.
  - rewrite rank_rest_nil. cbn [Res]. intros j. unfold Fq. rewrite cum_ub_nil, cum_nil. wlra.
  - rewrite rank_rest_cons.
    assert (Hcz : forall j, j < x -> cum (@nil (Z * W)) j = w0) by (intros j _; apply cum_nil).
    destruct (wltb rank (wadd cumul w1)) eqn:Ew.
    + apply wltb_lt in Ew. apply Fq_buf_hit; [apply nonneg_nil|exact Hs|exact Hcz|exact Hc|exact Ew].
    + apply wltb_ge in Ew. apply (Fq_buf_skip x tl [] cumul rank Hs Hcz Ew).
      apply IH; [exact Ew|]. apply (StronglySorted_inv Hs).
Qed.

(* ---- from the cumulative function to key_at_rank ---- *)
Lemma Res_some_key b r k :
  wf b = true -> pos b -> (w0 <= r)%Qc -> Res (cum b) r (Some k) -> key_at_rank b r = Some k.
Proof.
  intros Hwf Hp Hr [H1 H2].
  assert (Hne : b <> []). { intros E. subst b. rewrite cum_nil in H1. wlra. }
  destruct (key_at_rank_spec b r Hwf Hp Hne Hr) as [k' [E [_ [[H3 H4]|[H3 H4]]]]].
  - rewrite E. f_equal. destruct (Z.lt_trichotomy k k') as [Hlt|[Heq|Hgt]]; [|symmetry; exact Heq|]; exfalso.
    + specialize (H4 k Hlt). wlra.
    + specialize (H2 k' Hgt). wlra.
  - exfalso. specialize (H4 k). wlra.
Qed.
Lemma Res_none_key b r k :
  wf b = true -> pos b -> (w0 <= r)%Qc -> Res (cum b) r None -> key_at_rank b r = Some k -> max_key b = Some k.
Proof. intros Hwf Hp Hr H E. apply (key_at_rank_last b r k Hwf Hp Hr E). exact H. Qed.
Lemma kar_clamp b r : pos b -> key_at_rank b (if wltb r w0 then w0 else r) = key_at_rank b r.
Proof.
  intros Hp. destruct (wltb r w0) eqn:E; [|reflexivity]. apply wltb_lt in E.
  rewrite key_at_rank_0, key_at_rank_neg by assumption. reflexivity.
Qed.

Lemma Fq_init sort s j : sort_ok sort -> Fq (sort (buffer s)) (page_cells s) w0 j = cum (pabs s) j.
Proof.
  intros Hs. unfold Fq, pabs, cum. rewrite gsum_bins_of_list, gsum_app, wadd_0_l. f_equal.
  apply gsum_perm. unfold unit_bins. apply Permutation_map. apply Permutation_sym. apply Hs.
Qed.

Lemma p_key_at_rank_go_unfold sort s r :
  p_key_at_rank_go sort s r =
  let r' := if wltb r w0 then w0 else r in
  let s' := with_buffer s (sort (buffer s)) in
  (s', match rank_cells r' (page_cells s') (sort (buffer s)) w0 with
       | (Some k, _, _) => k
       | (None, b, c) => match rank_rest r' b c with
                         | Some k => k
                         | None => match p_max_go s' with Some k => k | None => 0 end
                         end
       end).
Proof.
  unfold p_key_at_rank_go. cbv zeta.
  destruct (rank_cells (if wltb r w0 then w0 else r) (page_cells (with_buffer s (sort (buffer s))))
                       (sort (buffer s)) w0) as [[[k|] b] c]; [reflexivity|].
  destruct (rank_rest (if wltb r w0 then w0 else r) b c); reflexivity.
Qed.

Theorem p_key_at_rank_go_key sort s r :
  sort_ok sort -> PInv s ->
  exists k, p_key_at_rank_go sort s r = (with_buffer s (sort (buffer s)), k) /\
            (pabs s <> [] -> key_at_rank (pabs s) r = Some k) /\ (pabs s = [] -> k = 0).
Proof.
  intros Hs H. rewrite p_key_at_rank_go_unfold. cbv zeta.
  set (r' := if wltb r w0 then w0 else r).
  assert (Hr' : (w0 <= r')%Qc).
  { unfold r'. destruct (wltb r w0) eqn:E; [apply wle0_refl|]. apply wltb_ge in E. exact E. }
  assert (Hk : key_at_rank (pabs s) r' = key_at_rank (pabs s) r) by (apply kar_clamp, pos_pabs; exact H).
  destruct (p_foreach_spec sort s Hs H) as [_ [W1 [_ W3]]].
  change (page_cells (with_buffer s (sort (buffer s)))) with (page_cells s).
  destruct (page_cells_asc s (PInv_le32 s H)) as [lo Hasc].
  assert (Hsorted : StronglySorted Z.le (sort (buffer s))).
  { apply Sorted_StronglySorted; [intros a b c; apply Z.le_trans|apply Hs]. }
  pose proof (rank_cells_spec r' (page_cells s) lo (sort (buffer s)) w0 Hasc (nonneg_cells s H) Hr' Hsorted) as RC.
  assert (Hinit : forall o, Res (Fq (sort (buffer s)) (page_cells s) w0) r' o -> Res (cum (pabs s)) r' o).
  { intros o. apply Res_ext. intros j. apply Fq_init. exact Hs. }
  pose proof (wf_pabs s H) as Hwf. pose proof (pos_pabs s H) as Hp.
  assert (Hsome : forall k, Res (cum (pabs s)) r' (Some k) ->
                  (pabs s <> [] -> key_at_rank (pabs s) r = Some k) /\ (pabs s = [] -> k = 0)).
  { intros k Hres. pose proof (Res_some_key _ _ _ Hwf Hp Hr' Hres) as E. rewrite Hk in E.
    split; [intros _; exact E|]. intros En. rewrite En in E. discriminate. }
  destruct (rank_cells r' (page_cells s) (sort (buffer s)) w0) as [[[k|] b] c].
  - exists k. split; [reflexivity|]. apply Hsome, Hinit, RC.
  - destruct RC as [Rc [Rs Rk]]. pose proof (rank_rest_spec r' b c Rc Rs) as RR.
    destruct (rank_rest r' b c) as [k|].
    + exists k. split; [reflexivity|]. apply Hsome, Hinit, Rk, RR.
    + apply Rk, Hinit in RR. rewrite (p_max_go_spec _ W1), W3.
      destruct (pabs s) as [|kw tl] eqn:Eb.
      * exists 0. split; [reflexivity|]. split; [intros Hne; contradiction|reflexivity].
      * rewrite <- Eb in *. assert (Hne : pabs s <> []) by (rewrite Eb; discriminate).
        destruct (karf_some w0 (pabs s) r' Hne) as [k Ek]. fold (key_at_rank (pabs s) r') in Ek.
        rewrite (Res_none_key _ _ _ Hwf Hp Hr' RR Ek). exists k. split; [reflexivity|].
        split; [intros _; rewrite <- Hk; exact Ek|]. intros En. contradiction.
Qed.

Theorem p_key_at_rank_go_spec sort s r :
  sort_ok sort -> PInv s ->
  p_key_at_rank_go sort s r = (with_buffer s (sort (buffer s)), snd (p_key_at_rank sort s r)).
Proof.
  intros Hs H. destruct (p_key_at_rank_go_key sort s r Hs H) as [k [E [K1 K2]]]. rewrite E. f_equal.
  destruct (p_key_at_rank_spec sort s r Hs H) as [_ [_ [_ [S1 S2]]]]. cbv zeta in S1, S2.
  destruct (pabs s) as [|kw tl] eqn:Eb.
  - rewrite K2, S2 by reflexivity. reflexivity.
  - assert (Hne : kw :: tl <> []) by discriminate.
    specialize (K1 Hne). specialize (S1 Hne). rewrite K1 in S1. injection S1 as S1. exact S1.
Qed.

(* ---- MinIndex / MaxIndex spelled out on the content function ---- *)
Theorem p_min_go_content s : PInv s ->
  match p_min_go s with
  | Some k => pget s k <> w0 /\ forall j, j < k -> pget s j = w0
  | None => forall j, pget s j = w0
  end.
Proof.
  intros H. rewrite (p_min_go_spec s H). destruct (min_key (pabs s)) as [k|] eqn:E.
  - apply (min_key_iff _ _ (wf_pabs s H)) in E. destruct E as [E1 E2]. rewrite get_pabs in E1 by exact H.
    split; [exact E1|]. intros j Hj. rewrite <- get_pabs by exact H. apply E2. exact Hj.
  - apply min_key_none in E. apply (pabs_nil_iff s H). exact E.
Qed.
Theorem p_max_go_content s : PInv s ->
  match p_max_go s with
  | Some k => pget s k <> w0 /\ forall j, k < j -> pget s j = w0
  | None => forall j, pget s j = w0
  end.
Proof.
  intros H. rewrite (p_max_go_spec s H). destruct (max_key (pabs s)) as [k|] eqn:E.
  - apply (max_key_iff _ _ (wf_pabs s H)) in E. destruct E as [E1 E2]. rewrite get_pabs in E1 by exact H.
    split; [exact E1|]. intros j Hj. rewrite <- get_pabs by exact H. apply E2. exact Hj.
  - apply max_key_none in E. apply (pabs_nil_iff s H). exact E.
Qed.

(* ================================================================== *)
(** * 6. The loop-style and the scan-style observers coincide          *)
(* ================================================================== *)

Theorem p_min_go_scan sort s : sort_ok sort -> PInv s -> p_min_go s = p_min sort s.
Proof. intros Hs H. rewrite p_min_go_spec, p_min_spec by assumption. reflexivity. Qed.
Theorem p_max_go_scan sort s : sort_ok sort -> PInv s -> p_max_go s = p_max sort s.
Proof. intros Hs H. rewrite p_max_go_spec, p_max_spec by assumption. reflexivity. Qed.
Theorem p_key_at_rank_go_scan sort s r :
  sort_ok sort -> PInv s -> p_key_at_rank_go sort s r = p_key_at_rank sort s r.
Proof.
  intros Hs H. rewrite p_key_at_rank_go_spec by assumption.
  rewrite (surjective_pairing (p_key_at_rank sort s r)) at 2. f_equal.
  rewrite p_key_at_rank_unfold. cbn [fst]. destruct (p_foreach_spec sort s Hs H) as [E _]. rewrite E. reflexivity.
Qed.
Theorem p_observers_agree sort s :
  sort_ok sort -> PInv s ->
  p_min_go s = p_min sort s /\ p_max_go s = p_max sort s /\
  forall r, p_key_at_rank_go sort s r = p_key_at_rank sort s r.
Proof.
  intros Hs H. split; [apply p_min_go_scan; assumption|]. split; [apply p_max_go_scan; assumption|].
  intros r. apply p_key_at_rank_go_scan; assumption.
Qed.
