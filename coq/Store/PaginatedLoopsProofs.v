(* buffered_paginated.go: the loop-by-loop transcriptions of MinIndex, MaxIndex and
   minIndexWithCumulCount / KeyAtRank (Store/PaginatedLoops.v) agree, under the store invariant PInv,
   with the scan-based observers of Store/Paginated.v, i.e. with min_key / max_key / key_at_rank of the
   Layer A content [pabs s].
     1. buf_min / buf_max      extreme element of the buffer
     2. first_pos / last_pos   inner line loops
     3. min_pages, p_min_go    MinIndex
     4. max_pages, p_max_go    MaxIndex
     5. drain_rank / rank_cells / rank_rest, p_key_at_rank_go   KeyAtRank
   Stdlib only, axiom-free. *)
From SK Require Import Store.Paginated Store.PaginatedLoops Spec.BinsProofs Store.PaginatedProofs.
From Coq Require Import Lqa Permutation Sorting.Sorted.
Local Open Scope Z_scope.

Local Ltac Zify.zify_post_hook ::= Z.div_mod_to_equations.

(* ================================================================== *)
(** * 0. Unfolding lemmas                                              *)
(* ================================================================== *)

Definition mp_guard (bm : option Z) (P : Z) : bool :=
  match bm with None => true | Some m => P <=? page_index m end.
Definition mp_limit (bm : option Z) (P : Z) : Z :=
  match bm with
  | Some m => if P =? page_index m then line_index m else pageLen
  | None => pageLen
  end.
Lemma min_pages_nil bm P : min_pages bm [] P = None.
Proof. reflexivity. Qed.
(* a nil page is skipped by [continue]; scanning it finds nothing either *)
Lemma min_pages_cons bm pg tl P :
  min_pages bm (pg :: tl) P =
  if mp_guard bm P then
    match first_pos pg 0 (mp_limit bm P) with
    | Some l => Some (index_of P l)
    | None => min_pages bm tl (P + 1)
    end
  else None.
Proof. destruct pg; reflexivity. Qed.

Definition xp_guard (bm : option Z) (P : Z) : bool :=
  match bm with None => true | Some m => page_index m <=? P end.
Definition xp_start (bm : option Z) (P : Z) : Z :=
  match bm with
  | Some m => if P =? page_index m then line_index m else 0
  | None => 0
  end.
Lemma max_pages_nil bm P : max_pages bm [] P = None.
Proof. reflexivity. Qed.
Lemma max_pages_cons bm pg tl P :
  max_pages bm (pg :: tl) P =
  if xp_guard bm P then
    match last_pos pg (xp_start bm P) with
    | Some l => Some (index_of P l)
    | None => max_pages bm tl (P - 1)
    end
  else None.
Proof. destruct pg; reflexivity. Qed.

Lemma first_pos_nil k limit : first_pos [] k limit = None.
Proof. reflexivity. Qed.
Lemma first_pos_cons c tl k limit :
  first_pos (c :: tl) k limit =
  if limit <=? k then None else if wltb w0 c then Some k else first_pos tl (k + 1) limit.
Proof. reflexivity. Qed.

Lemma drain_rank_nil rank index cumul : drain_rank rank index [] cumul = (None, [], cumul).
Proof. reflexivity. Qed.
Lemma drain_rank_cons rank index x tl cumul :
  drain_rank rank index (x :: tl) cumul =
  if x <? index then
    if wltb rank (wadd cumul w1) then (Some x, tl, wadd cumul w1)
    else drain_rank rank index tl (wadd cumul w1)
  else (None, x :: tl, cumul).
Proof. reflexivity. Qed.
Lemma rank_cells_nil rank buf cumul : rank_cells rank [] buf cumul = (None, buf, cumul).
Proof. reflexivity. Qed.
Lemma rank_cells_cons rank index count tl buf cumul :
  rank_cells rank ((index, count) :: tl) buf cumul =
  match drain_rank rank index buf cumul with
  | (Some k, b, c) => (Some k, b, c)
  | (None, b, c) => if wltb rank (wadd c count) then (Some index, b, wadd c count)
                    else rank_cells rank tl b (wadd c count)
  end.
Proof. reflexivity. Qed.
Lemma rank_rest_nil rank cumul : rank_rest rank [] cumul = None.
Proof. reflexivity. Qed.
Lemma rank_rest_cons rank x tl cumul :
  rank_rest rank (x :: tl) cumul =
  if wltb rank (wadd cumul w1) then Some x else rank_rest rank tl (wadd cumul w1).
Proof. reflexivity. Qed.

Arguments min_pages : simpl never.
Arguments max_pages : simpl never.
Arguments first_pos : simpl never.
Arguments last_pos : simpl never.
Arguments drain_rank : simpl never.
Arguments rank_cells : simpl never.
Arguments rank_rest : simpl never.

Lemma wle0_refl : (w0 <= w0)%Qc.
Proof. wlra. Qed.
Lemma wle0_nonneg_eq (c : W) : (c <= w0)%Qc -> (w0 <= c)%Qc -> c = w0.
Proof. intros H1 H2. wlra. Qed.

(* an index as (page, line) *)
Lemma idx_decomp j :
  exists p l, page_index j = p /\ line_index j = l /\ j = p * 32 + l /\ 0 <= l < 32.
Proof.
  exists (page_index j), (line_index j). split; [reflexivity|]. split; [reflexivity|].
  split; [|apply line_index_range]. rewrite <- index_of_mul. symmetry. apply index_of_page_line.
Qed.

(* ================================================================== *)
(** * 1. Extreme element of the buffer                                 *)
(* ================================================================== *)

Definition bmin_step (acc : option Z) (i : Z) : option Z :=
  match acc with None => Some i | Some m => if i <? m then Some i else acc end.
Definition bmax_step (acc : option Z) (i : Z) : option Z :=
  match acc with None => Some i | Some m => if m <? i then Some i else acc end.
Lemma buf_min_fold b : buf_min b = fold_left bmin_step b None.
Proof. reflexivity. Qed.
Lemma buf_max_fold b : buf_max b = fold_left bmax_step b None.
Proof. reflexivity. Qed.

Lemma bmin_fold_some b : forall a,
  exists m, fold_left bmin_step b (Some a) = Some m /\ (m = a \/ In m b) /\ m <= a /\
            Forall (fun x => m <= x) b.
Proof.
  induction b as [|x b IH]; intros a.
  - exists a. cbn [fold_left]. split; [reflexivity|]. split; [left; reflexivity|]. split; [lia|constructor].
  - cbn [fold_left bmin_step]. destruct (Z.ltb_spec x a) as [Hx|Hx].
    + destruct (IH x) as [m [E [Hin [Hle Hall]]]]. exists m. split; [exact E|].
      split; [right; destruct Hin as [Hin|Hin]; [left; symmetry; exact Hin|right; exact Hin]|].
      split; [lia|]. constructor; [exact Hle|exact Hall].
    + destruct (IH a) as [m [E [Hin [Hle Hall]]]]. exists m. split; [exact E|].
      split; [destruct Hin as [Hin|Hin]; [left; exact Hin|right; right; exact Hin]|].
      split; [exact Hle|]. constructor; [lia|exact Hall].
Qed.
Lemma bmax_fold_some b : forall a,
  exists m, fold_left bmax_step b (Some a) = Some m /\ (m = a \/ In m b) /\ a <= m /\
            Forall (fun x => x <= m) b.
Proof.
  induction b as [|x b IH]; intros a.
  - exists a. cbn [fold_left]. split; [reflexivity|]. split; [left; reflexivity|]. split; [lia|constructor].
  - cbn [fold_left bmax_step]. destruct (Z.ltb_spec a x) as [Hx|Hx].
    + destruct (IH x) as [m [E [Hin [Hle Hall]]]]. exists m. split; [exact E|].
      split; [right; destruct Hin as [Hin|Hin]; [left; symmetry; exact Hin|right; exact Hin]|].
      split; [lia|]. constructor; [exact Hle|exact Hall].
    + destruct (IH a) as [m [E [Hin [Hle Hall]]]]. exists m. split; [exact E|].
      split; [destruct Hin as [Hin|Hin]; [left; exact Hin|right; right; exact Hin]|].
      split; [exact Hle|]. constructor; [lia|exact Hall].
Qed.

(* the first loop of MinIndex: the least buffered index, None iff the buffer is empty *)
Theorem buf_min_spec b :
  match buf_min b with
  | None => b = []
  | Some m => In m b /\ Forall (fun x => m <= x) b
  end.
Proof.
  destruct b as [|x b]; [reflexivity|]. rewrite buf_min_fold. cbn [fold_left bmin_step].
  destruct (bmin_fold_some b x) as [m [E [Hin [Hle Hall]]]]. rewrite E. split.
  - destruct Hin as [Hin|Hin]; [left; symmetry; exact Hin|right; exact Hin].
  - constructor; [exact Hle|exact Hall].
Qed.
Theorem buf_max_spec b :
  match buf_max b with
  | None => b = []
  | Some m => In m b /\ Forall (fun x => x <= m) b
  end.
Proof.
  destruct b as [|x b]; [reflexivity|]. rewrite buf_max_fold. cbn [fold_left bmax_step].
  destruct (bmax_fold_some b x) as [m [E [Hin [Hle Hall]]]]. rewrite E. split.
  - destruct Hin as [Hin|Hin]; [left; symmetry; exact Hin|right; exact Hin].
  - constructor; [exact Hle|exact Hall].
Qed.

(* ================================================================== *)
(** * 2. Line loops                                                    *)
(* ================================================================== *)

(* ascending: the first line in [k, limit) with a positive count (line numbers start at k for the
   head of the list) *)
Lemma first_pos_spec limit : forall pg k,
  match first_pos pg k limit with
  | Some l => k <= l < limit /\ (w0 < at_ pg (l - k))%Qc /\
              forall j, k <= j < l -> (at_ pg (j - k) <= w0)%Qc
  | None => forall j, k <= j < limit -> (at_ pg (j - k) <= w0)%Qc
  end.
Proof.
  induction pg as [|c tl IH]; intros k.
  - rewrite first_pos_nil. intros j _. rewrite at_nil. apply wle0_refl.
  - rewrite first_pos_cons. destruct (Z.leb_spec limit k) as [Hk|Hk]; [intros j Hj; lia|].
    destruct (wltb w0 c) eqn:Ec.
    + apply wltb_lt in Ec. split; [lia|]. split.
      * rewrite Z.sub_diag, pc_at_cons. exact Ec.
      * intros j Hj. lia.
    + apply wltb_ge in Ec. specialize (IH (k + 1)).
      destruct (first_pos tl (k + 1) limit) as [l|].
      * destruct IH as [Hl [Hpos Hbel]]. split; [lia|]. split.
        -- rewrite pc_at_cons. destruct (Z.eqb_spec (l - k) 0) as [E|E]; [lia|].
           replace (l - k - 1) with (l - (k + 1)) by lia. exact Hpos.
        -- intros j Hj. rewrite pc_at_cons. destruct (Z.eqb_spec (j - k) 0) as [E|E]; [exact Ec|].
           replace (j - k - 1) with (j - (k + 1)) by lia. apply Hbel. lia.
      * intros j Hj. rewrite pc_at_cons. destruct (Z.eqb_spec (j - k) 0) as [E|E]; [exact Ec|].
        replace (j - k - 1) with (j - (k + 1)) by lia. apply IH. lia.
Qed.

(* descending: the last line >= start with a positive count *)
Definition lp_step (start : Z) (acc : option Z) (kc : Z * W) : option Z :=
  if (start <=? fst kc) && wltb w0 (snd kc) then Some (fst kc) else acc.
Lemma last_pos_fold pg start :
  last_pos pg start = fold_left (lp_step start) (combine (map Z.of_nat (seq 0 (length pg))) pg) None.
Proof. reflexivity. Qed.

Lemma lp_gen start : forall pg a acc,
  let r := fold_left (lp_step start) (combine (map Z.of_nat (seq a (length pg))) pg) acc in
  (exists l, r = Some l /\ Z.of_nat a <= l < Z.of_nat a + zlen pg /\ start <= l /\
             (w0 < at_ pg (l - Z.of_nat a))%Qc /\
             forall j, l < j -> (at_ pg (j - Z.of_nat a) <= w0)%Qc)
  \/ (r = acc /\ forall j, start <= j -> (at_ pg (j - Z.of_nat a) <= w0)%Qc).
Proof.
  induction pg as [|c pg IH]; intros a acc; cbv zeta.
  - right. cbn [length seq map combine fold_left]. split; [reflexivity|].
    intros j _. rewrite at_nil. apply wle0_refl.
  - cbn [length seq map combine fold_left].
    remember (lp_step start acc (Z.of_nat a, c)) as acc' eqn:Ea.
    destruct (IH (S a) acc') as [[l [E [Hl [Hs [Hpos Hab]]]]]|[E Hall]].
    + left. exists l. split; [exact E|]. rewrite pc_zlen_cons. split; [lia|]. split; [exact Hs|]. split.
      * rewrite pc_at_cons. destruct (Z.eqb_spec (l - Z.of_nat a) 0) as [E0|E0]; [lia|].
        replace (l - Z.of_nat a - 1) with (l - Z.of_nat (S a)) by lia. exact Hpos.
      * intros j Hj. rewrite pc_at_cons. destruct (Z.eqb_spec (j - Z.of_nat a) 0) as [E0|E0]; [lia|].
        replace (j - Z.of_nat a - 1) with (j - Z.of_nat (S a)) by lia. apply Hab. exact Hj.
    + rewrite E. clear E. unfold lp_step in Ea. cbn [fst snd] in Ea.
      destruct (Z.leb_spec start (Z.of_nat a)) as [Hsa|Hsa]; cbn [andb] in Ea; [|rename Ea into E].
      * destruct (wltb w0 c) eqn:Ec; rename Ea into E.
        -- apply wltb_lt in Ec. left. exists (Z.of_nat a). split; [exact E|]. rewrite pc_zlen_cons.
           pose proof (zlen_nonneg pg) as Hz. split; [lia|]. split; [exact Hsa|]. split.
           ++ rewrite Z.sub_diag, pc_at_cons. exact Ec.
           ++ intros j Hj. rewrite pc_at_cons. destruct (Z.eqb_spec (j - Z.of_nat a) 0) as [E0|E0]; [lia|].
              replace (j - Z.of_nat a - 1) with (j - Z.of_nat (S a)) by lia. apply Hall. lia.
        -- apply wltb_ge in Ec. right. split; [exact E|]. intros j Hj. rewrite pc_at_cons.
           destruct (Z.eqb_spec (j - Z.of_nat a) 0) as [E0|E0]; [exact Ec|].
           replace (j - Z.of_nat a - 1) with (j - Z.of_nat (S a)) by lia. apply Hall. exact Hj.
      * right. split; [exact E|]. intros j Hj. rewrite pc_at_cons.
        destruct (Z.eqb_spec (j - Z.of_nat a) 0) as [E0|E0]; [lia|].
        replace (j - Z.of_nat a - 1) with (j - Z.of_nat (S a)) by lia. apply Hall. exact Hj.
Qed.

Lemma last_pos_spec pg start :
  match last_pos pg start with
  | Some l => 0 <= l < zlen pg /\ start <= l /\ (w0 < at_ pg l)%Qc /\
              forall j, l < j -> (at_ pg j <= w0)%Qc
  | None => forall j, start <= j -> (at_ pg j <= w0)%Qc
  end.
Proof.
  rewrite last_pos_fold. pose proof (lp_gen start pg 0%nat None) as H. cbv zeta in H.
  change (Z.of_nat 0) with 0 in H.
  destruct H as [[l [E [Hl [Hs [Hpos Hab]]]]]|[E Hall]]; rewrite E.
  - rewrite Z.sub_0_r in Hpos. split; [lia|]. split; [exact Hs|]. split; [exact Hpos|].
    intros j Hj. specialize (Hab j Hj). rewrite Z.sub_0_r in Hab. exact Hab.
  - intros j Hj. specialize (Hall j Hj). rewrite Z.sub_0_r in Hall. exact Hall.
Qed.
