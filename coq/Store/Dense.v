(* Layer B: transcription of ddsketch/store/dense_store.go and of the two collapsing variants
   (collapsing_lowest_dense_store.go, collapsing_highest_dense_store.go), which embed DenseStore
   and redefine normalize / getNewLength / extendRange / adjust / MergeWith / Copy / Clear.
   One record, the static field [lim] says which of the three Go types it is.
   Every slice expression and index carries Go's bounds check against len (stricter than Go,
   which allows slicing up to cap): [None] = the Go code would panic.
   [grow] is the growth policy (Go: a float formula equal to desired+63): a Section parameter.
   [fixD1]: true = current code, false = the code before the repair of defect D1 (kept for the
   refutation witness). Definitions only. *)
From SK Require Export Spec.Bins.

Record dense := {
  bins : list W; count : W; offset : Z; minI : Z; maxI : Z;
  lim : limit; collapsed : bool }.

Definition new_dense (l : limit) : dense :=
  {| bins := []; count := w0; offset := 0; minI := MaxInt32; maxI := MinInt32; lim := l; collapsed := false |}.

Definition len (s : dense) : Z := zlen (bins s).
Definition is_empty (s : dense) : bool := weqb (count s) w0.
Definition with_bins (s : dense) (b : list W) : dense :=
  {| bins := b; count := count s; offset := offset s; minI := minI s; maxI := maxI s; lim := lim s; collapsed := collapsed s |}.
Definition with_range (s : dense) (lo hi : Z) : dense :=
  {| bins := bins s; count := count s; offset := offset s; minI := lo; maxI := hi; lim := lim s; collapsed := collapsed s |}.
Definition with_offset (s : dense) (o : Z) : dense :=
  {| bins := bins s; count := count s; offset := o; minI := minI s; maxI := maxI s; lim := lim s; collapsed := collapsed s |}.
Definition with_count (s : dense) (c : W) : dense :=
  {| bins := bins s; count := c; offset := offset s; minI := minI s; maxI := maxI s; lim := lim s; collapsed := collapsed s |}.
Definition with_collapsed (s : dense) (c : bool) : dense :=
  {| bins := bins s; count := count s; offset := offset s; minI := minI s; maxI := maxI s; lim := lim s; collapsed := c |}.

Definition in_bounds (s : dense) (j : Z) : bool := (0 <=? j) && (j <? len s).
(* apply f to the cells skip, skip+1, ..., skip+n-1 (those that exist) *)
Fixpoint map_range_nat (f : W -> W) (l : list W) (skip n : nat) : list W :=
  match l with
  | [] => []
  | x :: tl =>
    match skip with
    | S k => x :: map_range_nat f tl k n
    | O => match n with O => l | S m => f x :: map_range_nat f tl O m end
    end
  end.
(* cells lo..hi (inclusive, Z positions; callers check bounds) *)
Definition map_range (f : W -> W) (l : list W) (lo hi : Z) : list W :=
  if hi <? lo then l else map_range_nat f l (Z.to_nat lo) (Z.to_nat (hi - lo + 1)).
Definition slice (l : list W) (lo n : Z) : list W := firstn (Z.to_nat n) (skipn (Z.to_nat lo) l).
(* l[j] += c, l[j] = c *)
Definition upd (l : list W) (j : Z) (c : W) : list W := map_range (fun x => wadd x c) l j j.
Definition setw (l : list W) (j : Z) (c : W) : list W := map_range (fun _ => c) l j j.
(* Go: copy(l[dst:], l[src:src+n]) (memmove semantics); callers guarantee 0 <= dst, src and dst+n, src+n <= len *)
Definition copy_within (l : list W) (dst src n : Z) : list W :=
  if n <=? 0 then l else firstn (Z.to_nat dst) l ++ slice l src n ++ skipn (Z.to_nat (dst + n)) l.
Definition reset (l : list W) (lo hi : Z) : list W := map_range (fun _ => w0) l lo hi.
(* l[start + k] += src[k] for every k; callers check 0 <= start and start + len src <= len l *)
Fixpoint add_slice_nat (l : list W) (start : nat) (src : list W) : list W :=
  match l with
  | [] => []
  | x :: tl =>
    match start with
    | S k => x :: add_slice_nat tl k src
    | O => match src with [] => l | y :: src' => wadd x y :: add_slice_nat tl O src' end
    end
  end.
Definition add_slice (l : list W) (start : Z) (src : list W) : list W := add_slice_nat l (Z.to_nat start) src.

Section Policy.
Variable grow : Z -> Z.
Variable fixD1 : bool.

Definition get_new_length (s : dense) (lo hi : Z) : Z :=
  let d := grow (hi - lo + 1) in
  match lim s with Exact => d | Lowest n => Z.min d n | Highest n => Z.min d n end.

(* resetBins(from, to): for i := from-offset; i <= to-offset; i++ { bins[i] = 0 } *)
Definition reset_bins (s : dense) (from to : Z) : option dense :=
  let lo := from - offset s in let hi := to - offset s in
  if (lo <=? hi) && ((lo <? 0) || (len s <=? hi)) then None
  else Some (with_bins s (reset (bins s) lo hi)).

Definition shift_counts (s : dense) (shift : Z) : option dense :=
  let minArr := minI s - offset s in
  let maxArr := maxI s - offset s in
  if (minArr + shift <? 0) || (len s <? minArr + shift) || (minArr <? 0) || (maxArr + 1 <? minArr) || (len s <? maxArr + 1)
  then None
  else
    let n := Z.min (len s - (minArr + shift)) (maxArr + 1 - minArr) in
    let s1 := with_bins s (copy_within (bins s) (minArr + shift) minArr n) in
    match (if 0 <? shift then reset_bins s1 (minI s) (minI s + shift - 1)
           else reset_bins s1 (maxI s + shift + 1) (maxI s)) with
    | None => None
    | Some s2 => Some (with_offset s2 (offset s - shift))
    end.

Definition center_counts (s : dense) (lo hi : Z) : option dense :=
  let mid := lo + (hi - lo + 1) / 2 in
  match shift_counts s (offset s + len s / 2 - mid) with
  | None => None
  | Some s' => Some (with_range s' lo hi)
  end.

(* sum of bins[i - offset] for i in [from, to], each access checked *)
Definition sum_range (s : dense) (from to : Z) : option W :=
  if to <? from then Some w0
  else if in_bounds s (from - offset s) && in_bounds s (to - offset s)
       then Some (sumW (slice (bins s) (from - offset s) (to - from + 1)))
       else None.

Definition adjust_lowest (s : dense) (newMin newMax : Z) : option dense :=
  if len s <? newMax - newMin + 1 then
    let newMin := newMax - len s + 1 in
    let r :=
      if (maxI s <=? newMin) || (fixD1 && is_empty s) then
        if len s =? 0 then None
        else Some (with_range (with_offset (with_bins s (setw (zeros (len s)) 0 (count s))) newMin) newMin (maxI s))
      else
        let shift := offset s - newMin in
        if shift <? 0 then
          match sum_range s (minI s) (newMin - 1) with
          | None => None
          | Some n =>
            match reset_bins s (minI s) (newMin - 1) with
            | None => None
            | Some s1 =>
              if in_bounds s1 (newMin - offset s1) then
                shift_counts (with_range (with_bins s1 (upd (bins s1) (newMin - offset s1) n)) newMin (maxI s1)) shift
              else None
            end
          end
        else
          match shift_counts s shift with
          | None => None
          | Some s1 => Some (with_range s1 newMin (maxI s1))
          end in
    match r with
    | None => None
    | Some s2 => Some (with_collapsed (with_range s2 (minI s2) newMax) true)
    end
  else center_counts s newMin newMax.

Definition adjust_highest (s : dense) (newMin newMax : Z) : option dense :=
  if len s <? newMax - newMin + 1 then
    let newMax := newMin + len s - 1 in
    let r :=
      if (newMax <=? minI s) || (fixD1 && is_empty s) then
        if len s =? 0 then None
        else Some (with_range (with_offset (with_bins s (setw (zeros (len s)) (len s - 1) (count s))) newMin) (minI s) newMax)
      else
        let shift := offset s - newMin in
        if 0 <? shift then
          match sum_range s (newMax + 1) (maxI s) with
          | None => None
          | Some n =>
            match reset_bins s (newMax + 1) (maxI s) with
            | None => None
            | Some s1 =>
              if in_bounds s1 (newMax - offset s1) then
                shift_counts (with_range (with_bins s1 (upd (bins s1) (newMax - offset s1) n)) (minI s1) newMax) shift
              else None
            end
          end
        else
          match shift_counts s shift with
          | None => None
          | Some s1 => Some (with_range s1 (minI s1) newMax)
          end in
    match r with
    | None => None
    | Some s2 => Some (with_collapsed (with_range s2 newMin (maxI s2)) true)
    end
  else center_counts s newMin newMax.

Definition adjust (s : dense) (lo hi : Z) : option dense :=
  match lim s with
  | Exact => center_counts s lo hi
  | Lowest _ => adjust_lowest s lo hi
  | Highest _ => adjust_highest s lo hi
  end.

Definition extend_range (s : dense) (lo hi : Z) : option dense :=
  let lo := Z.min lo (minI s) in
  let hi := Z.max hi (maxI s) in
  if is_empty s then
    let n := get_new_length s lo hi in
    adjust (with_range (with_offset (with_bins s (bins s ++ zeros n)) lo) lo hi) lo hi
  else if (offset s <=? lo) && (hi <? offset s + len s) then
    Some (with_range s lo hi)
  else
    let n := get_new_length s lo hi in
    let s1 := if len s <? n then with_bins s (bins s ++ zeros (n - len s)) else s in
    adjust s1 lo hi.

(* normalize: the store and the array slot to update *)
Definition normalize (s : dense) (i : Z) : option (dense * Z) :=
  match lim s with
  | Exact =>
    if (i <? minI s) || (maxI s <? i) then
      match extend_range s i i with None => None | Some s' => Some (s', i - offset s') end
    else Some (s, i - offset s)
  | Lowest _ =>
    if i <? minI s then
      if collapsed s then Some (s, 0)
      else match extend_range s i i with
           | None => None
           | Some s' => if collapsed s' then Some (s', 0) else Some (s', i - offset s')
           end
    else if maxI s <? i then
      match extend_range s i i with None => None | Some s' => Some (s', i - offset s') end
    else Some (s, i - offset s)
  | Highest _ =>
    if maxI s <? i then
      if collapsed s then Some (s, len s - 1)
      else match extend_range s i i with
           | None => None
           | Some s' => if collapsed s' then Some (s', len s' - 1) else Some (s', i - offset s')
           end
    else if i <? minI s then
      match extend_range s i i with None => None | Some s' => Some (s', i - offset s') end
    else Some (s, i - offset s)
  end.

Definition add_with_count (s : dense) (i : Z) (c : W) : option dense :=
  if weqb c w0 then Some s else
  match normalize s i with
  | None => None
  | Some (s', j) =>
    if in_bounds s' j then Some (with_count (with_bins s' (upd (bins s') j c)) (wadd (count s') c))
    else None
  end.
Definition add (s : dense) (i : Z) : option dense := add_with_count s i w1.

(* the cells of the window [minI, maxI] with their indexes, each access checked *)
Definition window (s : dense) : option (list (Z * W)) :=
  if maxI s <? minI s then Some []
  else if in_bounds s (minI s - offset s) && in_bounds s (maxI s - offset s)
       then Some (combine (zrange (minI s) (maxI s)) (slice (bins s) (minI s - offset s) (maxI s - minI s + 1)))
       else None.
(* ForEach / Bins: ascending over [minI, maxI], strictly positive cells only *)
Definition foreach (s : dense) : option (list (Z * W)) :=
  option_map (filter (fun kw => wltb w0 (snd kw))) (window s).

Definition add_list (s : dense) (l : list (Z * W)) : option dense :=
  fold_left (fun acc kw => match acc with None => None | Some s' => add_with_count s' (fst kw) (snd kw) end) l (Some s).

(* same-type fast paths: for idx in [o.min, o.max]: s.bins[slot idx] += o.bins[idx - o.offset], where
   slot idx = idx - s.offset, except that a collapsing receiver sends the indexes beyond its window
   to its edge slot (0 / len-1) *)
Definition merge_same (s o : dense) : option dense :=
  match (if (minI o <? minI s) || (maxI s <? maxI o) then extend_range s (minI o) (maxI o) else Some s) with
  | None => None
  | Some s1 =>
    if maxI o <? minI o then Some (with_count s1 (wadd (count s1) (count o))) else
    if negb (in_bounds o (minI o - offset o) && in_bounds o (maxI o - offset o)) then None else
    let n := maxI o - minI o + 1 in
    let cells := slice (bins o) (minI o - offset o) n in
    let r :=
      match lim s1 with
      | Exact =>
        if in_bounds s1 (minI o - offset s1) && in_bounds s1 (maxI o - offset s1)
        then Some (add_slice (bins s1) (minI o - offset s1) cells) else None
      | Lowest _ =>
        let k := Z.max 0 (Z.min n (minI s1 - minI o)) in           (* indexes below the receiver's window *)
        let rest := skipn (Z.to_nat k) cells in
        let b1 := if 0 <? k then (if in_bounds s1 0 then Some (upd (bins s1) 0 (sumW (firstn (Z.to_nat k) cells))) else None)
                  else Some (bins s1) in
        match b1 with
        | None => None
        | Some b1 =>
          if k <? n then
            if in_bounds s1 (minI o + k - offset s1) && in_bounds s1 (maxI o - offset s1)
            then Some (add_slice b1 (minI o + k - offset s1) rest) else None
          else Some b1
        end
      | Highest _ =>
        let k := Z.max 0 (Z.min n (maxI o - maxI s1)) in           (* indexes above the receiver's window *)
        let keep := firstn (Z.to_nat (n - k)) cells in
        let b1 := if 0 <? k then (if in_bounds s1 (len s1 - 1) then Some (upd (bins s1) (len s1 - 1) (sumW (skipn (Z.to_nat (n - k)) cells))) else None)
                  else Some (bins s1) in
        match b1 with
        | None => None
        | Some b1 =>
          if k <? n then
            if in_bounds s1 (minI o - offset s1) && in_bounds s1 (maxI o - k - offset s1)
            then Some (add_slice b1 (minI o - offset s1) keep) else None
          else Some b1
        end
      end in
    match r with
    | None => None
    | Some b => Some (with_count (with_bins s1 b) (wadd (count s1) (count o)))
    end
  end.

Definition same_type (a b : limit) : bool :=
  match a, b with Exact, Exact => true | Lowest _, Lowest _ => true | Highest _, Highest _ => true | _, _ => false end.

(* MergeWith when the argument is of the dense family; [None] in the list position = argument panicked *)
Definition merge_dense (s o : dense) : option dense :=
  if is_empty o then Some s
  else if same_type (lim s) (lim o) then merge_same s o
  else match foreach o with None => None | Some l => add_list s l end.

Definition key_at_rank_d (s : dense) (rank : W) : Z :=
  let rank := if wltb rank w0 then w0 else rank in
  let fix go (l : list W) (i : Z) (n : W) : Z :=
    match l with
    | [] => maxI s
    | b :: tl => let n' := wadd n b in if wltb rank n' then i + offset s else go tl (i + 1) n'
    end in
  go (bins s) 0 w0.

Definition total_d (s : dense) : W := count s.
Definition min_index_d (s : dense) : option Z := if is_empty s then None else Some (minI s).
Definition max_index_d (s : dense) : option Z := if is_empty s then None else Some (maxI s).

Definition clear_d (s : dense) : dense :=
  {| bins := []; count := w0; offset := offset s; minI := MaxInt32; maxI := MinInt32; lim := lim s; collapsed := false |}.

(* Reweight: None = "can't reweight" error (state unchanged); Some None = panic *)
Definition reweight_d (s : dense) (w : W) : option (option dense) :=
  if wleb w w0 then None
  else if weqb w w1 then Some (Some s)
  else Some (
    if maxI s <? minI s then Some (with_count s (wmul (count s) w))
    else if in_bounds s (minI s - offset s) && in_bounds s (maxI s - offset s)
         then Some (with_count (with_bins s (map_range (fun x => wmul x w) (bins s) (minI s - offset s) (maxI s - offset s))) (wmul (count s) w))
         else None).

(* ToProto: contiguous window (with interior zeros) and its offset; Some None when empty; None = panic *)
Definition to_proto_d (s : dense) : option (option (Z * list W)) :=
  if is_empty s then Some None else
  match window s with
  | None => None
  | Some cells => Some (Some (minI s, map snd cells))
  end.
End Policy.

(* the policy the executable instance uses *)
Definition grow63 (d : Z) : Z := d + 63.
