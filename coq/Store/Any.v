(* The five store kinds behind one interface, with the executable policies plugged in; the Go
   `Store` interface dispatch and the type tests of the MergeWith fast paths. [None] = panic. *)
From Coq Require Import Sorting.Mergesort Orders.
From SK Require Export Spec.Bins Store.Dense Store.Sparse Store.Paginated.

Module ZOrder <: TotalLeBool.
  Definition t := Z.
  Definition leb := Z.leb.
  Theorem leb_total : forall a b, leb a b = true \/ leb b a = true.
  Proof. intros a b. unfold leb. destruct (Z.leb_spec a b); [left|right]; auto. apply Z.leb_le. lia. Qed.
End ZOrder.
Module ZSort := Sort ZOrder.

Inductive store := SD (d : dense) | SS (s : sparse) | SP (p : pag).
Inductive kind := KDense | KSparse | KPag | KLow (n : Z) | KHigh (n : Z).

(* executable policies: current growth formulas, compaction as early as allowed, sorted map order *)
Definition x_full (_ : pag) : bool := true.
Definition x_visit (l : list (Z * W)) : list (Z * W) := l.
Definition d_add := add_with_count grow63 true.
Definition pp_add := p_add_with_count pgrow8 worth32 x_full ZSort.sort.
Definition pp_foreach := p_foreach ZSort.sort.

Definition st_new (k : kind) : store :=
  match k with
  | KDense => SD (new_dense Exact) | KLow n => SD (new_dense (Lowest n)) | KHigh n => SD (new_dense (Highest n))
  | KSparse => SS new_sparse | KPag => SP new_pag
  end.
Definition st_limit (s : store) : limit := match s with SD d => lim d | _ => Exact end.

Definition st_addw (s : store) (i : Z) (c : W) : option store :=
  match s with
  | SD d => option_map SD (d_add d i c)
  | SS m => Some (SS (sp_add_with_count m i c))
  | SP p => Some (SP (pp_add p i c))
  end.
Definition st_add (s : store) (i : Z) : option store :=
  match s with
  | SD d => option_map SD (d_add d i w1)
  | SS m => Some (SS (sp_add m i))
  | SP p => Some (SP (p_add pgrow8 worth32 x_full ZSort.sort p i))
  end.
(* ForEach: the (possibly reorganised) store and the visited bins *)
Definition st_foreach (s : store) : option (store * list (Z * W)) :=
  match s with
  | SD d => option_map (fun l => (s, l)) (foreach d)
  | SS m => Some (s, sp_foreach x_visit m)
  | SP p => let '(p', l) := pp_foreach p in Some (SP p', l)
  end.
Definition st_is_empty (s : store) : bool :=
  match s with SD d => is_empty d | SS m => sp_is_empty m | SP p => p_is_empty p end.
Definition st_total (s : store) : W :=
  match s with SD d => total_d d | SS m => sp_total m | SP p => p_total p end.
Definition st_min (s : store) : option Z :=
  match s with SD d => min_index_d d | SS m => sp_min m | SP p => p_min ZSort.sort p end.
Definition st_max (s : store) : option Z :=
  match s with SD d => max_index_d d | SS m => sp_max m | SP p => p_max ZSort.sort p end.
Definition st_key_at_rank (s : store) (r : W) : store * Z :=
  match s with
  | SD d => (s, key_at_rank_d d r)
  | SS m => (s, sp_key_at_rank m r)
  | SP p => let '(p', k) := p_key_at_rank ZSort.sort p r in (SP p', k)
  end.
Definition st_add_list (s : store) (l : list (Z * W)) : option store :=
  fold_left (fun acc kw => match acc with None => None | Some s' => st_addw s' (fst kw) (snd kw) end) l (Some s).

(* s.MergeWith(o): both stores are returned (the argument may have been reorganised by ForEach) *)
Definition st_merge (s o : store) : option (store * store) :=
  match s, o with
  | SD d, SD d2 => option_map (fun d' => (SD d', o)) (merge_dense grow63 true d d2)
  | SD d, _ =>
    if st_is_empty o then Some (s, o) else
    match st_foreach o with
    | None => None
    | Some (o', l) => option_map (fun s' => (s', o')) (st_add_list s l)
    end
  | SP p, SP p2 => Some (SP (p_merge_same pgrow8 worth32 x_full ZSort.sort p p2), o)
  | _, _ =>
    match st_foreach o with
    | None => None
    | Some (o', l) => option_map (fun s' => (s', o')) (st_add_list s l)
    end
  end.
Definition st_clear (s : store) : store :=
  match s with SD d => SD (clear_d d) | SS m => SS (sp_clear m) | SP p => SP (p_clear p) end.
Definition st_copy (s : store) : store := s.
Inductive rw_result := RwOk (s : store) | RwRefused | RwPanic.
Definition st_reweight (s : store) (w : W) : rw_result :=
  match s with
  | SD d => match reweight_d d w with None => RwRefused | Some None => RwPanic | Some (Some d') => RwOk (SD d') end
  | SS m => match sp_reweight m w with None => RwRefused | Some m' => RwOk (SS m') end
  | SP p => match p_reweight pgrow8 worth32 x_full ZSort.sort p w with None => RwRefused | Some p' => RwOk (SP p') end
  end.

(* abstraction to Layer A: the content, as the canonical list *)
Definition st_abs (s : store) : bins :=
  match st_foreach s with Some (_, l) => bins_of_list l | None => [] end.
