(* buffered_paginated.go: MinIndex, MaxIndex and minIndexWithCumulCount / KeyAtRank transcribed loop by loop.
   Store/Paginated.v defines the same observers through the merged ascending scan (p_foreach); the equivalence
   of the two formulations under the store invariant is proved in PaginatedLoopsProofs.v, and both are run
   against the implementation. Definitions only. *)
From SK Require Export Store.Paginated.

(* first loop of MinIndex / MaxIndex: extreme of the buffer, None when the buffer is empty *)
Definition buf_min (b : list Z) : option Z :=
  fold_left (fun acc i => match acc with None => Some i | Some m => if i <? m then Some i else acc end) b None.
Definition buf_max (b : list Z) : option Z :=
  fold_left (fun acc i => match acc with None => Some i | Some m => if m <? i then Some i else acc end) b None.

(* for lineIndex := from; lineIndex < limit; lineIndex++ { if page[lineIndex] > 0 { return lineIndex } } *)
Fixpoint first_pos (pg : list W) (k limit : Z) : option Z :=
  match pg with
  | [] => None
  | c :: tl => if limit <=? k then None else if wltb w0 c then Some k else first_pos tl (k + 1) limit
  end.
(* for lineIndex := len(page)-1; lineIndex >= start; lineIndex-- { if page[lineIndex] > 0 { return lineIndex } } *)
Definition last_pos (pg : list W) (start : Z) : option Z :=
  fold_left (fun acc kc => if (start <=? fst kc) && wltb w0 (snd kc) then Some (fst kc) else acc)
            (combine (map Z.of_nat (seq 0 (length pg))) pg) None.

Fixpoint min_pages (bm : option Z) (pgs : list (list W)) (pageIndex : Z) : option Z :=
  match pgs with
  | [] => None
  | pg :: tl =>
    if (match bm with None => true | Some m => pageIndex <=? page_index m end) then
      match pg with
      | [] => min_pages bm tl (pageIndex + 1)
      | _ => let limit := match bm with
                          | Some m => if pageIndex =? page_index m then line_index m else pageLen
                          | None => pageLen end in
             match first_pos pg 0 limit with
             | Some l => Some (index_of pageIndex l)
             | None => min_pages bm tl (pageIndex + 1)
             end
      end
    else None
  end.
Definition p_min_go (s : pag) : option Z :=
  let bm := buf_min (buffer s) in
  let from_pages := if minPage s <? wrap_i64 (minPage s + zlen (pages s)) then min_pages bm (pages s) (minPage s) else None in
  match from_pages with Some i => Some i | None => bm end.

(* pages visited from the last one down; [pageIndex] is the index of the head of the REVERSED list *)
Fixpoint max_pages (bm : option Z) (rpgs : list (list W)) (pageIndex : Z) : option Z :=
  match rpgs with
  | [] => None
  | pg :: tl =>
    if (match bm with None => true | Some m => page_index m <=? pageIndex end) then
      match pg with
      | [] => max_pages bm tl (pageIndex - 1)
      | _ => let start := match bm with
                          | Some m => if pageIndex =? page_index m then line_index m else 0
                          | None => 0 end in
             match last_pos pg start with
             | Some l => Some (index_of pageIndex l)
             | None => max_pages bm tl (pageIndex - 1)
             end
      end
    else None
  end.
Definition p_max_go (s : pag) : option Z :=
  let bm := buf_max (buffer s) in
  let last := wrap_i64 (minPage s + zlen (pages s) - 1) in
  let from_pages := if minPage s <=? last then max_pages bm (rev (pages s)) last else None in
  match from_pages with Some i => Some i | None => bm end.

Section Sort.
Variable sort : list Z -> list Z.
(* inner loop of minIndexWithCumulCount: buffer entries strictly below [index], one at a time *)
Fixpoint drain_rank (rank : W) (index : Z) (buf : list Z) (cumul : W) : option Z * list Z * W :=
  match buf with
  | x :: tl => if x <? index then
                 let cumul' := wadd cumul w1 in
                 if wltb rank cumul' then (Some x, tl, cumul') else drain_rank rank index tl cumul'
               else (None, buf, cumul)
  | [] => (None, [], cumul)
  end.
Fixpoint rank_cells (rank : W) (cells : list (Z * W)) (buf : list Z) (cumul : W) : option Z * list Z * W :=
  match cells with
  | [] => (None, buf, cumul)
  | (index, count) :: tl =>
    match drain_rank rank index buf cumul with
    | (Some k, b, c) => (Some k, b, c)
    | (None, b, c) => let c' := wadd c count in
                      if wltb rank c' then (Some index, b, c') else rank_cells rank tl b c'
    end
  end.
Fixpoint rank_rest (rank : W) (buf : list Z) (cumul : W) : option Z :=
  match buf with
  | [] => None
  | x :: tl => let cumul' := wadd cumul w1 in if wltb rank cumul' then Some x else rank_rest rank tl cumul'
  end.
(* KeyAtRank: negative ranks clamp to 0; on "never verified" fall back to MaxIndex, or 0 when empty *)
Definition p_key_at_rank_go (s : pag) (rank : W) : pag * Z :=
  let rank := if wltb rank w0 then w0 else rank in
  let sorted := sort (buffer s) in
  let s' := with_buffer s sorted in
  match rank_cells rank (page_cells s') sorted w0 with
  | (Some k, _, _) => (s', k)
  | (None, b, c) =>
    match rank_rest rank b c with
    | Some k => (s', k)
    | None => (s', match p_max_go s' with Some k => k | None => 0 end)
    end
  end.
End Sort.
