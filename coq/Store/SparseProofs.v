(* The sparse store model is the Layer A finite map itself; what remains to be shown is that its
   operations are the Layer A ones and that the arbitrary iteration order of Go's map cannot matter. *)
From Coq Require Import Permutation.
From SK Require Import Spec.Bins Spec.BinsProofs Store.Sparse.

Lemma sp_add_with_count_badd0 s i c : sp_add_with_count s i c = badd0 s i c.
Proof. reflexivity. Qed.
Lemma sp_add_badd s i : sp_add s i = badd0 s i w1.
Proof. unfold sp_add, badd0. destruct (weqb w1 w0) eqn:E; [|reflexivity]. apply weqb_eq in E. discriminate E. Qed.
Lemma sp_merge_list_bmerge_list s l : sp_merge_list s l = bmerge_list s l.
Proof. reflexivity. Qed.
(* merging FROM a sparse store: whatever order ForEach visits the bins in, the receiver ends with the same content *)
Lemma sp_visit_order_irrelevant (visit : list (Z * W) -> list (Z * W)) (r s : bins) :
  (forall l, Permutation l (visit l)) -> wf r = true -> pos r -> nonneg s ->
  bmerge_list r (sp_foreach visit s) = bmerge_list r s.
Proof. intros Hv Hr Hpr Hs. unfold sp_foreach. symmetry. apply bmerge_list_perm; auto. Qed.
Lemma sp_observers s : sp_total s = total s /\ sp_is_empty s = is_emptyb s /\ sp_min s = min_key s /\ sp_max s = max_key s.
Proof. repeat split. Qed.
Lemma sp_clear_empty s : sp_clear s = [].
Proof. reflexivity. Qed.
Lemma sp_reweight_spec s w : wltb w0 w = true -> weqb w w1 = false -> sp_reweight s w = Some (bscale w s).
Proof.
  intros Hw H1. unfold sp_reweight. rewrite H1.
  destruct (wleb w w0) eqn:E; [|reflexivity].
  apply wleb_le in E. apply wltb_lt in Hw. exfalso. eapply Qclt_not_le; eauto.
Qed.
