(* Layer B: ddsketch/store/buffered_paginated.go.
   buffer = unit-weight indexes; pages = list of pages, a page is [] (nil or cleared, len 0) or
   32 counts; minPage has the maxInt sentinel, with 64-bit wrap-around only in the range test.
   Layout policies are Section parameters quantified in the theorems: [pgrow] (newPagesLen),
   [worth] (is a new page worth creating for n buffered entries), [full] (len(buffer)==cap(buffer),
   i.e. Go's append growth). sort.Ints is [sort] (specified by Sorted /\ Permutation in the proofs).
   Reads that reorganise the store (sortBuffer, compact) return the new store. Definitions only. *)
From SK Require Export Spec.Bins.

Definition pageLenLog2 : Z := 5.
Definition pageLen : Z := 32.
Definition page_index (i : Z) : Z := Z.shiftr i pageLenLog2.      (* arithmetic shift = floor division *)
Definition line_index (i : Z) : Z := Z.land i (pageLen - 1).
Definition index_of (p l : Z) : Z := Z.shiftl p pageLenLog2 + l.

Record pag := { buffer : list Z; trigger : Z; pages : list (list W); minPage : Z }.
Definition new_pag : pag := {| buffer := []; trigger := 2 * pageLen; pages := []; minPage := MaxInt64 |}.

Definition with_buffer (s : pag) (b : list Z) : pag :=
  {| buffer := b; trigger := trigger s; pages := pages s; minPage := minPage s |}.
Definition with_pages (s : pag) (p : list (list W)) (m : Z) : pag :=
  {| buffer := buffer s; trigger := trigger s; pages := p; minPage := m |}.
Definition nth_page (s : pag) (off : Z) : list W := if off <? 0 then [] else nth (Z.to_nat off) (pages s) [].
Definition set_nth {A} (l : list A) (n : nat) (x : A) : list A := firstn n l ++ x :: skipn (S n) l.
Definition upd_line (p : list W) (l : Z) (c : W) : list W :=
  set_nth p (Z.to_nat l) (wadd (nth (Z.to_nat l) p w0) c).

Section Policy.
Variable pgrow : Z -> Z.
Variable worth : Z -> bool.
Variable full : pag -> bool.
Variable sort : list Z -> list Z.

Definition in_range (s : pag) (p : Z) : bool :=
  (minPage s <=? p) && (p <? wrap_i64 (minPage s + zlen (pages s))).

(* page(pageIndex, true): the store with the page allocated, and the page's offset in [pages] *)
Definition ensure_page (s : pag) (p : Z) : pag * Z :=
  let s1 :=
    if in_range s p then s
    else if p <? minPage s then
      if minPage s =? MaxInt64 then
        let pgs := if zlen (pages s) =? 0 then repeat [] (Z.to_nat (pgrow 1)) else pages s in
        with_pages s pgs (p - zlen pgs / 2)
      else
        let newLen := pgrow (minPage s - p + 1 + zlen (pages s)) in
        let added := newLen - zlen (pages s) in
        with_pages s (repeat [] (Z.to_nat added) ++ pages s) (minPage s - added)
    else
      with_pages s (pages s ++ repeat [] (Z.to_nat (pgrow (p - minPage s + 1) - zlen (pages s)))) (minPage s) in
  let off := p - minPage s1 in
  let s2 := if zlen (nth_page s1 off) =? 0
            then with_pages s1 (set_nth (pages s1) (Z.to_nat off) (zeros pageLen)) (minPage s1)
            else s1 in
  (s2, off).

(* page(pageIndex, false) restricted to "exists and is allocated" *)
Definition existing_page (s : pag) (p : Z) : option Z :=
  if in_range s p then
    let off := p - minPage s in if zlen (nth_page s off) =? 0 then None else Some off
  else None.

Definition add_to_page (s : pag) (off : Z) (i : Z) (c : W) : pag :=
  with_pages s (set_nth (pages s) (Z.to_nat off) (upd_line (nth_page s off) (line_index i) c)) (minPage s).

Fixpoint span_page (p : Z) (l : list Z) : list Z * list Z :=
  match l with
  | [] => ([], [])
  | x :: tl => if page_index x =? p then let (a, b) := span_page p tl in (x :: a, b) else ([], l)
  end.
Fixpoint compact_loop (fuel : nat) (s : pag) (todo kept : list Z) : pag * list Z :=
  match fuel, todo with
  | O, _ => (s, rev kept ++ todo)
  | _, [] => (s, rev kept)
  | S f, x :: _ =>
    let p := page_index x in
    let (grp, rest) := span_page p todo in
    let target := match existing_page s p with
                  | Some off => Some (s, off)
                  | None => if worth (zlen grp) then Some (ensure_page s p) else None
                  end in
    match target with
    | Some (s', off) => compact_loop f (fold_left (fun acc i => add_to_page acc off i w1) grp s') rest kept
    | None => compact_loop f s rest (rev grp ++ kept)
    end
  end.
Definition compact (s : pag) : pag :=
  let sorted := sort (buffer s) in
  let '(s', buf) := compact_loop (S (length sorted)) s sorted [] in
  {| buffer := buf; trigger := zlen buf + pageLen; pages := pages s'; minPage := minPage s' |}.

Definition p_add (s : pag) (i : Z) : pag :=
  match existing_page s (page_index i) with
  | Some off => add_to_page s off i w1
  | None =>
    let s1 := if full s && (trigger s <=? zlen (buffer s)) then compact s else s in
    with_buffer s1 (buffer s1 ++ [i])
  end.
Definition p_add_with_count (s : pag) (i : Z) (c : W) : pag :=
  if weqb c w0 then s else if weqb c w1 then p_add s i
  else let (s1, off) := ensure_page s (page_index i) in add_to_page s1 off i c.

(* cells of the allocated pages, ascending: (index, count), zero cells included *)
Definition page_cells (s : pag) : list (Z * W) :=
  concat (map (fun op => map (fun lc => (index_of (minPage s + Z.of_nat (fst op)) (Z.of_nat (fst lc)), snd lc))
                             (combine (seq 0 (length (snd op))) (snd op)))
              (combine (seq 0 (length (pages s))) (pages s))).

Definition p_total (s : pag) : W :=
  fold_left (fun a p => fold_left wadd p a) (pages s) (w_of_nat (length (buffer s))).
Definition p_is_empty (s : pag) : bool :=
  match buffer s with
  | _ :: _ => false
  | [] => forallb (fun p => forallb (fun c => negb (wltb w0 c)) p) (pages s)
  end.

(* merged ascending iteration of the sorted buffer and the pages (ForEach / Bins) *)
Fixpoint take_eq (x : Z) (l : list Z) : Z * list Z :=
  match l with y :: tl => if y =? x then let (n, r) := take_eq x tl in (n + 1, r) else (0, l) | [] => (0, []) end.
Fixpoint drain_below (fuel : nat) (lim : Z) (buf : list Z) (acc : list (Z * W)) : list (Z * W) * list Z :=
  match fuel, buf with
  | S f, x :: _ => if x <? lim then let (n, r) := take_eq x buf in drain_below f lim r ((x, w_of_Z n) :: acc) else (acc, buf)
  | _, _ => (acc, buf)
  end.
Definition p_foreach (s : pag) : pag * list (Z * W) :=
  let sorted := sort (buffer s) in
  let fuel := S (length sorted) in
  let '(acc, buf) :=
    fold_left (fun ab ic =>
                 let '(acc, buf) := ab in let '(i, c) := ic in
                 if weqb c w0 then (acc, buf) else
                 let '(acc1, buf1) := drain_below fuel i buf acc in
                 let '(n, buf2) := take_eq i buf1 in
                 ((i, wadd c (w_of_Z n)) :: acc1, buf2))
              (page_cells s) ([], sorted) in
  let '(acc2, _) := drain_below fuel (MaxInt64 + 1) buf acc in
  (with_buffer s sorted, rev acc2).

Definition p_min (s : pag) : option Z := match snd (p_foreach s) with [] => None | (k, _) :: _ => Some k end.
Definition p_max (s : pag) : option Z := max_key (snd (p_foreach s)).
Definition p_key_at_rank (s : pag) (rank : W) : pag * Z :=
  let rank := if wltb rank w0 then w0 else rank in
  let '(s', l) := p_foreach s in
  let fix go (l : bins) (n : W) : option Z :=
    match l with
    | [] => None
    | (k, w) :: tl => let n' := wadd n w in if wltb rank n' then Some k else go tl n'
    end in
  (s', match go l w0 with
       | Some k => k
       | None => match max_key l with Some k => k | None => 0 end
       end).

Definition p_merge_list (s : pag) (l : list (Z * W)) : pag :=
  fold_left (fun acc kw => p_add_with_count acc (fst kw) (snd kw)) l s.
(* same-type fast path: pages added cell-wise, then the argument's buffer replayed through Add *)
Definition p_merge_same (s o : pag) : pag :=
  let s1 := fold_left (fun acc op =>
                         let '(off, pg) := op in
                         if zlen pg =? 0 then acc else
                         let '(a1, soff) := ensure_page acc (minPage o + Z.of_nat off) in
                         with_pages a1 (set_nth (pages a1) (Z.to_nat soff)
                                         (map (fun ab => wadd (fst ab) (snd ab)) (combine (nth_page a1 soff) pg))) (minPage a1))
                      (combine (seq 0 (length (pages o))) (pages o)) s in
  fold_left p_add (buffer o) s1.

Definition p_clear (s : pag) : pag :=
  {| buffer := []; trigger := trigger s; pages := map (fun _ => []) (pages s); minPage := MaxInt64 |}.
Definition p_reweight (s : pag) (w : W) : option pag :=
  if wleb w w0 then None else if weqb w w1 then Some s else
  let s1 := {| buffer := []; trigger := trigger s; pages := map (map (fun c => wmul c w)) (pages s); minPage := minPage s |} in
  Some (fold_left (fun acc i => p_add_with_count acc i w) (buffer s) s1).

(* specialised decoders: index deltas go straight to the buffer (compaction timing is layout);
   contiguous counts go straight to pages, creating them even for zero counts *)
Definition p_dec_indexes (s : pag) (l : list Z) : pag :=
  let s1 := with_buffer s (buffer s ++ l) in if full s1 && (trigger s1 <=? zlen (buffer s1)) then compact s1 else s1.
Definition p_dec_contiguous (s : pag) (l : list (Z * W)) : pag :=
  fold_left (fun acc kw => let '(a1, off) := ensure_page acc (page_index (fst kw)) in add_to_page a1 off (fst kw) (snd kw)) l s.
End Policy.

Definition pgrow8 (r : Z) : Z := (r + 7) / 8 * 8.
Definition worth32 (n : Z) : bool := 32 <=? n.
