(* Layer B proofs: ddsketch/store/buffered_paginated.go, model Store/Paginated.v.
   Everything goes through the content function
       pget s i = multiplicity of i in the buffer + cell s i
   (cell = count stored for i in its page, 0 when the page is out of range / nil / cleared);
   a buffered index may lie in an allocated page, there is no disjointness.
     PInv s   representation invariant: pages of length 0 or 32, cells >= 0, int32 indexes in the
              buffer, allocated pages have int32-range page numbers, all pages empty in the
              "unused" sentinel state minPage = MaxInt64, and bounds on minPage and len(pages)
              which make the 64-bit wrap-around of the range test inert outside the sentinel state
     pabs s   Layer A content (canonical association list) of the store
   Policies are universally quantified: [pgrow] with r <= pgrow r <= r + 2^20, ARBITRARY [worth]
   and [full], [sort] any function returning a sorted permutation.
   Stdlib only, axiom-free. *)
From SK Require Import Store.Paginated Spec.BinsProofs.
From Coq Require Import Lqa Permutation Sorting.Sorted.
Local Open Scope Z_scope.

(* ================================================================== *)
(** * 1. Weights of integers, multiplicities, bit facts, list access *)
(* ================================================================== *)

Local Ltac Zify.zify_post_hook ::= Z.div_mod_to_equations.

(* ---- weights of integers ---- *)
Lemma w_of_Z_add a b : w_of_Z (a + b) = wadd (w_of_Z a) (w_of_Z b).
Proof.
  unfold w_of_Z, wadd. apply Qc_is_canon. rewrite this_plus.
  change (this (Q2Qc (inject_Z (a + b)))) with (Qred (inject_Z (a + b))).
  change (this (Q2Qc (inject_Z a))) with (Qred (inject_Z a)).
  change (this (Q2Qc (inject_Z b))) with (Qred (inject_Z b)).
  rewrite !Qred_correct. rewrite inject_Z_plus. reflexivity.
Qed.
Lemma w_of_Z_0 : w_of_Z 0 = w0.
Proof. reflexivity. Qed.
Lemma w_of_Z_1 : w_of_Z 1 = w1.
Proof. reflexivity. Qed.
Lemma w_of_Z_nonneg a : 0 <= a -> (w0 <= w_of_Z a)%Qc.
Proof.
  intros H. unfold w_of_Z, w0, Qcle.
  change (this (Q2Qc (inject_Z a))) with (Qred (inject_Z a)). change (this (Q2Qc 0)) with (Qred 0).
  rewrite !Qred_correct. change 0%Q with (inject_Z 0). rewrite <- Zle_Qle. exact H.
Qed.
Lemma w_of_Z_pos a : 0 < a -> (w0 < w_of_Z a)%Qc.
Proof.
  intros H. unfold w_of_Z, w0, Qclt.
  change (this (Q2Qc (inject_Z a))) with (Qred (inject_Z a)). change (this (Q2Qc 0)) with (Qred 0).
  rewrite !Qred_correct. change 0%Q with (inject_Z 0). rewrite <- Zlt_Qlt. exact H.
Qed.
Lemma w_of_nat_0 : w_of_nat 0 = w0.
Proof. reflexivity. Qed.
Lemma w_of_nat_S n : w_of_nat (S n) = wadd (w_of_nat n) w1.
Proof. unfold w_of_nat. rewrite Nat2Z.inj_succ, <- Z.add_1_r, w_of_Z_add. reflexivity. Qed.
Lemma w_of_nat_add n m : w_of_nat (n + m) = wadd (w_of_nat n) (w_of_nat m).
Proof. unfold w_of_nat. rewrite Nat2Z.inj_add, w_of_Z_add. reflexivity. Qed.
Lemma w_of_nat_nonneg n : (w0 <= w_of_nat n)%Qc.
Proof. apply w_of_Z_nonneg. lia. Qed.
Lemma w1_pos : (w0 < w1)%Qc.
Proof. wlra. Qed.

(* ---- multiplicity of an index in the buffer, as a weight ---- *)
Definition cnt (b : list Z) (i : Z) : W := w_of_nat (count_occ Z.eq_dec b i).
Lemma cnt_nil i : cnt [] i = w0.
Proof. reflexivity. Qed.
Lemma cnt_cons x b i : cnt (x :: b) i = wadd (cnt b i) (if i =? x then w1 else w0).
Proof.
  unfold cnt. cbn [count_occ]. destruct (Z.eq_dec x i) as [E|E]; destruct (Z.eqb_spec i x) as [E'|E']; try lia.
  - apply w_of_nat_S.
  - rewrite wadd_0_r. reflexivity.
Qed.
Lemma cnt_app a b i : cnt (a ++ b) i = wadd (cnt a i) (cnt b i).
Proof. unfold cnt. rewrite count_occ_app. apply w_of_nat_add. Qed.
Lemma cnt_rev a i : cnt (rev a) i = cnt a i.
Proof. unfold cnt. rewrite count_occ_rev. reflexivity. Qed.
Lemma cnt_perm a b i : Permutation a b -> cnt a i = cnt b i.
Proof. intros H. unfold cnt. f_equal. revert i. apply (Permutation_count_occ Z.eq_dec). exact H. Qed.
Lemma cnt_nonneg b i : (w0 <= cnt b i)%Qc.
Proof. apply w_of_nat_nonneg. Qed.
Lemma cnt_notin b i : ~ In i b -> cnt b i = w0.
Proof. intros H. unfold cnt. apply (count_occ_not_In Z.eq_dec) in H. rewrite H. reflexivity. Qed.
Lemma cnt_in_pos b i : In i b -> (w0 < cnt b i)%Qc.
Proof. intros H. unfold cnt. apply (count_occ_In Z.eq_dec) in H. apply w_of_Z_pos. lia. Qed.

(* ---- bit facts: index <-> (page, line), for every integer ---- *)
Lemma page_index_div i : page_index i = i / 32.
Proof. unfold page_index, pageLenLog2. rewrite Z.shiftr_div_pow2 by lia. reflexivity. Qed.
Lemma line_index_mod i : line_index i = i mod 32.
Proof. unfold line_index, pageLen. change (32 - 1) with (Z.ones 5). rewrite Z.land_ones by lia. reflexivity. Qed.
Lemma index_of_mul p l : index_of p l = p * 32 + l.
Proof. unfold index_of, pageLenLog2. rewrite Z.shiftl_mul_pow2 by lia. reflexivity. Qed.
Lemma line_index_range i : 0 <= line_index i < 32.
Proof. rewrite line_index_mod. lia. Qed.
Lemma index_of_page_line i : index_of (page_index i) (line_index i) = i.
Proof. rewrite index_of_mul, page_index_div, line_index_mod. lia. Qed.
Lemma page_index_index_of p l : 0 <= l < 32 -> page_index (index_of p l) = p.
Proof. intros H. rewrite index_of_mul, page_index_div. lia. Qed.
Lemma line_index_index_of p l : 0 <= l < 32 -> line_index (index_of p l) = l.
Proof. intros H. rewrite index_of_mul, line_index_mod. lia. Qed.
Lemma index_eq_iff i j : i = j <-> page_index i = page_index j /\ line_index i = line_index j.
Proof.
  split; [intros ->; split; reflexivity|]. intros [H1 H2].
  rewrite <- (index_of_page_line i), <- (index_of_page_line j), H1, H2. reflexivity.
Qed.
Definition PB : Z := 67108864.
Definition page_ok (p : Z) : Prop := - PB <= p < PB.
Lemma page_index_ok i : idx_ok i -> page_ok (page_index i).
Proof. unfold idx_ok, page_ok, PB, MinInt32, MaxInt32. rewrite page_index_div. lia. Qed.

(* ---- lists: set_nth, at_, Z-indexed page access ---- *)
Lemma set_nth_length {A} (l : list A) n x : (n < length l)%nat -> length (set_nth l n x) = length l.
Proof.
  intros H. unfold set_nth. rewrite app_length, firstn_length. cbn [length]. rewrite skipn_length. lia.
Qed.
Lemma set_nth_cons_S {A} (a : A) l n x : set_nth (a :: l) (S n) x = a :: set_nth l n x.
Proof. reflexivity. Qed.
Lemma set_nth_cons_0 {A} (a : A) l x : set_nth (a :: l) 0 x = x :: l.
Proof. reflexivity. Qed.
Lemma nth_set_nth {A} (l : list A) n x k d :
  (n < length l)%nat -> nth k (set_nth l n x) d = if Nat.eqb k n then x else nth k l d.
Proof.
  revert n k. induction l as [|a l IH]; intros n k H; [cbn [length] in H; lia|].
  destruct n as [|n].
  - rewrite set_nth_cons_0. destruct k as [|k]; reflexivity.
  - rewrite set_nth_cons_S. destruct k as [|k]; [reflexivity|].
    cbn [nth Nat.eqb]. apply IH. cbn [length] in H. lia.
Qed.
Lemma zlen_set_nth {A} (l : list A) n x : (n < length l)%nat -> zlen (set_nth l n x) = zlen l.
Proof. intros H. unfold zlen. rewrite set_nth_length by exact H. reflexivity. Qed.
Lemma zlen_nonneg {A} (l : list A) : 0 <= zlen l.
Proof. unfold zlen. lia. Qed.
Lemma zlen_app {A} (a b : list A) : zlen (a ++ b) = zlen a + zlen b.
Proof. unfold zlen. rewrite app_length. lia. Qed.
Lemma zlen_repeat {A} (x : A) n : zlen (repeat x n) = Z.of_nat n.
Proof. unfold zlen. rewrite repeat_length. reflexivity. Qed.
Lemma zlen_map {A B} (f : A -> B) l : zlen (map f l) = zlen l.
Proof. unfold zlen. rewrite map_length. reflexivity. Qed.
Lemma zlen_nil_iff {A} (l : list A) : zlen l = 0 <-> l = [].
Proof. unfold zlen. destruct l; cbn [length]; split; intros H; try reflexivity; try discriminate; lia. Qed.
Lemma zlen_zeros n : zlen (zeros n) = Z.max 0 n.
Proof. unfold zeros. rewrite zlen_repeat. lia. Qed.

Lemma at_nil j : at_ [] j = w0.
Proof. unfold at_. destruct (j <? 0); [reflexivity|]. destruct (Z.to_nat j); reflexivity. Qed.
Lemma at_zeros n j : at_ (zeros n) j = w0.
Proof.
  unfold at_, zeros. destruct (j <? 0); [reflexivity|].
  destruct (Nat.lt_ge_cases (Z.to_nat j) (Z.to_nat n)) as [H|H].
  - apply nth_repeat.
  - apply nth_overflow. rewrite repeat_length. exact H.
Qed.
Lemma at_in l j : 0 <= j < zlen l -> In (at_ l j) l.
Proof.
  unfold zlen. intros H. unfold at_. destruct (Z.ltb_spec j 0); [lia|]. apply nth_In. lia.
Qed.
Lemma in_at l x : In x l -> exists j, 0 <= j < zlen l /\ at_ l j = x.
Proof.
  intros H. destruct (In_nth l x w0 H) as [n [Hn Hx]]. exists (Z.of_nat n). unfold zlen. split; [lia|].
  unfold at_. destruct (Z.ltb_spec (Z.of_nat n) 0); [lia|]. rewrite Nat2Z.id. exact Hx.
Qed.
Lemma at_set_nth l n x j :
  0 <= n < zlen l -> at_ (set_nth l (Z.to_nat n) x) j = if j =? n then x else at_ l j.
Proof.
  unfold zlen. intros H. unfold at_. destruct (Z.ltb_spec j 0) as [Hj|Hj].
  - destruct (Z.eqb_spec j n); [lia|reflexivity].
  - rewrite nth_set_nth by lia. destruct (Nat.eqb_spec (Z.to_nat j) (Z.to_nat n)) as [E|E];
      destruct (Z.eqb_spec j n) as [E'|E']; try reflexivity; lia.
Qed.
Lemma at_upd_line p l c j :
  0 <= l < zlen p -> at_ (upd_line p l c) j = if j =? l then wadd (at_ p l) c else at_ p j.
Proof.
  intros H. unfold upd_line. rewrite at_set_nth by exact H.
  destruct (Z.eqb_spec j l) as [E|E]; [|reflexivity].
  unfold at_. destruct (Z.ltb_spec l 0); [lia|reflexivity].
Qed.
Lemma zlen_upd_line p l c : 0 <= l < zlen p -> zlen (upd_line p l c) = zlen p.
Proof. unfold zlen. intros H. unfold upd_line. apply zlen_set_nth. lia. Qed.
Lemma at_map f l j : f w0 = w0 -> at_ (map f l) j = f (at_ l j).
Proof.
  intros Hf. unfold at_. destruct (j <? 0); [symmetry; exact Hf|].
  rewrite <- Hf at 1. apply map_nth.
Qed.

Definition pgat (ps : list (list W)) (k : Z) : list W := if k <? 0 then [] else nth (Z.to_nat k) ps [].
Lemma nth_page_pgat s k : nth_page s k = pgat (pages s) k.
Proof. reflexivity. Qed.
Lemma pgat_out ps k : k < 0 \/ zlen ps <= k -> pgat ps k = [].
Proof.
  unfold zlen. intros H. unfold pgat. destruct (Z.ltb_spec k 0); [reflexivity|]. apply nth_overflow. lia.
Qed.
Lemma pgat_nil k : pgat [] k = [].
Proof. unfold pgat. destruct (k <? 0); [reflexivity|]. destruct (Z.to_nat k); reflexivity. Qed.
Lemma pgat_cons pg ps k : pgat (pg :: ps) k = if k =? 0 then pg else pgat ps (k - 1).
Proof.
  unfold pgat. destruct (Z.ltb_spec k 0) as [H|H].
  - destruct (Z.eqb_spec k 0); [lia|]. destruct (Z.ltb_spec (k - 1) 0); [reflexivity|lia].
  - destruct (Z.eqb_spec k 0) as [E|E]; [subst k; reflexivity|].
    destruct (Z.ltb_spec (k - 1) 0); [lia|].
    replace (Z.to_nat k) with (S (Z.to_nat (k - 1))) by lia. reflexivity.
Qed.
Lemma pgat_app a b k : pgat (a ++ b) k = if k <? zlen a then pgat a k else pgat b (k - zlen a).
Proof.
  unfold zlen, pgat. destruct (Z.ltb_spec k 0) as [H|H].
  - destruct (Z.ltb_spec k (Z.of_nat (length a))); [reflexivity|lia].
  - destruct (Z.ltb_spec k (Z.of_nat (length a))) as [H1|H1].
    + apply app_nth1. lia.
    + destruct (Z.ltb_spec (k - Z.of_nat (length a)) 0); [lia|].
      rewrite app_nth2 by lia. f_equal. lia.
Qed.
Lemma pgat_repeat_nil n k : pgat (repeat [] n) k = [].
Proof.
  unfold pgat. destruct (k <? 0); [reflexivity|].
  destruct (Nat.lt_ge_cases (Z.to_nat k) n) as [H|H].
  - apply nth_repeat.
  - apply nth_overflow. rewrite repeat_length. exact H.
Qed.
Lemma pgat_set_nth ps off x k :
  0 <= off < zlen ps -> pgat (set_nth ps (Z.to_nat off) x) k = if k =? off then x else pgat ps k.
Proof.
  unfold zlen. intros H. unfold pgat. destruct (Z.ltb_spec k 0) as [Hk|Hk].
  - destruct (Z.eqb_spec k off); [lia|reflexivity].
  - rewrite nth_set_nth by lia. destruct (Nat.eqb_spec (Z.to_nat k) (Z.to_nat off)) as [E|E];
      destruct (Z.eqb_spec k off) as [E'|E']; try reflexivity; lia.
Qed.
Lemma pgat_map f ps k : f [] = [] -> pgat (map f ps) k = f (pgat ps k).
Proof.
  intros Hf. unfold pgat. destruct (k <? 0); [symmetry; exact Hf|].
  rewrite <- Hf at 1. apply map_nth.
Qed.
Lemma pgat_in ps k : pgat ps k <> [] -> In (pgat ps k) ps /\ 0 <= k < zlen ps.
Proof.
  intros H. destruct (Z.lt_ge_cases k 0) as [H1|H1]; [exfalso; apply H, pgat_out; lia|].
  destruct (Z.lt_ge_cases k (zlen ps)) as [H2|H2]; [|exfalso; apply H, pgat_out; lia].
  split; [|lia]. unfold pgat. destruct (Z.ltb_spec k 0); [lia|]. apply nth_In. unfold zlen in H2. lia.
Qed.

(* keys strictly ascending and above lo (no condition on the weights) *)
Fixpoint asc (lo : Z) (l : list (Z * W)) : Prop :=
  match l with [] => True | kw :: tl => lo < fst kw /\ asc (fst kw) tl end.

(* ================================================================== *)
(** * 2. Content function and invariant                                *)
(* ================================================================== *)

Definition PM : Z := 671088640.      (* 2^29 + 2^27: bound on |minPage| and on minPage + len(pages) *)
Definition PL : Z := 1073741824.     (* 2^30: bound on len(pages) *)
Definition PSLACK : Z := 1048576.    (* 2^20: bound on the over-allocation of newPagesLen *)
Definition pgrow_ok (pgrow : Z -> Z) : Prop := forall r, r <= pgrow r <= r + PSLACK.
Definition sort_ok (sort : list Z -> list Z) : Prop :=
  forall l, Sorted Z.le (sort l) /\ Permutation l (sort l).

(* count stored for index i in its page (0 when the page is out of range, nil or cleared) *)
Definition cell (s : pag) (i : Z) : W :=
  at_ (pgat (pages s) (page_index i - minPage s)) (line_index i).
(* content: buffer multiset + pages, no disjointness *)
Definition pget (s : pag) (i : Z) : W := wadd (cnt (buffer s) i) (cell s i).

Definition pg_ok (pg : list W) : Prop := (pg = [] \/ zlen pg = 32) /\ forall j, (w0 <= at_ pg j)%Qc.

Record PInv (s : pag) : Prop := mkPInv {
  inv_pg : forall k, pg_ok (pgat (pages s) k);
  inv_alloc : forall k, pgat (pages s) k <> [] -> page_ok (minPage s + k);
  inv_buf : Forall idx_ok (buffer s);
  inv_sent : minPage s = MaxInt64 -> forall k, pgat (pages s) k = [];
  inv_bnd : minPage s <> MaxInt64 -> - PM <= minPage s /\ minPage s + zlen (pages s) <= PM;
  inv_plen : zlen (pages s) <= PL }.

Lemma pg_ok_nil : pg_ok [].
Proof. split; [left; reflexivity|]. intros j. rewrite at_nil. wlra. Qed.
Lemma pg_ok_zeros : pg_ok (zeros pageLen).
Proof.
  split; [right; rewrite zlen_zeros; reflexivity|]. intros j. rewrite at_zeros. wlra.
Qed.
Lemma pg_ok_len pg : pg_ok pg -> zlen pg <> 0 -> zlen pg = 32.
Proof. intros [[H|H] _] Hn; [subst pg; exfalso; apply Hn; reflexivity|exact H]. Qed.
Lemma pg_ok_len_le pg : pg_ok pg -> zlen pg <= 32.
Proof. intros [[H|H] _]; [subst pg; change (zlen (@nil W)) with 0; lia|lia]. Qed.

Lemma cell_ext s s' i : pages s' = pages s -> minPage s' = minPage s -> cell s' i = cell s i.
Proof. intros H1 H2. unfold cell. rewrite H1, H2. reflexivity. Qed.
Lemma PInv_ext s s' :
  pages s' = pages s -> minPage s' = minPage s -> Forall idx_ok (buffer s') -> PInv s -> PInv s'.
Proof.
  intros H1 H2 Hb [A B C D E F]. constructor; rewrite ?H1, ?H2; assumption.
Qed.
Lemma cell_nonneg s i : PInv s -> (w0 <= cell s i)%Qc.
Proof. intros H. unfold cell. apply (inv_pg s H). Qed.
Lemma pget_nonneg s i : PInv s -> (w0 <= pget s i)%Qc.
Proof.
  intros H. unfold pget. apply wnonneg_add; [apply cnt_nonneg|apply cell_nonneg; exact H].
Qed.

Lemma PInv_new : PInv new_pag.
Proof.
  constructor; cbn [new_pag pages minPage buffer].
  - intros k. rewrite pgat_nil. apply pg_ok_nil.
  - intros k H. rewrite pgat_nil in H. contradiction.
  - constructor.
  - intros _ k. apply pgat_nil.
  - intros H. contradiction.
  - unfold PL. change (zlen (@nil (list W))) with 0. lia.
Qed.
Lemma pget_new i : pget new_pag i = w0.
Proof.
  unfold pget, cell. cbn [new_pag pages buffer]. rewrite pgat_nil, at_nil, cnt_nil. apply wadd_0_l.
Qed.

Lemma pgat_map_nil ps k : pgat (map (fun _ : list W => @nil W) ps) k = [].
Proof. rewrite (pgat_map (fun _ => [])) by reflexivity. reflexivity. Qed.
Lemma PInv_clear s : PInv s -> PInv (p_clear s).
Proof.
  intros H. constructor; cbn [p_clear pages minPage buffer].
  - intros k. rewrite pgat_map_nil. apply pg_ok_nil.
  - intros k Hk. rewrite pgat_map_nil in Hk. contradiction.
  - constructor.
  - intros _ k. apply pgat_map_nil.
  - intros Hn. contradiction.
  - rewrite zlen_map. apply (inv_plen s H).
Qed.
Lemma pget_clear s i : pget (p_clear s) i = w0.
Proof.
  unfold pget, cell. cbn [p_clear pages buffer minPage]. rewrite pgat_map_nil, at_nil, cnt_nil.
  apply wadd_0_l.
Qed.

(* the range test, without wrap-around thanks to the invariant; in the sentinel state the
   64-bit overflow of minPageIndex+len(pages) makes the test false *)
Lemma in_range_spec s p :
  PInv s -> (in_range s p = true <-> minPage s <> MaxInt64 /\ 0 <= p - minPage s < zlen (pages s)).
Proof.
  intros H. pose proof (inv_plen s H) as Hl. pose proof (inv_bnd s H) as Hb.
  pose proof (zlen_nonneg (pages s)) as H0.
  unfold in_range. rewrite andb_true_iff, Z.leb_le, Z.ltb_lt.
  destruct (Z.eq_dec (minPage s) MaxInt64) as [E|E].
  - rewrite E. unfold wrap_i64, MaxInt64, PL in *. split; [|tauto]. intros [H1 H2]. exfalso. lia.
  - specialize (Hb E). unfold wrap_i64, MaxInt64, PM, PL in *. split.
    + intros [H1 H2]. split; [exact E|]. lia.
    + intros [_ H1]. lia.
Qed.
Lemma in_range_false_sent s p : PInv s -> minPage s = MaxInt64 -> in_range s p = false.
Proof.
  intros H E. destruct (in_range s p) eqn:R; [|reflexivity].
  apply (in_range_spec s p H) in R. tauto.
Qed.

Lemma existing_page_spec s p off :
  PInv s -> existing_page s p = Some off ->
  off = p - minPage s /\ 0 <= off < zlen (pages s) /\ zlen (pgat (pages s) off) = 32 /\
  minPage s <> MaxInt64.
Proof.
  intros H. unfold existing_page. destruct (in_range s p) eqn:R; [|discriminate].
  apply (in_range_spec s p H) in R. destruct R as [R1 R2]. rewrite nth_page_pgat.
  destruct (Z.eqb_spec (zlen (pgat (pages s) (p - minPage s))) 0) as [E|E]; [discriminate|].
  intros E'. injection E' as E'. subst off. split; [reflexivity|]. split; [exact R2|].
  split; [|exact R1]. apply pg_ok_len; [apply (inv_pg s H)|exact E].
Qed.

(* ================================================================== *)
(** * 3. ensure_page                                                   *)
(* ================================================================== *)

Definition extend (pgrow : Z -> Z) (s : pag) (p : Z) : pag :=
  if in_range s p then s
  else if p <? minPage s then
    if minPage s =? MaxInt64 then
      let pgs := if zlen (pages s) =? 0 then repeat [] (Z.to_nat (pgrow 1)) else pages s in
      with_pages s pgs (p - zlen pgs / 2)
    else
      let newLen := pgrow (minPage s - p + 1 + zlen (pages s)) in
      let added := newLen - zlen (pages s) in
      with_pages s (repeat [] (Z.to_nat added) ++ pages s) (minPage s - added)
  else
    with_pages s (pages s ++ repeat [] (Z.to_nat (pgrow (p - minPage s + 1) - zlen (pages s)))) (minPage s).

Lemma ensure_page_unfold pgrow s p :
  ensure_page pgrow s p =
  let s1 := extend pgrow s p in
  let off := p - minPage s1 in
  (if zlen (pgat (pages s1) off) =? 0
   then with_pages s1 (set_nth (pages s1) (Z.to_nat off) (zeros pageLen)) (minPage s1)
   else s1, off).
Proof. reflexivity. Qed.

Lemma extend_spec pgrow s p :
  pgrow_ok pgrow -> PInv s -> page_ok p ->
  let s1 := extend pgrow s p in
  PInv s1 /\ buffer s1 = buffer s /\ trigger s1 = trigger s /\
  minPage s1 <> MaxInt64 /\ 0 <= p - minPage s1 < zlen (pages s1) /\
  forall q, pgat (pages s1) (q - minPage s1) = pgat (pages s) (q - minPage s).
Proof.
  intros Hg H Hp. cbv zeta. unfold extend.
  pose proof (inv_plen s H) as Hl. pose proof (inv_bnd s H) as Hb.
  pose proof (zlen_nonneg (pages s)) as H0.
  destruct (in_range s p) eqn:R.
  { apply (in_range_spec s p H) in R. destruct R as [R1 R2].
    split; [exact H|]. split; [reflexivity|]. split; [reflexivity|]. split; [exact R1|].
    split; [exact R2|]. intros q. reflexivity. }
  destruct (Z.ltb_spec p (minPage s)) as [Hlt|Hge].
  - destruct (Z.eqb_spec (minPage s) MaxInt64) as [E|E].
    + (* sentinel: place the (possibly recycled) pages around p *)
      pose proof (inv_sent s H E) as Hs.
      set (pgs := if zlen (pages s) =? 0 then repeat [] (Z.to_nat (pgrow 1)) else pages s).
      assert (Hpgs : forall k, pgat pgs k = []).
      { intros k. unfold pgs. destruct (zlen (pages s) =? 0); [apply pgat_repeat_nil|apply Hs]. }
      assert (Hlen : 1 <= zlen pgs <= PL).
      { unfold pgs. destruct (Z.eqb_spec (zlen (pages s)) 0) as [E0|E0].
        - rewrite zlen_repeat. pose proof (Hg 1) as Hg1. unfold PSLACK, PL in *. lia.
        - lia. }
      cbn [with_pages pages minPage buffer trigger].
      unfold page_ok, PB in Hp. unfold PM, PL, MaxInt64 in *.
      split.
      { constructor; cbn [with_pages pages minPage buffer].
        - intros k. rewrite Hpgs. apply pg_ok_nil.
        - intros k Hk. rewrite Hpgs in Hk. contradiction.
        - apply (inv_buf s H).
        - intros _ k. apply Hpgs.
        - intros _. unfold PM. lia.
        - unfold PL. lia. }
      split; [reflexivity|]. split; [reflexivity|]. split; [lia|]. split; [lia|].
      intros q. rewrite Hpgs, Hs. reflexivity.
    + (* extend left *)
      specialize (Hb E).
      set (newLen := pgrow (minPage s - p + 1 + zlen (pages s))).
      pose proof (Hg (minPage s - p + 1 + zlen (pages s))) as Hg1. fold newLen in Hg1.
      set (added := newLen - zlen (pages s)).
      assert (Ha : minPage s - p + 1 <= added <= minPage s - p + 1 + PSLACK) by (unfold added; lia).
      assert (Hpg : forall k, pgat (repeat [] (Z.to_nat added) ++ pages s) k = pgat (pages s) (k - added)).
      { intros k. rewrite pgat_app, zlen_repeat.
        destruct (Z.ltb_spec k (Z.of_nat (Z.to_nat added))) as [Hk|Hk].
        - rewrite pgat_repeat_nil. symmetry. apply pgat_out. lia.
        - f_equal. lia. }
      cbn [with_pages pages minPage buffer trigger].
      unfold page_ok, PB in Hp. unfold PM, PL, PSLACK in *.
      split.
      { constructor; cbn [with_pages pages minPage buffer].
        - intros k. rewrite Hpg. apply (inv_pg s H).
        - intros k Hk. rewrite Hpg in Hk. pose proof (inv_alloc s H _ Hk) as Hq.
          unfold page_ok in *. lia.
        - apply (inv_buf s H).
        - intros E'. unfold MaxInt64 in E'. lia.
        - intros _. rewrite zlen_app, zlen_repeat. unfold PM. lia.
        - rewrite zlen_app, zlen_repeat. unfold PL. lia. }
      split; [reflexivity|]. split; [reflexivity|]. split; [unfold MaxInt64; lia|].
      split; [rewrite zlen_app, zlen_repeat; lia|].
      intros q. rewrite Hpg. f_equal. lia.
  - (* extend right *)
    assert (E : minPage s <> MaxInt64).
    { intros E. unfold page_ok, PB in Hp. unfold MaxInt64 in E. lia. }
    specialize (Hb E).
    assert (Hout : zlen (pages s) <= p - minPage s).
    { destruct (Z.lt_ge_cases (p - minPage s) (zlen (pages s))) as [Hin|Hin]; [|exact Hin].
      exfalso. assert (R' : in_range s p = true) by (apply (in_range_spec s p H); split; [exact E|lia]).
      congruence. }
    set (newLen := pgrow (p - minPage s + 1)).
    pose proof (Hg (p - minPage s + 1)) as Hg1. fold newLen in Hg1.
    assert (Hpg : forall k, pgat (pages s ++ repeat [] (Z.to_nat (newLen - zlen (pages s)))) k = pgat (pages s) k).
    { intros k. rewrite pgat_app. destruct (Z.ltb_spec k (zlen (pages s))) as [Hk|Hk]; [reflexivity|].
      rewrite pgat_repeat_nil. symmetry. apply pgat_out. lia. }
    cbn [with_pages pages minPage buffer trigger].
    unfold page_ok, PB in Hp. unfold PM, PL, PSLACK in *.
    split.
    { constructor; cbn [with_pages pages minPage buffer].
      - intros k. rewrite Hpg. apply (inv_pg s H).
      - intros k Hk. rewrite Hpg in Hk. apply (inv_alloc s H _ Hk).
      - apply (inv_buf s H).
      - intros E'. contradiction.
      - intros _. rewrite zlen_app, zlen_repeat. unfold PM. lia.
      - rewrite zlen_app, zlen_repeat. unfold PL. lia. }
    split; [reflexivity|]. split; [reflexivity|]. split; [exact E|].
    split; [rewrite zlen_app, zlen_repeat; lia|].
    intros q. apply Hpg.
Qed.

Theorem ensure_page_spec pgrow s p s' off :
  pgrow_ok pgrow -> PInv s -> page_ok p -> ensure_page pgrow s p = (s', off) ->
  PInv s' /\ buffer s' = buffer s /\ trigger s' = trigger s /\
  off = p - minPage s' /\ 0 <= off < zlen (pages s') /\ zlen (pgat (pages s') off) = 32 /\
  minPage s' <> MaxInt64 /\ forall i, cell s' i = cell s i.
Proof.
  intros Hg H Hp. rewrite ensure_page_unfold. cbv zeta.
  destruct (extend_spec pgrow s p Hg H Hp) as [H1 [Eb [Et [Em [Hoff Hq]]]]].
  set (s1 := extend pgrow s p) in *.
  destruct (Z.eqb_spec (zlen (pgat (pages s1) (p - minPage s1))) 0) as [E|E]; intros Epair;
    injection Epair as Es Eo; subst s' off.
  - apply zlen_nil_iff in E.
    assert (Hpg : forall k, pgat (set_nth (pages s1) (Z.to_nat (p - minPage s1)) (zeros pageLen)) k
                  = if k =? p - minPage s1 then zeros pageLen else pgat (pages s1) k).
    { intros k. apply pgat_set_nth. exact Hoff. }
    assert (Hlen : zlen (set_nth (pages s1) (Z.to_nat (p - minPage s1)) (zeros pageLen)) = zlen (pages s1)).
    { apply zlen_set_nth. unfold zlen in Hoff. lia. }
    cbn [with_pages pages minPage buffer trigger].
    split.
    { constructor; cbn [with_pages pages minPage buffer].
      - intros k. rewrite Hpg. destruct (k =? p - minPage s1); [apply pg_ok_zeros|apply (inv_pg s1 H1)].
      - intros k Hk. rewrite Hpg in Hk. destruct (Z.eqb_spec k (p - minPage s1)) as [Ek|Ek].
        + subst k. replace (minPage s1 + (p - minPage s1)) with p by lia. exact Hp.
        + apply (inv_alloc s1 H1 _ Hk).
      - apply (inv_buf s1 H1).
      - intros E'. contradiction.
      - intros _. rewrite Hlen. apply (inv_bnd s1 H1 Em).
      - rewrite Hlen. apply (inv_plen s1 H1). }
    split; [exact Eb|]. split; [exact Et|]. split; [reflexivity|].
    split; [rewrite Hlen; exact Hoff|].
    split; [rewrite Hpg, Z.eqb_refl, zlen_zeros; reflexivity|]. split; [exact Em|].
    intros i. unfold cell. cbn [with_pages pages minPage]. rewrite Hpg, <- Hq.
    destruct (Z.eqb_spec (page_index i - minPage s1) (p - minPage s1)) as [Ek|Ek]; [|reflexivity].
    rewrite Ek, E, at_zeros, at_nil. reflexivity.
  - split; [exact H1|]. split; [exact Eb|]. split; [exact Et|]. split; [reflexivity|].
    split; [exact Hoff|]. split; [apply pg_ok_len; [apply (inv_pg s1 H1)|exact E]|].
    split; [exact Em|]. intros i. unfold cell. rewrite <- Hq. reflexivity.
Qed.

(* ================================================================== *)
(** * add_to_page                                                      *)
(* ================================================================== *)

Theorem add_to_page_spec s off i c :
  PInv s -> 0 <= off < zlen (pages s) -> zlen (pgat (pages s) off) = 32 ->
  off = page_index i - minPage s -> (w0 <= c)%Qc ->
  let s' := add_to_page s off i c in
  PInv s' /\ buffer s' = buffer s /\ trigger s' = trigger s /\ minPage s' = minPage s /\
  zlen (pages s') = zlen (pages s) /\ (forall k, zlen (pgat (pages s') k) = zlen (pgat (pages s) k)) /\
  forall j, cell s' j = wadd (cell s j) (if j =? i then c else w0).
Proof.
  intros H Hoff Hlen Eoff Hc. cbv zeta. unfold add_to_page. rewrite nth_page_pgat.
  set (pg := pgat (pages s) off) in *.
  pose proof (line_index_range i) as Hli.
  assert (Hl : 0 <= line_index i < zlen pg) by lia.
  set (pg' := upd_line pg (line_index i) c).
  assert (Hpg : forall k, pgat (set_nth (pages s) (Z.to_nat off) pg') k = if k =? off then pg' else pgat (pages s) k).
  { intros k. apply pgat_set_nth. exact Hoff. }
  assert (Hzl : zlen (set_nth (pages s) (Z.to_nat off) pg') = zlen (pages s)).
  { apply zlen_set_nth. unfold zlen in Hoff. lia. }
  assert (Hlen' : zlen pg' = 32) by (unfold pg'; rewrite zlen_upd_line by exact Hl; exact Hlen).
  assert (Hne : minPage s <> MaxInt64).
  { intros E. pose proof (inv_sent s H E off) as Hn. fold pg in Hn. rewrite Hn in Hlen. change (zlen (@nil W)) with 0 in Hlen. lia. }
  cbn [with_pages pages minPage buffer trigger].
  split.
  { constructor; cbn [with_pages pages minPage buffer].
    - intros k. rewrite Hpg. destruct (Z.eqb_spec k off) as [Ek|Ek]; [|apply (inv_pg s H)].
      split; [right; exact Hlen'|]. intros j. unfold pg'. rewrite at_upd_line by exact Hl.
      pose proof (inv_pg s H off) as [_ Hnn]. fold pg in Hnn.
      destruct (j =? line_index i); [apply wnonneg_add; [apply Hnn|exact Hc]|apply Hnn].
    - intros k Hk. rewrite Hpg in Hk. destruct (Z.eqb_spec k off) as [Ek|Ek]; [|apply (inv_alloc s H _ Hk)].
      subst k. apply (inv_alloc s H). fold pg. intros En. rewrite En in Hlen. change (zlen (@nil W)) with 0 in Hlen. lia.
    - apply (inv_buf s H).
    - intros E. contradiction.
    - intros _. rewrite Hzl. apply (inv_bnd s H Hne).
    - rewrite Hzl. apply (inv_plen s H). }
  split; [reflexivity|]. split; [reflexivity|]. split; [reflexivity|]. split; [exact Hzl|].
  split.
  { intros k. rewrite Hpg. destruct (Z.eqb_spec k off) as [Ek|Ek]; [|reflexivity].
    subst k. fold pg. lia. }
  intros j. unfold cell. cbn [with_pages pages minPage]. rewrite Hpg.
  destruct (Z.eqb_spec (page_index j - minPage s) off) as [Ek|Ek].
  - rewrite Ek. fold pg. unfold pg'. rewrite at_upd_line by exact Hl.
    destruct (Z.eqb_spec (line_index j) (line_index i)) as [El|El].
    + assert (Eji : j = i) by (apply index_eq_iff; split; [lia|exact El]).
      subst j. rewrite Z.eqb_refl. reflexivity.
    + destruct (Z.eqb_spec j i) as [Eji|Eji]; [subst j; contradiction|]. rewrite wadd_0_r. reflexivity.
  - destruct (Z.eqb_spec j i) as [Eji|Eji]; [subst j; exfalso; apply Ek; lia|].
    rewrite wadd_0_r. reflexivity.
Qed.

(* ================================================================== *)
(** * 5. compact                                                       *)
(* ================================================================== *)

Lemma span_page_spec p l :
  l = fst (span_page p l) ++ snd (span_page p l) /\
  Forall (fun x => page_index x = p) (fst (span_page p l)).
Proof.
  induction l as [|x tl IH]; [split; [reflexivity|constructor]|].
  cbn [span_page]. destruct (Z.eqb_spec (page_index x) p) as [E|E].
  - destruct (span_page p tl) as [a b]. cbn [fst snd] in *. destruct IH as [IH1 IH2].
    split; [rewrite IH1 at 1; reflexivity|constructor; assumption].
  - cbn [fst snd]. split; [reflexivity|constructor].
Qed.

Lemma fold_add_group grp : forall s off p,
  PInv s -> 0 <= off < zlen (pages s) -> zlen (pgat (pages s) off) = 32 -> off = p - minPage s ->
  Forall (fun x => page_index x = p) grp ->
  let s' := fold_left (fun acc i => add_to_page acc off i w1) grp s in
  PInv s' /\ buffer s' = buffer s /\ trigger s' = trigger s /\
  forall j, cell s' j = wadd (cell s j) (cnt grp j).
Proof.
  induction grp as [|x grp IH]; intros s off p H Hoff Hlen Eoff Hg; cbv zeta.
  - cbn [fold_left]. split; [exact H|]. split; [reflexivity|]. split; [reflexivity|].
    intros j. rewrite cnt_nil, wadd_0_r. reflexivity.
  - inversion Hg as [|x' g' Hx Hg']; subst x' g'. cbn [fold_left].
    assert (Eoff' : off = page_index x - minPage s) by lia.
    assert (Hw1 : (w0 <= w1)%Qc) by wlra.
    destruct (add_to_page_spec s off x w1 H Hoff Hlen Eoff' Hw1) as [A1 [A2 [A3 [A4 [A5 [A6 A7]]]]]].
    set (s1 := add_to_page s off x w1) in *.
    assert (Hoff1 : 0 <= off < zlen (pages s1)) by (rewrite A5; exact Hoff).
    assert (Hlen1 : zlen (pgat (pages s1) off) = 32) by (rewrite A6; exact Hlen).
    assert (Eoff1 : off = p - minPage s1) by (rewrite A4; exact Eoff).
    destruct (IH s1 off p A1 Hoff1 Hlen1 Eoff1 Hg') as [B1 [B2 [B3 B4]]].
    split; [exact B1|]. split; [rewrite B2; exact A2|]. split; [rewrite B3; exact A3|].
    intros j. rewrite B4, A7, cnt_cons. wring.
Qed.

Local Arguments compact_loop : simpl never.
Lemma compact_loop_O pgrow worth s todo kept :
  compact_loop pgrow worth O s todo kept = (s, rev kept ++ todo).
Proof. reflexivity. Qed.
Lemma compact_loop_nil pgrow worth f s kept :
  compact_loop pgrow worth (S f) s [] kept = (s, rev kept).
Proof. reflexivity. Qed.
Lemma compact_loop_cons pgrow worth f s x tl kept :
  compact_loop pgrow worth (S f) s (x :: tl) kept =
  let p := page_index x in
  let grp := fst (span_page p (x :: tl)) in
  let rest := snd (span_page p (x :: tl)) in
  match (match existing_page s p with
         | Some off => Some (s, off)
         | None => if worth (zlen grp) then Some (ensure_page pgrow s p) else None
         end) with
  | Some (s', off) => compact_loop pgrow worth f (fold_left (fun acc i => add_to_page acc off i w1) grp s') rest kept
  | None => compact_loop pgrow worth f s rest (rev grp ++ kept)
  end.
Proof.
  unfold compact_loop at 1. fold compact_loop. cbv zeta.
  destruct (span_page (page_index x) (x :: tl)) as [g r]. reflexivity.
Qed.

Lemma Forall_app_inv {A} (P : A -> Prop) a b : Forall P (a ++ b) -> Forall P a /\ Forall P b.
Proof. intros H. apply Forall_app in H. exact H. Qed.

(* lossless for every fuel, every [worth] *)
Lemma compact_loop_spec pgrow worth : pgrow_ok pgrow ->
  forall f s todo kept s' buf,
  PInv s -> Forall idx_ok todo -> Forall idx_ok kept ->
  compact_loop pgrow worth f s todo kept = (s', buf) ->
  PInv s' /\ buffer s' = buffer s /\ trigger s' = trigger s /\ Forall idx_ok buf /\
  forall j, wadd (cnt buf j) (cell s' j) = wadd (wadd (cnt kept j) (cnt todo j)) (cell s j).
Proof.
  intros Hg. induction f as [|f IH]; intros s todo kept s' buf H Ht Hk E.
  - rewrite compact_loop_O in E. injection E as E1 E2. subst s' buf.
    split; [exact H|]. split; [reflexivity|]. split; [reflexivity|].
    split; [apply Forall_app; split; [apply Forall_rev; exact Hk|exact Ht]|].
    intros j. rewrite cnt_app, cnt_rev. reflexivity.
  - destruct todo as [|x tl].
    + rewrite compact_loop_nil in E. injection E as E1 E2. subst s' buf.
      split; [exact H|]. split; [reflexivity|]. split; [reflexivity|].
      split; [apply Forall_rev; exact Hk|].
      intros j. rewrite cnt_rev, cnt_nil, wadd_0_r. reflexivity.
    + rewrite compact_loop_cons in E. cbv zeta in E.
      destruct (span_page_spec (page_index x) (x :: tl)) as [Hsplit Hgrp].
      set (p := page_index x) in *.
      set (grp := fst (span_page p (x :: tl))) in *.
      set (rest := snd (span_page p (x :: tl))) in *.
      assert (Hidx : Forall idx_ok grp /\ Forall idx_ok rest).
      { apply Forall_app_inv. rewrite <- Hsplit. exact Ht. }
      destruct Hidx as [Hig Hir].
      assert (Hp : page_ok p).
      { apply page_index_ok. inversion Ht; assumption. }
      assert (Hcnt : forall j, cnt (x :: tl) j = wadd (cnt grp j) (cnt rest j)).
      { intros j. rewrite Hsplit at 1. apply cnt_app. }
      assert (Hmove : forall s1 off, PInv s1 -> buffer s1 = buffer s -> trigger s1 = trigger s ->
                 (forall j, cell s1 j = cell s j) ->
                 0 <= off < zlen (pages s1) -> zlen (pgat (pages s1) off) = 32 -> off = p - minPage s1 ->
                 compact_loop pgrow worth f (fold_left (fun acc i => add_to_page acc off i w1) grp s1) rest kept = (s', buf) ->
                 PInv s' /\ buffer s' = buffer s /\ trigger s' = trigger s /\ Forall idx_ok buf /\
                 forall j, wadd (cnt buf j) (cell s' j) = wadd (wadd (cnt kept j) (cnt (x :: tl) j)) (cell s j)).
      { intros s1 off H1 Eb Et Ec Hoff Hlen Eoff E1.
        destruct (fold_add_group grp s1 off p H1 Hoff Hlen Eoff Hgrp) as [B1 [B2 [B3 B4]]].
        destruct (IH _ _ _ _ _ B1 Hir Hk E1) as [C1 [C2 [C3 [C4 C5]]]].
        split; [exact C1|]. split; [rewrite C2, B2; exact Eb|]. split; [rewrite C3, B3; exact Et|].
        split; [exact C4|]. intros j. rewrite C5, B4, Ec, Hcnt. wring. }
      destruct (existing_page s p) as [off|] eqn:Ex.
      * destruct (existing_page_spec s p off H Ex) as [X1 [X2 [X3 X4]]].
        apply (Hmove s off H eq_refl eq_refl (fun j => eq_refl) X2 X3 X1 E).
      * destruct (worth (zlen grp)).
        -- destruct (ensure_page pgrow s p) as [s1 off] eqn:En.
           destruct (ensure_page_spec pgrow s p s1 off Hg H Hp En) as [Y1 [Y2 [Y3 [Y4 [Y5 [Y6 [Y7 Y8]]]]]]].
           apply (Hmove s1 off Y1 Y2 Y3 Y8 Y5 Y6 Y4 E).
        -- assert (Hk' : Forall idx_ok (rev grp ++ kept)).
           { apply Forall_app. split; [apply Forall_rev; exact Hig|exact Hk]. }
           destruct (IH _ _ _ _ _ H Hir Hk' E) as [C1 [C2 [C3 [C4 C5]]]].
           split; [exact C1|]. split; [exact C2|]. split; [exact C3|]. split; [exact C4|].
           intros j. rewrite C5, cnt_app, cnt_rev, Hcnt. wring.
Qed.

(* the fuel [S (length todo)] is enough: every iteration consumes a non-empty group, so the
   out-of-fuel branch is never reached and more fuel changes nothing *)
Lemma span_page_rest_le p l : (length (snd (span_page p l)) <= length l)%nat.
Proof.
  induction l as [|x tl IH]; [cbn [span_page snd length]; lia|].
  cbn [span_page]. destruct (page_index x =? p).
  - destruct (span_page p tl) as [a b]. cbn [fst snd length] in *. lia.
  - cbn [snd]. lia.
Qed.
Lemma span_page_rest_lt x tl :
  (length (snd (span_page (page_index x) (x :: tl))) < length (x :: tl))%nat.
Proof.
  cbn [span_page]. rewrite Z.eqb_refl. pose proof (span_page_rest_le (page_index x) tl) as H.
  destruct (span_page (page_index x) tl) as [a b]. cbn [fst snd length] in *. lia.
Qed.
Lemma compact_loop_fuel pgrow worth f : forall s todo kept,
  (length todo < f)%nat ->
  compact_loop pgrow worth (S f) s todo kept = compact_loop pgrow worth f s todo kept.
Proof.
  induction f as [|f IH]; intros s todo kept Hl; [lia|].
  destruct todo as [|x tl]; [rewrite !compact_loop_nil; reflexivity|].
  rewrite (compact_loop_cons pgrow worth (S f)), (compact_loop_cons pgrow worth f). cbv zeta.
  pose proof (span_page_rest_lt x tl) as Hr.
  assert (Hlt : (length (snd (span_page (page_index x) (x :: tl))) < f)%nat) by lia.
  destruct (match existing_page s (page_index x) with
            | Some off => Some (s, off)
            | None => if worth (zlen (fst (span_page (page_index x) (x :: tl))))
                      then Some (ensure_page pgrow s (page_index x)) else None
            end) as [[s1 off]|]; apply IH; exact Hlt.
Qed.
Corollary compact_loop_fuel_enough pgrow worth k s todo kept :
  compact_loop pgrow worth (S (length todo) + k) s todo kept =
  compact_loop pgrow worth (S (length todo)) s todo kept.
Proof.
  induction k as [|k IH]; [rewrite Nat.add_0_r; reflexivity|].
  rewrite <- IH. replace (S (length todo) + S k)%nat with (S (S (length todo) + k)) by lia.
  apply compact_loop_fuel. lia.
Qed.

Lemma sort_idx_ok sort l : sort_ok sort -> Forall idx_ok l -> Forall idx_ok (sort l).
Proof. intros Hs H. eapply Permutation_Forall; [apply Hs|exact H]. Qed.
Lemma cnt_sort sort l j : sort_ok sort -> cnt (sort l) j = cnt l j.
Proof. intros Hs. symmetry. apply cnt_perm. apply Hs. Qed.

Theorem compact_spec pgrow worth sort s :
  pgrow_ok pgrow -> sort_ok sort -> PInv s ->
  PInv (compact pgrow worth sort s) /\ forall j, pget (compact pgrow worth sort s) j = pget s j.
Proof.
  intros Hg Hs H. unfold compact.
  destruct (compact_loop pgrow worth (S (length (sort (buffer s)))) s (sort (buffer s)) []) as [s' buf] eqn:E.
  assert (Hsorted : Forall idx_ok (sort (buffer s))) by (apply sort_idx_ok; [exact Hs|apply (inv_buf s H)]).
  destruct (compact_loop_spec pgrow worth Hg _ _ _ _ _ _ H Hsorted (Forall_nil _) E) as [C1 [C2 [C3 [C4 C5]]]].
  split.
  - apply (PInv_ext s'); [reflexivity|reflexivity|exact C4|exact C1].
  - intros j. pose proof (C5 j) as C5j. unfold pget, cell in *. cbn [buffer pages minPage].
    rewrite C5j, cnt_nil, wadd_0_l, (cnt_sort sort _ j Hs). reflexivity.
Qed.

(* ================================================================== *)
(** * 4. Add / AddWithCount                                            *)
(* ================================================================== *)

Lemma with_buffer_spec s b :
  PInv s -> Forall idx_ok b -> PInv (with_buffer s b) /\ forall j, cell (with_buffer s b) j = cell s j.
Proof.
  intros H Hb. split; [apply (PInv_ext s); [reflexivity|reflexivity|exact Hb|exact H]|].
  intros j. reflexivity.
Qed.

Theorem p_add_spec pgrow worth full sort s i :
  pgrow_ok pgrow -> sort_ok sort -> PInv s -> idx_ok i ->
  PInv (p_add pgrow worth full sort s i) /\
  forall j, pget (p_add pgrow worth full sort s i) j = wadd (pget s j) (if j =? i then w1 else w0).
Proof.
  intros Hg Hs H Hi. unfold p_add.
  destruct (existing_page s (page_index i)) as [off|] eqn:Ex.
  - destruct (existing_page_spec s _ off H Ex) as [X1 [X2 [X3 X4]]].
    assert (Hw1 : (w0 <= w1)%Qc) by wlra.
    destruct (add_to_page_spec s off i w1 H X2 X3 X1 Hw1) as [A1 [A2 [A3 [A4 [A5 [A6 A7]]]]]].
    split; [exact A1|]. intros j. unfold pget. rewrite A2, A7. wring.
  - set (s1 := if full s && (trigger s <=? zlen (buffer s)) then compact pgrow worth sort s else s).
    assert (H1 : PInv s1 /\ forall j, pget s1 j = pget s j).
    { unfold s1. destruct (full s && (trigger s <=? zlen (buffer s))).
      - apply compact_spec; assumption.
      - split; [exact H|reflexivity]. }
    destruct H1 as [H1 G1].
    assert (Hb : Forall idx_ok (buffer s1 ++ [i])).
    { apply Forall_app. split; [apply (inv_buf s1 H1)|constructor; [exact Hi|constructor]]. }
    destruct (with_buffer_spec s1 _ H1 Hb) as [W1 W2].
    split; [exact W1|]. intros j. rewrite <- G1. unfold pget. rewrite W2. cbn [with_buffer buffer].
    rewrite cnt_app, cnt_cons, cnt_nil. wring.
Qed.

Theorem p_add_with_count_spec pgrow worth full sort s i c :
  pgrow_ok pgrow -> sort_ok sort -> PInv s -> idx_ok i -> (w0 <= c)%Qc ->
  PInv (p_add_with_count pgrow worth full sort s i c) /\
  forall j, pget (p_add_with_count pgrow worth full sort s i c) j = wadd (pget s j) (if j =? i then c else w0).
Proof.
  intros Hg Hs H Hi Hc. unfold p_add_with_count.
  destruct (weqb_spec c w0) as [E0|E0].
  - subst c. split; [exact H|]. intros j. destruct (j =? i); rewrite wadd_0_r; reflexivity.
  - destruct (weqb_spec c w1) as [E1|E1].
    + subst c. apply p_add_spec; assumption.
    + destruct (ensure_page pgrow s (page_index i)) as [s1 off] eqn:En.
      destruct (ensure_page_spec pgrow s _ s1 off Hg H (page_index_ok i Hi) En) as [Y1 [Y2 [Y3 [Y4 [Y5 [Y6 [Y7 Y8]]]]]]].
      destruct (add_to_page_spec s1 off i c Y1 Y5 Y6 Y4 Hc) as [A1 [A2 [A3 [A4 [A5 [A6 A7]]]]]].
      split; [exact A1|]. intros j. unfold pget. rewrite A2, A7, Y2, Y8. wring.
Qed.

(* ================================================================== *)
(** * page_cells: content, order, total (generalised over the seq offsets) *)
(* ================================================================== *)

(* Cells of the allocated pages of a paginated store: content, order, total, sign. *)

Definition pages_le32 (ps : list (list W)) : Prop := forall k, zlen (pgat ps k) <= 32.

(* ---- page_cells with the [seq] start offsets generalised ---- *)
Definition pc_row (p : Z) (b : nat) (pg : list W) : list (Z * W) :=
  map (fun lc => (index_of p (Z.of_nat (fst lc)), snd lc)) (combine (seq b (length pg)) pg).
Definition pc_from (m : Z) (a : nat) (ps : list (list W)) : list (Z * W) :=
  concat (map (fun op => pc_row (m + Z.of_nat (fst op)) 0 (snd op)) (combine (seq a (length ps)) ps)).

Lemma pc_row_nil p b : pc_row p b [] = [].
Proof. reflexivity. Qed.
Lemma pc_row_cons p b c pg :
  pc_row p b (c :: pg) = (index_of p (Z.of_nat b), c) :: pc_row p (S b) pg.
Proof. reflexivity. Qed.
Lemma pc_from_nil m a : pc_from m a [] = [].
Proof. reflexivity. Qed.
Lemma pc_from_cons m a pg ps :
  pc_from m a (pg :: ps) = pc_row (m + Z.of_nat a) 0 pg ++ pc_from m (S a) ps.
Proof. reflexivity. Qed.
Lemma pc_page_cells s : page_cells s = pc_from (minPage s) 0 (pages s).
Proof. reflexivity. Qed.

(* ---- small list facts ---- *)
Lemma pc_zlen_cons {A} (x : A) l : zlen (x :: l) = 1 + zlen l.
Proof. unfold zlen. cbn [length]. lia. Qed.
Lemma pc_at_cons c pg j : at_ (c :: pg) j = if j =? 0 then c else at_ pg (j - 1).
Proof.
  unfold at_. destruct (Z.ltb_spec j 0) as [H|H].
  - destruct (Z.eqb_spec j 0) as [E|E]; [lia|]. destruct (Z.ltb_spec (j - 1) 0) as [H'|H']; [reflexivity|lia].
  - destruct (Z.eqb_spec j 0) as [E|E]; [subst j; reflexivity|].
    destruct (Z.ltb_spec (j - 1) 0) as [H'|H']; [lia|].
    replace (Z.to_nat j) with (S (Z.to_nat (j - 1))) by lia. reflexivity.
Qed.
Lemma pc_lsum_nil i : lsum [] i = w0.
Proof. reflexivity. Qed.
Lemma pc_lsum_cons k w tl i : lsum ((k, w) :: tl) i = if i =? k then wadd w (lsum tl i) else lsum tl i.
Proof. reflexivity. Qed.
Lemma pc_lsum_app l1 l2 i : lsum (l1 ++ l2) i = wadd (lsum l1 i) (lsum l2 i).
Proof. unfold lsum. apply gsum_app. Qed.

Lemma pc_Forall_pgat (Q : list W -> Prop) ps : (forall k, Q (pgat ps k)) -> Forall Q ps.
Proof.
  intros H. apply Forall_forall. intros x Hx. destruct (In_nth ps x [] Hx) as [n [Hn E]].
  specialize (H (Z.of_nat n)). unfold pgat in H.
  destruct (Z.ltb_spec (Z.of_nat n) 0) as [Hlt|Hge]; [lia|].
  rewrite Nat2Z.id, E in H. exact H.
Qed.
Lemma pc_Forall_at (P : W -> Prop) pg : (forall j, P (at_ pg j)) -> Forall P pg.
Proof.
  intros H. apply Forall_forall. intros x Hx. destruct (in_at pg x Hx) as [j [Hj E]].
  rewrite <- E. apply H.
Qed.
Lemma pc_le32_Forall ps : pages_le32 ps -> Forall (fun pg => zlen pg <= 32) ps.
Proof. intros H. apply pc_Forall_pgat. exact H. Qed.

(* ---- content ---- *)
Lemma pc_row_lsum p b pg i :
  Z.of_nat b + zlen pg <= 32 ->
  lsum (pc_row p b pg) i =
  if (page_index i =? p) && (Z.of_nat b <=? line_index i)
  then at_ pg (line_index i - Z.of_nat b) else w0.
Proof.
  revert b. induction pg as [|c pg IH]; intros b Hb.
  - rewrite pc_row_nil, at_nil, pc_lsum_nil. destruct (_ && _); reflexivity.
  - rewrite pc_zlen_cons in Hb. pose proof (zlen_nonneg pg) as Hz.
    rewrite pc_row_cons, pc_lsum_cons, (IH (S b)) by lia. rewrite pc_at_cons, index_of_mul.
    pose proof (line_index_range i) as Hl.
    assert (Hi : i = page_index i * 32 + line_index i).
    { rewrite <- index_of_mul. symmetry. apply index_of_page_line. }
    revert Hi Hl. generalize (page_index i) (line_index i). intros P L Hi Hl.
    zb; cbn [andb]; try lia; rewrite ?wadd_0_r; try reflexivity; f_equal; lia.
Qed.

Lemma pc_from_lsum m a ps i :
  Forall (fun pg => zlen pg <= 32) ps ->
  lsum (pc_from m a ps) i =
  if Z.of_nat a <=? page_index i - m
  then at_ (pgat ps (page_index i - m - Z.of_nat a)) (line_index i) else w0.
Proof.
  intros H. revert a. induction H as [|pg ps Hpg Hps IH]; intros a.
  - rewrite pc_from_nil, pgat_nil, at_nil, pc_lsum_nil. destruct (_ <=? _); reflexivity.
  - rewrite pc_from_cons, pc_lsum_app, IH, pgat_cons.
    rewrite pc_row_lsum by (change (Z.of_nat 0) with 0; lia).
    change (Z.of_nat 0) with 0. rewrite Z.sub_0_r.
    pose proof (line_index_range i) as Hl.
    revert Hl. generalize (page_index i) (line_index i). intros P L Hl.
    zb; cbn [andb]; try lia; rewrite ?wadd_0_r, ?wadd_0_l; try reflexivity; f_equal; f_equal; lia.
Qed.

Theorem page_cells_lsum s i :
  pages_le32 (pages s) ->
  lsum (page_cells s) i = at_ (pgat (pages s) (page_index i - minPage s)) (line_index i).
Proof.
  intros H. rewrite pc_page_cells, pc_from_lsum by (apply pc_le32_Forall; exact H).
  change (Z.of_nat 0) with 0. rewrite Z.sub_0_r.
  destruct (Z.leb_spec 0 (page_index i - minPage s)) as [Hk|Hk]; [reflexivity|].
  rewrite pgat_out by lia. rewrite at_nil. reflexivity.
Qed.

(* ---- order ---- *)
Lemma pc_asc_weaken lo lo' l : lo' <= lo -> asc lo l -> asc lo' l.
Proof.
  destruct l as [|kw tl]; intros Hlo H; [exact I|].
  cbn [asc] in H |- *. destruct H as [H1 H2]. split; [lia|exact H2].
Qed.
Lemma pc_asc_app lo hi l1 l2 :
  asc lo l1 -> (forall kw, In kw l1 -> fst kw <= hi) -> lo <= hi -> asc hi l2 -> asc lo (l1 ++ l2).
Proof.
  revert lo. induction l1 as [|kw tl IH]; intros lo H1 Hk Hlo H2.
  - cbn [app]. eapply pc_asc_weaken; eassumption.
  - cbn [app asc] in H1 |- *. destruct H1 as [Ha Hb]. split; [exact Ha|].
    apply IH; [exact Hb| |apply Hk; left; reflexivity|exact H2].
    intros kw' Hin. apply Hk. right. exact Hin.
Qed.
Lemma pc_row_keys p b pg kw :
  Z.of_nat b + zlen pg <= 32 -> In kw (pc_row p b pg) ->
  p * 32 + Z.of_nat b <= fst kw <= p * 32 + 31.
Proof.
  revert b. induction pg as [|c pg IH]; intros b Hb Hin.
  - rewrite pc_row_nil in Hin. destruct Hin.
  - rewrite pc_zlen_cons in Hb. pose proof (zlen_nonneg pg) as Hz.
    rewrite pc_row_cons in Hin. destruct Hin as [E|Hin].
    + subst kw. cbn [fst]. rewrite index_of_mul. lia.
    + assert (Hb' : Z.of_nat (S b) + zlen pg <= 32) by lia.
      specialize (IH (S b) Hb' Hin). lia.
Qed.
Lemma pc_row_asc p b pg lo : lo < p * 32 + Z.of_nat b -> asc lo (pc_row p b pg).
Proof.
  revert b lo. induction pg as [|c pg IH]; intros b lo Hlo.
  - rewrite pc_row_nil. exact I.
  - rewrite pc_row_cons. cbn [asc fst]. rewrite index_of_mul. split; [exact Hlo|].
    apply IH. lia.
Qed.
Lemma pc_from_asc m a ps lo :
  Forall (fun pg => zlen pg <= 32) ps -> lo < (m + Z.of_nat a) * 32 -> asc lo (pc_from m a ps).
Proof.
  intros H. revert a lo. induction H as [|pg ps Hpg Hps IH]; intros a lo Hlo.
  - rewrite pc_from_nil. exact I.
  - rewrite pc_from_cons. apply (pc_asc_app lo ((m + Z.of_nat a) * 32 + 31)).
    + apply pc_row_asc. change (Z.of_nat 0) with 0. lia.
    + intros kw Hin. apply pc_row_keys in Hin; [lia|]. change (Z.of_nat 0) with 0. lia.
    + lia.
    + apply IH. lia.
Qed.

Theorem page_cells_asc s : pages_le32 (pages s) -> exists lo, asc lo (page_cells s).
Proof.
  intros H. exists (minPage s * 32 - 1). rewrite pc_page_cells.
  apply pc_from_asc; [apply pc_le32_Forall; exact H|]. change (Z.of_nat 0) with 0. lia.
Qed.

(* ---- total ---- *)
Lemma pc_row_total p b pg a0 : fold_left wadd pg a0 = wadd a0 (total (pc_row p b pg)).
Proof.
  revert b a0. induction pg as [|c pg IH]; intros b a0.
  - rewrite pc_row_nil, total_nil, wadd_0_r. reflexivity.
  - cbn [fold_left]. rewrite (IH (S b)), pc_row_cons, total_cons. symmetry. apply wadd_assoc.
Qed.
Lemma pc_from_total m a ps a0 :
  fold_left (fun acc p => fold_left wadd p acc) ps a0 = wadd a0 (total (pc_from m a ps)).
Proof.
  revert a a0. induction ps as [|pg ps IH]; intros a a0.
  - rewrite pc_from_nil, total_nil, wadd_0_r. reflexivity.
  - cbn [fold_left]. rewrite (IH (S a)), pc_from_cons, total_app.
    rewrite (pc_row_total (m + Z.of_nat a) 0%nat). symmetry. apply wadd_assoc.
Qed.

Theorem page_cells_total s a0 :
  fold_left (fun a p => fold_left wadd p a) (pages s) a0 = wadd a0 (total (page_cells s)).
Proof. rewrite pc_page_cells. apply pc_from_total. Qed.

(* ---- properties of the weights alone ---- *)
Lemma pc_row_Forall (P : W -> Prop) p b pg :
  Forall (fun kw => P (snd kw)) (pc_row p b pg) <-> Forall P pg.
Proof.
  revert b. induction pg as [|c pg IH]; intros b.
  - rewrite pc_row_nil. split; intros _; constructor.
  - rewrite pc_row_cons, !Forall_cons_iff, (IH (S b)). cbn [snd]. reflexivity.
Qed.
Lemma pc_from_Forall (P : W -> Prop) m a ps :
  Forall (fun kw => P (snd kw)) (pc_from m a ps) <-> Forall (Forall P) ps.
Proof.
  revert a. induction ps as [|pg ps IH]; intros a.
  - rewrite pc_from_nil. split; intros _; constructor.
  - rewrite pc_from_cons, Forall_app, Forall_cons_iff, (IH (S a)), pc_row_Forall. reflexivity.
Qed.

Theorem page_cells_nonneg s :
  (forall k j, (w0 <= at_ (pgat (pages s) k) j)%Qc) -> nonneg (page_cells s).
Proof.
  intros H. rewrite pc_page_cells. unfold nonneg.
  apply (pc_from_Forall (fun c => (w0 <= c)%Qc)).
  apply pc_Forall_pgat. intros k. apply pc_Forall_at. intros j. apply H.
Qed.

Lemma pc_forallb_Forall {A} (f : A -> bool) (P : A -> Prop) l :
  (forall x, f x = true <-> P x) -> (forallb f l = true <-> Forall P l).
Proof.
  intros Hf. induction l as [|x l IH].
  - cbn [forallb]. split; intros _; [constructor|reflexivity].
  - cbn [forallb]. rewrite andb_true_iff, Forall_cons_iff, IH, Hf. reflexivity.
Qed.

Theorem page_cells_forallb s :
  forallb (fun p => forallb (fun c => negb (wltb w0 c)) p) (pages s) = true <->
  Forall (fun kw => (snd kw <= w0)%Qc) (page_cells s).
Proof.
  rewrite pc_page_cells, (pc_from_Forall (fun c => (c <= w0)%Qc)).
  apply pc_forallb_Forall. intros pg. apply pc_forallb_Forall. intros c.
  rewrite negb_true_iff. apply wltb_ge.
Qed.

Lemma pc_from_all_nil m a ps : Forall (fun pg => pg = []) ps -> pc_from m a ps = [].
Proof.
  intros H. revert a. induction H as [|pg ps Hpg Hps IH]; intros a.
  - apply pc_from_nil.
  - rewrite pc_from_cons, IH, Hpg, pc_row_nil. reflexivity.
Qed.

Theorem page_cells_all_nil s : (forall k, pgat (pages s) k = []) -> page_cells s = [].
Proof.
  intros H. rewrite pc_page_cells. apply pc_from_all_nil.
  apply (pc_Forall_pgat (fun pg => pg = [])). exact H.
Qed.

(* ================================================================== *)
(** * ForEach loop: simulation of drain_below / take_eq over the sorted buffer *)
(* ================================================================== *)

(* ForEach of the paginated store, as a fold of an explicit step function *)
Definition fe_step (fuel : nat) (ab : list (Z * W) * list Z) (ic : Z * W) : list (Z * W) * list Z :=
  let '(acc, buf) := ab in let '(i, c) := ic in
  if weqb c w0 then (acc, buf) else
  let '(acc1, buf1) := drain_below fuel i buf acc in
  let '(n, buf2) := take_eq i buf1 in
  ((i, wadd c (w_of_Z n)) :: acc1, buf2).
Definition fe_run (fuel : nat) (cells : list (Z * W)) (sorted : list Z) : list (Z * W) :=
  let '(acc, buf) := fold_left (fe_step fuel) cells ([], sorted) in
  let '(acc2, _) := drain_below fuel (MaxInt64 + 1) buf acc in
  rev acc2.

Lemma p_foreach_fe_run (sort : list Z -> list Z) (s : pag) :
  p_foreach sort s = (with_buffer s (sort (buffer s)),
                      fe_run (S (length (sort (buffer s)))) (page_cells s) (sort (buffer s))).
Proof.
  unfold p_foreach, fe_run, fe_step.
  destruct (fold_left _ (page_cells s) ([], sort (buffer s))) as [acc buf].
  destruct (drain_below _ _ buf acc) as [acc2 b]. reflexivity.
Qed.

(* ---- suffixes of the buffer ---- *)
Definition fe_suffix (l r : list Z) : Prop := exists p, l = p ++ r.
Lemma fe_suffix_refl l : fe_suffix l l.
Proof. exists []. reflexivity. Qed.
Lemma fe_suffix_cons x l r : fe_suffix l r -> fe_suffix (x :: l) r.
Proof. intros [p ->]. exists (x :: p). reflexivity. Qed.
Lemma fe_suffix_trans a b c : fe_suffix a b -> fe_suffix b c -> fe_suffix a c.
Proof. intros [p ->] [q ->]. exists (p ++ q). apply app_assoc. Qed.
Lemma fe_suffix_length l r : fe_suffix l r -> (length r <= length l)%nat.
Proof. intros [p ->]. rewrite app_length. lia. Qed.
Lemma fe_suffix_Forall (P : Z -> Prop) l r : fe_suffix l r -> Forall P l -> Forall P r.
Proof. intros [p ->] H. apply Forall_app in H. apply H. Qed.
Lemma fe_suffix_ssorted l r : fe_suffix l r -> StronglySorted Z.le l -> StronglySorted Z.le r.
Proof.
  intros [p ->]. induction p as [|a p IH]; intros H; [exact H|].
  apply IH. cbn [app] in H. apply StronglySorted_inv in H. apply H.
Qed.

(* ---- lsum unfolding ---- *)
Lemma fe_lsum_nil j : lsum [] j = w0.
Proof. reflexivity. Qed.
Lemma fe_lsum_cons k w tl j : lsum ((k, w) :: tl) j = if j =? k then wadd w (lsum tl j) else lsum tl j.
Proof. unfold lsum. rewrite gsum_cons. reflexivity. Qed.
Lemma fe_lsum_rev acc i : lsum (rev acc) i = lsum acc i.
Proof. unfold lsum. apply gsum_perm. apply Permutation_sym, Permutation_rev. Qed.

(* ---- take_eq ---- *)
Lemma fe_take_eq_spec x l : forall n r, take_eq x l = (n, r) ->
  0 <= n /\ fe_suffix l r /\ (forall y tl, r = y :: tl -> y <> x) /\
  (forall i, cnt l i = wadd (if i =? x then w_of_Z n else w0) (cnt r i)).
Proof.
  induction l as [|y tl IH]; intros n r H.
  - cbn [take_eq] in H. injection H as <- <-. split; [lia|]. split; [apply fe_suffix_refl|].
    split; [intros y tl E; discriminate|].
    intros i. rewrite cnt_nil. destruct (i =? x); [rewrite w_of_Z_0|]; rewrite wadd_0_l; reflexivity.
  - cbn [take_eq] in H. destruct (Z.eqb_spec y x) as [E|E].
    + destruct (take_eq x tl) as [n' r'] eqn:Et. injection H as <- <-.
      destruct (IH n' r' eq_refl) as [H1 [H2 [H3 H4]]].
      split; [lia|]. split; [apply fe_suffix_cons; exact H2|]. split; [exact H3|].
      intros i. rewrite cnt_cons, H4. subst y. destruct (Z.eqb_spec i x) as [E'|E'].
      * rewrite w_of_Z_add, w_of_Z_1. wring.
      * wring.
    + injection H as <- <-. split; [lia|]. split; [apply fe_suffix_refl|].
      split; [intros y' tl' E'; injection E' as <- <-; exact E|].
      intros i. destruct (i =? x); [rewrite w_of_Z_0|]; rewrite wadd_0_l; reflexivity.
Qed.

Lemma fe_take_eq_gt x l n r :
  StronglySorted Z.le l -> Forall (fun y => x <= y) l -> take_eq x l = (n, r) ->
  Forall (fun y => x < y) r.
Proof.
  intros Hs Hf H. destruct (fe_take_eq_spec x l n r H) as [_ [Hsuf [Hne _]]].
  pose proof (fe_suffix_ssorted _ _ Hsuf Hs) as Hs'.
  pose proof (fe_suffix_Forall _ _ _ Hsuf Hf) as Hf'.
  destruct r as [|y tl]; [constructor|].
  specialize (Hne y tl eq_refl). apply Forall_inv in Hf'.
  apply StronglySorted_inv in Hs'. destruct Hs' as [_ Hs2].
  constructor; [lia|]. eapply Forall_impl; [|exact Hs2]. intros a Ha. cbn beta in Ha. lia.
Qed.

Lemma fe_take_eq_head x tl n r : take_eq x (x :: tl) = (n, r) -> 1 <= n /\ fe_suffix tl r.
Proof.
  intros H. cbn [take_eq] in H. rewrite Z.eqb_refl in H.
  destruct (take_eq x tl) as [n' r'] eqn:Et. injection H as <- <-.
  destruct (fe_take_eq_spec x tl n' r' Et) as [H1 [H2 _]]. split; [lia|exact H2].
Qed.

(* ---- the accumulator: keys strictly descending, below hi, no zero weight ---- *)
Fixpoint fe_desc (hi : Z) (acc : list (Z * W)) : Prop :=
  match acc with
  | [] => True
  | kw :: tl => fst kw < hi /\ snd kw <> w0 /\ fe_desc (fst kw) tl
  end.
Lemma fe_desc_weaken hi hi' acc : hi <= hi' -> fe_desc hi acc -> fe_desc hi' acc.
Proof.
  destruct acc as [|[k w] tl]; intros H D; [exact I|].
  cbn [fe_desc fst snd] in *. destruct D as [D1 [D2 D3]]. split; [lia|]. split; assumption.
Qed.
Lemma fe_desc_rev_append acc : forall hi suf,
  fe_desc hi acc -> (forall lo, lo < hi -> keys_above lo suf = true) -> wf (rev_append acc suf) = true.
Proof.
  induction acc as [|[k w] tl IH]; intros hi suf D Hs.
  - cbn [rev_append]. apply (keys_above_wf (hi - 1)). apply Hs. lia.
  - cbn [rev_append]. cbn [fe_desc fst snd] in D. destruct D as [D1 [D2 D3]].
    apply (IH k); [exact D3|]. intros lo Hlo. apply keys_above_cons.
    split; [exact Hlo|]. split; [exact D2|]. apply Hs. exact D1.
Qed.
Lemma fe_desc_wf_rev hi acc : fe_desc hi acc -> wf (rev acc) = true.
Proof.
  intros D. rewrite rev_alt. apply (fe_desc_rev_append acc hi []); [exact D|].
  intros lo _. reflexivity.
Qed.
Lemma fe_desc_get_rev hi acc i : fe_desc hi acc -> get (rev acc) i = lsum acc i.
Proof.
  intros D. rewrite <- lsum_get by (eapply fe_desc_wf_rev; exact D). apply fe_lsum_rev.
Qed.

Lemma fe_asc_weaken lo lo' l : lo' <= lo -> asc lo l -> asc lo' l.
Proof.
  destruct l as [|kw tl]; intros H A; [exact I|].
  cbn [asc] in *. destruct A as [A1 A2]. split; [lia|exact A2].
Qed.

(* ---- drain_below ---- *)
Lemma fe_drain_S_cons f lim x tl acc :
  drain_below (S f) lim (x :: tl) acc =
  if x <? lim then let (n, r) := take_eq x (x :: tl) in drain_below f lim r ((x, w_of_Z n) :: acc)
  else (acc, x :: tl).
Proof. reflexivity. Qed.
Lemma fe_drain_nil f lim acc : drain_below f lim [] acc = (acc, []).
Proof. destruct f; reflexivity. Qed.

Lemma fe_drain_spec lim : forall fuel buf acc hi acc' buf',
  fe_desc hi acc -> StronglySorted Z.le buf -> Forall (fun x => hi <= x) buf ->
  (length buf < fuel)%nat ->
  drain_below fuel lim buf acc = (acc', buf') ->
  fe_desc (Z.max hi lim) acc' /\ Forall (fun x => Z.max hi lim <= x) buf' /\ fe_suffix buf buf' /\
  forall i, wadd (lsum acc' i) (cnt buf' i) = wadd (lsum acc i) (cnt buf i).
Proof.
  induction fuel as [|f IH]; intros buf acc hi acc' buf' D Hs Hf Hl H; [lia|].
  destruct buf as [|x tl].
  - rewrite fe_drain_nil in H. injection H as <- <-.
    split; [apply (fe_desc_weaken hi); [lia|exact D]|]. split; [constructor|].
    split; [apply fe_suffix_refl|]. intros i. reflexivity.
  - rewrite fe_drain_S_cons in H.
    pose proof (Forall_inv Hf) as Hhx. cbn beta in Hhx.
    pose proof (StronglySorted_inv Hs) as [Hs1 Hs2].
    destruct (Z.ltb_spec x lim) as [Hx|Hx].
    + destruct (take_eq x (x :: tl)) as [n r] eqn:Et.
      destruct (fe_take_eq_spec _ _ _ _ Et) as [_ [Hsuf [_ Hc]]].
      destruct (fe_take_eq_head _ _ _ _ Et) as [Hn Hsuf'].
      assert (Hfx : Forall (fun y => x <= y) (x :: tl)).
      { constructor; [lia|exact Hs2]. }
      pose proof (fe_take_eq_gt _ _ _ _ Hs Hfx Et) as Hgt.
      pose proof (fe_suffix_length _ _ Hsuf') as Hlen. cbn [length] in Hl.
      assert (D1 : fe_desc (x + 1) ((x, w_of_Z n) :: acc)).
      { cbn [fe_desc fst snd]. split; [lia|]. split; [apply wpos_neq, w_of_Z_pos; lia|].
        apply (fe_desc_weaken hi); [lia|exact D]. }
      assert (F1 : Forall (fun y => x + 1 <= y) r).
      { eapply Forall_impl; [|exact Hgt]. intros a Ha. cbn beta in Ha. lia. }
      assert (L1 : (length r < f)%nat) by lia.
      destruct (IH r ((x, w_of_Z n) :: acc) (x + 1) acc' buf' D1 (fe_suffix_ssorted _ _ Hsuf Hs) F1 L1 H)
        as [D' [F' [S' C']]].
      replace (Z.max hi lim) with (Z.max (x + 1) lim) by lia.
      split; [exact D'|]. split; [exact F'|]. split; [exact (fe_suffix_trans _ _ _ Hsuf S')|].
      intros i. rewrite C', fe_lsum_cons, (Hc i). destruct (i =? x); wring.
    + injection H as <- <-.
      split; [apply (fe_desc_weaken hi); [lia|exact D]|].
      split.
      * constructor; [lia|]. eapply Forall_impl; [|exact Hs2]. intros a Ha. cbn beta in Ha. lia.
      * split; [apply fe_suffix_refl|]. intros i. reflexivity.
Qed.

(* ---- one cell ---- *)
Lemma fe_step_spec fuel hi acc buf i c acc' buf' :
  fe_desc hi acc -> StronglySorted Z.le buf -> Forall (fun x => hi <= x) buf ->
  (length buf < fuel)%nat -> hi - 1 < i -> (w0 <= c)%Qc ->
  fe_step fuel (acc, buf) (i, c) = (acc', buf') ->
  exists hi', hi' <= i + 1 /\ fe_desc hi' acc' /\ Forall (fun x => hi' <= x) buf' /\ fe_suffix buf buf' /\
  forall j, wadd (lsum acc' j) (cnt buf' j) =
            wadd (wadd (lsum acc j) (cnt buf j)) (if j =? i then c else w0).
Proof.
  intros D Hs Hf Hl Hi Hc H. unfold fe_step in H. cbv beta iota zeta in H.
  destruct (weqb_spec c w0) as [E|E].
  - injection H as <- <-. exists hi. split; [lia|]. split; [exact D|]. split; [exact Hf|].
    split; [apply fe_suffix_refl|]. intros j. subst c. destruct (j =? i); wring.
  - destruct (drain_below fuel i buf acc) as [acc1 buf1] eqn:Ed.
    destruct (take_eq i buf1) as [n buf2] eqn:Et. injection H as <- <-.
    destruct (fe_drain_spec i fuel buf acc hi acc1 buf1 D Hs Hf Hl Ed) as [D1 [F1 [S1 C1]]].
    replace (Z.max hi i) with i in D1, F1 by lia.
    pose proof (fe_suffix_ssorted _ _ S1 Hs) as Hs1.
    destruct (fe_take_eq_spec _ _ _ _ Et) as [Hn [S2 [_ C2]]].
    pose proof (fe_take_eq_gt _ _ _ _ Hs1 F1 Et) as Hgt.
    pose proof (w_of_Z_nonneg n Hn) as Hwn.
    exists (i + 1). split; [lia|]. split.
    { cbn [fe_desc fst snd]. split; [lia|]. split; [|exact D1]. wlra. }
    split.
    { eapply Forall_impl; [|exact Hgt]. intros a Ha. cbn beta in Ha. lia. }
    split; [exact (fe_suffix_trans _ _ _ S1 S2)|].
    intros j. rewrite <- C1, (C2 j), fe_lsum_cons. destruct (j =? i); wring.
Qed.

(* ---- all cells ---- *)
Lemma fe_fold_spec fuel : forall cells hi acc buf acc' buf',
  fe_desc hi acc -> StronglySorted Z.le buf -> Forall (fun x => hi <= x) buf ->
  (length buf < fuel)%nat -> asc (hi - 1) cells -> nonneg cells ->
  fold_left (fe_step fuel) cells (acc, buf) = (acc', buf') ->
  exists hi', fe_desc hi' acc' /\ Forall (fun x => hi' <= x) buf' /\ fe_suffix buf buf' /\
  forall j, wadd (lsum acc' j) (cnt buf' j) = wadd (wadd (lsum acc j) (cnt buf j)) (lsum cells j).
Proof.
  induction cells as [|[i c] rest IH]; intros hi acc buf acc' buf' D Hs Hf Hl A N H.
  - cbn [fold_left] in H. injection H as <- <-. exists hi. split; [exact D|]. split; [exact Hf|].
    split; [apply fe_suffix_refl|]. intros j. rewrite fe_lsum_nil. wring.
  - cbn [fold_left] in H. destruct (fe_step fuel (acc, buf) (i, c)) as [acc1 buf1] eqn:Es.
    cbn [asc fst] in A. destruct A as [A1 A2]. apply nonneg_cons in N. destruct N as [N1 N2].
    destruct (fe_step_spec fuel hi acc buf i c acc1 buf1 D Hs Hf Hl A1 N1 Es)
      as [hi1 [Hh [D1 [F1 [S1 C1]]]]].
    pose proof (fe_suffix_length _ _ S1) as Hlen.
    assert (L1 : (length buf1 < fuel)%nat) by lia.
    assert (A3 : asc (hi1 - 1) rest) by (apply (fe_asc_weaken i); [lia|exact A2]).
    destruct (IH hi1 acc1 buf1 acc' buf' D1 (fe_suffix_ssorted _ _ S1 Hs) F1 L1 A3 N2 H)
      as [hi' [D' [F' [S' C']]]].
    exists hi'. split; [exact D'|]. split; [exact F'|].
    split; [exact (fe_suffix_trans _ _ _ S1 S')|].
    intros j. rewrite C', C1, fe_lsum_cons. destruct (j =? i); wring.
Qed.

Lemma fe_init_bound lo sorted :
  StronglySorted Z.le sorted -> exists hi, hi <= lo + 1 /\ Forall (fun x => hi <= x) sorted.
Proof.
  intros Hs. destruct sorted as [|x tl].
  - exists (lo + 1). split; [lia|constructor].
  - apply StronglySorted_inv in Hs. destruct Hs as [_ Hs2].
    exists (Z.min (lo + 1) x). split; [lia|]. constructor; [lia|].
    eapply Forall_impl; [|exact Hs2]. intros a Ha. cbn beta in Ha. lia.
Qed.

Theorem fe_run_spec (fuel : nat) (cells : list (Z * W)) (sorted : list Z) (lo : Z) :
  Sorted Z.le sorted -> (length sorted < fuel)%nat -> asc lo cells -> nonneg cells ->
  Forall (fun x => x <= MaxInt64) sorted ->
  wf (fe_run fuel cells sorted) = true /\
  forall i, get (fe_run fuel cells sorted) i = wadd (cnt sorted i) (lsum cells i).
Proof.
  intros Hsd Hl A N HM. unfold fe_run.
  destruct (fold_left (fe_step fuel) cells ([], sorted)) as [acc buf] eqn:Ef.
  destruct (drain_below fuel (MaxInt64 + 1) buf acc) as [acc2 buf2] eqn:Ed.
  assert (Hs : StronglySorted Z.le sorted).
  { apply Sorted_StronglySorted; [intros a b c; apply Z.le_trans|exact Hsd]. }
  destruct (fe_init_bound lo sorted Hs) as [hi [Hhi F0]].
  assert (A0 : asc (hi - 1) cells) by (apply (fe_asc_weaken lo); [lia|exact A]).
  destruct (fe_fold_spec fuel cells hi [] sorted acc buf I Hs F0 Hl A0 N Ef)
    as [hi1 [D1 [F1 [S1 C1]]]].
  pose proof (fe_suffix_length _ _ S1) as Hlen.
  assert (L1 : (length buf < fuel)%nat) by lia.
  destruct (fe_drain_spec (MaxInt64 + 1) fuel buf acc hi1 acc2 buf2 D1 (fe_suffix_ssorted _ _ S1 Hs) F1 L1 Ed)
    as [D2 [F2 [S2 C2]]].
  pose proof (fe_suffix_Forall _ _ _ (fe_suffix_trans _ _ _ S1 S2) HM) as HM2.
  assert (E2 : buf2 = []).
  { destruct buf2 as [|y tl]; [reflexivity|]. exfalso.
    apply Forall_inv in HM2. apply Forall_inv in F2. cbn beta in HM2, F2. lia. }
  subst buf2. split; [eapply fe_desc_wf_rev; exact D2|].
  intros i. rewrite (fe_desc_get_rev _ _ i D2).
  specialize (C1 i). specialize (C2 i). rewrite cnt_nil in C2. rewrite fe_lsum_nil in C1.
  rewrite wadd_0_r in C2. rewrite C2, C1. wring.
Qed.

(* ================================================================== *)
(** * Abstraction to Layer A                                           *)
(* ================================================================== *)

Definition unit_bins (b : list Z) : list (Z * W) := map (fun i => (i, w1)) b.
Definition pabs (s : pag) : bins := bins_of_list (unit_bins (buffer s) ++ page_cells s).

Lemma lsum_unit_bins b i : lsum (unit_bins b) i = cnt b i.
Proof.
  induction b as [|x b IH]; [reflexivity|].
  cbn [unit_bins map]. fold (unit_bins b). rewrite pc_lsum_cons, cnt_cons, IH.
  destruct (i =? x); [apply wadd_comm|rewrite wadd_0_r; reflexivity].
Qed.
Lemma nonneg_unit_bins b : nonneg (unit_bins b).
Proof.
  induction b as [|x b IH]; [constructor|].
  cbn [unit_bins map]. apply nonneg_cons. split; [wlra|exact IH].
Qed.
Lemma total_unit_bins b : total (unit_bins b) = w_of_nat (length b).
Proof.
  induction b as [|x b IH]; [reflexivity|].
  cbn [unit_bins map length]. fold (unit_bins b). rewrite total_cons, IH, w_of_nat_S. apply wadd_comm.
Qed.
Lemma nonneg_app a b : nonneg a -> nonneg b -> nonneg (a ++ b).
Proof. intros Ha Hb. unfold nonneg in *. apply Forall_app. split; assumption. Qed.

Lemma PInv_le32 s : PInv s -> pages_le32 (pages s).
Proof. intros H k. apply pg_ok_len_le. apply (inv_pg s H). Qed.
Lemma nonneg_cells s : PInv s -> nonneg (page_cells s).
Proof. intros H. apply page_cells_nonneg. intros k j. apply (inv_pg s H). Qed.
Lemma lsum_cells s i : PInv s -> lsum (page_cells s) i = cell s i.
Proof. intros H. apply page_cells_lsum. apply PInv_le32. exact H. Qed.
Lemma nonneg_raw s : PInv s -> nonneg (unit_bins (buffer s) ++ page_cells s).
Proof. intros H. apply nonneg_app; [apply nonneg_unit_bins|apply nonneg_cells; exact H]. Qed.

Theorem wf_pabs s : PInv s -> wf (pabs s) = true.
Proof. intros H. apply wf_bins_of_list. apply nonneg_raw. exact H. Qed.
Theorem pos_pabs s : PInv s -> pos (pabs s).
Proof. intros H. apply pos_bins_of_list. apply nonneg_raw. exact H. Qed.
Theorem get_pabs s i : PInv s -> get (pabs s) i = pget s i.
Proof.
  intros H. unfold pabs. rewrite get_bins_of_list by (apply nonneg_raw; exact H).
  rewrite pc_lsum_app, lsum_unit_bins, lsum_cells by exact H. reflexivity.
Qed.

Theorem pabs_ext s s' : PInv s -> PInv s' -> (forall i, pget s' i = pget s i) -> pabs s' = pabs s.
Proof.
  intros H H' Hg. apply bins_ext; [apply wf_pabs; exact H'|apply wf_pabs; exact H|].
  intros i. rewrite !get_pabs by assumption. apply Hg.
Qed.
Theorem pabs_nil_iff s : PInv s -> (pabs s = [] <-> forall i, pget s i = w0).
Proof.
  intros H. split.
  - intros E i. rewrite <- get_pabs by exact H. rewrite E. reflexivity.
  - intros Hg. apply bins_ext; [apply wf_pabs; exact H|reflexivity|].
    intros i. rewrite get_pabs by exact H. rewrite Hg. reflexivity.
Qed.
Theorem pabs_badd0 s s' i c :
  PInv s -> PInv s' -> (w0 <= c)%Qc ->
  (forall j, pget s' j = wadd (pget s j) (if j =? i then c else w0)) ->
  pabs s' = badd0 (pabs s) i c.
Proof.
  intros H H' Hc Hg. apply bins_ext.
  - apply wf_pabs; exact H'.
  - apply wf_badd0; [apply wf_pabs|apply pos_pabs|]; assumption.
  - intros j. rewrite get_badd0 by (apply wf_pabs; exact H). rewrite !get_pabs by assumption.
    rewrite Hg. destruct (j =? i); [reflexivity|apply wadd_0_r].
Qed.

Theorem pabs_new : pabs new_pag = [].
Proof. reflexivity. Qed.
Theorem pabs_clear s : PInv s -> pabs (p_clear s) = [].
Proof.
  intros H. apply (pabs_nil_iff _ (PInv_clear s H)). intros i. apply pget_clear.
Qed.

(* ================================================================== *)
(** * 7a. TotalCount, IsEmpty                                          *)
(* ================================================================== *)

Theorem p_total_spec s : p_total s = total (pabs s).
Proof.
  unfold p_total, pabs. rewrite page_cells_total, total_bins_of_list, total_app, total_unit_bins.
  reflexivity.
Qed.

Lemma total0_all0 l : nonneg l -> total l = w0 -> Forall (fun kw => snd kw = w0) l.
Proof.
  induction l as [|[k w] tl IH]; intros Hn Ht; [constructor|].
  apply nonneg_cons in Hn. destruct Hn as [Hw Hn]. rewrite total_cons in Ht.
  destruct (wnonneg_add_eq0 w (total tl) Hw (total_nonneg tl Hn) Ht) as [E1 E2].
  constructor; [exact E1|apply IH; assumption].
Qed.
Lemma all_le0_lsum l i : nonneg l -> Forall (fun kw => (snd kw <= w0)%Qc) l -> lsum l i = w0.
Proof.
  induction l as [|[k w] tl IH]; intros Hn Hl; [reflexivity|].
  apply nonneg_cons in Hn. destruct Hn as [Hw Hn]. inversion Hl as [|kw tl' Hw' Hl']; subst kw tl'.
  cbn [snd] in Hw'. rewrite pc_lsum_cons, (IH Hn Hl').
  destruct (i =? k); [|reflexivity]. wlra.
Qed.

Theorem p_is_empty_spec s : PInv s -> p_is_empty s = is_emptyb (pabs s).
Proof.
  intros H. unfold p_is_empty. destruct (buffer s) as [|x b] eqn:Eb.
  - destruct (forallb (fun p => forallb (fun c => negb (wltb w0 c)) p) (pages s)) eqn:Ef.
    + apply page_cells_forallb in Ef. symmetry. apply is_emptyb_iff.
      apply (pabs_nil_iff s H). intros i. unfold pget. rewrite Eb, cnt_nil, wadd_0_l.
      rewrite <- lsum_cells by exact H. apply all_le0_lsum; [apply nonneg_cells; exact H|exact Ef].
    + symmetry. destruct (pabs s) as [|kw tl] eqn:Ea; [|reflexivity]. exfalso.
      assert (Ht : total (page_cells s) = w0).
      { pose proof (p_total_spec s) as Ht. rewrite Ea in Ht. unfold p_total in Ht.
        rewrite Eb, page_cells_total in Ht. cbn [length] in Ht. rewrite w_of_nat_0, wadd_0_l in Ht.
        exact Ht. }
      pose proof (total0_all0 _ (nonneg_cells s H) Ht) as Hz.
      assert (Hle : Forall (fun kw => (snd kw <= w0)%Qc) (page_cells s)).
      { eapply Forall_impl; [|exact Hz]. intros [k w] E. cbn [snd] in *. subst w. wlra. }
      apply page_cells_forallb in Hle. congruence.
  - symmetry. destruct (pabs s) as [|kw tl] eqn:Ea; [|reflexivity]. exfalso.
    pose proof (get_pabs s x H) as Hg. rewrite Ea in Hg. cbn [get] in Hg.
    unfold pget in Hg. rewrite Eb in Hg.
    assert (Hc : (w0 < cnt (x :: b) x)%Qc) by (apply cnt_in_pos; left; reflexivity).
    pose proof (cell_nonneg s x H) as Hn. wlra.
Qed.

(* ================================================================== *)
(** * 6. ForEach / Bins                                                *)
(* ================================================================== *)

Lemma idx_ok_le_max l : Forall idx_ok l -> Forall (fun x => x <= MaxInt64) l.
Proof.
  intros H. eapply Forall_impl; [|exact H]. intros x Hx. cbv beta.
  unfold idx_ok, MinInt32, MaxInt32 in Hx. unfold MaxInt64. lia.
Qed.

Theorem p_foreach_spec sort s :
  sort_ok sort -> PInv s ->
  p_foreach sort s = (with_buffer s (sort (buffer s)), pabs s) /\
  PInv (with_buffer s (sort (buffer s))) /\
  (forall i, pget (with_buffer s (sort (buffer s))) i = pget s i) /\
  pabs (with_buffer s (sort (buffer s))) = pabs s.
Proof.
  intros Hs H.
  assert (Hsorted : Forall idx_ok (sort (buffer s))) by (apply sort_idx_ok; [exact Hs|apply (inv_buf s H)]).
  destruct (with_buffer_spec s _ H Hsorted) as [W1 W2].
  assert (Hg : forall i, pget (with_buffer s (sort (buffer s))) i = pget s i).
  { intros i. unfold pget. rewrite W2. cbn [with_buffer buffer]. rewrite (cnt_sort sort _ i Hs). reflexivity. }
  split; [|split; [exact W1|split; [exact Hg|apply pabs_ext; assumption]]].
  rewrite p_foreach_fe_run. f_equal.
  destruct (page_cells_asc s (PInv_le32 s H)) as [lo Hasc].
  destruct (fe_run_spec (S (length (sort (buffer s)))) (page_cells s) (sort (buffer s)) lo) as [F1 F2].
  - apply Hs.
  - lia.
  - exact Hasc.
  - apply nonneg_cells. exact H.
  - apply idx_ok_le_max. exact Hsorted.
  - apply bins_ext; [exact F1|apply wf_pabs; exact H|].
    intros i. rewrite F2, get_pabs by exact H. unfold pget.
    rewrite (cnt_sort sort _ i Hs), lsum_cells by exact H. reflexivity.
Qed.

(* ================================================================== *)
(** * 7b. MinIndex, MaxIndex, KeyAtRank (as modelled: through the merged scan) *)
(* ================================================================== *)

Theorem p_min_spec sort s : sort_ok sort -> PInv s -> p_min sort s = min_key (pabs s).
Proof.
  intros Hs H. unfold p_min. destruct (p_foreach_spec sort s Hs H) as [E _]. rewrite E. reflexivity.
Qed.
Theorem p_max_spec sort s : sort_ok sort -> PInv s -> p_max sort s = max_key (pabs s).
Proof.
  intros Hs H. unfold p_max. destruct (p_foreach_spec sort s Hs H) as [E _]. rewrite E. reflexivity.
Qed.

Definition kar_go (rank : W) : bins -> W -> option Z :=
  fix go (l : bins) (n : W) : option Z :=
  match l with
  | [] => None
  | (k, w) :: tl => let n' := wadd n w in if wltb rank n' then Some k else go tl n'
  end.
Lemma kar_go_nil rank n : kar_go rank [] n = None.
Proof. reflexivity. Qed.
Lemma kar_go_cons rank k w tl n :
  kar_go rank ((k, w) :: tl) n = if wltb rank (wadd n w) then Some k else kar_go rank tl (wadd n w).
Proof. reflexivity. Qed.
Definition kar_pick (rank : W) (l : bins) : Z :=
  match kar_go rank l w0 with
  | Some k => k
  | None => match max_key l with Some k => k | None => 0 end
  end.
Lemma p_key_at_rank_unfold sort s rank :
  p_key_at_rank sort s rank =
  (fst (p_foreach sort s), kar_pick (if wltb rank w0 then w0 else rank) (snd (p_foreach sort s))).
Proof.
  unfold p_key_at_rank. destruct (p_foreach sort s) as [s' l]. reflexivity.
Qed.
Lemma kar_go_karf rank l : forall n, l <> [] ->
  key_at_rank_from n l rank =
  Some (match kar_go rank l n with
        | Some k => k
        | None => match max_key l with Some k => k | None => 0 end
        end).
Proof.
  induction l as [|[k w] tl IH]; intros n Hne; [contradiction|].
  destruct tl as [|[k2 w2] tl].
  - rewrite karf_single, kar_go_cons, kar_go_nil, max_key_single.
    destruct (wltb rank (wadd n w)); reflexivity.
  - rewrite karf_cons2, kar_go_cons.
    destruct (wltb rank (wadd n w)); [reflexivity|].
    rewrite max_key_cons2. apply IH. discriminate.
Qed.
Lemma key_at_rank_0 b : pos b -> key_at_rank b w0 = min_key b.
Proof.
  intros Hp. destruct b as [|[k w] tl]; [reflexivity|].
  apply pos_cons in Hp. destruct Hp as [Hw _].
  destruct tl as [|[k2 w2] tl]; [reflexivity|].
  unfold key_at_rank. rewrite karf_cons2.
  destruct (wltb_spec w0 (wadd w0 w)) as [Hlt|Hge]; [reflexivity|]. exfalso. apply Hge. wlra.
Qed.

Theorem p_key_at_rank_spec sort s r :
  sort_ok sort -> PInv s ->
  let s' := fst (p_key_at_rank sort s r) in
  let k := snd (p_key_at_rank sort s r) in
  PInv s' /\ (forall i, pget s' i = pget s i) /\ pabs s' = pabs s /\
  (pabs s <> [] -> key_at_rank (pabs s) r = Some k) /\
  (pabs s = [] -> k = 0).
Proof.
  intros Hs H. cbv zeta. rewrite p_key_at_rank_unfold.
  destruct (p_foreach_spec sort s Hs H) as [E [W1 [W2 W3]]]. rewrite E. cbn [fst snd].
  split; [exact W1|]. split; [exact W2|]. split; [exact W3|]. split.
  - intros Hne. unfold kar_pick.
    rewrite <- (kar_go_karf _ (pabs s) w0 Hne). fold (key_at_rank (pabs s) (if wltb r w0 then w0 else r)).
    destruct (wltb_spec r w0) as [Hneg|Hpos]; [|reflexivity].
    rewrite key_at_rank_0, key_at_rank_neg by (try exact Hneg; apply pos_pabs; exact H). reflexivity.
  - intros Ee. rewrite Ee. reflexivity.
Qed.

(* ================================================================== *)
(** * 8. Bulk operations                                               *)
(* ================================================================== *)

Definition adds_ok (l : list (Z * W)) : Prop :=
  Forall (fun kw => idx_ok (fst kw) /\ (w0 <= snd kw)%Qc) l.
Lemma adds_ok_nonneg l : adds_ok l -> nonneg l.
Proof. intros H. eapply Forall_impl; [|exact H]. intros kw [_ Hc]. exact Hc. Qed.
Lemma adds_ok_unit l : Forall idx_ok l -> adds_ok (unit_bins l).
Proof.
  induction l as [|x l IH]; intros H; [constructor|].
  inversion H as [|x' l' Hx Hl]; subst x' l'. cbn [unit_bins map]. constructor; [|apply IH; exact Hl].
  cbn [fst snd]. split; [exact Hx|wlra].
Qed.

(* decidable version, for concrete instances *)
Definition adds_okb (l : list (Z * W)) : bool :=
  forallb (fun kw => idx_okb (fst kw) && wleb w0 (snd kw)) l.
Lemma adds_okb_sound l : adds_okb l = true -> adds_ok l.
Proof.
  unfold adds_okb, adds_ok. rewrite forallb_forall, Forall_forall. intros H kw Hin.
  specialize (H kw Hin). apply andb_true_iff in H. destruct H as [H1 H2]. split.
  - unfold idx_okb in H1. apply andb_true_iff in H1. destruct H1 as [A B].
    apply Z.leb_le in A. apply Z.leb_le in B. split; assumption.
  - apply wleb_le. exact H2.
Qed.

Section Ops.
Variable pgrow : Z -> Z.
Variable worth : Z -> bool.
Variable full : pag -> bool.
Variable sort : list Z -> list Z.
Hypothesis Hgrow : pgrow_ok pgrow.
Hypothesis Hsort : sort_ok sort.

Theorem p_add_with_count_abs s i c :
  PInv s -> idx_ok i -> (w0 <= c)%Qc ->
  PInv (p_add_with_count pgrow worth full sort s i c) /\
  pabs (p_add_with_count pgrow worth full sort s i c) = badd0 (pabs s) i c.
Proof.
  intros H Hi Hc.
  destruct (p_add_with_count_spec pgrow worth full sort s i c Hgrow Hsort H Hi Hc) as [H' Hg].
  split; [exact H'|]. apply pabs_badd0; assumption.
Qed.
Theorem p_add_abs s i :
  PInv s -> idx_ok i ->
  PInv (p_add pgrow worth full sort s i) /\ pabs (p_add pgrow worth full sort s i) = badd (pabs s) i w1.
Proof.
  intros H Hi. destruct (p_add_spec pgrow worth full sort s i Hgrow Hsort H Hi) as [H' Hg].
  split; [exact H'|]. rewrite <- badd0_nz by (apply wpos_neq; apply w1_pos).
  apply pabs_badd0; try assumption. wlra.
Qed.
Theorem compact_abs s :
  PInv s -> PInv (compact pgrow worth sort s) /\ pabs (compact pgrow worth sort s) = pabs s.
Proof.
  intros H. destruct (compact_spec pgrow worth sort s Hgrow Hsort H) as [H' Hg].
  split; [exact H'|]. apply pabs_ext; assumption.
Qed.

(* MergeWith, fallback path, and MergeWithProto: a sequence of AddWithCount *)
Theorem p_merge_list_spec l : forall s,
  PInv s -> adds_ok l ->
  PInv (p_merge_list pgrow worth full sort s l) /\
  pabs (p_merge_list pgrow worth full sort s l) = bmerge_list (pabs s) l.
Proof.
  induction l as [|[k c] l IH]; intros s H Hl; [split; [exact H|reflexivity]|].
  inversion Hl as [|kw l' [Hk Hc] Hl']; subst kw l'. cbn [fst snd] in Hk, Hc.
  unfold p_merge_list. cbn [fold_left fst snd].
  destruct (p_add_with_count_abs s k c H Hk Hc) as [H1 E1].
  destruct (IH _ H1 Hl') as [H2 E2]. unfold p_merge_list in H2, E2.
  split; [exact H2|]. rewrite E2, E1. reflexivity.
Qed.

(* Clear, and "a cleared store behaves as a new one" *)
Theorem p_clear_spec s : PInv s -> PInv (p_clear s) /\ pabs (p_clear s) = [].
Proof. intros H. split; [apply PInv_clear; exact H|apply pabs_clear; exact H]. Qed.
Theorem clear_like_new s l :
  PInv s -> adds_ok l ->
  PInv (p_merge_list pgrow worth full sort (p_clear s) l) /\
  PInv (p_merge_list pgrow worth full sort new_pag l) /\
  pabs (p_merge_list pgrow worth full sort (p_clear s) l) =
  pabs (p_merge_list pgrow worth full sort new_pag l).
Proof.
  intros H Hl.
  destruct (p_merge_list_spec l _ (PInv_clear s H) Hl) as [A1 A2].
  destruct (p_merge_list_spec l _ PInv_new Hl) as [B1 B2].
  split; [exact A1|]. split; [exact B1|]. rewrite A2, B2, pabs_clear by exact H. reflexivity.
Qed.

(* ---- Reweight ---- *)
Lemma fold_adds_w w l : (w0 <= w)%Qc -> forall s,
  PInv s -> Forall idx_ok l ->
  let s' := fold_left (fun acc i => p_add_with_count pgrow worth full sort acc i w) l s in
  PInv s' /\ forall j, pget s' j = wadd (pget s j) (wmul (cnt l j) w).
Proof.
  intros Hw. induction l as [|x l IH]; intros s H Hl; cbv zeta.
  - cbn [fold_left]. split; [exact H|]. intros j. rewrite cnt_nil, wmul_0_l, wadd_0_r. reflexivity.
  - inversion Hl as [|x' l' Hx Hl']; subst x' l'. cbn [fold_left].
    destruct (p_add_with_count_spec pgrow worth full sort s x w Hgrow Hsort H Hx Hw) as [H1 G1].
    destruct (IH _ H1 Hl') as [H2 G2]. split; [exact H2|].
    intros j. rewrite G2, G1, cnt_cons. destruct (j =? x); wring.
Qed.

Definition scaled (s : pag) (w : W) : pag :=
  {| buffer := []; trigger := trigger s; pages := map (map (fun c => wmul c w)) (pages s); minPage := minPage s |}.
Lemma pgat_scaled s w k : pgat (pages (scaled s w)) k = map (fun c => wmul c w) (pgat (pages s) k).
Proof. cbn [scaled pages]. apply (pgat_map (map (fun c => wmul c w))). reflexivity. Qed.
Lemma at_scaled pg w j : at_ (map (fun c => wmul c w) pg) j = wmul (at_ pg j) w.
Proof. apply (at_map (fun c => wmul c w)). apply wmul_0_l. Qed.
Lemma scaled_spec s w :
  PInv s -> (w0 < w)%Qc -> PInv (scaled s w) /\ forall j, pget (scaled s w) j = wmul (cell s j) w.
Proof.
  intros H Hw. split.
  - constructor.
    + intros k. rewrite pgat_scaled. destruct (inv_pg s H k) as [Hl Hn]. split.
      * destruct Hl as [E|E]; [left; rewrite E; reflexivity|right; rewrite zlen_map; exact E].
      * intros j. rewrite at_scaled. apply wnonneg_mul; [apply Hn|apply wpos_nonneg; exact Hw].
    + intros k Hk. rewrite pgat_scaled in Hk. apply (inv_alloc s H k).
      intros E. apply Hk. rewrite E. reflexivity.
    + constructor.
    + intros E k. rewrite pgat_scaled. cbn [scaled minPage] in E. rewrite (inv_sent s H E k). reflexivity.
    + intros E. cbn [scaled minPage pages] in *. rewrite zlen_map. apply (inv_bnd s H E).
    + cbn [scaled pages]. rewrite zlen_map. apply (inv_plen s H).
  - intros j. unfold pget, cell. rewrite pgat_scaled, at_scaled. cbn [scaled buffer minPage].
    rewrite cnt_nil, wadd_0_l. reflexivity.
Qed.

Theorem p_reweight_refused s w : (w <= w0)%Qc -> p_reweight pgrow worth full sort s w = None.
Proof. intros Hw. unfold p_reweight. apply wleb_le in Hw. rewrite Hw. reflexivity. Qed.
Theorem p_reweight_one s : p_reweight pgrow worth full sort s w1 = Some s.
Proof.
  unfold p_reweight. destruct (wleb_spec w1 w0) as [Hle|_]; [exfalso; wlra|].
  rewrite weqb_refl. reflexivity.
Qed.
Theorem p_reweight_spec s w :
  PInv s -> (w0 < w)%Qc ->
  exists s', p_reweight pgrow worth full sort s w = Some s' /\ PInv s' /\ pabs s' = bscale w (pabs s).
Proof.
  intros H Hw. unfold p_reweight.
  destruct (wleb_spec w w0) as [Hle|_]; [exfalso; wlra|].
  destruct (weqb_spec w w1) as [E1|E1].
  - subst w. exists s. split; [reflexivity|]. split; [exact H|]. rewrite bscale_1. reflexivity.
  - fold (scaled s w). destruct (scaled_spec s w H Hw) as [S1 S2].
    destruct (fold_adds_w w (buffer s) (wpos_nonneg w Hw) _ S1 (inv_buf s H)) as [F1 F2].
    eexists. split; [reflexivity|]. split; [exact F1|].
    apply bins_ext; [apply wf_pabs; exact F1|apply wf_bscale; [exact Hw|apply wf_pabs; exact H]|].
    intros j. rewrite get_bscale, !get_pabs by assumption. rewrite F2, S2. unfold pget. wring.
Qed.

(* ---- MergeWith, same type ---- *)
Definition merge_page_step (m : Z) (acc : pag) (op : nat * list W) : pag :=
  let '(off, pg) := op in
  if zlen pg =? 0 then acc else
  let '(a1, soff) := ensure_page pgrow acc (m + Z.of_nat off) in
  with_pages a1 (set_nth (pages a1) (Z.to_nat soff)
                   (map (fun ab => wadd (fst ab) (snd ab)) (combine (pgat (pages a1) soff) pg))) (minPage a1).
Lemma p_merge_same_unfold s o :
  p_merge_same pgrow worth full sort s o =
  fold_left (p_add pgrow worth full sort) (buffer o)
    (fold_left (merge_page_step (minPage o)) (combine (seq 0 (length (pages o))) (pages o)) s).
Proof. reflexivity. Qed.

Lemma at_cons c pg j : at_ (c :: pg) j = if j =? 0 then c else at_ pg (j - 1).
Proof. apply pc_at_cons. Qed.
Lemma zlen_cons {A} (x : A) l : zlen (x :: l) = 1 + zlen l.
Proof. apply pc_zlen_cons. Qed.
Lemma zip_add_spec x : forall y, zlen x = zlen y ->
  zlen (map (fun ab => wadd (fst ab) (snd ab)) (combine x y)) = zlen x /\
  forall j, at_ (map (fun ab => wadd (fst ab) (snd ab)) (combine x y)) j = wadd (at_ x j) (at_ y j).
Proof.
  induction x as [|a x IH]; intros [|b y] Hl.
  - split; [reflexivity|]. intros j. cbn [combine map]. rewrite at_nil, wadd_0_l. reflexivity.
  - exfalso. unfold zlen in Hl. cbn [length] in Hl. lia.
  - exfalso. unfold zlen in Hl. cbn [length] in Hl. lia.
  - rewrite !zlen_cons in Hl. assert (Hl' : zlen x = zlen y) by lia.
    destruct (IH y Hl') as [I1 I2]. cbn [combine map fst snd]. split.
    + rewrite !zlen_cons, I1. reflexivity.
    + intros j. rewrite !at_cons. destruct (j =? 0); [reflexivity|apply I2].
Qed.

Lemma merge_page_step_spec m acc a pg :
  PInv acc -> pg_ok pg -> (pg <> [] -> page_ok (m + Z.of_nat a)) ->
  let acc' := merge_page_step m acc (a, pg) in
  PInv acc' /\ buffer acc' = buffer acc /\
  forall j, cell acc' j = wadd (cell acc j) (if page_index j =? m + Z.of_nat a then at_ pg (line_index j) else w0).
Proof.
  clear worth full sort Hsort.
  intros H Hpg Hp. cbv zeta. unfold merge_page_step.
  destruct (Z.eqb_spec (zlen pg) 0) as [E|E].
  - apply zlen_nil_iff in E. subst pg. split; [exact H|]. split; [reflexivity|].
    intros j. rewrite at_nil. destruct (page_index j =? m + Z.of_nat a); rewrite wadd_0_r; reflexivity.
  - assert (Hne : pg <> []) by (intros E'; apply E; rewrite E'; reflexivity).
    specialize (Hp Hne). pose proof (pg_ok_len pg Hpg E) as Hlen.
    destruct (ensure_page pgrow acc (m + Z.of_nat a)) as [a1 soff] eqn:En.
    destruct (ensure_page_spec pgrow acc _ a1 soff Hgrow H Hp En) as [Y1 [Y2 [Y3 [Y4 [Y5 [Y6 [Y7 Y8]]]]]]].
    set (x := pgat (pages a1) soff) in *.
    destruct (zip_add_spec x pg) as [Z1 Z2]; [lia|].
    set (npg := map (fun ab => wadd (fst ab) (snd ab)) (combine x pg)) in *.
    assert (Hpgat : forall k, pgat (set_nth (pages a1) (Z.to_nat soff) npg) k = if k =? soff then npg else pgat (pages a1) k).
    { intros k. apply pgat_set_nth. exact Y5. }
    assert (Hzl : zlen (set_nth (pages a1) (Z.to_nat soff) npg) = zlen (pages a1)).
    { apply zlen_set_nth. unfold zlen in Y5. lia. }
    cbn [with_pages pages minPage buffer].
    split.
    { constructor; cbn [with_pages pages minPage buffer].
      - intros k. rewrite Hpgat. destruct (Z.eqb_spec k soff) as [Ek|Ek]; [|apply (inv_pg a1 Y1)].
        split; [right; lia|]. intros j. rewrite Z2.
        apply wnonneg_add; [apply (inv_pg a1 Y1 soff)|apply Hpg].
      - intros k Hk. rewrite Hpgat in Hk. destruct (Z.eqb_spec k soff) as [Ek|Ek]; [|apply (inv_alloc a1 Y1 _ Hk)].
        subst k. replace (minPage a1 + soff) with (m + Z.of_nat a) by lia. exact Hp.
      - apply (inv_buf a1 Y1).
      - intros E'. contradiction.
      - intros _. rewrite Hzl. apply (inv_bnd a1 Y1 Y7).
      - rewrite Hzl. apply (inv_plen a1 Y1). }
    split; [exact Y2|].
    intros j. rewrite <- Y8. unfold cell. cbn [with_pages pages minPage]. rewrite Hpgat.
    destruct (Z.eqb_spec (page_index j - minPage a1) soff) as [Ek|Ek];
      destruct (Z.eqb_spec (page_index j) (m + Z.of_nat a)) as [Ep|Ep]; try lia.
    + rewrite Z2, Ek. reflexivity.
    + rewrite wadd_0_r. reflexivity.
Qed.

Lemma merge_pages_spec m pgs : forall a acc,
  PInv acc -> (forall k, pg_ok (pgat pgs k)) ->
  (forall k, pgat pgs k <> [] -> page_ok (m + Z.of_nat a + k)) ->
  let acc' := fold_left (merge_page_step m) (combine (seq a (length pgs)) pgs) acc in
  PInv acc' /\ buffer acc' = buffer acc /\
  forall j, cell acc' j = wadd (cell acc j) (at_ (pgat pgs (page_index j - m - Z.of_nat a)) (line_index j)).
Proof.
  clear worth full sort Hsort.
  induction pgs as [|pg pgs IH]; intros a acc H Hok Hal; cbv zeta.
  - cbn [length seq combine fold_left]. split; [exact H|]. split; [reflexivity|].
    intros j. rewrite pgat_nil, at_nil, wadd_0_r. reflexivity.
  - cbn [length seq combine fold_left].
    assert (Hpg : pg_ok pg) by (specialize (Hok 0); rewrite pgat_cons in Hok; exact Hok).
    assert (Hp : pg <> [] -> page_ok (m + Z.of_nat a)).
    { intros Hne. specialize (Hal 0). rewrite pgat_cons in Hal. cbn [Z.eqb] in Hal.
      replace (m + Z.of_nat a) with (m + Z.of_nat a + 0) by lia. apply Hal. exact Hne. }
    destruct (merge_page_step_spec m acc a pg H Hpg Hp) as [S1 [S2 S3]].
    assert (Hok' : forall k, pg_ok (pgat pgs k)).
    { intros k. destruct (Z.lt_ge_cases k 0) as [Hk|Hk]; [rewrite pgat_out by lia; apply pg_ok_nil|].
      specialize (Hok (k + 1)). rewrite pgat_cons in Hok.
      destruct (Z.eqb_spec (k + 1) 0); [lia|]. replace (k + 1 - 1) with k in Hok by lia. exact Hok. }
    assert (Hal' : forall k, pgat pgs k <> [] -> page_ok (m + Z.of_nat (S a) + k)).
    { intros k Hk. destruct (Z.lt_ge_cases k 0) as [Hk0|Hk0]; [exfalso; apply Hk; apply pgat_out; lia|].
      specialize (Hal (k + 1)). rewrite pgat_cons in Hal.
      destruct (Z.eqb_spec (k + 1) 0); [lia|]. replace (k + 1 - 1) with k in Hal by lia.
      replace (m + Z.of_nat (S a) + k) with (m + Z.of_nat a + (k + 1)) by lia. apply Hal. exact Hk. }
    destruct (IH (S a) _ S1 Hok' Hal') as [I1 [I2 I3]].
    split; [exact I1|]. split; [rewrite I2; exact S2|].
    intros j. rewrite I3, S3, pgat_cons.
    destruct (Z.eqb_spec (page_index j) (m + Z.of_nat a)) as [Ep|Ep];
      destruct (Z.eqb_spec (page_index j - m - Z.of_nat a) 0) as [E0|E0]; try lia.
    + rewrite (pgat_out pgs) by lia. rewrite at_nil, wadd_0_r. reflexivity.
    + rewrite wadd_0_r. f_equal. f_equal. f_equal. lia.
Qed.

Lemma fold_p_add l : forall s,
  PInv s -> Forall idx_ok l ->
  let s' := fold_left (p_add pgrow worth full sort) l s in
  PInv s' /\ forall j, pget s' j = wadd (pget s j) (cnt l j).
Proof.
  induction l as [|x l IH]; intros s H Hl; cbv zeta.
  - cbn [fold_left]. split; [exact H|]. intros j. rewrite cnt_nil, wadd_0_r. reflexivity.
  - inversion Hl as [|x' l' Hx Hl']; subst x' l'. cbn [fold_left].
    destruct (p_add_spec pgrow worth full sort s x Hgrow Hsort H Hx) as [H1 G1].
    destruct (IH _ H1 Hl') as [H2 G2]. split; [exact H2|].
    intros j. rewrite G2, G1, cnt_cons. wring.
Qed.

Theorem p_merge_same_spec s o :
  PInv s -> PInv o ->
  PInv (p_merge_same pgrow worth full sort s o) /\
  pabs (p_merge_same pgrow worth full sort s o) = bmerge (pabs s) (pabs o).
Proof.
  intros H Ho. rewrite p_merge_same_unfold.
  destruct (merge_pages_spec (minPage o) (pages o) 0%nat s H (inv_pg o Ho)) as [M1 [M2 M3]].
  { intros k Hk. replace (minPage o + Z.of_nat 0 + k) with (minPage o + k) by lia.
    apply (inv_alloc o Ho k Hk). }
  set (s1 := fold_left (merge_page_step (minPage o)) (combine (seq 0 (length (pages o))) (pages o)) s) in *.
  destruct (fold_p_add (buffer o) s1 M1 (inv_buf o Ho)) as [F1 F2].
  split; [exact F1|].
  apply bins_ext; [apply wf_pabs; exact F1|apply wf_bmerge; [apply wf_pabs|apply pos_pabs|apply pos_pabs]; assumption|].
  intros j. rewrite get_bmerge by (try apply wf_pabs; try apply pos_pabs; assumption).
  rewrite !get_pabs by assumption. rewrite F2. unfold pget. rewrite M2, M3. unfold cell.
  replace (page_index j - minPage o - Z.of_nat 0) with (page_index j - minPage o) by lia. wring.
Qed.

(* ---- specialised decoders ---- *)
Theorem p_dec_indexes_spec s l :
  PInv s -> Forall idx_ok l ->
  PInv (p_dec_indexes pgrow worth full sort s l) /\
  pabs (p_dec_indexes pgrow worth full sort s l) = bmerge_list (pabs s) (unit_bins l).
Proof.
  intros H Hl. unfold p_dec_indexes.
  assert (Hb : Forall idx_ok (buffer s ++ l)) by (apply Forall_app; split; [apply (inv_buf s H)|exact Hl]).
  destruct (with_buffer_spec s _ H Hb) as [W1 W2].
  set (s1 := with_buffer s (buffer s ++ l)) in *.
  assert (G1 : forall j, pget s1 j = wadd (pget s j) (cnt l j)).
  { intros j. unfold pget. rewrite W2. unfold s1. cbn [with_buffer buffer]. rewrite cnt_app. wring. }
  assert (R : forall s2, PInv s2 -> (forall j, pget s2 j = pget s1 j) ->
              PInv s2 /\ pabs s2 = bmerge_list (pabs s) (unit_bins l)).
  { intros s2 H2 G2. split; [exact H2|].
    pose proof (adds_ok_nonneg _ (adds_ok_unit l Hl)) as Hn.
    apply bins_ext; [apply wf_pabs; exact H2|apply wf_bmerge_list; [apply wf_pabs|apply pos_pabs|]; assumption|].
    intros j. rewrite get_bmerge_list by (try apply wf_pabs; try apply pos_pabs; assumption).
    rewrite !get_pabs by assumption. rewrite G2, G1, lsum_unit_bins. reflexivity. }
  destruct (full s1 && (trigger s1 <=? zlen (buffer s1))).
  - destruct (compact_spec pgrow worth sort s1 Hgrow Hsort W1) as [C1 C2]. apply R; assumption.
  - apply R; [exact W1|reflexivity].
Qed.
Corollary p_dec_indexes_as_adds s l :
  PInv s -> Forall idx_ok l ->
  pabs (p_dec_indexes pgrow worth full sort s l) = pabs (fold_left (p_add pgrow worth full sort) l s).
Proof.
  intros H Hl. destruct (p_dec_indexes_spec s l H Hl) as [_ E]. rewrite E.
  destruct (fold_p_add l s H Hl) as [F1 F2].
  pose proof (adds_ok_nonneg _ (adds_ok_unit l Hl)) as Hn.
  apply bins_ext; [apply wf_bmerge_list; [apply wf_pabs|apply pos_pabs|]; assumption|apply wf_pabs; exact F1|].
  intros j. rewrite get_bmerge_list by (try apply wf_pabs; try apply pos_pabs; assumption).
  rewrite !get_pabs by assumption. rewrite F2, lsum_unit_bins. reflexivity.
Qed.

Definition dec_cont_step (acc : pag) (kw : Z * W) : pag :=
  let '(a1, off) := ensure_page pgrow acc (page_index (fst kw)) in add_to_page a1 off (fst kw) (snd kw).
Lemma p_dec_contiguous_unfold s l : p_dec_contiguous pgrow s l = fold_left dec_cont_step l s.
Proof. reflexivity. Qed.
Lemma dec_cont_step_spec s i c :
  PInv s -> idx_ok i -> (w0 <= c)%Qc ->
  let s' := dec_cont_step s (i, c) in
  PInv s' /\ (forall j, pget s' j = wadd (pget s j) (if j =? i then c else w0)) /\
  existing_page s' (page_index i) <> None.
Proof.
  clear worth full sort Hsort.
  intros H Hi Hc. cbv zeta. unfold dec_cont_step. cbn [fst snd].
  destruct (ensure_page pgrow s (page_index i)) as [s1 off] eqn:En.
  destruct (ensure_page_spec pgrow s _ s1 off Hgrow H (page_index_ok i Hi) En) as [Y1 [Y2 [Y3 [Y4 [Y5 [Y6 [Y7 Y8]]]]]]].
  destruct (add_to_page_spec s1 off i c Y1 Y5 Y6 Y4 Hc) as [A1 [A2 [A3 [A4 [A5 [A6 A7]]]]]].
  split; [exact A1|]. split.
  - intros j. unfold pget. rewrite A2, A7, Y2, Y8. wring.
  - unfold existing_page.
    assert (R : in_range (add_to_page s1 off i c) (page_index i) = true).
    { apply (in_range_spec _ _ A1). rewrite A4, A5. split; [exact Y7|lia]. }
    rewrite R, nth_page_pgat, A4, <- Y4, A6, Y6. cbn [Z.eqb]. discriminate.
Qed.
(* every (index, weight) is added, and its page is created even when the weight is 0 *)
Theorem p_dec_contiguous_spec l : forall s,
  PInv s -> adds_ok l ->
  PInv (p_dec_contiguous pgrow s l) /\ pabs (p_dec_contiguous pgrow s l) = bmerge_list (pabs s) l.
Proof.
  clear worth full sort Hsort.
  induction l as [|[k c] l IH]; intros s H Hl; [split; [exact H|reflexivity]|].
  inversion Hl as [|kw l' [Hk Hc] Hl']; subst kw l'. cbn [fst snd] in Hk, Hc.
  rewrite p_dec_contiguous_unfold. cbn [fold_left].
  destruct (dec_cont_step_spec s k c H Hk Hc) as [H1 [G1 _]].
  destruct (IH _ H1 Hl') as [H2 E2]. rewrite p_dec_contiguous_unfold in H2, E2.
  split; [exact H2|]. etransitivity; [exact E2|]. rewrite bmerge_list_cons. f_equal. apply pabs_badd0; assumption.
Qed.
Theorem p_dec_contiguous_zero s i :
  PInv s -> idx_ok i ->
  pabs (p_dec_contiguous pgrow s [(i, w0)]) = pabs s /\
  existing_page (p_dec_contiguous pgrow s [(i, w0)]) (page_index i) <> None.
Proof.
  clear worth full sort Hsort.
  intros H Hi. assert (Hc : (w0 <= w0)%Qc) by wlra.
  destruct (dec_cont_step_spec s i w0 H Hi Hc) as [H1 [G1 X1]].
  rewrite p_dec_contiguous_unfold. cbn [fold_left]. split; [|exact X1].
  apply pabs_ext; [exact H|exact H1|]. intros j. rewrite G1. destruct (j =? i); apply wadd_0_r.
Qed.

(* ================================================================== *)
(** * 9. Histories                                                     *)
(* ================================================================== *)

Inductive pop :=
| OAdd (i : Z) (c : W) | OClear | OReweight (w : W) | OForeach | OCompact | OKeyAtRank (r : W)
| OMerge (o : pag) | OMergeList (l : list (Z * W)) | ODecIdx (l : list Z) | ODecCont (l : list (Z * W)).
Definition pop_ok (op : pop) : Prop :=
  match op with
  | OAdd i c => idx_ok i /\ (w0 <= c)%Qc
  | OReweight w => (w0 < w)%Qc
  | OMerge o => PInv o
  | OMergeList l => adds_ok l
  | ODecIdx l => Forall idx_ok l
  | ODecCont l => adds_ok l
  | OClear | OForeach | OCompact | OKeyAtRank _ => True
  end.
Definition pstep (s : pag) (op : pop) : pag :=
  match op with
  | OAdd i c => p_add_with_count pgrow worth full sort s i c
  | OClear => p_clear s
  | OReweight w => match p_reweight pgrow worth full sort s w with Some s' => s' | None => s end
  | OForeach => fst (p_foreach sort s)
  | OCompact => compact pgrow worth sort s
  | OKeyAtRank r => fst (p_key_at_rank sort s r)
  | OMerge o => p_merge_same pgrow worth full sort s o
  | OMergeList l => p_merge_list pgrow worth full sort s l
  | ODecIdx l => p_dec_indexes pgrow worth full sort s l
  | ODecCont l => p_dec_contiguous pgrow s l
  end.
(* the same history on Layer A: the reads are the identity *)
Definition astep (b : bins) (op : pop) : bins :=
  match op with
  | OAdd i c => badd0 b i c
  | OClear => []
  | OReweight w => bscale w b
  | OForeach | OCompact | OKeyAtRank _ => b
  | OMerge o => bmerge b (pabs o)
  | OMergeList l => bmerge_list b l
  | ODecIdx l => bmerge_list b (unit_bins l)
  | ODecCont l => bmerge_list b l
  end.
Definition prun (s : pag) (ops : list pop) : pag := fold_left pstep ops s.
Definition arun (b : bins) (ops : list pop) : bins := fold_left astep ops b.

Theorem pstep_refines s op :
  PInv s -> pop_ok op -> PInv (pstep s op) /\ pabs (pstep s op) = astep (pabs s) op.
Proof.
  intros H Hop. destruct op as [i c| |w| | |r|o|l|l|l]; cbn [pstep astep pop_ok] in *.
  - destruct Hop as [Hi Hc]. apply p_add_with_count_abs; assumption.
  - apply p_clear_spec. exact H.
  - destruct (p_reweight_spec s w H Hop) as [s' [E [H' A]]]. rewrite E. split; assumption.
  - destruct (p_foreach_spec sort s Hsort H) as [E [W1 [_ W3]]]. rewrite E. cbn [fst]. split; assumption.
  - apply compact_abs. exact H.
  - destruct (p_key_at_rank_spec sort s r Hsort H) as [K1 [_ [K3 _]]]. split; assumption.
  - apply p_merge_same_spec; assumption.
  - apply p_merge_list_spec; assumption.
  - apply p_dec_indexes_spec; assumption.
  - apply p_dec_contiguous_spec; assumption.
Qed.
Theorem prun_refines_from ops : forall s,
  PInv s -> Forall pop_ok ops -> PInv (prun s ops) /\ pabs (prun s ops) = arun (pabs s) ops.
Proof.
  induction ops as [|op ops IH]; intros s H Hops; [split; [exact H|reflexivity]|].
  inversion Hops as [|op' ops' Hop Hops']; subst op' ops'.
  destruct (pstep_refines s op H Hop) as [H1 E1].
  destruct (IH _ H1 Hops') as [H2 E2]. unfold prun, arun in *. cbn [fold_left].
  split; [exact H2|]. rewrite E2, E1. reflexivity.
Qed.
Theorem prun_refines ops :
  Forall pop_ok ops -> PInv (prun new_pag ops) /\ pabs (prun new_pag ops) = arun [] ops.
Proof. intros Hops. apply (prun_refines_from ops new_pag PInv_new Hops). Qed.

(* queries are pure: every read leaves the abstract content unchanged *)
Definition is_read (op : pop) : bool :=
  match op with OForeach | OCompact | OKeyAtRank _ => true | _ => false end.
Theorem reads_pure s op : PInv s -> is_read op = true -> PInv (pstep s op) /\ pabs (pstep s op) = pabs s.
Proof.
  intros H Hr. destruct op; try discriminate; refine (pstep_refines s _ H _); exact I.
Qed.
End Ops.
