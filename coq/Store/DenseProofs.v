(* Refinement proofs for the plain dense store (lim = Exact) of Store/Dense.v against Layer A
   (Spec/Bins.v).  Stdlib only, axiom-free.
     Part 0  weights (Qc) algebra and order, boolean reflection
     Part A  arrays: length / at_ characterisation of every list helper of Dense.v
     Part L  the Layer A facts used below (proved here, independent of Spec/BinsProofs.v)
     Part B  content function dget, invariant Inv, abstraction dabs
     Part C  shift_counts / center_counts / extend_range
     Part D  refinement of every operation
     Part E  lift to histories *)
From SK Require Import Store.Dense.
From Coq Require Import ZifyBool ZifyNat Lqa.
Local Open Scope Z_scope.

(* ================================================================== *)
(* Part 0: weights                                                     *)
(* ================================================================== *)

Lemma this_plus (x y : Qc) : (this (x + y)%Qc == this x + this y)%Q.
Proof. change (this (x + y)%Qc) with (Qred (this x + this y)). apply Qred_correct. Qed.
Lemma this_mult (x y : Qc) : (this (x * y)%Qc == this x * this y)%Q.
Proof. change (this (x * y)%Qc) with (Qred (this x * this y)). apply Qred_correct. Qed.
Lemma Qc_eq_this (a b : Qc) : a = b -> (this a == this b)%Q.
Proof. intros ->. reflexivity. Qed.
Lemma Qc_neq_this (a b : Qc) : a <> b -> ~ (this a == this b)%Q.
Proof. intros H E. apply H. now apply Qc_is_canon. Qed.

(* linear arithmetic on weights: transfer to Q, products are atoms *)
Ltac wlra :=
  unfold W, wadd, wmul, w0, w1 in *;
  try match goal with |- ~ _ => intro end;
  repeat match goal with
  | H : @eq Qc _ _ |- _ => apply Qc_eq_this in H
  | H : ~ @eq Qc _ _ |- _ => apply Qc_neq_this in H
  end;
  try match goal with |- @eq Qc _ _ => apply Qc_is_canon end;
  unfold Qcle, Qclt in *;
  repeat match goal with
  | |- context [this (?a + ?b)%Qc] => rewrite (this_plus a b)
  | |- context [this (?a * ?b)%Qc] => rewrite (this_mult a b)
  | H : context [this (?a + ?b)%Qc] |- _ => rewrite (this_plus a b) in H
  | H : context [this (?a * ?b)%Qc] |- _ => rewrite (this_mult a b) in H
  end;
  change (this (Q2Qc 0)) with 0%Q in *; change (this (Q2Qc 1)) with 1%Q in *;
  lra.

Lemma wring_lemma (a b : Qc) : (a + 0 = b + 0)%Qc -> a = b.
Proof. intros H. now rewrite !Qcplus_0_r in H. Qed.
(* [ring] looks at the type of the left-hand side: make it syntactically Qc *)
Ltac wring := unfold wadd, wmul, w0, w1, W; apply wring_lemma; ring.

Lemma wadd_0_l a : wadd w0 a = a. Proof. wring. Qed.
Lemma wadd_0_r a : wadd a w0 = a. Proof. wring. Qed.
Lemma wadd_comm a b : wadd a b = wadd b a. Proof. wring. Qed.
Lemma wadd_assoc a b c : wadd (wadd a b) c = wadd a (wadd b c). Proof. wring. Qed.
Lemma wmul_0_l a : wmul w0 a = w0. Proof. wring. Qed.
Lemma wmul_0_r a : wmul a w0 = w0. Proof. wring. Qed.
Lemma wmul_comm a b : wmul a b = wmul b a. Proof. wring. Qed.
Lemma wmul_add_l a b c : wmul (wadd a b) c = wadd (wmul a c) (wmul b c). Proof. wring. Qed.

Lemma weqb_eq a b : weqb a b = true <-> a = b.
Proof. unfold weqb. rewrite Qceq_alt. destruct (a ?= b)%Qc; split; congruence. Qed.
Lemma weqb_neq a b : weqb a b = false <-> a <> b.
Proof. rewrite <- weqb_eq. destruct (weqb a b); split; congruence. Qed.
Lemma wltb_lt a b : wltb a b = true <-> (a < b)%Qc.
Proof. unfold wltb. rewrite Qclt_alt. destruct (a ?= b)%Qc; split; congruence. Qed.
Lemma wltb_nlt a b : wltb a b = false <-> (b <= a)%Qc.
Proof.
  split; intros H.
  - apply Qcnot_lt_le. intros L. apply wltb_lt in L. congruence.
  - destruct (wltb a b) eqn:E; [|reflexivity]. apply wltb_lt in E. exfalso. revert E. now apply Qcle_not_lt.
Qed.
Lemma wleb_le a b : wleb a b = true <-> (a <= b)%Qc.
Proof. unfold wleb. rewrite Qcle_alt. destruct (a ?= b)%Qc; split; congruence. Qed.
Lemma wleb_nle a b : wleb a b = false <-> (b < a)%Qc.
Proof.
  split; intros H.
  - apply Qcnot_le_lt. intros L. apply wleb_le in L. congruence.
  - destruct (wleb a b) eqn:E; [|reflexivity]. apply wleb_le in E. exfalso. revert E. now apply Qclt_not_le.
Qed.

Lemma wle_refl a : (a <= a)%Qc. Proof. apply Qcle_refl. Qed.
Lemma wadd_nonneg a b : (w0 <= a)%Qc -> (w0 <= b)%Qc -> (w0 <= wadd a b)%Qc.
Proof. intros. wlra. Qed.
Lemma wadd_pos_r a b : (w0 <= a)%Qc -> (w0 < b)%Qc -> (w0 < wadd a b)%Qc.
Proof. intros. wlra. Qed.
Lemma wadd_pos_l a b : (w0 < a)%Qc -> (w0 <= b)%Qc -> (w0 < wadd a b)%Qc.
Proof. intros. wlra. Qed.
Lemma wlt_neq a : (w0 < a)%Qc -> a <> w0.
Proof. intros H E. subst a. revert H. apply Qcle_not_lt, Qcle_refl. Qed.
Lemma wlt_le a b : (a < b)%Qc -> (a <= b)%Qc. Proof. apply Qclt_le_weak. Qed.
Lemma wpos_of_nonneg_nz a : (w0 <= a)%Qc -> a <> w0 -> (w0 < a)%Qc.
Proof. intros H N. apply Qcnot_le_lt. intros L. apply N. now apply Qcle_antisym. Qed.
Lemma wmul_nonneg a w : (w0 <= a)%Qc -> (w0 < w)%Qc -> (w0 <= wmul a w)%Qc.
Proof.
  intros Ha Hw. unfold wmul, w0 in *.
  pose proof (Qcmult_le_compat_r _ _ w Ha (Qclt_le_weak _ _ Hw)) as H. now rewrite Qcmult_0_l in H.
Qed.
Lemma wmul_pos a w : (w0 < a)%Qc -> (w0 < w)%Qc -> (w0 < wmul a w)%Qc.
Proof.
  intros Ha Hw. unfold wmul, w0 in *.
  pose proof (Qcmult_lt_compat_r _ _ w Hw Ha) as H. now rewrite Qcmult_0_l in H.
Qed.
Lemma wmul_eq0 a w : w <> w0 -> wmul a w = w0 -> a = w0.
Proof. intros Hw H. apply Qcmult_integral in H. destruct H; [assumption|contradiction]. Qed.
Lemma w_eq_dec (a b : W) : {a = b} + {a <> b}. Proof. apply Qc_eq_dec. Qed.

Definition nzb (w : W) : bool := negb (weqb w w0).
Lemma nzb_true w : nzb w = true <-> w <> w0.
Proof. unfold nzb. rewrite negb_true_iff. apply weqb_neq. Qed.
Lemma nzb_false w : nzb w = false <-> w = w0.
Proof. unfold nzb. rewrite negb_false_iff. apply weqb_eq. Qed.

(* ================================================================== *)
(* Part A: arrays                                                      *)
(* ================================================================== *)

Lemma zlen_nonneg {A} (l : list A) : 0 <= zlen l. Proof. unfold zlen. lia. Qed.
Lemma zlen_nil {A} : zlen (@nil A) = 0. Proof. reflexivity. Qed.
Lemma zlen_cons {A} (x : A) l : zlen (x :: l) = zlen l + 1.
Proof. unfold zlen. cbn [length]. lia. Qed.
Lemma zlen_app {A} (l1 l2 : list A) : zlen (l1 ++ l2) = zlen l1 + zlen l2.
Proof. unfold zlen. rewrite app_length. lia. Qed.
Lemma zlen_zeros n : zlen (zeros n) = Z.max 0 n.
Proof. unfold zlen, zeros. rewrite repeat_length. lia. Qed.
Lemma zlen_length_eq {A B} (l1 : list A) (l2 : list B) : zlen l1 = zlen l2 -> length l1 = length l2.
Proof. unfold zlen. lia. Qed.

Lemma at_nil j : at_ [] j = w0.
Proof. unfold at_. destruct (j <? 0); [reflexivity|]. now destruct (Z.to_nat j). Qed.
Lemma at_cons x l j : at_ (x :: l) j = if j =? 0 then x else at_ l (j - 1).
Proof.
  unfold at_. destruct (Z.ltb_spec j 0) as [H|H].
  - destruct (Z.eqb_spec j 0); [lia|]. destruct (Z.ltb_spec (j - 1) 0); [reflexivity|lia].
  - destruct (Z.eqb_spec j 0) as [->|Hn]; [reflexivity|].
    destruct (Z.ltb_spec (j - 1) 0); [lia|].
    replace (Z.to_nat j) with (S (Z.to_nat (j - 1))) by lia. reflexivity.
Qed.
Lemma at_app l1 l2 k : at_ (l1 ++ l2) k = if k <? zlen l1 then at_ l1 k else at_ l2 (k - zlen l1).
Proof.
  unfold at_, zlen. destruct (Z.ltb_spec k 0) as [H|H].
  - destruct (Z.ltb_spec k (Z.of_nat (length l1))); [reflexivity|lia].
  - destruct (Z.ltb_spec k (Z.of_nat (length l1))) as [H1|H1].
    + apply app_nth1. lia.
    + destruct (Z.ltb_spec (k - Z.of_nat (length l1)) 0); [lia|].
      rewrite app_nth2 by lia. f_equal. lia.
Qed.
Lemma at_zeros n k : at_ (zeros n) k = w0.
Proof.
  unfold at_, zeros. destruct (k <? 0); [reflexivity|].
  generalize (Z.to_nat k) as p. induction (Z.to_nat n) as [|m IH]; intros p; destruct p; cbn [repeat nth]; auto.
Qed.
Lemma at_app_zeros l n k : at_ (l ++ zeros n) k = at_ l k.
Proof.
  rewrite at_app. destruct (Z.ltb_spec k (zlen l)); [reflexivity|].
  rewrite at_zeros. symmetry. apply at_out. lia.
Qed.
Lemma at_nonneg_of_all l : (forall x, In x l -> (w0 <= x)%Qc) -> forall k, (w0 <= at_ l k)%Qc.
Proof.
  intros H k. unfold at_. destruct (k <? 0); [apply wle_refl|].
  destruct (nth_in_or_default (Z.to_nat k) l w0) as [Hi | E]; [now apply H|].
  unfold W in *. rewrite E. apply wle_refl.
Qed.

Lemma list_ext_at l1 l2 :
  zlen l1 = zlen l2 -> (forall k, 0 <= k < zlen l1 -> at_ l1 k = at_ l2 k) -> l1 = l2.
Proof.
  intros Hl H. apply nth_ext with (d := w0) (d' := w0); [now apply zlen_length_eq|].
  intros n Hn. specialize (H (Z.of_nat n)). unfold at_, zlen in H.
  destruct (Z.ltb_spec (Z.of_nat n) 0); [lia|]. rewrite Nat2Z.id in H. apply H. lia.
Qed.

(* ---- map_range / upd / setw / reset ---- *)
Lemma length_map_range_nat f l sk n : length (map_range_nat f l sk n) = length l.
Proof.
  revert sk n. induction l as [|x tl IH]; intros sk n; [reflexivity|].
  destruct sk as [|sk]; [destruct n as [|m]|]; cbn [map_range_nat length]; auto.
Qed.
Lemma at_map_range_nat f l sk n k :
  0 <= k < zlen l ->
  at_ (map_range_nat f l sk n) k =
  if (Z.of_nat sk <=? k) && (k <? Z.of_nat sk + Z.of_nat n) then f (at_ l k) else at_ l k.
Proof.
  revert sk n k. induction l as [|x tl IH]; intros sk n k Hk.
  { unfold zlen in Hk. cbn [length] in Hk. lia. }
  rewrite zlen_cons in Hk.
  destruct sk as [|sk].
  - destruct n as [|m].
    + cbn [map_range_nat]. destruct (_ && _) eqn:E; [lia|reflexivity].
    + cbn [map_range_nat]. rewrite !at_cons. destruct (Z.eqb_spec k 0) as [->|Hn].
      * reflexivity.
      * rewrite IH by lia.
        destruct ((Z.of_nat 0 <=? k - 1) && (k - 1 <? Z.of_nat 0 + Z.of_nat m)) eqn:E1;
        destruct ((Z.of_nat 0 <=? k) && (k <? Z.of_nat 0 + Z.of_nat (S m))) eqn:E2; try reflexivity; lia.
  - cbn [map_range_nat]. rewrite !at_cons. destruct (Z.eqb_spec k 0) as [->|Hn].
    + destruct (_ && _) eqn:E; [lia|reflexivity].
    + rewrite IH by lia.
      destruct ((Z.of_nat sk <=? k - 1) && (k - 1 <? Z.of_nat sk + Z.of_nat n)) eqn:E1;
      destruct ((Z.of_nat (S sk) <=? k) && (k <? Z.of_nat (S sk) + Z.of_nat n)) eqn:E2; try reflexivity; lia.
Qed.

Lemma zlen_map_range f l lo hi : zlen (map_range f l lo hi) = zlen l.
Proof.
  unfold map_range. destruct (hi <? lo); [reflexivity|]. unfold zlen. now rewrite length_map_range_nat.
Qed.
Lemma at_map_range_in f l lo hi k :
  0 <= lo -> 0 <= k < zlen l ->
  at_ (map_range f l lo hi) k = if (lo <=? k) && (k <=? hi) then f (at_ l k) else at_ l k.
Proof.
  intros Hlo Hk. unfold map_range. destruct (Z.ltb_spec hi lo) as [H|H].
  - destruct (_ && _) eqn:E; [lia|reflexivity].
  - rewrite at_map_range_nat by exact Hk.
    destruct ((Z.of_nat (Z.to_nat lo) <=? k) && (k <? Z.of_nat (Z.to_nat lo) + Z.of_nat (Z.to_nat (hi - lo + 1)))) eqn:E1;
    destruct ((lo <=? k) && (k <=? hi)) eqn:E2; try reflexivity; lia.
Qed.
(* for every position, when the range lies inside the array *)
Lemma at_map_range f l lo hi k :
  0 <= lo -> hi < zlen l ->
  at_ (map_range f l lo hi) k = if (lo <=? k) && (k <=? hi) then f (at_ l k) else at_ l k.
Proof.
  intros Hlo Hhi. destruct (Z_lt_dec k 0) as [Hn|Hn]; [|destruct (Z_le_dec (zlen l) k) as [Hg|Hg]].
  - destruct (_ && _) eqn:E; [lia|]. rewrite !at_out; auto.
  - destruct (_ && _) eqn:E; [lia|]. rewrite !at_out; auto. rewrite zlen_map_range. auto.
  - apply at_map_range_in; lia.
Qed.

Lemma zlen_upd l j c : zlen (upd l j c) = zlen l. Proof. apply zlen_map_range. Qed.
Lemma zlen_setw l j c : zlen (setw l j c) = zlen l. Proof. apply zlen_map_range. Qed.
Lemma zlen_reset l lo hi : zlen (reset l lo hi) = zlen l. Proof. apply zlen_map_range. Qed.

Lemma at_upd l j c k :
  0 <= j < zlen l -> at_ (upd l j c) k = if k =? j then wadd (at_ l k) c else at_ l k.
Proof.
  intros Hj. unfold upd. rewrite at_map_range by lia.
  destruct ((j <=? k) && (k <=? j)) eqn:E1; destruct (k =? j) eqn:E2; try reflexivity; lia.
Qed.
Lemma at_setw l j c k :
  0 <= j < zlen l -> at_ (setw l j c) k = if k =? j then c else at_ l k.
Proof.
  intros Hj. unfold setw. rewrite at_map_range by lia.
  destruct ((j <=? k) && (k <=? j)) eqn:E1; destruct (k =? j) eqn:E2; try reflexivity; lia.
Qed.
Lemma at_reset l lo hi k :
  0 <= lo -> hi < zlen l ->
  at_ (reset l lo hi) k = if (lo <=? k) && (k <=? hi) then w0 else at_ l k.
Proof. intros. unfold reset. now rewrite at_map_range. Qed.

(* ---- firstn / skipn / slice / copy_within ---- *)
Lemma at_firstn m l k : at_ (firstn m l) k = if k <? Z.of_nat m then at_ l k else w0.
Proof.
  revert l k. induction m as [|m IH]; intros l k.
  - cbn [firstn]. rewrite at_nil. destruct (Z.ltb_spec k (Z.of_nat 0)); [|reflexivity].
    symmetry. apply at_out. lia.
  - destruct l as [|x l]; cbn [firstn].
    + rewrite at_nil. now destruct (_ <? _).
    + rewrite !at_cons. destruct (Z.eqb_spec k 0) as [->|Hn].
      * destruct (Z.ltb_spec 0 (Z.of_nat (S m))); [reflexivity|lia].
      * rewrite IH. destruct (Z.ltb_spec (k - 1) (Z.of_nat m)); destruct (Z.ltb_spec k (Z.of_nat (S m))); try reflexivity; lia.
Qed.
Lemma at_skipn m l k : 0 <= k -> at_ (skipn m l) k = at_ l (Z.of_nat m + k).
Proof.
  revert l. induction m as [|m IH]; intros l Hk.
  - cbn [skipn]. f_equal.
  - destruct l as [|x l]; cbn [skipn].
    + now rewrite !at_nil.
    + rewrite IH by exact Hk. rewrite at_cons. destruct (Z.eqb_spec (Z.of_nat (S m) + k) 0); [lia|].
      f_equal. lia.
Qed.
Lemma zlen_firstn {A} m (l : list A) : zlen (firstn m l) = Z.min (Z.of_nat m) (zlen l).
Proof. unfold zlen. rewrite firstn_length. lia. Qed.
Lemma zlen_skipn {A} m (l : list A) : zlen (skipn m l) = Z.max 0 (zlen l - Z.of_nat m).
Proof. unfold zlen. rewrite skipn_length. lia. Qed.

Lemma zlen_slice l lo n : 0 <= lo -> 0 <= n -> lo + n <= zlen l -> zlen (slice l lo n) = n.
Proof. intros. unfold slice. rewrite zlen_firstn, zlen_skipn. lia. Qed.
Lemma at_slice l lo n k :
  0 <= lo -> at_ (slice l lo n) k = if (0 <=? k) && (k <? n) then at_ l (lo + k) else w0.
Proof.
  intros Hlo. unfold slice. destruct (Z_lt_dec k 0) as [Hn|Hn].
  - rewrite at_out by lia. destruct (_ && _) eqn:E; [lia|reflexivity].
  - rewrite at_firstn. rewrite at_skipn by lia.
    destruct (Z.ltb_spec k (Z.of_nat (Z.to_nat n))); destruct ((0 <=? k) && (k <? n)) eqn:E; try reflexivity; try lia.
    f_equal. lia.
Qed.

Lemma zlen_copy_within l dst src n :
  0 <= dst -> 0 <= src -> dst + n <= zlen l -> src + n <= zlen l ->
  zlen (copy_within l dst src n) = zlen l.
Proof.
  intros. unfold copy_within. destruct (Z.leb_spec n 0); [reflexivity|].
  rewrite !zlen_app, zlen_firstn, zlen_skipn, zlen_slice by lia. lia.
Qed.
Lemma at_copy_within l dst src n k :
  0 <= dst -> 0 <= src -> dst + n <= zlen l -> src + n <= zlen l ->
  at_ (copy_within l dst src n) k =
  if (dst <=? k) && (k <? dst + n) then at_ l (src + k - dst) else at_ l k.
Proof.
  intros Hd Hs Hdn Hsn. unfold copy_within. destruct (Z.leb_spec n 0) as [Hn|Hn].
  { destruct (_ && _) eqn:E; [lia|reflexivity]. }
  rewrite at_app, zlen_firstn. destruct (Z.ltb_spec k (Z.min (Z.of_nat (Z.to_nat dst)) (zlen l))) as [H1|H1].
  - rewrite at_firstn. destruct (Z.ltb_spec k (Z.of_nat (Z.to_nat dst))); [|lia].
    destruct (_ && _) eqn:E; [lia|reflexivity].
  - rewrite at_app, zlen_slice by lia.
    destruct (Z.ltb_spec (k - Z.min (Z.of_nat (Z.to_nat dst)) (zlen l)) n) as [H2|H2].
    + rewrite at_slice by lia.
      destruct ((0 <=? k - Z.min (Z.of_nat (Z.to_nat dst)) (zlen l)) && (k - Z.min (Z.of_nat (Z.to_nat dst)) (zlen l) <? n)) eqn:E1; [|lia].
      destruct ((dst <=? k) && (k <? dst + n)) eqn:E2; [|lia]. f_equal. lia.
    + rewrite at_skipn by lia. destruct ((dst <=? k) && (k <? dst + n)) eqn:E2; [lia|]. f_equal. lia.
Qed.

(* ---- add_slice ---- *)
Lemma length_add_slice_nat l st src : length (add_slice_nat l st src) = length l.
Proof.
  revert st src. induction l as [|x tl IH]; intros st src; [reflexivity|].
  destruct st as [|st]; [destruct src as [|y src]|]; cbn [add_slice_nat length]; auto.
Qed.
Lemma zlen_add_slice l st src : zlen (add_slice l st src) = zlen l.
Proof. unfold add_slice, zlen. now rewrite length_add_slice_nat. Qed.
Lemma at_add_slice_nat l st src k :
  0 <= k < zlen l ->
  at_ (add_slice_nat l st src) k = wadd (at_ l k) (at_ src (k - Z.of_nat st)).
Proof.
  revert st src k. induction l as [|x tl IH]; intros st src k Hk.
  { unfold zlen in Hk. cbn [length] in Hk. lia. }
  rewrite zlen_cons in Hk. destruct st as [|st].
  - destruct src as [|y src]; cbn [add_slice_nat].
    + rewrite at_nil. now rewrite wadd_0_r.
    + rewrite !at_cons. destruct (Z.eqb_spec k 0) as [->|Hn].
      * reflexivity.
      * destruct (Z.eqb_spec (k - Z.of_nat 0) 0); [lia|]. rewrite IH by lia. do 2 f_equal. lia.
  - cbn [add_slice_nat]. rewrite !at_cons. destruct (Z.eqb_spec k 0) as [->|Hn].
    + rewrite (at_out src) by lia. now rewrite wadd_0_r.
    + rewrite IH by lia. do 2 f_equal. lia.
Qed.
(* unconditional form: reading outside [src] gives 0 *)
Lemma at_add_slice l st src k :
  0 <= st -> st + zlen src <= zlen l ->
  at_ (add_slice l st src) k = wadd (at_ l k) (at_ src (k - st)).
Proof.
  intros Hs Hl. destruct (Z_lt_dec k 0) as [Hn|Hn]; [|destruct (Z_le_dec (zlen l) k) as [Hg|Hg]].
  - rewrite !at_out by lia. now rewrite wadd_0_l.
  - rewrite (at_out (add_slice _ _ _)) by (rewrite zlen_add_slice; lia).
    rewrite (at_out l), (at_out src) by lia. now rewrite wadd_0_l.
  - unfold add_slice. rewrite at_add_slice_nat by lia. do 2 f_equal. lia.
Qed.
Lemma at_add_slice_cases l st src k :
  0 <= st -> st + zlen src <= zlen l ->
  at_ (add_slice l st src) k =
  if (st <=? k) && (k <? st + zlen src) then wadd (at_ l k) (at_ src (k - st)) else at_ l k.
Proof.
  intros Hs Hl. rewrite at_add_slice by assumption.
  destruct (_ && _) eqn:E; [reflexivity|]. rewrite (at_out src) by lia. apply wadd_0_r.
Qed.

(* ---- integer ranges ---- *)
Lemma map_seq_shift {A} (g : nat -> A) n m : map g (seq n m) = map (fun k => g (n + k)%nat) (seq 0 m).
Proof.
  revert n g. induction m as [|m IH]; intros n g; [reflexivity|].
  cbn [seq map]. f_equal; [f_equal; lia|].
  rewrite (IH (S n) g). rewrite (IH 1%nat (fun k => g (n + k)%nat)).
  apply map_ext. intros k. f_equal. lia.
Qed.
Lemma zrange_nil lo hi : hi < lo -> zrange lo hi = [].
Proof. intros H. unfold zrange. replace (Z.to_nat (hi - lo + 1)) with 0%nat by lia. reflexivity. Qed.
Lemma zrange_app a b c : a <= b + 1 -> b <= c -> zrange a c = zrange a b ++ zrange (b + 1) c.
Proof.
  intros H1 H2. unfold zrange.
  replace (Z.to_nat (c - a + 1)) with (Z.to_nat (b - a + 1) + Z.to_nat (c - (b + 1) + 1))%nat by lia.
  rewrite seq_app, map_app. f_equal. rewrite map_seq_shift. apply map_ext. intros k. lia.
Qed.
Lemma zrange_one a : zrange a a = [a].
Proof. unfold zrange. replace (Z.to_nat (a - a + 1)) with 1%nat by lia. cbn [seq map]. f_equal. lia. Qed.
Lemma zrange_cons lo hi : lo <= hi -> zrange lo hi = lo :: zrange (lo + 1) hi.
Proof. intros H. rewrite (zrange_app lo lo hi) by lia. now rewrite zrange_one. Qed.
Lemma zrange_snoc lo hi : lo <= hi -> zrange lo hi = zrange lo (hi - 1) ++ [hi].
Proof.
  intros H. rewrite (zrange_app lo (hi - 1) hi) by lia.
  replace (hi - 1 + 1) with hi by lia. now rewrite zrange_one.
Qed.
(* induction on the lower end of a range *)
Lemma range_ind (P : Z -> Prop) (b : Z) :
  (forall a, b < a -> P a) -> (forall a, a <= b -> P (a + 1) -> P a) -> forall a, P a.
Proof.
  intros H0 HS a. remember (Z.to_nat (b - a + 1)) as n eqn:En. revert a En.
  induction n as [|n IH]; intros a En.
  - apply H0. lia.
  - apply HS; [lia|]. apply IH. lia.
Qed.

Lemma map_zrange_tabulate f a b : map f (zrange a b) = tabulate (Z.to_nat (b - a + 1)) (fun k => f (a + k)).
Proof. unfold zrange, tabulate. now rewrite map_map. Qed.
Lemma at_map_zrange f a b k :
  at_ (map f (zrange a b)) k = if (0 <=? k) && (k <=? b - a) then f (a + k) else w0.
Proof.
  rewrite map_zrange_tabulate.
  destruct ((0 <=? k) && (k <=? b - a)) eqn:E.
  - apply (at_tabulate _ (fun k => f (a + k))). lia.
  - apply at_out. unfold zlen. rewrite tabulate_length. lia.
Qed.
Lemma zlen_map_zrange {B} (f : Z -> B) a b : zlen (map f (zrange a b)) = Z.max 0 (b - a + 1).
Proof. unfold zlen. rewrite map_length, zrange_length. lia. Qed.

Lemma slice_eq_map l lo n :
  0 <= lo -> 0 <= n -> lo + n <= zlen l -> slice l lo n = map (at_ l) (zrange lo (lo + n - 1)).
Proof.
  intros Hlo Hn Hl. apply list_ext_at.
  - rewrite zlen_slice, zlen_map_zrange by lia. lia.
  - intros k Hk. rewrite zlen_slice in Hk by lia. rewrite at_slice, at_map_zrange by lia.
    destruct ((0 <=? k) && (k <? n)) eqn:E1; destruct ((0 <=? k) && (k <=? lo + n - 1 - lo)) eqn:E2; try reflexivity; lia.
Qed.
Lemma list_eq_map_at l : l = map (at_ l) (zrange 0 (zlen l - 1)).
Proof.
  apply list_ext_at.
  - rewrite zlen_map_zrange. pose proof (zlen_nonneg l). lia.
  - intros k Hk. rewrite at_map_zrange. destruct (_ && _) eqn:E; [f_equal|lia].
Qed.

(* ---- sums ---- *)
Lemma fold_wadd_acc l a : fold_left wadd l a = wadd a (sumW l).
Proof.
  unfold sumW. revert a. induction l as [|x l IH]; intros a; cbn [fold_left].
  - now rewrite wadd_0_r.
  - rewrite IH, (IH (wadd w0 x)). wring.
Qed.
Lemma sumW_nil : sumW [] = w0. Proof. reflexivity. Qed.
Lemma sumW_cons x l : sumW (x :: l) = wadd x (sumW l).
Proof. unfold sumW at 1. cbn [fold_left]. rewrite fold_wadd_acc. wring. Qed.
Lemma sumW_app l1 l2 : sumW (l1 ++ l2) = wadd (sumW l1) (sumW l2).
Proof. unfold sumW at 1. rewrite fold_left_app. fold (sumW l1). now rewrite fold_wadd_acc. Qed.
Lemma sumW_all0 l : (forall x, In x l -> x = w0) -> sumW l = w0.
Proof.
  induction l as [|x l IH]; intros H; [reflexivity|].
  rewrite sumW_cons, IH by (intros; apply H; now right). rewrite (H x) by now left. apply wadd_0_l.
Qed.
Lemma sumW_zeros n : sumW (zeros n) = w0.
Proof. apply sumW_all0. intros x Hx. unfold zeros in Hx. now apply repeat_spec in Hx. Qed.
Lemma sumW_nonneg l : (forall x, In x l -> (w0 <= x)%Qc) -> (w0 <= sumW l)%Qc.
Proof.
  induction l as [|x l IH]; intros H; [apply wle_refl|].
  rewrite sumW_cons. apply wadd_nonneg; [apply H; now left|apply IH; intros; apply H; now right].
Qed.
Lemma sumW_map_add {A} (f g : A -> W) l :
  sumW (map (fun x => wadd (f x) (g x)) l) = wadd (sumW (map f l)) (sumW (map g l)).
Proof.
  induction l as [|x l IH]; cbn [map]; [now rewrite sumW_nil, wadd_0_l|].
  rewrite !sumW_cons, IH. wring.
Qed.
Lemma sumW_map_scale {A} (f : A -> W) w l :
  sumW (map (fun x => wmul (f x) w) l) = wmul (sumW (map f l)) w.
Proof.
  induction l as [|x l IH]; cbn [map]; [now rewrite sumW_nil, wmul_0_l|].
  rewrite !sumW_cons, IH. wring.
Qed.
Lemma sumW_filter_nz l : sumW (filter nzb l) = sumW l.
Proof.
  induction l as [|x l IH]; [reflexivity|]. cbn [filter]. destruct (nzb x) eqn:E.
  - now rewrite !sumW_cons, IH.
  - apply nzb_false in E. subst x. now rewrite sumW_cons, wadd_0_l.
Qed.
Lemma sumW_slice l lo n :
  0 <= lo -> 0 <= n -> lo + n <= zlen l -> sumW (slice l lo n) = sumW (map (at_ l) (zrange lo (lo + n - 1))).
Proof. intros. now rewrite slice_eq_map. Qed.

(* sum of a function over a range *)
Definition rsum (f : Z -> W) (a b : Z) : W := sumW (map f (zrange a b)).
Lemma rsum_nil f a b : b < a -> rsum f a b = w0.
Proof. intros H. unfold rsum. now rewrite zrange_nil. Qed.
Lemma rsum_split f a b c : a <= b + 1 -> b <= c -> rsum f a c = wadd (rsum f a b) (rsum f (b + 1) c).
Proof. intros. unfold rsum. rewrite (zrange_app a b c) by lia. now rewrite map_app, sumW_app. Qed.
Lemma rsum_one f a : rsum f a a = f a.
Proof. unfold rsum. rewrite zrange_one. cbn [map]. now rewrite sumW_cons, sumW_nil, wadd_0_r. Qed.
Lemma rsum_ext f g a b : (forall i, a <= i <= b -> f i = g i) -> rsum f a b = rsum g a b.
Proof. intros H. unfold rsum. f_equal. apply map_ext_in. intros i Hi. apply H. now apply in_zrange. Qed.
Lemma rsum_zero f a b : (forall i, a <= i <= b -> f i = w0) -> rsum f a b = w0.
Proof.
  intros H. unfold rsum. apply sumW_all0. intros x Hx. apply in_map_iff in Hx.
  destruct Hx as [i [<- Hi]]. apply H. now apply in_zrange.
Qed.
Lemma rsum_nonneg f a b : (forall i, (w0 <= f i)%Qc) -> (w0 <= rsum f a b)%Qc.
Proof.
  intros H. unfold rsum. apply sumW_nonneg. intros x Hx. apply in_map_iff in Hx.
  destruct Hx as [i [<- Hi]]. apply H.
Qed.
Lemma rsum_add f g a b : rsum (fun i => wadd (f i) (g i)) a b = wadd (rsum f a b) (rsum g a b).
Proof. unfold rsum. apply sumW_map_add. Qed.
Lemma rsum_scale f w a b : rsum (fun i => wmul (f i) w) a b = wmul (rsum f a b) w.
Proof. unfold rsum. apply sumW_map_scale. Qed.
(* a function that vanishes outside [a,b] has the same sum over any larger range *)
Lemma rsum_widen f a b a' b' :
  (forall i, i < a \/ b < i -> f i = w0) -> a' <= a -> b <= b' -> a' <= b' + 1 ->
  rsum f a' b' = rsum f a b.
Proof.
  intros Hz Ha Hb Hab. destruct (Z_le_dec a (b + 1)) as [Hne|Hne].
  - rewrite (rsum_split f a' (a - 1) b') by lia. replace (a - 1 + 1) with a by lia.
    rewrite (rsum_split f a b b') by lia.
    rewrite (rsum_zero f a' (a - 1)) by (intros; apply Hz; lia).
    rewrite (rsum_zero f (b + 1) b') by (intros; apply Hz; lia).
    now rewrite wadd_0_l, wadd_0_r.
  - rewrite (rsum_nil f a b) by lia. apply rsum_zero. intros i _. apply Hz. lia.
Qed.

(* ================================================================== *)
(* Part L: Layer A facts (Spec/Bins.v)                                 *)
(* ================================================================== *)
Section LayerA.
Notation abins := (list (Z * W)).

Lemma keys_above_cons lo k w tl :
  keys_above lo ((k, w) :: tl) = true <-> lo < k /\ w <> w0 /\ keys_above k tl = true.
Proof.
  cbn [keys_above]. rewrite !andb_true_iff, Z.ltb_lt. fold (nzb w). rewrite nzb_true. tauto.
Qed.
Lemma keys_above_weaken lo lo' (b : abins) : lo' <= lo -> keys_above lo b = true -> keys_above lo' b = true.
Proof.
  destruct b as [|[k w] tl]; [reflexivity|]. intros Hl. rewrite !keys_above_cons. intuition lia.
Qed.
Lemma keys_above_wf lo (b : abins) : keys_above lo b = true -> wf b = true.
Proof.
  destruct b as [|[k w] tl]; [reflexivity|]. rewrite keys_above_cons. intros (_ & Hw & Hk).
  cbn [wf]. rewrite Hk. apply nzb_true in Hw. unfold nzb in Hw. now rewrite Hw.
Qed.
Lemma wf_above (b : abins) i : wf b = true -> exists lo, lo < i /\ keys_above lo b = true.
Proof.
  destruct b as [|[k w] tl]; intros H.
  - exists (i - 1). split; [lia|reflexivity].
  - exists (Z.min k i - 1). split; [lia|]. cbn [wf] in H. apply andb_true_iff in H. destruct H as [H1 H2].
    apply keys_above_cons. split; [lia|]. split; [|exact H2]. apply nzb_true. exact H1.
Qed.
Lemma wf_cons k w tl : wf ((k, w) :: tl) = true <-> w <> w0 /\ keys_above k tl = true.
Proof. cbn [wf]. rewrite andb_true_iff. fold (nzb w). rewrite nzb_true. tauto. Qed.

Lemma get_above lo (b : abins) j : keys_above lo b = true -> j <= lo -> get b j = w0.
Proof.
  revert lo. induction b as [|[k w] tl IH]; intros lo H Hj; [reflexivity|].
  apply keys_above_cons in H. destruct H as (H1 & _ & H3). cbn [get].
  destruct (Z.eqb_spec j k); [lia|]. apply (IH k); [exact H3|lia].
Qed.

(* extensionality: canonical association lists are determined by their content *)
Lemma bins_ext_above (a : abins) : forall (b : abins) lo,
  keys_above lo a = true -> keys_above lo b = true -> (forall i, get a i = get b i) -> a = b.
Proof.
  induction a as [|[k w] ta IH]; intros b lo Ha Hb H.
  - destruct b as [|[k' w'] tb]; [reflexivity|]. exfalso.
    apply keys_above_cons in Hb. destruct Hb as (_ & Hw & _).
    specialize (H k'). cbn [get] in H. rewrite Z.eqb_refl in H. congruence.
  - apply keys_above_cons in Ha. destruct Ha as (Hk & Hw & Hta).
    destruct b as [|[k' w'] tb].
    { exfalso. specialize (H k). cbn [get] in H. rewrite Z.eqb_refl in H. congruence. }
    apply keys_above_cons in Hb. destruct Hb as (Hk' & Hw' & Htb).
    assert (Hkk : k = k').
    { destruct (Z.lt_trichotomy k k') as [L|[E|L]]; [|exact E|]; exfalso.
      - specialize (H k). cbn [get] in H. rewrite Z.eqb_refl in H.
        destruct (Z.eqb_spec k k'); [lia|]. rewrite (get_above k' tb k) in H by (auto; lia). congruence.
      - specialize (H k'). cbn [get] in H. rewrite Z.eqb_refl in H.
        destruct (Z.eqb_spec k' k); [lia|]. rewrite (get_above k ta k') in H by (auto; lia). congruence. }
    subst k'. assert (Hww : w = w').
    { specialize (H k). cbn [get] in H. now rewrite Z.eqb_refl in H. }
    subst w'. f_equal. apply (IH tb k Hta Htb). intros i.
    destruct (Z.eq_dec i k) as [->|Hn].
    + now rewrite (get_above k ta k), (get_above k tb k) by (auto; lia).
    + specialize (H i). cbn [get] in H. destruct (Z.eqb_spec i k); [contradiction|exact H].
Qed.
Lemma bins_ext (a b : abins) : wf a = true -> wf b = true -> (forall i, get a i = get b i) -> a = b.
Proof.
  intros Ha Hb H.
  destruct (wf_above a 0 Ha) as [la [_ Hla]]. destruct (wf_above b 0 Hb) as [lb [_ Hlb]].
  apply (bins_ext_above a b (Z.min la lb)); [eapply keys_above_weaken; [|exact Hla]; lia
                                             |eapply keys_above_weaken; [|exact Hlb]; lia|exact H].
Qed.

(* all weights strictly positive *)
Definition posb (b : abins) : Prop := forall k w, In (k, w) b -> (w0 < w)%Qc.
Lemma posb_nil : posb []. Proof. intros k w []. Qed.
Lemma posb_cons k w tl : posb ((k, w) :: tl) <-> (w0 < w)%Qc /\ posb tl.
Proof.
  unfold posb. split.
  - intros H. split; [apply (H k); now left|]. intros k' w' Hi. apply (H k'). now right.
  - intros [H1 H2] k' w' [E|Hi]; [congruence|now apply (H2 k')].
Qed.

Lemma get_badd_above lo (b : abins) i c j :
  keys_above lo b = true ->
  get (badd b i c) j = if j =? i then wadd (get b i) c else get b j.
Proof.
  revert lo. induction b as [|[k w] tl IH]; intros lo H.
  - cbn [badd get]. now rewrite wadd_0_l.
  - apply keys_above_cons in H. destruct H as (H1 & H2 & H3). cbn [badd].
    destruct (Z.ltb_spec i k) as [L|L]; [|destruct (Z.eqb_spec i k) as [E|E]].
    + cbn [get]. destruct (Z.eqb_spec j i) as [Ej|Hn]; [|reflexivity].
      destruct (Z.eqb_spec i k); [lia|]. rewrite (get_above k tl i) by (auto; lia). now rewrite wadd_0_l.
    + subst i. cbn [get]. rewrite Z.eqb_refl. destruct (Z.eqb_spec j k); reflexivity.
    + cbn [get]. rewrite (IH k H3). destruct (Z.eqb_spec i k); [contradiction|].
      destruct (Z.eqb_spec j k) as [Ej|Hn]; [|reflexivity].
      destruct (Z.eqb_spec j i); [lia|reflexivity].
Qed.
Lemma get_badd (b : abins) i c j :
  wf b = true -> get (badd b i c) j = if j =? i then wadd (get b i) c else get b j.
Proof. intros H. destruct (wf_above b 0 H) as [lo [_ Hlo]]. now apply (get_badd_above lo). Qed.

Lemma badd_above_pos lo (b : abins) i c :
  keys_above lo b = true -> posb b -> lo < i -> (w0 < c)%Qc ->
  keys_above lo (badd b i c) = true /\ posb (badd b i c).
Proof.
  revert lo. induction b as [|[k w] tl IH]; intros lo H Hp Hi Hc.
  - cbn [badd]. split; [apply keys_above_cons; repeat split; auto using wlt_neq|].
    apply posb_cons. split; [exact Hc|apply posb_nil].
  - pose proof H as H'. apply keys_above_cons in H. destruct H as (H1 & H2 & H3).
    apply posb_cons in Hp. destruct Hp as [Hw Hp]. cbn [badd].
    destruct (Z.ltb_spec i k) as [L|L]; [|destruct (Z.eqb_spec i k) as [E|E]].
    + split.
      * apply keys_above_cons. repeat split; auto using wlt_neq. apply keys_above_cons. repeat split; auto.
      * apply posb_cons. split; [exact Hc|]. apply posb_cons. now split.
    + split.
      * apply keys_above_cons. repeat split; auto. apply wlt_neq. apply wadd_pos_l; [exact Hw|now apply wlt_le].
      * apply posb_cons. split; [|exact Hp]. apply wadd_pos_l; [exact Hw|now apply wlt_le].
    + destruct (IH k H3 Hp ltac:(lia) Hc) as [I1 I2]. split.
      * apply keys_above_cons. repeat split; auto.
      * apply posb_cons. now split.
Qed.
Lemma badd_wf_pos (b : abins) i c :
  wf b = true -> posb b -> (w0 < c)%Qc -> wf (badd b i c) = true /\ posb (badd b i c).
Proof.
  intros H Hp Hc. destruct (wf_above b i H) as [lo [Hlo Hk]].
  destruct (badd_above_pos lo b i c Hk Hp Hlo Hc) as [H1 H2]. split; [|exact H2].
  now apply (keys_above_wf lo).
Qed.

(* weight attached to index j in an arbitrary list of bins *)
Fixpoint gsum (l : abins) (j : Z) : W :=
  match l with
  | [] => w0
  | (k, w) :: tl => if j =? k then wadd w (gsum tl j) else gsum tl j
  end.
Lemma gsum_get lo (l : abins) j : keys_above lo l = true -> gsum l j = get l j.
Proof.
  revert lo. induction l as [|[k w] tl IH]; intros lo H; [reflexivity|].
  apply keys_above_cons in H. destruct H as (H1 & H2 & H3). cbn [gsum get].
  rewrite (IH k H3). destruct (Z.eqb_spec j k) as [->|Hn]; [|reflexivity].
  rewrite (get_above k tl k) by (auto; lia). apply wadd_0_r.
Qed.
Lemma bmerge_list_cons (a : abins) kw l :
  bmerge_list a (kw :: l) = bmerge_list (badd0 a (fst kw) (snd kw)) l.
Proof. reflexivity. Qed.
Lemma bmerge_list_spec (l : abins) : forall (a : abins),
  wf a = true -> posb a -> (forall k w, In (k, w) l -> (w0 <= w)%Qc) ->
  wf (bmerge_list a l) = true /\ posb (bmerge_list a l) /\
  forall j, get (bmerge_list a l) j = wadd (get a j) (gsum l j).
Proof.
  induction l as [|[k w] tl IH]; intros a Ha Hp Hl.
  - cbn [bmerge_list fold_left gsum]. repeat split; auto. intros j. now rewrite wadd_0_r.
  - rewrite bmerge_list_cons. cbn [fst snd]. unfold badd0.
    assert (Htl : forall k w, In (k, w) tl -> (w0 <= w)%Qc) by (intros; eapply Hl; right; eassumption).
    destruct (weqb w w0) eqn:E.
    + apply weqb_eq in E. subst w. destruct (IH a Ha Hp Htl) as (I1 & I2 & I3).
      repeat split; auto. intros j. rewrite I3. cbn [gsum]. destruct (j =? k); [|reflexivity].
      now rewrite wadd_0_l.
    + apply weqb_neq in E.
      assert (Hw : (w0 < w)%Qc) by (apply wpos_of_nonneg_nz; [apply (Hl k); now left|exact E]).
      destruct (badd_wf_pos a k w Ha Hp Hw) as [B1 B2].
      destruct (IH _ B1 B2 Htl) as (I1 & I2 & I3). repeat split; auto.
      intros j. rewrite I3, get_badd by exact Ha. cbn [gsum].
      destruct (Z.eqb_spec j k) as [->|Hn]; [|reflexivity]. wring.
Qed.

Lemma get_bscale f (b : abins) i : get (bscale f b) i = wmul f (get b i).
Proof.
  induction b as [|[k w] tl IH]; cbn [bscale map get fst snd]; [now rewrite wmul_0_r|].
  destruct (i =? k); [reflexivity|exact IH].
Qed.
Lemma keys_above_bscale f lo (b : abins) : f <> w0 -> keys_above lo b = true -> keys_above lo (bscale f b) = true.
Proof.
  intros Hf. revert lo. induction b as [|[k w] tl IH]; intros lo H; [reflexivity|].
  apply keys_above_cons in H. destruct H as (H1 & H2 & H3).
  cbn [bscale map fst snd]. apply keys_above_cons. split; [exact H1|split].
  - intros E. apply H2. rewrite wmul_comm in E. now apply (wmul_eq0 w f).
  - now apply IH.
Qed.
Lemma wf_bscale f (b : abins) : f <> w0 -> wf b = true -> wf (bscale f b) = true.
Proof.
  intros Hf H. destruct (wf_above b 0 H) as [lo [_ Hlo]]. apply (keys_above_wf lo). now apply keys_above_bscale.
Qed.

Lemma total_sumW (b : abins) : total b = sumW (map snd b).
Proof.
  unfold total, sumW. generalize w0. induction b as [|kw tl IH]; intros a; cbn [fold_left map]; auto.
Qed.
Lemma max_key_snoc (l : abins) k w : max_key (l ++ [(k, w)]) = Some k.
Proof.
  induction l as [|[k0 x0] l IH]; [reflexivity|]. cbn [app].
  destruct (l ++ [(k, w)]) as [|p l0] eqn:E; [destruct l; discriminate|].
  change (max_key (p :: l0) = Some k). exact IH.
Qed.

(* ---- tab: the canonical bins of a function on a range ---- *)
Definition tab (f : Z -> W) (a b : Z) : abins :=
  filter (fun kw => nzb (snd kw)) (map (fun i => (i, f i)) (zrange a b)).
Lemma tab_nil f a b : b < a -> tab f a b = [].
Proof. intros H. unfold tab. now rewrite zrange_nil. Qed.
Lemma tab_cons f a b : a <= b ->
  tab f a b = if nzb (f a) then (a, f a) :: tab f (a + 1) b else tab f (a + 1) b.
Proof. intros H. unfold tab. rewrite zrange_cons by exact H. reflexivity. Qed.
Lemma tab_snoc f a b : a <= b ->
  tab f a b = tab f a (b - 1) ++ (if nzb (f b) then [(b, f b)] else []).
Proof. intros H. unfold tab. rewrite (zrange_snoc a b) by exact H. now rewrite map_app, filter_app. Qed.
Lemma tab_above f b : forall a lo, lo < a -> keys_above lo (tab f a b) = true.
Proof.
  apply (range_ind (fun a => forall lo, lo < a -> keys_above lo (tab f a b) = true) b).
  - intros a H lo _. now rewrite tab_nil.
  - intros a H IH lo Hlo. rewrite tab_cons by exact H. destruct (nzb (f a)) eqn:E.
    + apply keys_above_cons. repeat split; [exact Hlo|now apply nzb_true|apply IH; lia].
    + apply IH. lia.
Qed.
Lemma tab_wf f a b : wf (tab f a b) = true.
Proof. apply (keys_above_wf (a - 1)). apply tab_above. lia. Qed.
Lemma tab_get f b : forall a i, get (tab f a b) i = if (a <=? i) && (i <=? b) then f i else w0.
Proof.
  apply (range_ind (fun a => forall i, get (tab f a b) i = if (a <=? i) && (i <=? b) then f i else w0) b).
  - intros a H i. rewrite tab_nil by exact H. destruct (_ && _) eqn:E; [lia|reflexivity].
  - intros a H IH i. rewrite tab_cons by exact H. destruct (nzb (f a)) eqn:E.
    + cbn [get]. rewrite IH. destruct (Z.eqb_spec i a) as [->|Hn].
      * destruct ((a <=? a) && (a <=? b)) eqn:E1; [reflexivity|lia].
      * destruct ((a + 1 <=? i) && (i <=? b)) eqn:E1; destruct ((a <=? i) && (i <=? b)) eqn:E2; try reflexivity; lia.
    + apply nzb_false in E. rewrite IH. destruct (Z.eq_dec i a) as [->|Hn].
      * destruct ((a + 1 <=? a) && (a <=? b)) eqn:E1; [lia|]. destruct ((a <=? a) && (a <=? b)) eqn:E2; [now rewrite E|reflexivity].
      * destruct ((a + 1 <=? i) && (i <=? b)) eqn:E1; destruct ((a <=? i) && (i <=? b)) eqn:E2; try reflexivity; lia.
Qed.
Lemma tab_in f a b k w : In (k, w) (tab f a b) -> a <= k <= b /\ w = f k /\ w <> w0.
Proof.
  unfold tab. rewrite filter_In, in_map_iff. intros [[i [E Hi]] Hn]. inversion E; subst.
  cbn [snd] in Hn. apply in_zrange in Hi. apply nzb_true in Hn. auto.
Qed.
Lemma tab_pos f a b : (forall i, (w0 <= f i)%Qc) -> posb (tab f a b).
Proof. intros H k w Hi. apply tab_in in Hi. destruct Hi as (_ & -> & Hn). now apply wpos_of_nonneg_nz. Qed.
Lemma tab_total f a b : total (tab f a b) = rsum f a b.
Proof.
  rewrite total_sumW. unfold tab, rsum. rewrite <- (sumW_filter_nz (map f (zrange a b))). f_equal.
  induction (zrange a b) as [|i l IH]; [reflexivity|]. cbn [map filter snd].
  destruct (nzb (f i)); cbn [map snd]; now rewrite IH.
Qed.
Lemma tab_min f a b : a <= b -> f a <> w0 -> min_key (tab f a b) = Some a.
Proof. intros H Hn. rewrite tab_cons by exact H. apply nzb_true in Hn. now rewrite Hn. Qed.
Lemma tab_max f a b : a <= b -> f b <> w0 -> max_key (tab f a b) = Some b.
Proof. intros H Hn. rewrite tab_snoc by exact H. apply nzb_true in Hn. rewrite Hn. apply max_key_snoc. Qed.
Lemma tab_ext f g a b a' b' :
  (forall i, (if (a <=? i) && (i <=? b) then f i else w0) = (if (a' <=? i) && (i <=? b') then g i else w0)) ->
  tab f a b = tab g a' b'.
Proof. intros H. apply bins_ext; try apply tab_wf. intros i. now rewrite !tab_get. Qed.
Lemma tab_filter_pos f a b :
  (forall i, (w0 <= f i)%Qc) ->
  filter (fun kw => wltb w0 (snd kw)) (map (fun i => (i, f i)) (zrange a b)) = tab f a b.
Proof.
  intros H. unfold tab. apply filter_ext_in. intros [k w] Hi. cbn [snd].
  apply in_map_iff in Hi. destruct Hi as [i [E _]]. inversion E; subst.
  destruct (nzb (f k)) eqn:E1.
  - apply wltb_lt. apply wpos_of_nonneg_nz; [apply H|now apply nzb_true].
  - apply nzb_false in E1. rewrite E1. apply wltb_nlt. apply wle_refl.
Qed.
End LayerA.

(* ================================================================== *)
(* Part B: content function, invariant, abstraction                    *)
(* ================================================================== *)

Ltac sproj :=
  unfold with_bins, with_range, with_offset, with_count, with_collapsed in *;
  cbn [bins count offset minI maxI lim collapsed] in *.

Lemma bins_with_bins s b : bins (with_bins s b) = b. Proof. reflexivity. Qed.
Lemma bins_with_range s a b : bins (with_range s a b) = bins s. Proof. reflexivity. Qed.
Lemma bins_with_offset s o : bins (with_offset s o) = bins s. Proof. reflexivity. Qed.
Lemma bins_with_count s c : bins (with_count s c) = bins s. Proof. reflexivity. Qed.
Lemma offset_with_bins s b : offset (with_bins s b) = offset s. Proof. reflexivity. Qed.
Lemma offset_with_range s a b : offset (with_range s a b) = offset s. Proof. reflexivity. Qed.
Lemma offset_with_offset s o : offset (with_offset s o) = o. Proof. reflexivity. Qed.
Lemma offset_with_count s c : offset (with_count s c) = offset s. Proof. reflexivity. Qed.
Lemma len_with_bins s b : len (with_bins s b) = zlen b. Proof. reflexivity. Qed.

(* weight stored for index i *)
Definition dget (s : dense) (i : Z) : W := at_ (bins s) (i - offset s).
(* the Layer A content of a store *)
Definition dabs (s : dense) : list (Z * W) := tab (dget s) (minI s) (maxI s).

Record Inv (s : dense) : Prop := {
  inv_lim : lim s = Exact;
  inv_nonneg : forall i, (w0 <= dget s i)%Qc;
  inv_out : forall i, i < minI s \/ maxI s < i -> dget s i = w0;
  inv_count : count s = rsum (dget s) (minI s) (maxI s);
  inv_empty : count s = w0 -> minI s = MaxInt32 /\ maxI s = MinInt32;
  inv_win : count s <> w0 -> offset s <= minI s /\ minI s <= maxI s /\ maxI s < offset s + len s;
  inv_ends : count s <> w0 -> (w0 < dget s (minI s))%Qc /\ (w0 < dget s (maxI s))%Qc;
  inv_idx : count s <> w0 -> idx_ok (minI s) /\ idx_ok (maxI s) }.

Lemma is_empty_true s : is_empty s = true <-> count s = w0.
Proof. unfold is_empty. apply weqb_eq. Qed.
Lemma is_empty_false s : is_empty s = false <-> count s <> w0.
Proof. unfold is_empty. apply weqb_neq. Qed.

Lemma Inv_new : Inv (new_dense Exact).
Proof.
  constructor; unfold dget; cbn [new_dense bins count offset minI maxI lim]; try congruence.
  - intros i. rewrite at_nil. apply wle_refl.
  - intros i _. apply at_nil.
  - symmetry. apply rsum_nil. unfold MaxInt32, MinInt32. lia.
  - intros _. auto.
Qed.
Lemma Inv_clear s : lim s = Exact -> Inv (clear_d s).
Proof.
  intros Hl. constructor; unfold dget; cbn [clear_d bins count offset minI maxI lim]; try congruence.
  - intros i. rewrite at_nil. apply wle_refl.
  - intros i _. apply at_nil.
  - symmetry. apply rsum_nil. unfold MaxInt32, MinInt32. lia.
  - intros _. auto.
Qed.

Lemma Inv_count_nonneg s : Inv s -> (w0 <= count s)%Qc.
Proof. intros I. rewrite (inv_count s I). apply rsum_nonneg. apply (inv_nonneg s I). Qed.
Lemma Inv_nonempty_iff s : Inv s -> (count s <> w0 <-> minI s <= maxI s).
Proof.
  intros I. split.
  - intros H. apply (inv_win s I H).
  - intros H E. destruct (inv_empty s I E) as [E1 E2]. rewrite E1, E2 in H. unfold MaxInt32, MinInt32 in H. lia.
Qed.
Lemma Inv_all_zero s : Inv s -> count s = w0 -> forall i, dget s i = w0.
Proof.
  intros I E i. destruct (inv_empty s I E) as [E1 E2]. apply (inv_out s I). rewrite E1, E2.
  unfold MaxInt32, MinInt32. lia.
Qed.
Lemma at_dget s j : at_ (bins s) j = dget s (j + offset s).
Proof. unfold dget. f_equal. lia. Qed.
Lemma Inv_cells_nonneg s : Inv s -> forall j, (w0 <= at_ (bins s) j)%Qc.
Proof. intros I j. rewrite at_dget. apply (inv_nonneg s I). Qed.

Lemma rsum_shift f d a b : rsum (fun i => f (i - d)) (a + d) (b + d) = rsum f a b.
Proof.
  unfold rsum, zrange. replace (b + d - (a + d) + 1) with (b - a + 1) by lia. rewrite !map_map.
  f_equal. apply map_ext. intros k. f_equal. lia.
Qed.
Lemma sumW_rsum l : sumW l = rsum (at_ l) 0 (zlen l - 1).
Proof. unfold rsum. now rewrite <- list_eq_map_at. Qed.
(* the suggested form of the count invariant: count = sum of all the cells *)
Lemma Inv_count_bins s : Inv s -> count s = sumW (bins s).
Proof.
  intros I. rewrite sumW_rsum. destruct (w_eq_dec (count s) w0) as [E|N].
  - rewrite E. symmetry. apply rsum_zero. intros i _. rewrite at_dget. now apply Inv_all_zero.
  - destruct (inv_win s I N) as (H1 & H2 & H3). rewrite (inv_count s I).
    rewrite <- (rsum_shift (at_ (bins s)) (offset s) 0 (zlen (bins s) - 1)). fold (dget s).
    symmetry. apply rsum_widen; [apply (inv_out s I)| | |]; unfold len in *; lia.
Qed.

Lemma dabs_wf s : wf (dabs s) = true. Proof. apply tab_wf. Qed.
Lemma dabs_pos s : Inv s -> posb (dabs s). Proof. intros I. apply tab_pos. apply (inv_nonneg s I). Qed.
Lemma get_dabs s i : Inv s -> get (dabs s) i = dget s i.
Proof.
  intros I. unfold dabs. rewrite tab_get. destruct (_ && _) eqn:E; [reflexivity|].
  symmetry. apply (inv_out s I). lia.
Qed.
Lemma dabs_empty s : Inv s -> count s = w0 -> dabs s = [].
Proof.
  intros I E. destruct (inv_empty s I E) as [E1 E2]. unfold dabs. apply tab_nil. rewrite E1, E2.
  unfold MaxInt32, MinInt32. lia.
Qed.
Lemma dabs_new : dabs (new_dense Exact) = [].
Proof. apply dabs_empty; [apply Inv_new|reflexivity]. Qed.
Lemma dabs_clear s : dabs (clear_d s) = [].
Proof. unfold dabs. apply tab_nil. cbn [clear_d minI maxI]. unfold MaxInt32, MinInt32. lia. Qed.

(* ================================================================== *)
(* Part C: shift_counts / center_counts / extend_range                 *)
(* ================================================================== *)
Lemma reset_bins_with_bins s b from to :
  zlen b = len s -> (to < from \/ (offset s <= from /\ to < offset s + len s)) ->
  reset_bins (with_bins s b) from to = Some (with_bins s (reset b (from - offset s) (to - offset s))).
Proof.
  intros Hb H. unfold reset_bins. rewrite len_with_bins, offset_with_bins, bins_with_bins, Hb.
  destruct (_ && _) eqn:E; [lia|reflexivity].
Qed.

Lemma shift_counts_spec s shift :
  offset s <= minI s -> minI s <= maxI s -> maxI s < offset s + len s ->
  (forall i, i < minI s \/ maxI s < i -> dget s i = w0) ->
  0 <= minI s - offset s + shift -> maxI s - offset s + shift < len s ->
  exists s', shift_counts s shift = Some s' /\
    (forall i, dget s' i = dget s i) /\ len s' = len s /\ offset s' = offset s - shift /\
    minI s' = minI s /\ maxI s' = maxI s /\ count s' = count s /\ lim s' = lim s.
Proof.
  intros Hlo Hmm Hhi Hout Hs1 Hs2.
  assert (Hz : forall x, x < minI s - offset s \/ maxI s - offset s < x -> at_ (bins s) x = w0).
  { intros x Hx. rewrite at_dget. apply Hout. lia. }
  unfold shift_counts.
  remember (minI s - offset s) as minArr eqn:EminArr. remember (maxI s - offset s) as maxArr eqn:EmaxArr.
  destruct (_ || _ || _ || _ || _) eqn:Hb; [exfalso; lia|]. cbv zeta.
  remember (Z.min (len s - (minArr + shift)) (maxArr + 1 - minArr)) as n eqn:En.
  assert (Hcl : zlen (copy_within (bins s) (minArr + shift) minArr n) = len s).
  { unfold len in *. apply zlen_copy_within; lia. }
  assert (Hfin : forall lo hi, 0 <= lo -> hi < len s ->
            (forall j, lo <= j <= hi -> j < minArr + shift \/ maxArr + shift < j) ->
            (forall j, minArr + shift <= j <= maxArr + shift -> (lo <= j <= hi -> False) -> minArr + shift <= j < minArr + shift + n) ->
            (forall j, minArr <= j <= maxArr -> (lo <= j <= hi -> False) -> minArr + shift <= j <= maxArr + shift) ->
            let s' := with_offset (with_bins s (reset (copy_within (bins s) (minArr + shift) minArr n) lo hi)) (offset s - shift) in
            (forall i, dget s' i = dget s i) /\ len s' = len s /\ offset s' = offset s - shift /\
            minI s' = minI s /\ maxI s' = maxI s /\ count s' = count s /\ lim s' = lim s).
  { intros lo hi H0 H1 Hr Hc Hd s'. subst s'. split; [|split; [|repeat split]].
    - intros i. unfold dget. rewrite offset_with_offset, bins_with_offset, bins_with_bins.
      remember (i - (offset s - shift)) as j eqn:Ej.
      rewrite at_reset by lia. rewrite at_copy_within by (unfold len in *; lia).
      replace (i - offset s) with (j - shift) by lia.
      destruct ((lo <=? j) && (j <=? hi)) eqn:E1.
      + symmetry. apply Hz. specialize (Hr j). lia.
      + destruct ((minArr + shift <=? j) && (j <? minArr + shift + n)) eqn:E2.
        * f_equal. lia.
        * assert (Ho : j < minArr + shift \/ maxArr + shift < j).
          { destruct (Z_lt_dec j (minArr + shift)) as [L|L]; [now left|].
            destruct (Z_lt_dec (maxArr + shift) j) as [G|G]; [now right|].
            exfalso. specialize (Hc j). lia. }
          rewrite (Hz (j - shift)) by lia.
          destruct (Z_lt_dec j minArr) as [L2|L2]; [apply Hz; lia|].
          destruct (Z_lt_dec maxArr j) as [G2|G2]; [apply Hz; lia|].
          exfalso. specialize (Hd j). lia.
    - unfold len. rewrite bins_with_offset, bins_with_bins, zlen_reset. exact Hcl. }
  destruct (Z.ltb_spec 0 shift) as [Hsh|Hsh].
  - rewrite reset_bins_with_bins by (auto; lia). eexists. split; [reflexivity|].
    apply Hfin; lia.
  - rewrite reset_bins_with_bins by (auto; lia). eexists. split; [reflexivity|].
    apply Hfin; lia.
Qed.

Ltac sred := unfold len, dget;
  cbn [with_range with_offset with_bins with_count bins offset minI maxI count lim collapsed].

Lemma center_counts_spec s lo hi :
  offset s <= minI s -> minI s <= maxI s -> maxI s < offset s + len s ->
  (forall i, i < minI s \/ maxI s < i -> dget s i = w0) ->
  lo <= minI s -> maxI s <= hi -> hi - lo + 1 <= len s ->
  exists s', center_counts s lo hi = Some s' /\
    (forall i, dget s' i = dget s i) /\ len s' = len s /\ minI s' = lo /\ maxI s' = hi /\
    count s' = count s /\ lim s' = lim s /\ offset s' <= lo /\ hi < offset s' + len s'.
Proof.
  intros Hlo Hmm Hhi Hout H1 H2 H3. unfold center_counts.
  destruct (shift_counts_spec s (offset s + len s / 2 - (lo + (hi - lo + 1) / 2)))
    as (s1 & E & Hg & Hl & Ho & _ & _ & Hc & Hk); try assumption.
  { Z.div_mod_to_equations. lia. }
  { Z.div_mod_to_equations. lia. }
  rewrite E. eexists. split; [reflexivity|].
  unfold dget, len in *. rewrite bins_with_range, offset_with_range. cbn [with_range minI maxI count lim].
  repeat split; auto.
  - rewrite Ho. Z.div_mod_to_equations. lia.
  - rewrite Ho, Hl. Z.div_mod_to_equations. lia.
Qed.

(* what extend_range establishes: same content, window enlarged and inside the array *)
Definition ext_post (s : dense) (lo hi : Z) (s' : dense) : Prop :=
  (forall i, dget s' i = dget s i) /\ count s' = count s /\ lim s' = lim s /\
  minI s' = Z.min lo (minI s) /\ maxI s' = Z.max hi (maxI s) /\
  offset s' <= minI s' /\ maxI s' < offset s' + len s'.

Section Policy.
Variable grow : Z -> Z.
Variable fixD1 : bool.
Hypothesis grow_ge : forall d, d <= grow d.

Lemma extend_range_spec s lo hi :
  Inv s -> lo <= hi -> idx_ok lo -> idx_ok hi ->
  exists s', extend_range grow fixD1 s lo hi = Some s' /\ ext_post s lo hi s'.
Proof.
  intros I Hlh Il Ih. unfold extend_range, get_new_length, adjust.
  remember (Z.min lo (minI s)) as lo' eqn:Elo. remember (Z.max hi (maxI s)) as hi' eqn:Ehi.
  pose proof (grow_ge (hi' - lo' + 1)) as Hg.
  destruct (is_empty s) eqn:Hem.
  - apply is_empty_true in Hem. destruct (inv_empty s I Hem) as [E1 E2].
    cbn [with_range with_offset with_bins lim]. rewrite (inv_lim s I).
    assert (Hz : forall j, at_ (bins s ++ zeros (grow (hi' - lo' + 1))) j = w0).
    { intros j. rewrite at_app_zeros, at_dget. now apply Inv_all_zero. }
    match goal with |- exists s', center_counts ?s1 _ _ = _ /\ _ =>
      destruct (center_counts_spec s1 lo' hi') as (s' & E & Hd & Hl & Hmi & Hma & Hc & Hk & Ho1 & Ho2) end;
      try (sred; rewrite ?zlen_app, ?zlen_zeros; pose proof (zlen_nonneg (bins s)); lia).
    { intros i _. sred. apply Hz. }
    exists s'. split; [exact E|]. unfold ext_post. rewrite <- Elo, <- Ehi, Hmi, Hma.
    repeat split; auto; try lia.
    intros i. rewrite Hd. unfold dget at 1. cbn [with_range with_offset with_bins bins offset]. rewrite Hz. symmetry. now apply Inv_all_zero.
  - apply is_empty_false in Hem. destruct (inv_win s I Hem) as (W1 & W2 & W3).
    destruct ((offset s <=? lo') && (hi' <? offset s + len s)) eqn:Efit.
    + eexists. split; [reflexivity|]. unfold ext_post, dget, len in *.
      cbn [with_range bins offset minI maxI count lim]. rewrite <- Elo, <- Ehi. repeat split; auto; lia.
    + rewrite (inv_lim s I).
      set (s1 := if len s <? grow (hi' - lo' + 1)
                 then with_bins s (bins s ++ zeros (grow (hi' - lo' + 1) - len s)) else s).
      assert (Hs1 : (forall i, dget s1 i = dget s i) /\ offset s1 = offset s /\ minI s1 = minI s /\
                    maxI s1 = maxI s /\ count s1 = count s /\ lim s1 = lim s /\
                    len s <= len s1 /\ grow (hi' - lo' + 1) <= len s1).
      { unfold s1. destruct (Z.ltb_spec (len s) (grow (hi' - lo' + 1))) as [L|L].
        - unfold dget, len. cbn [with_bins bins offset minI maxI count lim]. repeat split; auto.
          + intros i. apply at_app_zeros.
          + rewrite zlen_app. pose proof (zlen_nonneg (zeros (grow (hi' - lo' + 1) - zlen (bins s)))). lia.
          + rewrite zlen_app, zlen_zeros. unfold len in L. lia.
        - repeat split; auto; lia. }
      destruct Hs1 as (Hd1 & Ho1 & Hmi1 & Hma1 & Hc1 & Hk1 & Hl1 & Hl2).
      assert (Hlim1 : lim s1 = Exact) by (rewrite Hk1; apply (inv_lim s I)).
      rewrite Hlim1.
      destruct (center_counts_spec s1 lo' hi') as (s' & E & Hd & Hl & Hmi & Hma & Hc & Hk & Hp1 & Hp2);
        try lia.
      { intros i Hi. rewrite Hd1. apply (inv_out s I). lia. }
      exists s'. split; [exact E|]. unfold ext_post. rewrite <- Elo, <- Ehi, Hmi, Hma.
      repeat split; auto; try lia; try congruence.
Qed.

End Policy.

(* ================================================================== *)
(* Part D: refinement of the operations                                *)
(* ================================================================== *)

Lemma rsum_pos g lo hi :
  lo <= hi -> (forall i, (w0 <= g i)%Qc) -> (w0 < g lo)%Qc -> (w0 < rsum g lo hi)%Qc.
Proof.
  intros H Hn Hp. rewrite (rsum_split g lo lo hi) by lia. rewrite rsum_one.
  apply wadd_pos_l; [exact Hp|now apply rsum_nonneg].
Qed.

(* the common shape of add and merge: the content grows by a non-negative function g
   supported on [lo, hi] and positive at both ends *)
Lemma Inv_combine s s2 (g : Z -> W) lo hi :
  Inv s -> lo <= hi -> idx_ok lo -> idx_ok hi ->
  (forall i, (w0 <= g i)%Qc) -> (forall i, i < lo \/ hi < i -> g i = w0) ->
  (w0 < g lo)%Qc -> (w0 < g hi)%Qc ->
  lim s2 = Exact ->
  (forall i, dget s2 i = wadd (dget s i) (g i)) ->
  count s2 = wadd (count s) (rsum g lo hi) ->
  minI s2 = Z.min lo (minI s) -> maxI s2 = Z.max hi (maxI s) ->
  offset s2 <= minI s2 -> maxI s2 < offset s2 + len s2 ->
  Inv s2 /\ (forall i, get (dabs s2) i = wadd (get (dabs s) i) (g i)).
Proof.
  intros I Hlh Il Ih Gn Go Gl Gh Hk Hd Hc Hmi Hma Ho1 Ho2.
  pose proof (Inv_count_nonneg s I) as Cn.
  pose proof (rsum_pos g lo hi Hlh Gn Gl) as Rp.
  assert (Cnz : count s2 <> w0) by (rewrite Hc; apply wlt_neq; now apply wadd_pos_r).
  assert (Hmn : minI s2 <= lo) by lia. assert (Hmx : hi <= maxI s2) by lia.
  assert (Hends : (count s = w0 /\ minI s2 = lo /\ maxI s2 = hi) \/
                  (count s <> w0 /\ minI s <= maxI s /\ idx_ok (minI s) /\ idx_ok (maxI s))).
  { destruct (w_eq_dec (count s) w0) as [E|N].
    - left. destruct (inv_empty s I E) as [E1 E2]. rewrite E1 in Hmi. rewrite E2 in Hma.
      unfold idx_ok, MaxInt32, MinInt32 in *. repeat split; auto; lia.
    - right. destruct (inv_win s I N) as (_ & W & _). destruct (inv_idx s I N). auto. }
  assert (I2 : Inv s2).
  { constructor.
    - exact Hk.
    - intros i. rewrite Hd. apply wadd_nonneg; [apply (inv_nonneg s I)|apply Gn].
    - intros i Hi. rewrite Hd, (inv_out s I i), (Go i) by lia. apply wadd_0_l.
    - rewrite Hc, (rsum_ext (dget s2) (fun i => wadd (dget s i) (g i))) by (intros; apply Hd).
      rewrite rsum_add. f_equal.
      + rewrite (inv_count s I). symmetry. apply rsum_widen; [apply (inv_out s I)| | |]; lia.
      + symmetry. apply rsum_widen; [exact Go| | |]; lia.
    - intros E. contradiction.
    - intros _. lia.
    - intros _. rewrite !Hd. split.
      + destruct Hends as [(E & E1 & E2)|(N & W & _)].
        * rewrite E1. apply wadd_pos_r; [apply (inv_nonneg s I)|exact Gl].
        * destruct (Z_le_dec lo (minI s)) as [L|L].
          -- replace (minI s2) with lo by lia. apply wadd_pos_r; [apply (inv_nonneg s I)|exact Gl].
          -- replace (minI s2) with (minI s) by lia. apply wadd_pos_l; [apply (inv_ends s I N)|apply Gn].
      + destruct Hends as [(E & E1 & E2)|(N & W & _)].
        * rewrite E2. apply wadd_pos_r; [apply (inv_nonneg s I)|exact Gh].
        * destruct (Z_le_dec (maxI s) hi) as [L|L].
          -- replace (maxI s2) with hi by lia. apply wadd_pos_r; [apply (inv_nonneg s I)|exact Gh].
          -- replace (maxI s2) with (maxI s) by lia. apply wadd_pos_l; [apply (inv_ends s I N)|apply Gn].
    - intros _. destruct Hends as [(E & E1 & E2)|(N & W & J1 & J2)].
      + rewrite E1, E2. now split.
      + unfold idx_ok in *. lia. }
  split; [exact I2|]. intros i. now rewrite !get_dabs, Hd by assumption.
Qed.

Section PolicyAdd.
Variable grow : Z -> Z.
Variable fixD1 : bool.
Hypothesis grow_ge : forall d, d <= grow d.

Lemma normalize_spec s i :
  Inv s -> idx_ok i ->
  exists s1, normalize grow fixD1 s i = Some (s1, i - offset s1) /\ ext_post s i i s1.
Proof.
  intros I Ii. unfold normalize. rewrite (inv_lim s I).
  destruct ((i <? minI s) || (maxI s <? i)) eqn:E.
  - destruct (extend_range_spec grow fixD1 grow_ge s i i I (Z.le_refl i) Ii Ii) as (s1 & E1 & P). rewrite E1. eauto.
  - exists s. split; [reflexivity|].
    assert (N : count s <> w0) by (apply Inv_nonempty_iff; [exact I|lia]).
    destruct (inv_win s I N) as (W1 & W2 & W3). unfold ext_post. repeat split; auto; lia.
Qed.

Lemma add_with_count_zero s i : add_with_count grow fixD1 s i w0 = Some s.
Proof. reflexivity. Qed.

Theorem add_with_count_spec s i c :
  Inv s -> idx_ok i -> (w0 < c)%Qc ->
  exists s', add_with_count grow fixD1 s i c = Some s' /\ Inv s' /\ dabs s' = badd (dabs s) i c.
Proof.
  intros I Ii Hc. unfold add_with_count.
  assert (Ec : weqb c w0 = false) by (apply weqb_neq; now apply wlt_neq). rewrite Ec.
  destruct (normalize_spec s i I Ii) as (s1 & E & Hd & Hcn & Hk & Hmi & Hma & Ho1 & Ho2). rewrite E.
  assert (Hb : in_bounds s1 (i - offset s1) = true) by (unfold in_bounds; lia). rewrite Hb.
  eexists. split; [reflexivity|].
  match goal with |- Inv ?s2 /\ _ =>
    destruct (Inv_combine s s2 (fun k => if k =? i then c else w0) i i) as [I2 Hg] end;
    try assumption; try lia.
  - intros k. destruct (k =? i); [now apply wlt_le|apply wle_refl].
  - intros k Hk'. destruct (Z.eqb_spec k i); [lia|reflexivity].
  - now rewrite Z.eqb_refl.
  - now rewrite Z.eqb_refl.
  - cbn [with_count with_bins lim]. rewrite Hk. apply (inv_lim s I).
  - intros k. unfold dget at 1. cbn [with_count with_bins bins offset].
    unfold in_bounds, len in Hb. rewrite at_upd by lia. rewrite <- Hd. unfold dget.
    destruct (Z.eqb_spec (k - offset s1) (i - offset s1)); destruct (Z.eqb_spec k i); try lia;
      [reflexivity|now rewrite wadd_0_r].
  - cbn [with_count count]. rewrite rsum_one, Z.eqb_refl. now rewrite Hcn.
  - unfold len. cbn [with_count with_bins bins offset maxI]. rewrite zlen_upd. exact Ho2.
  - split; [exact I2|]. apply bins_ext; [apply dabs_wf| |].
    + apply badd_wf_pos; [apply dabs_wf|now apply dabs_pos|exact Hc].
    + intros k. rewrite Hg, get_badd by apply dabs_wf.
      destruct (Z.eqb_spec k i) as [->|N]; [reflexivity|apply wadd_0_r].
Qed.

Theorem add_with_count_spec0 s i c :
  Inv s -> idx_ok i -> (w0 <= c)%Qc ->
  exists s', add_with_count grow fixD1 s i c = Some s' /\ Inv s' /\ dabs s' = badd0 (dabs s) i c.
Proof.
  intros I Ii Hc. unfold badd0. destruct (weqb c w0) eqn:E.
  - apply weqb_eq in E. subst c. exists s. rewrite add_with_count_zero. split; [reflexivity|split; [exact I|reflexivity]].
  - apply weqb_neq in E. apply add_with_count_spec; auto. now apply wpos_of_nonneg_nz.
Qed.

Definition bins_ok (l : list (Z * W)) : Prop := forall k w, In (k, w) l -> idx_ok k /\ (w0 <= w)%Qc.

Lemma add_list_cons s kw l :
  add_list grow fixD1 s (kw :: l) =
  match add_with_count grow fixD1 s (fst kw) (snd kw) with
  | Some s1 => add_list grow fixD1 s1 l
  | None => None
  end.
Proof.
  unfold add_list. cbn [fold_left]. destruct (add_with_count grow fixD1 s (fst kw) (snd kw)); [reflexivity|].
  induction l as [|x l IH]; [reflexivity|exact IH].
Qed.
Theorem add_list_spec l : forall s,
  Inv s -> bins_ok l ->
  exists s', add_list grow fixD1 s l = Some s' /\ Inv s' /\ dabs s' = bmerge_list (dabs s) l.
Proof.
  induction l as [|[k w] l IH]; intros s I Hl.
  - exists s. split; [reflexivity|split; [exact I|reflexivity]].
  - destruct (Hl k w (or_introl eq_refl)) as [Hk Hw].
    destruct (add_with_count_spec0 s k w I Hk Hw) as (s1 & E1 & I1 & A1).
    destruct (IH s1 I1) as (s' & E' & I' & A'). { intros k' w' Hi. apply Hl. now right. }
    exists s'. rewrite add_list_cons. cbn [fst snd]. rewrite E1. split; [exact E'|split; [exact I'|]].
    rewrite A', A1. reflexivity.
Qed.

End PolicyAdd.

(* ---- ForEach / observers ---- *)
Lemma zrange_shift a b d : zrange (a - d) (b - d) = map (fun i => i - d) (zrange a b).
Proof.
  unfold zrange. replace (b - d - (a - d) + 1) with (b - a + 1) by lia. rewrite map_map.
  apply map_ext. intros k. lia.
Qed.
Lemma combine_map_self {A B} (g : A -> B) l : combine l (map g l) = map (fun x => (x, g x)) l.
Proof. induction l as [|x l IH]; [reflexivity|]. cbn [map combine]. now rewrite IH. Qed.

Lemma window_spec s :
  Inv s -> window s = Some (map (fun i => (i, dget s i)) (zrange (minI s) (maxI s))).
Proof.
  intros I. unfold window. destruct (Z.ltb_spec (maxI s) (minI s)) as [H|H].
  - now rewrite zrange_nil.
  - assert (N : count s <> w0) by (apply Inv_nonempty_iff; assumption).
    destruct (inv_win s I N) as (W1 & W2 & W3).
    assert (Hb : in_bounds s (minI s - offset s) && in_bounds s (maxI s - offset s) = true)
      by (unfold in_bounds; lia). rewrite Hb. f_equal.
    rewrite slice_eq_map by (unfold len in *; lia).
    replace (minI s - offset s + (maxI s - minI s + 1) - 1) with (maxI s - offset s) by lia.
    rewrite zrange_shift, map_map, combine_map_self. reflexivity.
Qed.
Theorem foreach_spec s : Inv s -> foreach s = Some (dabs s).
Proof.
  intros I. unfold foreach. rewrite window_spec by exact I. cbn [option_map]. f_equal.
  apply tab_filter_pos. apply (inv_nonneg s I).
Qed.

Lemma dabs_min s : Inv s -> count s <> w0 -> min_key (dabs s) = Some (minI s).
Proof.
  intros I N. destruct (inv_win s I N) as (_ & W & _). apply tab_min; [exact W|].
  apply wlt_neq. apply (inv_ends s I N).
Qed.
Lemma dabs_max s : Inv s -> count s <> w0 -> max_key (dabs s) = Some (maxI s).
Proof.
  intros I N. destruct (inv_win s I N) as (_ & W & _). apply tab_max; [exact W|].
  apply wlt_neq. apply (inv_ends s I N).
Qed.
Theorem total_d_spec s : Inv s -> total_d s = total (dabs s).
Proof. intros I. unfold total_d, dabs. rewrite tab_total. apply (inv_count s I). Qed.
Theorem is_empty_spec s : Inv s -> is_empty s = is_emptyb (dabs s).
Proof.
  intros I. destruct (is_empty s) eqn:E.
  - apply is_empty_true in E. now rewrite dabs_empty.
  - apply is_empty_false in E. pose proof (dabs_min s I E) as H. now destruct (dabs s).
Qed.
Theorem min_index_d_spec s : Inv s -> min_index_d s = min_key (dabs s).
Proof.
  intros I. unfold min_index_d. destruct (is_empty s) eqn:E.
  - apply is_empty_true in E. now rewrite dabs_empty.
  - apply is_empty_false in E. now rewrite dabs_min.
Qed.
Theorem max_index_d_spec s : Inv s -> max_index_d s = max_key (dabs s).
Proof.
  intros I. unfold max_index_d. destruct (is_empty s) eqn:E.
  - apply is_empty_true in E. now rewrite dabs_empty.
  - apply is_empty_false in E. now rewrite dabs_max.
Qed.

(* ---- KeyAtRank ---- *)
(* the loop of KeyAtRank as a top-level function *)
Fixpoint kgo (mx off : Z) (rank : W) (l : list W) (i : Z) (n : W) : Z :=
  match l with
  | [] => mx
  | b :: tl => let n' := wadd n b in if wltb rank n' then i + off else kgo mx off rank tl (i + 1) n'
  end.
Lemma key_at_rank_d_kgo s r :
  key_at_rank_d s r = kgo (maxI s) (offset s) (if wltb r w0 then w0 else r) (bins s) 0 w0.
Proof.
  unfold key_at_rank_d. cbv zeta. generalize (if wltb r w0 then w0 else r) as r'. intros r'.
  generalize 0 as i. generalize w0 as n. induction (bins s) as [|b tl IH]; intros n i; [reflexivity|].
  cbn [kgo]. cbv beta iota zeta. destruct (wltb r' (wadd n b)); [reflexivity|apply IH].
Qed.

(* the cells of an array with their indexes *)
Fixpoint cells_from (k : Z) (l : list W) : list (Z * W) :=
  match l with [] => [] | x :: tl => (k, x) :: cells_from (k + 1) tl end.
Definition nzc (l : list (Z * W)) : list (Z * W) := filter (fun kw => nzb (snd kw)) l.

Lemma cells_from_map l : forall k,
  cells_from k l = map (fun i => (i, at_ l (i - k))) (zrange k (k + zlen l - 1)).
Proof.
  induction l as [|x l IH]; intros k.
  - cbn [cells_from]. rewrite zrange_nil by (unfold zlen; cbn [length]; lia). reflexivity.
  - cbn [cells_from]. rewrite zlen_cons. pose proof (zlen_nonneg l).
    rewrite zrange_cons by lia. cbn [map]. f_equal.
    + f_equal. rewrite at_cons. replace (k - k) with 0 by lia. reflexivity.
    + rewrite IH. replace (k + 1 + zlen l - 1) with (k + (zlen l + 1) - 1) by lia.
      apply map_ext_in. intros i Hi. apply in_zrange in Hi. f_equal. rewrite at_cons.
      destruct (Z.eqb_spec (i - k) 0); [lia|]. f_equal. lia.
Qed.

Lemma kgo_spec mx off r : forall l i n,
  (n <= r)%Qc ->
  (nzc (cells_from (i + off) l) <> [] -> max_key (nzc (cells_from (i + off) l)) = Some mx) ->
  kgo mx off r l i n =
  match key_at_rank_from n (nzc (cells_from (i + off) l)) r with Some k => k | None => mx end.
Proof.
  induction l as [|x tl IH]; intros i n Hn Hmax; [reflexivity|].
  unfold nzc in *. cbn [kgo cells_from filter snd] in *. cbv zeta.
  replace (i + off + 1) with (i + 1 + off) in * by lia.
  destruct (nzb x) eqn:Ex.
  - destruct (wltb r (wadd n x)) eqn:Elt.
    + cbn [key_at_rank_from]. rewrite Elt. destruct (filter _ (cells_from (i + 1 + off) tl)); reflexivity.
    + apply wltb_nlt in Elt. rewrite (IH (i + 1) (wadd n x) Elt).
      * cbn [key_at_rank_from]. destruct (filter _ (cells_from (i + 1 + off) tl)) as [|p l0] eqn:Ef.
        -- cbn [key_at_rank_from]. specialize (Hmax ltac:(discriminate)). cbn [max_key] in Hmax. congruence.
        -- apply wltb_nlt in Elt. now rewrite Elt.
      * intros Hne. specialize (Hmax ltac:(discriminate)).
        destruct (filter _ (cells_from (i + 1 + off) tl)) as [|p l0] eqn:Ef; [contradiction|]. exact Hmax.
  - apply nzb_false in Ex. subst x. rewrite wadd_0_r.
    assert (Elt : wltb r n = false) by now apply wltb_nlt. rewrite Elt. apply IH; assumption.
Qed.

Lemma krf_some (b : list (Z * W)) : forall acc r, b <> [] -> exists k, key_at_rank_from acc b r = Some k.
Proof.
  induction b as [|[k w] tl IH]; intros acc r Hne; [contradiction|].
  cbn [key_at_rank_from]. destruct tl as [|p l0]; [eauto|].
  destruct (wltb r (wadd acc w)); [eauto|]. apply IH. discriminate.
Qed.
Lemma krf_first (b : list (Z * W)) acc r :
  posb b -> (r <= acc)%Qc -> key_at_rank_from acc b r = min_key b.
Proof.
  intros Hp Hr. destruct b as [|[k w] tl]; [reflexivity|]. cbn [key_at_rank_from min_key].
  destruct tl as [|p l0]; [reflexivity|].
  apply posb_cons in Hp. destruct Hp as [Hw _].
  assert (E : wltb r (wadd acc w) = true) by (apply wltb_lt; wlra). now rewrite E.
Qed.

Lemma nzc_cells_dabs s : Inv s -> nzc (cells_from (offset s) (bins s)) = dabs s.
Proof.
  intros I. rewrite cells_from_map. unfold nzc. fold (dget s).
  change (tab (dget s) (offset s) (offset s + zlen (bins s) - 1) = tab (dget s) (minI s) (maxI s)).
  apply tab_ext. intros i. destruct (w_eq_dec (count s) w0) as [E|N].
  - rewrite (Inv_all_zero s I E i). now destruct (_ && _), (_ && _).
  - destruct (inv_win s I N) as (W1 & W2 & W3). unfold len in W3.
    destruct ((offset s <=? i) && (i <=? offset s + zlen (bins s) - 1)) eqn:E1;
    destruct ((minI s <=? i) && (i <=? maxI s)) eqn:E2; try reflexivity; try lia.
    apply (inv_out s I). lia.
Qed.

Theorem key_at_rank_d_spec s r :
  Inv s -> count s <> w0 -> key_at_rank (dabs s) r = Some (key_at_rank_d s r).
Proof.
  intros I N. rewrite key_at_rank_d_kgo.
  set (r' := if wltb r w0 then w0 else r).
  assert (Hr' : (w0 <= r')%Qc).
  { unfold r'. destruct (wltb r w0) eqn:E; [apply wle_refl|now apply wltb_nlt]. }
  pose proof (dabs_min s I N) as Hmin.
  assert (Hne : dabs s <> []) by (intros E; rewrite E in Hmin; discriminate).
  rewrite (kgo_spec (maxI s) (offset s) r' (bins s) 0 w0 Hr');
    cbn [Z.add]; rewrite nzc_cells_dabs by exact I; [|intros _; now apply dabs_max].
  assert (Er : key_at_rank_from w0 (dabs s) r' = key_at_rank (dabs s) r).
  { unfold key_at_rank, r'. destruct (wltb r w0) eqn:E; [|reflexivity].
    apply wltb_lt in E. rewrite !krf_first; auto using dabs_pos, wle_refl. now apply wlt_le. }
  rewrite Er. destruct (krf_some (dabs s) w0 r Hne) as [k Hk]. unfold key_at_rank. now rewrite Hk.
Qed.

(* ---- Reweight ---- *)
Lemma bscale_ext (b : list (Z * W)) w (b' : list (Z * W)) :
  w <> w0 -> wf b = true -> wf b' = true -> (forall i, get b' i = wmul (get b i) w) -> b' = bscale w b.
Proof.
  intros Hw Hb Hb' H. apply bins_ext; [exact Hb'|now apply wf_bscale|].
  intros i. rewrite H, get_bscale. apply wmul_comm.
Qed.
Lemma Inv_scale s s2 w :
  Inv s -> (w0 < w)%Qc ->
  (forall i, dget s2 i = wmul (dget s i) w) -> count s2 = wmul (count s) w ->
  minI s2 = minI s -> maxI s2 = maxI s -> offset s2 = offset s -> len s2 = len s -> lim s2 = lim s ->
  Inv s2 /\ dabs s2 = bscale w (dabs s).
Proof.
  intros I Hw Hd Hc Hmi Hma Ho Hl Hk.
  assert (Hwn : w <> w0) by now apply wlt_neq.
  assert (Hcz : count s2 <> w0 -> count s <> w0).
  { intros N E. apply N. rewrite Hc, E. apply wmul_0_l. }
  assert (I2 : Inv s2).
  { constructor.
    - rewrite Hk. apply (inv_lim s I).
    - intros i. rewrite Hd. apply wmul_nonneg; [apply (inv_nonneg s I)|exact Hw].
    - intros i Hi. rewrite Hd, (inv_out s I i) by lia. apply wmul_0_l.
    - rewrite Hc, Hmi, Hma, (inv_count s I), <- rsum_scale. apply rsum_ext. intros; symmetry; apply Hd.
    - intros E. rewrite Hmi, Hma. apply (inv_empty s I). rewrite Hc in E. now apply (wmul_eq0 _ w).
    - intros N. rewrite Hmi, Hma, Ho, Hl. apply (inv_win s I (Hcz N)).
    - intros N. rewrite Hmi, Hma, !Hd. destruct (inv_ends s I (Hcz N)). split; now apply wmul_pos.
    - intros N. rewrite Hmi, Hma. apply (inv_idx s I (Hcz N)). }
  split; [exact I2|]. apply bscale_ext; [exact Hwn|apply dabs_wf|apply dabs_wf|].
  intros i. now rewrite !get_dabs, Hd by assumption.
Qed.

Theorem reweight_d_refused s w : (w <= w0)%Qc -> reweight_d s w = None.
Proof. intros H. unfold reweight_d. apply wleb_le in H. now rewrite H. Qed.
Theorem reweight_d_one s : reweight_d s w1 = Some (Some s).
Proof. reflexivity. Qed.
Theorem reweight_d_spec s w :
  Inv s -> (w0 < w)%Qc ->
  exists s', reweight_d s w = Some (Some s') /\ Inv s' /\ dabs s' = bscale w (dabs s).
Proof.
  intros I Hw. unfold reweight_d.
  assert (E0 : wleb w w0 = false) by now apply wleb_nle. rewrite E0.
  destruct (weqb w w1) eqn:E1.
  - apply weqb_eq in E1. exists s. split; [reflexivity|].
    apply Inv_scale; auto. + intros i. subst w. wring. + subst w. wring.
  - destruct (Z.ltb_spec (maxI s) (minI s)) as [H|H].
    + eexists. split; [reflexivity|]. apply Inv_scale; auto.
      intros i. unfold dget. cbn [with_count bins offset].
      assert (E : count s = w0).
      { destruct (w_eq_dec (count s) w0) as [E|N]; [exact E|]. destruct (inv_win s I N). lia. }
      fold (dget s i). rewrite (Inv_all_zero s I E). now rewrite wmul_0_l.
    + assert (N : count s <> w0) by (apply Inv_nonempty_iff; assumption).
      destruct (inv_win s I N) as (W1 & W2 & W3).
      assert (Hb : in_bounds s (minI s - offset s) && in_bounds s (maxI s - offset s) = true)
        by (unfold in_bounds; lia). rewrite Hb.
      eexists. split; [reflexivity|]. apply Inv_scale; auto.
      * intros i. unfold dget. cbn [with_count with_bins bins offset].
        rewrite at_map_range by (unfold len in *; lia).
        destruct ((minI s - offset s <=? i - offset s) && (i - offset s <=? maxI s - offset s)) eqn:E; [reflexivity|].
        fold (dget s i). rewrite (inv_out s I i) by lia. now rewrite wmul_0_l.
      * unfold len. cbn [with_count with_bins bins]. apply zlen_map_range.
Qed.

(* ---- Clear ---- *)
Theorem clear_d_spec s : lim s = Exact -> Inv (clear_d s) /\ dabs (clear_d s) = [].
Proof. intros H. split; [now apply Inv_clear|apply dabs_clear]. Qed.
Section PolicyMerge.
Variable grow : Z -> Z.
Variable fixD1 : bool.
Hypothesis grow_ge : forall d, d <= grow d.

(* a cleared store cannot be told from a new one: the retained offset never leaks *)
Theorem clear_like_new s l :
  lim s = Exact -> bins_ok l ->
  exists s1 s2, add_list grow fixD1 (clear_d s) l = Some s1 /\ add_list grow fixD1 (new_dense Exact) l = Some s2 /\
                Inv s1 /\ Inv s2 /\ dabs s1 = dabs s2.
Proof.
  intros H Hl.
  destruct (add_list_spec grow fixD1 grow_ge l (clear_d s) (Inv_clear s H) Hl) as (s1 & E1 & I1 & A1).
  destruct (add_list_spec grow fixD1 grow_ge l (new_dense Exact) Inv_new Hl) as (s2 & E2 & I2 & A2).
  exists s1, s2. split; [exact E1|split; [exact E2|split; [exact I1|split; [exact I2|]]]].
  now rewrite A1, A2, dabs_clear, dabs_new.
Qed.

(* ---- MergeWith ---- *)
Lemma bmerge_ext (a o b' : list (Z * W)) lo :
  wf a = true -> posb a -> keys_above lo o = true -> posb o -> wf b' = true ->
  (forall i, get b' i = wadd (get a i) (get o i)) -> b' = bmerge a o.
Proof.
  intros Ha Pa Ho Po Hb' H. unfold bmerge.
  destruct (bmerge_list_spec o a Ha Pa) as (M1 & _ & M3).
  { intros k w Hi. apply wlt_le. now apply (Po k). }
  apply bins_ext; [exact Hb'|exact M1|]. intros i. now rewrite H, M3, (gsum_get lo).
Qed.

Theorem merge_same_spec s o :
  Inv s -> Inv o -> count o <> w0 ->
  exists s', merge_same grow fixD1 s o = Some s' /\ Inv s' /\ dabs s' = bmerge (dabs s) (dabs o).
Proof.
  intros I Io No. unfold merge_same.
  destruct (inv_win o Io No) as (V1 & V2 & V3). destruct (inv_idx o Io No) as [J1 J2].
  assert (Hs1 : exists s1, (if (minI o <? minI s) || (maxI s <? maxI o)
                            then extend_range grow fixD1 s (minI o) (maxI o) else Some s) = Some s1 /\
                           ext_post s (minI o) (maxI o) s1).
  { destruct ((minI o <? minI s) || (maxI s <? maxI o)) eqn:E.
    - now apply extend_range_spec.
    - exists s. split; [reflexivity|].
      assert (N : count s <> w0) by (apply Inv_nonempty_iff; [exact I|lia]).
      destruct (inv_win s I N) as (W1 & W2 & W3). unfold ext_post. repeat split; auto; lia. }
  destruct Hs1 as (s1 & E1 & Hd & Hcn & Hk & Hmi & Hma & Ho1 & Ho2). rewrite E1.
  destruct (Z.ltb_spec (maxI o) (minI o)) as [L|_]; [lia|].
  assert (Hbo : in_bounds o (minI o - offset o) && in_bounds o (maxI o - offset o) = true)
    by (unfold in_bounds; lia). rewrite Hbo. cbn [negb]. cbv zeta.
  rewrite Hk, (inv_lim s I).
  assert (Hb1 : in_bounds s1 (minI o - offset s1) && in_bounds s1 (maxI o - offset s1) = true)
    by (unfold in_bounds; lia). rewrite Hb1.
  eexists. split; [reflexivity|].
  assert (Hsl : zlen (slice (bins o) (minI o - offset o) (maxI o - minI o + 1)) = maxI o - minI o + 1)
    by (apply zlen_slice; unfold len in *; lia).
  match goal with |- Inv ?s2 /\ _ =>
    destruct (Inv_combine s s2 (dget o) (minI o) (maxI o)) as [I2 Hg] end; try assumption.
  - apply (inv_nonneg o Io).
  - apply (inv_out o Io).
  - apply (inv_ends o Io No).
  - apply (inv_ends o Io No).
  - cbn [with_count with_bins lim]. rewrite Hk. apply (inv_lim s I).
  - intros i. unfold dget at 1. cbn [with_count with_bins bins offset].
    rewrite at_add_slice by (unfold len in *; lia). rewrite <- Hd. unfold dget at 1. f_equal.
    rewrite at_slice by lia.
    destruct ((0 <=? i - offset s1 - (minI o - offset s1)) && (i - offset s1 - (minI o - offset s1) <? maxI o - minI o + 1)) eqn:E.
    + unfold dget. f_equal. lia.
    + symmetry. apply (inv_out o Io). lia.
  - cbn [with_count count]. rewrite Hcn. f_equal. apply (inv_count o Io).
  - unfold len. cbn [with_count with_bins bins offset maxI]. rewrite zlen_add_slice. exact Ho2.
  - split; [exact I2|]. apply (bmerge_ext _ _ _ (minI o - 1)); auto using dabs_wf, dabs_pos.
    + apply tab_above. lia.
    + intros i. now rewrite Hg, (get_dabs o i Io).
Qed.

Theorem merge_dense_spec s o :
  Inv s -> Inv o ->
  exists s', merge_dense grow fixD1 s o = Some s' /\ Inv s' /\ dabs s' = bmerge (dabs s) (dabs o).
Proof.
  intros I Io. unfold merge_dense. destruct (is_empty o) eqn:E.
  - apply is_empty_true in E. exists s. rewrite (dabs_empty o Io E).
    split; [reflexivity|split; [exact I|reflexivity]].
  - apply is_empty_false in E. rewrite (inv_lim s I), (inv_lim o Io). cbn [same_type].
    now apply merge_same_spec.
Qed.
(* the generic path of MergeWith (argument of another store type): ForEach + AddWithCount *)
Theorem merge_dense_fallback s o l :
  Inv s -> is_empty o = false -> same_type (lim s) (lim o) = false -> foreach o = Some l -> bins_ok l ->
  exists s', merge_dense grow fixD1 s o = Some s' /\ Inv s' /\ dabs s' = bmerge_list (dabs s) l.
Proof.
  intros I E T F Hl. unfold merge_dense. rewrite E, T, F. now apply add_list_spec.
Qed.

(* ================================================================== *)
(* Part E: histories                                                   *)
(* ================================================================== *)
Inductive op := OAdd (i : Z) (c : W) | OClear | OReweight (w : W) | OMerge (o : dense).
Definition op_ok (x : op) : Prop :=
  match x with
  | OAdd i c => idx_ok i /\ (w0 <= c)%Qc
  | OClear => True
  | OReweight w => (w0 < w)%Qc
  | OMerge o => Inv o
  end.
(* one step of the store; a refused Reweight leaves the state unchanged *)
Definition run_op (s : dense) (x : op) : option dense :=
  match x with
  | OAdd i c => add_with_count grow fixD1 s i c
  | OClear => Some (clear_d s)
  | OReweight w => match reweight_d s w with Some r => r | None => Some s end
  | OMerge o => merge_dense grow fixD1 s o
  end.
Definition run (s : dense) (ops : list op) : option dense :=
  fold_left (fun acc x => match acc with None => None | Some s' => run_op s' x end) ops (Some s).
(* the same history on Layer A *)
Definition arun_op (b : list (Z * W)) (x : op) : list (Z * W) :=
  match x with
  | OAdd i c => badd0 b i c
  | OClear => []
  | OReweight w => bscale w b
  | OMerge o => bmerge b (dabs o)
  end.
Definition arun (b : list (Z * W)) (ops : list op) : list (Z * W) := fold_left arun_op ops b.

Lemma run_op_spec s x :
  Inv s -> op_ok x -> exists s', run_op s x = Some s' /\ Inv s' /\ dabs s' = arun_op (dabs s) x.
Proof.
  intros I Hx. destruct x as [i c| |w|o]; cbn [run_op arun_op op_ok] in *.
  - destruct Hx. now apply add_with_count_spec0.
  - exists (clear_d s). destruct (clear_d_spec s (inv_lim s I)) as [I' A'].
    split; [reflexivity|split; [exact I'|exact A']].
  - destruct (reweight_d_spec s w I Hx) as (s' & E & I' & A'). rewrite E. eauto.
  - now apply merge_dense_spec.
Qed.
Lemma run_cons s x ops :
  run s (x :: ops) = match run_op s x with Some s1 => run s1 ops | None => None end.
Proof.
  unfold run. cbn [fold_left]. destruct (run_op s x); [reflexivity|].
  induction ops as [|y ops IH]; [reflexivity|exact IH].
Qed.
Theorem run_refines_from ops : forall s,
  Inv s -> Forall op_ok ops ->
  exists s', run s ops = Some s' /\ Inv s' /\ dabs s' = arun (dabs s) ops.
Proof.
  induction ops as [|x ops IH]; intros s I Hok.
  - exists s. split; [reflexivity|split; [exact I|reflexivity]].
  - inversion Hok as [|? ? Hx Hops]; subst.
    destruct (run_op_spec s x I Hx) as (s1 & E1 & I1 & A1).
    destruct (IH s1 I1 Hops) as (s' & E' & I' & A').
    exists s'. rewrite run_cons, E1. split; [exact E'|split; [exact I'|]].
    rewrite A'. unfold arun. cbn [fold_left]. now rewrite A1.
Qed.
Theorem run_refines ops :
  Forall op_ok ops ->
  exists s, run (new_dense Exact) ops = Some s /\ Inv s /\ dabs s = arun [] ops.
Proof.
  intros H. destruct (run_refines_from ops (new_dense Exact) Inv_new H) as (s & E & I & A).
  exists s. rewrite dabs_new in A. auto.
Qed.
End PolicyMerge.

(* ================================================================== *)
(* Extras: ForEach list vs. bins_of_list; an executable checker of Inv *)
(* ================================================================== *)

(* a canonical list is a fixpoint of bins_of_list: the abstraction can equally be read off the
   ForEach enumeration *)
Lemma bins_of_list_canon (b : list (Z * W)) : wf b = true -> posb b -> bins_of_list b = b.
Proof.
  intros Hw Hp. unfold bins_of_list.
  destruct (bmerge_list_spec b [] eq_refl posb_nil) as (M1 & _ & M3).
  { intros k w Hi. apply wlt_le. now apply (Hp k). }
  apply bins_ext; [exact M1|exact Hw|]. intros i. rewrite M3. cbn [get]. rewrite wadd_0_l.
  destruct (wf_above b 0 Hw) as [lo [_ Hlo]]. now apply (gsum_get lo).
Qed.
Theorem foreach_abs s : Inv s -> exists l, foreach s = Some l /\ bins_of_list l = dabs s.
Proof.
  intros I. exists (dabs s). split; [now apply foreach_spec|].
  apply bins_of_list_canon; [apply dabs_wf|now apply dabs_pos].
Qed.

Definition inv_checkb (s : dense) : bool :=
  match lim s with Exact => true | _ => false end &&
  forallb (wleb w0) (bins s) &&
  weqb (count s) (sumW (bins s)) &&
  (if weqb (count s) w0
   then (minI s =? MaxInt32) && (maxI s =? MinInt32) && forallb (fun x => weqb x w0) (bins s)
   else (offset s <=? minI s) && (minI s <=? maxI s) && (maxI s <? offset s + len s) &&
        wltb w0 (dget s (minI s)) && wltb w0 (dget s (maxI s)) &&
        idx_okb (minI s) && idx_okb (maxI s) &&
        forallb (fun j => weqb (at_ (bins s) j) w0 || ((minI s - offset s <=? j) && (j <=? maxI s - offset s)))
                (zrange 0 (len s - 1))).

Lemma at_all0 l : (forall x, In x l -> x = w0) -> forall k, at_ l k = w0.
Proof.
  intros H k. unfold at_. destruct (k <? 0); [reflexivity|].
  destruct (nth_in_or_default (Z.to_nat k) l w0) as [Hi | E]; [now apply H|exact E].
Qed.

Theorem inv_checkb_sound s : inv_checkb s = true -> Inv s.
Proof.
  unfold inv_checkb. intros H.
  apply andb_true_iff in H. destruct H as [H Hcase].
  apply andb_true_iff in H. destruct H as [H Hsum].
  apply andb_true_iff in H. destruct H as [Hlim Hnn].
  assert (El : lim s = Exact) by (destruct (lim s); [reflexivity|discriminate|discriminate]).
  apply weqb_eq in Hsum.
  assert (Hnn' : forall i, (w0 <= dget s i)%Qc).
  { intros i. apply at_nonneg_of_all. intros x Hx. apply wleb_le.
    rewrite forallb_forall in Hnn. now apply Hnn. }
  destruct (weqb (count s) w0) eqn:Ec.
  - apply weqb_eq in Ec.
    apply andb_true_iff in Hcase. destruct Hcase as [Hcase Hz].
    apply andb_true_iff in Hcase. destruct Hcase as [Hmi Hma].
    apply Z.eqb_eq in Hmi. apply Z.eqb_eq in Hma.
    assert (Hz' : forall i, dget s i = w0).
    { intros i. apply at_all0. intros x Hx. apply weqb_eq. rewrite forallb_forall in Hz. now apply Hz. }
    constructor; try (intros N; contradiction); auto.
    rewrite Ec. symmetry. apply rsum_zero. intros; apply Hz'.
  - apply weqb_neq in Ec.
    repeat (apply andb_true_iff in Hcase; let H := fresh "Hc" in destruct Hcase as [Hcase H]).
    rename Hcase into Hw1.
    apply Z.leb_le in Hw1. apply Z.leb_le in Hc5. apply Z.ltb_lt in Hc4.
    apply wltb_lt in Hc3. apply wltb_lt in Hc2.
    unfold idx_okb in Hc1, Hc0.
    assert (Hout : forall i, i < minI s \/ maxI s < i -> dget s i = w0).
    { intros i Hi. unfold dget. destruct (Z_lt_dec (i - offset s) 0) as [L|L]; [apply at_out; lia|].
      destruct (Z_le_dec (zlen (bins s)) (i - offset s)) as [G|G]; [apply at_out; lia|].
      rewrite forallb_forall in Hc. specialize (Hc (i - offset s)).
      rewrite in_zrange in Hc. unfold len in Hc. specialize (Hc ltac:(lia)).
      apply orb_true_iff in Hc. destruct Hc as [Hc|Hc]; [now apply weqb_eq|lia]. }
    constructor; auto; try (intros E; contradiction).
    + rewrite Hsum, sumW_rsum.
      rewrite <- (rsum_shift (at_ (bins s)) (offset s) 0 (zlen (bins s) - 1)). fold (dget s).
      apply rsum_widen; [exact Hout| | |]; unfold len in *; lia.
    + intros _. unfold idx_ok. lia.
Qed.
