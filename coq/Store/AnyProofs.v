(* The five store kinds behind the one interface of Store/Any.v refine the Layer A stores of
   Spec/Bins.v, with the EXECUTABLE policies (grow63, pgrow8, worth32, x_full, x_visit, ZSort.sort)
   plugged in.  Every proof is a dispatch to the per-kind files (DenseProofs, CollapsingProofs,
   PaginatedProofs, SparseProofs).  Stdlib only, axiom-free.
     StInv s      the representation invariant of whichever kind s is
     st_kind s    the kind (Go type + capacity) of s; every operation preserves it
     st_abs s     (Store/Any.v) the Layer A content
   Option results: [None] = the Go code would panic, so "exists s', f ... = Some s'" is the
   no-panic statement. *)
From Coq Require Import Sorting.Sorted Permutation Sorting.Mergesort.
From SK Require Import Store.Any Store.DenseProofs Store.CollapsingProofs Store.PaginatedProofs
                       Store.SparseProofs Spec.BinsProofs.
Local Open Scope Z_scope.

(* ================================================================== *)
(** * 0. The executable policies satisfy the hypotheses of the per-kind files *)
(* ================================================================== *)
Lemma x_grow_ok : forall d, d <= grow63 d.
Proof. intros d. unfold grow63. lia. Qed.
Lemma x_pgrow_ok : pgrow_ok pgrow8.
Proof.
  intros r. unfold pgrow8, PSLACK.
  pose proof (Z.div_mod (r + 7) 8 ltac:(lia)) as H. pose proof (Z.mod_pos_bound (r + 7) 8 ltac:(lia)) as H1.
  lia.
Qed.
Lemma x_sort_ok : sort_ok ZSort.sort.
Proof.
  intros l. split; [|apply ZSort.Permuted_sort].
  pose proof (ZSort.Sorted_sort l) as H. induction H as [|a l' Hs IH Hd]; constructor; [exact IH|].
  destruct Hd as [|b l'' Hab]; constructor. apply Z.leb_le. exact Hab.
Qed.

(* ================================================================== *)
(** * 1. Kinds, invariant, content                                     *)
(* ================================================================== *)
Definition st_kind (s : store) : kind :=
  match s with
  | SD d => match lim d with Exact => KDense | Lowest n => KLow n | Highest n => KHigh n end
  | SS _ => KSparse
  | SP _ => KPag
  end.
Definition kind_limit (k : kind) : limit :=
  match k with KLow n => Lowest n | KHigh n => Highest n | _ => Exact end.
Definition kind_ok (k : kind) : Prop :=
  match k with KLow n => 1 <= n | KHigh n => 1 <= n | _ => True end.

Lemma st_limit_kind s : st_limit s = kind_limit (st_kind s).
Proof. destruct s as [d|m|p]; cbn [st_limit st_kind]; [destruct (lim d)|..]; reflexivity. Qed.
Lemma st_kind_new k : st_kind (st_new k) = k.
Proof. destruct k; reflexivity. Qed.
Lemma st_limit_new k : st_limit (st_new k) = kind_limit k.
Proof. rewrite st_limit_kind, st_kind_new. reflexivity. Qed.
Lemma kind_limit_ok k : kind_ok k -> limit_ok (kind_limit k).
Proof. destruct k; cbn [kind_ok kind_limit limit_ok]; auto. Qed.

(* every key is an int32 *)
Definition keys_ok (b : list (Z * W)) : Prop := forall k w, In (k, w) b -> idx_ok k.

(* The sparse store is the Layer A map itself: canonical, positive, and (this is what makes it an
   acceptable ARGUMENT of MergeWith for the array-backed kinds, whose AddWithCount is only specified
   on int32 indexes, and it is what every reachable sparse store satisfies) with int32 keys. *)
Definition StInv (s : store) : Prop :=
  match s with
  | SD d => match lim d with
            | Exact => Inv d
            | Lowest n => 1 <= n /\ CI n d
            | Highest n => 1 <= n /\ CI n d
            end
  | SS m => wf m = true /\ pos m /\ keys_ok m
  | SP p => PInv p
  end.

(* the canonical content, kind by kind *)
Definition st_content (s : store) : list (Z * W) :=
  match s with SD d => dabs d | SS m => m | SP p => pabs p end.

Lemma StInv_SD_cases d :
  StInv (SD d) ->
  (lim d = Exact /\ Inv d) \/
  (exists n, lim d = Lowest n /\ 1 <= n /\ CI n d) \/
  (exists n, lim d = Highest n /\ 1 <= n /\ CI n d).
Proof.
  cbn [StInv]. destruct (lim d) as [|n|n] eqn:L; intros H.
  - left. split; [reflexivity|exact H].
  - right. left. exists n. destruct H as [H1 H2]. split; [reflexivity|]. split; assumption.
  - right. right. exists n. destruct H as [H1 H2]. split; [reflexivity|]. split; assumption.
Qed.
Lemma StInv_exact d : Inv d -> StInv (SD d).
Proof. intros I. cbn [StInv]. rewrite (inv_lim d I). exact I. Qed.
Lemma StInv_low d n : lim d = Lowest n -> 1 <= n -> CI n d -> StInv (SD d).
Proof. intros L Hn C. cbn [StInv]. rewrite L. split; assumption. Qed.
Lemma StInv_high d n : lim d = Highest n -> 1 <= n -> CI n d -> StInv (SD d).
Proof. intros L Hn C. cbn [StInv]. rewrite L. split; assumption. Qed.
Lemma StInv_SD_winv d : StInv (SD d) -> WInv d.
Proof.
  intros H. destruct (StInv_SD_cases d H) as [[_ I]|[(n & _ & _ & C)|(n & _ & _ & C)]];
    [now apply WInv_of_Inv|now apply (WInv_of_CI n)|now apply (WInv_of_CI n)].
Qed.

Theorem StInv_new k : kind_ok k -> StInv (st_new k).
Proof.
  destruct k as [| | |n|n]; cbn [kind_ok st_new]; intros Hk.
  - apply StInv_exact. exact Inv_new.
  - cbn [StInv]. unfold new_sparse. split; [reflexivity|]. split; [constructor|]. intros k w [].
  - exact PInv_new.
  - apply (StInv_low _ n); [reflexivity|exact Hk|apply CI_new; lia].
  - apply (StInv_high _ n); [reflexivity|exact Hk|apply CI_new; lia].
Qed.
Lemma StInv_kind_ok s : StInv s -> kind_ok (st_kind s).
Proof.
  destruct s as [d|m|p]; cbn [st_kind kind_ok]; try (intros _; exact I).
  intros H. destruct (StInv_SD_cases d H) as [[L _]|[(n & L & Hn & _)|(n & L & Hn & _)]]; rewrite L; cbn [kind_ok]; auto.
Qed.
Lemma StInv_limit_ok s : StInv s -> limit_ok (st_limit s).
Proof. intros H. rewrite st_limit_kind. apply kind_limit_ok. now apply StInv_kind_ok. Qed.

(* ---- keys of the content are int32 ---- *)
Lemma keys_ok_nil : keys_ok [].
Proof. intros k w []. Qed.
Lemma keys_ok_badd b i c : keys_ok b -> idx_ok i -> keys_ok (badd b i c).
Proof.
  intros Hb Hi. induction b as [|[k w] tl IH]; cbn [badd].
  - intros k' w' [E|[]]. inversion E; subst. exact Hi.
  - destruct (i <? k).
    + intros k' w' [E|Hin]; [inversion E; subst; exact Hi|now apply (Hb k' w')].
    + destruct (i =? k).
      * intros k' w' [E|Hin]; [inversion E; subst; apply (Hb k' w); now left|apply (Hb k' w'); now right].
      * intros k' w' [E|Hin]; [inversion E; subst; apply (Hb k' w'); now left|].
        apply (IH (fun a b H => Hb a b (or_intror H)) k' w' Hin).
Qed.
Lemma keys_ok_badd0 b i c : keys_ok b -> idx_ok i -> keys_ok (badd0 b i c).
Proof. intros Hb Hi. unfold badd0. destruct (weqb c w0); [exact Hb|now apply keys_ok_badd]. Qed.
Lemma keys_ok_bscale f b : keys_ok b -> keys_ok (bscale f b).
Proof.
  intros Hb k w Hin. unfold bscale in Hin. apply in_map_iff in Hin. destruct Hin as ([k' w'] & E & Hin).
  cbn [fst snd] in E. inversion E; subst. now apply (Hb k w').
Qed.
Lemma pabs_keys_ok p : PInv p -> keys_ok (pabs p).
Proof.
  intros H k w Hi.
  assert (Hin : In k (map fst (pabs p))) by (apply in_map_iff; exists (k, w); auto).
  pose proof (In_get_neq0 (pabs p) k (wf_pabs p H) Hin) as Hg.
  rewrite get_pabs in Hg by exact H. unfold pget in Hg.
  destruct (in_dec Z.eq_dec k (buffer p)) as [Hb|Hb].
  - exact (proj1 (Forall_forall _ _) (inv_buf p H) k Hb).
  - rewrite (cnt_notin _ _ Hb), BinsProofs.wadd_0_l in Hg. unfold cell in Hg.
    assert (Hp : pgat (pages p) (page_index k - minPage p) <> []).
    { intros E. apply Hg. rewrite E. apply PaginatedProofs.at_nil. }
    pose proof (inv_alloc p H _ Hp) as Hok.
    replace (minPage p + (page_index k - minPage p)) with (page_index k) in Hok by lia.
    unfold page_ok, PB in Hok. rewrite page_index_div in Hok. unfold idx_ok, MinInt32, MaxInt32.
    pose proof (Z.div_mod k 32 ltac:(lia)) as D. pose proof (Z.mod_pos_bound k 32 ltac:(lia)) as M. lia.
Qed.

Lemma bins_ok_of_keys b : keys_ok b -> pos b -> bins_ok b.
Proof.
  intros Hk Hp k w Hin. split; [now apply (Hk k w)|].
  apply wpos_nonneg. exact (proj1 (Forall_forall _ _) Hp (k, w) Hin).
Qed.
Lemma adds_ok_of_bins_ok l : bins_ok l -> adds_ok l.
Proof. intros H. apply Forall_forall. intros [k w] Hin. cbn [fst snd]. now apply (H k w). Qed.
Lemma bins_ok_cons k w l : bins_ok ((k, w) :: l) <-> (idx_ok k /\ (w0 <= w)%Qc) /\ bins_ok l.
Proof.
  split.
  - intros H. split; [apply H; now left|]. intros k' w' Hi. apply H. now right.
  - intros [H1 H2] k' w' [E|Hi]; [inversion E; subst; exact H1|now apply H2].
Qed.

(* ---- the content is canonical, positive, with int32 keys ---- *)
Lemma st_content_canon s :
  StInv s -> wf (st_content s) = true /\ pos (st_content s) /\ keys_ok (st_content s).
Proof.
  destruct s as [d|m|p]; cbn [st_content].
  - intros H. pose proof (StInv_SD_winv d H) as Wd. split; [apply dabs_wf|]. split; [now apply dabs_pos_winv|].
    intros k w Hin. exact (proj1 (dabs_bins_ok d Wd k w Hin)).
  - cbn [StInv]. tauto.
  - cbn [StInv]. intros H. split; [now apply wf_pabs|]. split; [now apply pos_pabs|now apply pabs_keys_ok].
Qed.

(* ForEach: never panics, visits exactly the canonical content, leaves a store of the same content *)
Lemma st_foreach_content s :
  StInv s ->
  exists s', st_foreach s = Some (s', st_content s) /\ StInv s' /\ st_kind s' = st_kind s /\
             st_content s' = st_content s.
Proof.
  destruct s as [d|m|p]; intros H.
  - exists (SD d). cbn [st_foreach st_content]. rewrite (foreach_winv d (StInv_SD_winv d H)).
    cbn [option_map]. auto.
  - exists (SS m). cbn [st_foreach st_content]. unfold sp_foreach, x_visit. auto.
  - cbn [StInv] in H. destruct (p_foreach_spec ZSort.sort p x_sort_ok H) as (E & I' & _ & A').
    exists (SP (with_buffer p (ZSort.sort (buffer p)))). cbn [st_foreach st_content st_kind StInv].
    unfold pp_foreach. rewrite E. auto.
Qed.

Theorem st_abs_content s : StInv s -> st_abs s = st_content s.
Proof.
  intros H. unfold st_abs. destruct (st_foreach_content s H) as (s' & E & _). rewrite E.
  destruct (st_content_canon s H) as (Hw & Hp & _). now apply bins_of_list_canon.
Qed.

(* st_abs_spec: the abstraction is the canonical positive content (dabs / the map / pabs) *)
Theorem st_abs_spec s :
  StInv s ->
  st_abs s = match s with SD d => dabs d | SS m => m | SP p => pabs p end /\
  wf (st_abs s) = true /\ pos (st_abs s) /\ keys_ok (st_abs s).
Proof.
  intros H. rewrite (st_abs_content s H). split; [reflexivity|]. now apply st_content_canon.
Qed.
Lemma st_abs_wf s : StInv s -> wf (st_abs s) = true.
Proof. intros H. apply (st_abs_spec s H). Qed.
Lemma st_abs_pos s : StInv s -> pos (st_abs s).
Proof. intros H. apply (st_abs_spec s H). Qed.
Lemma st_abs_keys_ok s : StInv s -> keys_ok (st_abs s).
Proof. intros H. apply (st_abs_spec s H). Qed.
Lemma st_abs_bins_ok s : StInv s -> bins_ok (st_abs s).
Proof. intros H. apply bins_ok_of_keys; [now apply st_abs_keys_ok|now apply st_abs_pos]. Qed.
Lemma st_abs_new k : st_abs (st_new k) = [].
Proof. destruct k; vm_compute; reflexivity. Qed.

(* the content of a store is a fixpoint of the normal form of its kind *)
Theorem st_abs_norm s : StInv s -> norm (st_limit s) (st_abs s) = st_abs s.
Proof.
  intros H. rewrite (st_abs_content s H). destruct s as [d|m|p]; cbn [st_limit st_content]; try reflexivity.
  destruct (StInv_SD_cases d H) as [[L _]|[(n & L & Hn & C)|(n & L & Hn & C)]]; rewrite L; cbn [norm];
    [reflexivity|now apply clamp_low_fix|now apply clamp_high_fix].
Qed.

(* ================================================================== *)
(** * 2. AddWithCount / Add: never panic, refine [sadd]                *)
(* ================================================================== *)
Lemma sadd_exact b i c : sadd Exact b i c = badd0 b i c.
Proof. reflexivity. Qed.

Lemma st_addw_content s i c :
  StInv s -> idx_ok i -> (w0 <= c)%Qc ->
  exists s', st_addw s i c = Some s' /\ StInv s' /\ st_kind s' = st_kind s /\
             st_content s' = sadd (st_limit s) (st_content s) i c.
Proof.
  intros H Hi Hc. destruct s as [d|m|p]; cbn [st_addw st_limit st_content].
  - unfold d_add.
    destruct (StInv_SD_cases d H) as [[L I]|[(n & L & Hn & C)|(n & L & Hn & C)]].
    + destruct (add_with_count_spec0 grow63 true x_grow_ok d i c I Hi Hc) as (d' & E & I' & A).
      exists (SD d'). rewrite E. cbn [option_map]. split; [reflexivity|]. split; [now apply StInv_exact|].
      cbn [st_kind st_content]. rewrite (inv_lim d' I'), L. split; [reflexivity|]. exact A.
    + destruct (add_with_count_low0 grow63 x_grow_ok n Hn d i c C L Hi Hc) as (d' & E & C' & L' & A).
      exists (SD d'). rewrite E. cbn [option_map]. split; [reflexivity|]. split; [now apply (StInv_low d' n)|].
      cbn [st_kind st_content]. rewrite L', L. split; [reflexivity|]. exact A.
    + destruct (add_with_count_high0 grow63 x_grow_ok n Hn d i c C L Hi Hc) as (d' & E & C' & L' & A).
      exists (SD d'). rewrite E. cbn [option_map]. split; [reflexivity|]. split; [now apply (StInv_high d' n)|].
      cbn [st_kind st_content]. rewrite L', L. split; [reflexivity|]. exact A.
  - destruct H as (Hw & Hp & Hk). exists (SS (sp_add_with_count m i c)). split; [reflexivity|].
    change (sp_add_with_count m i c) with (badd0 m i c). cbn [StInv st_kind st_content].
    split; [|split; reflexivity]. split; [now apply wf_badd0|]. split; [now apply pos_badd0|now apply keys_ok_badd0].
  - cbn [StInv] in H. unfold pp_add.
    destruct (p_add_with_count_abs pgrow8 worth32 x_full ZSort.sort x_pgrow_ok x_sort_ok p i c H Hi Hc) as [I' A].
    eexists. split; [reflexivity|]. cbn [StInv st_kind st_content]. split; [exact I'|]. split; [reflexivity|].
    rewrite sadd_exact. exact A.
Qed.

(* AddWithCount(i, c) for an int32 index and c >= 0: no panic; invariant and kind kept; Layer A [sadd] *)
Theorem st_addw_spec s i c :
  StInv s -> idx_ok i -> (w0 <= c)%Qc ->
  exists s', st_addw s i c = Some s' /\ StInv s' /\ st_kind s' = st_kind s /\
             st_abs s' = sadd (st_limit s) (st_abs s) i c.
Proof.
  intros H Hi Hc. destruct (st_addw_content s i c H Hi Hc) as (s' & E & I' & K & A).
  exists s'. rewrite (st_abs_content s' I'), (st_abs_content s H). auto.
Qed.
Corollary st_addw_no_panic s i c : StInv s -> idx_ok i -> (w0 <= c)%Qc -> st_addw s i c <> None.
Proof. intros H Hi Hc. destruct (st_addw_spec s i c H Hi Hc) as (s' & E & _). rewrite E. discriminate. Qed.

Lemma w1_nonneg : (w0 <= w1)%Qc.
Proof. apply wpos_nonneg. apply w1_pos. Qed.

(* Add(i) = AddWithCount(i, 1), also for the stores with a dedicated unit path (sparse, paginated buffer) *)
Theorem st_add_spec s i :
  StInv s -> idx_ok i ->
  exists s', st_add s i = Some s' /\ StInv s' /\ st_kind s' = st_kind s /\
             st_abs s' = sadd (st_limit s) (st_abs s) i w1.
Proof.
  intros H Hi. destruct s as [d|m|p].
  - exact (st_addw_spec (SD d) i w1 H Hi w1_nonneg).
  - destruct (st_addw_spec (SS m) i w1 H Hi w1_nonneg) as (s' & E & R).
    exists s'. split; [|exact R]. cbn [st_add st_addw] in *. rewrite <- E.
    rewrite sp_add_badd. reflexivity.
  - pose proof H as H0. cbn [StInv] in H0.
    destruct (p_add_abs pgrow8 worth32 x_full ZSort.sort x_pgrow_ok x_sort_ok p i H0 Hi) as [I' A].
    eexists. split; [reflexivity|].
    assert (I2 : StInv (SP (p_add pgrow8 worth32 x_full ZSort.sort p i))) by exact I'.
    split; [exact I2|]. split; [reflexivity|].
    rewrite (st_abs_content _ I2), (st_abs_content _ H). cbn [st_content st_limit]. rewrite sadd_exact, A.
    symmetry. apply badd0_nz. apply wpos_neq. apply w1_pos.
Qed.
Corollary st_add_no_panic s i : StInv s -> idx_ok i -> st_add s i <> None.
Proof. intros H Hi. destruct (st_add_spec s i H Hi) as (s' & E & _). rewrite E. discriminate. Qed.

(* ================================================================== *)
(** * 3. Observers                                                     *)
(* ================================================================== *)
Theorem st_total_spec s : StInv s -> st_total s = total (st_abs s).
Proof.
  intros H. rewrite (st_abs_content s H). destruct s as [d|m|p]; cbn [st_total st_content].
  - exact (total_d_spec (as_exact d) (StInv_SD_winv d H)).
  - reflexivity.
  - apply p_total_spec.
Qed.
Theorem st_is_empty_spec s : StInv s -> st_is_empty s = is_emptyb (st_abs s).
Proof.
  intros H. rewrite (st_abs_content s H). destruct s as [d|m|p]; cbn [st_is_empty st_content].
  - exact (is_empty_spec (as_exact d) (StInv_SD_winv d H)).
  - reflexivity.
  - now apply p_is_empty_spec.
Qed.
Theorem st_min_spec s : StInv s -> st_min s = min_key (st_abs s).
Proof.
  intros H. rewrite (st_abs_content s H). destruct s as [d|m|p]; cbn [st_min st_content].
  - exact (min_index_d_spec (as_exact d) (StInv_SD_winv d H)).
  - reflexivity.
  - apply p_min_spec; [exact x_sort_ok|exact H].
Qed.
Theorem st_max_spec s : StInv s -> st_max s = max_key (st_abs s).
Proof.
  intros H. rewrite (st_abs_content s H). destruct s as [d|m|p]; cbn [st_max st_content].
  - exact (max_index_d_spec (as_exact d) (StInv_SD_winv d H)).
  - reflexivity.
  - apply p_max_spec; [exact x_sort_ok|exact H].
Qed.
Lemma st_is_empty_true s : StInv s -> (st_is_empty s = true <-> st_abs s = []).
Proof. intros H. rewrite (st_is_empty_spec s H). apply is_emptyb_iff. Qed.
Lemma st_is_empty_false s : StInv s -> (st_is_empty s = false <-> st_abs s <> []).
Proof.
  intros H. rewrite (st_is_empty_spec s H). destruct (st_abs s); cbn [is_emptyb]; split; congruence.
Qed.
Lemma st_total_nonneg s : StInv s -> (w0 <= st_total s)%Qc.
Proof. intros H. rewrite (st_total_spec s H). apply total_nonneg. apply pos_nonneg. now apply st_abs_pos. Qed.
Lemma st_total_zero_iff s : StInv s -> (st_total s = w0 <-> st_abs s = []).
Proof. intros H. rewrite (st_total_spec s H). apply total_eq0_iff. now apply st_abs_pos. Qed.

(* ForEach: no panic; the visited list IS the canonical content (so bins_of_list of it too); the
   store it leaves (the paginated store sorts its buffer) has the same content, invariant and kind *)
Theorem st_foreach_spec s :
  StInv s ->
  exists s' l, st_foreach s = Some (s', l) /\ StInv s' /\ st_kind s' = st_kind s /\
               st_abs s' = st_abs s /\ l = st_abs s /\ bins_of_list l = st_abs s.
Proof.
  intros H. destruct (st_foreach_content s H) as (s' & E & I' & K & A).
  exists s', (st_content s). rewrite (st_abs_content s' I'), (st_abs_content s H).
  destruct (st_content_canon s H) as (Hw & Hp & _).
  split; [exact E|]. split; [exact I'|]. split; [exact K|]. split; [exact A|]. split; [reflexivity|].
  now apply bins_of_list_canon.
Qed.

(* KeyAtRank: any rank (negative or beyond the total included); on a non-empty store it is the
   Layer A [key_at_rank]; the store it leaves has the same content *)
Lemma sp_key_at_rank_spec (m : list (Z * W)) r : m <> [] -> key_at_rank m r = Some (sp_key_at_rank m r).
Proof. intros Hne. unfold key_at_rank. rewrite (kar_go_karf r m w0 Hne). reflexivity. Qed.

Theorem st_key_at_rank_spec s r :
  StInv s ->
  exists s' k, st_key_at_rank s r = (s', k) /\ StInv s' /\ st_kind s' = st_kind s /\
               st_abs s' = st_abs s /\ (st_abs s <> [] -> key_at_rank (st_abs s) r = Some k).
Proof.
  intros H. destruct s as [d|m|p].
  - exists (SD d), (key_at_rank_d d r). cbn [st_key_at_rank]. split; [reflexivity|]. split; [exact H|].
    split; [reflexivity|]. split; [reflexivity|]. rewrite (st_abs_content _ H). cbn [st_content]. intros Hne.
    pose proof (StInv_SD_winv d H) as Wd.
    assert (N : count d <> w0). { intros E. apply Hne. now apply dabs_empty_winv. }
    exact (key_at_rank_d_spec (as_exact d) r Wd N).
  - exists (SS m), (sp_key_at_rank m r). cbn [st_key_at_rank]. split; [reflexivity|]. split; [exact H|].
    split; [reflexivity|]. split; [reflexivity|]. rewrite (st_abs_content _ H). cbn [st_content].
    apply sp_key_at_rank_spec.
  - pose proof H as H0. cbn [StInv] in H0.
    pose proof (p_key_at_rank_spec ZSort.sort p r x_sort_ok H0) as Hs. cbv zeta in Hs.
    destruct Hs as (I' & _ & A & K & _).
    cbn [st_key_at_rank]. destruct (p_key_at_rank ZSort.sort p r) as [p' k]. cbn [fst snd] in *.
    exists (SP p'), k. split; [reflexivity|].
    assert (I2 : StInv (SP p')) by exact I'. split; [exact I2|]. split; [reflexivity|].
    rewrite (st_abs_content _ I2), (st_abs_content _ H). cbn [st_content]. split; [exact A|exact K].
Qed.

(* ================================================================== *)
(** * 4. MergeWith, all 25 kind pairs                                  *)
(* ================================================================== *)
Lemma smerge_list_exact_eq a xs : smerge_list Exact a xs = bmerge_list a xs.
Proof. reflexivity. Qed.
Lemma smerge_list_nil_r l a : smerge_list l a [] = a.
Proof. reflexivity. Qed.
Lemma smerge_list_cons_eq l a k c xs : smerge_list l a ((k, c) :: xs) = smerge_list l (sadd l a k c) xs.
Proof. reflexivity. Qed.

Lemma st_add_list_cons s kw l :
  st_add_list s (kw :: l) =
  match st_addw s (fst kw) (snd kw) with Some s1 => st_add_list s1 l | None => None end.
Proof.
  unfold st_add_list. cbn [fold_left]. destruct (st_addw s (fst kw) (snd kw)); [reflexivity|].
  induction l as [|x l IH]; [reflexivity|exact IH].
Qed.

(* the generic path: a sequence of AddWithCount over any list of (int32 index, weight >= 0) *)
Theorem st_add_list_spec l : forall s,
  StInv s -> bins_ok l ->
  exists s', st_add_list s l = Some s' /\ StInv s' /\ st_kind s' = st_kind s /\
             st_abs s' = smerge_list (st_limit s) (st_abs s) l.
Proof.
  induction l as [|[k w] l IH]; intros s H Hl.
  - exists s. split; [reflexivity|]. split; [exact H|]. split; reflexivity.
  - apply bins_ok_cons in Hl. destruct Hl as [[Hk Hw] Hl].
    destruct (st_addw_spec s k w H Hk Hw) as (s1 & E1 & I1 & K1 & A1).
    destruct (IH s1 I1 Hl) as (s' & E' & I' & K' & A').
    exists s'. rewrite st_add_list_cons. cbn [fst snd]. rewrite E1.
    split; [exact E'|]. split; [exact I'|]. split; [congruence|].
    rewrite A', smerge_list_cons_eq, A1. rewrite !st_limit_kind, K1. reflexivity.
Qed.

(* the fallback of MergeWith: ForEach on the argument, AddWithCount on the receiver *)
Lemma st_merge_fallback s o :
  StInv s -> StInv o ->
  exists s' o',
    match st_foreach o with
    | None => None
    | Some (o', l) => option_map (fun s' => (s', o')) (st_add_list s l)
    end = Some (s', o') /\
    StInv s' /\ StInv o' /\ st_kind s' = st_kind s /\ st_kind o' = st_kind o /\
    st_abs s' = smerge_list (st_limit s) (st_abs s) (st_abs o) /\ st_abs o' = st_abs o.
Proof.
  intros H Ho. destruct (st_foreach_spec o Ho) as (o' & l & E & Io' & Ko' & Ao' & El & _). subst l.
  destruct (st_add_list_spec (st_abs o) s H (st_abs_bins_ok o Ho)) as (s' & E' & I' & K' & A').
  exists s', o'. rewrite E, E'. cbn [option_map]. auto 10.
Qed.

(* an argument of the dense family, whatever its Go type and capacity, through whichever path
   (same-type fast path, or ForEach + AddWithCount) the code takes *)
Lemma WInv_exact_Inv o : WInv o -> lim o = Exact -> Inv o.
Proof.
  intros I L. destruct I as [a b c d e f g h]. constructor; auto.
Qed.
Lemma merge_dense_any d o :
  StInv (SD d) -> WInv o ->
  exists d', merge_dense grow63 true d o = Some d' /\ StInv (SD d') /\ lim d' = lim d /\
             dabs d' = smerge_list (lim d) (dabs d) (dabs o).
Proof.
  intros H Wo. destruct (StInv_SD_cases d H) as [[L I]|[(n & L & Hn & C)|(n & L & Hn & C)]].
  - rewrite L, smerge_list_exact_eq.
    assert (G : exists d', merge_dense grow63 true d o = Some d' /\ Inv d' /\ dabs d' = bmerge_list (dabs d) (dabs o)).
    { destruct (is_empty o) eqn:E.
      - exists d. unfold merge_dense. rewrite E. apply is_empty_true in E.
        rewrite (dabs_empty_winv o Wo E). split; [reflexivity|]. split; [exact I|reflexivity].
      - destruct (same_type (lim d) (lim o)) eqn:T.
        + assert (Lo : lim o = Exact). { rewrite L in T. destruct (lim o); [reflexivity|discriminate|discriminate]. }
          exact (merge_dense_spec grow63 true x_grow_ok d o I (WInv_exact_Inv o Wo Lo)).
        + exact (merge_dense_fallback grow63 true x_grow_ok d o (dabs o) I E T (foreach_winv o Wo) (dabs_bins_ok o Wo)). }
    destruct G as (d' & E & I' & A). exists d'. split; [exact E|]. split; [now apply StInv_exact|].
    split; [apply (inv_lim d' I')|exact A].
  - destruct (merge_dense_low_stepwise grow63 x_grow_ok n Hn d o C L Wo) as (d' & E & C' & L' & A).
    exists d'. split; [exact E|]. split; [now apply (StInv_low d' n)|]. split; [congruence|]. rewrite L. exact A.
  - destruct (merge_dense_high_stepwise grow63 x_grow_ok n Hn d o C L Wo) as (d' & E & C' & L' & A).
    exists d'. split; [exact E|]. split; [now apply (StInv_high d' n)|]. split; [congruence|]. rewrite L. exact A.
Qed.

(* s.MergeWith(o) for every pair of kinds: no panic; the receiver absorbs the content of the
   argument bin by bin with its own normal form (= the exact merge, re-normalised: st_merge_norm);
   the argument keeps its content (ForEach may have sorted the buffer of a paginated argument) *)
Theorem st_merge_spec s o :
  StInv s -> StInv o ->
  exists s' o', st_merge s o = Some (s', o') /\
    StInv s' /\ StInv o' /\ st_kind s' = st_kind s /\ st_kind o' = st_kind o /\
    st_abs s' = smerge_list (st_limit s) (st_abs s) (st_abs o) /\ st_abs o' = st_abs o.
Proof.
  intros H Ho.
  assert (Empty : st_is_empty o = true ->
    exists s' o', Some (s, o) = Some (s', o') /\
      StInv s' /\ StInv o' /\ st_kind s' = st_kind s /\ st_kind o' = st_kind o /\
      st_abs s' = smerge_list (st_limit s) (st_abs s) (st_abs o) /\ st_abs o' = st_abs o).
  { intros E. apply (st_is_empty_true o Ho) in E. exists s, o. rewrite E, smerge_list_nil_r. auto 10. }
  destruct s as [d|m|p]; destruct o as [d2|m2|p2]; cbn [st_merge].
  - (* dense family <- dense family *)
    destruct (merge_dense_any d d2 H (StInv_SD_winv d2 Ho)) as (d' & E & I' & L' & A).
    exists (SD d'), (SD d2). rewrite E. cbn [option_map]. split; [reflexivity|]. split; [exact I'|].
    split; [exact Ho|]. split; [cbn [st_kind]; now rewrite L'|]. split; [reflexivity|]. split; [|reflexivity].
    rewrite (st_abs_content _ I'), (st_abs_content _ H), (st_abs_content _ Ho). exact A.
  - destruct (st_is_empty (SS m2)) eqn:E; [now apply Empty|now apply st_merge_fallback].
  - destruct (st_is_empty (SP p2)) eqn:E; [now apply Empty|now apply st_merge_fallback].
  - now apply st_merge_fallback.
  - now apply st_merge_fallback.
  - now apply st_merge_fallback.
  - now apply st_merge_fallback.
  - now apply st_merge_fallback.
  - (* paginated <- paginated *)
    pose proof H as H0. pose proof Ho as Ho0. cbn [StInv] in H0, Ho0.
    destruct (p_merge_same_spec pgrow8 worth32 x_full ZSort.sort x_pgrow_ok x_sort_ok p p2 H0 Ho0) as [I' A].
    eexists. eexists. split; [reflexivity|].
    assert (I2 : StInv (SP (p_merge_same pgrow8 worth32 x_full ZSort.sort p p2))) by exact I'.
    split; [exact I2|]. split; [exact Ho|]. split; [reflexivity|]. split; [reflexivity|]. split; [|reflexivity].
    rewrite (st_abs_content _ I2), (st_abs_content _ H), (st_abs_content _ Ho). cbn [st_content st_limit].
    rewrite smerge_list_exact_eq. exact A.
Qed.
Corollary st_merge_no_panic s o : StInv s -> StInv o -> st_merge s o <> None.
Proof. intros H Ho. destruct (st_merge_spec s o H Ho) as (s' & o' & E & _). rewrite E. discriminate. Qed.

(* the stepwise form is the exact merge followed by the receiver's normal form *)
Theorem smerge_list_st_norm s xs :
  StInv s -> nonneg xs ->
  smerge_list (st_limit s) (st_abs s) xs = norm (st_limit s) (bmerge_list (st_abs s) xs).
Proof.
  intros H Hx. rewrite <- (st_abs_norm s H) at 1.
  apply smerge_list_norm; [now apply StInv_limit_ok|now apply st_abs_wf|now apply st_abs_pos|exact Hx].
Qed.
Theorem st_merge_norm s o :
  StInv s -> StInv o ->
  exists s' o', st_merge s o = Some (s', o') /\
    StInv s' /\ StInv o' /\ st_kind s' = st_kind s /\ st_kind o' = st_kind o /\
    st_abs s' = norm (st_limit s) (bmerge (st_abs s) (st_abs o)) /\ st_abs o' = st_abs o.
Proof.
  intros H Ho. destruct (st_merge_spec s o H Ho) as (s' & o' & E & I' & Io' & K & Ko & A & Ao).
  exists s', o'. rewrite A. rewrite (smerge_list_st_norm s (st_abs o) H) by (apply pos_nonneg; now apply st_abs_pos).
  auto 10.
Qed.

(* ================================================================== *)
(** * 5. Reweight, Clear, Copy                                         *)
(* ================================================================== *)
Theorem st_reweight_refused s w : (w <= w0)%Qc -> st_reweight s w = RwRefused.
Proof.
  intros Hw. destruct s as [d|m|p]; cbn [st_reweight].
  - now rewrite (reweight_d_refused d w Hw).
  - unfold sp_reweight. apply wleb_le in Hw. now rewrite Hw.
  - now rewrite (p_reweight_refused pgrow8 worth32 x_full ZSort.sort p w Hw).
Qed.
Theorem st_reweight_one s : st_reweight s w1 = RwOk s.
Proof.
  destruct s as [d|m|p]; cbn [st_reweight].
  - now rewrite reweight_d_one.
  - unfold sp_reweight. destruct (wleb_spec w1 w0) as [Hle|_].
    + exfalso. pose proof w1_pos as P. eapply Qclt_not_le; eauto.
    + now rewrite weqb_refl.
  - now rewrite p_reweight_one.
Qed.
(* w > 0 (w = 1 included, where the content is unchanged): no panic, the content is scaled *)
Theorem st_reweight_spec s w :
  StInv s -> (w0 < w)%Qc ->
  exists s', st_reweight s w = RwOk s' /\ StInv s' /\ st_kind s' = st_kind s /\
             st_abs s' = bscale w (st_abs s).
Proof.
  intros H Hw.
  assert (G : exists s', st_reweight s w = RwOk s' /\ StInv s' /\ st_kind s' = st_kind s /\
                         st_content s' = bscale w (st_content s)).
  { destruct s as [d|m|p]; cbn [st_reweight st_content].
    - destruct (StInv_SD_cases d H) as [[L I]|[(n & L & Hn & C)|(n & L & Hn & C)]].
      + destruct (reweight_d_spec d w I Hw) as (d' & E & I' & A). exists (SD d'). rewrite E.
        split; [reflexivity|]. split; [now apply StInv_exact|]. cbn [st_kind st_content].
        rewrite (inv_lim d' I'), L. auto.
      + destruct (reweight_ci n d w C Hw) as (d' & E & C' & L' & _ & A). exists (SD d'). rewrite E.
        split; [reflexivity|]. split; [apply (StInv_low d' n); congruence|]. cbn [st_kind st_content].
        rewrite L'. auto.
      + destruct (reweight_ci n d w C Hw) as (d' & E & C' & L' & _ & A). exists (SD d'). rewrite E.
        split; [reflexivity|]. split; [apply (StInv_high d' n); congruence|]. cbn [st_kind st_content].
        rewrite L'. auto.
    - destruct H as (Hwf & Hp & Hk). exists (SS (bscale w m)). split.
      + unfold sp_reweight. destruct (wleb_spec w w0) as [Hle|_]; [exfalso; eapply Qclt_not_le; eauto|].
        destruct (weqb_spec w w1) as [E1|_]; [subst w; now rewrite bscale_1|reflexivity].
      + cbn [StInv st_kind st_content]. split; [|auto]. split; [now apply wf_bscale|].
        split; [now apply pos_bscale|now apply keys_ok_bscale].
    - pose proof H as H0. cbn [StInv] in H0.
      destruct (p_reweight_spec pgrow8 worth32 x_full ZSort.sort x_pgrow_ok x_sort_ok p w H0 Hw) as (p' & E & I' & A).
      exists (SP p'). rewrite E. cbn [StInv st_kind st_content]. auto. }
  destruct G as (s' & E & I' & K & A). exists s'.
  rewrite (st_abs_content s' I'), (st_abs_content s H). auto.
Qed.
Corollary st_reweight_no_panic s w : StInv s -> st_reweight s w <> RwPanic.
Proof.
  intros H. destruct (Qclt_le_dec w0 w) as [Hw|Hw].
  - destruct (st_reweight_spec s w H Hw) as (s' & E & _). rewrite E. discriminate.
  - rewrite (st_reweight_refused s w Hw). discriminate.
Qed.

Theorem st_clear_spec s :
  StInv s -> StInv (st_clear s) /\ st_kind (st_clear s) = st_kind s /\ st_abs (st_clear s) = [].
Proof.
  intros H.
  assert (G : StInv (st_clear s) /\ st_kind (st_clear s) = st_kind s /\ st_content (st_clear s) = []).
  { destruct s as [d|m|p]; cbn [st_clear st_content].
    - destruct (StInv_SD_cases d H) as [[L I]|[(n & L & Hn & C)|(n & L & Hn & C)]].
      + destruct (clear_d_spec d L) as [I' A]. split; [now apply StInv_exact|]. split; [reflexivity|exact A].
      + destruct (clear_ci n d ltac:(lia)) as (C' & L' & _ & A).
        split; [apply (StInv_low _ n); congruence|]. split; [reflexivity|exact A].
      + destruct (clear_ci n d ltac:(lia)) as (C' & L' & _ & A).
        split; [apply (StInv_high _ n); congruence|]. split; [reflexivity|exact A].
    - unfold sp_clear. cbn [StInv st_kind]. split; [|auto]. split; [reflexivity|]. split; [constructor|apply keys_ok_nil].
    - pose proof H as H0. cbn [StInv] in H0. destruct (p_clear_spec p H0) as [I' A].
      cbn [StInv st_kind]. auto. }
  destruct G as (I' & K & A). rewrite (st_abs_content _ I'). auto.
Qed.

(* a cleared store cannot be told from a new store of the same kind (retained offset, recycled
   pages, stale compaction trigger and isCollapsed never leak): same content after any additions *)
Theorem st_clear_like_new s l :
  StInv s -> bins_ok l ->
  exists s1 s2, st_add_list (st_clear s) l = Some s1 /\ st_add_list (st_new (st_kind s)) l = Some s2 /\
                StInv s1 /\ StInv s2 /\ st_kind s1 = st_kind s /\ st_kind s2 = st_kind s /\
                st_abs s1 = st_abs s2.
Proof.
  intros H Hl. destruct (st_clear_spec s H) as (Ic & Kc & Ac).
  pose proof (StInv_new (st_kind s) (StInv_kind_ok s H)) as In.
  destruct (st_add_list_spec l _ Ic Hl) as (s1 & E1 & I1 & K1 & A1).
  destruct (st_add_list_spec l _ In Hl) as (s2 & E2 & I2 & K2 & A2).
  exists s1, s2. rewrite st_kind_new in K2.
  split; [exact E1|]. split; [exact E2|]. split; [exact I1|]. split; [exact I2|].
  split; [congruence|]. split; [exact K2|].
  rewrite A1, A2, Ac, st_abs_new, !st_limit_kind, Kc, st_kind_new. reflexivity.
Qed.

Theorem st_copy_spec s : st_copy s = s.
Proof. reflexivity. Qed.

(* ================================================================== *)
(** * 6. Histories                                                     *)
(* ================================================================== *)
Inductive sop :=
| OpAddW (i : Z) (c : W) | OpAdd (i : Z) | OpMerge (o : store) | OpReweight (w : W) | OpClear
| OpForeach | OpKeyAtRank (r : W) | OpCopy.
Definition sop_ok (x : sop) : Prop :=
  match x with
  | OpAddW i c => idx_ok i /\ (w0 <= c)%Qc
  | OpAdd i => idx_ok i
  | OpMerge o => StInv o
  | OpReweight w => (w0 < w)%Qc
  | _ => True
  end.
(* [None] = a panic, or a refused Reweight *)
Definition st_step (s : store) (x : sop) : option store :=
  match x with
  | OpAddW i c => st_addw s i c
  | OpAdd i => st_add s i
  | OpMerge o => option_map fst (st_merge s o)
  | OpReweight w => match st_reweight s w with RwOk s' => Some s' | _ => None end
  | OpClear => Some (st_clear s)
  | OpForeach => option_map fst (st_foreach s)
  | OpKeyAtRank r => Some (fst (st_key_at_rank s r))
  | OpCopy => Some (st_copy s)
  end.
Definition st_run (s : store) (ops : list sop) : option store :=
  fold_left (fun acc x => match acc with Some s' => st_step s' x | None => None end) ops (Some s).
(* the same history on the Layer A content of a store of limit l; reads are the identity *)
Definition abs_step (l : limit) (b : list (Z * W)) (x : sop) : list (Z * W) :=
  match x with
  | OpAddW i c => sadd l b i c
  | OpAdd i => sadd l b i w1
  | OpMerge o => smerge_list l b (st_abs o)
  | OpReweight w => bscale w b
  | OpClear => []
  | _ => b
  end.
Definition abs_run (l : limit) (b : list (Z * W)) (ops : list sop) : list (Z * W) := fold_left (abs_step l) ops b.
Definition sop_is_read (x : sop) : bool :=
  match x with OpForeach | OpKeyAtRank _ | OpCopy => true | _ => false end.

Theorem st_step_spec s x :
  StInv s -> sop_ok x ->
  exists s', st_step s x = Some s' /\ StInv s' /\ st_kind s' = st_kind s /\
             st_abs s' = abs_step (st_limit s) (st_abs s) x.
Proof.
  intros H Hx. destruct x as [i c|i|o|w| | |r| ]; cbn [sop_ok st_step abs_step] in *.
  - destruct Hx as [Hi Hc]. now apply st_addw_spec.
  - now apply st_add_spec.
  - destruct (st_merge_spec s o H Hx) as (s' & o' & E & I' & _ & K & _ & A & _).
    exists s'. rewrite E. cbn [option_map fst]. auto.
  - destruct (st_reweight_spec s w H Hx) as (s' & E & I' & K & A). exists s'. rewrite E. auto.
  - exists (st_clear s). destruct (st_clear_spec s H) as (I' & K & A). auto.
  - destruct (st_foreach_spec s H) as (s' & l & E & I' & K & A & _). exists s'. rewrite E. cbn [option_map fst]. auto.
  - destruct (st_key_at_rank_spec s r H) as (s' & k & E & I' & K & A & _). exists s'. rewrite E. cbn [fst]. auto.
  - exists s. auto.
Qed.
(* reads leave the content unchanged (C14 at store level) *)
Theorem st_reads_pure s x :
  StInv s -> sop_is_read x = true ->
  exists s', st_step s x = Some s' /\ StInv s' /\ st_kind s' = st_kind s /\ st_abs s' = st_abs s.
Proof.
  intros H Hr. destruct x; try discriminate; refine (st_step_spec s _ H _); exact I.
Qed.

Lemma st_run_cons s x ops :
  st_run s (x :: ops) = match st_step s x with Some s1 => st_run s1 ops | None => None end.
Proof.
  unfold st_run. cbn [fold_left]. destruct (st_step s x); [reflexivity|].
  induction ops as [|y ops IH]; [reflexivity|exact IH].
Qed.
Theorem st_run_spec ops : forall s,
  StInv s -> Forall sop_ok ops ->
  exists s', st_run s ops = Some s' /\ StInv s' /\ st_kind s' = st_kind s /\
             st_abs s' = abs_run (st_limit s) (st_abs s) ops.
Proof.
  induction ops as [|x ops IH]; intros s H Hops.
  - exists s. auto.
  - inversion Hops as [|x' ops' Hx Hops']; subst x' ops'.
    destruct (st_step_spec s x H Hx) as (s1 & E1 & I1 & K1 & A1).
    destruct (IH s1 I1 Hops') as (s' & E' & I' & K' & A').
    exists s'. rewrite st_run_cons, E1. split; [exact E'|]. split; [exact I'|]. split; [congruence|].
    rewrite A'. unfold abs_run. cbn [fold_left]. rewrite A1, !st_limit_kind, K1. reflexivity.
Qed.

(* every store reachable from a new store of any kind (capacity >= 1) by any sequence of the
   interface operations satisfies the invariant, never panicked on the way, is of the same kind,
   and its content is the Layer A content of the same sequence *)
Theorem st_reachable k ops :
  kind_ok k -> Forall sop_ok ops ->
  exists s, st_run (st_new k) ops = Some s /\ StInv s /\ st_kind s = k /\
            st_abs s = abs_run (kind_limit k) [] ops.
Proof.
  intros Hk Hops. destruct (st_run_spec ops (st_new k) (StInv_new k Hk) Hops) as (s & E & I' & K & A).
  exists s. rewrite st_kind_new in K. rewrite st_limit_new, st_abs_new in A. auto.
Qed.
(* Clear then any history = a new store then the same history (C15 at store level) *)
Theorem st_clear_then_history s ops :
  StInv s -> Forall sop_ok ops ->
  exists s1 s2, st_run (st_clear s) ops = Some s1 /\ st_run (st_new (st_kind s)) ops = Some s2 /\
                StInv s1 /\ StInv s2 /\ st_kind s1 = st_kind s /\ st_kind s2 = st_kind s /\
                st_abs s1 = st_abs s2.
Proof.
  intros H Hops. destruct (st_clear_spec s H) as (Ic & Kc & Ac).
  destruct (st_run_spec ops _ Ic Hops) as (s1 & E1 & I1 & K1 & A1).
  destruct (st_reachable (st_kind s) ops (StInv_kind_ok s H) Hops) as (s2 & E2 & I2 & K2 & A2).
  exists s1, s2. split; [exact E1|]. split; [exact E2|]. split; [exact I1|]. split; [exact I2|].
  split; [congruence|]. split; [exact K2|]. rewrite A1, A2, Ac, st_limit_kind, Kc. reflexivity.
Qed.

(* ---- summaries used by Props/Refine.v ---- *)
Theorem st_new_spec k : kind_ok k -> StInv (st_new k) /\ st_kind (st_new k) = k /\ st_abs (st_new k) = [].
Proof. intros H. split; [now apply StInv_new|]. split; [apply st_kind_new|apply st_abs_new]. Qed.
Theorem st_observers_spec s :
  StInv s ->
  st_total s = total (st_abs s) /\ st_is_empty s = is_emptyb (st_abs s) /\
  st_min s = min_key (st_abs s) /\ st_max s = max_key (st_abs s).
Proof.
  intros H. split; [now apply st_total_spec|]. split; [now apply st_is_empty_spec|].
  split; [now apply st_min_spec|now apply st_max_spec].
Qed.
