(* Layer A proofs: the abstract bin stores of Spec/Bins.v, reasoned about through the content
   function [get].  Stdlib only, axiom-free. *)
From SK Require Import Spec.Bins.
From Coq Require Import Lqa Permutation.

(* ================================================================== *)
(** * 0. Weights                                                       *)
(* ================================================================== *)

(* ---- transfer Qc -> Q for [lra] ---- *)
Lemma this_plus (x y : Qc) : (this (x + y)%Qc == this x + this y)%Q.
Proof. change (this (x + y)%Qc) with (Qred (this x + this y)). apply Qred_correct. Qed.
Lemma this_mult (x y : Qc) : (this (x * y)%Qc == this x * this y)%Q.
Proof. change (this (x * y)%Qc) with (Qred (this x * this y)). apply Qred_correct. Qed.
Lemma this_opp (x : Qc) : (this (- x)%Qc == - this x)%Q.
Proof. change (this (- x)%Qc) with (Qred (- this x)). apply Qred_correct. Qed.
Lemma this_minus (x y : Qc) : (this (x - y)%Qc == this x - this y)%Q.
Proof. unfold Qcminus. rewrite this_plus, this_opp. reflexivity. Qed.
Lemma Qc_eq_iff (a b : Qc) : a = b <-> (this a == this b)%Q.
Proof. split; [intros ->; reflexivity | apply Qc_is_canon]. Qed.

(* linear arithmetic on weights: goals/hypotheses built from = <> < <= wadd wsub w0 w1
   (products are treated as atoms) *)
Ltac wlra :=
  unfold W, w0, w1, wadd, wmul, wsub in *;
  repeat match goal with
  | H : @eq Qc _ _ |- _ => apply Qc_eq_iff in H
  | H : ~ @eq Qc _ _ |- _ => rewrite Qc_eq_iff in H
  | |- @eq Qc _ _ => apply Qc_is_canon
  | |- ~ @eq Qc _ _ => rewrite Qc_eq_iff
  end;
  unfold Qcle, Qclt in *;
  repeat match goal with
  | |- context [this (?a + ?b)%Qc] => rewrite (this_plus a b)
  | |- context [this (?a * ?b)%Qc] => rewrite (this_mult a b)
  | |- context [this (?a - ?b)%Qc] => rewrite (this_minus a b)
  | H : context [this (?a + ?b)%Qc] |- _ => rewrite (this_plus a b) in H
  | H : context [this (?a - ?b)%Qc] |- _ => rewrite (this_minus a b) in H
  | H : context [this (?a * ?b)%Qc] |- _ => rewrite (this_mult a b) in H
  end;
  change (this (Q2Qc 0)) with 0%Q in *; change (this (Q2Qc 1)) with 1%Q in *;
  lra.

Ltac wring := unfold W, w0, w1, wadd, wmul, wsub in *; ring.

(* case analysis on integer boolean tests *)
Ltac zb1 :=
  match goal with
  | |- context [Z.eqb ?a ?b] => destruct (Z.eqb_spec a b)
  | |- context [Z.ltb ?a ?b] => destruct (Z.ltb_spec a b)
  | |- context [Z.leb ?a ?b] => destruct (Z.leb_spec a b)
  | H : context [Z.eqb ?a ?b] |- _ => destruct (Z.eqb_spec a b)
  | H : context [Z.ltb ?a ?b] |- _ => destruct (Z.ltb_spec a b)
  | H : context [Z.leb ?a ?b] |- _ => destruct (Z.leb_spec a b)
  end.
Ltac zb := repeat zb1.

(* ---- reflection of the boolean tests ---- *)
Lemma weqb_eq (a b : W) : weqb a b = true <-> a = b.
Proof.
  unfold weqb. rewrite (Qceq_alt a b).
  destruct (Qccompare a b); split; intros H; congruence.
Qed.
Lemma weqb_neq (a b : W) : weqb a b = false <-> a <> b.
Proof.
  rewrite <- weqb_eq. destruct (weqb a b); split; intros H; congruence.
Qed.
Lemma weqb_refl (a : W) : weqb a a = true.
Proof. apply weqb_eq. reflexivity. Qed.
Lemma weqb_spec (a b : W) : reflect (a = b) (weqb a b).
Proof.
  destruct (weqb a b) eqn:E; constructor.
  - apply weqb_eq; exact E.
  - apply weqb_neq; exact E.
Qed.
Lemma wltb_lt (a b : W) : wltb a b = true <-> (a < b)%Qc.
Proof.
  unfold wltb. rewrite (Qclt_alt a b).
  destruct (Qccompare a b); split; intros H; congruence.
Qed.
Lemma wltb_ge (a b : W) : wltb a b = false <-> (b <= a)%Qc.
Proof.
  split; intros H.
  - apply Qcnot_lt_le. intros Hlt. apply wltb_lt in Hlt. congruence.
  - destruct (wltb a b) eqn:E; [|reflexivity].
    apply wltb_lt in E. exfalso. exact (Qcle_not_lt _ _ H E).
Qed.
Lemma wltb_spec (a b : W) : reflect (a < b)%Qc (wltb a b).
Proof.
  destruct (wltb a b) eqn:E; constructor.
  - apply wltb_lt; exact E.
  - apply wltb_ge in E. apply Qcle_not_lt; exact E.
Qed.
Lemma wleb_le (a b : W) : wleb a b = true <-> (a <= b)%Qc.
Proof.
  unfold wleb. rewrite (Qcle_alt a b).
  destruct (Qccompare a b); split; intros H; congruence.
Qed.
Lemma wleb_gt (a b : W) : wleb a b = false <-> (b < a)%Qc.
Proof.
  split; intros H.
  - apply Qcnot_le_lt. intros Hle. apply wleb_le in Hle. congruence.
  - destruct (wleb a b) eqn:E; [|reflexivity].
    apply wleb_le in E. exfalso. exact (Qclt_not_le _ _ H E).
Qed.
Lemma wleb_spec (a b : W) : reflect (a <= b)%Qc (wleb a b).
Proof.
  destruct (wleb a b) eqn:E; constructor.
  - apply wleb_le; exact E.
  - apply wleb_gt in E. apply Qclt_not_le; exact E.
Qed.

(* ---- algebra ---- *)
Lemma wadd_comm (a b : W) : wadd a b = wadd b a.
Proof. wring. Qed.
Lemma wadd_assoc (a b c : W) : wadd a (wadd b c) = wadd (wadd a b) c.
Proof. wring. Qed.
Lemma wadd_0_l (a : W) : wadd w0 a = a.
Proof. wring. Qed.
Lemma wadd_0_r (a : W) : wadd a w0 = a.
Proof. wring. Qed.
Lemma wmul_comm (a b : W) : wmul a b = wmul b a.
Proof. wring. Qed.
Lemma wmul_assoc (a b c : W) : wmul a (wmul b c) = wmul (wmul a b) c.
Proof. wring. Qed.
Lemma wmul_1_l (a : W) : wmul w1 a = a.
Proof. wring. Qed.
Lemma wmul_0_r (a : W) : wmul a w0 = w0.
Proof. wring. Qed.
Lemma wmul_0_l (a : W) : wmul w0 a = w0.
Proof. wring. Qed.
Lemma wmul_add_distr_l (f a b : W) : wmul f (wadd a b) = wadd (wmul f a) (wmul f b).
Proof. wring. Qed.
Lemma wadd_swap (a b c : W) : wadd (wadd a b) c = wadd (wadd a c) b.
Proof. wring. Qed.
Lemma wadd_cancel_l (a b c : W) : wadd a b = wadd a c -> b = c.
Proof. intros H. wlra. Qed.

(* ---- positivity ---- *)
Lemma wpos_neq (a : W) : (w0 < a)%Qc -> a <> w0.
Proof. intros H. wlra. Qed.
Lemma wpos_nonneg (a : W) : (w0 < a)%Qc -> (w0 <= a)%Qc.
Proof. intros H. wlra. Qed.
Lemma wnonneg_neq_pos (a : W) : (w0 <= a)%Qc -> a <> w0 -> (w0 < a)%Qc.
Proof. intros H Hn. wlra. Qed.
Lemma wpos_add (a b : W) : (w0 < a)%Qc -> (w0 < b)%Qc -> (w0 < wadd a b)%Qc.
Proof. intros Ha Hb. wlra. Qed.
Lemma wpos_add_nonneg_l (a b : W) : (w0 <= a)%Qc -> (w0 < b)%Qc -> (w0 < wadd a b)%Qc.
Proof. intros Ha Hb. wlra. Qed.
Lemma wpos_add_nonneg_r (a b : W) : (w0 < a)%Qc -> (w0 <= b)%Qc -> (w0 < wadd a b)%Qc.
Proof. intros Ha Hb. wlra. Qed.
Lemma wnonneg_add (a b : W) : (w0 <= a)%Qc -> (w0 <= b)%Qc -> (w0 <= wadd a b)%Qc.
Proof. intros Ha Hb. wlra. Qed.
Lemma wnonneg_add_eq0 (a b : W) :
  (w0 <= a)%Qc -> (w0 <= b)%Qc -> wadd a b = w0 -> a = w0 /\ b = w0.
Proof. intros Ha Hb H. split; wlra. Qed.
Lemma wpos_mul (a b : W) : (w0 < a)%Qc -> (w0 < b)%Qc -> (w0 < wmul a b)%Qc.
Proof.
  intros Ha Hb. unfold wmul, w0 in *.
  pose proof (Qcmult_lt_compat_r 0%Qc a b Hb Ha) as H.
  rewrite Qcmult_0_l in H. exact H.
Qed.
Lemma wnonneg_mul (a b : W) : (w0 <= a)%Qc -> (w0 <= b)%Qc -> (w0 <= wmul a b)%Qc.
Proof.
  intros Ha Hb. unfold wmul, w0 in *.
  pose proof (Qcmult_le_compat_r 0%Qc a b Ha Hb) as H.
  rewrite Qcmult_0_l in H. exact H.
Qed.
Lemma wmul_lt_iff (f a b : W) : (w0 < f)%Qc -> ((wmul f a < wmul f b)%Qc <-> (a < b)%Qc).
Proof.
  intros Hf. unfold wmul, w0 in *. split; intros H.
  - apply Qcnot_le_lt. intros Hle.
    assert (Hf' : (0 <= f)%Qc) by (apply Qclt_le_weak; exact Hf).
    pose proof (Qcmult_le_compat_r b a f Hle Hf') as H1.
    rewrite (Qcmult_comm b f), (Qcmult_comm a f) in H1.
    exact (Qclt_not_le _ _ H H1).
  - rewrite (Qcmult_comm f a), (Qcmult_comm f b).
    apply Qcmult_lt_compat_r; assumption.
Qed.
Lemma wmul_eq0_iff (f a : W) : f <> w0 -> (wmul f a = w0 <-> a = w0).
Proof.
  intros Hf. split; intros H.
  - unfold wmul, w0 in *. exact (Qcmult_integral_l f a Hf H).
  - subst a. apply wmul_0_r.
Qed.
Lemma wltb_mul (f a b : W) : (w0 < f)%Qc -> wltb (wmul f a) (wmul f b) = wltb a b.
Proof.
  intros Hf. destruct (wltb_spec a b) as [H|H].
  - apply wltb_lt. apply wmul_lt_iff; assumption.
  - destruct (wltb_spec (wmul f a) (wmul f b)) as [H'|H']; [|reflexivity].
    exfalso. apply H. apply (wmul_lt_iff f a b Hf). exact H'.
Qed.
Lemma weqb_mul0 (f a : W) : f <> w0 -> weqb (wmul f a) w0 = weqb a w0.
Proof.
  intros Hf. destruct (weqb_spec a w0) as [H|H].
  - apply weqb_eq. apply wmul_eq0_iff; assumption.
  - apply weqb_neq. intros H'. apply H. apply (wmul_eq0_iff f a Hf). exact H'.
Qed.

(* weights of a list: all positive / all non-negative *)
Definition pos (b : list (Z * W)) : Prop := Forall (fun kw => (w0 < snd kw)%Qc) b.
Definition nonneg (b : list (Z * W)) : Prop := Forall (fun kw => (w0 <= snd kw)%Qc) b.

Lemma pos_nonneg b : pos b -> nonneg b.
Proof.
  unfold pos, nonneg. intros H. eapply Forall_impl; [|exact H].
  intros kw Hkw. apply wpos_nonneg. exact Hkw.
Qed.
Lemma pos_nil : pos [].
Proof. constructor. Qed.
Lemma nonneg_nil : nonneg [].
Proof. constructor. Qed.
Lemma pos_cons k w tl : pos ((k, w) :: tl) <-> (w0 < w)%Qc /\ pos tl.
Proof.
  unfold pos. split; intros H.
  - inversion H; subst. split; assumption.
  - destruct H as [H1 H2]. constructor; assumption.
Qed.
Lemma nonneg_cons k w tl : nonneg ((k, w) :: tl) <-> (w0 <= w)%Qc /\ nonneg tl.
Proof.
  unfold nonneg. split; intros H.
  - inversion H; subst. split; assumption.
  - destruct H as [H1 H2]. constructor; assumption.
Qed.

(* ================================================================== *)
(** * 1. Canonical lists and extensionality                            *)
(* ================================================================== *)

Lemma keys_above_cons lo k w tl :
  keys_above lo ((k, w) :: tl) = true <-> lo < k /\ w <> w0 /\ keys_above k tl = true.
Proof.
  cbn [keys_above]. rewrite !andb_true_iff, negb_true_iff, Z.ltb_lt, weqb_neq. tauto.
Qed.
Lemma wf_cons k w tl : wf ((k, w) :: tl) = true <-> w <> w0 /\ keys_above k tl = true.
Proof.
  cbn [wf]. rewrite !andb_true_iff, negb_true_iff, weqb_neq. tauto.
Qed.
Lemma keys_above_wf lo b : keys_above lo b = true -> wf b = true.
Proof.
  destruct b as [|[k w] tl]; intros H; [reflexivity|].
  apply keys_above_cons in H. apply wf_cons. tauto.
Qed.
Lemma wf_tail k w tl : wf ((k, w) :: tl) = true -> wf tl = true.
Proof. intros H. apply wf_cons in H. eapply keys_above_wf. apply H. Qed.
Lemma keys_above_weaken lo lo' b :
  lo' <= lo -> keys_above lo b = true -> keys_above lo' b = true.
Proof.
  destruct b as [|[k w] tl]; intros Hlo H; [reflexivity|].
  apply keys_above_cons in H. apply keys_above_cons.
  destruct H as [H1 H2]. split; [lia|exact H2].
Qed.
Lemma keys_above_get0 lo b j : keys_above lo b = true -> j <= lo -> get b j = w0.
Proof.
  revert lo. induction b as [|[k w] tl IH]; intros lo H Hj; [reflexivity|].
  apply keys_above_cons in H. destruct H as [H1 [H2 H3]].
  cbn [get]. destruct (Z.eqb_spec j k) as [E|E]; [lia|].
  apply (IH k); [exact H3|lia].
Qed.
Lemma wf_keys_above_lt b i : wf b = true -> exists lo, lo < i /\ keys_above lo b = true.
Proof.
  destruct b as [|[k w] tl]; intros H.
  - exists (i - 1). split; [lia|reflexivity].
  - apply wf_cons in H. exists (Z.min i k - 1). split; [lia|].
    apply keys_above_cons. split; [lia|exact H].
Qed.
Lemma get_head k w tl : get ((k, w) :: tl) k = w.
Proof. cbn [get]. rewrite Z.eqb_refl. reflexivity. Qed.
Lemma get_nil j : get [] j = w0.
Proof. reflexivity. Qed.

(* keys_above, read through get *)
Lemma keys_above_iff lo b :
  keys_above lo b = true <-> wf b = true /\ forall j, j <= lo -> get b j = w0.
Proof.
  split.
  - intros H. split; [eapply keys_above_wf; exact H|].
    intros j Hj. eapply keys_above_get0; eassumption.
  - intros [Hwf H0]. destruct b as [|[k w] tl]; [reflexivity|].
    apply wf_cons in Hwf. apply keys_above_cons. split; [|exact Hwf].
    destruct (Z.lt_ge_cases lo k) as [Hlt|Hge]; [exact Hlt|].
    exfalso. specialize (H0 k Hge). rewrite get_head in H0. tauto.
Qed.

Theorem bins_ext a b :
  wf a = true -> wf b = true -> (forall i, get a i = get b i) -> a = b.
Proof.
  revert b. induction a as [|[k w] ta IH]; intros [|[k' w'] tb] Ha Hb H.
  - reflexivity.
  - exfalso. apply wf_cons in Hb. specialize (H k'). rewrite get_head, get_nil in H.
    destruct Hb as [Hb _]. apply Hb. symmetry. exact H.
  - exfalso. apply wf_cons in Ha. specialize (H k). rewrite get_head, get_nil in H.
    destruct Ha as [Ha _]. apply Ha. exact H.
  - apply wf_cons in Ha. apply wf_cons in Hb.
    destruct Ha as [Hw Hka]. destruct Hb as [Hw' Hkb].
    assert (Hk : k = k').
    { destruct (Z.lt_trichotomy k k') as [Hlt|[Heq|Hgt]]; [|exact Heq|]; exfalso.
      - specialize (H k). rewrite get_head in H. cbn [get] in H.
        destruct (Z.eqb_spec k k') as [E|E]; [lia|].
        rewrite (keys_above_get0 k' tb k Hkb) in H by lia. tauto.
      - specialize (H k'). rewrite get_head in H. cbn [get] in H.
        destruct (Z.eqb_spec k' k) as [E|E]; [lia|].
        rewrite (keys_above_get0 k ta k' Hka) in H by lia. apply Hw'. symmetry. exact H. }
    subst k'.
    assert (Hww : w = w').
    { specialize (H k). rewrite !get_head in H. exact H. }
    subst w'. f_equal. apply IH.
    + eapply keys_above_wf; exact Hka.
    + eapply keys_above_wf; exact Hkb.
    + intros i. destruct (Z.eq_dec i k) as [E|E].
      * subst i. rewrite (keys_above_get0 k ta k Hka), (keys_above_get0 k tb k Hkb) by lia.
        reflexivity.
      * specialize (H i). cbn [get] in H.
        destruct (Z.eqb_spec i k) as [E'|E']; [contradiction|]. exact H.
Qed.

(* positivity read through get *)
Lemma get_nonneg b j : nonneg b -> (w0 <= get b j)%Qc.
Proof.
  induction b as [|[k w] tl IH]; intros H.
  - cbn [get]. wlra.
  - apply nonneg_cons in H. destruct H as [Hw Htl]. cbn [get].
    destruct (j =? k); [exact Hw|apply IH; exact Htl].
Qed.
Lemma get_pos_or0 b j : pos b -> get b j = w0 \/ (w0 < get b j)%Qc.
Proof.
  induction b as [|[k w] tl IH]; intros H.
  - left. reflexivity.
  - apply pos_cons in H. destruct H as [Hw Htl]. cbn [get].
    destruct (j =? k); [right; exact Hw|apply IH; exact Htl].
Qed.
Lemma get_neq0_pos b j : pos b -> get b j <> w0 -> (w0 < get b j)%Qc.
Proof. intros Hp Hn. destruct (get_pos_or0 b j Hp) as [H|H]; [contradiction|exact H]. Qed.
Lemma wf_nonneg_pos b : wf b = true -> nonneg b -> pos b.
Proof.
  induction b as [|[k w] tl IH]; intros Hwf Hn; [constructor|].
  apply nonneg_cons in Hn. destruct Hn as [Hw Hn].
  pose proof (wf_tail _ _ _ Hwf) as Htl. apply wf_cons in Hwf. destruct Hwf as [Hw0 _].
  apply pos_cons. split; [apply wnonneg_neq_pos; assumption|apply IH; assumption].
Qed.
Lemma pos_of_get b : wf b = true -> (forall j, (w0 <= get b j)%Qc) -> pos b.
Proof.
  induction b as [|[k w] tl IH]; intros Hwf H; [constructor|].
  pose proof (wf_tail _ _ _ Hwf) as Htl. apply wf_cons in Hwf. destruct Hwf as [Hw0 Hka].
  apply pos_cons. split.
  - apply wnonneg_neq_pos; [|exact Hw0]. specialize (H k). rewrite get_head in H. exact H.
  - apply IH; [exact Htl|]. intros j. destruct (Z.eq_dec j k) as [E|E].
    + subst j. rewrite (keys_above_get0 k tl k Hka) by lia. wlra.
    + specialize (H j). cbn [get] in H. destruct (Z.eqb_spec j k) as [E'|E']; [contradiction|exact H].
Qed.

(* keys of a canonical list are exactly the indices with non-zero content *)
Lemma get_neq0_In b j : get b j <> w0 -> In j (map fst b).
Proof.
  induction b as [|[k w] tl IH]; intros H; [exfalso; apply H; reflexivity|].
  cbn [get] in H. cbn [map fst In]. destruct (Z.eqb_spec j k) as [E|E].
  - left. symmetry. exact E.
  - right. apply IH. exact H.
Qed.
Lemma keys_above_In lo b j : keys_above lo b = true -> In j (map fst b) -> lo < j.
Proof.
  revert lo. induction b as [|[k w] tl IH]; intros lo H Hin; [contradiction|].
  apply keys_above_cons in H. destruct H as [H1 [H2 H3]].
  cbn [map fst In] in Hin. destruct Hin as [E|Hin]; [lia|].
  specialize (IH k H3 Hin). lia.
Qed.
Lemma In_get_neq0 b j : wf b = true -> In j (map fst b) -> get b j <> w0.
Proof.
  induction b as [|[k w] tl IH]; intros Hwf Hin; [contradiction|].
  pose proof (wf_tail _ _ _ Hwf) as Htl. apply wf_cons in Hwf. destruct Hwf as [Hw0 Hka].
  cbn [map fst In] in Hin. cbn [get]. destruct (Z.eqb_spec j k) as [E|E]; [exact Hw0|].
  destruct Hin as [E'|Hin]; [congruence|]. apply IH; assumption.
Qed.

(* ================================================================== *)
(** * 2. badd / badd0                                                  *)
(* ================================================================== *)

Lemma get_badd_ka lo b i c j :
  keys_above lo b = true ->
  get (badd b i c) j = if j =? i then wadd (get b j) c else get b j.
Proof.
  revert lo. induction b as [|[k w] tl IH]; intros lo H.
  - cbn [badd get]. destruct (j =? i); [rewrite wadd_0_l|]; reflexivity.
  - apply keys_above_cons in H. destruct H as [H1 [H2 H3]].
    cbn [badd]. destruct (Z.ltb_spec i k) as [Hik|Hik].
    + cbn [get]. destruct (Z.eqb_spec j i) as [E|E]; [|reflexivity].
      subst j. destruct (Z.eqb_spec i k) as [E'|E']; [lia|].
      rewrite (keys_above_get0 k tl i H3) by lia. rewrite wadd_0_l. reflexivity.
    + destruct (Z.eqb_spec i k) as [E|E].
      * subst i. cbn [get]. destruct (Z.eqb_spec j k) as [E'|E']; reflexivity.
      * cbn [get]. destruct (Z.eqb_spec j k) as [E'|E'].
        -- destruct (Z.eqb_spec j i) as [E''|E'']; [lia|reflexivity].
        -- apply (IH k). exact H3.
Qed.

Theorem get_badd b i c j :
  wf b = true ->
  get (badd b i c) j = if j =? i then wadd (get b j) c else get b j.
Proof.
  intros Hwf. destruct (wf_keys_above_lt b i Hwf) as [lo [_ Hlo]].
  eapply get_badd_ka. exact Hlo.
Qed.

Lemma keys_above_badd lo b i c :
  keys_above lo b = true -> lo < i -> c <> w0 -> wadd (get b i) c <> w0 ->
  keys_above lo (badd b i c) = true.
Proof.
  revert lo. induction b as [|[k w] tl IH]; intros lo H Hlo Hc Hs.
  - cbn [badd]. apply keys_above_cons. split; [exact Hlo|]. split; [exact Hc|reflexivity].
  - pose proof H as H'. apply keys_above_cons in H. destruct H as [H1 [H2 H3]].
    cbn [badd]. destruct (Z.ltb_spec i k) as [Hik|Hik].
    + apply keys_above_cons. split; [exact Hlo|]. split; [exact Hc|].
      apply keys_above_cons. split; [exact Hik|]. split; [exact H2|exact H3].
    + cbn [get] in Hs. destruct (Z.eqb_spec i k) as [E|E].
      * apply keys_above_cons. split; [exact H1|]. split; [exact Hs|exact H3].
      * apply keys_above_cons. split; [exact H1|]. split; [exact H2|].
        apply IH; [exact H3|lia|exact Hc|exact Hs].
Qed.

(* general form: canonical as soon as no zero entry is created *)
Lemma wf_badd_gen b i c :
  wf b = true -> c <> w0 -> wadd (get b i) c <> w0 -> wf (badd b i c) = true.
Proof.
  intros Hwf Hc Hs. destruct (wf_keys_above_lt b i Hwf) as [lo [Hlt Hlo]].
  eapply keys_above_wf. apply keys_above_badd; eassumption.
Qed.

Lemma pos_badd b i c : pos b -> (w0 < c)%Qc -> pos (badd b i c).
Proof.
  induction b as [|[k w] tl IH]; intros Hp Hc.
  - cbn [badd]. apply pos_cons. split; [exact Hc|constructor].
  - pose proof Hp as Hp'. apply pos_cons in Hp. destruct Hp as [Hw Htl]. cbn [badd].
    destruct (i <? k).
    + apply pos_cons. split; [exact Hc|exact Hp'].
    + destruct (i =? k).
      * apply pos_cons. split; [apply wpos_add; assumption|exact Htl].
      * apply pos_cons. split; [exact Hw|apply IH; assumption].
Qed.

Theorem wf_badd b i c :
  wf b = true -> pos b -> (w0 < c)%Qc -> wf (badd b i c) = true.
Proof.
  intros Hwf Hp Hc. apply wf_badd_gen; [exact Hwf|apply wpos_neq; exact Hc|].
  pose proof (get_nonneg b i (pos_nonneg b Hp)) as Hg. wlra.
Qed.

Lemma badd0_zero b i : badd0 b i w0 = b.
Proof. unfold badd0. rewrite weqb_refl. reflexivity. Qed.
Lemma badd0_nz b i c : c <> w0 -> badd0 b i c = badd b i c.
Proof. intros Hc. unfold badd0. apply weqb_neq in Hc. rewrite Hc. reflexivity. Qed.

Theorem get_badd0 b i c j :
  wf b = true ->
  get (badd0 b i c) j = if j =? i then wadd (get b j) c else get b j.
Proof.
  intros Hwf. unfold badd0. destruct (weqb_spec c w0) as [E|E].
  - subst c. rewrite wadd_0_r. destruct (j =? i); reflexivity.
  - apply get_badd. exact Hwf.
Qed.
Theorem wf_badd0 b i c :
  wf b = true -> pos b -> (w0 <= c)%Qc -> wf (badd0 b i c) = true.
Proof.
  intros Hwf Hp Hc. unfold badd0. destruct (weqb_spec c w0) as [E|E]; [exact Hwf|].
  apply wf_badd; [exact Hwf|exact Hp|apply wnonneg_neq_pos; assumption].
Qed.
Lemma pos_badd0 b i c : pos b -> (w0 <= c)%Qc -> pos (badd0 b i c).
Proof.
  intros Hp Hc. unfold badd0. destruct (weqb_spec c w0) as [E|E]; [exact Hp|].
  apply pos_badd; [exact Hp|apply wnonneg_neq_pos; assumption].
Qed.
Lemma badd_nonempty b i c : badd b i c <> [].
Proof.
  destruct b as [|[k w] tl]; cbn [badd]; [discriminate|].
  destruct (i <? k); [discriminate|]. destruct (i =? k); discriminate.
Qed.

(* ================================================================== *)
(** * Guarded sums: the one summation operator everything is stated with *)
(* ================================================================== *)

(* sum of the weights of the entries of b whose key satisfies P *)
Definition gsum (P : Z -> bool) (b : list (Z * W)) : W :=
  fold_right (fun kw s => if P (fst kw) then wadd (snd kw) s else s) w0 b.
(* weight a (not necessarily canonical) list puts on index j *)
Definition lsum (l : list (Z * W)) (j : Z) : W := gsum (fun k => j =? k) l.
(* cumulative weight up to and including index j / from index j on *)
Definition cum (b : list (Z * W)) (j : Z) : W := gsum (fun k => k <=? j) b.
Definition cum_up (b : list (Z * W)) (j : Z) : W := gsum (fun k => j <=? k) b.

Lemma gsum_nil P : gsum P [] = w0.
Proof. reflexivity. Qed.
Lemma gsum_cons P k w tl :
  gsum P ((k, w) :: tl) = if P k then wadd w (gsum P tl) else gsum P tl.
Proof. reflexivity. Qed.
Lemma gsum_app P a b : gsum P (a ++ b) = wadd (gsum P a) (gsum P b).
Proof.
  induction a as [|[k w] tl IH].
  - cbn [app]. rewrite gsum_nil, wadd_0_l. reflexivity.
  - cbn [app]. rewrite !gsum_cons, IH. destruct (P k); [apply wadd_assoc|reflexivity].
Qed.
Lemma gsum_ext P Q b : (forall k, In k (map fst b) -> P k = Q k) -> gsum P b = gsum Q b.
Proof.
  induction b as [|[k w] tl IH]; intros H; [reflexivity|].
  rewrite !gsum_cons. rewrite (H k) by (left; reflexivity).
  rewrite IH; [reflexivity|]. intros k' Hin. apply H. right. exact Hin.
Qed.
Lemma gsum_false P b : (forall k, In k (map fst b) -> P k = false) -> gsum P b = w0.
Proof.
  induction b as [|[k w] tl IH]; intros H; [reflexivity|].
  rewrite gsum_cons. rewrite (H k) by (left; reflexivity).
  apply IH. intros k' Hin. apply H. right. exact Hin.
Qed.
Lemma gsum_nonneg P b : nonneg b -> (w0 <= gsum P b)%Qc.
Proof.
  induction b as [|[k w] tl IH]; intros H.
  - rewrite gsum_nil. wlra.
  - apply nonneg_cons in H. destruct H as [Hw Htl]. rewrite gsum_cons.
    specialize (IH Htl). destruct (P k); [apply wnonneg_add; assumption|exact IH].
Qed.
Lemma gsum_badd P b i c :
  gsum P (badd b i c) = wadd (gsum P b) (if P i then c else w0).
Proof.
  induction b as [|[k w] tl IH].
  - cbn [badd]. rewrite gsum_cons, gsum_nil. destruct (P i); [apply wadd_comm|reflexivity].
  - cbn [badd]. destruct (Z.ltb_spec i k) as [Hik|Hik].
    + rewrite (gsum_cons P i c). destruct (P i); [apply wadd_comm|rewrite wadd_0_r; reflexivity].
    + destruct (Z.eqb_spec i k) as [E|E].
      * subst i. rewrite !gsum_cons. destruct (P k); [|rewrite wadd_0_r; reflexivity].
        wring.
      * rewrite !gsum_cons, IH. destruct (P k); [|reflexivity].
        apply wadd_assoc.
Qed.
Lemma gsum_badd0 P b i c :
  gsum P (badd0 b i c) = wadd (gsum P b) (if P i then c else w0).
Proof.
  unfold badd0. destruct (weqb_spec c w0) as [E|E]; [|apply gsum_badd].
  subst c. destruct (P i); rewrite wadd_0_r; reflexivity.
Qed.

Lemma bmerge_list_nil a : bmerge_list a [] = a.
Proof. reflexivity. Qed.
Lemma bmerge_list_cons a k c l : bmerge_list a ((k, c) :: l) = bmerge_list (badd0 a k c) l.
Proof. reflexivity. Qed.
Lemma bmerge_list_app a l1 l2 : bmerge_list a (l1 ++ l2) = bmerge_list (bmerge_list a l1) l2.
Proof. unfold bmerge_list. apply fold_left_app. Qed.

Lemma gsum_bmerge_list P a l : gsum P (bmerge_list a l) = wadd (gsum P a) (gsum P l).
Proof.
  revert a. induction l as [|[k c] l IH]; intros a.
  - rewrite bmerge_list_nil, gsum_nil, wadd_0_r. reflexivity.
  - rewrite bmerge_list_cons, IH, gsum_badd0, gsum_cons.
    destruct (P k); [rewrite wadd_assoc|rewrite wadd_0_r]; reflexivity.
Qed.
Lemma gsum_map_key P g b :
  gsum P (map (fun kw => (g (fst kw), snd kw)) b) = gsum (fun k => P (g k)) b.
Proof.
  induction b as [|[k w] tl IH]; [reflexivity|].
  cbn [map fst snd]. rewrite !gsum_cons, IH. reflexivity.
Qed.
Lemma gsum_bscale P f b : gsum P (bscale f b) = wmul f (gsum P b).
Proof.
  induction b as [|[k w] tl IH].
  - cbn [bscale map]. rewrite gsum_nil, wmul_0_r. reflexivity.
  - unfold bscale in *. cbn [map fst snd]. rewrite !gsum_cons, IH.
    destruct (P k); [rewrite wmul_add_distr_l|]; reflexivity.
Qed.
Lemma gsum_perm P l l' : Permutation l l' -> gsum P l = gsum P l'.
Proof.
  intros H. induction H as [|[k w] l l' H IH|[k w] [k' w'] l|l l' l'' H1 IH1 H2 IH2].
  - reflexivity.
  - rewrite !gsum_cons, IH. reflexivity.
  - rewrite !gsum_cons. destruct (P k), (P k'); try reflexivity. wring.
  - rewrite IH1. exact IH2.
Qed.

(* on a canonical list, the weight at j is the content at j *)
Lemma lsum_get_ka lo b j : keys_above lo b = true -> lsum b j = get b j.
Proof.
  unfold lsum. revert lo. induction b as [|[k w] tl IH]; intros lo H; [reflexivity|].
  apply keys_above_cons in H. destruct H as [H1 [H2 H3]].
  rewrite gsum_cons. cbn [get]. rewrite (IH k H3).
  destruct (Z.eqb_spec j k) as [E|E]; [|reflexivity].
  subst j. rewrite (keys_above_get0 k tl k H3) by lia. apply wadd_0_r.
Qed.
Lemma lsum_get b j : wf b = true -> lsum b j = get b j.
Proof.
  intros Hwf. destruct (wf_keys_above_lt b 0 Hwf) as [lo [_ Hlo]].
  eapply lsum_get_ka. exact Hlo.
Qed.
Lemma gsum_eqb_get b j : wf b = true -> gsum (fun k => j =? k) b = get b j.
Proof. apply lsum_get. Qed.

(* content at an index satisfying P is bounded by the P-sum *)
Lemma get_le_gsum P b j : nonneg b -> P j = true -> (get b j <= gsum P b)%Qc.
Proof.
  induction b as [|[k w] tl IH]; intros Hn HP.
  - cbn [get]. rewrite gsum_nil. wlra.
  - apply nonneg_cons in Hn. destruct Hn as [Hw Htl]. specialize (IH Htl HP).
    pose proof (gsum_nonneg P tl Htl) as Hg.
    cbn [get]. rewrite gsum_cons. destruct (Z.eqb_spec j k) as [E|E].
    + subst j. rewrite HP. wlra.
    + destruct (P k); wlra.
Qed.
(* a sum vanishes iff no index satisfying P has content *)
Lemma gsum_eq0_get P b j :
  nonneg b -> gsum P b = w0 -> P j = true -> get b j = w0.
Proof.
  intros Hn H0 HP. pose proof (get_le_gsum P b j Hn HP) as H1.
  pose proof (get_nonneg b j Hn) as H2. wlra.
Qed.
Lemma gsum_get0 P b : (forall j, P j = true -> get b j = w0) -> wf b = true -> gsum P b = w0.
Proof.
  intros H Hwf. apply gsum_false. intros k Hin.
  destruct (P k) eqn:E; [|reflexivity]. exfalso.
  apply (In_get_neq0 b k Hwf Hin). apply H. exact E.
Qed.

(* ================================================================== *)
(** * 4. total                                                         *)
(* ================================================================== *)

Lemma total_acc b a :
  fold_left (fun acc kw => wadd acc (snd kw)) b a = wadd a (gsum (fun _ => true) b).
Proof.
  revert a. induction b as [|[k w] tl IH]; intros a.
  - cbn [fold_left]. rewrite gsum_nil, wadd_0_r. reflexivity.
  - cbn [fold_left snd]. rewrite IH, gsum_cons. apply eq_sym, wadd_assoc.
Qed.
Lemma total_gsum b : total b = gsum (fun _ => true) b.
Proof. unfold total. rewrite total_acc. apply wadd_0_l. Qed.
Lemma total_nil : total [] = w0.
Proof. reflexivity. Qed.
Lemma total_cons k w tl : total ((k, w) :: tl) = wadd w (total tl).
Proof. rewrite !total_gsum. reflexivity. Qed.
Lemma total_app a b : total (a ++ b) = wadd (total a) (total b).
Proof. rewrite !total_gsum. apply gsum_app. Qed.

Theorem total_badd b i c : total (badd b i c) = wadd (total b) c.
Proof. rewrite !total_gsum. apply gsum_badd. Qed.
Theorem total_badd0 b i c : total (badd0 b i c) = wadd (total b) c.
Proof. rewrite !total_gsum. apply gsum_badd0. Qed.
Theorem total_bmerge_list a l : total (bmerge_list a l) = wadd (total a) (total l).
Proof. rewrite !total_gsum. apply gsum_bmerge_list. Qed.
Theorem total_bmerge a b : total (bmerge a b) = wadd (total a) (total b).
Proof. apply total_bmerge_list. Qed.
Theorem total_bins_of_list l : total (bins_of_list l) = total l.
Proof. unfold bins_of_list. rewrite total_bmerge_list, total_nil. apply wadd_0_l. Qed.
Theorem total_bscale f b : total (bscale f b) = wmul f (total b).
Proof. rewrite !total_gsum. apply gsum_bscale. Qed.
Lemma total_nonneg b : nonneg b -> (w0 <= total b)%Qc.
Proof. intros H. rewrite total_gsum. apply gsum_nonneg. exact H. Qed.
Lemma total_pos b : pos b -> b <> [] -> (w0 < total b)%Qc.
Proof.
  intros Hp Hne. destruct b as [|[k w] tl]; [contradiction|].
  apply pos_cons in Hp. destruct Hp as [Hw Htl]. rewrite total_cons.
  apply wpos_add_nonneg_r; [exact Hw|]. apply total_nonneg. apply pos_nonneg. exact Htl.
Qed.
Theorem total_eq0_iff b : pos b -> (total b = w0 <-> b = []).
Proof.
  intros Hp. split; intros H.
  - destruct b as [|kw tl]; [reflexivity|]. exfalso.
    assert (Hne : kw :: tl <> []) by discriminate.
    pose proof (total_pos _ Hp Hne) as Ht. wlra.
  - subst b. reflexivity.
Qed.
Theorem is_emptyb_iff b : is_emptyb b = true <-> b = [].
Proof. destruct b as [|kw tl]; cbn [is_emptyb]; split; intros H; congruence. Qed.
(* the content at an index never exceeds the total *)
Lemma get_le_total b j : nonneg b -> (get b j <= total b)%Qc.
Proof. intros Hn. rewrite total_gsum. apply get_le_gsum; [exact Hn|reflexivity]. Qed.

(* ================================================================== *)
(** * 3. merge                                                         *)
(* ================================================================== *)

Lemma wf_pos_bmerge_list a l :
  wf a = true -> pos a -> nonneg l ->
  wf (bmerge_list a l) = true /\ pos (bmerge_list a l).
Proof.
  revert a. induction l as [|[k c] l IH]; intros a Hwf Hp Hn.
  - rewrite bmerge_list_nil. split; assumption.
  - apply nonneg_cons in Hn. destruct Hn as [Hc Hn]. rewrite bmerge_list_cons.
    apply IH; [apply wf_badd0|apply pos_badd0|]; assumption.
Qed.
Theorem wf_bmerge_list a l :
  wf a = true -> pos a -> nonneg l -> wf (bmerge_list a l) = true.
Proof. intros Hwf Hp Hn. apply wf_pos_bmerge_list; assumption. Qed.
Theorem pos_bmerge_list a l :
  wf a = true -> pos a -> nonneg l -> pos (bmerge_list a l).
Proof. intros Hwf Hp Hn. apply wf_pos_bmerge_list; assumption. Qed.

Theorem get_bmerge_list a l j :
  wf a = true -> pos a -> nonneg l ->
  get (bmerge_list a l) j = wadd (get a j) (lsum l j).
Proof.
  intros Hwf Hp Hn.
  rewrite <- (lsum_get (bmerge_list a l) j) by (apply wf_bmerge_list; assumption).
  rewrite <- (lsum_get a j Hwf). unfold lsum. apply gsum_bmerge_list.
Qed.

Theorem wf_bmerge a b : wf a = true -> pos a -> pos b -> wf (bmerge a b) = true.
Proof. intros Hwf Hp Hb. apply wf_bmerge_list; [exact Hwf|exact Hp|apply pos_nonneg; exact Hb]. Qed.
Theorem pos_bmerge a b : wf a = true -> pos a -> pos b -> pos (bmerge a b).
Proof. intros Hwf Hp Hb. apply pos_bmerge_list; [exact Hwf|exact Hp|apply pos_nonneg; exact Hb]. Qed.
Theorem get_bmerge a b j :
  wf a = true -> pos a -> wf b = true -> pos b ->
  get (bmerge a b) j = wadd (get a j) (get b j).
Proof.
  intros Ha Hpa Hb Hpb. unfold bmerge.
  rewrite get_bmerge_list by (try assumption; apply pos_nonneg; exact Hpb).
  rewrite (lsum_get b j Hb). reflexivity.
Qed.

Theorem wf_bins_of_list l : nonneg l -> wf (bins_of_list l) = true.
Proof. intros Hn. apply wf_bmerge_list; [reflexivity|constructor|exact Hn]. Qed.
Theorem pos_bins_of_list l : nonneg l -> pos (bins_of_list l).
Proof. intros Hn. apply pos_bmerge_list; [reflexivity|constructor|exact Hn]. Qed.
Theorem get_bins_of_list l j : nonneg l -> get (bins_of_list l) j = lsum l j.
Proof.
  intros Hn. unfold bins_of_list.
  rewrite get_bmerge_list by (try exact Hn; try reflexivity; constructor).
  cbn [get]. apply wadd_0_l.
Qed.
Lemma gsum_bins_of_list P l : gsum P (bins_of_list l) = gsum P l.
Proof. unfold bins_of_list. rewrite gsum_bmerge_list, gsum_nil. apply wadd_0_l. Qed.

Theorem bmerge_nil_r a : bmerge a [] = a.
Proof. reflexivity. Qed.
Theorem bmerge_nil_l a : wf a = true -> pos a -> bmerge [] a = a.
Proof.
  intros Hwf Hp. apply bins_ext.
  - apply wf_bmerge; [reflexivity|constructor|exact Hp].
  - exact Hwf.
  - intros i. rewrite get_bmerge by (try assumption; try reflexivity; constructor).
    cbn [get]. apply wadd_0_l.
Qed.
Lemma bins_of_list_canon a : wf a = true -> pos a -> bins_of_list a = a.
Proof. apply bmerge_nil_l. Qed.

Theorem bmerge_comm a b :
  wf a = true -> pos a -> wf b = true -> pos b -> bmerge a b = bmerge b a.
Proof.
  intros Ha Hpa Hb Hpb. apply bins_ext.
  - apply wf_bmerge; assumption.
  - apply wf_bmerge; assumption.
  - intros i. rewrite !get_bmerge by assumption. apply wadd_comm.
Qed.
Theorem bmerge_assoc a b c :
  wf a = true -> pos a -> wf b = true -> pos b -> wf c = true -> pos c ->
  bmerge (bmerge a b) c = bmerge a (bmerge b c).
Proof.
  intros Ha Hpa Hb Hpb Hc Hpc.
  pose proof (wf_bmerge a b Ha Hpa Hpb) as Hab. pose proof (pos_bmerge a b Ha Hpa Hpb) as Hpab.
  pose proof (wf_bmerge b c Hb Hpb Hpc) as Hbc. pose proof (pos_bmerge b c Hb Hpb Hpc) as Hpbc.
  apply bins_ext.
  - apply wf_bmerge; assumption.
  - apply wf_bmerge; assumption.
  - intros i. rewrite !get_bmerge by assumption. apply eq_sym, wadd_assoc.
Qed.

(* merging a raw list = merging its canonical form *)
Theorem bmerge_list_canon a l :
  wf a = true -> pos a -> nonneg l -> bmerge_list a l = bmerge a (bins_of_list l).
Proof.
  intros Ha Hpa Hn.
  pose proof (wf_bins_of_list l Hn) as Hl. pose proof (pos_bins_of_list l Hn) as Hpl.
  apply bins_ext.
  - apply wf_bmerge_list; assumption.
  - apply wf_bmerge; assumption.
  - intros i. rewrite get_bmerge_list, get_bmerge by assumption.
    rewrite get_bins_of_list by assumption. reflexivity.
Qed.

Lemma nonneg_perm l l' : Permutation l l' -> nonneg l -> nonneg l'.
Proof. intros H Hn. unfold nonneg in *. eapply Permutation_Forall; eassumption. Qed.

(* merging from an arbitrary iteration order is well defined *)
Theorem bmerge_list_perm a l l' :
  wf a = true -> pos a -> nonneg l -> Permutation l l' ->
  bmerge_list a l = bmerge_list a l'.
Proof.
  intros Ha Hpa Hn Hperm. pose proof (nonneg_perm l l' Hperm Hn) as Hn'.
  apply bins_ext.
  - apply wf_bmerge_list; assumption.
  - apply wf_bmerge_list; assumption.
  - intros i. rewrite !get_bmerge_list by assumption. f_equal.
    unfold lsum. apply gsum_perm. exact Hperm.
Qed.
Theorem bins_of_list_perm l l' :
  nonneg l -> Permutation l l' -> bins_of_list l = bins_of_list l'.
Proof. intros Hn Hperm. apply bmerge_list_perm; [reflexivity|constructor|exact Hn|exact Hperm]. Qed.

(* ================================================================== *)
(** * 5. scale                                                         *)
(* ================================================================== *)

Lemma bscale_nil f : bscale f [] = [].
Proof. reflexivity. Qed.
Lemma bscale_cons f k w tl : bscale f ((k, w) :: tl) = (k, wmul f w) :: bscale f tl.
Proof. reflexivity. Qed.

Lemma keys_above_bscale lo f b :
  f <> w0 -> keys_above lo b = true -> keys_above lo (bscale f b) = true.
Proof.
  intros Hf. revert lo. induction b as [|[k w] tl IH]; intros lo H; [reflexivity|].
  apply keys_above_cons in H. destruct H as [H1 [H2 H3]].
  rewrite bscale_cons. apply keys_above_cons. split; [exact H1|]. split; [|apply IH; exact H3].
  intros E. apply H2. apply (wmul_eq0_iff f w Hf). exact E.
Qed.
Lemma wf_bscale_nz f b : f <> w0 -> wf b = true -> wf (bscale f b) = true.
Proof.
  intros Hf Hwf. destruct (wf_keys_above_lt b 0 Hwf) as [lo [_ Hlo]].
  eapply keys_above_wf. apply keys_above_bscale; eassumption.
Qed.
Theorem wf_bscale f b : (w0 < f)%Qc -> wf b = true -> wf (bscale f b) = true.
Proof. intros Hf. apply wf_bscale_nz. apply wpos_neq. exact Hf. Qed.
Theorem pos_bscale f b : (w0 < f)%Qc -> pos b -> pos (bscale f b).
Proof.
  intros Hf. induction b as [|[k w] tl IH]; intros Hp; [constructor|].
  apply pos_cons in Hp. destruct Hp as [Hw Htl]. rewrite bscale_cons.
  apply pos_cons. split; [apply wpos_mul; assumption|apply IH; exact Htl].
Qed.
Lemma nonneg_bscale f b : (w0 < f)%Qc -> nonneg b -> nonneg (bscale f b).
Proof.
  intros Hf. induction b as [|[k w] tl IH]; intros Hp; [constructor|].
  apply nonneg_cons in Hp. destruct Hp as [Hw Htl]. rewrite bscale_cons.
  apply nonneg_cons. split; [apply wnonneg_mul; [apply wpos_nonneg|]; assumption|apply IH; exact Htl].
Qed.
Theorem get_bscale f b j : get (bscale f b) j = wmul f (get b j).
Proof.
  induction b as [|[k w] tl IH].
  - cbn [bscale map get]. rewrite wmul_0_r. reflexivity.
  - rewrite bscale_cons. cbn [get]. rewrite IH. destruct (j =? k); reflexivity.
Qed.
Theorem bscale_badd f b i c : bscale f (badd b i c) = badd (bscale f b) i (wmul f c).
Proof.
  induction b as [|[k w] tl IH]; [reflexivity|].
  rewrite bscale_cons. cbn [badd]. destruct (i <? k); [reflexivity|].
  destruct (i =? k).
  - rewrite bscale_cons, wmul_add_distr_l. reflexivity.
  - rewrite bscale_cons, IH. reflexivity.
Qed.
Lemma bscale_badd0 f b i c :
  f <> w0 -> bscale f (badd0 b i c) = badd0 (bscale f b) i (wmul f c).
Proof.
  intros Hf. unfold badd0. rewrite (weqb_mul0 f c Hf).
  destruct (weqb c w0); [reflexivity|apply bscale_badd].
Qed.
Lemma bscale_bmerge_list_nz f a l :
  f <> w0 -> bscale f (bmerge_list a l) = bmerge_list (bscale f a) (bscale f l).
Proof.
  intros Hf. revert a. induction l as [|[k c] l IH]; intros a; [reflexivity|].
  rewrite bscale_cons, !bmerge_list_cons, IH, (bscale_badd0 f a k c Hf). reflexivity.
Qed.
Theorem bscale_bmerge_list f a l :
  (w0 < f)%Qc -> bscale f (bmerge_list a l) = bmerge_list (bscale f a) (bscale f l).
Proof. intros Hf. apply bscale_bmerge_list_nz. apply wpos_neq. exact Hf. Qed.
Theorem bscale_bmerge f a b :
  (w0 < f)%Qc -> bscale f (bmerge a b) = bmerge (bscale f a) (bscale f b).
Proof. apply bscale_bmerge_list. Qed.
Lemma bscale_bins_of_list f l :
  f <> w0 -> bscale f (bins_of_list l) = bins_of_list (bscale f l).
Proof. intros Hf. unfold bins_of_list. rewrite bscale_bmerge_list_nz by exact Hf. reflexivity. Qed.
Theorem bscale_1 b : bscale w1 b = b.
Proof.
  induction b as [|[k w] tl IH]; [reflexivity|].
  rewrite bscale_cons, IH, wmul_1_l. reflexivity.
Qed.
Theorem bscale_bscale f g b : bscale f (bscale g b) = bscale (wmul f g) b.
Proof.
  induction b as [|[k w] tl IH]; [reflexivity|].
  rewrite !bscale_cons, IH, wmul_assoc. reflexivity.
Qed.
Theorem min_key_bscale f b : min_key (bscale f b) = min_key b.
Proof. destruct b as [|[k w] tl]; reflexivity. Qed.
Lemma max_key_cons2 kw k2 w2 tl : max_key (kw :: (k2, w2) :: tl) = max_key ((k2, w2) :: tl).
Proof. destruct kw as [k w]. reflexivity. Qed.
Lemma max_key_single k w : max_key [(k, w)] = Some k.
Proof. reflexivity. Qed.
Lemma max_key_cons_ne kw tl : tl <> [] -> max_key (kw :: tl) = max_key tl.
Proof. destruct tl as [|[k2 w2] tl]; intros H; [contradiction|apply max_key_cons2]. Qed.
Theorem max_key_bscale f b : max_key (bscale f b) = max_key b.
Proof.
  induction b as [|[k w] tl IH]; [reflexivity|].
  destruct tl as [|[k2 w2] tl]; [reflexivity|].
  rewrite bscale_cons. rewrite bscale_cons in IH |- *. rewrite !max_key_cons2. exact IH.
Qed.
Lemma bscale_map_key f g b :
  bscale f (map (fun kw => (g (fst kw), snd kw)) b)
  = map (fun kw : Z * W => (g (fst kw), snd kw)) (bscale f b).
Proof. unfold bscale. rewrite !map_map. reflexivity. Qed.

(* ================================================================== *)
(** * 6. min / max                                                     *)
(* ================================================================== *)

Lemma min_key_none b : min_key b = None <-> b = [].
Proof. destruct b as [|[k w] tl]; cbn [min_key]; split; intros H; congruence. Qed.
Lemma max_key_none b : max_key b = None <-> b = [].
Proof.
  split; intros H; [|subst b; reflexivity].
  induction b as [|[k w] tl IH]; [reflexivity|]. exfalso.
  destruct tl as [|[k2 w2] tl]; [discriminate|].
  rewrite max_key_cons2 in H. specialize (IH H). discriminate.
Qed.
Lemma max_key_some b : b <> [] -> exists m, max_key b = Some m.
Proof.
  intros H. destruct (max_key b) as [m|] eqn:E; [exists m; reflexivity|].
  apply max_key_none in E. contradiction.
Qed.
Lemma min_key_some b : b <> [] -> exists m, min_key b = Some m.
Proof.
  intros H. destruct b as [|[k w] tl]; [contradiction|]. exists k. reflexivity.
Qed.

Lemma min_key_spec b k :
  wf b = true -> min_key b = Some k -> get b k <> w0 /\ forall j, j < k -> get b j = w0.
Proof.
  intros Hwf H. destruct b as [|[k' w] tl]; [discriminate|].
  cbn [min_key] in H. injection H as H. subst k'.
  apply wf_cons in Hwf. destruct Hwf as [Hw Hka]. split.
  - rewrite get_head. exact Hw.
  - intros j Hj. cbn [get]. destruct (Z.eqb_spec j k) as [E|E]; [lia|].
    apply (keys_above_get0 k tl j Hka). lia.
Qed.
Lemma max_key_spec b m :
  wf b = true -> max_key b = Some m -> get b m <> w0 /\ forall j, m < j -> get b j = w0.
Proof.
  revert m. induction b as [|[k w] tl IH]; intros m Hwf H; [discriminate|].
  pose proof (wf_tail _ _ _ Hwf) as Htl. apply wf_cons in Hwf. destruct Hwf as [Hw Hka].
  destruct tl as [|[k2 w2] tl].
  - rewrite max_key_single in H. injection H as H. subst m. split.
    + rewrite get_head. exact Hw.
    + intros j Hj. cbn [get]. destruct (Z.eqb_spec j k) as [E|E]; [lia|reflexivity].
  - rewrite max_key_cons2 in H. destruct (IH m Htl H) as [H1 H2].
    assert (Hkm : k < m).
    { destruct (Z.lt_ge_cases k m) as [Hlt|Hge]; [exact Hlt|]. exfalso. apply H1.
      apply (keys_above_get0 k _ m Hka). exact Hge. }
    split.
    + cbn [get] in H1 |- *. destruct (Z.eqb_spec m k) as [E|E]; [lia|exact H1].
    + intros j Hj. specialize (H2 j Hj). cbn [get] in H2 |- *.
      destruct (Z.eqb_spec j k) as [E|E]; [lia|exact H2].
Qed.

Theorem min_key_iff b k :
  wf b = true ->
  (min_key b = Some k <-> get b k <> w0 /\ forall j, j < k -> get b j = w0).
Proof.
  intros Hwf. split; [apply min_key_spec; exact Hwf|]. intros [H1 H2].
  destruct (min_key b) as [m|] eqn:E.
  - destruct (min_key_spec b m Hwf E) as [H3 H4]. f_equal.
    destruct (Z.lt_trichotomy m k) as [Hlt|[Heq|Hgt]]; [|exact Heq|]; exfalso.
    + apply H3. apply H2. exact Hlt.
    + apply H1. apply H4. exact Hgt.
  - apply min_key_none in E. subst b. exfalso. apply H1. reflexivity.
Qed.
Theorem max_key_iff b k :
  wf b = true ->
  (max_key b = Some k <-> get b k <> w0 /\ forall j, k < j -> get b j = w0).
Proof.
  intros Hwf. split; [apply max_key_spec; exact Hwf|]. intros [H1 H2].
  destruct (max_key b) as [m|] eqn:E.
  - destruct (max_key_spec b m Hwf E) as [H3 H4]. f_equal.
    destruct (Z.lt_trichotomy m k) as [Hlt|[Heq|Hgt]]; [|exact Heq|]; exfalso.
    + apply H1. apply H4. exact Hlt.
    + apply H3. apply H2. exact Hgt.
  - apply max_key_none in E. subst b. exfalso. apply H1. reflexivity.
Qed.

(* every index with content lies between min_key and max_key *)
Lemma min_key_le b m j : wf b = true -> min_key b = Some m -> get b j <> w0 -> m <= j.
Proof.
  intros Hwf H Hj. destruct (min_key_spec b m Hwf H) as [_ H2].
  destruct (Z.lt_ge_cases j m) as [Hlt|Hge]; [|exact Hge]. exfalso. apply Hj. apply H2. exact Hlt.
Qed.
Lemma max_key_ge b m j : wf b = true -> max_key b = Some m -> get b j <> w0 -> j <= m.
Proof.
  intros Hwf H Hj. destruct (max_key_spec b m Hwf H) as [_ H2].
  destruct (Z.lt_ge_cases m j) as [Hlt|Hge]; [|lia]. exfalso. apply Hj. apply H2. exact Hlt.
Qed.
Lemma min_le_max b mn mx : wf b = true -> min_key b = Some mn -> max_key b = Some mx -> mn <= mx.
Proof.
  intros Hwf Hmn Hmx. apply (min_key_le b mn mx Hwf Hmn). apply (max_key_spec b mx Hwf Hmx).
Qed.

Definition olift (f : Z -> Z -> Z) (a b : option Z) : option Z :=
  match a, b with
  | Some x, Some y => Some (f x y)
  | Some x, None => Some x
  | None, y => y
  end.

Theorem min_key_badd b i c : min_key (badd b i c) = olift Z.min (Some i) (min_key b).
Proof.
  destruct b as [|[k w] tl]; [reflexivity|]. cbn [badd min_key olift].
  destruct (Z.ltb_spec i k) as [H|H].
  - cbn [min_key]. f_equal. lia.
  - destruct (Z.eqb_spec i k) as [E|E]; cbn [min_key]; f_equal; lia.
Qed.
Theorem max_key_badd b i c :
  wf b = true -> max_key (badd b i c) = olift Z.max (Some i) (max_key b).
Proof.
  induction b as [|[k w] tl IH]; intros Hwf; [reflexivity|].
  pose proof (wf_tail _ _ _ Hwf) as Htl. cbn [badd].
  destruct (Z.ltb_spec i k) as [H|H].
  - rewrite max_key_cons2. destruct (max_key_some ((k, w) :: tl)) as [m Hm]; [discriminate|].
    rewrite Hm. cbn [olift]. f_equal.
    assert (k <= m).
    { apply (max_key_ge _ m k Hwf Hm). rewrite get_head. apply wf_cons in Hwf. tauto. }
    lia.
  - destruct (Z.eqb_spec i k) as [E|E].
    + subst i. destruct tl as [|[k2 w2] tl].
      * rewrite !max_key_single. cbn [olift]. f_equal. lia.
      * rewrite !max_key_cons2. destruct (max_key_some ((k2, w2) :: tl)) as [m Hm]; [discriminate|].
        rewrite Hm. cbn [olift]. f_equal.
        assert (k <= m).
        { rewrite <- (max_key_cons2 (k, w)) in Hm.
          apply (max_key_ge _ m k Hwf Hm). rewrite get_head. apply wf_cons in Hwf. tauto. }
        lia.
    + rewrite max_key_cons_ne by apply badd_nonempty. rewrite (IH Htl).
      destruct tl as [|[k2 w2] tl].
      * rewrite max_key_single. cbn [max_key olift]. f_equal. lia.
      * rewrite max_key_cons2. reflexivity.
Qed.

Theorem min_key_bmerge a b :
  wf a = true -> pos a -> wf b = true -> pos b ->
  min_key (bmerge a b) = olift Z.min (min_key a) (min_key b).
Proof.
  intros Ha Hpa Hb Hpb.
  destruct (min_key a) as [ma|] eqn:Ea.
  2:{ apply min_key_none in Ea. subst a. rewrite bmerge_nil_l by assumption. reflexivity. }
  destruct (min_key b) as [mb|] eqn:Eb.
  2:{ apply min_key_none in Eb. subst b. rewrite bmerge_nil_r. exact Ea. }
  cbn [olift]. apply min_key_iff; [apply wf_bmerge; assumption|].
  destruct (min_key_spec a ma Ha Ea) as [A1 A2]. destruct (min_key_spec b mb Hb Eb) as [B1 B2].
  pose proof (get_neq0_pos a ma Hpa A1) as A3. pose proof (get_neq0_pos b mb Hpb B1) as B3.
  split.
  - rewrite get_bmerge by assumption.
    pose proof (get_nonneg a (Z.min ma mb) (pos_nonneg a Hpa)) as A4.
    pose proof (get_nonneg b (Z.min ma mb) (pos_nonneg b Hpb)) as B4.
    destruct (Z.min_spec ma mb) as [[H1 H2]|[H1 H2]]; rewrite H2 in *; wlra.
  - intros j Hj. rewrite get_bmerge by assumption.
    rewrite A2, B2 by lia. apply wadd_0_l.
Qed.
Theorem max_key_bmerge a b :
  wf a = true -> pos a -> wf b = true -> pos b ->
  max_key (bmerge a b) = olift Z.max (max_key a) (max_key b).
Proof.
  intros Ha Hpa Hb Hpb.
  destruct (max_key a) as [ma|] eqn:Ea.
  2:{ apply max_key_none in Ea. subst a. rewrite bmerge_nil_l by assumption. reflexivity. }
  destruct (max_key b) as [mb|] eqn:Eb.
  2:{ apply max_key_none in Eb. subst b. rewrite bmerge_nil_r. exact Ea. }
  cbn [olift]. apply max_key_iff; [apply wf_bmerge; assumption|].
  destruct (max_key_spec a ma Ha Ea) as [A1 A2]. destruct (max_key_spec b mb Hb Eb) as [B1 B2].
  pose proof (get_neq0_pos a ma Hpa A1) as A3. pose proof (get_neq0_pos b mb Hpb B1) as B3.
  split.
  - rewrite get_bmerge by assumption.
    pose proof (get_nonneg a (Z.max ma mb) (pos_nonneg a Hpa)) as A4.
    pose proof (get_nonneg b (Z.max ma mb) (pos_nonneg b Hpb)) as B4.
    destruct (Z.max_spec ma mb) as [[H1 H2]|[H1 H2]]; rewrite H2 in *; wlra.
  - intros j Hj. rewrite get_bmerge by assumption.
    rewrite A2, B2 by lia. apply wadd_0_l.
Qed.

(* ================================================================== *)
(** * 8. clamps (collapsing)                                           *)
(* ================================================================== *)

(* generic part: re-key every entry through g and re-canonicalise *)
Definition rekey (g : Z -> Z) (b : list (Z * W)) : list (Z * W) :=
  map (fun kw => (g (fst kw), snd kw)) b.
Definition remap (g : Z -> Z) (b : list (Z * W)) : bins := bins_of_list (rekey g b).

Lemma nonneg_rekey g b : nonneg b -> nonneg (rekey g b).
Proof.
  induction b as [|[k w] tl IH]; intros H; [constructor|].
  apply nonneg_cons in H. destruct H as [Hw Htl].
  unfold rekey in *. cbn [map fst snd]. apply nonneg_cons. split; [exact Hw|apply IH; exact Htl].
Qed.
Lemma wf_remap g b : nonneg b -> wf (remap g b) = true.
Proof. intros H. apply wf_bins_of_list. apply nonneg_rekey. exact H. Qed.
Lemma pos_remap g b : nonneg b -> pos (remap g b).
Proof. intros H. apply pos_bins_of_list. apply nonneg_rekey. exact H. Qed.
Lemma gsum_remap P g b : gsum P (remap g b) = gsum (fun k => P (g k)) b.
Proof. unfold remap, rekey. rewrite gsum_bins_of_list. apply gsum_map_key. Qed.
Lemma get_remap g b j : nonneg b -> get (remap g b) j = gsum (fun k => j =? g k) b.
Proof.
  intros H. rewrite <- (gsum_eqb_get (remap g b) j) by (apply wf_remap; exact H).
  apply gsum_remap.
Qed.
Lemma total_remap g b : total (remap g b) = total b.
Proof. rewrite !total_gsum. apply gsum_remap. Qed.
Lemma remap_bscale g f b : f <> w0 -> remap g (bscale f b) = bscale f (remap g b).
Proof.
  intros Hf. unfold remap, rekey. rewrite bscale_bins_of_list by exact Hf.
  rewrite bscale_map_key. reflexivity.
Qed.
Lemma remap_nil g : remap g [] = [].
Proof. reflexivity. Qed.
(* the absorption law, generic form *)
Lemma remap_absorb g g' a l :
  pos a -> nonneg l -> wf a = true -> (forall k, g' (g k) = g' k) ->
  remap g' (bmerge_list (remap g a) l) = remap g' (bmerge_list a l).
Proof.
  intros Hpa Hl Ha Hg. pose proof (pos_nonneg a Hpa) as Hna.
  pose proof (wf_remap g a Hna) as Hwr. pose proof (pos_remap g a Hna) as Hpr.
  assert (N1 : nonneg (bmerge_list (remap g a) l))
    by (apply pos_nonneg; apply pos_bmerge_list; assumption).
  assert (N2 : nonneg (bmerge_list a l))
    by (apply pos_nonneg; apply pos_bmerge_list; assumption).
  apply bins_ext.
  - apply wf_remap. exact N1.
  - apply wf_remap. exact N2.
  - intros i. rewrite !get_remap by assumption.
    rewrite !gsum_bmerge_list, gsum_remap. f_equal.
    apply gsum_ext. intros k _. rewrite Hg. reflexivity.
Qed.

(* ---- clamp_low ---- *)
Lemma clamp_low_nil n : clamp_low n [] = [].
Proof. reflexivity. Qed.
Lemma clamp_low_remap n b mx :
  max_key b = Some mx -> clamp_low n b = remap (fun k => Z.max k (mx - n + 1)) b.
Proof. intros H. unfold clamp_low. rewrite H. reflexivity. Qed.

Theorem wf_clamp_low n b : pos b -> wf (clamp_low n b) = true.
Proof.
  intros Hp. destruct (max_key b) as [mx|] eqn:E.
  - rewrite (clamp_low_remap n b mx E). apply wf_remap. apply pos_nonneg. exact Hp.
  - unfold clamp_low. rewrite E. reflexivity.
Qed.
Theorem pos_clamp_low n b : pos b -> pos (clamp_low n b).
Proof.
  intros Hp. destruct (max_key b) as [mx|] eqn:E.
  - rewrite (clamp_low_remap n b mx E). apply pos_remap. apply pos_nonneg. exact Hp.
  - unfold clamp_low. rewrite E. constructor.
Qed.
Theorem total_clamp_low n b : total (clamp_low n b) = total b.
Proof.
  destruct (max_key b) as [mx|] eqn:E.
  - rewrite (clamp_low_remap n b mx E). apply total_remap.
  - apply max_key_none in E. subst b. reflexivity.
Qed.

Theorem get_clamp_low n b mx j :
  wf b = true -> pos b -> max_key b = Some mx ->
  get (clamp_low n b) j =
    let e := mx - n + 1 in
    if j <? e then w0 else if j =? e then cum b e else get b j.
Proof.
  intros Hwf Hp Hmx. cbv zeta. rewrite (clamp_low_remap n b mx Hmx).
  rewrite get_remap by (apply pos_nonneg; exact Hp).
  destruct (Z.ltb_spec j (mx - n + 1)) as [H1|H1].
  - apply gsum_false. intros k _. apply Z.eqb_neq. lia.
  - destruct (Z.eqb_spec j (mx - n + 1)) as [H2|H2].
    + subst j. unfold cum. apply gsum_ext. intros k _.
      destruct (Z.leb_spec k (mx - n + 1)) as [H3|H3]; [apply Z.eqb_eq|apply Z.eqb_neq]; lia.
    + rewrite <- (gsum_eqb_get b j Hwf). apply gsum_ext. intros k _.
      destruct (Z.eqb_spec j k) as [H3|H3]; [apply Z.eqb_eq|apply Z.eqb_neq]; lia.
Qed.

Theorem max_key_clamp_low n b :
  1 <= n -> wf b = true -> pos b -> max_key (clamp_low n b) = max_key b.
Proof.
  intros Hn Hwf Hp. destruct (max_key b) as [mx|] eqn:E.
  2:{ unfold clamp_low. rewrite E. reflexivity. }
  destruct (max_key_spec b mx Hwf E) as [H1 H2].
  apply max_key_iff; [apply wf_clamp_low; exact Hp|]. split.
  - rewrite (get_clamp_low n b mx mx Hwf Hp E). cbv zeta.
    destruct (Z.ltb_spec mx (mx - n + 1)) as [H3|H3]; [lia|].
    destruct (Z.eqb_spec mx (mx - n + 1)) as [H4|H4]; [|exact H1].
    rewrite <- H4.
    assert (Hle : (get b mx <= cum b mx)%Qc).
    { unfold cum. apply get_le_gsum; [apply pos_nonneg; exact Hp|apply Z.leb_refl]. }
    pose proof (get_neq0_pos b mx Hp H1) as Hpos. wlra.
  - intros j Hj. rewrite (get_clamp_low n b mx j Hwf Hp E). cbv zeta.
    destruct (Z.ltb_spec j (mx - n + 1)) as [H3|H3]; [reflexivity|].
    destruct (Z.eqb_spec j (mx - n + 1)) as [H4|H4]; [lia|]. apply H2. exact Hj.
Qed.

(* every key of the result lies in [mx - n + 1, mx] *)
Theorem clamp_low_range n b mx j :
  1 <= n -> wf b = true -> pos b -> max_key b = Some mx ->
  get (clamp_low n b) j <> w0 -> mx - n + 1 <= j <= mx.
Proof.
  intros Hn Hwf Hp Hmx Hj. split.
  - rewrite (get_clamp_low n b mx j Hwf Hp Hmx) in Hj. cbv zeta in Hj.
    destruct (Z.ltb_spec j (mx - n + 1)) as [H3|H3]; [exfalso; apply Hj; reflexivity|exact H3].
  - apply (max_key_ge (clamp_low n b) mx j); [apply wf_clamp_low; exact Hp| |exact Hj].
    rewrite max_key_clamp_low by assumption. exact Hmx.
Qed.

(* a canonical list whose keys all lie in (lo, hi] has at most hi - lo entries *)
Lemma length_bound_ka lo hi b :
  keys_above lo b = true -> (forall j, get b j <> w0 -> j <= hi) ->
  Z.of_nat (length b) <= Z.max 0 (hi - lo).
Proof.
  revert lo. induction b as [|[k w] tl IH]; intros lo Hka H.
  - cbn [length]. lia.
  - apply keys_above_cons in Hka. destruct Hka as [H1 [H2 H3]].
    assert (Hk : k <= hi). { apply H. rewrite get_head. exact H2. }
    assert (IH' : Z.of_nat (length tl) <= Z.max 0 (hi - k)).
    { apply IH; [exact H3|]. intros j Hj. apply H. cbn [get].
      destruct (Z.eqb_spec j k) as [E|E]; [exact H2|exact Hj]. }
    cbn [length]. lia.
Qed.
Lemma length_bound lo hi b :
  wf b = true -> (forall j, get b j <> w0 -> lo <= j <= hi) ->
  Z.of_nat (length b) <= Z.max 0 (hi - lo + 1).
Proof.
  intros Hwf H.
  assert (Hka : keys_above (lo - 1) b = true).
  { apply keys_above_iff. split; [exact Hwf|]. intros j Hj.
    destruct (weqb_spec (get b j) w0) as [E|E]; [exact E|]. specialize (H j E). lia. }
  replace (hi - lo + 1) with (hi - (lo - 1)) by lia.
  apply length_bound_ka; [exact Hka|]. intros j Hj. apply H. exact Hj.
Qed.

Theorem clamp_low_length n b :
  1 <= n -> wf b = true -> pos b -> Z.of_nat (length (clamp_low n b)) <= n.
Proof.
  intros Hn Hwf Hp. destruct (max_key b) as [mx|] eqn:E.
  - pose proof (length_bound (mx - n + 1) mx (clamp_low n b) (wf_clamp_low n b Hp)) as H.
    assert (Hr : forall j, get (clamp_low n b) j <> w0 -> mx - n + 1 <= j <= mx).
    { intros j Hj. apply (clamp_low_range n b mx j); assumption. }
    specialize (H Hr). lia.
  - apply max_key_none in E. subst b. cbn [clamp_low max_key length]. lia.
Qed.
Theorem clamp_low_span n b mn mx :
  1 <= n -> wf b = true -> pos b ->
  min_key (clamp_low n b) = Some mn -> max_key (clamp_low n b) = Some mx ->
  mx - mn + 1 <= n.
Proof.
  intros Hn Hwf Hp Hmn Hmx. rewrite max_key_clamp_low in Hmx by assumption.
  pose proof (min_key_spec _ mn (wf_clamp_low n b Hp) Hmn) as [H1 _].
  pose proof (clamp_low_range n b mx mn Hn Hwf Hp Hmx H1) as H. lia.
Qed.

Theorem clamp_low_absorb_list n a l :
  1 <= n -> wf a = true -> pos a -> nonneg l ->
  clamp_low n (bmerge_list (clamp_low n a) l) = clamp_low n (bmerge_list a l).
Proof.
  intros Hn Ha Hpa Hl. destruct (max_key a) as [ma|] eqn:Ea.
  2:{ unfold clamp_low at 2. rewrite Ea. apply max_key_none in Ea. subst a. reflexivity. }
  pose proof (wf_clamp_low n a Hpa) as Hc. pose proof (pos_clamp_low n a Hpa) as Hpc.
  pose proof (wf_bins_of_list l Hl) as Hb. pose proof (pos_bins_of_list l Hl) as Hpb.
  assert (Hm : max_key (bmerge_list (clamp_low n a) l) = max_key (bmerge_list a l)).
  { rewrite (bmerge_list_canon (clamp_low n a) l), (bmerge_list_canon a l) by assumption.
    rewrite !max_key_bmerge by assumption. rewrite max_key_clamp_low by assumption. reflexivity. }
  assert (Hm' : exists m, max_key (bmerge_list a l) = Some m /\ ma <= m).
  { rewrite bmerge_list_canon by assumption. rewrite max_key_bmerge by assumption. rewrite Ea.
    destruct (max_key (bins_of_list l)) as [mb|]; cbn [olift]; eexists; split; try reflexivity; lia. }
  destruct Hm' as [m [Hm' Hle]]. rewrite Hm' in Hm.
  rewrite (clamp_low_remap n _ m Hm), (clamp_low_remap n _ m Hm'), (clamp_low_remap n a ma Ea).
  apply remap_absorb; try assumption. intros k. lia.
Qed.
Theorem clamp_low_absorb n a b :
  1 <= n -> wf a = true -> pos a -> pos b ->
  clamp_low n (bmerge (clamp_low n a) b) = clamp_low n (bmerge a b).
Proof.
  intros Hn Ha Hpa Hpb. apply clamp_low_absorb_list; try assumption. apply pos_nonneg. exact Hpb.
Qed.
Theorem clamp_low_idem n b :
  1 <= n -> wf b = true -> pos b -> clamp_low n (clamp_low n b) = clamp_low n b.
Proof.
  intros Hn Hwf Hp. exact (clamp_low_absorb_list n b [] Hn Hwf Hp nonneg_nil).
Qed.
Theorem clamp_low_bscale n f b :
  (w0 < f)%Qc -> clamp_low n (bscale f b) = bscale f (clamp_low n b).
Proof.
  intros Hf. unfold clamp_low. rewrite max_key_bscale.
  destruct (max_key b) as [mx|]; [|reflexivity]. cbv zeta.
  apply (remap_bscale (fun k => Z.max k (mx - n + 1))). apply wpos_neq. exact Hf.
Qed.

(* ---- clamp_high ---- *)
Lemma clamp_high_nil n : clamp_high n [] = [].
Proof. reflexivity. Qed.
Lemma clamp_high_remap n b mn :
  min_key b = Some mn -> clamp_high n b = remap (fun k => Z.min k (mn + n - 1)) b.
Proof. intros H. unfold clamp_high. rewrite H. reflexivity. Qed.

Theorem wf_clamp_high n b : pos b -> wf (clamp_high n b) = true.
Proof.
  intros Hp. destruct (min_key b) as [mn|] eqn:E.
  - rewrite (clamp_high_remap n b mn E). apply wf_remap. apply pos_nonneg. exact Hp.
  - unfold clamp_high. rewrite E. reflexivity.
Qed.
Theorem pos_clamp_high n b : pos b -> pos (clamp_high n b).
Proof.
  intros Hp. destruct (min_key b) as [mn|] eqn:E.
  - rewrite (clamp_high_remap n b mn E). apply pos_remap. apply pos_nonneg. exact Hp.
  - unfold clamp_high. rewrite E. constructor.
Qed.
Theorem total_clamp_high n b : total (clamp_high n b) = total b.
Proof.
  destruct (min_key b) as [mn|] eqn:E.
  - rewrite (clamp_high_remap n b mn E). apply total_remap.
  - apply min_key_none in E. subst b. reflexivity.
Qed.

Theorem get_clamp_high n b mn j :
  wf b = true -> pos b -> min_key b = Some mn ->
  get (clamp_high n b) j =
    let e := mn + n - 1 in
    if e <? j then w0 else if j =? e then cum_up b e else get b j.
Proof.
  intros Hwf Hp Hmn. cbv zeta. rewrite (clamp_high_remap n b mn Hmn).
  rewrite get_remap by (apply pos_nonneg; exact Hp).
  destruct (Z.ltb_spec (mn + n - 1) j) as [H1|H1].
  - apply gsum_false. intros k _. apply Z.eqb_neq. lia.
  - destruct (Z.eqb_spec j (mn + n - 1)) as [H2|H2].
    + subst j. unfold cum_up. apply gsum_ext. intros k _.
      destruct (Z.leb_spec (mn + n - 1) k) as [H3|H3]; [apply Z.eqb_eq|apply Z.eqb_neq]; lia.
    + rewrite <- (gsum_eqb_get b j Hwf). apply gsum_ext. intros k _.
      destruct (Z.eqb_spec j k) as [H3|H3]; [apply Z.eqb_eq|apply Z.eqb_neq]; lia.
Qed.

Theorem min_key_clamp_high n b :
  1 <= n -> wf b = true -> pos b -> min_key (clamp_high n b) = min_key b.
Proof.
  intros Hn Hwf Hp. destruct (min_key b) as [mn|] eqn:E.
  2:{ unfold clamp_high. rewrite E. reflexivity. }
  destruct (min_key_spec b mn Hwf E) as [H1 H2].
  apply min_key_iff; [apply wf_clamp_high; exact Hp|]. split.
  - rewrite (get_clamp_high n b mn mn Hwf Hp E). cbv zeta.
    destruct (Z.ltb_spec (mn + n - 1) mn) as [H3|H3]; [lia|].
    destruct (Z.eqb_spec mn (mn + n - 1)) as [H4|H4]; [|exact H1].
    rewrite <- H4.
    assert (Hle : (get b mn <= cum_up b mn)%Qc).
    { unfold cum_up. apply get_le_gsum; [apply pos_nonneg; exact Hp|apply Z.leb_refl]. }
    pose proof (get_neq0_pos b mn Hp H1) as Hpos. wlra.
  - intros j Hj. rewrite (get_clamp_high n b mn j Hwf Hp E). cbv zeta.
    destruct (Z.ltb_spec (mn + n - 1) j) as [H3|H3]; [reflexivity|].
    destruct (Z.eqb_spec j (mn + n - 1)) as [H4|H4]; [lia|]. apply H2. exact Hj.
Qed.

Theorem clamp_high_range n b mn j :
  1 <= n -> wf b = true -> pos b -> min_key b = Some mn ->
  get (clamp_high n b) j <> w0 -> mn <= j <= mn + n - 1.
Proof.
  intros Hn Hwf Hp Hmn Hj. split.
  - apply (min_key_le (clamp_high n b) mn j); [apply wf_clamp_high; exact Hp| |exact Hj].
    rewrite min_key_clamp_high by assumption. exact Hmn.
  - rewrite (get_clamp_high n b mn j Hwf Hp Hmn) in Hj. cbv zeta in Hj.
    destruct (Z.ltb_spec (mn + n - 1) j) as [H3|H3]; [exfalso; apply Hj; reflexivity|exact H3].
Qed.
Theorem clamp_high_length n b :
  1 <= n -> wf b = true -> pos b -> Z.of_nat (length (clamp_high n b)) <= n.
Proof.
  intros Hn Hwf Hp. destruct (min_key b) as [mn|] eqn:E.
  - pose proof (length_bound mn (mn + n - 1) (clamp_high n b) (wf_clamp_high n b Hp)) as H.
    assert (Hr : forall j, get (clamp_high n b) j <> w0 -> mn <= j <= mn + n - 1).
    { intros j Hj. apply (clamp_high_range n b mn j); assumption. }
    specialize (H Hr). lia.
  - apply min_key_none in E. subst b. cbn [clamp_high min_key length]. lia.
Qed.
Theorem clamp_high_span n b mn mx :
  1 <= n -> wf b = true -> pos b ->
  min_key (clamp_high n b) = Some mn -> max_key (clamp_high n b) = Some mx ->
  mx - mn + 1 <= n.
Proof.
  intros Hn Hwf Hp Hmn Hmx. rewrite min_key_clamp_high in Hmn by assumption.
  pose proof (max_key_spec _ mx (wf_clamp_high n b Hp) Hmx) as [H1 _].
  pose proof (clamp_high_range n b mn mx Hn Hwf Hp Hmn H1) as H. lia.
Qed.

Theorem clamp_high_absorb_list n a l :
  1 <= n -> wf a = true -> pos a -> nonneg l ->
  clamp_high n (bmerge_list (clamp_high n a) l) = clamp_high n (bmerge_list a l).
Proof.
  intros Hn Ha Hpa Hl. destruct (min_key a) as [ma|] eqn:Ea.
  2:{ unfold clamp_high at 2. rewrite Ea. apply min_key_none in Ea. subst a. reflexivity. }
  pose proof (wf_clamp_high n a Hpa) as Hc. pose proof (pos_clamp_high n a Hpa) as Hpc.
  pose proof (wf_bins_of_list l Hl) as Hb. pose proof (pos_bins_of_list l Hl) as Hpb.
  assert (Hm : min_key (bmerge_list (clamp_high n a) l) = min_key (bmerge_list a l)).
  { rewrite (bmerge_list_canon (clamp_high n a) l), (bmerge_list_canon a l) by assumption.
    rewrite !min_key_bmerge by assumption. rewrite min_key_clamp_high by assumption. reflexivity. }
  assert (Hm' : exists m, min_key (bmerge_list a l) = Some m /\ m <= ma).
  { rewrite bmerge_list_canon by assumption. rewrite min_key_bmerge by assumption. rewrite Ea.
    destruct (min_key (bins_of_list l)) as [mb|]; cbn [olift]; eexists; split; try reflexivity; lia. }
  destruct Hm' as [m [Hm' Hle]]. rewrite Hm' in Hm.
  rewrite (clamp_high_remap n _ m Hm), (clamp_high_remap n _ m Hm'), (clamp_high_remap n a ma Ea).
  apply remap_absorb; try assumption. intros k. lia.
Qed.
Theorem clamp_high_absorb n a b :
  1 <= n -> wf a = true -> pos a -> pos b ->
  clamp_high n (bmerge (clamp_high n a) b) = clamp_high n (bmerge a b).
Proof.
  intros Hn Ha Hpa Hpb. apply clamp_high_absorb_list; try assumption. apply pos_nonneg. exact Hpb.
Qed.
Theorem clamp_high_idem n b :
  1 <= n -> wf b = true -> pos b -> clamp_high n (clamp_high n b) = clamp_high n b.
Proof.
  intros Hn Hwf Hp. exact (clamp_high_absorb_list n b [] Hn Hwf Hp nonneg_nil).
Qed.
Theorem clamp_high_bscale n f b :
  (w0 < f)%Qc -> clamp_high n (bscale f b) = bscale f (clamp_high n b).
Proof.
  intros Hf. unfold clamp_high. rewrite min_key_bscale.
  destruct (min_key b) as [mn|]; [|reflexivity]. cbv zeta.
  apply (remap_bscale (fun k => Z.min k (mn + n - 1))). apply wpos_neq. exact Hf.
Qed.

(* ---- norm, sadd, smerge_list ---- *)
Definition limit_ok (l : limit) : Prop :=
  match l with Exact => True | Lowest n => 1 <= n | Highest n => 1 <= n end.

Theorem wf_norm l b : wf b = true -> pos b -> wf (norm l b) = true.
Proof.
  intros Hwf Hp. destruct l as [|n|n]; cbn [norm];
    [exact Hwf|apply wf_clamp_low; exact Hp|apply wf_clamp_high; exact Hp].
Qed.
Theorem pos_norm l b : pos b -> pos (norm l b).
Proof.
  intros Hp. destruct l as [|n|n]; cbn [norm];
    [exact Hp|apply pos_clamp_low; exact Hp|apply pos_clamp_high; exact Hp].
Qed.
Theorem total_norm l b : total (norm l b) = total b.
Proof.
  destruct l as [|n|n]; cbn [norm]; [reflexivity|apply total_clamp_low|apply total_clamp_high].
Qed.
Theorem norm_idem l b :
  limit_ok l -> wf b = true -> pos b -> norm l (norm l b) = norm l b.
Proof.
  intros Hl Hwf Hp. destruct l as [|n|n]; cbn [norm limit_ok] in *;
    [reflexivity|apply clamp_low_idem; assumption|apply clamp_high_idem; assumption].
Qed.
Theorem norm_absorb_list l a xs :
  limit_ok l -> wf a = true -> pos a -> nonneg xs ->
  norm l (bmerge_list (norm l a) xs) = norm l (bmerge_list a xs).
Proof.
  intros Hl Hwf Hp Hxs. destruct l as [|n|n]; cbn [norm limit_ok] in *;
    [reflexivity|apply clamp_low_absorb_list; assumption|apply clamp_high_absorb_list; assumption].
Qed.
Theorem norm_absorb l a b :
  limit_ok l -> wf a = true -> pos a -> pos b ->
  norm l (bmerge (norm l a) b) = norm l (bmerge a b).
Proof.
  intros Hl Hwf Hp Hb. apply norm_absorb_list; try assumption. apply pos_nonneg. exact Hb.
Qed.
Theorem norm_bscale l f b : (w0 < f)%Qc -> norm l (bscale f b) = bscale f (norm l b).
Proof.
  intros Hf. destruct l as [|n|n]; cbn [norm];
    [reflexivity|apply clamp_low_bscale; exact Hf|apply clamp_high_bscale; exact Hf].
Qed.
Theorem norm_length l b :
  wf b = true -> pos b ->
  match l with
  | Exact => True
  | Lowest n | Highest n => 1 <= n -> Z.of_nat (length (norm l b)) <= n
  end.
Proof.
  intros Hwf Hp. destruct l as [|n|n]; cbn [norm]; [exact I| |]; intros Hn;
    [apply clamp_low_length|apply clamp_high_length]; assumption.
Qed.

Lemma badd0_bmerge_list a i c : badd0 a i c = bmerge_list a [(i, c)].
Proof. reflexivity. Qed.
Theorem sadd_norm l a i c :
  limit_ok l -> wf a = true -> pos a -> (w0 <= c)%Qc ->
  sadd l (norm l a) i c = norm l (badd0 a i c).
Proof.
  intros Hl Hwf Hp Hc. unfold sadd. rewrite !badd0_bmerge_list.
  apply norm_absorb_list; try assumption. apply nonneg_cons. split; [exact Hc|constructor].
Qed.
(* after ANY history of additions the content is the clamp of the exact content *)
Theorem smerge_list_norm l a xs :
  limit_ok l -> wf a = true -> pos a -> nonneg xs ->
  smerge_list l (norm l a) xs = norm l (bmerge_list a xs).
Proof.
  intros Hl. revert a. induction xs as [|[k c] xs IH]; intros a Hwf Hp Hxs; [reflexivity|].
  apply nonneg_cons in Hxs. destruct Hxs as [Hc Hxs].
  unfold smerge_list in *. cbn [fold_left fst snd].
  rewrite (sadd_norm l a k c Hl Hwf Hp Hc). rewrite bmerge_list_cons.
  apply IH; [apply wf_badd0|apply pos_badd0|]; assumption.
Qed.
Corollary smerge_list_from_empty l xs :
  limit_ok l -> nonneg xs -> smerge_list l [] xs = norm l (bins_of_list xs).
Proof.
  intros Hl Hxs.
  assert (E : norm l [] = []) by (destruct l; reflexivity).
  rewrite <- E at 1. apply smerge_list_norm; [exact Hl|reflexivity|constructor|exact Hxs].
Qed.

(* ================================================================== *)
(** * 7. key_at_rank                                                   *)
(* ================================================================== *)

Lemma karf_single acc k w r : key_at_rank_from acc [(k, w)] r = Some k.
Proof. reflexivity. Qed.
Lemma karf_cons2 acc k w k2 w2 tl r :
  key_at_rank_from acc ((k, w) :: (k2, w2) :: tl) r =
  if wltb r (wadd acc w) then Some k else key_at_rank_from (wadd acc w) ((k2, w2) :: tl) r.
Proof. reflexivity. Qed.

Lemma cum_cons k w tl j :
  cum ((k, w) :: tl) j = if k <=? j then wadd w (cum tl j) else cum tl j.
Proof. reflexivity. Qed.
Lemma cum_nil j : cum [] j = w0.
Proof. reflexivity. Qed.
Lemma cum_below lo b j : keys_above lo b = true -> j <= lo -> cum b j = w0.
Proof.
  intros Hka Hj. unfold cum. apply gsum_false. intros k Hin.
  pose proof (keys_above_In lo b k Hka Hin) as Hk. apply Z.leb_gt. lia.
Qed.
Lemma gsum_le P Q b :
  nonneg b -> (forall k, P k = true -> Q k = true) -> (gsum P b <= gsum Q b)%Qc.
Proof.
  intros Hn HPQ. induction b as [|[k w] tl IH].
  - rewrite !gsum_nil. wlra.
  - apply nonneg_cons in Hn. destruct Hn as [Hw Htl]. specialize (IH Htl).
    pose proof (gsum_nonneg Q tl Htl) as HQ.
    rewrite !gsum_cons. destruct (P k) eqn:EP.
    + rewrite (HPQ k EP). wlra.
    + destruct (Q k); wlra.
Qed.
Lemma cum_nonneg b j : nonneg b -> (w0 <= cum b j)%Qc.
Proof. apply gsum_nonneg. Qed.
Lemma cum_mono b i j : nonneg b -> i <= j -> (cum b i <= cum b j)%Qc.
Proof.
  intros Hn Hij. unfold cum. apply gsum_le; [exact Hn|].
  intros k Hk. apply Z.leb_le in Hk. apply Z.leb_le. lia.
Qed.
Lemma cum_le_total b j : nonneg b -> (cum b j <= total b)%Qc.
Proof. intros Hn. rewrite total_gsum. unfold cum. apply gsum_le; [exact Hn|reflexivity]. Qed.
Lemma cum_at_max b mx j : wf b = true -> max_key b = Some mx -> mx <= j -> cum b j = total b.
Proof.
  intros Hwf Hmx Hj. rewrite total_gsum. unfold cum. apply gsum_ext. intros k Hin.
  apply Z.leb_le. pose proof (max_key_ge b mx k Hwf Hmx (In_get_neq0 b k Hwf Hin)). lia.
Qed.
(* cum is the sum of the contents at indices <= j: its increments are the contents *)
Lemma cum_step b j : wf b = true -> cum b j = wadd (cum b (j - 1)) (get b j).
Proof.
  intros Hwf. rewrite <- (gsum_eqb_get b j Hwf). unfold cum.
  clear Hwf. induction b as [|[k w] tl IH].
  - rewrite !gsum_nil, wadd_0_l. reflexivity.
  - rewrite !gsum_cons, IH.
    destruct (Z.leb_spec k j) as [H1|H1]; destruct (Z.leb_spec k (j - 1)) as [H2|H2];
      destruct (Z.eqb_spec j k) as [H3|H3]; try lia; try reflexivity; wring.
Qed.

Lemma karf_In acc b r k : key_at_rank_from acc b r = Some k -> In k (map fst b).
Proof.
  revert acc. induction b as [|[k1 w1] tl IH]; intros acc H; [discriminate|].
  destruct tl as [|[k2 w2] tl].
  - rewrite karf_single in H. injection H as H. left. exact H.
  - rewrite karf_cons2 in H. destruct (wltb r (wadd acc w1)).
    + injection H as H. left. exact H.
    + right. eapply IH. exact H.
Qed.
Lemma karf_some acc b r : b <> [] -> exists k, key_at_rank_from acc b r = Some k.
Proof.
  revert acc. induction b as [|[k1 w1] tl IH]; intros acc H; [contradiction|].
  destruct tl as [|[k2 w2] tl].
  - exists k1. reflexivity.
  - rewrite karf_cons2. destruct (wltb r (wadd acc w1)); [exists k1; reflexivity|].
    apply IH. discriminate.
Qed.

Theorem key_at_rank_none b r : key_at_rank b r = None <-> b = [].
Proof.
  split; intros H; [|subst b; reflexivity].
  destruct b as [|kw tl]; [reflexivity|]. exfalso.
  destruct (karf_some w0 (kw :: tl) r) as [k Hk]; [discriminate|].
  unfold key_at_rank in H. congruence.
Qed.
(* the answer is always a key of b *)
Theorem key_at_rank_key b r k : wf b = true -> key_at_rank b r = Some k -> get b k <> w0.
Proof.
  intros Hwf H. apply In_get_neq0; [exact Hwf|]. eapply karf_In. exact H.
Qed.

Lemma karf_spec lo acc b r :
  keys_above lo b = true -> pos b -> b <> [] -> (acc <= r)%Qc ->
  exists k, key_at_rank_from acc b r = Some k /\ get b k <> w0 /\
    (((r < wadd acc (cum b k))%Qc /\ forall j, j < k -> (wadd acc (cum b j) <= r)%Qc) \/
     (max_key b = Some k /\ forall j, (wadd acc (cum b j) <= r)%Qc)).
Proof.
  revert lo acc. induction b as [|[k w] tl IH]; intros lo acc Hka Hp Hne Hacc; [contradiction|].
  apply keys_above_cons in Hka. destruct Hka as [Hlo [Hw Hka]].
  apply pos_cons in Hp. destruct Hp as [Hwp Hp].
  destruct tl as [|[k2 w2] tl].
  - exists k. split; [reflexivity|]. split; [rewrite get_head; exact Hw|].
    destruct (wltb_spec r (wadd acc w)) as [Hr|Hr].
    + left. split.
      * rewrite cum_cons, Z.leb_refl, cum_nil. wlra.
      * intros j Hj. rewrite cum_cons. destruct (Z.leb_spec k j) as [E|E]; [lia|].
        rewrite cum_nil. wlra.
    + right. split; [reflexivity|]. intros j. rewrite cum_cons, cum_nil.
      destruct (k <=? j); wlra.
  - rewrite karf_cons2. destruct (wltb_spec r (wadd acc w)) as [Hr|Hr].
    + exists k. split; [reflexivity|]. split; [rewrite get_head; exact Hw|]. left. split.
      * rewrite cum_cons, Z.leb_refl. rewrite (cum_below k _ k Hka) by lia. wlra.
      * intros j Hj. rewrite cum_cons. destruct (Z.leb_spec k j) as [E|E]; [lia|].
        rewrite (cum_below k _ j Hka) by lia. wlra.
    + assert (Hacc' : (wadd acc w <= r)%Qc) by wlra.
      assert (Hne' : (k2, w2) :: tl <> []) by discriminate.
      destruct (IH k (wadd acc w) Hka Hp Hne' Hacc') as [k' [H1 [H2 H3]]].
      assert (Hkk : k < k').
      { destruct (Z.lt_ge_cases k k') as [Hlt|Hge]; [exact Hlt|]. exfalso. apply H2.
        apply (keys_above_get0 k _ k' Hka). exact Hge. }
      assert (Hall : forall j, (wadd (wadd acc w) (cum ((k2, w2) :: tl) j) <= r)%Qc ->
                               (wadd acc (cum ((k, w) :: (k2, w2) :: tl) j) <= r)%Qc).
      { intros j Hj. rewrite (cum_cons k w). destruct (Z.leb_spec k j) as [E|E].
        - rewrite wadd_assoc. exact Hj.
        - rewrite (cum_below k _ j Hka) by lia. wlra. }
      exists k'. split; [exact H1|]. split.
      * cbn [get] in H2 |- *. destruct (Z.eqb_spec k' k) as [E|E]; [lia|exact H2].
      * destruct H3 as [[H3 H4]|[H3 H4]].
        -- left. split.
           ++ rewrite (cum_cons k w). destruct (Z.leb_spec k k') as [E|E]; [|lia].
              rewrite wadd_assoc. exact H3.
           ++ intros j Hj. apply Hall. apply H4. exact Hj.
        -- right. split; [rewrite max_key_cons2; exact H3|].
           intros j. apply Hall. apply H4.
Qed.

(* characterisation: for 0 <= r, the answer k is a key, and either it is the least index whose
   cumulative weight exceeds r, or no such index exists and k is the last key *)
Theorem key_at_rank_spec b r :
  wf b = true -> pos b -> b <> [] -> (w0 <= r)%Qc ->
  exists k, key_at_rank b r = Some k /\ get b k <> w0 /\
    (((r < cum b k)%Qc /\ forall j, j < k -> (cum b j <= r)%Qc) \/
     (max_key b = Some k /\ forall j, (cum b j <= r)%Qc)).
Proof.
  intros Hwf Hp Hne Hr. destruct (wf_keys_above_lt b 0 Hwf) as [lo [_ Hlo]].
  destruct (karf_spec lo w0 b r Hlo Hp Hne Hr) as [k [H1 [H2 H3]]].
  exists k. split; [exact H1|]. split; [exact H2|].
  destruct H3 as [[H3 H4]|[H3 H4]].
  - left. rewrite wadd_0_l in H3. split; [exact H3|].
    intros j Hj. specialize (H4 j Hj). rewrite wadd_0_l in H4. exact H4.
  - right. split; [exact H3|]. intros j. specialize (H4 j). rewrite wadd_0_l in H4. exact H4.
Qed.
(* the same, as properties of any answer *)
Theorem key_at_rank_least b r k j :
  wf b = true -> pos b -> (w0 <= r)%Qc -> key_at_rank b r = Some k ->
  (r < cum b j)%Qc -> k <= j /\ (r < cum b k)%Qc.
Proof.
  intros Hwf Hp Hr Hk Hj.
  assert (Hne : b <> []). { intros E. subst b. discriminate. }
  destruct (key_at_rank_spec b r Hwf Hp Hne Hr) as [k' [H1 [H2 H3]]].
  rewrite Hk in H1. injection H1 as H1. subst k'.
  destruct H3 as [[H3 H4]|[H3 H4]].
  - split; [|exact H3]. destruct (Z.lt_ge_cases j k) as [Hlt|Hge]; [|exact Hge].
    exfalso. specialize (H4 j Hlt). wlra.
  - exfalso. specialize (H4 j). wlra.
Qed.
Theorem key_at_rank_last b r k :
  wf b = true -> pos b -> (w0 <= r)%Qc -> key_at_rank b r = Some k ->
  (forall j, (cum b j <= r)%Qc) -> max_key b = Some k.
Proof.
  intros Hwf Hp Hr Hk Hall.
  assert (Hne : b <> []). { intros E. subst b. discriminate. }
  destruct (key_at_rank_spec b r Hwf Hp Hne Hr) as [k' [H1 [H2 H3]]].
  rewrite Hk in H1. injection H1 as H1. subst k'.
  destruct H3 as [[H3 H4]|[H3 H4]]; [|exact H3].
  exfalso. specialize (Hall k). wlra.
Qed.
Theorem key_at_rank_ge_total b r :
  wf b = true -> pos b -> (total b <= r)%Qc -> key_at_rank b r = max_key b.
Proof.
  intros Hwf Hp Hr. destruct b as [|kw tl] eqn:Eb; [reflexivity|]. rewrite <- Eb in *.
  assert (Hne : b <> []) by (rewrite Eb; discriminate).
  pose proof (total_nonneg b (pos_nonneg b Hp)) as Ht.
  assert (Hr0 : (w0 <= r)%Qc) by wlra.
  destruct (karf_some w0 b r Hne) as [k Hk]. fold (key_at_rank b r) in Hk. rewrite Hk.
  symmetry. apply (key_at_rank_last b r k Hwf Hp Hr0 Hk).
  intros j. pose proof (cum_le_total b j (pos_nonneg b Hp)) as Hc. wlra.
Qed.

(* negative ranks select the first key *)
Theorem key_at_rank_neg b r : pos b -> (r < w0)%Qc -> key_at_rank b r = min_key b.
Proof.
  intros Hp Hr. destruct b as [|[k w] tl]; [reflexivity|].
  apply pos_cons in Hp. destruct Hp as [Hw _].
  destruct tl as [|[k2 w2] tl]; [reflexivity|].
  unfold key_at_rank. rewrite karf_cons2.
  destruct (wltb_spec r (wadd w0 w)) as [H|H]; [reflexivity|]. exfalso. apply H. wlra.
Qed.

Lemma karf_mono lo acc b r1 r2 k1 k2 :
  keys_above lo b = true -> (r1 <= r2)%Qc ->
  key_at_rank_from acc b r1 = Some k1 -> key_at_rank_from acc b r2 = Some k2 -> k1 <= k2.
Proof.
  revert lo acc. induction b as [|[k w] tl IH]; intros lo acc Hka Hr H1 H2; [discriminate|].
  apply keys_above_cons in Hka. destruct Hka as [Hlo [Hw Hka]].
  destruct tl as [|[k3 w3] tl].
  - rewrite karf_single in H1, H2. injection H1 as H1. injection H2 as H2. lia.
  - rewrite karf_cons2 in H1, H2.
    destruct (wltb_spec r1 (wadd acc w)) as [E1|E1]; destruct (wltb_spec r2 (wadd acc w)) as [E2|E2].
    + injection H1 as H1. injection H2 as H2. lia.
    + injection H1 as H1. subst k1.
      pose proof (keys_above_In k _ k2 Hka (karf_In _ _ _ _ H2)) as Hk. lia.
    + exfalso. apply E1. wlra.
    + eapply (IH k); eassumption.
Qed.
Theorem key_at_rank_mono b r1 r2 k1 k2 :
  wf b = true -> (r1 <= r2)%Qc ->
  key_at_rank b r1 = Some k1 -> key_at_rank b r2 = Some k2 -> k1 <= k2.
Proof.
  intros Hwf Hr H1 H2. destruct (wf_keys_above_lt b 0 Hwf) as [lo [_ Hlo]].
  eapply karf_mono; eassumption.
Qed.

Lemma karf_bscale f acc b r :
  (w0 < f)%Qc ->
  key_at_rank_from (wmul f acc) (bscale f b) (wmul f r) = key_at_rank_from acc b r.
Proof.
  intros Hf. revert acc. induction b as [|[k w] tl IH]; intros acc; [reflexivity|].
  destruct tl as [|[k2 w2] tl]; [reflexivity|].
  rewrite (bscale_cons f k w). rewrite (bscale_cons f k2 w2). rewrite !karf_cons2.
  rewrite <- wmul_add_distr_l. rewrite (wltb_mul f r (wadd acc w) Hf).
  destruct (wltb r (wadd acc w)); [reflexivity|].
  rewrite <- (bscale_cons f k2 w2). apply IH.
Qed.
Theorem key_at_rank_bscale f b r :
  (w0 < f)%Qc -> key_at_rank (bscale f b) (wmul f r) = key_at_rank b r.
Proof.
  intros Hf. unfold key_at_rank. rewrite <- (karf_bscale f w0 b r Hf).
  rewrite wmul_0_r. reflexivity.
Qed.

(* ================================================================== *)
(** * Complements                                                      *)
(* ================================================================== *)

(* cum_up mirrors cum *)
Lemma cum_up_step b j : wf b = true -> cum_up b j = wadd (cum_up b (j + 1)) (get b j).
Proof.
  intros Hwf. rewrite <- (gsum_eqb_get b j Hwf). unfold cum_up.
  clear Hwf. induction b as [|[k w] tl IH].
  - rewrite !gsum_nil, wadd_0_l. reflexivity.
  - rewrite !gsum_cons, IH.
    destruct (Z.leb_spec j k) as [H1|H1]; destruct (Z.leb_spec (j + 1) k) as [H2|H2];
      destruct (Z.eqb_spec j k) as [H3|H3]; try lia; try reflexivity; wring.
Qed.
Lemma cum_cum_up b j : wadd (cum b j) (cum_up b (j + 1)) = total b.
Proof.
  rewrite total_gsum. unfold cum, cum_up. induction b as [|[k w] tl IH].
  - rewrite !gsum_nil. apply wadd_0_l.
  - rewrite !gsum_cons, <- IH.
    destruct (Z.leb_spec k j) as [H1|H1]; destruct (Z.leb_spec (j + 1) k) as [H2|H2];
      try lia; wring.
Qed.
Lemma cum_up_le_total b j : nonneg b -> (cum_up b j <= total b)%Qc.
Proof. intros Hn. rewrite total_gsum. unfold cum_up. apply gsum_le; [exact Hn|reflexivity]. Qed.

(* bmerge [] a = a for every canonical a, positive or not *)
Lemma keys_above_app_mid lo p k c l :
  keys_above lo (p ++ (k, c) :: l) = true ->
  c <> w0 /\ lo < k /\ forall k', In k' (map fst p) -> k' < k.
Proof.
  revert lo. induction p as [|[k1 w1] p IH]; intros lo H.
  - cbn [app] in H. apply keys_above_cons in H. destruct H as [H1 [H2 _]].
    split; [exact H2|]. split; [exact H1|]. intros k' Hin. contradiction.
  - cbn [app] in H. apply keys_above_cons in H. destruct H as [H1 [H2 H3]].
    destruct (IH k1 H3) as [I1 [I2 I3]]. split; [exact I1|]. split; [lia|].
    intros k' Hin. cbn [map fst In] in Hin. destruct Hin as [E|Hin]; [lia|apply I3; exact Hin].
Qed.
Lemma badd_snoc p k c : (forall k', In k' (map fst p) -> k' < k) -> badd p k c = p ++ [(k, c)].
Proof.
  induction p as [|[k1 w1] p IH]; intros H; [reflexivity|].
  assert (H1 : k1 < k) by (apply H; left; reflexivity).
  cbn [badd app]. destruct (Z.ltb_spec k k1) as [E|E]; [lia|].
  destruct (Z.eqb_spec k k1) as [E'|E']; [lia|].
  rewrite IH; [reflexivity|]. intros k' Hin. apply H. right. exact Hin.
Qed.
Lemma bmerge_list_sorted_app lo p l :
  keys_above lo (p ++ l) = true -> bmerge_list p l = p ++ l.
Proof.
  revert p. induction l as [|[k c] l IH]; intros p H.
  - rewrite app_nil_r. reflexivity.
  - destruct (keys_above_app_mid lo p k c l H) as [H1 [H2 H3]].
    rewrite bmerge_list_cons, (badd0_nz p k c H1), (badd_snoc p k c H3).
    rewrite IH; rewrite <- app_assoc; [reflexivity|exact H].
Qed.
Theorem bmerge_nil_l_gen a : wf a = true -> bmerge [] a = a.
Proof.
  intros Hwf. destruct (wf_keys_above_lt a 0 Hwf) as [lo [_ Hlo]].
  exact (bmerge_list_sorted_app lo [] a Hlo).
Qed.

(* decidable versions of the hypotheses, for concrete instances *)
Definition posb (b : list (Z * W)) : bool := forallb (fun kw => wltb w0 (snd kw)) b.
Lemma posb_pos b : posb b = true -> pos b.
Proof.
  unfold posb, pos. rewrite forallb_forall, Forall_forall.
  intros H kw Hin. apply wltb_lt. apply H. exact Hin.
Qed.
Definition nonnegb (b : list (Z * W)) : bool := forallb (fun kw => wleb w0 (snd kw)) b.
Lemma nonnegb_nonneg b : nonnegb b = true -> nonneg b.
Proof.
  unfold nonnegb, nonneg. rewrite forallb_forall, Forall_forall.
  intros H kw Hin. apply wleb_le. apply H. exact Hin.
Qed.
Fixpoint bins_eqb (a b : bins) : bool :=
  match a, b with
  | [], [] => true
  | (k, w) :: ta, (k', w') :: tb => (k =? k') && weqb w w' && bins_eqb ta tb
  | _, _ => false
  end.
Lemma bins_eqb_eq a b : bins_eqb a b = true <-> a = b.
Proof.
  revert b. induction a as [|[k w] ta IH]; intros [|[k' w'] tb]; cbn [bins_eqb];
    try (split; intros H; congruence).
  rewrite !andb_true_iff, Z.eqb_eq, weqb_eq, IH. split.
  - intros [[H1 H2] H3]. congruence.
  - intros H. injection H as H1 H2 H3. tauto.
Qed.
