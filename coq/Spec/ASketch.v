(* Layer A: the abstract sketch the sketch-level properties talk about: an index mapping given by
   two functions, two canonical bin maps and the zero weight. Same rank arithmetic as the code,
   rounding through an abstract [rnd]. Definitions only. *)
From SK Require Export Spec.Bins.

Record amapping := {
  am_index : Qc -> Z;          (* on magnitudes in the indexable range (am_min, am_max] *)
  am_value : Z -> Qc;          (* representative value of a bin *)
  am_min : Qc; am_max : Qc
}.

Record asketch := { a_pos : bins; a_neg : bins; a_zero : W }.
Definition a_new : asketch := {| a_pos := []; a_neg := []; a_zero := w0 |}.
Definition a_count (s : asketch) : W := wadd (wadd (a_zero s) (total (a_pos s))) (total (a_neg s)).
Definition a_is_empty (s : asketch) : bool := weqb (a_zero s) w0 && is_emptyb (a_pos s) && is_emptyb (a_neg s).

(* adding a finite value v with weight c >= 0; [lp]/[ln] = limits of the two stores *)
Inductive a_add_result := AAdded (s : asketch) | ATooHigh | ATooLow.
Definition a_add (m : amapping) (lp ln : limit) (s : asketch) (v : Qc) (c : W) : a_add_result :=
  if wltb (am_min m) v then
    if wltb (am_max m) v then ATooHigh
    else AAdded {| a_pos := sadd lp (a_pos s) (am_index m v) c; a_neg := a_neg s; a_zero := a_zero s |}
  else if wltb v (Qcopp (am_min m)) then
    if wltb v (Qcopp (am_max m)) then ATooLow
    else AAdded {| a_pos := a_pos s; a_neg := sadd ln (a_neg s) (am_index m (Qcopp v)) c; a_zero := a_zero s |}
  else AAdded {| a_pos := a_pos s; a_neg := a_neg s; a_zero := wadd (a_zero s) c |}.

Definition a_merge (lp ln : limit) (s o : asketch) : asketch :=
  {| a_pos := smerge_list lp (a_pos s) (a_pos o); a_neg := smerge_list ln (a_neg s) (a_neg o);
     a_zero := wadd (a_zero s) (a_zero o) |}.
Definition a_reweight (f : W) (s : asketch) : asketch :=
  {| a_pos := bscale f (a_pos s); a_neg := bscale f (a_neg s); a_zero := wmul f (a_zero s) |}.

Section Quantile.
Variable rnd : Qc -> Qc.
Variable m : amapping.
(* GetValueAtQuantile on a non-empty sketch for q in [0,1] (repaired: negative ranks clamp to 0) *)
Definition a_rank (s : asketch) (q : Qc) : W :=
  let r := rnd (wmul q (rnd (wsub (a_count s) w1))) in if wltb r w0 then w0 else r.
Definition a_quantile (s : asketch) (q : Qc) : option Qc :=
  if weqb (a_count s) w0 then None else
  let rank := a_rank s q in
  let negc := total (a_neg s) in
  if wltb rank negc then
    match key_at_rank (a_neg s) (rnd (wsub (rnd (wsub negc w1)) rank)) with
    | Some k => Some (Qcopp (am_value m k)) | None => None end
  else if wltb rank (rnd (wadd (a_zero s) negc)) then Some w0
  else match key_at_rank (a_pos s) (rnd (wsub (rnd (wsub rank (a_zero s))) negc)) with
       | Some k => Some (am_value m k) | None => None end.

Definition a_max (s : asketch) : option Qc :=
  match max_key (a_pos s) with
  | Some k => Some (am_value m k)
  | None => if wltb w0 (a_zero s) then Some w0
            else match min_key (a_neg s) with Some k => Some (Qcopp (am_value m k)) | None => None end
  end.
Definition a_min (s : asketch) : option Qc :=
  match max_key (a_neg s) with
  | Some k => Some (Qcopp (am_value m k))
  | None => if wltb w0 (a_zero s) then Some w0
            else match min_key (a_pos s) with Some k => Some (am_value m k) | None => None end
  end.
(* ForEach: (value, weight) pairs; GetSum *)
Definition a_items (s : asketch) : list (Qc * W) :=
  (if weqb (a_zero s) w0 then [] else [(w0, a_zero s)])
  ++ map (fun kw => (am_value m (fst kw), snd kw)) (a_pos s)
  ++ map (fun kw => (Qcopp (am_value m (fst kw)), snd kw)) (a_neg s).
Definition a_sum (s : asketch) : Qc := fold_left (fun acc vw => Qcplus acc (Qcmult (fst vw) (snd vw))) (a_items s) w0.
End Quantile.
