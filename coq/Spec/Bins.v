(* Layer A: the mathematical object the store properties talk about.
   A store is a finite map index -> weight, represented canonically as an association list
   with strictly increasing keys and no zero entry, so that equality of contents is Leibniz
   equality and every observer is a few lines. Definitions only. *)
From SK Require Export Base.Prelude.

Definition bins := list (Z * W).

Fixpoint keys_above (lo : Z) (b : bins) : bool :=
  match b with
  | [] => true
  | (k, w) :: tl => (lo <? k) && negb (weqb w w0) && keys_above k tl
  end.
Definition wf (b : bins) : bool :=
  match b with [] => true | (k, w) :: tl => negb (weqb w w0) && keys_above k tl end.

Fixpoint get (b : bins) (i : Z) : W :=
  match b with
  | [] => w0
  | (k, w) :: tl => if i =? k then w else get tl i
  end.

(* add weight c at index i (callers skip c = 0, as every store does) *)
Fixpoint badd (b : bins) (i : Z) (c : W) : bins :=
  match b with
  | [] => [(i, c)]
  | (k, w) :: tl =>
    if i <? k then (i, c) :: b
    else if i =? k then (k, wadd w c) :: tl
    else (k, w) :: badd tl i c
  end.
Definition badd0 (b : bins) (i : Z) (c : W) : bins := if weqb c w0 then b else badd b i c.

Definition bmerge_list (a : bins) (l : list (Z * W)) : bins :=
  fold_left (fun acc kw => badd0 acc (fst kw) (snd kw)) l a.
Definition bmerge (a b : bins) : bins := bmerge_list a b.
Definition bins_of_list (l : list (Z * W)) : bins := bmerge_list [] l.
Definition bscale (f : W) (b : bins) : bins := map (fun kw => (fst kw, wmul f (snd kw))) b.
Definition total (b : bins) : W := fold_left (fun acc kw => wadd acc (snd kw)) b w0.
Definition min_key (b : bins) : option Z := match b with [] => None | (k, _) :: _ => Some k end.
Fixpoint max_key (b : bins) : option Z :=
  match b with [] => None | [(k, _)] => Some k | _ :: tl => max_key tl end.
Definition is_emptyb (b : bins) : bool := match b with [] => true | _ => false end.

(* first key whose cumulative weight exceeds the rank; clamped to the last key; None on empty *)
Fixpoint key_at_rank_from (acc : W) (b : bins) (rank : W) : option Z :=
  match b with
  | [] => None
  | [(k, _)] => Some k
  | (k, w) :: tl => if wltb rank (wadd acc w) then Some k else key_at_rank_from (wadd acc w) tl rank
  end.
Definition key_at_rank (b : bins) (rank : W) : option Z := key_at_rank_from w0 b rank.

(* collapsing: fold everything below (max - N + 1) into that edge / above (min + N - 1) into that edge *)
Definition clamp_low (n : Z) (b : bins) : bins :=
  match max_key b with
  | None => []
  | Some mx => let e := mx - n + 1 in bins_of_list (map (fun kw => (Z.max (fst kw) e, snd kw)) b)
  end.
Definition clamp_high (n : Z) (b : bins) : bins :=
  match min_key b with
  | None => []
  | Some mn => let e := mn + n - 1 in bins_of_list (map (fun kw => (Z.min (fst kw) e, snd kw)) b)
  end.

(* the normal form a store of a given kind keeps: exact, or clamped to N bins from below / above *)
Inductive limit := Exact | Lowest (n : Z) | Highest (n : Z).
Definition norm (l : limit) (b : bins) : bins :=
  match l with Exact => b | Lowest n => clamp_low n b | Highest n => clamp_high n b end.

(* stepwise semantics of a store of limit l: every absorbed bin is added, then the content is
   re-normalised (what "after any history its content equals the exact content with every index
   beyond the collapsing edge folded into the edge bin" means operationally) *)
Definition sadd (l : limit) (b : bins) (i : Z) (c : W) : bins := norm l (badd0 b i c).
Definition smerge_list (l : limit) (b : bins) (xs : list (Z * W)) : bins :=
  fold_left (fun acc kw => sadd l acc (fst kw) (snd kw)) xs b.
