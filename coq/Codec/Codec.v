(* Layer B model of ddsketch/encoding/encoding.go and flag.go: integer part.
   uint64 values are [N] with explicit reduction modulo 2^64 where the Go code can wrap;
   bytes are [N] below 256; byte slices are lists. Decoders return the remaining slice on
   success; on [Eof]/[Overflow32] the Go code leaves (or is required to leave) the slice as it was.
   Definitions only: proofs live in CodecProofs.v so that the model still runs when a proof breaks. *)
From Coq Require Import Bool NArith ZArith List.
Import ListNotations.
Open Scope N_scope.

Definition byte := N.
Definition W64 : N := 18446744073709551616.        (* 2^64 *)
Definition ones64 : N := 18446744073709551615.     (* ^uint64(0) *)
Definition wrap64 (x : N) : N := x mod W64.

Inductive res (A : Type) := Ok (a : A) (rest : list byte) | Eof | Overflow32.
Arguments Ok {A}. Arguments Eof {A}. Arguments Overflow32 {A}.

(* ---- EncodeUvarint64: for i := 0; i < 8; i++ { if v < 0x80 {break}; emit byte(v)|0x80; v >>= 7 }; emit byte(v) ---- *)
Fixpoint enc_uv_loop (fuel : nat) (v : N) : list byte :=
  match fuel with
  | O => [N.land v 255]
  | S f => if v <? 128 then [N.land v 255]
           else N.lor (N.land v 255) 128 :: enc_uv_loop f (N.shiftr v 7)
  end.
Definition enc_uv (v : N) : list byte := enc_uv_loop 8 v.

(* ---- DecodeUvarint64 ---- *)
Fixpoint dec_uv_loop (fuel : nat) (i : nat) (x : N) (s : N) (b : list byte) : res N :=
  match b with
  | [] => Eof
  | n :: tl =>
    if (n <? 128) || Nat.eqb i 8 then Ok (wrap64 (N.lor x (N.shiftl n s))) tl
    else match fuel with
         | O => Eof (* unreachable: i reaches 8 first *)
         | S f => dec_uv_loop f (S i) (N.lor x (N.shiftl (N.land n 127) s)) (s + 7) tl
         end
  end.
Definition dec_uv (b : list byte) : res N := dec_uv_loop 9 0 0 0 b.

(* ---- zig-zag: uint64(v>>63 ^ (v<<1)) on the two's complement image u of the int64 v ---- *)
Definition to_u64 (v : Z) : N := Z.to_N (v mod 18446744073709551616).
Definition of_u64 (u : N) : Z :=
  if u <? 9223372036854775808 then Z.of_N u else (Z.of_N u - 18446744073709551616)%Z.
Definition zz_enc_u (u : N) : N :=
  N.lxor (if 9223372036854775808 <=? u then ones64 else 0) (wrap64 (N.shiftl u 1)).
Definition zz_dec_u (v : N) : N :=
  N.lxor (N.shiftr v 1) (if N.odd v then ones64 else 0).   (* -(v&1) is all ones or 0 *)

Definition enc_sv (v : Z) : list byte := enc_uv (zz_enc_u (to_u64 v)).
Definition dec_sv (b : list byte) : res Z :=
  match dec_uv b with
  | Ok v rest => Ok (of_u64 (zz_dec_u v)) rest
  | Eof => Eof
  | Overflow32 => Overflow32
  end.
Definition dec_sv32 (b : list byte) : res Z :=
  match dec_sv b with
  | Ok v rest => if ((2147483647 <? v) || (v <? -2147483648))%Z then Overflow32 else Ok v rest
  | r => r
  end.

(* ---- fixed 64-bit little endian ---- *)
Fixpoint le_bytes (n : nat) (x : N) : list byte :=
  match n with O => [] | S k => N.land x 255 :: le_bytes k (N.shiftr x 8) end.
Fixpoint le_value (l : list byte) : N :=
  match l with [] => 0 | b :: tl => b + 256 * le_value tl end.
Definition enc_f64le_bits (bits : N) : list byte := le_bytes 8 bits.
Definition dec_f64le_bits (b : list byte) : res N :=
  if (length b <? 8)%nat then Eof else Ok (le_value (firstn 8 b)) (skipn 8 b).

(* ---- varfloat, on the rotated bit pattern x ---- *)
Fixpoint enc_vf_loop (fuel : nat) (x : N) : list byte :=
  match fuel with
  | O => [N.shiftr x 56]
  | S f => let n := N.shiftr x 57 in
           let x' := wrap64 (N.shiftl x 7) in
           if x' =? 0 then [n] else N.lor n 128 :: enc_vf_loop f x'
  end.
Definition enc_vf_raw (x : N) : list byte := enc_vf_loop 8 x.

Fixpoint dec_vf_loop (fuel : nat) (i : nat) (x s : N) (b : list byte) : res N :=
  match b with
  | [] => Eof
  | n :: tl =>
    if Nat.eqb i 8 then Ok (N.lor x n) tl
    else if n <? 128 then Ok (N.lor x (N.shiftl n s)) tl
    else match fuel with
         | O => Eof
         | S f => dec_vf_loop f (S i) (N.lor x (N.shiftl (N.land n 127) s)) (s - 7) tl
         end
  end.
Definition dec_vf_raw (b : list byte) : res N := dec_vf_loop 9 0 0 57 b.

Definition rotl6 (x : N) : N := wrap64 (N.shiftl x 6) + N.shiftr x 58.
Definition rotr6 (x : N) : N := N.shiftr x 6 + wrap64 (N.shiftl x 58).
Definition one_bits : N := 4607182418800017408.       (* Float64bits(1) = 0x3FF0000000000000 *)
(* bits(v+1) |-> RotateLeft64(bits - Float64bits(1), 6), and back *)
Definition vf_fold (bits_plus1 : N) : N := rotl6 (wrap64 (bits_plus1 + W64 - one_bits)).
Definition vf_unfold (x : N) : N := wrap64 (rotr6 x + one_bits).

(* ---- size functions: tables built by running the encoders, indexed by clz / ctz ---- *)
Definition clz64 (v : N) : nat := 64 - N.to_nat (N.size v).
Fixpoint ctz_pos (p : positive) : nat :=
  match p with xO q => S (ctz_pos q) | _ => O end.
Definition ctz64 (v : N) : nat := match v with N0 => 64%nat | Npos p => ctz_pos p end.

Definition uv_sizes : list nat :=
  map (fun i => length (enc_uv (N.shiftr ones64 (N.of_nat i)))) (seq 0 65).
Definition vf_sizes : list nat :=
  (* the Go initialiser goes through a float round trip of ^0<<i; on the bit pattern that is enc_vf_raw (^0<<i) *)
  map (fun i => length (enc_vf_raw (wrap64 (N.shiftl ones64 (N.of_nat i))))) (seq 0 65).
Definition uv_size (v : N) : nat := nth (clz64 v) uv_sizes 0%nat.
Definition sv_size (v : Z) : nat := uv_size (zz_enc_u (to_u64 v)).
Definition vf_size_raw (x : N) : nat := nth (ctz64 x) vf_sizes 0%nat.

(* ---- flags ---- *)
Definition flag_type (f : byte) : N := N.land f 3.
Definition flag_sub (f : byte) : N := N.land f 252.
Definition mk_flag (t sub6 : N) : byte := N.lor t (N.shiftl sub6 2).
Definition dec_flag (b : list byte) : res byte :=
  match b with [] => Eof | f :: tl => Ok f tl end.

(* documented constants (flag.go) -- deliberately written down, not derived from the source *)
Definition ft_features : N := 0.
Definition ft_mapping : N := 2.
Definition ft_positive : N := 1.
Definition ft_negative : N := 3.
Definition flag_zero_count : byte := mk_flag ft_features 1.
Definition flag_count : byte := mk_flag ft_features 40.     (* 0x28 *)
Definition flag_sum : byte := mk_flag ft_features 33.
Definition flag_min : byte := mk_flag ft_features 34.
Definition flag_max : byte := mk_flag ft_features 35.
Definition flag_map_log : byte := mk_flag ft_mapping 0.
Definition flag_map_lin : byte := mk_flag ft_mapping 1.
Definition flag_map_quad : byte := mk_flag ft_mapping 2.
Definition flag_map_cub : byte := mk_flag ft_mapping 3.
Definition flag_map_quart : byte := mk_flag ft_mapping 4.
Definition sub_idx_deltas_counts : N := 4.    (* newSubFlag(1) = 1 << 2 *)
Definition sub_idx_deltas : N := 8.
Definition sub_contiguous : N := 12.
