(* Float part of the varfloat codec: the (v+1)-1 transform on Flocq binary64.
   NaN is a single value here (payloads are not modelled). *)
From Coq Require Import Bool NArith ZArith List.
From Flocq Require Import Core.Core IEEE754.Binary IEEE754.Bits IEEE754.BinarySingleNaN.
From SK Require Import Codec.Codec.
Import ListNotations.

Definition f64 := binary64.
Definition f64_of_bits (b : N) : f64 := b64_of_bits (Z.of_N b).
Definition bits_of_f64 (v : f64) : N := Z.to_N (bits_of_b64 v).
Definition f64_one : f64 := f64_of_bits one_bits.
Definition fadd (a b : f64) : f64 := b64_plus mode_NE a b.
Definition fsub (a b : f64) : f64 := b64_minus mode_NE a b.
Definition fmul (a b : f64) : f64 := b64_mult mode_NE a b.
Definition fdiv (a b : f64) : f64 := b64_div mode_NE a b.

(* EncodeVarfloat64 / DecodeVarfloat64 / Varfloat64Size *)
Definition vf_pattern (v : f64) : N := vf_fold (bits_of_f64 (fadd v f64_one)).
Definition enc_vf (v : f64) : list byte := enc_vf_raw (vf_pattern v).
Definition dec_vf (b : list byte) : res f64 :=
  match dec_vf_raw b with
  | Ok x rest => Ok (fsub (f64_of_bits (vf_unfold x)) f64_one) rest
  | Eof => Eof
  | Overflow32 => Overflow32
  end.

(* initVarfloat64Sizes as written: through the float round trip *)
Definition vf_sizes_go : list nat :=
  map (fun i => length (enc_vf (fsub (f64_of_bits (vf_unfold (wrap64 (N.shiftl ones64 (N.of_nat i))))) f64_one)))
      (seq 0 65).
Definition vf_size (v : f64) : nat := nth (ctz64 (vf_pattern v)) vf_sizes_go 0%nat.

Definition enc_f64le (v : f64) : list byte := enc_f64le_bits (bits_of_f64 v).
Definition dec_f64le (b : list byte) : res f64 :=
  match dec_f64le_bits b with
  | Ok x rest => Ok (f64_of_bits x) rest
  | Eof => Eof
  | Overflow32 => Overflow32
  end.
