(* Proofs about the float part of the codec model (Varfloat.v), on Flocq binary64. *)
From Coq Require Import Bool NArith ZArith List Lia Reals Lra.
From Flocq Require Import Core.Core IEEE754.Binary IEEE754.Bits IEEE754.BinarySingleNaN.
From SK Require Import Codec.Codec Codec.Varfloat Codec.CodecProofs.
Import ListNotations.

(* ------------------------------------------------------------------ *)
(* bit patterns                                                        *)
(* ------------------------------------------------------------------ *)
Lemma bits_of_b64_range (v : f64) : (0 <= bits_of_b64 v < 18446744073709551616)%Z.
Proof.
  unfold bits_of_b64.
  exact (bits_of_binary_float_range 52 11 (eq_refl : (0 < 52)%Z) (eq_refl : (0 < 11)%Z) v).
Qed.

Theorem bits_of_f64_lt (v : f64) : (bits_of_f64 v < W64)%N.
Proof. unfold bits_of_f64, W64. pose proof (bits_of_b64_range v). lia. Qed.

Theorem f64_of_bits_of_f64 (v : f64) : f64_of_bits (bits_of_f64 v) = v.
Proof.
  unfold f64_of_bits, bits_of_f64. pose proof (bits_of_b64_range v) as H.
  rewrite Z2N.id by lia. unfold b64_of_bits, bits_of_b64.
  exact (binary_float_of_bits_of_binary_float 52 11 eq_refl eq_refl eq_refl v).
Qed.

Theorem bits_of_f64_of_bits (b : N) : (b < W64)%N -> bits_of_f64 (f64_of_bits b) = b.
Proof.
  intros Hb. unfold f64_of_bits, bits_of_f64, b64_of_bits, bits_of_b64.
  rewrite (bits_of_binary_float_of_bits 52 11 eq_refl eq_refl eq_refl).
  - apply N2Z.id.
  - unfold W64 in Hb. change (2 ^ (52 + 11 + 1))%Z with 18446744073709551616%Z. lia.
Qed.

(* ------------------------------------------------------------------ *)
(* j. what the varfloat codec returns; float64 LE round trip           *)
(* ------------------------------------------------------------------ *)
Theorem varfloat_value (v : f64) rest :
  dec_vf (enc_vf v ++ rest) = Ok (fsub (fadd v f64_one) f64_one) rest.
Proof.
  unfold dec_vf, enc_vf, vf_pattern.
  rewrite varfloat_raw_roundtrip by apply vf_fold_lt.
  rewrite vf_unfold_fold by apply bits_of_f64_lt.
  rewrite f64_of_bits_of_f64. reflexivity.
Qed.

Theorem varfloat_prefix_eof (v : f64) p s : enc_vf v = p ++ s -> s <> [] -> dec_vf p = Eof.
Proof.
  intros H Hs. unfold dec_vf. unfold enc_vf in H.
  rewrite (varfloat_raw_prefix_eof _ _ _ H Hs). reflexivity.
Qed.

Theorem f64le_float_roundtrip (v : f64) rest : dec_f64le (enc_f64le v ++ rest) = Ok v rest.
Proof.
  unfold dec_f64le, enc_f64le.
  rewrite f64le_roundtrip by apply bits_of_f64_lt.
  rewrite f64_of_bits_of_f64. reflexivity.
Qed.

Theorem f64le_float_prefix_eof (v : f64) p s : enc_f64le v = p ++ s -> s <> [] -> dec_f64le p = Eof.
Proof.
  intros H Hs. unfold dec_f64le. unfold enc_f64le in H.
  rewrite (f64le_prefix_eof _ _ _ H Hs). reflexivity.
Qed.

Theorem f64le_float_length (v : f64) : length (enc_f64le v) = 8%nat.
Proof. apply f64le_length. Qed.

(* sizes: the table as the Go initialiser builds it (through floats) is the table on bit patterns *)
Theorem vf_sizes_go_eq : vf_sizes_go = vf_sizes.
Proof. vm_compute. reflexivity. Qed.

Theorem varfloat_size (v : f64) :
  length (enc_vf v) = vf_size v /\ (1 <= vf_size v <= 9)%nat.
Proof.
  unfold enc_vf, vf_size. rewrite vf_sizes_go_eq.
  apply (varfloat_raw_size (vf_pattern v)). apply vf_fold_lt.
Qed.

(* ------------------------------------------------------------------ *)
(* k. the (v+1)-1 transform is the identity on integers below 2^53     *)
(* ------------------------------------------------------------------ *)
Lemma f64_one_aux :
  binary_float_of_bits_aux 52 11 (Z.of_N one_bits) = F754_finite false 4503599627370496 (-52).
Proof. vm_compute. reflexivity. Qed.

Lemma f64_one_B2R : Binary.B2R 53 1024 f64_one = 1%R.
Proof.
  unfold f64_one, f64_of_bits, b64_of_bits, binary_float_of_bits.
  rewrite Binary.B2R_FF2B, f64_one_aux.
  unfold FF2R, F2R, cond_Zopp, Fnum, Fexp, bpow. simpl Z.pow_pos. lra.
Qed.

Lemma f64_one_finite : Binary.is_finite 53 1024 f64_one = true.
Proof.
  unfold f64_one, f64_of_bits, b64_of_bits, binary_float_of_bits.
  rewrite Binary.is_finite_FF2B, f64_one_aux. reflexivity.
Qed.

Lemma int_format (m : Z) : (0 <= m <= 9007199254740992)%Z ->
  generic_format radix2 (FLT_exp (-1074) 53) (IZR m).
Proof.
  intros Hm. apply generic_format_FLT.
  destruct (Z.eq_dec m 9007199254740992) as [->|Hne].
  - apply (FLT_spec radix2 (-1074) 53 _ (Float radix2 4503599627370496 1)).
    + unfold F2R, Fnum, Fexp, bpow. simpl Z.pow_pos. lra.
    + cbn. lia.
    + cbn. lia.
  - apply (FLT_spec radix2 (-1074) 53 _ (Float radix2 m 0)).
    + unfold F2R, Fnum, Fexp, bpow. lra.
    + cbn [Fnum]. change (radix2 ^ 53)%Z with 9007199254740992%Z. lia.
    + cbn. lia.
Qed.

Lemma int_lt_bpow (m : Z) : (0 <= m <= 9007199254740992)%Z ->
  (Rabs (IZR m) < bpow radix2 1024)%R.
Proof.
  intros Hm. rewrite Rabs_pos_eq by (apply IZR_le; lia).
  apply Rle_lt_trans with (bpow radix2 53).
  - rewrite <- (IZR_Zpower radix2 53) by lia. apply IZR_le.
    change (radix2 ^ 53)%Z with 9007199254740992%Z. lia.
  - apply bpow_lt. lia.
Qed.

Theorem varfloat_exact_int (v : f64) (n : Z) :
  (0 <= n < 9007199254740992)%Z ->
  Binary.is_finite 53 1024 v = true -> Binary.Bsign 53 1024 v = false ->
  Binary.B2R 53 1024 v = IZR n ->
  fsub (fadd v f64_one) f64_one = v.
Proof.
  intros Hn Hfin Hsign HR.
  pose proof (Binary.Bplus_correct 53 1024 eq_refl eq_refl binop_nan_pl64 mode_NE
                v f64_one Hfin f64_one_finite) as Hp.
  change (Binary.Bplus 53 1024 eq_refl eq_refl binop_nan_pl64 mode_NE v f64_one)
    with (fadd v f64_one) in Hp.
  change (SpecFloat.fexp 53 1024) with (FLT_exp (-1074) 53) in Hp.
  rewrite HR, f64_one_B2R, <- plus_IZR in Hp.
  rewrite round_generic in Hp; [|apply valid_rnd_N|apply int_format; lia].
  rewrite Rlt_bool_true in Hp by (apply int_lt_bpow; lia).
  destruct Hp as (HpR & HpF & HpS).
  assert (HpS' : Binary.Bsign 53 1024 (fadd v f64_one) = false).
  { rewrite HpS. rewrite Rcompare_Gt; [reflexivity|]. apply IZR_lt. lia. }
  pose proof (Binary.Bminus_correct 53 1024 eq_refl eq_refl binop_nan_pl64 mode_NE
                (fadd v f64_one) f64_one HpF f64_one_finite) as Hm.
  change (Binary.Bminus 53 1024 eq_refl eq_refl binop_nan_pl64 mode_NE (fadd v f64_one) f64_one)
    with (fsub (fadd v f64_one) f64_one) in Hm.
  change (SpecFloat.fexp 53 1024) with (FLT_exp (-1074) 53) in Hm.
  rewrite HpR, f64_one_B2R, <- minus_IZR in Hm.
  replace (n + 1 - 1)%Z with n in Hm by lia.
  rewrite round_generic in Hm; [|apply valid_rnd_N|apply int_format; lia].
  rewrite Rlt_bool_true in Hm by (apply int_lt_bpow; lia).
  destruct Hm as (HmR & HmF & HmS).
  apply Binary.B2R_Bsign_inj.
  - exact HmF.
  - exact Hfin.
  - rewrite HmR, HR. reflexivity.
  - rewrite HmS, Hsign, HpS'.
    destruct (Z.eq_dec n 0) as [->|Hn0].
    + rewrite Rcompare_Eq by reflexivity. reflexivity.
    + rewrite Rcompare_Gt; [reflexivity|]. apply IZR_lt. lia.
Qed.

(* the hypotheses of [varfloat_exact_int] are inhabited: the binary64 value of an integer below 2^53 *)
Definition f64_of_int (n : Z) : f64 :=
  Binary.binary_normalize 53 1024 eq_refl eq_refl mode_NE n 0 false.

Lemma f64_of_int_spec (n : Z) : (0 <= n < 9007199254740992)%Z ->
  Binary.is_finite 53 1024 (f64_of_int n) = true /\
  Binary.Bsign 53 1024 (f64_of_int n) = false /\
  Binary.B2R 53 1024 (f64_of_int n) = IZR n.
Proof.
  intros Hn.
  pose proof (Binary.binary_normalize_correct 53 1024 eq_refl eq_refl mode_NE n 0 false) as H.
  fold (f64_of_int n) in H.
  assert (HF : F2R (Float radix2 n 0) = IZR n) by (unfold F2R, Fnum, Fexp, bpow; lra).
  rewrite HF in H.
  change (SpecFloat.fexp 53 1024) with (FLT_exp (-1074) 53) in H.
  rewrite round_generic in H; [|apply valid_rnd_N|apply int_format; lia].
  rewrite Rlt_bool_true in H by (apply int_lt_bpow; lia).
  destruct H as (HR & HFin & HS). split; [exact HFin|]. split; [|exact HR].
  rewrite HS. destruct (Z.eq_dec n 0) as [->|Hn0].
  - rewrite Rcompare_Eq by reflexivity. reflexivity.
  - rewrite Rcompare_Gt; [reflexivity|]. apply IZR_lt. lia.
Qed.

Theorem varfloat_int_roundtrip (n : Z) rest : (0 <= n < 9007199254740992)%Z ->
  dec_vf (enc_vf (f64_of_int n) ++ rest) = Ok (f64_of_int n) rest.
Proof.
  intros Hn. rewrite varfloat_value.
  destruct (f64_of_int_spec n Hn) as (HFin & HS & HR).
  rewrite (varfloat_exact_int (f64_of_int n) n Hn HFin HS HR). reflexivity.
Qed.
