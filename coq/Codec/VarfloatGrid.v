(* The (v+1)-1 transform of the varfloat codec is the identity on the dyadic grid:
   every non-negative binary64 value z / 2^k with 0 <= k <= 52 and z + 2^k <= 2^53 (so that
   v + 1 = (z + 2^k) / 2^k still has a 53-bit significand at exponent -k) round-trips exactly.
   Extends Codec/VarfloatProofs.v section k (integers below 2^53 are the case k = 0).
     Part 1  float level, stated on B2R (no dependency beyond the codec)
     Part 2  the same for the exact weights of the model: v = q2f (gridv k z)
     Part 3  witnesses: the bound is needed; the premises are inhabited *)
From Coq Require Import Bool NArith ZArith QArith Qcanon List Lia Reals Lra.
From Flocq Require Import Core.Core IEEE754.Binary IEEE754.Bits IEEE754.BinarySingleNaN.
From SK Require Import Codec.Codec Codec.Varfloat Codec.CodecProofs Codec.VarfloatProofs.
From SK Require Base.Prelude Base.F64 Base.F64Proofs Sketch.MiscProofs.
Import ListNotations.

(* ------------------------------------------------------------------ *)
(* Part 1: float level                                                 *)
(* ------------------------------------------------------------------ *)
(* m / 2^k with 0 <= m <= 2^53 and 0 <= k <= 1074 is a binary64 value *)
Lemma grid_format (m k : Z) : (0 <= k <= 1074)%Z -> (0 <= m <= 9007199254740992)%Z ->
  generic_format radix2 (FLT_exp (-1074) 53) (IZR m * bpow radix2 (- k)).
Proof.
  intros Hk Hm. apply generic_format_FLT.
  destruct (Z.eq_dec m 9007199254740992) as [->|Hne].
  - apply (FLT_spec radix2 (-1074) 53 _ (Float radix2 4503599627370496 (1 + - k))).
    + unfold F2R. cbn [Fnum Fexp]. rewrite bpow_plus. change (bpow radix2 1) with 2%R. lra.
    + cbn. lia.
    + cbn [Fexp]. lia.
  - apply (FLT_spec radix2 (-1074) 53 _ (Float radix2 m (- k))).
    + reflexivity.
    + cbn [Fnum]. change (radix2 ^ 53)%Z with 9007199254740992%Z. lia.
    + cbn [Fexp]. lia.
Qed.

Lemma grid_lt_bpow (m k : Z) : (0 <= k)%Z -> (0 <= m <= 9007199254740992)%Z ->
  (Rabs (IZR m * bpow radix2 (- k)) < bpow radix2 1024)%R.
Proof.
  intros Hk Hm.
  assert (H0 : (0 <= IZR m)%R) by (apply IZR_le; lia).
  pose proof (bpow_ge_0 radix2 (- k)) as Hb0.
  assert (Hb1 : (bpow radix2 (- k) <= 1)%R) by (change 1%R with (bpow radix2 0); apply bpow_le; lia).
  rewrite Rabs_pos_eq by (apply Rmult_le_pos; assumption).
  apply Rle_lt_trans with (IZR m); [nra|].
  pose proof (int_lt_bpow m Hm) as H. rewrite Rabs_pos_eq in H by exact H0. exact H.
Qed.

Lemma pow2_bpow_cancel (k : Z) : (0 <= k)%Z -> (IZR (2 ^ k) * bpow radix2 (- k) = 1)%R.
Proof.
  intros Hk. change (2 ^ k)%Z with (radix2 ^ k)%Z. rewrite (IZR_Zpower radix2 k Hk), <- bpow_plus.
  replace (k + - k)%Z with 0%Z by lia. reflexivity.
Qed.

Lemma pow2_le_52 (k : Z) : (0 <= k <= 52)%Z -> (1 <= 2 ^ k <= 4503599627370496)%Z.
Proof.
  intros Hk. split.
  - change 1%Z with (2 ^ 0)%Z. apply Z.pow_le_mono_r; lia.
  - change 4503599627370496%Z with (2 ^ 52)%Z. apply Z.pow_le_mono_r; lia.
Qed.

(* the value of v given as z * 2^-k *)
Theorem varfloat_exact_grid_bpow (v : f64) (z k : Z) :
  (0 <= k <= 52)%Z -> (0 <= z)%Z -> (z + 2 ^ k <= 9007199254740992)%Z ->
  Binary.is_finite 53 1024 v = true -> Binary.Bsign 53 1024 v = false ->
  Binary.B2R 53 1024 v = (IZR z * bpow radix2 (- k))%R ->
  fsub (fadd v f64_one) f64_one = v.
Proof.
  intros Hk Hz Hzk Hfin Hsign HR.
  pose proof (pow2_le_52 k Hk) as Hp2.
  pose proof (bpow_gt_0 radix2 (- k)) as Hbk.
  assert (E1 : (IZR z * bpow radix2 (- k) + 1 = IZR (z + 2 ^ k) * bpow radix2 (- k))%R).
  { rewrite plus_IZR, Rmult_plus_distr_r, pow2_bpow_cancel by lia. reflexivity. }
  assert (Hpos : (0 < IZR (z + 2 ^ k) * bpow radix2 (- k))%R).
  { apply Rmult_lt_0_compat; [apply IZR_lt; lia|exact Hbk]. }
  pose proof (Binary.Bplus_correct 53 1024 eq_refl eq_refl binop_nan_pl64 mode_NE
                v f64_one Hfin f64_one_finite) as Hp.
  change (Binary.Bplus 53 1024 eq_refl eq_refl binop_nan_pl64 mode_NE v f64_one)
    with (fadd v f64_one) in Hp.
  change (SpecFloat.fexp 53 1024) with (FLT_exp (-1074) 53) in Hp.
  rewrite HR, f64_one_B2R, E1 in Hp.
  rewrite round_generic in Hp; [|apply valid_rnd_N|apply grid_format; lia].
  rewrite Rlt_bool_true in Hp by (apply grid_lt_bpow; lia).
  destruct Hp as (HpR & HpF & HpS).
  assert (HpS' : Binary.Bsign 53 1024 (fadd v f64_one) = false).
  { rewrite HpS. rewrite Rcompare_Gt; [reflexivity|exact Hpos]. }
  pose proof (Binary.Bminus_correct 53 1024 eq_refl eq_refl binop_nan_pl64 mode_NE
                (fadd v f64_one) f64_one HpF f64_one_finite) as Hm.
  change (Binary.Bminus 53 1024 eq_refl eq_refl binop_nan_pl64 mode_NE (fadd v f64_one) f64_one)
    with (fsub (fadd v f64_one) f64_one) in Hm.
  change (SpecFloat.fexp 53 1024) with (FLT_exp (-1074) 53) in Hm.
  rewrite HpR, f64_one_B2R, <- E1 in Hm.
  replace (IZR z * bpow radix2 (- k) + 1 - 1)%R with (IZR z * bpow radix2 (- k))%R in Hm by ring.
  rewrite round_generic in Hm; [|apply valid_rnd_N|apply grid_format; lia].
  rewrite Rlt_bool_true in Hm by (apply grid_lt_bpow; lia).
  destruct Hm as (HmR & HmF & HmS).
  apply Binary.B2R_Bsign_inj.
  - exact HmF.
  - exact Hfin.
  - rewrite HmR, HR. reflexivity.
  - rewrite HmS, Hsign, HpS'.
    destruct (Z.eq_dec z 0) as [->|Hz0].
    + rewrite Rcompare_Eq by (rewrite Rmult_0_l; reflexivity). reflexivity.
    + rewrite Rcompare_Gt; [reflexivity|]. apply Rmult_lt_0_compat; [apply IZR_lt; lia|exact Hbk].
Qed.

(* the value of v given as the quotient z / 2^k *)
Theorem varfloat_exact_grid (v : f64) (z k : Z) :
  (0 <= k <= 52)%Z -> (0 <= z)%Z -> (z + 2 ^ k <= 2 ^ 53)%Z ->
  Binary.is_finite 53 1024 v = true -> Binary.Bsign 53 1024 v = false ->
  Binary.B2R 53 1024 v = (IZR z / IZR (2 ^ k))%R ->
  fsub (fadd v f64_one) f64_one = v.
Proof.
  intros Hk Hz Hzk Hfin Hsign HR.
  apply (varfloat_exact_grid_bpow v z k Hk Hz Hzk Hfin Hsign).
  rewrite HR. unfold Rdiv. f_equal.
  change (2 ^ k)%Z with (radix2 ^ k)%Z. rewrite (IZR_Zpower radix2 k) by lia. symmetry. apply bpow_opp.
Qed.

Theorem varfloat_grid_roundtrip (v : f64) (z k : Z) rest :
  (0 <= k <= 52)%Z -> (0 <= z)%Z -> (z + 2 ^ k <= 2 ^ 53)%Z ->
  Binary.is_finite 53 1024 v = true -> Binary.Bsign 53 1024 v = false ->
  Binary.B2R 53 1024 v = (IZR z / IZR (2 ^ k))%R ->
  dec_vf (enc_vf v ++ rest) = Ok v rest.
Proof.
  intros Hk Hz Hzk Hfin Hsign HR. rewrite varfloat_value.
  rewrite (varfloat_exact_grid v z k Hk Hz Hzk Hfin Hsign HR). reflexivity.
Qed.

(* the integer theorem is the case k = 0 *)
Corollary varfloat_exact_int_from_grid (v : f64) (n : Z) :
  (0 <= n < 2 ^ 53)%Z ->
  Binary.is_finite 53 1024 v = true -> Binary.Bsign 53 1024 v = false ->
  Binary.B2R 53 1024 v = IZR n ->
  fsub (fadd v f64_one) f64_one = v.
Proof.
  intros Hn Hfin Hsign HR. apply (varfloat_exact_grid v n 0); [lia|lia| |exact Hfin|exact Hsign|].
  - change (2 ^ 0)%Z with 1%Z. lia.
  - rewrite HR. change (2 ^ 0)%Z with 1%Z. field.
Qed.

(* ------------------------------------------------------------------ *)
(* Part 2: the exact weights of the model (Qc), converted by q2f       *)
(* ------------------------------------------------------------------ *)
(* The model's F64.fadd / fsub / f64_one are the codec's (both are Flocq's b64 operations). *)
Lemma F64_ops_eq :
  F64.fadd = fadd /\ F64.fsub = fsub /\ F64.f64_one = f64_one.
Proof. repeat split. Qed.

(* q2f of a non-negative weight is not -0 and not negative *)
Lemma q2f_sign_nonneg (q : Qc) : F64Proofs.dyadic q ->
  (Rabs (F64Proofs.rndR (F64Proofs.qR q)) < bpow radix2 1024)%R -> (Prelude.w0 <= q)%Qc ->
  Binary.Bsign 53 1024 (F64.q2f q) = false.
Proof.
  intros Hd Hov H0. rewrite (F64Proofs.q2f_dyadic_eq q Hd).
  pose proof (Binary.binary_normalize_correct 53 1024 eq_refl eq_refl mode_NE
                (Qnum (this q)) (- Z.log2 (Zpos (Qden (this q)))) false) as H.
  rewrite <- (F64Proofs.qR_dyadic_F2R q (F64Proofs.dyadic_den_of_dyadic q Hd)) in H.
  change (round radix2 (SpecFloat.fexp 53 1024) (round_mode mode_NE)) with F64Proofs.rndR in H.
  rewrite Rlt_bool_true in H by exact Hov.
  destruct H as (_ & _ & HS). rewrite HS.
  apply F64Proofs.qR_le in H0. rewrite F64Proofs.qR_w0 in H0.
  destruct (Rle_lt_or_eq_dec _ _ H0) as [Hlt|Heq].
  - rewrite Rcompare_Gt by exact Hlt. reflexivity.
  - rewrite Rcompare_Eq by (symmetry; exact Heq). reflexivity.
Qed.

Lemma gridv_facts (k z : Z) :
  (0 <= k <= 52)%Z -> (0 <= z)%Z -> (z + 2 ^ k <= 2 ^ 53)%Z ->
  Binary.is_finite 53 1024 (F64.q2f (MiscProofs.gridv k z)) = true /\
  Binary.Bsign 53 1024 (F64.q2f (MiscProofs.gridv k z)) = false /\
  Binary.B2R 53 1024 (F64.q2f (MiscProofs.gridv k z)) = (IZR z * bpow radix2 (- k))%R /\
  F64.f2q (F64.q2f (MiscProofs.gridv k z)) = MiscProofs.gridv k z.
Proof.
  intros Hk Hz Hzk. pose proof (pow2_le_52 k Hk) as Hp2.
  assert (Hg : MiscProofs.grid53 k (MiscProofs.gridv k z)).
  { exists z. split; [|reflexivity]. rewrite Z.abs_eq by exact Hz. lia. }
  assert (Hk' : (0 <= k <= 1074)%Z) by lia.
  destruct (MiscProofs.q2f_grid k _ Hk' Hg) as (F & E).
  destruct (MiscProofs.grid53_facts k _ Hk' Hg) as (Hd & Hf & Hb).
  split; [exact F|]. split; [|split; [|exact E]].
  - apply q2f_sign_nonneg; [exact Hd| |].
    + apply F64Proofs.no_overflow_Rabs. exact Hb.
    + rewrite <- (MiscProofs.gridv_0 k) by lia. apply MiscProofs.gridv_le; lia.
  - rewrite <- (F64Proofs.f2q_B2R _ F), E. apply MiscProofs.qR_gridv. lia.
Qed.

(* float equality: the weight z / 2^k goes through the transform unchanged *)
Theorem varfloat_exact_gridq_float (k z : Z) :
  (0 <= k <= 52)%Z -> (0 <= z)%Z -> (z + 2 ^ k <= 2 ^ 53)%Z ->
  fsub (fadd (F64.q2f (MiscProofs.gridv k z)) f64_one) f64_one = F64.q2f (MiscProofs.gridv k z).
Proof.
  intros Hk Hz Hzk. destruct (gridv_facts k z Hk Hz Hzk) as (F & S & R & _).
  exact (varfloat_exact_grid_bpow _ z k Hk Hz Hzk F S R).
Qed.

(* value equality, in the vocabulary of Sketch/MiscProofs.v (F64.fadd, F64.fsub, F64.f64_one) *)
Theorem varfloat_exact_gridq (k z : Z) :
  (0 <= k <= 52)%Z -> (0 <= z)%Z -> (z + 2 ^ k <= 2 ^ 53)%Z ->
  F64.f2q (F64.fsub (F64.fadd (F64.q2f (MiscProofs.gridv k z)) F64.f64_one) F64.f64_one)
  = MiscProofs.gridv k z.
Proof.
  intros Hk Hz Hzk. destruct (gridv_facts k z Hk Hz Hzk) as (_ & _ & _ & E).
  change F64.fsub with fsub. change F64.fadd with fadd. change F64.f64_one with f64_one.
  rewrite (varfloat_exact_gridq_float k z Hk Hz Hzk). exact E.
Qed.

Theorem varfloat_gridq_roundtrip (k z : Z) rest :
  (0 <= k <= 52)%Z -> (0 <= z)%Z -> (z + 2 ^ k <= 2 ^ 53)%Z ->
  dec_vf (enc_vf (F64.q2f (MiscProofs.gridv k z)) ++ rest) = Ok (F64.q2f (MiscProofs.gridv k z)) rest.
Proof.
  intros Hk Hz Hzk. rewrite varfloat_value, (varfloat_exact_gridq_float k z Hk Hz Hzk). reflexivity.
Qed.

(* ------------------------------------------------------------------ *)
(* Part 3: witnesses                                                   *)
(* ------------------------------------------------------------------ *)
(* bit patterns: 0.75 = 0x3FE8000000000000, 2^-52 = 0x3CB0000000000000, 2^-53 = 0x3CA0000000000000,
   2^52 - 1/2 = 0x432FFFFFFFFFFFFF, 2^52 - 1 = 0x432FFFFFFFFFFFFE *)
Definition bits_0_75 : N := 4604930618986332160.
Definition bits_2m52 : N := 4372995238176751616.
Definition bits_2m53 : N := 4368491638549381120.
Definition bits_2p52mh : N := 4841369599423283199.
Definition bits_2p52m1 : N := 4841369599423283198.

(* the bound is needed, 1: 2^-53 = 1 / 2^53 is on the grid k = 53 (z + 2^k = 2^53 + 1); (v+1)-1 = +0 *)
Example varfloat_inexact_2m53 :
  bits_of_f64 (f64_of_bits bits_2m53) = bits_2m53 /\
  bits_of_f64 (fsub (fadd (f64_of_bits bits_2m53) f64_one) f64_one) = 0%N /\
  fsub (fadd (f64_of_bits bits_2m53) f64_one) f64_one <> f64_of_bits bits_2m53.
Proof.
  assert (H1 : bits_of_f64 (f64_of_bits bits_2m53) = bits_2m53) by (vm_compute; reflexivity).
  assert (H2 : bits_of_f64 (fsub (fadd (f64_of_bits bits_2m53) f64_one) f64_one) = 0%N)
    by (vm_compute; reflexivity).
  split; [exact H1|]. split; [exact H2|].
  intros E. rewrite E, H1 in H2. discriminate H2.
Qed.

(* the bound is needed, 2: k = 1 <= 52 but z = 2^53 - 1, z + 2^k = 2^53 + 1: v = 2^52 - 1/2 comes back as 2^52 - 1 *)
Example varfloat_inexact_2p52mh :
  bits_of_f64 (f64_of_bits bits_2p52mh) = bits_2p52mh /\
  bits_of_f64 (fsub (fadd (f64_of_bits bits_2p52mh) f64_one) f64_one) = bits_2p52m1 /\
  fsub (fadd (f64_of_bits bits_2p52mh) f64_one) f64_one <> f64_of_bits bits_2p52mh.
Proof.
  assert (H1 : bits_of_f64 (f64_of_bits bits_2p52mh) = bits_2p52mh) by (vm_compute; reflexivity).
  assert (H2 : bits_of_f64 (fsub (fadd (f64_of_bits bits_2p52mh) f64_one) f64_one) = bits_2p52m1)
    by (vm_compute; reflexivity).
  split; [exact H1|]. split; [exact H2|].
  intros E. rewrite E, H1 in H2. discriminate H2.
Qed.

(* the premises are inhabited: 0.75 = 3 / 2^2 *)
Lemma f64_0_75_aux :
  binary_float_of_bits_aux 52 11 (Z.of_N bits_0_75) = F754_finite false 6755399441055744 (-53).
Proof. vm_compute. reflexivity. Qed.

Lemma f64_0_75_B2R : Binary.B2R 53 1024 (f64_of_bits bits_0_75) = (IZR 3 / IZR (2 ^ 2))%R.
Proof.
  unfold f64_of_bits, b64_of_bits, binary_float_of_bits.
  rewrite Binary.B2R_FF2B, f64_0_75_aux.
  unfold FF2R, F2R, cond_Zopp, Fnum, Fexp, bpow. simpl Z.pow_pos. change (2 ^ 2)%Z with 4%Z. lra.
Qed.

Example varfloat_grid_0_75 :
  Binary.is_finite 53 1024 (f64_of_bits bits_0_75) = true /\
  Binary.Bsign 53 1024 (f64_of_bits bits_0_75) = false /\
  Binary.B2R 53 1024 (f64_of_bits bits_0_75) = (IZR 3 / IZR (2 ^ 2))%R /\
  bits_of_f64 (fsub (fadd (f64_of_bits bits_0_75) f64_one) f64_one) = bits_0_75 /\
  forall rest, dec_vf (enc_vf (f64_of_bits bits_0_75) ++ rest) = Ok (f64_of_bits bits_0_75) rest.
Proof.
  assert (HF : Binary.is_finite 53 1024 (f64_of_bits bits_0_75) = true) by (vm_compute; reflexivity).
  assert (HS : Binary.Bsign 53 1024 (f64_of_bits bits_0_75) = false) by (vm_compute; reflexivity).
  split; [exact HF|]. split; [exact HS|]. split; [exact f64_0_75_B2R|]. split; [vm_compute; reflexivity|].
  intros rest. apply (varfloat_grid_roundtrip _ 3 2); [lia|lia|vm_compute; discriminate|exact HF|exact HS|].
  exact f64_0_75_B2R.
Qed.

(* 2^-52 = 1 / 2^52: the finest grid, z + 2^k = 2^52 + 1 *)
Lemma f64_2m52_aux :
  binary_float_of_bits_aux 52 11 (Z.of_N bits_2m52) = F754_finite false 4503599627370496 (-104).
Proof. vm_compute. reflexivity. Qed.

Lemma f64_2m52_B2R : Binary.B2R 53 1024 (f64_of_bits bits_2m52) = (IZR 1 / IZR (2 ^ 52))%R.
Proof.
  unfold f64_of_bits, b64_of_bits, binary_float_of_bits.
  rewrite Binary.B2R_FF2B, f64_2m52_aux.
  unfold FF2R, F2R, cond_Zopp, Fnum, Fexp.
  change 4503599627370496%Z with (radix2 ^ 52)%Z. rewrite (IZR_Zpower radix2 52) by lia.
  change (2 ^ 52)%Z with (radix2 ^ 52)%Z. rewrite (IZR_Zpower radix2 52) by lia.
  rewrite <- bpow_plus. change (52 + -104)%Z with (- (52))%Z. rewrite bpow_opp. field.
  apply Rgt_not_eq. apply bpow_gt_0.
Qed.

Example varfloat_grid_2m52 :
  Binary.is_finite 53 1024 (f64_of_bits bits_2m52) = true /\
  Binary.Bsign 53 1024 (f64_of_bits bits_2m52) = false /\
  Binary.B2R 53 1024 (f64_of_bits bits_2m52) = (IZR 1 / IZR (2 ^ 52))%R /\
  bits_of_f64 (fsub (fadd (f64_of_bits bits_2m52) f64_one) f64_one) = bits_2m52 /\
  forall rest, dec_vf (enc_vf (f64_of_bits bits_2m52) ++ rest) = Ok (f64_of_bits bits_2m52) rest.
Proof.
  assert (HF : Binary.is_finite 53 1024 (f64_of_bits bits_2m52) = true) by (vm_compute; reflexivity).
  assert (HS : Binary.Bsign 53 1024 (f64_of_bits bits_2m52) = false) by (vm_compute; reflexivity).
  split; [exact HF|]. split; [exact HS|]. split; [exact f64_2m52_B2R|]. split; [vm_compute; reflexivity|].
  intros rest. apply (varfloat_grid_roundtrip _ 1 52); [lia|lia|vm_compute; discriminate|exact HF|exact HS|].
  exact f64_2m52_B2R.
Qed.

(* the weight form is inhabited too: q2f (3/4) is the float 0x3FE8000000000000 *)
Example varfloat_gridq_0_75 :
  bits_of_f64 (F64.q2f (MiscProofs.gridv 2 3)) = bits_0_75 /\
  F64.f2q (F64.fsub (F64.fadd (F64.q2f (MiscProofs.gridv 2 3)) F64.f64_one) F64.f64_one)
  = MiscProofs.gridv 2 3.
Proof.
  split; [vm_compute; reflexivity|]. apply varfloat_exact_gridq; [lia|lia|vm_compute; discriminate].
Qed.
